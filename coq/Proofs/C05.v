(* Proofs about Model/C05.v (Young's modulus from look-up tables). *)
From Coq Require Import ZArith NArith QArith Qreduction List Bool Lia Lqa
     Permutation.
From Verif Require Import Model.C05.
Import ListNotations.
Open Scope Q_scope.

(* ------------------------------------------------------------------ *)
(* results: option Q up to Qeq                                          *)
(* ------------------------------------------------------------------ *)
Definition oqeq (a b : option Q) : Prop :=
  match a, b with
  | Some x, Some y => x == y
  | None, None => True
  | _, _ => False
  end.

Definition omul (k : Q) (a : option Q) : option Q :=
  match a with Some e => Some (e * k) | None => None end.

Lemma oqeq_refl a : oqeq a a.
Proof. destruct a; simpl; auto with qarith. Qed.

Lemma oqeq_sym a b : oqeq a b -> oqeq b a.
Proof. destruct a, b; simpl; auto with qarith. Qed.

Lemma oqeq_trans a b c : oqeq a b -> oqeq b c -> oqeq a c.
Proof.
  destruct a, b, c; simpl; try tauto. intros H1 H2. now rewrite H1.
Qed.

Lemma omul_compat k k' a b : k == k' -> oqeq a b -> oqeq (omul k a) (omul k' b).
Proof.
  destruct a, b; simpl; try tauto. intros Hk H. now rewrite Hk, H.
Qed.

Lemma F2_refl l : Forall2 oqeq l l.
Proof. induction l; constructor; auto using oqeq_refl. Qed.

Lemma F2_sym l m : Forall2 oqeq l m -> Forall2 oqeq m l.
Proof. induction 1; constructor; auto using oqeq_sym. Qed.

Lemma F2_trans l m n : Forall2 oqeq l m -> Forall2 oqeq m n -> Forall2 oqeq l n.
Proof.
  intros H; revert n. induction H; intros n Hn; inversion Hn; subst;
    constructor; eauto using oqeq_trans.
Qed.

Lemma F2_map {A} (f g : A -> option Q) l :
  (forall a, In a l -> oqeq (f a) (g a)) -> Forall2 oqeq (map f l) (map g l).
Proof.
  induction l as [|a l IH]; simpl; intros H; constructor.
  - apply H; now left.
  - apply IH; intros; apply H; now right.
Qed.

Lemma F2_map_omul k k' l m :
  k == k' -> Forall2 oqeq l m -> Forall2 oqeq (map (omul k) l) (map (omul k') m).
Proof. intros Hk; induction 1; simpl; constructor; auto using omul_compat. Qed.

(* ------------------------------------------------------------------ *)
(* booleans on Q                                                        *)
(* ------------------------------------------------------------------ *)
Lemma Qeq_bool_false x y : Qeq_bool x y = false -> ~ x == y.
Proof. intros H E. apply Qeq_eq_bool in E. congruence. Qed.

Lemma Qle_bool_false x y : Qle_bool x y = false -> y < x.
Proof.
  intros H. apply Qnot_le_lt. intros E. apply Qle_bool_iff in E. congruence.
Qed.

Lemma Qinv_pos d : 0 < d -> 0 < / d.
Proof. apply Qinv_lt_0_compat. Qed.

Lemma div_nonneg_pos l d : 0 < d -> 0 <= l -> 0 <= l / d.
Proof.
  intros Hd Hl. unfold Qdiv. apply Qmult_le_0_compat; auto.
  apply Qlt_le_weak, Qinv_pos; auto.
Qed.

Lemma div_nonneg_neg l d : d < 0 -> l <= 0 -> 0 <= l / d.
Proof.
  intros Hd Hl.
  assert (E : l / d == (- l) / (- d)) by (field; lra).
  rewrite E. apply div_nonneg_pos; lra.
Qed.

Lemma same_sign_div d l : ~ d == 0 -> same_sign d l = true -> 0 <= l / d.
Proof.
  unfold same_sign. intros Hd H. destruct (Qle_bool 0 d) eqn:E.
  - apply Qle_bool_iff in E. apply Qle_bool_iff in H.
    apply div_nonneg_pos; auto. apply Qle_lteq in E. destruct E as [E|E]; auto.
    exfalso; apply Hd; now symmetry.
  - apply Qle_bool_false in E. apply Qle_bool_iff in H.
    apply div_nonneg_neg; auto.
Qed.

Lemma div_same_sign d l : ~ d == 0 -> 0 <= l / d -> same_sign d l = true.
Proof.
  unfold same_sign. intros Hd H. destruct (Qle_bool 0 d) eqn:E.
  - apply Qle_bool_iff in E. apply Qle_bool_iff.
    assert (Hp : 0 < d) by (apply Qle_lteq in E; destruct E as [E|E]; auto;
                            exfalso; apply Hd; now symmetry).
    assert (El : l == (l / d) * d) by (field; auto).
    rewrite El. apply Qmult_le_0_compat; lra.
  - apply Qle_bool_false in E. apply Qle_bool_iff.
    assert (El : l == - ((l / d) * (- d))) by (field; auto).
    rewrite El.
    assert (0 <= (l / d) * (- d)) by (apply Qmult_le_0_compat; lra). lra.
Qed.

(* ------------------------------------------------------------------ *)
(* barycentric interpolation in one triangle                            *)
(* ------------------------------------------------------------------ *)
Lemma cross_sum p a b c :
  cross p b c + cross a p c + cross a b p == cross a b c.
Proof. unfold cross. ring. Qed.

Lemma cross_same_l a c : cross a a c == 0.
Proof. unfold cross. ring. Qed.

Lemma cross_same_r a b : cross a b a == 0.
Proof. unfold cross. ring. Qed.

Lemma cross_mid_same a b : cross a b b == 0.
Proof. unfold cross. ring. Qed.

(* barycentric weights *)
Definition w1 (p a b c : pt) : Q := cross p b c / cross a b c.
Definition w2 (p a b c : pt) : Q := cross a p c / cross a b c.
Definition w3 (p a b c : pt) : Q := cross a b p / cross a b c.

Lemma weights_sum p a b c :
  ~ cross a b c == 0 -> w1 p a b c + w2 p a b c + w3 p a b c == 1.
Proof.
  intros Hd. unfold w1, w2, w3.
  assert (E : cross p b c / cross a b c + cross a p c / cross a b c
              + cross a b p / cross a b c
              == (cross p b c + cross a p c + cross a b p) / cross a b c)
    by (field; auto).
  rewrite E, cross_sum. field; auto.
Qed.

Lemma interp3_weights p a b c va vb vc :
  ~ cross a b c == 0 ->
  interp3 p a b c va vb vc
  == w1 p a b c * va + w2 p a b c * vb + w3 p a b c * vc.
Proof. intros Hd. unfold interp3, w1, w2, w3. field; auto. Qed.

(* the weights reproduce the point: the interpolant is THE affine function
   through the three nodes, evaluated at p *)
Lemma weights_point_x p a b c :
  ~ cross a b c == 0 ->
  w1 p a b c * fst a + w2 p a b c * fst b + w3 p a b c * fst c == fst p.
Proof. intros Hd. unfold w1, w2, w3, cross. field; auto. Qed.

Lemma weights_point_y p a b c :
  ~ cross a b c == 0 ->
  w1 p a b c * snd a + w2 p a b c * snd b + w3 p a b c * snd c == snd p.
Proof. intros Hd. unfold w1, w2, w3, cross. field; auto. Qed.

Lemma inside_spec p a b c :
  inside p a b c = true <->
  ~ cross a b c == 0 /\ 0 <= w1 p a b c /\ 0 <= w2 p a b c /\ 0 <= w3 p a b c.
Proof.
  unfold inside, w1, w2, w3. split.
  - intros H. apply andb_prop in H; destruct H as [H H3].
    apply andb_prop in H; destruct H as [H H2].
    apply andb_prop in H; destruct H as [H0 H1].
    apply negb_true_iff in H0. apply Qeq_bool_false in H0.
    repeat split; auto using same_sign_div.
  - intros (Hd & H1 & H2 & H3).
    rewrite !andb_true_iff, negb_true_iff. repeat split.
    + destruct (Qeq_bool (cross a b c) 0) eqn:E; auto.
      apply Qeq_bool_iff in E. contradiction.
    + apply div_same_sign; auto.
    + apply div_same_sign; auto.
    + apply div_same_sign; auto.
Qed.

(* interpolation at a node returns the node's value *)
Lemma interp_at_node_a a b c va vb vc :
  ~ cross a b c == 0 ->
  inside a a b c = true /\ interp3 a a b c va vb vc == va.
Proof.
  intros Hd. split.
  - apply inside_spec. unfold w1, w2, w3.
    rewrite cross_same_l, cross_same_r. repeat split; auto.
    + assert (E : cross a b c / cross a b c == 1) by (field; auto). rewrite E. lra.
    + assert (E : 0 / cross a b c == 0) by (field; auto). rewrite E. lra.
    + assert (E : 0 / cross a b c == 0) by (field; auto). rewrite E. lra.
  - unfold interp3. rewrite cross_same_l, cross_same_r. field; auto.
Qed.

Lemma cross_b a b c : cross b b c == 0 /\ cross a b b == 0.
Proof. unfold cross. split; ring. Qed.

Lemma interp_at_node_b a b c va vb vc :
  ~ cross a b c == 0 ->
  inside b a b c = true /\ interp3 b a b c va vb vc == vb.
Proof.
  intros Hd. destruct (cross_b a b c) as [E1 E2]. split.
  - apply inside_spec. unfold w1, w2, w3. rewrite E1, E2. repeat split; auto.
    + assert (E : 0 / cross a b c == 0) by (field; auto). rewrite E. lra.
    + assert (E : cross a b c / cross a b c == 1) by (field; auto). rewrite E. lra.
    + assert (E : 0 / cross a b c == 0) by (field; auto). rewrite E. lra.
  - unfold interp3. rewrite E1, E2. field; auto.
Qed.

Lemma cross_c a b c : cross c b c == 0 /\ cross a c c == 0.
Proof. unfold cross. split; ring. Qed.

Lemma interp_at_node_c a b c va vb vc :
  ~ cross a b c == 0 ->
  inside c a b c = true /\ interp3 c a b c va vb vc == vc.
Proof.
  intros Hd. destruct (cross_c a b c) as [E1 E2]. split.
  - apply inside_spec. unfold w1, w2, w3. rewrite E1, E2. repeat split; auto.
    + assert (E : 0 / cross a b c == 0) by (field; auto). rewrite E. lra.
    + assert (E : 0 / cross a b c == 0) by (field; auto). rewrite E. lra.
    + assert (E : cross a b c / cross a b c == 1) by (field; auto). rewrite E. lra.
  - unfold interp3. rewrite E1, E2. field; auto.
Qed.

(* the interpolated value lies between the smallest and the largest of the
   three node values *)
Lemma interp_between p a b c va vb vc lo hi :
  inside p a b c = true ->
  lo <= va -> lo <= vb -> lo <= vc -> va <= hi -> vb <= hi -> vc <= hi ->
  lo <= interp3 p a b c va vb vc <= hi.
Proof.
  intros Hin La Lb Lc Ha Hb Hc.
  apply inside_spec in Hin. destruct Hin as (Hd & H1 & H2 & H3).
  rewrite (interp3_weights p a b c va vb vc Hd).
  pose proof (weights_sum p a b c Hd) as Hs.
  set (x1 := w1 p a b c) in *. set (x2 := w2 p a b c) in *.
  set (x3 := w3 p a b c) in *.
  assert (0 <= x1 * (va - lo)) by (apply Qmult_le_0_compat; lra).
  assert (0 <= x2 * (vb - lo)) by (apply Qmult_le_0_compat; lra).
  assert (0 <= x3 * (vc - lo)) by (apply Qmult_le_0_compat; lra).
  assert (0 <= x1 * (hi - va)) by (apply Qmult_le_0_compat; lra).
  assert (0 <= x2 * (hi - vb)) by (apply Qmult_le_0_compat; lra).
  assert (0 <= x3 * (hi - vc)) by (apply Qmult_le_0_compat; lra).
  assert (E1 : x1 * va + x2 * vb + x3 * vc
               == lo * (x1 + x2 + x3) + x1 * (va - lo) + x2 * (vb - lo)
                  + x3 * (vc - lo)) by ring.
  assert (E2 : x1 * va + x2 * vb + x3 * vc
               == hi * (x1 + x2 + x3) - x1 * (hi - va) - x2 * (hi - vb)
                  - x3 * (hi - vc)) by ring.
  split.
  - rewrite E1, Hs. lra.
  - rewrite E2, Hs. lra.
Qed.

(* linearity in the node values *)
Lemma interp3_scale p a b c va vb vc k :
  ~ cross a b c == 0 ->
  interp3 p a b c (va * k) (vb * k) (vc * k) == interp3 p a b c va vb vc * k.
Proof. intros Hd. unfold interp3. field; auto. Qed.

Lemma interp3_compat p a b c va vb vc va' vb' vc' :
  va == va' -> vb == vb' -> vc == vc' ->
  interp3 p a b c va vb vc == interp3 p a b c va' vb' vc'.
Proof. intros E1 E2 E3. unfold interp3. now rewrite E1, E2, E3. Qed.

(* on a common edge the value does not depend on the triangle: if p lies on
   the line a b, the third node and its value do not matter *)
Lemma interp_on_edge p a b c c' va vb vc vc' :
  ~ cross a b c == 0 -> ~ cross a b c' == 0 ->
  cross a b p == 0 ->
  interp3 p a b c va vb vc == interp3 p a b c' va vb vc'.
Proof.
  intros Hd Hd' Hp.
  rewrite (interp3_weights p a b c va vb vc Hd).
  rewrite (interp3_weights p a b c' va vb vc' Hd').
  pose proof (weights_sum p a b c Hd) as S1.
  pose proof (weights_sum p a b c' Hd') as S2.
  pose proof (weights_point_x p a b c Hd) as X1.
  pose proof (weights_point_x p a b c' Hd') as X2.
  pose proof (weights_point_y p a b c Hd) as Y1.
  pose proof (weights_point_y p a b c' Hd') as Y2.
  assert (Z1 : w3 p a b c == 0) by (unfold w3; rewrite Hp; field; auto).
  assert (Z2 : w3 p a b c' == 0) by (unfold w3; rewrite Hp; field; auto).
  rewrite Z1, Z2 in *.
  set (u1 := w1 p a b c) in *. set (u2 := w2 p a b c) in *.
  set (t1 := w1 p a b c') in *. set (t2 := w2 p a b c') in *.
  (* u1 + u2 = 1 = t1 + t2 and u1 a + u2 b = p = t1 a + t2 b with a <> b *)
  assert (Hab : ~ (fst a == fst b /\ snd a == snd b)).
  { intros [E1 E2]. apply Hd. unfold cross. rewrite E1, E2. ring. }
  assert (U2 : u2 == 1 - u1) by lra.
  assert (T2 : t2 == 1 - t1) by lra.
  assert (Dx : (u1 - t1) * (fst a - fst b) == 0).
  { rewrite U2 in X1. rewrite T2 in X2.
    assert (E : (u1 - t1) * (fst a - fst b)
                == (u1 * fst a + (1 - u1) * fst b + 0 * fst c)
                   - (t1 * fst a + (1 - t1) * fst b + 0 * fst c')) by ring.
    rewrite E, X1, X2. ring. }
  assert (Dy : (u1 - t1) * (snd a - snd b) == 0).
  { rewrite U2 in Y1. rewrite T2 in Y2.
    assert (E : (u1 - t1) * (snd a - snd b)
                == (u1 * snd a + (1 - u1) * snd b + 0 * snd c)
                   - (t1 * snd a + (1 - t1) * snd b + 0 * snd c')) by ring.
    rewrite E, Y1, Y2. ring. }
  assert (Eu : u1 == t1).
  { destruct (Qeq_dec u1 t1) as [E|N]; auto. exfalso. apply Hab.
    apply Qmult_integral in Dx. apply Qmult_integral in Dy.
    destruct Dx as [Dx|Dx]; [exfalso; apply N; lra|].
    destruct Dy as [Dy|Dy]; [exfalso; apply N; lra|].
    split; lra. }
  rewrite U2, T2, Eu. ring.
Qed.

(* ------------------------------------------------------------------ *)
(* find_tri: interpolation in a triangulation                           *)
(* ------------------------------------------------------------------ *)
(* the triangle (with node data) an index triple denotes *)
Definition tri_nodes (nn : list nnode) (t : triangle)
  : option (nnode * nnode * nnode) :=
  match t with
  | (i, j, k) =>
      match get nn i, get nn j, get nn k with
      | Some a, Some b, Some c => Some (a, b, c)
      | _, _, _ => None
      end
  end.

Definition contains (p : pt) (nn : list nnode) (t : triangle) : bool :=
  match tri_nodes nn t with
  | Some (a, b, c) => inside p (fst a) (fst b) (fst c)
  | None => false
  end.

Definition value_in (p : pt) (nn : list nnode) (t : triangle) : Q :=
  match tri_nodes nn t with
  | Some (a, b, c) => interp3 p (fst a) (fst b) (fst c) (snd a) (snd b) (snd c)
  | None => 0
  end.

Lemma find_tri_cons p nn t r :
  find_tri p nn (t :: r)
  = if contains p nn t then Some (value_in p nn t) else find_tri p nn r.
Proof.
  destruct t as [[i j] k]. unfold contains, value_in, tri_nodes. simpl.
  destruct (get nn i) as [[a va]|]; [|reflexivity].
  destruct (get nn j) as [[b vb]|]; [|reflexivity].
  destruct (get nn k) as [[c vc]|]; reflexivity.
Qed.

(* NaN exactly when no triangle of the triangulation contains the point *)
Lemma find_tri_none p nn ts :
  find_tri p nn ts = None <-> forall t, In t ts -> contains p nn t = false.
Proof.
  induction ts as [|t r IH].
  - simpl. split; auto. intros _ t [].
  - rewrite find_tri_cons. destruct (contains p nn t) eqn:E.
    + split; [discriminate|]. intros H. specialize (H t (or_introl eq_refl)).
      congruence.
    + rewrite IH. split.
      * intros H t' [<-|Hin]; auto.
      * intros H t' Hin. apply H. now right.
Qed.

(* a finite result is the barycentric interpolation in a triangle of the
   triangulation that contains the point (the first one) *)
Lemma find_tri_some p nn ts e :
  find_tri p nn ts = Some e ->
  exists t, In t ts /\ contains p nn t = true /\ e = value_in p nn t.
Proof.
  induction ts as [|t r IH]; [discriminate|].
  rewrite find_tri_cons. destruct (contains p nn t) eqn:E.
  - intros H; inversion H; subst. exists t. repeat split; auto. now left.
  - intros H. destruct (IH H) as (t' & Hin & Hc & Hv). exists t'.
    repeat split; auto. now right.
Qed.

Lemma find_tri_some_iff p nn ts :
  (exists e, find_tri p nn ts = Some e) <->
  exists t, In t ts /\ contains p nn t = true.
Proof.
  split.
  - intros [e H]. destruct (find_tri_some _ _ _ _ H) as (t & ? & ? & _). eauto.
  - intros (t & Hin & Hc). destruct (find_tri p nn ts) eqn:E; eauto.
    rewrite find_tri_none in E. rewrite (E t Hin) in Hc. discriminate.
Qed.

(* node values multiplied by a constant (up to Qeq), same points *)
Definition vrel (k : Q) (n n' : nnode) : Prop :=
  fst n = fst n' /\ snd n' == snd n * k.

Lemma F2_nth_error {A B} (R : A -> B -> Prop) l m i :
  Forall2 R l m ->
  match nth_error l i, nth_error m i with
  | Some a, Some b => R a b
  | None, None => True
  | _, _ => False
  end.
Proof.
  intros H; revert i. induction H; intros [|i]; simpl; auto. apply IHForall2.
Qed.

Lemma tri_nodes_rel k nn nn' t :
  Forall2 (vrel k) nn nn' ->
  match tri_nodes nn t, tri_nodes nn' t with
  | Some (a, b, c), Some (a', b', c') => vrel k a a' /\ vrel k b b' /\ vrel k c c'
  | None, None => True
  | _, _ => False
  end.
Proof.
  intros H. destruct t as [[i j] k0]. unfold tri_nodes, get.
  pose proof (F2_nth_error _ _ _ (N.to_nat i) H) as Hi.
  pose proof (F2_nth_error _ _ _ (N.to_nat j) H) as Hj.
  pose proof (F2_nth_error _ _ _ (N.to_nat k0) H) as Hk.
  destruct (nth_error nn (N.to_nat i)), (nth_error nn' (N.to_nat i));
    try contradiction; auto;
  destruct (nth_error nn (N.to_nat j)), (nth_error nn' (N.to_nat j));
    try contradiction; auto;
  destruct (nth_error nn (N.to_nat k0)), (nth_error nn' (N.to_nat k0));
    try contradiction; auto.
Qed.

Lemma inside_nondeg p a b c : inside p a b c = true -> ~ cross a b c == 0.
Proof. intros H. apply inside_spec in H. tauto. Qed.

Lemma find_tri_scale k nn nn' p ts :
  Forall2 (vrel k) nn nn' ->
  oqeq (find_tri p nn' ts) (omul k (find_tri p nn ts)).
Proof.
  intros H. induction ts as [|t r IH]; [simpl; auto|].
  rewrite !find_tri_cons. unfold contains, value_in.
  pose proof (tri_nodes_rel k nn nn' t H) as Ht.
  destruct (tri_nodes nn t) as [[[a b] c]|], (tri_nodes nn' t) as [[[a' b'] c']|];
    try contradiction; auto.
  destruct Ht as ((Ea & Va) & (Eb & Vb) & (Ec & Vc)).
  rewrite <- Ea, <- Eb, <- Ec.
  destruct (inside p (fst a) (fst b) (fst c)) eqn:Hin; auto.
  simpl. rewrite <- (interp3_scale p _ _ _ _ _ _ k (inside_nondeg _ _ _ _ Hin)).
  apply interp3_compat; auto.
Qed.

(* ------------------------------------------------------------------ *)
(* the scaling laws                                                     *)
(* ------------------------------------------------------------------ *)
Definition xfactor (f : feat) (cwi cwo : Q) : Q :=
  match f with Area => sq (cwo / cwi) | Volume => cube (cwo / cwi) end.

Lemma scale_featx_eq f x cwi cwo :
  ~ cwi == 0 -> scale_featx f x cwi cwo == x * xfactor f cwi cwo.
Proof.
  intros Hc. destruct f; simpl; unfold scale_area, scale_volume.
  - destruct (Qeq_bool cwi cwo) eqn:E; [|reflexivity].
    apply Qeq_bool_iff in E. unfold sq. rewrite <- E. field; auto.
  - destruct (Qeq_bool cwi cwo) eqn:E; [|reflexivity].
    apply Qeq_bool_iff in E. unfold cube. rewrite <- E. field; auto.
Qed.

Lemma xfactor_pos f cwi cwo : 0 < cwi -> 0 < cwo -> 0 < xfactor f cwi cwo.
Proof.
  intros Hi Ho.
  assert (Hr : 0 < cwo / cwi).
  { unfold Qdiv. apply Qmult_lt_0_compat; auto. now apply Qinv_pos. }
  destruct f; simpl; unfold sq, cube.
  - apply Qmult_lt_0_compat; auto.
  - apply Qmult_lt_0_compat; auto. apply Qmult_lt_0_compat; auto.
Qed.

Lemma scale_emod_eq arr e cwi cwo fri fro vi vo :
  ~ cwi == 0 -> ~ cwo == 0 -> ~ fri == 0 -> ~ vi == 0 ->
  scale_emod arr e cwi cwo fri fro vi vo
  == e * emod_factor cwi cwo fri fro vi vo.
Proof.
  intros Hci Hco Hf Hv. unfold scale_emod.
  destruct (has_changes arr cwi cwo fri fro vi vo) eqn:E; [reflexivity|].
  unfold has_changes in E.
  apply orb_false_elim in E; destruct E as [E E3].
  apply orb_false_elim in E; destruct E as [E1 E2].
  apply orb_false_elim in E3; destruct E3 as [_ E3].
  apply negb_false_iff, Qeq_bool_iff in E1.
  apply negb_false_iff, Qeq_bool_iff in E2.
  apply negb_false_iff, Qeq_bool_iff in E3.
  unfold emod_factor, cube. rewrite <- E1, <- E2, <- E3. field. auto.
Qed.

(* ------------------------------------------------------------------ *)
(* maximum of a list and scaling                                        *)
(* ------------------------------------------------------------------ *)
Lemma qmax_rel s x x' y y' :
  0 < s -> x' == x * s -> y' == y * s -> qmax x' y' == qmax x y * s.
Proof.
  intros Hs Hx Hy. unfold qmax.
  destruct (Qle_bool x' y') eqn:E1, (Qle_bool x y) eqn:E2; auto.
  - apply Qle_bool_iff in E1. apply Qle_bool_false in E2.
    rewrite Hx, Hy in E1. nra.
  - apply Qle_bool_iff in E2. apply Qle_bool_false in E1.
    rewrite Hx, Hy in E1. nra.
Qed.

Definition srel (s : Q) (y y' : Q) : Prop := y' == y * s.

Lemma fold_qmax_rel s r r' :
  0 < s -> Forall2 (srel s) r r' ->
  forall x x', x' == x * s ->
               fold_left qmax r' x' == fold_left qmax r x * s.
Proof.
  intros Hs H. induction H as [|y y' r r' Hy Hr IH]; intros x x' Hx; simpl; auto.
  apply IH. apply qmax_rel; auto.
Qed.

Lemma lmax_rel s l l' :
  0 < s -> Forall2 (srel s) l l' -> lmax l' == lmax l * s.
Proof.
  intros Hs H. destruct H as [|y y' r r' Hy Hr]; simpl.
  - ring.
  - apply fold_qmax_rel; auto.
Qed.

Lemma qmax_ge_l x y : x <= qmax x y.
Proof.
  unfold qmax. destruct (Qle_bool x y) eqn:E.
  - now apply Qle_bool_iff in E.
  - apply Qle_refl.
Qed.

Lemma qmax_ge_r x y : y <= qmax x y.
Proof.
  unfold qmax. destruct (Qle_bool x y) eqn:E.
  - apply Qle_refl.
  - apply Qle_bool_false in E. lra.
Qed.

Lemma fold_qmax_ge r : forall x, x <= fold_left qmax r x.
Proof.
  induction r as [|y r IH]; intros x; simpl.
  - apply Qle_refl.
  - eapply Qle_trans; [apply (qmax_ge_l x y)|apply IH].
Qed.

Lemma fold_qmax_ge_all r : forall x y, In y r -> y <= fold_left qmax r x.
Proof.
  induction r as [|z r IH]; intros x y []; simpl.
  - subst. eapply Qle_trans; [apply (qmax_ge_r x y)|apply fold_qmax_ge].
  - now apply IH.
Qed.

(* lmax is an upper bound and is attained *)
Lemma lmax_ge l y : In y l -> y <= lmax l.
Proof.
  destruct l as [|x r]; intros []; simpl.
  - subst. apply fold_qmax_ge.
  - now apply fold_qmax_ge_all.
Qed.

Lemma fold_qmax_in r : forall x, fold_left qmax r x = x \/ In (fold_left qmax r x) r.
Proof.
  induction r as [|y r IH]; intros x; simpl; auto.
  destruct (IH (qmax x y)) as [E|E]; auto.
  rewrite E. unfold qmax. destruct (Qle_bool x y); auto.
Qed.

Lemma lmax_in l : l <> [] -> In (lmax l) l.
Proof.
  destruct l as [|x r]; [congruence|]. intros _. simpl.
  destruct (fold_qmax_in r x) as [E|E]; auto.
Qed.

Lemma lmax_pos l : l <> [] -> Forall (fun y => 0 < y) l -> 0 < lmax l.
Proof.
  intros Hn Hp. rewrite Forall_forall in Hp. apply Hp. now apply lmax_in.
Qed.

(* ------------------------------------------------------------------ *)
(* normalisation                                                        *)
(* ------------------------------------------------------------------ *)
Lemma normq_scale x x' m m' s :
  ~ s == 0 -> ~ m == 0 -> x' == x * s -> m' == m * s ->
  normq x' m' = normq x m.
Proof.
  intros Hs Hm Hx Hm'. unfold normq. apply Qred_complete.
  rewrite Hx, Hm'. field. auto.
Qed.

Lemma normq_compat x x' m : x == x' -> normq x m = normq x' m.
Proof. intros H. unfold normq. apply Qred_complete. now rewrite H. Qed.

Lemma F2_map_same {A B C} (R : B -> C -> Prop) (f : A -> B) (g : A -> C) l :
  (forall a, In a l -> R (f a) (g a)) -> Forall2 R (map f l) (map g l).
Proof.
  induction l as [|a l IH]; simpl; intros H; constructor.
  - apply H; now left.
  - apply IH; intros; apply H; now right.
Qed.

Lemma F2_vrel_fst k nn nn' : Forall2 (vrel k) nn nn' -> map fst nn = map fst nn'.
Proof. induction 1 as [|n n' ? ? [E _]]; simpl; congruence. Qed.

(* ------------------------------------------------------------------ *)
(* well-formed inputs                                                   *)
(* ------------------------------------------------------------------ *)
Record lut_ok (L : lut) : Prop := {
  ok_ne : l_nodes L <> [];
  ok_x : Forall (fun n => 0 < nx n) (l_nodes L);
  ok_d : Forall (fun n => 0 < nd n) (l_nodes L);   (* numpy: x / 0 is inf/nan,
                                                      in Q it is 0 *)
  ok_cw : 0 < l_cw L;
  ok_fr : 0 < l_fr L;
  ok_visc : 0 < l_visc L
}.

Definition setup_ok (S : setup) : Prop := 0 < s_cw S.

Lemma lut_xmax_pos L : lut_ok L -> 0 < lmax (map nx (l_nodes L)).
Proof.
  intros H. apply lmax_pos.
  - destruct (l_nodes L) eqn:E; simpl; [exfalso; now apply (ok_ne L H)|congruence].
  - apply Forall_forall. intros y Hy. apply in_map_iff in Hy.
    destruct Hy as (n & <- & Hn). pose proof (ok_x L H) as Hx.
    rewrite Forall_forall in Hx. now apply Hx.
Qed.

Lemma pos_neq0 x : 0 < x -> ~ x == 0.
Proof. intros H E. rewrite E in H. now apply Qlt_irrefl in H. Qed.

Section Routes.
  Variable tri : list pt -> list triangle.
  Variable delta : feat -> Q -> Q -> Q.
  Variable eta : Q -> Q.

  Notation pxcorr := (pxcorr delta).
  Notation spec_emod := (spec_emod tri delta).
  Notation route_scalar := (route_scalar tri delta).
  Notation route_array := (route_array tri delta).
  Notation get_emodulus := (get_emodulus tri delta eta).

  (* the abscissa the spec looks up: the event scaled to the LUT's channel *)
  Definition spec_x (L : lut) (S : setup) (ev : event) : Q :=
    fst ev * xfactor (l_feat L) (s_cw S) (l_cw L).

  Lemma spec_emod_unfold L S v ev :
    spec_emod L S v ev
    = omul (emod_factor (l_cw L) (s_cw S) (l_fr L) (s_fr S) (l_visc L) v)
           (find_tri (normq (spec_x L S ev) (lmax (map nx (l_nodes L))),
                      normq (pxcorr (l_feat L) (s_px S) (fst ev) (snd ev))
                            (lmax (map nd (l_nodes L))))
                     (normalize_nodes (l_nodes L))
                     (tri (map fst (normalize_nodes (l_nodes L))))).
  Proof.
    unfold C05.spec_emod, spec_x, xfactor, omul. destruct (l_feat L); reflexivity.
  Qed.

  Lemma xfactor_inv f a b :
    0 < a -> 0 < b -> xfactor f a b * xfactor f b a == 1.
  Proof.
    intros Ha Hb. apply pos_neq0 in Ha. apply pos_neq0 in Hb.
    destruct f; simpl; unfold sq, cube; field; auto.
  Qed.

  (* ---- route 1: the LUT is scaled ---------------------------------- *)
  Lemma scaled_nodes_nd L S v : map nd (scaled_nodes L S v) = map nd (l_nodes L).
  Proof. unfold scaled_nodes. rewrite map_map. apply map_ext. reflexivity. Qed.

  Lemma scaled_nodes_nx L S v :
    lut_ok L ->
    Forall2 (srel (xfactor (l_feat L) (l_cw L) (s_cw S)))
            (map nx (l_nodes L)) (map nx (scaled_nodes L S v)).
  Proof.
    intros HL. unfold scaled_nodes. rewrite map_map. apply F2_map_same.
    intros n _. unfold srel, nx at 1. simpl.
    apply scale_featx_eq. apply pos_neq0, (ok_cw L HL).
  Qed.

  Lemma scaled_normalized L S v :
    lut_ok L -> setup_ok S ->
    Forall2 (vrel (emod_factor (l_cw L) (s_cw S) (l_fr L) (s_fr S) (l_visc L) v))
            (normalize_nodes (l_nodes L))
            (normalize_nodes (scaled_nodes L S v)).
  Proof.
    intros HL HSc.
    pose proof (lut_xmax_pos L HL) as Hxm.
    pose proof (xfactor_pos (l_feat L) (l_cw L) (s_cw S) (ok_cw L HL) HSc) as Hs.
    pose proof (lmax_rel _ _ _ Hs (scaled_nodes_nx L S v HL)) as Hm.
    unfold normalize_nodes. rewrite scaled_nodes_nd.
    unfold scaled_nodes at 2. rewrite map_map. apply F2_map_same.
    intros n _. split; simpl.
    - f_equal.
      symmetry. eapply normq_scale; [apply pos_neq0, Hs|apply pos_neq0, Hxm| |apply Hm].
      unfold nx at 1; simpl. apply scale_featx_eq. apply pos_neq0, (ok_cw L HL).
    - unfold ne at 1; simpl. apply scale_emod_eq; apply pos_neq0;
        auto using (ok_cw L HL), (ok_fr L HL), (ok_visc L HL).
  Qed.

  (* the removed route (scale the LUT) is equivalent to the specification *)
  Theorem route_scale_lut_spec L S v evs :
    lut_ok L -> setup_ok S ->
    Forall2 oqeq (route_scale_lut tri delta L S v evs)
            (map (spec_emod L S v) evs).
  Proof.
    intros HL HSc. pose proof (scaled_normalized L S v HL HSc) as Hn.
    pose proof (lut_xmax_pos L HL) as Hxm.
    pose proof (xfactor_pos (l_feat L) (l_cw L) (s_cw S) (ok_cw L HL) HSc) as Hs.
    pose proof (lmax_rel _ _ _ Hs (scaled_nodes_nx L S v HL)) as Hm.
    unfold C05.route_scale_lut. apply F2_map. intros ev _.
    rewrite spec_emod_unfold. rewrite scaled_nodes_nd.
    rewrite <- (F2_vrel_fst _ _ _ Hn).
    assert (Ex : normq (fst ev) (lmax (map nx (scaled_nodes L S v)))
                 = normq (spec_x L S ev) (lmax (map nx (l_nodes L)))).
    { unfold normq. apply Qred_complete. rewrite Hm. unfold spec_x.
      pose proof (xfactor_inv (l_feat L) (l_cw L) (s_cw S) (ok_cw L HL) HSc) as Hi.
      set (a := xfactor (l_feat L) (l_cw L) (s_cw S)) in *.
      set (b := xfactor (l_feat L) (s_cw S) (l_cw L)) in *.
      assert (Eb : b == / a).
      { apply pos_neq0 in Hs.
        assert (E : b == (a * b) / a) by (field; auto). rewrite E, Hi. field; auto. }
      rewrite Eb. field. split; apply pos_neq0; auto. }
    rewrite Ex. apply find_tri_scale. exact Hn.
  Qed.

  (* ---- route 2: the data are scaled, the result is scaled back ------ *)
  Lemma data_event_spec arr L S ev v :
    lut_ok L -> setup_ok S ->
    oqeq (data_event delta arr L S (lmax (map nx (l_nodes L)))
                     (lmax (map nd (l_nodes L)))
                     (normalize_nodes (l_nodes L))
                     (tri (map fst (normalize_nodes (l_nodes L)))) ev v)
         (spec_emod L S v ev).
  Proof.
    intros HL HSc. rewrite spec_emod_unfold. unfold data_event, point_event.
    assert (Ex : normq (scale_featx (l_feat L) (fst ev) (s_cw S) (l_cw L))
                       (lmax (map nx (l_nodes L)))
                 = normq (spec_x L S ev) (lmax (map nx (l_nodes L)))).
    { apply normq_compat. apply scale_featx_eq. now apply pos_neq0. }
    rewrite Ex.
    destruct (find_tri _ _ _) as [e|]; simpl; auto.
    apply scale_emod_eq; apply pos_neq0;
      auto using (ok_cw L HL), (ok_fr L HL), (ok_visc L HL).
  Qed.

  Lemma array_event_spec L S ev v :
    lut_ok L -> setup_ok S ->
    oqeq (array_event delta L S (lmax (map nx (l_nodes L)))
                      (lmax (map nd (l_nodes L)))
                      (normalize_nodes (l_nodes L))
                      (tri (map fst (normalize_nodes (l_nodes L)))) ev v)
         (spec_emod L S v ev).
  Proof. apply data_event_spec. Qed.

  (* global viscosity: every event is the specification *)
  Theorem route_scalar_spec L S v evs :
    lut_ok L -> setup_ok S ->
    Forall2 oqeq (route_scalar L S v evs) (map (spec_emod L S v) evs).
  Proof.
    intros HL HS. unfold C05.route_scalar. apply F2_map. intros ev _.
    now apply data_event_spec.
  Qed.

  (* scaling the LUT instead of the data (the route removed by the fix)
     gives the same values *)
  Theorem route_scale_lut_agrees L S v evs :
    lut_ok L -> setup_ok S ->
    Forall2 oqeq (route_scale_lut tri delta L S v evs) (route_scalar L S v evs).
  Proof.
    intros HL HS. eapply F2_trans; [apply route_scale_lut_spec; auto|].
    apply F2_sym, route_scalar_spec; auto.
  Qed.

  Lemma map2_F2 {A B} (f g : A -> B -> option Q) l m :
    (forall a b, oqeq (f a b) (g a b)) ->
    Forall2 oqeq (map2 f l m) (map2 g l m).
  Proof.
    intros H. revert m. induction l as [|a l IH]; intros [|b m]; simpl;
      constructor; auto.
  Qed.

  Theorem route_array_spec L S vs evs vs' :
    lut_ok L -> setup_ok S ->
    broadcast vs (length evs) = Some vs' ->
    exists r, route_array L S vs evs = Some r /\
              Forall2 oqeq r (map2 (fun ev v => spec_emod L S v ev) evs vs').
  Proof.
    intros HL HS Hb. unfold C05.route_array. rewrite Hb.
    eexists; split; [reflexivity|].
    apply map2_F2. intros ev v. now apply array_event_spec.
  Qed.
End Routes.

(* ------------------------------------------------------------------ *)
(* results of a whole call, up to Qeq                                   *)
(* ------------------------------------------------------------------ *)
Definition req (a b : option (list (option Q))) : Prop :=
  match a, b with
  | Some x, Some y => Forall2 oqeq x y
  | None, None => True
  | _, _ => False
  end.

Definition rmul (k : Q) (a : option (list (option Q))) :=
  match a with Some l => Some (map (omul k) l) | None => None end.

Lemma omul_omul j k a : oqeq (omul k (omul j a)) (omul (j * k) a).
Proof. destruct a; simpl; auto. ring. Qed.

Lemma map2_repeat {A B C} (f : A -> B -> C) l v :
  map2 f l (repeat v (length l)) = map (fun a => f a v) l.
Proof. induction l; simpl; congruence. Qed.

Lemma map_repeat' {A B} (f : A -> B) v n : map f (repeat v n) = repeat (f v) n.
Proof. induction n; simpl; congruence. Qed.

Lemma broadcast_same vs n : length vs = n -> broadcast vs n = Some vs.
Proof. intros H. unfold broadcast. rewrite H, Nat.eqb_refl. reflexivity. Qed.

Lemma broadcast_single v n : broadcast [v] n = Some (repeat v n).
Proof.
  destruct n as [|[|n]]; reflexivity.
Qed.

Lemma map2_app {A B C} (f : A -> B -> C) l1 l2 m1 m2 :
  length l1 = length m1 ->
  map2 f (l1 ++ l2) (m1 ++ m2) = map2 f l1 m1 ++ map2 f l2 m2.
Proof.
  revert m1. induction l1 as [|a l1 IH]; intros [|b m1]; simpl; try discriminate; auto.
  intros H. f_equal. apply IH. congruence.
Qed.

Lemma map2_nth_error {A B C} (f : A -> B -> C) l m i a b :
  nth_error l i = Some a -> nth_error m i = Some b ->
  nth_error (map2 f l m) i = Some (f a b).
Proof.
  revert m i. induction l as [|a' l IH]; intros [|b' m] [|i]; simpl;
    try discriminate; auto.
  intros H1 H2. congruence.
Qed.

Section Theorems.
  Variable tri : list pt -> list triangle.
  Variable delta : feat -> Q -> Q -> Q.
  Variable eta : Q -> Q.

  Notation pxcorr := (pxcorr delta).
  Notation spec_emod := (spec_emod tri delta).
  Notation route_scalar := (route_scalar tri delta).
  Notation route_array := (route_array tri delta).
  Notation get_emodulus := (get_emodulus tri delta eta).

  (* === both routes compute the same ================================= *)
  Theorem routes_agree L S v evs vs :
    lut_ok L -> setup_ok S ->
    vs = repeat v (length evs) \/ vs = [v] ->
    exists r, route_array L S vs evs = Some r /\
              Forall2 oqeq r (route_scalar L S v evs).
  Proof.
    intros HL HS Hvs.
    assert (Hb : broadcast vs (length evs) = Some (repeat v (length evs))).
    { destruct Hvs as [->| ->].
      - apply broadcast_same, repeat_length.
      - apply broadcast_single. }
    destruct (route_array_spec tri delta L S vs evs _ HL HS Hb) as (r & Hr & HF).
    exists r. split; auto.
    rewrite map2_repeat in HF.
    eapply F2_trans; [exact HF|]. apply F2_sym.
    apply route_scalar_spec; auto.
  Qed.

  (* === temperature given per event or globally ====================== *)
  Theorem scalar_vs_array_temperature L S t evs :
    lut_ok L -> setup_ok S -> evs <> [] ->
    req (get_emodulus L S (MTempArray (repeat t (length evs))) evs)
        (get_emodulus L S (MTempScalar t) evs).
  Proof.
    intros HL HS Hne. destruct evs as [|ev evs]; [congruence|].
    cbn [length repeat C05.get_emodulus].
    change (t :: repeat t (length evs)) with (repeat t (length (ev :: evs))).
    rewrite map_repeat'.
    destruct (routes_agree L S (eta t) (ev :: evs) _ HL HS (or_introl eq_refl))
      as (r & Hr & HF).
    rewrite Hr. exact HF.
  Qed.

  (* === the value of an event does not depend on the batch =========== *)
  Definition scalar_medium (m : medium) : bool :=
    match m with MTempArray _ => false | _ => true end.

  Definition rapp (a b : option (list (option Q))) :=
    match a, b with Some x, Some y => Some (x ++ y) | _, _ => None end.

  Theorem per_event_scalar L S m e1 e2 :
    scalar_medium m = true ->
    get_emodulus L S m (e1 ++ e2)
    = rapp (get_emodulus L S m e1) (get_emodulus L S m e2).
  Proof.
    destruct m; simpl; try discriminate; intros _;
      unfold C05.route_scalar; now rewrite map_app.
  Qed.

  Theorem per_event_array L S t1 t2 e1 e2 :
    t1 <> [] -> t2 <> [] -> length t1 = length e1 -> length t2 = length e2 ->
    get_emodulus L S (MTempArray (t1 ++ t2)) (e1 ++ e2)
    = rapp (get_emodulus L S (MTempArray t1) e1)
           (get_emodulus L S (MTempArray t2) e2).
  Proof.
    intros N1 N2 H1 H2.
    destruct t1 as [|a t1]; [congruence|]. destruct t2 as [|b t2]; [congruence|].
    cbn [C05.get_emodulus app].
    change (eta a :: map eta (t1 ++ b :: t2)) with (map eta ((a :: t1) ++ b :: t2)).
    change (eta a :: map eta t1) with (map eta (a :: t1)).
    change (eta b :: map eta t2) with (map eta (b :: t2)).
    unfold C05.route_array.
    assert (L1 : length (map eta (a :: t1)) = length e1)
      by (rewrite map_length; exact H1).
    assert (L2 : length (map eta (b :: t2)) = length e2)
      by (rewrite map_length; exact H2).
    assert (L12 : length (map eta (a :: t1 ++ b :: t2)) = length (e1 ++ e2)).
    { change (a :: t1 ++ b :: t2) with ((a :: t1) ++ b :: t2).
      rewrite map_length, !app_length. congruence. }
    rewrite (broadcast_same _ _ L1), (broadcast_same _ _ L2),
      (broadcast_same _ _ L12).
    simpl rapp. f_equal.
    change (a :: t1 ++ b :: t2) with ((a :: t1) ++ b :: t2).
    rewrite map_app. apply map2_app. symmetry. exact L1.
  Qed.

  Theorem per_event_permutation L S v evs evs' :
    Permutation evs evs' ->
    Permutation (route_scalar L S v evs) (route_scalar L S v evs').
  Proof. intros H. unfold C05.route_scalar. now apply Permutation_map. Qed.

  (* the i-th result is what a call with that event alone returns *)
  Theorem event_alone_scalar L S v evs i ev :
    nth_error evs i = Some ev ->
    nth_error (route_scalar L S v evs) i = hd_error (route_scalar L S v [ev]).
  Proof.
    intros H. unfold C05.route_scalar. simpl.
    now rewrite (map_nth_error _ _ _ H).
  Qed.

  Theorem event_alone_array L S vs evs i ev v :
    length vs = length evs ->
    nth_error evs i = Some ev -> nth_error vs i = Some v ->
    exists r x, route_array L S vs evs = Some r /\
                route_array L S [v] [ev] = Some [x] /\
                nth_error r i = Some x.
  Proof.
    intros Hl He Hv. unfold C05.route_array.
    rewrite (broadcast_same vs _ Hl). simpl.
    eexists; eexists; split; [reflexivity|]. split; [reflexivity|].
    now apply map2_nth_error.
  Qed.

  (* === proportionality to viscosity and flow rate =================== *)
  Lemma emod_factor_visc cwi cwo fri fro vi vo k :
    emod_factor cwi cwo fri fro vi (vo * k)
    == emod_factor cwi cwo fri fro vi vo * k.
  Proof. unfold emod_factor, Qdiv. ring. Qed.

  Lemma emod_factor_flow cwi cwo fri fro vi vo k :
    emod_factor cwi cwo fri (fro * k) vi vo
    == emod_factor cwi cwo fri fro vi vo * k.
  Proof. unfold emod_factor, Qdiv. ring. Qed.

  Lemma spec_visc L S v k ev :
    oqeq (spec_emod L S (v * k) ev) (omul k (spec_emod L S v ev)).
  Proof.
    rewrite !spec_emod_unfold.
    eapply oqeq_trans; [|apply oqeq_sym, omul_omul].
    apply omul_compat; [apply emod_factor_visc|apply oqeq_refl].
  Qed.

  Theorem prop_viscosity L S v k evs :
    lut_ok L -> setup_ok S ->
    Forall2 oqeq (route_scalar L S (v * k) evs)
            (map (omul k) (route_scalar L S v evs)).
  Proof.
    intros HL HS.
    eapply F2_trans; [apply route_scalar_spec; auto|].
    eapply F2_trans;
      [|apply F2_map_omul; [reflexivity|apply F2_sym, route_scalar_spec; auto]].
    rewrite map_map. apply F2_map. intros ev _. apply spec_visc.
  Qed.

  Theorem prop_viscosity_array L S vs k evs r :
    lut_ok L -> setup_ok S ->
    route_array L S vs evs = Some r ->
    exists r', route_array L S (map (fun v => v * k) vs) evs = Some r' /\
               Forall2 oqeq r' (map (omul k) r).
  Proof.
    intros HL HS Hr. unfold C05.route_array in *.
    destruct (broadcast vs (length evs)) as [vs'|] eqn:Hb; [|discriminate].
    assert (Hb' : broadcast (map (fun v => v * k) vs) (length evs)
                  = Some (map (fun v => v * k) vs')).
    { unfold broadcast in *. rewrite map_length.
      destruct (Nat.eqb (length vs) (length evs)).
      - inversion Hb; subst; auto.
      - destruct vs as [|v [|? ?]]; try discriminate. simpl.
        inversion Hb; subst. now rewrite map_repeat'. }
    rewrite Hb'. eexists; split; [reflexivity|]. inversion Hr; subst. clear Hr.
    set (xm := lmax (map nx (l_nodes L))). set (dm := lmax (map nd (l_nodes L))).
    set (nn := normalize_nodes (l_nodes L)). set (ts := tri (map fst nn)).
    clear Hb Hb'. revert vs'. induction evs as [|ev evs IH]; intros [|v vs'];
      simpl; constructor; auto.
    eapply oqeq_trans; [apply array_event_spec; auto|].
    eapply oqeq_trans; [apply spec_visc|].
    apply omul_compat; [reflexivity|]. apply oqeq_sym, array_event_spec; auto.
  Qed.

  Definition with_flow (S : setup) (k : Q) : setup :=
    mkSetup (s_cw S) (s_fr S * k) (s_px S).

  Lemma spec_flow L S v k ev :
    oqeq (spec_emod L (with_flow S k) v ev) (omul k (spec_emod L S v ev)).
  Proof.
    rewrite !spec_emod_unfold. unfold with_flow, spec_x. simpl.
    eapply oqeq_trans; [|apply oqeq_sym, omul_omul].
    apply omul_compat; [apply emod_factor_flow|apply oqeq_refl].
  Qed.

  Theorem prop_flow_rate L S v k evs :
    lut_ok L -> setup_ok S ->
    Forall2 oqeq (route_scalar L (with_flow S k) v evs)
            (map (omul k) (route_scalar L S v evs)).
  Proof.
    intros HL HS.
    eapply F2_trans; [apply route_scalar_spec; auto|].
    eapply F2_trans;
      [|apply F2_map_omul; [reflexivity|apply F2_sym, route_scalar_spec; auto]].
    rewrite map_map. apply F2_map. intros ev _. apply spec_flow.
  Qed.

  (* === joint geometric rescaling of the set-up ====================== *)
  Definition pw (f : feat) (lam : Q) : Q :=
    match f with Area => sq lam | Volume => cube lam end.

  Definition rescale_setup (S : setup) (lam : Q) : setup :=
    mkSetup (lam * s_cw S) (cube lam * s_fr S) (lam * s_px S).

  Definition rescale_event (f : feat) (lam : Q) (ev : event) : event :=
    (fst ev * pw f lam, snd ev).

  (* what the theorem needs of the pixelation oracle: it depends on the
     abscissa measured in pixels only *)
  Definition delta_rescale (lam : Q) : Prop :=
    forall f px x, delta f (lam * px) (x * pw f lam) == delta f px x.

  Lemma spec_rescale L S v lam ev :
    lut_ok L -> setup_ok S -> 0 < lam -> delta_rescale lam ->
    oqeq (spec_emod L (rescale_setup S lam) v (rescale_event (l_feat L) lam ev))
         (spec_emod L S v ev).
  Proof.
    intros HL HS Hlam Hd. clear eta. rewrite !spec_emod_unfold.
    pose proof (pos_neq0 _ Hlam) as Nl. pose proof (pos_neq0 _ HS) as Nc.
    pose proof (pos_neq0 _ (ok_cw L HL)) as NL.
    assert (Ex : normq (spec_x L (rescale_setup S lam)
                               (rescale_event (l_feat L) lam ev))
                       (lmax (map nx (l_nodes L)))
                 = normq (spec_x L S ev) (lmax (map nx (l_nodes L)))).
    { apply normq_compat. unfold spec_x, rescale_setup, rescale_event, xfactor, pw.
      simpl. destruct (l_feat L); unfold sq, cube; field; auto. }
    assert (Ed : normq (pxcorr (l_feat L) (s_px (rescale_setup S lam))
                               (fst (rescale_event (l_feat L) lam ev))
                               (snd (rescale_event (l_feat L) lam ev)))
                       (lmax (map nd (l_nodes L)))
                 = normq (pxcorr (l_feat L) (s_px S) (fst ev) (snd ev))
                         (lmax (map nd (l_nodes L)))).
    { apply normq_compat. unfold C05.pxcorr, rescale_setup, rescale_event. simpl.
      assert (Eb : Qeq_bool (lam * s_px S) 0 = Qeq_bool (s_px S) 0).
      { destruct (Qeq_bool (s_px S) 0) eqn:E.
        - apply Qeq_bool_iff in E. apply Qeq_bool_iff. rewrite E. ring.
        - apply Qeq_bool_false in E.
          destruct (Qeq_bool (lam * s_px S) 0) eqn:E'; auto.
          apply Qeq_bool_iff in E'. apply Qmult_integral in E'. tauto. }
      rewrite Eb. destruct (Qeq_bool (s_px S) 0); [reflexivity|].
      unfold delta_rescale in Hd. rewrite (Hd (l_feat L) (s_px S) (fst ev)).
      reflexivity. }
    rewrite Ex, Ed. apply omul_compat; [|apply oqeq_refl].
    unfold emod_factor, rescale_setup, cube. simpl. field. repeat split; auto.
    apply pos_neq0, (ok_visc L HL). apply pos_neq0, (ok_fr L HL).
  Qed.

  Theorem geometric_rescale_invariant L S v lam evs :
    lut_ok L -> setup_ok S -> 0 < lam -> delta_rescale lam ->
    Forall2 oqeq
            (route_scalar L (rescale_setup S lam) v
                          (map (rescale_event (l_feat L) lam) evs))
            (route_scalar L S v evs).
  Proof.
    intros HL HS Hlam Hd. clear eta.
    assert (HS' : setup_ok (rescale_setup S lam)).
    { unfold setup_ok, rescale_setup in *. simpl. now apply Qmult_lt_0_compat. }
    eapply F2_trans; [apply route_scalar_spec; auto|].
    eapply F2_trans; [|apply F2_sym, route_scalar_spec; auto].
    rewrite map_map. apply F2_map. intros ev _. now apply spec_rescale.
  Qed.

  (* === NaN exactly outside the support; finite values are the scaled
         interpolation ================================================ *)
  Definition spec_nn (L : lut) : list nnode := normalize_nodes (l_nodes L).
  Definition spec_tris (L : lut) : list triangle := tri (map fst (spec_nn L)).
  Definition spec_point (L : lut) (S : setup) (ev : event) : pt :=
    (normq (spec_x L S ev) (lmax (map nx (l_nodes L))),
     normq (pxcorr (l_feat L) (s_px S) (fst ev) (snd ev))
           (lmax (map nd (l_nodes L)))).

  Lemma spec_emod_find L S v ev :
    spec_emod L S v ev
    = omul (emod_factor (l_cw L) (s_cw S) (l_fr L) (s_fr S) (l_visc L) v)
           (find_tri (spec_point L S ev) (spec_nn L) (spec_tris L)).
  Proof. apply spec_emod_unfold. Qed.

  Lemma F2_single a b : Forall2 oqeq [a] [b] -> oqeq a b.
  Proof. intros H; now inversion H. Qed.

  Theorem nan_iff_outside L S v ev :
    lut_ok L -> setup_ok S ->
    (route_scalar L S v [ev] = [None]) <->
    (forall t, In t (spec_tris L) ->
               contains (spec_point L S ev) (spec_nn L) t = false).
  Proof.
    intros HL HS. rewrite <- find_tri_none.
    pose proof (route_scalar_spec tri delta L S v [ev] HL HS) as H.
    simpl map in H. rewrite spec_emod_find in H.
    destruct (route_scalar L S v [ev]) as [|a [|? ?]] eqn:E;
      try (exfalso; inversion H; subst; match goal with
                                        | X : Forall2 _ _ _ |- _ => now inversion X
                                        end).
    apply F2_single in H.
    destruct (find_tri (spec_point L S ev) (spec_nn L) (spec_tris L)); simpl in H;
      destruct a; try contradiction; split; intros; try discriminate; auto.
  Qed.

  Theorem nan_iff_outside_array L S v ev :
    lut_ok L -> setup_ok S ->
    (route_array L S [v] [ev] = Some [None]) <->
    (forall t, In t (spec_tris L) ->
               contains (spec_point L S ev) (spec_nn L) t = false).
  Proof.
    intros HL HS. rewrite <- find_tri_none.
    destruct (route_array_spec tri delta L S [v] [ev] [v] HL HS eq_refl)
      as (r & Hr & HF).
    rewrite Hr. simpl in HF. rewrite spec_emod_find in HF.
    destruct r as [|a [|? ?]];
      try (exfalso; inversion HF; subst; match goal with
                                         | X : Forall2 _ _ _ |- _ => now inversion X
                                         end).
    apply F2_single in HF.
    destruct (find_tri (spec_point L S ev) (spec_nn L) (spec_tris L)); simpl in HF;
      destruct a; try contradiction; split; intros; try discriminate; auto.
  Qed.

  (* a finite result is the scaled barycentric interpolation in a triangle
     of the triangulation that contains the normalised event *)
  Theorem finite_is_scaled_interpolation L S v ev e :
    lut_ok L -> setup_ok S ->
    route_scalar L S v [ev] = [Some e] ->
    exists t, In t (spec_tris L) /\
              contains (spec_point L S ev) (spec_nn L) t = true /\
              e == value_in (spec_point L S ev) (spec_nn L) t
                   * emod_factor (l_cw L) (s_cw S) (l_fr L) (s_fr S)
                                 (l_visc L) v.
  Proof.
    intros HL HS E.
    pose proof (route_scalar_spec tri delta L S v [ev] HL HS) as H.
    rewrite E in H. simpl map in H. rewrite spec_emod_find in H.
    apply F2_single in H.
    destruct (find_tri (spec_point L S ev) (spec_nn L) (spec_tris L)) as [e0|] eqn:F;
      simpl in H; [|contradiction].
    destruct (find_tri_some _ _ _ _ F) as (t & Hin & Hc & Hv).
    exists t. repeat split; auto. now rewrite H, Hv.
  Qed.
End Theorems.

(* interpolation in the triangulation: bounds and node values *)
Theorem find_tri_between p nn ts e :
  find_tri p nn ts = Some e ->
  exists a b c, In a nn /\ In b nn /\ In c nn /\
                inside p (fst a) (fst b) (fst c) = true /\
                forall lo hi,
                  lo <= snd a -> lo <= snd b -> lo <= snd c ->
                  snd a <= hi -> snd b <= hi -> snd c <= hi ->
                  lo <= e <= hi.
Proof.
  intros H. destruct (find_tri_some _ _ _ _ H) as (t & _ & Hc & Hv).
  unfold contains in Hc. unfold value_in in Hv.
  destruct (tri_nodes nn t) as [[[a b] c]|] eqn:T; [|discriminate].
  exists a, b, c.
  destruct t as [[i j] k]. unfold tri_nodes, get in T.
  destruct (nth_error nn (N.to_nat i)) eqn:Ei; [|discriminate].
  destruct (nth_error nn (N.to_nat j)) eqn:Ej; [|discriminate].
  destruct (nth_error nn (N.to_nat k)) eqn:Ek; [|discriminate].
  inversion T; subst.
  repeat split; eauto using nth_error_In;
    intros; subst; eapply interp_between; eauto.
Qed.

(* vertex property of a triangulation: a node's point that lies in a closed
   triangle is a vertex of it carrying the node's value *)
Definition vertex_property (p : pt) (va : Q) (nn : list nnode)
           (ts : list triangle) : Prop :=
  forall t a b c,
    In t ts -> tri_nodes nn t = Some (a, b, c) ->
    inside p (fst a) (fst b) (fst c) = true ->
    (fst a = p /\ snd a == va) \/ (fst b = p /\ snd b == va)
    \/ (fst c = p /\ snd c == va).

Theorem find_tri_at_node p va nn ts e :
  vertex_property p va nn ts ->
  find_tri p nn ts = Some e -> e == va.
Proof.
  intros HV H. destruct (find_tri_some _ _ _ _ H) as (t & Hin & Hc & Hv).
  unfold contains in Hc. unfold value_in in Hv.
  destruct (tri_nodes nn t) as [[[a b] c]|] eqn:T; [|discriminate].
  pose proof (inside_nondeg _ _ _ _ Hc) as Hd.
  destruct (HV t a b c Hin T Hc) as [[E V]|[[E V]|[E V]]]; subst e;
    rewrite <- V; rewrite <- E in *.
  - apply interp_at_node_a; auto.
  - apply interp_at_node_b; auto.
  - apply interp_at_node_c; auto.
Qed.

(* ------------------------------------------------------------------ *)
(* non-vacuity: a concrete table, triangulation, set-up and events      *)
(* ------------------------------------------------------------------ *)
Definition ex_lut : lut :=
  mkLut Area 20 (4 # 100) 15
        [ (10, 1 # 100, 2); (100, 2 # 100, 8); (60, 10 # 100, 1);
          (200, 6 # 100, 5) ].
Definition ex_tri (_ : list pt) : list triangle :=
  [ (0%N, 1%N, 2%N); (1%N, 3%N, 2%N) ].
(* a pixelation offset that depends on the abscissa in pixels only *)
Definition ex_delta (f : feat) (px x : Q) : Q :=
  match f with
  | Area => (1 # 1000) * (sq px / (sq px + x))
  | Volume => (1 # 1000) * (cube px / (cube px + x))
  end.
Definition ex_eta (t : Q) : Q := 5 + t / 10.
Definition ex_setup : setup := mkSetup 30 (16 # 100) (34 # 100).
Definition ex_events : list event :=
  [ (150, 4 # 100);
    (45 # 2, (1 # 100) + ex_delta Area (34 # 100) (45 # 2));
    (1000, 5 # 100) ].

Example ex_lut_ok : lut_ok ex_lut.
Proof.
  constructor; simpl; try discriminate; try reflexivity;
    repeat constructor.
Qed.

Example ex_setup_ok : setup_ok ex_setup.
Proof. reflexivity. Qed.

(* the first event is inside, the second sits on the first node after
   pixelation correction and scaling (its value is the node's value times
   the scaling factor), the third is outside (NaN) *)
Example ex_values :
  match route_scalar ex_tri ex_delta ex_lut ex_setup 5 ex_events with
  | [Some e1; Some e2; None] =>
      e2 == 2 * emod_factor 20 30 (4 # 100) (16 # 100) 15 5 /\ 0 < e1
  | _ => False
  end.
Proof. vm_compute. split; reflexivity. Qed.

Example ex_routes_agree :
  exists r, route_array ex_tri ex_delta ex_lut ex_setup [5; 5; 5] ex_events = Some r
            /\ Forall2 oqeq r (route_scalar ex_tri ex_delta ex_lut ex_setup 5 ex_events).
Proof.
  apply (routes_agree ex_tri ex_delta ex_lut ex_setup 5 ex_events [5; 5; 5]
                      ex_lut_ok ex_setup_ok).
  left. reflexivity.
Qed.

Example ex_delta_rescale lam : 0 < lam -> delta_rescale ex_delta lam.
Proof.
  intros Hl f px x. pose proof (pos_neq0 _ Hl) as Nl.
  destruct f; unfold ex_delta, pw, sq, cube.
  - destruct (Qeq_dec (px * px + x) 0) as [E|N].
    + assert (E' : lam * px * (lam * px) + x * (lam * lam) == 0).
      { assert (X : lam * px * (lam * px) + x * (lam * lam)
                    == (px * px + x) * (lam * lam)) by ring.
        rewrite X, E. ring. }
      unfold Qdiv. rewrite E', E. change (/ 0) with 0. ring.
    + field. split; auto. intros E. apply N.
      assert (X : lam * px * (lam * px) + x * (lam * lam)
                  == (px * px + x) * (lam * lam)) by ring.
      rewrite X in E. apply Qmult_integral in E. destruct E as [E|E]; auto.
      apply Qmult_integral in E. tauto.
  - destruct (Qeq_dec (px * px * px + x) 0) as [E|N].
    + assert (E' : lam * px * (lam * px) * (lam * px) + x * (lam * lam * lam) == 0).
      { assert (X : lam * px * (lam * px) * (lam * px) + x * (lam * lam * lam)
                    == (px * px * px + x) * (lam * lam * lam)) by ring.
        rewrite X, E. ring. }
      unfold Qdiv. rewrite E', E. change (/ 0) with 0. ring.
    + field. split; auto. intros E. apply N.
      assert (X : lam * px * (lam * px) * (lam * px) + x * (lam * lam * lam)
                  == (px * px * px + x) * (lam * lam * lam)) by ring.
      rewrite X in E. apply Qmult_integral in E. destruct E as [E|E]; auto.
      apply Qmult_integral in E. destruct E as [E|E]; [|tauto].
      apply Qmult_integral in E. tauto.
Qed.

Example ex_inside :
  inside (1 # 2, 1 # 2) (0, 0) (1, 0) (0, 2) = true
  /\ inside (2, 2) (0, 0) (1, 0) (0, 2) = false
  /\ inside (1 # 2, 0) (0, 0) (0, 2) (1, 0) = true.
Proof. vm_compute. auto. Qed.

Example ex_vertex_property :
  vertex_property (normq 10 200, normq (1 # 100) (10 # 100)) 2
                  (normalize_nodes (l_nodes ex_lut)) (ex_tri []).
Proof.
  intros t a b c Hin T Hc. simpl in Hin.
  destruct Hin as [<-|[<-|[]]]; vm_compute in T; inversion T; subst.
  - left. split; reflexivity.
  - vm_compute in Hc. discriminate.
Qed.

Example ex_broadcast_error :
  get_emodulus ex_tri ex_delta ex_eta ex_lut ex_setup (MTempArray [23; 24]) ex_events
  = None.
Proof. reflexivity. Qed.

(* ------------------------------------------------------------------ *)
(* the result stays within the (scaled) range of the table              *)
(* ------------------------------------------------------------------ *)
Lemma normalize_nodes_value nodes a :
  In a (normalize_nodes nodes) -> exists n, In n nodes /\ snd a = ne n.
Proof.
  unfold normalize_nodes. intros H. apply in_map_iff in H.
  destruct H as (n & <- & Hn). exists n. split; auto.
Qed.

Theorem result_within_lut_range :
  forall (tri : list pt -> list triangle) (delta : feat -> Q -> Q -> Q)
         (L : lut) (S : setup) (v : Q) (ev : event) (e lo hi : Q),
    lut_ok L -> setup_ok S -> 0 <= v ->
    0 <= s_fr S ->
    (forall n, In n (l_nodes L) -> lo <= ne n <= hi) ->
    route_scalar tri delta L S v [ev] = [Some e] ->
    lo * emod_factor (l_cw L) (s_cw S) (l_fr L) (s_fr S) (l_visc L) v <= e
    /\ e <= hi * emod_factor (l_cw L) (s_cw S) (l_fr L) (s_fr S) (l_visc L) v.
Proof.
  intros tri delta L S v ev e lo hi HL HS Hv Hf Hr E.
  destruct (finite_is_scaled_interpolation tri delta L S v ev e HL HS E)
    as (t & Hin & Hc & He).
  set (k := emod_factor (l_cw L) (s_cw S) (l_fr L) (s_fr S) (l_visc L) v) in *.
  assert (Hk : 0 <= k).
  { unfold k, emod_factor, cube, Qdiv.
    pose proof (Qinv_pos _ (ok_fr L HL)). pose proof (Qinv_pos _ (ok_visc L HL)).
    pose proof (Qinv_pos _ HS). pose proof (ok_cw L HL).
    repeat apply Qmult_le_0_compat; auto; apply Qlt_le_weak; auto. }
  unfold contains in Hc. unfold value_in in He.
  destruct (tri_nodes (spec_nn L) t) as [[[a b] c]|] eqn:T; [|discriminate].
  destruct t as [[i j] k0]. unfold tri_nodes, get in T.
  destruct (nth_error (spec_nn L) (N.to_nat i)) eqn:Ei; [|discriminate].
  destruct (nth_error (spec_nn L) (N.to_nat j)) eqn:Ej; [|discriminate].
  destruct (nth_error (spec_nn L) (N.to_nat k0)) eqn:Ek; [|discriminate].
  inversion T; subst n n0 n1. clear T.
  apply nth_error_In in Ei, Ej, Ek. unfold spec_nn in Ei, Ej, Ek.
  destruct (normalize_nodes_value _ _ Ei) as (na & Ia & Va).
  destruct (normalize_nodes_value _ _ Ej) as (nb & Ib & Vb).
  destruct (normalize_nodes_value _ _ Ek) as (nc & Ic & Vc).
  pose proof (Hr _ Ia) as [La Ua]. pose proof (Hr _ Ib) as [Lb Ub].
  pose proof (Hr _ Ic) as [Lc Uc].
  rewrite <- Va in La, Ua. rewrite <- Vb in Lb, Ub. rewrite <- Vc in Lc, Uc.
  pose proof (interp_between _ _ _ _ _ _ _ lo hi Hc La Lb Lc Ua Ub Uc) as [B1 B2].
  rewrite He. split.
  - apply Qmult_le_compat_r; auto.
  - apply Qmult_le_compat_r; auto.
Qed.

(* the specification depends on the numbers, not on their representation
   as fractions: equal events give identical results *)
Theorem spec_emod_compat :
  forall (tri : list pt -> list triangle) (delta : feat -> Q -> Q -> Q)
         (L : lut) (S : setup) (v : Q) (ev ev' : event),
    (forall f px x x', x == x' -> delta f px x == delta f px x') ->
    fst ev == fst ev' -> snd ev == snd ev' ->
    spec_emod tri delta L S v ev = spec_emod tri delta L S v ev'.
Proof.
  intros tri delta L S v ev ev' Hd Hx Hy. rewrite !spec_emod_unfold.
  assert (E1 : normq (spec_x L S ev) (lmax (map nx (l_nodes L)))
               = normq (spec_x L S ev') (lmax (map nx (l_nodes L)))).
  { apply normq_compat. unfold spec_x. now rewrite Hx. }
  assert (E2 : normq (pxcorr delta (l_feat L) (s_px S) (fst ev) (snd ev))
                     (lmax (map nd (l_nodes L)))
               = normq (pxcorr delta (l_feat L) (s_px S) (fst ev') (snd ev'))
                       (lmax (map nd (l_nodes L)))).
  { apply normq_compat. unfold pxcorr. destruct (Qeq_bool (s_px S) 0); auto.
    rewrite Hy. rewrite (Hd (l_feat L) (s_px S) _ _ Hx). reflexivity. }
  now rewrite E1, E2.
Qed.

(* ------------------------------------------------------------------ *)
(* the documented pixelation offset satisfies the rescaling hypothesis  *)
(* ------------------------------------------------------------------ *)
Lemma pxdelta_rescale (expo : Q -> Q) lam :
  (forall a b, a == b -> expo a == expo b) ->
  ~ lam == 0 -> delta_rescale (pxdelta expo) lam.
Proof.
  intros Hp Hl f px x. unfold pxdelta, pw.
  destruct (Qeq_dec px 0) as [E0|N0].
  - (* px = 0 (the correction is not applied then): both scale factors are
       34/100 times the inverse of zero, which is zero *)
    assert (Z1 : (34 # 100) / (lam * px) == 0).
    { unfold Qdiv. assert (Ez : lam * px == 0) by (rewrite E0; ring).
      rewrite Ez. reflexivity. }
    assert (Z2 : (34 # 100) / px == 0).
    { unfold Qdiv. rewrite E0. reflexivity. }
    destruct f; unfold sq, cube.
    + rewrite (Hp (- (x * (lam * lam)) * ((34 # 100) / (lam * px) * ((34 # 100) / (lam * px))) / (71 # 10))
                  (- x * ((34 # 100) / px * ((34 # 100) / px)) / (71 # 10)))
        by (rewrite Z1, Z2; unfold Qdiv; ring).
      rewrite (Hp (- (x * (lam * lam)) * ((34 # 100) / (lam * px) * ((34 # 100) / (lam * px))) / (386 # 10))
                  (- x * ((34 # 100) / px * ((34 # 100) / px)) / (386 # 10)))
        by (rewrite Z1, Z2; unfold Qdiv; ring).
      rewrite (Hp (- (x * (lam * lam)) * ((34 # 100) / (lam * px) * ((34 # 100) / (lam * px))) / 296)
                  (- x * ((34 # 100) / px * ((34 # 100) / px)) / 296))
        by (rewrite Z1, Z2; unfold Qdiv; ring).
      reflexivity.
    + rewrite (Hp (- (x * (lam * lam * lam)) * ((34 # 100) / (lam * px) * ((34 # 100) / (lam * px)) * ((34 # 100) / (lam * px))) / 40)
                  (- x * ((34 # 100) / px * ((34 # 100) / px) * ((34 # 100) / px)) / 40))
        by (rewrite Z1, Z2; unfold Qdiv; ring).
      rewrite (Hp (- (x * (lam * lam * lam)) * ((34 # 100) / (lam * px) * ((34 # 100) / (lam * px)) * ((34 # 100) / (lam * px))) / 450)
                  (- x * ((34 # 100) / px * ((34 # 100) / px) * ((34 # 100) / px)) / 450))
        by (rewrite Z1, Z2; unfold Qdiv; ring).
      rewrite (Hp (- (x * (lam * lam * lam)) * ((34 # 100) / (lam * px) * ((34 # 100) / (lam * px)) * ((34 # 100) / (lam * px))) / 6040)
                  (- x * ((34 # 100) / px * ((34 # 100) / px) * ((34 # 100) / px)) / 6040))
        by (rewrite Z1, Z2; unfold Qdiv; ring).
      reflexivity.
  - destruct f; unfold sq, cube.
    + rewrite (Hp (- (x * (lam * lam)) * ((34 # 100) / (lam * px) * ((34 # 100) / (lam * px))) / (71 # 10))
                  (- x * ((34 # 100) / px * ((34 # 100) / px)) / (71 # 10)))
        by (field; auto).
      rewrite (Hp (- (x * (lam * lam)) * ((34 # 100) / (lam * px) * ((34 # 100) / (lam * px))) / (386 # 10))
                  (- x * ((34 # 100) / px * ((34 # 100) / px)) / (386 # 10)))
        by (field; auto).
      rewrite (Hp (- (x * (lam * lam)) * ((34 # 100) / (lam * px) * ((34 # 100) / (lam * px))) / 296)
                  (- x * ((34 # 100) / px * ((34 # 100) / px)) / 296))
        by (field; auto).
      reflexivity.
    + rewrite (Hp (- (x * (lam * lam * lam)) * ((34 # 100) / (lam * px) * ((34 # 100) / (lam * px)) * ((34 # 100) / (lam * px))) / 40)
                  (- x * ((34 # 100) / px * ((34 # 100) / px) * ((34 # 100) / px)) / 40))
        by (field; auto).
      rewrite (Hp (- (x * (lam * lam * lam)) * ((34 # 100) / (lam * px) * ((34 # 100) / (lam * px)) * ((34 # 100) / (lam * px))) / 450)
                  (- x * ((34 # 100) / px * ((34 # 100) / px) * ((34 # 100) / px)) / 450))
        by (field; auto).
      rewrite (Hp (- (x * (lam * lam * lam)) * ((34 # 100) / (lam * px) * ((34 # 100) / (lam * px)) * ((34 # 100) / (lam * px))) / 6040)
                  (- x * ((34 # 100) / px * ((34 # 100) / px) * ((34 # 100) / px)) / 6040))
        by (field; auto).
      reflexivity.
Qed.

(* joint rescaling with the documented pixelation formula: the only thing
   assumed of exp is that it is a function of the number *)
Theorem geometric_rescale_invariant_pxdelta :
  forall (tri : list pt -> list triangle) (expo : Q -> Q)
         (L : lut) (S : setup) (v lam : Q) (evs : list event),
    (forall a b, a == b -> expo a == expo b) ->
    lut_ok L -> setup_ok S -> 0 < lam ->
    Forall2 oqeq
            (route_scalar tri (pxdelta expo) L (rescale_setup S lam) v
                          (map (rescale_event (l_feat L) lam) evs))
            (route_scalar tri (pxdelta expo) L S v evs).
Proof.
  intros tri expo L S v lam evs Hp HL HS Hlam.
  apply geometric_rescale_invariant; auto.
  apply pxdelta_rescale; auto. now apply pos_neq0.
Qed.

(* with a stand-in for exp the offset is computed as documented:
   offs + 0.020 e(-x s/7.1) + 0.010 e(-x s/38.6) + 0.005 e(-x s/296) *)
Example ex_pxdelta :
  pxdelta (fun a => 1 + a / 1000) Area (34 # 100) 71
  == (12 # 10000) + (20 # 1000) * (1 + (- (10)) / 1000)
     + (10 # 1000) * (1 + (- (710 # 386)) / 1000)
     + (5 # 1000) * (1 + (- (71 # 296)) / 1000).
Proof. vm_compute. reflexivity. Qed.

Example ex_pxdelta_rescale :
  delta_rescale (pxdelta (fun a => 1 + a / 1000)) (3 # 2).
Proof.
  apply pxdelta_rescale; [|discriminate].
  intros a b H. now rewrite H.
Qed.

(* ------------------------------------------------------------------ *)
(* the laws for the per-event (array) route                             *)
(* ------------------------------------------------------------------ *)
Lemma map2_F2_gen {A A' B} (f : A -> B -> option Q) (f' : A' -> B -> option Q)
      (g : A -> A') l m :
  (forall a b, oqeq (f' (g a) b) (f a b)) ->
  Forall2 oqeq (map2 f' (map g l) m) (map2 f l m).
Proof.
  intros H. revert m. induction l as [|a l IH]; intros [|b m]; simpl;
    constructor; auto.
Qed.

Lemma map_map2 {A B C D} (h : C -> D) (f : A -> B -> C) l m :
  map h (map2 f l m) = map2 (fun a b => h (f a b)) l m.
Proof. revert m. induction l; intros [|b m]; simpl; congruence. Qed.

Section ArrayLaws.
  Variable tri : list pt -> list triangle.
  Variable delta : feat -> Q -> Q -> Q.

  Notation route_array := (route_array tri delta).
  Notation spec_emod := (spec_emod tri delta).

  Let aev (L : lut) (S : setup) :=
    array_event delta L S (lmax (map nx (l_nodes L))) (lmax (map nd (l_nodes L)))
                (normalize_nodes (l_nodes L))
                (tri (map fst (normalize_nodes (l_nodes L)))).

  Lemma route_array_unfold L S vs evs :
    route_array L S vs evs
    = match broadcast vs (length evs) with
      | Some vs' => Some (map2 (aev L S) evs vs')
      | None => None
      end.
  Proof. reflexivity. Qed.

  (* proportional to the flow rate, per-event viscosities *)
  Theorem prop_flow_rate_array L S vs k evs r :
    lut_ok L -> setup_ok S ->
    route_array L S vs evs = Some r ->
    exists r', route_array L (with_flow S k) vs evs = Some r' /\
               Forall2 oqeq r' (map (omul k) r).
  Proof.
    intros HL HS Hr. rewrite route_array_unfold in *.
    destruct (broadcast vs (length evs)) as [vs'|]; [|discriminate].
    inversion Hr; subst. eexists; split; [reflexivity|].
    rewrite map_map2. apply map2_F2. intros ev v.
    assert (HS' : setup_ok (with_flow S k)) by exact HS.
    eapply oqeq_trans; [apply (array_event_spec tri delta L (with_flow S k) ev v HL HS')|].
    eapply oqeq_trans; [apply spec_flow|].
    apply omul_compat; [reflexivity|].
    apply oqeq_sym, (array_event_spec tri delta L S ev v HL HS).
  Qed.

  (* joint geometric rescaling, per-event viscosities *)
  Theorem geometric_rescale_invariant_array L S vs lam evs r :
    lut_ok L -> setup_ok S -> 0 < lam -> delta_rescale delta lam ->
    route_array L S vs evs = Some r ->
    exists r', route_array L (rescale_setup S lam) vs
                           (map (rescale_event (l_feat L) lam) evs) = Some r' /\
               Forall2 oqeq r' r.
  Proof.
    intros HL HS Hlam Hd Hr. rewrite route_array_unfold in *.
    rewrite map_length.
    destruct (broadcast vs (length evs)) as [vs'|]; [|discriminate].
    inversion Hr; subst. eexists; split; [reflexivity|].
    assert (HS' : setup_ok (rescale_setup S lam)).
    { unfold setup_ok, rescale_setup in *. simpl. now apply Qmult_lt_0_compat. }
    apply map2_F2_gen. intros ev v.
    eapply oqeq_trans;
      [apply (array_event_spec tri delta L (rescale_setup S lam) _ v HL HS')|].
    eapply oqeq_trans; [apply (spec_rescale tri delta L S v lam ev HL HS Hlam Hd)|].
    apply oqeq_sym, (array_event_spec tri delta L S ev v HL HS).
  Qed.
End ArrayLaws.

Theorem geometric_rescale_invariant_array_pxdelta :
  forall (tri : list pt -> list triangle) (expo : Q -> Q)
         (L : lut) (S : setup) (vs : list Q) (lam : Q) (evs : list event)
         (r : list (option Q)),
    (forall a b, a == b -> expo a == expo b) ->
    lut_ok L -> setup_ok S -> 0 < lam ->
    route_array tri (pxdelta expo) L S vs evs = Some r ->
    exists r', route_array tri (pxdelta expo) L (rescale_setup S lam) vs
                           (map (rescale_event (l_feat L) lam) evs) = Some r' /\
               Forall2 oqeq r' r.
Proof.
  intros tri expo L S vs lam evs r Hp HL HS Hlam.
  apply geometric_rescale_invariant_array; auto.
  apply pxdelta_rescale; auto. now apply pos_neq0.
Qed.

Example ex_array_laws :
  exists r, route_array ex_tri ex_delta ex_lut ex_setup [5; 6; 7] ex_events = Some r
            /\ exists e1 e2, r = [Some e1; Some e2; None].
Proof. eexists. split; [reflexivity|]. vm_compute. eauto. Qed.

(* ------------------------------------------------------------------ *)
(* NaN exactly outside the SUPPORT (convex hull of the nodes), for a     *)
(* triangulation oracle that covers the support                         *)
(* ------------------------------------------------------------------ *)
(* the convex hull of a planar point set is the union of the closed
   triangles spanned by three of its points (Caratheodory) *)
Definition in_support (p : pt) (nn : list nnode) : Prop :=
  exists a b c, In a nn /\ In b nn /\ In c nn /\
                inside p (fst a) (fst b) (fst c) = true.

(* what is needed of the triangulation oracle: its triangles cover the
   support.  (False for tri = []: the theorems below are not vacuous in the
   oracle.)  Checked per run on the triangulations qhull returns (tiling of
   the hull, check_triangulation). *)
Definition tri_covers (nn : list nnode) (ts : list triangle) : Prop :=
  forall p, in_support p nn -> exists t, In t ts /\ contains p nn t = true.

Lemma contains_in_support p nn t :
  contains p nn t = true -> in_support p nn.
Proof.
  unfold contains. destruct (tri_nodes nn t) as [[[a b] c]|] eqn:T; [|discriminate].
  intros H. exists a, b, c.
  destruct t as [[i j] k]. unfold tri_nodes, get in T.
  destruct (nth_error nn (N.to_nat i)) eqn:Ei; [|discriminate].
  destruct (nth_error nn (N.to_nat j)) eqn:Ej; [|discriminate].
  destruct (nth_error nn (N.to_nat k)) eqn:Ek; [|discriminate].
  inversion T; subst. repeat split; eauto using nth_error_In.
Qed.

Theorem find_tri_none_iff_outside_support p nn ts :
  tri_covers nn ts ->
  (find_tri p nn ts = None <-> ~ in_support p nn).
Proof.
  intros Hc. split.
  - intros H Hs. destruct (Hc p Hs) as (t & Hin & Hct).
    rewrite find_tri_none in H. rewrite (H t Hin) in Hct. discriminate.
  - intros H. apply find_tri_none. intros t Hin.
    destruct (contains p nn t) eqn:E; auto.
    exfalso. apply H. eapply contains_in_support; eauto.
Qed.

Theorem nan_iff_outside_support :
  forall (tri : list pt -> list triangle) (delta : feat -> Q -> Q -> Q)
         (L : lut) (S : setup) (v : Q) (ev : event),
    lut_ok L -> setup_ok S ->
    tri_covers (spec_nn L) (spec_tris tri L) ->
    (route_scalar tri delta L S v [ev] = [None]) <->
    ~ in_support (spec_point delta L S ev) (spec_nn L).
Proof.
  intros tri delta L S v ev HL HS Hc.
  rewrite (nan_iff_outside tri delta L S v ev HL HS).
  rewrite <- find_tri_none. now apply find_tri_none_iff_outside_support.
Qed.

Theorem nan_iff_outside_support_array :
  forall (tri : list pt -> list triangle) (delta : feat -> Q -> Q -> Q)
         (L : lut) (S : setup) (v : Q) (ev : event),
    lut_ok L -> setup_ok S ->
    tri_covers (spec_nn L) (spec_tris tri L) ->
    (route_array tri delta L S [v] [ev] = Some [None]) <->
    ~ in_support (spec_point delta L S ev) (spec_nn L).
Proof.
  intros tri delta L S v ev HL HS Hc.
  rewrite (nan_iff_outside_array tri delta L S v ev HL HS).
  rewrite <- find_tri_none. now apply find_tri_none_iff_outside_support.
Qed.

(* inside does not depend on the order of the vertices *)
Lemma inside_swap12 p a b c : inside p a b c = true -> inside p b a c = true.
Proof.
  rewrite !inside_spec. unfold w1, w2, w3. intros (Hd & H1 & H2 & H3).
  assert (E : cross b a c == - cross a b c) by (unfold cross; ring).
  assert (Hd' : ~ cross b a c == 0) by (rewrite E; lra).
  repeat split; auto.
  - assert (X : cross p a c / cross b a c == cross a p c / cross a b c).
    { rewrite E. assert (Y : cross p a c == - cross a p c) by (unfold cross; ring).
      rewrite Y. field; auto. }
    now rewrite X.
  - assert (X : cross b p c / cross b a c == cross p b c / cross a b c).
    { rewrite E. assert (Y : cross b p c == - cross p b c) by (unfold cross; ring).
      rewrite Y. field; auto. }
    now rewrite X.
  - assert (X : cross b a p / cross b a c == cross a b p / cross a b c).
    { rewrite E. assert (Y : cross b a p == - cross a b p) by (unfold cross; ring).
      rewrite Y. field; auto. }
    now rewrite X.
Qed.

Lemma inside_swap23 p a b c : inside p a b c = true -> inside p a c b = true.
Proof.
  rewrite !inside_spec. unfold w1, w2, w3. intros (Hd & H1 & H2 & H3).
  assert (E : cross a c b == - cross a b c) by (unfold cross; ring).
  assert (Hd' : ~ cross a c b == 0) by (rewrite E; lra).
  repeat split; auto.
  - assert (X : cross p c b / cross a c b == cross p b c / cross a b c).
    { rewrite E. assert (Y : cross p c b == - cross p b c) by (unfold cross; ring).
      rewrite Y. field; auto. }
    now rewrite X.
  - assert (X : cross a p b / cross a c b == cross a b p / cross a b c).
    { rewrite E. assert (Y : cross a p b == - cross a b p) by (unfold cross; ring).
      rewrite Y. field; auto. }
    now rewrite X.
  - assert (X : cross a c p / cross a c b == cross a p c / cross a b c).
    { rewrite E. assert (Y : cross a c p == - cross a p c) by (unfold cross; ring).
      rewrite Y. field; auto. }
    now rewrite X.
Qed.

Lemma inside_degenerate p a b c : cross a b c == 0 -> inside p a b c = false.
Proof.
  intros H. destruct (inside p a b c) eqn:E; auto.
  apply inside_nondeg in E. contradiction.
Qed.

(* non-vacuity of tri_covers: a table of three nodes with its one triangle *)
Definition ex_nn3 : list nnode :=
  [ ((0, 0), 1); ((1, 0), 2); ((0, 1), 3) ].

Example ex_tri_covers : tri_covers ex_nn3 [(0, 1, 2)%N].
Proof.
  intros p (a & b & c & Ha & Hb & Hc & Hin).
  exists (0, 1, 2)%N. split; [now left|].
  unfold contains. simpl.
  assert (T : inside p (0, 0) (1, 0) (0, 1) = true).
  { simpl in Ha, Hb, Hc.
    destruct Ha as [<-|[<-|[<-|[]]]]; destruct Hb as [<-|[<-|[<-|[]]]];
      destruct Hc as [<-|[<-|[<-|[]]]]; simpl in Hin;
      try (rewrite inside_degenerate in Hin by (vm_compute; reflexivity);
           discriminate);
      auto using inside_swap12, inside_swap23. }
  exact T.
Qed.

Example ex_not_covers : ~ tri_covers ex_nn3 [].
Proof.
  intros H. destruct (H (0, 0)) as (t & [] & _).
  exists ((0, 0), 1), ((1, 0), 2), ((0, 1), 3). simpl.
  split; [tauto|]. split; [tauto|]. split; [tauto|]. vm_compute. reflexivity.
Qed.
