(* Proofs about the load.py / registry / memory part of Model/C05.v:
   get_emodulus writes only to the array it allocated itself, so files, the
   identifier registry and every array that existed before are unchanged by
   any sequence of calls; results do not depend on earlier calls. *)
From Coq Require Import ZArith NArith QArith List Bool Lia.
From Verif Require Import Model.C05.
Import ListNotations.

(* what a sequence of operations may change: nothing on disk, nothing built
   in; registry entries are only added; arrays that existed keep their
   contents; addresses are only allocated upwards *)
Definition ext_extends (w w' : world) : Prop :=
  forall i p, zlookup i (w_ext w) = Some p -> zlookup i (w_ext w') = Some p.

Definition pres (w w' : world) : Prop :=
  w_files w' = w_files w /\ w_internal w' = w_internal w /\
  ext_extends w w' /\ (w_next w <= w_next w')%N /\
  forall a, (a < w_next w)%N -> hread w' a = hread w a.

(* the same, with the registry unchanged (get_emodulus calls only) *)
Definition agree (w w' : world) : Prop :=
  pres w w' /\ w_ext w' = w_ext w.

Lemma pres_refl w : pres w w.
Proof. repeat split; auto. - intros i p H; exact H. - lia. Qed.

Lemma pres_trans w1 w2 w3 : pres w1 w2 -> pres w2 w3 -> pres w1 w3.
Proof.
  intros (F1 & I1 & E1 & N1 & H1) (F2 & I2 & E2 & N2 & H2).
  repeat split; try congruence.
  - intros i p H. apply E2, E1, H.
  - lia.
  - intros a Ha. rewrite H2 by lia. now apply H1.
Qed.

Lemma agree_refl w : agree w w.
Proof. split; auto using pres_refl. Qed.

Lemma agree_trans w1 w2 w3 : agree w1 w2 -> agree w2 w3 -> agree w1 w3.
Proof. intros [P1 E1] [P2 E2]. split; [eapply pres_trans; eauto|congruence]. Qed.

Lemma hread_cons_other w a b rows :
  a <> b ->
  hread (mkWorld (w_files w) (w_internal w) (w_ext w) ((b, rows) :: w_heap w)
                 (w_next w)) a = hread w a.
Proof.
  intros H. unfold hread. simpl. destruct (N.eqb_spec a b); [contradiction|reflexivity].
Qed.

Lemma alloc_agree w rows : agree w (fst (alloc w rows)).
Proof.
  unfold alloc. simpl. repeat split; simpl; auto; try lia.
  - intros i p H; exact H.
  - intros a Ha. unfold hread. simpl.
    destruct (N.eqb_spec a (w_next w)); [lia|reflexivity].
Qed.

Lemma alloc_read w rows :
  hread (fst (alloc w rows)) (snd (alloc w rows)) = rows.
Proof. unfold alloc, hread. simpl. now rewrite N.eqb_refl. Qed.

Lemma alloc_addr w rows :
  snd (alloc w rows) = w_next w /\
  w_next (fst (alloc w rows)) = N.succ (w_next w).
Proof. split; reflexivity. Qed.

(* a write to an address that did not exist in w0 keeps agreement with w0 *)
Lemma hwrite_agree w0 w a rows :
  (w_next w0 <= a)%N -> agree w0 w -> agree w0 (hwrite w a rows).
Proof.
  intros Ha ((F & I & E & N & H) & X). unfold hwrite.
  repeat split; simpl; auto.
  intros b Hb. unfold hread. simpl.
  destruct (N.eqb_spec b a); [lia|]. now apply H.
Qed.

Lemma load_lut_agree w d w1 r :
  load_lut w d = (w1, r) ->
  agree w w1 /\
  match r with
  | Ok (a, _) => (w_next w <= a)%N
  | Err _ => w1 = w
  end.
Proof.
  unfold load_lut. destruct d as [a m|x].
  - intros H. inversion H; subst. split; [apply alloc_agree|simpl; lia].
  - destruct (get_lut_path w x) as [p|e].
    + destruct (zlookup p (w_files w)) as [f|].
      * destruct (load_mtext f) as [[rows m]|e].
        -- intros H. inversion H; subst. split; [apply alloc_agree|simpl; lia].
        -- intros H; inversion H; subst. split; auto using agree_refl.
      * intros H; inversion H; subst. split; auto using agree_refl.
    + intros H; inversion H; subst. split; auto using agree_refl.
Qed.

Section World.
  Variable tri : list pt -> list triangle.
  Variable delta : feat -> Q -> Q -> Q.
  Variable eta : Q -> Q.

  Notation get_emodulus_w := (get_emodulus_w tri delta eta).
  Notation step := (step tri delta eta).
  Notation run_ops := (run_ops tri delta eta).

  (* one call: nothing that existed before is modified *)
  Lemma get_emodulus_w_agree w d S m evs :
    agree w (fst (get_emodulus_w w d S m evs)).
  Proof.
    unfold C05.get_emodulus_w.
    destruct (load_lut w d) as [w1 r] eqn:E.
    destruct (load_lut_agree _ _ _ _ E) as [A R].
    destruct r as [[a mt]|e]; simpl; auto.
    destruct (select_feat mt) as [f|e]; simpl; auto.
    destruct (get_emodulus tri delta eta _ S m evs) as [r|]; simpl; auto.
    destruct m; repeat apply hwrite_agree; auto.
  Qed.

  Lemma register_pres w p i : pres w (fst (register_lut w p i)).
  Proof.
    unfold register_lut.
    destruct (match i with
              | Some i0 => Ok i0
              | None => _
              end) as [id|e]; simpl; auto using pres_refl.
    destruct (zlookup id (w_ext w)) eqn:E1; simpl; auto using pres_refl.
    destruct (zlookup id (w_internal w)) eqn:E2; simpl; auto using pres_refl.
    repeat split; simpl; auto; try lia.
    intros j q H. simpl. destruct (Z.eqb_spec j id); [subst; congruence|exact H].
  Qed.

  (* operations of dclab itself (the user neither rewrites files nor
     modifies his arrays) *)
  Definition quiet (o : op) : bool :=
    match o with
    | OCall _ _ _ _ | ORegister _ _ => true
    | OWriteFile _ _ | OMutate _ _ | OUnregister _ => false
    end.

  Lemma step_pres w o : quiet o = true -> pres w (fst (step w o)).
  Proof.
    destruct o as [d S m evs|p i|p f|a rows|i]; simpl; try discriminate; intros _.
    - pose proof (get_emodulus_w_agree w d S m evs) as [P _].
      destruct (get_emodulus_w w d S m evs); exact P.
    - pose proof (register_pres w p i) as P.
      destruct (register_lut w p i); exact P.
  Qed.

  (* === registered LUTs, files and existing arrays are not modified by any
         sequence of get_emodulus calls and registrations =============== *)
  Theorem run_ops_pres ops :
    forallb quiet ops = true -> forall w, pres w (fst (run_ops w ops)).
  Proof.
    induction ops as [|o r IH]; intros Q w; simpl; [apply pres_refl|].
    simpl in Q. apply andb_prop in Q. destruct Q as [Q1 Q2].
    pose proof (step_pres w o Q1) as P1. destruct (step w o) as [w1 x].
    pose proof (IH Q2 w1) as P2. destruct (run_ops w1 r) as [w2 xs]. simpl in *.
    eapply pres_trans; eauto.
  Qed.

  Fixpoint only_calls (ops : list (op)) : bool :=
    match ops with
    | [] => true
    | OCall _ _ _ _ :: r => only_calls r
    | _ :: _ => false
    end.

  Theorem run_calls_agree ops :
    only_calls ops = true -> forall w, agree w (fst (run_ops w ops)).
  Proof.
    induction ops as [|o r IH]; intros H w; simpl; [apply agree_refl|].
    destruct o as [d S m evs| | | |]; try discriminate. simpl in H. simpl.
    pose proof (get_emodulus_w_agree w d S m evs) as A1.
    destruct (get_emodulus_w w d S m evs) as [w1 x].
    pose proof (IH H w1) as A2. destruct (run_ops w1 r) as [w2 xs]. simpl in *.
    eapply agree_trans; eauto.
  Qed.

  (* what load_lut hands to the computation *)
  Definition loaded (w : world) (d : lutdata) : res (list node * meta) :=
    match load_lut w d with
    | (w1, Ok (a, m)) => Ok (hread w1 a, m)
    | (_, Err e) => Err e
    end.

  Lemma get_lut_path_pres w w' x p :
    pres w w' -> get_lut_path w x = Ok p -> get_lut_path w' x = Ok p.
  Proof.
    intros (F & I & E & _) H. unfold get_lut_path in *. rewrite F, I.
    destruct (zlookup x (w_files w)); auto.
    destruct (zlookup x (w_internal w)); auto.
    destruct (zlookup x (w_ext w)) eqn:X; [|discriminate].
    now rewrite (E _ _ X).
  Qed.

  Lemma loaded_name w x :
    loaded w (DName x)
    = match get_lut_path w x with
      | Err e => Err e
      | Ok p => match zlookup p (w_files w) with
                | None => Err EFileNotFound
                | Some f => load_mtext f
                end
      end.
  Proof.
    unfold loaded, load_lut. destruct (get_lut_path w x) as [p|e]; auto.
    destruct (zlookup p (w_files w)) as [f|]; auto.
    destruct (load_mtext f) as [[rows m]|e]; auto.
    pose proof (alloc_read w rows) as R. destruct (alloc w rows) as [w' a'].
    simpl in R. now rewrite R.
  Qed.

  Lemma loaded_tuple w a m : loaded w (DTuple a m) = Ok (hread w a, m).
  Proof.
    unfold loaded, load_lut. pose proof (alloc_read w (hread w a)) as R.
    destruct (alloc w (hread w a)) as [w' a']. simpl in R. now rewrite R.
  Qed.

  (* a name that resolves keeps resolving to the same file with the same
     contents, whatever happened in between *)
  Theorem loaded_name_stable w w' x p :
    pres w w' -> get_lut_path w x = Ok p ->
    loaded w' (DName x) = loaded w (DName x).
  Proof.
    intros P H. rewrite !loaded_name, H, (get_lut_path_pres _ _ _ _ P H).
    destruct P as (F & _). now rewrite F.
  Qed.

  Theorem loaded_tuple_stable w w' a m :
    pres w w' -> (a < w_next w)%N ->
    loaded w' (DTuple a m) = loaded w (DTuple a m).
  Proof.
    intros (_ & _ & _ & _ & H) Ha. rewrite !loaded_tuple. now rewrite H.
  Qed.

  (* the result of a call is a function of what was loaded *)
  Definition pure_result (ld : res (list node * meta)) (S : setup) (m : medium)
             (evs : list event) : res (list (option Q)) :=
    match ld with
    | Err e => Err e
    | Ok (rows, mt) =>
        match select_feat mt with
        | Err e => Err e
        | Ok f =>
            match get_emodulus tri delta eta
                               (mkLut f (m_cw mt) (m_fr mt) (m_visc mt) rows)
                               S m evs with
            | None => Err EValueError
            | Some r => Ok r
            end
        end
    end.

  Lemma get_emodulus_w_result w d S m evs :
    snd (get_emodulus_w w d S m evs) = pure_result (loaded w d) S m evs.
  Proof.
    unfold C05.get_emodulus_w, loaded, pure_result.
    destruct (load_lut w d) as [w1 [[a mt]|e]]; simpl; auto.
    destruct (select_feat mt) as [f|e]; simpl; auto.
    destruct (get_emodulus tri delta eta _ S m evs); reflexivity.
  Qed.

  (* === earlier calls do not matter ================================== *)
  Definition data_valid (w : world) (d : lutdata) : Prop :=
    match d with
    | DTuple a _ => (a < w_next w)%N
    | DName x => exists p, get_lut_path w x = Ok p
    end.

  Theorem call_after_history w ops d S m evs :
    forallb quiet ops = true ->
    data_valid w d ->
    snd (get_emodulus_w (fst (run_ops w ops)) d S m evs)
    = snd (get_emodulus_w w d S m evs).
  Proof.
    intros Qt V. rewrite !get_emodulus_w_result. f_equal.
    pose proof (run_ops_pres ops Qt w) as P.
    destruct d as [a mt|x].
    - now apply loaded_tuple_stable.
    - destruct V as [p Hp]. eapply loaded_name_stable; eauto.
  Qed.

  (* a name that does not resolve yet: unaffected by get_emodulus calls *)
  Theorem call_after_calls w ops d S m evs :
    only_calls ops = true ->
    match d with DTuple a _ => (a < w_next w)%N | DName _ => True end ->
    snd (get_emodulus_w (fst (run_ops w ops)) d S m evs)
    = snd (get_emodulus_w w d S m evs).
  Proof.
    intros C V. rewrite !get_emodulus_w_result. f_equal.
    destruct (run_calls_agree ops C w) as [P E].
    destruct d as [a mt|x].
    - now apply loaded_tuple_stable.
    - rewrite !loaded_name. unfold get_lut_path.
      destruct P as (F & I & _). now rewrite F, I, E.
  Qed.

  (* === with the user rewriting files and modifying his arrays in between:
         get_emodulus calls in the history never matter, every call sees the
         CURRENT files, registry and arrays ============================= *)
  Definition is_call (o : op) : bool :=
    match o with OCall _ _ _ _ => true | _ => false end.

  Definition erase_calls (ops : list op) : list op :=
    filter (fun o => negb (is_call o)) ops.

  (* the user can only modify arrays of his own: addresses below n0 *)
  Definition user_op (n0 : N) (o : op) : bool :=
    match o with
    | OMutate a _ => (a <? n0)%N
    | _ => true
    end.

  (* two worlds the user cannot tell apart *)
  Definition same_env (n0 : N) (w1 w2 : world) : Prop :=
    w_files w1 = w_files w2 /\ w_internal w1 = w_internal w2 /\
    w_ext w1 = w_ext w2 /\ (n0 <= w_next w1)%N /\ (n0 <= w_next w2)%N /\
    forall a, (a < n0)%N -> hread w1 a = hread w2 a.

  Lemma same_env_call n0 w1 w2 d S m evs :
    same_env n0 w1 w2 ->
    same_env n0 (fst (get_emodulus_w w1 d S m evs)) w2.
  Proof.
    intros (F & I & E & N1 & N2 & H).
    destruct (get_emodulus_w_agree w1 d S m evs) as ((F' & I' & _ & N' & H') & E').
    repeat split; try congruence; try lia.
    intros a Ha. rewrite H' by lia. now apply H.
  Qed.

  Lemma same_env_register n0 w1 w2 p i :
    same_env n0 w1 w2 ->
    same_env n0 (fst (register_lut w1 p i)) (fst (register_lut w2 p i)).
  Proof.
    intros (F & I & E & N1 & N2 & H). unfold register_lut. rewrite F, I, E.
    destruct (match i with
              | Some i0 => Ok i0
              | None => _
              end) as [id|e]; simpl; [|repeat split; auto].
    destruct (zlookup id (w_ext w2)); simpl; [repeat split; auto|].
    destruct (zlookup id (w_internal w2)); simpl; repeat split; auto;
      simpl; congruence.
  Qed.

  Lemma same_env_erase n0 ops :
    forallb (user_op n0) ops = true ->
    forall w1 w2, same_env n0 w1 w2 ->
                  same_env n0 (fst (run_ops w1 ops))
                           (fst (run_ops w2 (erase_calls ops))).
  Proof.
    induction ops as [|o r IH]; intros U w1 w2 R; simpl; auto.
    simpl in U. apply andb_prop in U. destruct U as [U1 U2].
    destruct o as [d S m evs|p i|p f|a rows|i]; simpl.
    - pose proof (same_env_call n0 w1 w2 d S m evs R) as R1.
      destruct (get_emodulus_w w1 d S m evs) as [w1' x]. simpl in R1.
      pose proof (IH U2 w1' w2 R1) as R2.
      destruct (run_ops w1' r) as [wa xa]. exact R2.
    - pose proof (same_env_register n0 w1 w2 p i R) as R1.
      destruct (register_lut w1 p i) as [w1' x1].
      destruct (register_lut w2 p i) as [w2' x2]. simpl in R1.
      pose proof (IH U2 w1' w2' R1) as R2.
      destruct (run_ops w1' r) as [wa xa].
      destruct (run_ops w2' (erase_calls r)) as [wb xb]. exact R2.
    - assert (R1 : same_env n0 (write_file w1 p f) (write_file w2 p f)).
      { destruct R as (F & I & E & N1 & N2 & H). unfold write_file.
        repeat split; simpl; auto. congruence. }
      pose proof (IH U2 _ _ R1) as R2.
      destruct (run_ops (write_file w1 p f) r) as [wa xa].
      destruct (run_ops (write_file w2 p f) (erase_calls r)) as [wb xb]. exact R2.
    - assert (R1 : same_env n0 (hwrite w1 a rows) (hwrite w2 a rows)).
      { destruct R as (F & I & E & N1 & N2 & H). unfold hwrite.
        repeat split; simpl; auto.
        intros b Hb. unfold hread. simpl.
        destruct (N.eqb_spec b a); auto. now apply H. }
      pose proof (IH U2 _ _ R1) as R2.
      destruct (run_ops (hwrite w1 a rows) r) as [wa xa].
      destruct (run_ops (hwrite w2 a rows) (erase_calls r)) as [wb xb]. exact R2.
    - assert (R1 : same_env n0 (unregister w1 i) (unregister w2 i)).
      { destruct R as (F & I & E & N1 & N2 & H). unfold unregister.
        repeat split; simpl; auto. congruence. }
      pose proof (IH U2 _ _ R1) as R2.
      destruct (run_ops (unregister w1 i) r) as [wa xa].
      destruct (run_ops (unregister w2 i) (erase_calls r)) as [wb xb]. exact R2.
  Qed.

  Lemma loaded_same_env n0 w1 w2 d :
    same_env n0 w1 w2 ->
    match d with DTuple a _ => (a < n0)%N | DName _ => True end ->
    loaded w1 d = loaded w2 d.
  Proof.
    intros (F & I & E & N1 & N2 & H) V. destruct d as [a mt|x].
    - rewrite !loaded_tuple. now rewrite H.
    - rewrite !loaded_name. unfold get_lut_path. now rewrite F, I, E.
  Qed.

  Theorem calls_never_matter w ops d S m evs :
    forallb (user_op (w_next w)) ops = true ->
    match d with DTuple a _ => (a < w_next w)%N | DName _ => True end ->
    snd (get_emodulus_w (fst (run_ops w ops)) d S m evs)
    = snd (get_emodulus_w (fst (run_ops w (erase_calls ops))) d S m evs).
  Proof.
    intros U V. rewrite !get_emodulus_w_result. f_equal.
    apply (loaded_same_env (w_next w)); auto.
    apply same_env_erase; auto.
    repeat split; auto; lia.
  Qed.

  (* after the user rewrote the file behind a name, a call sees the new
     content *)
  Theorem call_sees_rewritten_file w p f :
    zlookup p (w_files w) <> None ->
    loaded (write_file w p f) (DName p) = load_mtext f.
  Proof.
    intros _. rewrite loaded_name. unfold get_lut_path, write_file. simpl.
    rewrite Z.eqb_refl. simpl. rewrite Z.eqb_refl. reflexivity.
  Qed.
End World.

Lemma register_files w p i w' r :
  register_lut w p i = (w', r) ->
  w_files w' = w_files w /\ w_internal w' = w_internal w.
Proof.
  unfold register_lut.
  destruct (match i with Some i0 => Ok i0 | None => _ end) as [id|e];
    [|intros H; inversion H; auto].
  destruct (zlookup id (w_ext w)); [intros H; inversion H; auto|].
  destruct (zlookup id (w_internal w)); intros H; inversion H; auto.
Qed.

Lemma register_then_resolve_aux w i p q w1 w2 :
  zlookup i (w_files w) = None -> zlookup i (w_internal w) = None ->
  register_lut w p (Some i) = (w1, Ok tt) ->
  register_lut (unregister w1 i) q (Some i) = (w2, Ok tt) ->
  get_lut_path w2 i = Ok q.
Proof.
  intros F I R1 R2.
  destruct (register_files _ _ _ _ _ R1) as [F1 I1].
  unfold register_lut in R2. simpl in R2.
  destruct (zlookup i (filter (fun kv => negb (fst kv =? i)%Z) (w_ext w1)));
    [inversion R2|].
  rewrite I1, I in R2. inversion R2; subst. unfold get_lut_path. simpl.
  rewrite F1, F, I, Z.eqb_refl. reflexivity.
Qed.

(* re-binding an identifier: after it was removed and registered again with
   another file, the identifier resolves to the NEW file *)
Theorem rebind_resolves_new w i p q w1 w2 :
  zlookup i (w_files w) = None -> zlookup i (w_internal w) = None ->
  register_lut w p (Some i) = (w1, Ok tt) ->
  register_lut (unregister w1 i) q (Some i) = (w2, Ok tt) ->
  get_lut_path w2 i = Ok q.
Proof.
  intros F I R1 R2. eapply register_then_resolve_aux; eauto.
Qed.

(* registry semantics *)
Theorem register_then_resolve w p i w' :
  register_lut w p (Some i) = (w', Ok tt) ->
  zlookup i (w_files w) = None ->
  get_lut_path w' i = Ok p.
Proof.
  unfold register_lut.
  destruct (zlookup i (w_ext w)) eqn:E1; [intros H; inversion H|].
  destruct (zlookup i (w_internal w)) eqn:E2; [intros H; inversion H|].
  intros H F. inversion H; subst. unfold get_lut_path. simpl.
  rewrite F, E2, Z.eqb_refl. reflexivity.
Qed.

Theorem register_twice_refused w p i w' q :
  register_lut w p (Some i) = (w', Ok tt) ->
  register_lut w' q (Some i) = (w', Err EValueError).
Proof.
  unfold register_lut.
  destruct (zlookup i (w_ext w)) eqn:E1; [intros H; inversion H|].
  destruct (zlookup i (w_internal w)) eqn:E2; [intros H; inversion H|].
  intros H. inversion H; subst. simpl. now rewrite Z.eqb_refl.
Qed.

(* non-vacuity *)
Definition ex_file : lutfile :=
  mkFile true true true (Some 7%Z) [(1, 1); (0, 0); (2, 2)]%Z 20 (4 # 100) 15
         [ (10, 1 # 100, 2); (100, 2 # 100, 8); (60, 10 # 100, 1) ]%Q.
Definition ex_world : world :=
  mkWorld [(100%Z, ex_file)] [(1%Z, 100%Z)] [] [(0%N, f_rows ex_file)] 1.

Example ex_registry :
  run_load_ops ex_world []
               [(1, 7, 0); (0, 100, -1); (1, 7, 0); (0, 100, 7);
                (0, 100, 1); (1, 1, 0); (1, 55, 0)]%Z
  = [1; 0; 0; 100; 1; 2; 1; 1; 0; 100; 1; 2; 1]%Z.
Proof. vm_compute. reflexivity. Qed.

(* the file behind a registered identifier is rewritten: the next load sees
   the new content (tag 9 instead of 2) *)
Definition ex_file2 : lutfile :=
  mkFile true true true (Some 7%Z) [(1, 1); (0, 0); (2, 2)]%Z 20 (4 # 100) 15
         [ (10, 1 # 100, 9); (100, 2 # 100, 8); (60, 10 # 100, 1) ]%Q.

Example ex_rewrite :
  run_load_ops ex_world [ex_file2]
               [(0, 100, -1); (1, 7, 0); (2, 100, 0); (1, 7, 0); (1, 100, 0)]%Z
  = [0; 0; 100; 1; 2; 0; 100; 1; 9; 0; 100; 1; 9]%Z.
Proof. vm_compute. reflexivity. Qed.

Example ex_call_leaves_arrays :
  let w' := fst (get_emodulus_w (fun _ => [(0, 1, 2)%N]) (fun _ _ _ => 0%Q)
                                (fun t => t)
                                ex_world
                                (DTuple 0 (mkMeta [1; 0; 2]%Z 20 (4 # 100) 15 None))
                                (mkSetup 30 (16 # 100) 0) (MNum 5)
                                [(100, 4 # 100)%Q]) in
  hread w' 0 = f_rows ex_file /\ hread w' 1 <> f_rows ex_file
  /\ w_ext w' = [] /\ w_files w' = w_files ex_world.
Proof. vm_compute. repeat split; discriminate. Qed.
