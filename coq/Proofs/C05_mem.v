(* The caller's arrays (abscissa, deform, temperatures) in memory.
   get_emodulus_mem follows the code's copies and in-place updates and computes
   the result from the arrays as they are when griddata is called.
   - copy=True: no existing array is modified, and the result is the pure
     get_emodulus of the values the arrays held (also when the same array is
     passed twice);
   - copy=False: exactly the deform array is overwritten; the result is the
     pure one provided the arrays are distinct (aliased inputs are outside
     the property: ex_alias_nocopy_differs). *)
From Coq Require Import ZArith NArith QArith List Bool Lia.
From Verif Require Import Model.C05.
Import ListNotations.

Ltac skip_keys a :=
  repeat match goal with
         | |- context [N.eqb a ?k] => destruct (N.eqb_spec a k); [lia|]
         end.

Lemma combine_map_map2 {A B C D} (fx : A -> C) (gd : B -> D) (h : A -> B -> B)
      xs ds :
  combine (map fx xs) (map gd (map2 h xs ds))
  = map (fun ev => (fx (fst ev), gd (h (fst ev) (snd ev)))) (combine xs ds).
Proof.
  revert ds. induction xs as [|x xs IH]; intros [|d ds]; simpl; auto.
  now rewrite IH.
Qed.

Lemma combine_map_map {A B C D} (fx : A -> C) (gd : B -> D) xs ds :
  combine (map fx xs) (map gd ds)
  = map (fun ev => (fx (fst ev), gd (snd ev))) (combine xs ds).
Proof.
  revert ds. induction xs as [|x xs IH]; intros [|d ds]; simpl; auto.
  now rewrite IH.
Qed.

Lemma map2_map_l {A A' B C} (f : A' -> B -> C) (g : A -> A') l m :
  map2 f (map g l) m = map2 (fun a b => f (g a) b) l m.
Proof. revert m. induction l; intros [|b m]; simpl; congruence. Qed.

Section Mem.
  Variable tri : list pt -> list triangle.
  Variable delta : feat -> Q -> Q -> Q.
  Variable eta : Q -> Q.

  Notation gem := (get_emodulus_mem tri delta eta).

  (* the medium as the pure function sees it, temperatures read from m *)
  Definition medium_of (m : mem) (md : mmedium) : medium :=
    match md with
    | MMNum v => MNum v
    | MMScalar t => MTempScalar t
    | MMArray a => MTempArray (mread m a)
    end.

  (* the normalised point of an event *)
  Definition npoint (L : lut) (S : setup) (ev : event) : pt :=
    (normq (scale_featx (l_feat L) (fst ev) (s_cw S) (l_cw L))
           (lmax (map nx (l_nodes L))),
     normq (pxcorr delta (l_feat L) (s_px S) (fst ev) (snd ev))
           (lmax (map nd (l_nodes L)))).

  (* interpolating the normalised arrays is get_emodulus of the events *)
  Lemma emod_points_pure L S md evs :
    emod_points tri eta L S md (map (npoint L S) evs)
    = get_emodulus tri delta eta L S md evs.
  Proof.
    unfold emod_points, get_emodulus, route_scalar, route_array, array_event.
    destruct md as [v|t|[|t0 tl]]; auto.
    - rewrite map_map. reflexivity.
    - rewrite map_map. reflexivity.
    - rewrite map_length.
      destruct (broadcast (map eta (t0 :: tl)) (length evs)); auto.
      rewrite map2_map_l. reflexivity.
  Qed.

  (* what the normalised arrays hold when griddata is called *)
  Definition final_points (L : lut) (S : setup) (xs ds : list Q) : list pt :=
    map (npoint L S) (combine xs ds).

  Lemma final_points_eq L S xs ds :
    combine (map (fun x => normq x (lmax (map nx (l_nodes L))))
                 (map (fun x => scale_featx (l_feat L) x (s_cw S) (l_cw L)) xs))
            (map (fun d => normq d (lmax (map nd (l_nodes L))))
                 (if Qeq_bool (s_px S) 0 then ds
                  else map2 (fun x d => d - delta (l_feat L) (s_px S) x) xs ds))
    = final_points L S xs ds.
  Proof.
    unfold final_points, npoint, pxcorr. rewrite map_map.
    destruct (Qeq_bool (s_px S) 0).
    - rewrite combine_map_map. reflexivity.
    - rewrite (combine_map_map2 _ _ (fun x d => d - delta (l_feat L) (s_px S) x)).
      reflexivity.
  Qed.

  (* copy=True: the result is the pure get_emodulus of the values the arrays
     held when the call was made -- whatever the addresses, also when the same
     array is passed as abscissa and as deform *)
  Theorem mem_result_is_pure_copy m0 L S md ax ad :
    (ax < h_next m0)%N -> (ad < h_next m0)%N ->
    (forall a, md = MMArray a -> (a < h_next m0)%N) ->
    snd (gem true m0 L S md ax ad)
    = get_emodulus tri delta eta L S (medium_of m0 md)
                   (combine (mread m0 ax) (mread m0 ad)).
  Proof.
    intros Hx Hd Ht. rewrite <- emod_points_pure.
    change (map (npoint L S) (combine (mread m0 ax) (mread m0 ad)))
      with (final_points L S (mread m0 ax) (mread m0 ad)).
    rewrite <- final_points_eq.
    unfold get_emodulus_mem, np_array, malloc. simpl.
    assert (Hmed : forall m', (forall a, (a < h_next m0)%N -> mread m' a = mread m0 a) ->
                              match md with
                              | MMNum v => MNum v
                              | MMScalar t => MTempScalar t
                              | MMArray a => MTempArray (mread m' a)
                              end = medium_of m0 md).
    { intros m' Hm. destruct md as [v|t|a]; simpl; auto.
      rewrite Hm; auto. }
    destruct (Qeq_bool (s_px S) 0) eqn:Px; simpl.
    - rewrite Hmed.
      + unfold mread, mwrite. simpl. rewrite ?N.eqb_refl.
        repeat match goal with
               | |- context [N.eqb ?a ?b] =>
                   destruct (N.eqb_spec a b); [lia|]
               end.
        rewrite ?N.eqb_refl. reflexivity.
      + intros a Ha. unfold mread. simpl. skip_keys a. reflexivity.
    - rewrite Hmed.
      + unfold mread, mwrite. simpl. rewrite ?N.eqb_refl.
        repeat match goal with
               | |- context [N.eqb ?a ?b] =>
                   destruct (N.eqb_spec a b); [lia|]
               end.
        rewrite ?N.eqb_refl. reflexivity.
      + intros a Ha. unfold mread, mwrite. simpl. skip_keys a. reflexivity.
  Qed.

  (* copy=False with distinct arrays: still the pure result *)
  Theorem mem_result_is_pure_nocopy m0 L S md ax ad :
    (ax < h_next m0)%N -> (ad < h_next m0)%N -> ax <> ad ->
    (forall a, md = MMArray a -> (a < h_next m0)%N /\ a <> ad) ->
    snd (gem false m0 L S md ax ad)
    = get_emodulus tri delta eta L S (medium_of m0 md)
                   (combine (mread m0 ax) (mread m0 ad)).
  Proof.
    intros Hx Hd Hxd Ht. rewrite <- emod_points_pure.
    change (map (npoint L S) (combine (mread m0 ax) (mread m0 ad)))
      with (final_points L S (mread m0 ax) (mread m0 ad)).
    rewrite <- final_points_eq.
    unfold get_emodulus_mem, np_array, malloc. simpl.
    assert (Hmed : forall m', (forall a, (a < h_next m0)%N -> a <> ad ->
                                         mread m' a = mread m0 a) ->
                              match md with
                              | MMNum v => MNum v
                              | MMScalar t => MTempScalar t
                              | MMArray a => MTempArray (mread m' a)
                              end = medium_of m0 md).
    { intros m' Hm. destruct md as [v|t|a]; simpl; auto.
      destruct (Ht a eq_refl). rewrite Hm; auto. }
    destruct (Qeq_bool (s_px S) 0) eqn:Px; simpl.
    - rewrite Hmed.
      + unfold mread, mwrite. simpl. rewrite ?N.eqb_refl.
        repeat match goal with
               | |- context [N.eqb ax ad] =>
                   destruct (N.eqb_spec ax ad); [contradiction|]
               | |- context [N.eqb ?a ?b] =>
                   destruct (N.eqb_spec a b); [lia|]
               end.
        rewrite ?N.eqb_refl. reflexivity.
      + intros a Ha Hn. reflexivity.
    - rewrite Hmed.
      + unfold mread, mwrite. simpl. rewrite ?N.eqb_refl.
        repeat match goal with
               | |- context [N.eqb ax ad] =>
                   destruct (N.eqb_spec ax ad); [contradiction|]
               | |- context [N.eqb ?a ?b] =>
                   destruct (N.eqb_spec a b); [lia|]
               end.
        rewrite ?N.eqb_refl. reflexivity.
      + intros a Ha Hn. unfold mread, mwrite. simpl.
        destruct (N.eqb_spec a ad); [contradiction|]. reflexivity.
  Qed.

  (* copy=True: neither the caller's arrays (abscissa, deform, temperatures)
     nor any other existing array is modified *)
  Theorem mem_copy_preserves m0 L S md ax ad :
    forall a, (a < h_next m0)%N ->
              mread (fst (gem true m0 L S md ax ad)) a = mread m0 a.
  Proof.
    intros a Ha. unfold get_emodulus_mem, np_array, malloc. simpl.
    destruct (Qeq_bool (s_px S) 0); unfold mread, mwrite; simpl;
      skip_keys a; reflexivity.
  Qed.

  (* copy=False: every array but the deform array keeps its contents *)
  Theorem mem_nocopy_others m0 L S md ax ad :
    forall a, (a < h_next m0)%N -> a <> ad ->
              mread (fst (gem false m0 L S md ax ad)) a = mread m0 a.
  Proof.
    intros a Ha Hd. unfold get_emodulus_mem, np_array, malloc. simpl.
    destruct (Qeq_bool (s_px S) 0); unfold mread, mwrite; simpl;
      repeat match goal with
             | |- context [N.eqb a ad] =>
                 destruct (N.eqb_spec a ad); [contradiction|]
             | |- context [N.eqb a ?k] => destruct (N.eqb_spec a k); [lia|]
             end; reflexivity.
  Qed.

  (* ... and the deform array holds the pixelation-corrected, normalised
     deformation afterwards: the caller's array IS modified *)
  Theorem mem_nocopy_deform m0 L S md ax ad :
    (ad < h_next m0)%N -> ax <> ad ->
    mread (fst (gem false m0 L S md ax ad)) ad
    = map (fun d => normq d (lmax (map nd (l_nodes L))))
          (if Qeq_bool (s_px S) 0 then mread m0 ad
           else map2 (fun x d => d - delta (l_feat L) (s_px S) x)
                     (mread m0 ax) (mread m0 ad)).
  Proof.
    intros Ha Hx. unfold get_emodulus_mem, np_array, malloc. simpl.
    destruct (Qeq_bool (s_px S) 0); unfold mread, mwrite; simpl.
    - destruct (N.eqb_spec ad (h_next m0)); [lia|].
      rewrite N.eqb_refl.
      destruct (N.eqb_spec ad (h_next m0)); [lia|]. reflexivity.
    - destruct (N.eqb_spec ad (h_next m0)); [lia|].
      rewrite !N.eqb_refl.
      destruct (N.eqb_spec ax ad); [contradiction|].
      destruct (N.eqb_spec ad (h_next m0)); [lia|].
      rewrite ?N.eqb_refl. reflexivity.
  Qed.
End Mem.

(* non-vacuity *)
Definition ex_mem : mem :=
  mkMem [(0%N, [150; 45 # 2]%Q); (1%N, [4 # 100; 2 # 100]%Q); (2%N, [23; 24]%Q)] 3.
Definition ex_L : lut :=
  mkLut Area 20 (4 # 100) 15
        [ (10, 1 # 100, 2); (100, 2 # 100, 8); (60, 10 # 100, 1) ]%Q.
Definition ex_gem copy md ax ad :=
  get_emodulus_mem (fun _ => [(0, 1, 2)%N]) (fun _ _ _ => 1 # 1000)
                   (fun t => t) copy ex_mem ex_L
                   (mkSetup 30 (16 # 100) (34 # 100)) md ax ad.

Example ex_copy_false_overwrites :
  mread (fst (ex_gem false (MMNum 5) 0 1)) 1 <> mread ex_mem 1
  /\ mread (fst (ex_gem true (MMNum 5) 0 1)) 1 = mread ex_mem 1
  /\ mread (fst (ex_gem true (MMArray 2) 0 1)) 2 = mread ex_mem 2.
Proof. vm_compute. split; [discriminate|split; reflexivity]. Qed.

(* the same array passed twice: with copy=True the result is that of the
   values, with copy=False it is not (the hypothesis ax <> ad is needed) *)
Definition ex_L2 : lut :=
  mkLut Area 20 (4 # 100) 15
        [ (1 # 100, 1 # 100, 2); (10 # 100, 2 # 100, 8); (6 # 100, 10 # 100, 1) ]%Q.
Definition ex_mem2 : mem := mkMem [(0%N, [5 # 100; 4 # 100]%Q)] 1.
Definition ex_gem2 copy :=
  get_emodulus_mem (fun _ => [(0, 1, 2)%N]) (fun _ _ _ => 1 # 1000)
                   (fun t => t) copy ex_mem2 ex_L2
                   (mkSetup 20 (4 # 100) (34 # 100)) (MMNum 15) 0 0.

Example ex_alias_copy_is_pure :
  snd (ex_gem2 true)
  = get_emodulus (fun _ => [(0, 1, 2)%N]) (fun _ _ _ => 1 # 1000) (fun t => t)
                 ex_L2 (mkSetup 20 (4 # 100) (34 # 100)) (MNum 15)
                 [(5 # 100, 5 # 100); (4 # 100, 4 # 100)]%Q.
Proof. vm_compute. reflexivity. Qed.

Example ex_alias_nocopy_differs :
  match snd (ex_gem2 false), snd (ex_gem2 true) with
  | Some (Some a :: _), Some (Some b :: _) => ~ a == b
  | _, _ => False
  end.
Proof. vm_compute. discriminate. Qed.
