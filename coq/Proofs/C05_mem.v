(* The caller's event arrays: get_emodulus(copy=True) writes only to arrays it
   allocated itself; with copy=False exactly the deform array is overwritten
   (documented: "input arrays are overridden"). *)
From Coq Require Import ZArith NArith QArith List Bool Lia.
From Verif Require Import Model.C05.
Import ListNotations.

Ltac skip_keys a :=
  repeat match goal with
         | |- context [N.eqb a ?k] => destruct (N.eqb_spec a k); [lia|]
         end.

Section Mem.
  Variable tri : list pt -> list triangle.
  Variable delta : feat -> Q -> Q -> Q.
  Variable eta : Q -> Q.

  Notation gem := (get_emodulus_mem tri delta eta).

  (* the value returned is the pure get_emodulus of the values the arrays
     held when the call was made *)
  Theorem mem_result_is_pure copy m0 L S md ax ad :
    snd (gem copy m0 L S md ax ad)
    = get_emodulus tri delta eta L S md (combine (mread m0 ax) (mread m0 ad)).
  Proof.
    unfold get_emodulus_mem, np_array, malloc.
    destruct copy; simpl; reflexivity.
  Qed.

  (* copy=True: neither the caller's arrays nor any other existing array is
     modified *)
  Theorem mem_copy_preserves m0 L S md ax ad :
    forall a, (a < h_next m0)%N ->
              mread (fst (gem true m0 L S md ax ad)) a = mread m0 a.
  Proof.
    intros a Ha. unfold get_emodulus_mem, np_array, malloc. simpl.
    destruct (Qeq_bool (s_px S) 0); unfold mread, mwrite; simpl;
      skip_keys a; reflexivity.
  Qed.

  (* copy=False: every array but the deform array keeps its contents (in
     particular the abscissa array), ... *)
  Theorem mem_nocopy_others m0 L S md ax ad :
    forall a, (a < h_next m0)%N -> a <> ad ->
              mread (fst (gem false m0 L S md ax ad)) a = mread m0 a.
  Proof.
    intros a Ha Hd. unfold get_emodulus_mem, np_array, malloc. simpl.
    destruct (Qeq_bool (s_px S) 0); unfold mread, mwrite; simpl;
      repeat match goal with
             | |- context [N.eqb a ad] =>
                 destruct (N.eqb_spec a ad); [contradiction|]
             | |- context [N.eqb a ?k] => destruct (N.eqb_spec a k); [lia|]
             end; reflexivity.
  Qed.

  (* ... and the deform array holds the pixelation-corrected, normalised
     deformation afterwards: the caller's array IS modified *)
  Theorem mem_nocopy_deform m0 L S md ax ad :
    (ad < h_next m0)%N -> ax <> ad ->
    mread (fst (gem false m0 L S md ax ad)) ad
    = map (fun d => normq d (lmax (map nd (l_nodes L))))
          (if Qeq_bool (s_px S) 0 then mread m0 ad
           else map2 (fun x d => d - delta (l_feat L) (s_px S) x)
                     (mread m0 ax) (mread m0 ad)).
  Proof.
    intros Ha Hx. unfold get_emodulus_mem, np_array, malloc. simpl.
    destruct (Qeq_bool (s_px S) 0); unfold mread, mwrite; simpl.
    - destruct (N.eqb_spec ad (h_next m0)); [lia|].
      rewrite N.eqb_refl.
      destruct (N.eqb_spec ad (h_next m0)); [lia|]. reflexivity.
    - destruct (N.eqb_spec ad (h_next m0)); [lia|].
      rewrite !N.eqb_refl.
      destruct (N.eqb_spec ax ad); [contradiction|].
      destruct (N.eqb_spec ad (h_next m0)); [lia|].
      rewrite ?N.eqb_refl. reflexivity.
  Qed.
End Mem.

(* non-vacuity: with copy=False the deform array really changes, with
   copy=True it does not *)
Definition ex_mem : mem := mkMem [(0%N, [150; 45 # 2]%Q); (1%N, [4 # 100; 2 # 100]%Q)] 2.
Definition ex_L : lut :=
  mkLut Area 20 (4 # 100) 15
        [ (10, 1 # 100, 2); (100, 2 # 100, 8); (60, 10 # 100, 1) ]%Q.

Example ex_copy_false_overwrites :
  mread (fst (get_emodulus_mem (fun _ => [(0, 1, 2)%N]) (fun _ _ _ => 1 # 1000)
                               (fun t => t) false ex_mem ex_L
                               (mkSetup 30 (16 # 100) (34 # 100)) (MNum 5) 0 1)) 1
  <> mread ex_mem 1
  /\ mread (fst (get_emodulus_mem (fun _ => [(0, 1, 2)%N]) (fun _ _ _ => 1 # 1000)
                                  (fun t => t) true ex_mem ex_L
                                  (mkSetup 30 (16 # 100) (34 # 100)) (MNum 5) 0 1)) 1
     = mread ex_mem 1.
Proof. vm_compute. split; [discriminate|reflexivity]. Qed.
