(* C06 -- generic cache-coherence proofs about Model/C06.v, for ANY registry
   [reg] (nothing here depends on the generated table).

   Main results
   - [run_inv]: after every history every cache slot was filled by some recipe
     of the registry, has the shape of that recipe's hash, and (generic
     methods) holds exactly the method applied to the hashed ingredients;
   - [read_coherent_flat]: if instances with colliding hashes are
     interchangeable ([collide_ok]), a read whose selected recipe is complete
     and has only stored (innate/temporary) required features returns what a
     dataset with the same state and an empty cache returns;
   - [history_read_coherent]: the same after any history of operations. *)
From Coq Require Import ZArith List Bool Lia.
From Verif Require Import Model.C06.
Import ListNotations.
Open Scope Z_scope.

(* ------------------------------------------------------------------ *)
(* equality tests are sound                                            *)
(* ------------------------------------------------------------------ *)
Lemma val_eqb_eq : forall a b, val_eqb a b = true -> a = b.
Proof.
  fix IH 1. intros [x|m o xs] [y|m' o' ys]; simpl; try discriminate.
  - intros H. apply Z.eqb_eq in H. now subst.
  - intros H. apply andb_prop in H. destruct H as [H Hl].
    apply andb_prop in H. destruct H as [Hm Ho].
    apply Z.eqb_eq in Hm. apply Z.eqb_eq in Ho. subst. f_equal.
    revert ys Hl.
    induction xs as [|[x|] xs IHxs]; intros [|[y|] ys]; try discriminate; auto.
    + intros H. apply andb_prop in H. destruct H as [H1 H2].
      f_equal.
      * f_equal. apply IH. exact H1.
      * apply IHxs. exact H2.
    + intros H. f_equal. apply IHxs. exact H.
Qed.

Lemma oval_eqb_eq : forall a b, oval_eqb a b = true -> a = b.
Proof.
  intros [a|] [b|]; simpl; try discriminate; auto.
  intros H. f_equal. now apply val_eqb_eq.
Qed.

Lemma list_eqb_eq {A} (eqb : A -> A -> bool) :
  (forall a b, eqb a b = true -> a = b) ->
  forall xs ys, list_eqb eqb xs ys = true -> xs = ys.
Proof.
  intros Hs. induction xs as [|x xs IH]; intros [|y ys]; simpl;
    try discriminate; auto.
  intros H. apply andb_prop in H. destruct H as [H1 H2].
  f_equal; auto.
Qed.

Lemma item_eqb_eq : forall a b, item_eqb a b = true -> a = b.
Proof.
  intros [v|k v|l] [v'|k' v'|l']; simpl; try discriminate.
  - intros H. f_equal. now apply val_eqb_eq.
  - intros H. apply andb_prop in H. destruct H as [H1 H2].
    apply Z.eqb_eq in H1. apply Z.eqb_eq in H2. now subst.
  - intros H. f_equal. revert H. apply list_eqb_eq. exact oval_eqb_eq.
Qed.

Lemma items_eqb_eq : forall a b, items_eqb a b = true -> a = b.
Proof. apply list_eqb_eq. exact item_eqb_eq. Qed.

Lemma input_eqb_eq : forall a b, input_eqb a b = true -> a = b.
Proof.
  intros [f|f|f] [g|g|g]; simpl; try discriminate; intros H;
    apply Z.eqb_eq in H; now subst.
Qed.

Lemma zlist_eqb_eq : forall a b : list Z, list_eqb Z.eqb a b = true -> a = b.
Proof. apply list_eqb_eq. intros a b H. now apply Z.eqb_eq. Qed.

Lemma inputs_eqb_eq :
  forall a b : list input, list_eqb input_eqb a b = true -> a = b.
Proof. apply list_eqb_eq. exact input_eqb_eq. Qed.

Lemma memZ_in : forall x l, memZ x l = true -> In x l.
Proof.
  intros x l H. unfold memZ in H. apply existsb_exists in H.
  destruct H as [y [Hin Heq]]. apply Z.eqb_eq in Heq. now subst.
Qed.

Lemma in_memZ : forall x l, In x l -> memZ x l = true.
Proof.
  intros x l H. unfold memZ. apply existsb_exists. exists x. split; auto.
  apply Z.eqb_refl.
Qed.

Lemma mem_input_in : forall x l, mem_input x l = true -> In x l.
Proof.
  intros x l H. unfold mem_input in H. apply existsb_exists in H.
  destruct H as [y [Hin Heq]]. apply input_eqb_eq in Heq. now subst.
Qed.

Lemma assoc_in {A} : forall k (l : list (Z * A)) v,
  assoc k l = Some v -> In (k, v) l.
Proof.
  induction l as [|[k' v'] l IH]; simpl; intros v H; try discriminate.
  destruct (k =? k') eqn:E.
  - apply Z.eqb_eq in E. inversion H. subst. now left.
  - right. now apply IH.
Qed.

(* ------------------------------------------------------------------ *)
(* the shape of a hash: feature items, configuration items, req item   *)
(* ------------------------------------------------------------------ *)
Fixpoint nfeat (h : list item) : nat :=
  match h with ItFeat _ :: t => S (nfeat t) | _ => O end.
Fixpoint skipf (h : list item) : list item :=
  match h with ItFeat _ :: t => skipf t | _ => h end.
Fixpoint keys_of (h : list item) : list Z :=
  match h with ItCfg k _ :: t => k :: keys_of t | _ => [] end.
Fixpoint skipk (h : list item) : list item :=
  match h with ItCfg _ _ :: t => skipk t | _ => h end.

Definition tail_ok (r : recipe) (h : list item) : Prop :=
  if rf_hashed r then exists l, skipk (skipf h) = [ItReq l]
  else skipk (skipf h) = [].

Definition shape (r : recipe) (h : list item) : Prop :=
  nfeat h = length (r_feats r)
  /\ keys_of (skipf h) = r_keys r
  /\ tail_ok r h.

Definition no_feat_head (t : list item) : Prop :=
  match t with ItFeat _ :: _ => False | _ => True end.
Definition no_cfg_head (t : list item) : Prop :=
  match t with ItCfg _ _ :: _ => False | _ => True end.

Lemma nfeat_app : forall vs t, no_feat_head t ->
  nfeat (map ItFeat vs ++ t) = length vs.
Proof.
  induction vs as [|v vs IH]; simpl; intros t Ht.
  - destruct t as [|[?|? ?|?] t]; simpl in *; auto. contradiction.
  - f_equal. now apply IH.
Qed.

Lemma skipf_app : forall vs t, no_feat_head t ->
  skipf (map ItFeat vs ++ t) = t.
Proof.
  induction vs as [|v vs IH]; simpl; intros t Ht.
  - destruct t as [|[?|? ?|?] t]; simpl in *; auto. contradiction.
  - now apply IH.
Qed.

Lemma keys_of_app : forall (g : Z -> Z) ks t, no_cfg_head t ->
  keys_of (map (fun k => ItCfg k (g k)) ks ++ t) = ks.
Proof.
  induction ks as [|k ks IH]; simpl; intros t Ht.
  - destruct t as [|[?|? ?|?] t]; simpl in *; auto. contradiction.
  - f_equal. now apply IH.
Qed.

Lemma skipk_app : forall (g : Z -> Z) ks t, no_cfg_head t ->
  skipk (map (fun k => ItCfg k (g k)) ks ++ t) = t.
Proof.
  induction ks as [|k ks IH]; simpl; intros t Ht.
  - destruct t as [|[?|? ?|?] t]; simpl in *; auto. contradiction.
  - now apply IH.
Qed.

Lemma no_feat_head_cfg : forall (g : Z -> Z) ks t, no_feat_head t ->
  no_feat_head (map (fun k => ItCfg k (g k)) ks ++ t).
Proof. intros g [|k ks] t Ht; simpl; auto. Qed.

Lemma shape_built : forall r vs (g : Z -> Z) rit,
  length vs = length (r_feats r) ->
  (if rf_hashed r then exists l, rit = [ItReq l] else rit = []) ->
  shape r (map ItFeat vs ++ map (fun k => ItCfg k (g k)) (r_keys r) ++ rit).
Proof.
  intros r vs g rit Hl Hr.
  assert (Hrit : no_feat_head rit /\ no_cfg_head rit).
  { destruct (rf_hashed r); [destruct Hr as [l ->]|subst]; simpl; auto. }
  destruct Hrit as [Hnf Hnc].
  assert (Hnf' := no_feat_head_cfg g (r_keys r) rit Hnf).
  unfold shape, tail_ok. rewrite nfeat_app by exact Hnf'.
  rewrite skipf_app by exact Hnf'.
  rewrite keys_of_app by exact Hnc. rewrite skipk_app by exact Hnc.
  repeat split; auto.
Qed.

(* ------------------------------------------------------------------ *)
(* declared ingredients are found in the hash items                    *)
(* ------------------------------------------------------------------ *)
Lemma feat_item_found : forall fs h f,
  nfeat h = length fs -> In f fs -> exists v, feat_item fs h f = Some v.
Proof.
  induction fs as [|g fs IH]; intros h f Hn Hin; [destruct Hin|].
  destruct h as [|[v|k v|l] h]; simpl in Hn; try discriminate.
  simpl. destruct (f =? g) eqn:E.
  - eexists. reflexivity.
  - destruct Hin as [->|Hin]; [rewrite Z.eqb_refl in E; discriminate|].
    apply IH; auto.
Qed.

Lemma cfg_item_keys : forall h k, In k (keys_of h) ->
  exists v, cfg_item h k = Some v.
Proof.
  induction h as [|[v|k' v|l] h IH]; simpl; intros k Hin; try contradiction.
  destruct (k =? k') eqn:E.
  - eexists. reflexivity.
  - destruct Hin as [->|Hin]; [rewrite Z.eqb_refl in E; discriminate|].
    now apply IH.
Qed.

Lemma cfg_item_skipf : forall h k, cfg_item h k = cfg_item (skipf h) k.
Proof.
  induction h as [|[v|k' v|l] h IH]; simpl; intros k; auto.
Qed.

Lemma covered_found : forall r h u,
  r_extra r = [] -> shape r h -> covered r u = true ->
  exists v, from_items r h u = Some v.
Proof.
  intros r h u Hex [Hn [Hk _]] Hc.
  unfold covered, declared in Hc. rewrite Hex, app_nil_r in Hc.
  assert (Hdata : forall f, mem_input (IData f)
             (map IData (r_feats r) ++ map ICfg (r_keys r)) = true ->
             In f (r_feats r)).
  { intros f H. apply mem_input_in in H. apply in_app_or in H.
    destruct H as [H|H]; apply in_map_iff in H; destruct H as [x [Hx Hi]];
      inversion Hx; now subst. }
  destruct u as [f|f|k]; simpl.
  - rewrite orb_false_r in Hc. apply Hdata in Hc.
    destruct (feat_item_found _ _ _ Hn Hc) as [v Hv]. rewrite Hv. eauto.
  - assert (Hf : In f (r_feats r)).
    { apply orb_prop in Hc. destruct Hc as [Hc|Hc]; [|now apply Hdata].
      apply mem_input_in in Hc. apply in_app_or in Hc.
      destruct Hc as [H|H]; apply in_map_iff in H;
        destruct H as [x [Hx _]]; discriminate Hx. }
    rewrite (in_memZ _ _ Hf). eauto.
  - rewrite orb_false_r in Hc. apply mem_input_in in Hc.
    apply in_app_or in Hc. destruct Hc as [H|H]; apply in_map_iff in H;
      destruct H as [x [Hx Hi]]; try discriminate Hx.
    inversion Hx. subst x. rewrite cfg_item_skipf.
    apply cfg_item_keys. rewrite Hk. exact Hi.
Qed.

Lemma from_items_ext : forall r0 r h u,
  r_feats r0 = r_feats r -> r_extra r0 = r_extra r ->
  from_items r0 h u = from_items r h u.
Proof.
  intros r0 r h u Hf He. destruct u; simpl; try rewrite Hf; try rewrite He;
    reflexivity.
Qed.

(* ------------------------------------------------------------------ *)
(* the cache invariant                                                 *)
(* ------------------------------------------------------------------ *)
Definition entry_ok (reg : list recipe) (o : Z) (hv : list item * val) : Prop :=
  exists r0 st0,
    In r0 reg /\ memZ o (r_outs r0) = true /\ shape r0 (fst hv)
    /\ (r_mkind r0 = 0 \/ r_mkind r0 = 2 ->
        snd hv = Comp (r_meth r0) o
                   (map (view_input AF reg st0 r0 (fst hv)) (r_uses r0))).

Definition Inv (reg : list recipe) (st : state) : Prop :=
  forall o hv, In (o, hv) (s_cache st) -> entry_ok reg o hv.

Lemma store_in : forall outs items m view c o hv,
  In (o, hv) (store outs items m view c) ->
  In (o, hv) c \/ (In o outs /\ hv = (items, Comp m o view)).
Proof.
  unfold store. induction outs as [|x outs IH]; simpl; intros items m view c o hv H.
  - now left.
  - apply IH in H. destruct H as [H|[H1 H2]].
    + destruct H as [H|H].
      * inversion H. subst. right. split; auto.
      * now left.
    + right. split; auto.
Qed.

Lemma select_some : forall fuel reg st f r,
  select fuel reg st f = Some r -> In r reg /\ r_name r = f.
Proof.
  intros fuel reg st f r H. unfold select in H. apply find_some in H.
  destruct H as [Hin Hp]. apply andb_prop in Hp. destruct Hp as [Hn _].
  apply Z.eqb_eq in Hn. split; auto. now apply in_rev.
Qed.

Lemma RF_eq : RF = S (S 6).
Proof. reflexivity. Qed.

Lemma AF_eq : AF = S 23.
Proof. reflexivity. Qed.

Lemma read_S : forall n reg st f,
  read (S n) reg st f =
  match feat_raw (s_base st) f with
  | Some i => (st, Ok (Raw i))
  | None =>
    match select AF reg st f with
    | None => (st, Err e_key)
    | Some r =>
      let '(st1, fvals, err) :=
        fold_left (hash_step (read n reg)) (r_feats r) (st, [], None) in
      match err with
      | Some k => (st1, Err k)
      | None =>
        let fitems := map ItFeat fvals in
        let citems :=
          map (fun k => ItCfg k (match cfg (s_base st1) k with
                                 | Some v => v | None => 0 end))
              (r_keys r) in
        let ritems :=
          if rf_hashed r
          then [ItReq (map (direct AF reg st1) (r_extra r))] else [] in
        let items := fitems ++ citems ++ ritems in
        let hit :=
          match assoc f (s_cache st1) with
          | Some (h, v) => if items_eqb h items then Some v else None
          | None => None
          end in
        match hit with
        | Some v => (st1, Ok v)
        | None =>
          let b := s_base st1 in
          let outcome : (list (option val) * list input) + Z :=
            if r_mkind r =? 1 then
              match emod_outcome (cfg b k_medium) (cfg b k_temperature)
                      (cfg b k_viscosity) (contains AF reg st1 f_temp) with
              | inl sc => inl ([Some (Raw sc)], emod_inputs sc)
              | inr e => inr e
              end
            else if r_mkind r =? 2 then
              if ctc_missing AF reg st1 then inr e_ctmiss
              else inl ([], r_uses r)
            else inl ([], r_uses r) in
          match outcome with
          | inr e => (st1, Err e)
          | inl (pre, ins) =>
            let view := pre ++ map (view_input AF reg st1 r items) ins in
            (mkState b (store (r_outs r) items (r_meth r) view (s_cache st1)),
             Ok (Comp (r_meth r) f view))
          end
        end
      end
    end
  end.
Proof. reflexivity. Qed.

Opaque AF RF.

(* the fold of AncillaryFeature.hash *)
Lemma fold_hash_err : forall rd fs s vs k,
  fold_left (hash_step rd) fs (s, vs, Some k) = (s, vs, Some k).
Proof. induction fs as [|g fs IH]; simpl; intros; auto. Qed.

Lemma fold_hash_prop : forall (rd : state -> Z -> state * res) (P : state -> Prop),
  (forall s g, P s -> P (fst (rd s g))) ->
  forall fs s vs e, P s ->
    P (fst (fst (fold_left (hash_step rd) fs (s, vs, e)))).
Proof.
  intros rd P Hrd. induction fs as [|g fs IH]; simpl; intros s vs e Hs; auto.
  destruct e as [k|].
  - rewrite fold_hash_err. exact Hs.
  - specialize (Hrd s g Hs). destruct (rd s g) as [s' [v|k]]; simpl in *.
    + now apply IH.
    + rewrite fold_hash_err. exact Hrd.
Qed.

Lemma fold_hash_len : forall rd fs s vs s' vs',
  fold_left (hash_step rd) fs (s, vs, None) = (s', vs', None) ->
  length vs' = (length vs + length fs)%nat.
Proof.
  intros rd. induction fs as [|g fs IH]; simpl; intros s vs s' vs' H.
  - inversion H. lia.
  - destruct (rd s g) as [s1 [v|k]].
    + apply IH in H. rewrite app_length in H. simpl in H. lia.
    + rewrite fold_hash_err in H. discriminate H.
Qed.

Lemma read_inv : forall reg n st f,
  Inv reg st -> Inv reg (fst (read n reg st f)).
Proof.
  intros reg. induction n as [|n IH]; intros st f HI; [exact HI|].
  rewrite read_S.
  destruct (feat_raw (s_base st) f); [exact HI|].
  destruct (select AF reg st f) as [r|] eqn:Es; [|exact HI].
  destruct (select_some _ _ _ _ _ Es) as [Hin Hname].
  pose proof (fold_hash_prop (read n reg) (Inv reg)
                (fun s g Hs => IH s g Hs) (r_feats r) st [] None HI) as HI1.
  destruct (fold_left (hash_step (read n reg)) (r_feats r) (st, [], None))
    as [[st1 fvals] err] eqn:EF.
  cbn [fst] in HI1.
  destruct err as [k|]; [exact HI1|].
  apply fold_hash_len in EF. cbn [length Nat.add] in EF.
  cbv zeta.
  set (items := map ItFeat fvals ++
         map (fun k => ItCfg k match cfg (s_base st1) k with
                               | Some v => v | None => 0 end) (r_keys r) ++
         (if rf_hashed r then [ItReq (map (direct AF reg st1) (r_extra r))]
          else [])).
  assert (Hshape : shape r items).
  { apply shape_built; [exact EF|].
    destruct (rf_hashed r); [eexists; reflexivity|reflexivity]. }
  destruct (match assoc f (s_cache st1) with
            | Some (h, v) => if items_eqb h items then Some v else None
            | None => None end) as [v|]; [exact HI1|].
  destruct (r_mkind r =? 1) eqn:E1.
  - (* compute_emodulus *)
    apply Z.eqb_eq in E1.
    destruct (emod_outcome _ _ _ _) as [sc|e]; [|exact HI1].
    intros o hv Ho. cbn [fst s_cache] in Ho. apply store_in in Ho.
    destruct Ho as [Ho|[Ho ->]]; [now apply HI1|].
    exists r, st1. split; [exact Hin|]. split; [now apply in_memZ|].
    split; [exact Hshape|]. cbn [fst snd].
    intros [H0|H0]; rewrite H0 in E1; discriminate E1.
  - destruct (r_mkind r =? 2) eqn:E2.
    + apply Z.eqb_eq in E2.
      destruct (ctc_missing AF reg st1); [exact HI1|].
      intros o hv Ho. cbn [fst s_cache] in Ho. apply store_in in Ho.
      destruct Ho as [Ho|[Ho ->]]; [now apply HI1|].
      exists r, st1. split; [exact Hin|]. split; [now apply in_memZ|].
      split; [exact Hshape|]. cbn [fst snd]. intros _. reflexivity.
    + intros o hv Ho. cbn [fst s_cache] in Ho. apply store_in in Ho.
      destruct Ho as [Ho|[Ho ->]]; [now apply HI1|].
      exists r, st1. split; [exact Hin|]. split; [now apply in_memZ|].
      split; [exact Hshape|]. cbn [fst snd]. intros _. reflexivity.
Qed.

Lemma step_inv : forall reg st o, Inv reg st -> Inv reg (fst (step reg st o)).
Proof.
  intros reg st [k v|k|f v|f|f|] HI; cbn [step fst s_cache];
    try exact HI.
  pose proof (read_inv reg RF st f HI) as H.
  destruct (read RF reg st f) as [st' r].
  destruct (read RF reg (clear st) f) as [s0 r0]. exact H.
Qed.

Lemma run_inv : forall reg ops st, Inv reg st -> Inv reg (run_state reg st ops).
Proof.
  intros reg. induction ops as [|o ops IH]; simpl; intros st HI; auto.
  apply IH. now apply step_inv.
Qed.

Lemma fresh_inv : forall reg b, Inv reg (fresh b).
Proof. intros reg b o hv H. destruct H. Qed.

(* ------------------------------------------------------------------ *)
(* coherence of a flat, complete read                                  *)
(* ------------------------------------------------------------------ *)
Definition uses_covered (r : recipe) : bool := forallb (covered r) (r_uses r).

Definition raw_or0 (b : base) (g : Z) : val :=
  Raw (match feat_raw b g with Some i => i | None => 0 end).

Lemma hash_step_raw : forall reg n st vs g i,
  feat_raw (s_base st) g = Some i ->
  hash_step (read (S n) reg) (st, vs, None) g = (st, vs ++ [Raw i], None).
Proof.
  intros reg n st vs g i H. unfold hash_step. rewrite read_S, H. reflexivity.
Qed.

Lemma fold_flat : forall reg n fs st vs,
  forallb (in_base (s_base st)) fs = true ->
  fold_left (hash_step (read (S n) reg)) fs (st, vs, None)
  = (st, vs ++ map (raw_or0 (s_base st)) fs, None).
Proof.
  intros reg n. induction fs as [|g fs IH]; cbn [fold_left forallb map];
    intros st vs H.
  - now rewrite app_nil_r.
  - apply andb_prop in H. destruct H as [Hg Hfs].
    unfold in_base in Hg. unfold raw_or0 at 1.
    destruct (feat_raw (s_base st) g) as [i|] eqn:Eg; [|discriminate Hg].
    rewrite (hash_step_raw reg n st vs g i Eg).
    rewrite IH by exact Hfs. now rewrite <- app_assoc.
Qed.

Lemma view_covered : forall reg r items st st' u,
  r_extra r = [] -> shape r items -> covered r u = true ->
  view_input AF reg st r items u = view_input AF reg st' r items u.
Proof.
  intros reg r items st st' u Hex Hs Hc.
  destruct (covered_found r items u Hex Hs Hc) as [v Hv].
  unfold view_input. now rewrite Hv.
Qed.

Lemma shape_collidable : forall r0 r h,
  shape r0 h -> shape r h -> rf_hashed r = false ->
  memZ (r_name r) (r_outs r0) = true -> collidable r0 r = true.
Proof.
  intros r0 r h [Hn0 [Hk0 Ht0]] [Hn [Hk Ht]] Hrf Hm.
  unfold collidable. rewrite Hm. simpl.
  assert (Hkeys : r_keys r0 = r_keys r) by congruence.
  assert (Hlen : length (r_feats r0) = length (r_feats r)) by congruence.
  rewrite Hkeys, Hlen, Z.eqb_refl, Hrf.
  assert (Hl : forall l : list Z, list_eqb Z.eqb l l = true).
  { induction l; simpl; auto. now rewrite Z.eqb_refl. }
  rewrite Hl. simpl.
  unfold tail_ok in Ht0, Ht. rewrite Hrf in Ht.
  destruct (rf_hashed r0); simpl; auto.
  destruct Ht0 as [l Hl0]. rewrite Ht in Hl0. discriminate Hl0.
Qed.

Lemma collide_ok_use : forall reg r0 r,
  collide_ok reg = true -> In r0 reg -> In r reg ->
  collidable r0 r = true -> same_recipe_shape r0 r = true.
Proof.
  intros reg r0 r H H0 H1 Hc. unfold collide_ok in H.
  rewrite forallb_forall in H. specialize (H r0 H0).
  rewrite forallb_forall in H. specialize (H r H1).
  rewrite Hc in H. exact H.
Qed.

(* a generic method, or compute_ctc with all six matrix elements required *)
Definition plain_method (r : recipe) : bool :=
  (r_mkind r =? 0)
  || ((r_mkind r =? 2) && forallb (fun k => memZ k (r_keys r)) k_ct).

Lemma avail_keys : forall n reg st r,
  avail (S n) reg st r = true ->
  forallb (fun k => has k (b_cfg (s_base st))) (r_keys r) = true.
Proof.
  intros n reg st r H. cbn [avail] in H.
  apply andb_prop in H. destruct H as [H _].
  apply andb_prop in H. destruct H as [H _].
  apply andb_prop in H. destruct H as [H _]. exact H.
Qed.

Lemma select_keys : forall reg st f r,
  select AF reg st f = Some r ->
  forallb (fun k => has k (b_cfg (s_base st))) (r_keys r) = true.
Proof.
  intros reg st f r H. unfold select in H. apply find_some in H.
  destruct H as [_ H]. apply andb_prop in H. destruct H as [_ H].
  rewrite AF_eq in H. now apply avail_keys in H.
Qed.

Lemma ctc_not_missing : forall reg st st' r,
  s_base st' = s_base st ->
  forallb (fun k => memZ k (r_keys r)) k_ct = true ->
  forallb (fun k => has k (b_cfg (s_base st))) (r_keys r) = true ->
  ctc_missing AF reg st' = false.
Proof.
  intros reg st st' r Hb Hall Hkeys. unfold ctc_missing. rewrite Hb.
  assert (H : forallb (fun k => has k (b_cfg (s_base st))) k_ct = true).
  { rewrite forallb_forall in *. intros k Hk. apply Hkeys.
    apply memZ_in. now apply Hall. }
  rewrite H. cbn [negb]. now rewrite andb_false_r.
Qed.

Theorem read_coherent_flat : forall reg st f,
  collide_ok reg = true -> Inv reg st ->
  select AF reg st f = select AF reg (clear st) f ->
  (forall r, select AF reg st f = Some r ->
     forallb (in_base (s_base st)) (r_feats r) = true
     /\ uses_covered r = true /\ plain_method r = true
     /\ rf_hashed r = false /\ r_extra r = []) ->
  snd (read RF reg st f) = snd (read RF reg (clear st) f).
Proof.
  intros reg st f Hco HI Hsel Hg.
  rewrite RF_eq. rewrite !read_S. cbn [clear s_base s_cache].
  destruct (feat_raw (s_base st) f); [reflexivity|].
  rewrite <- Hsel.
  destruct (select AF reg st f) as [r|] eqn:Es; [|reflexivity].
  destruct (Hg r eq_refl) as [Hflat [Hcov [Hmk [Hrf Hex]]]].
  destruct (select_some _ _ _ _ _ Es) as [Hin Hname].
  rewrite (fold_flat reg 6 (r_feats r) st [] Hflat).
  assert (Hflat' : forallb (in_base (s_base (clear st))) (r_feats r) = true)
    by exact Hflat.
  rewrite (fold_flat reg 6 (r_feats r) (clear st) [] Hflat').
  cbv zeta. cbn [clear s_base s_cache assoc]. rewrite Hrf.
  pose proof (select_keys _ _ _ _ Es) as Hkeys.
  assert (Hm1 : (r_mkind r =? 1) = false).
  { unfold plain_method in Hmk. apply orb_prop in Hmk.
    destruct Hmk as [H|H]; [|apply andb_prop in H; destruct H as [H _]];
      apply Z.eqb_eq in H; rewrite H; reflexivity. }
  assert (Hm02 : r_mkind r = 0 \/ r_mkind r = 2).
  { unfold plain_method in Hmk. apply orb_prop in Hmk.
    destruct Hmk as [H|H]; [left|right; apply andb_prop in H;
                                 destruct H as [H _]];
      now apply Z.eqb_eq in H. }
  assert (Hplain : forall s, s_base s = s_base st -> forall view : list (option val),
     (if r_mkind r =? 2
      then if ctc_missing AF reg s then inr e_ctmiss
           else inl (@nil (option val), r_uses r)
      else inl ([], r_uses r))
     = (inl ([], r_uses r) : (list (option val) * list input) + Z)).
  { intros s Hs _. destruct (r_mkind r =? 2) eqn:E2; [|reflexivity].
    unfold plain_method in Hmk. rewrite E2 in Hmk.
    assert (E0 : (r_mkind r =? 0) = false).
    { apply Z.eqb_eq in E2. rewrite E2. reflexivity. }
    rewrite E0 in Hmk. cbn [orb andb] in Hmk.
    now rewrite (ctc_not_missing reg st s r Hs Hmk Hkeys). }
  rewrite Hm1.
  rewrite (Hplain st eq_refl []), (Hplain (clear st) eq_refl []).
  set (items := map ItFeat ([] ++ map (raw_or0 (s_base st)) (r_feats r)) ++
         map (fun k => ItCfg k match cfg (s_base st) k with
                               | Some v => v | None => 0 end) (r_keys r) ++ []).
  assert (Hshape : shape r items).
  { apply shape_built.
    - simpl. now rewrite map_length.
    - rewrite Hrf. reflexivity. }
  assert (Hview : forall s s',
     map (view_input AF reg s r items) (r_uses r)
     = map (view_input AF reg s' r items) (r_uses r)).
  { intros s s'. apply map_ext_in. intros u Hu.
    apply view_covered; auto.
    unfold uses_covered in Hcov. rewrite forallb_forall in Hcov. auto. }
  destruct (assoc f (s_cache st)) as [[h v]|] eqn:Ea.
  - destruct (items_eqb h items) eqn:Eh.
    + (* cache hit: the slot holds what would be computed now *)
      cbn [snd app]. f_equal.
      apply items_eqb_eq in Eh. subst h.
      apply assoc_in in Ea. destruct (HI _ _ Ea) as [r0 [st0 [Hin0 [Hout [Hs0 Hv]]]]].
      cbn [fst snd] in Hs0, Hv.
      assert (Hcol : collidable r0 r = true).
      { apply (shape_collidable r0 r items); auto. now rewrite Hname. }
      pose proof (collide_ok_use reg r0 r Hco Hin0 Hin Hcol) as Hsame.
      unfold same_recipe_shape in Hsame.
      apply andb_prop in Hsame. destruct Hsame as [Hsame Hk].
      apply andb_prop in Hsame. destruct Hsame as [Hsame Hme].
      apply andb_prop in Hsame. destruct Hsame as [Hsame Hu].
      apply andb_prop in Hsame. destruct Hsame as [Hf He].
      apply zlist_eqb_eq in Hf. apply inputs_eqb_eq in He.
      apply inputs_eqb_eq in Hu. apply Z.eqb_eq in Hme. apply Z.eqb_eq in Hk.
      rewrite Hv by (rewrite Hk; exact Hm02). rewrite Hme, Hu. f_equal.
      apply map_ext_in. intros u Hu'.
      unfold view_input. rewrite (from_items_ext r0 r items u Hf He).
      assert (Hc : covered r u = true).
      { unfold uses_covered in Hcov. rewrite forallb_forall in Hcov. auto. }
      destruct (covered_found r items u Hex Hshape Hc) as [w Hw].
      now rewrite Hw.
    + rewrite (Hview st (clear st)). reflexivity.
  - rewrite (Hview st (clear st)). reflexivity.
Qed.

(* the same after any history, starting from any freshly opened dataset *)
Theorem history_read_coherent : forall reg b ops f,
  collide_ok reg = true ->
  let st := run_state reg (fresh b) ops in
  select AF reg st f = select AF reg (clear st) f ->
  (forall r, select AF reg st f = Some r ->
     forallb (in_base (s_base st)) (r_feats r) = true
     /\ uses_covered r = true /\ plain_method r = true
     /\ rf_hashed r = false /\ r_extra r = []) ->
  snd (read RF reg st f) = snd (read RF reg (clear st) f).
Proof.
  intros reg b ops f Hco st Hsel Hg.
  apply read_coherent_flat; auto.
  apply run_inv. apply fresh_inv.
Qed.

(* the fresh value of such a read is the method applied to the current
   ingredients: the specification of "what a fresh dataset computes" *)
Definition spec_value (reg : list recipe) (b : base) (r : recipe) (f : Z) : val :=
  Comp (r_meth r) f (map (direct AF reg (fresh b)) (r_uses r)).
