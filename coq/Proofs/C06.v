(* C06 -- generic cache-coherence proofs about Model/C06.v, for ANY registry
   [reg] (nothing here depends on the generated table).

   Main results
   - [run_inv]: after every history every cache slot was filled by some recipe
     of the registry, has the shape of that recipe's hash, and (generic
     methods) holds exactly the method applied to the hashed ingredients;
   - [read_coherent_flat]: if instances with colliding hashes are
     interchangeable ([collide_ok]), a read whose selected recipe is complete
     and has only stored (innate/temporary) required features returns what a
     dataset with the same state and an empty cache returns;
   - [history_read_coherent]: the same after any history of operations. *)
From Coq Require Import ZArith List Bool Lia.
From Verif Require Import Model.C06.
Import ListNotations.
Open Scope Z_scope.

(* ------------------------------------------------------------------ *)
(* equality tests are sound                                            *)
(* ------------------------------------------------------------------ *)
Lemma val_eqb_eq : forall a b, val_eqb a b = true -> a = b.
Proof.
  fix IH 1. intros [x|m o xs] [y|m' o' ys]; simpl; try discriminate.
  - intros H. apply Z.eqb_eq in H. now subst.
  - intros H. apply andb_prop in H. destruct H as [H Hl].
    apply andb_prop in H. destruct H as [Hm Ho].
    apply Z.eqb_eq in Hm. apply Z.eqb_eq in Ho. subst. f_equal.
    revert ys Hl.
    induction xs as [|[x|] xs IHxs]; intros [|[y|] ys]; try discriminate; auto.
    + intros H. apply andb_prop in H. destruct H as [H1 H2].
      f_equal.
      * f_equal. apply IH. exact H1.
      * apply IHxs. exact H2.
    + intros H. f_equal. apply IHxs. exact H.
Qed.

Lemma oval_eqb_eq : forall a b, oval_eqb a b = true -> a = b.
Proof.
  intros [a|] [b|]; simpl; try discriminate; auto.
  intros H. f_equal. now apply val_eqb_eq.
Qed.

Lemma list_eqb_eq {A} (eqb : A -> A -> bool) :
  (forall a b, eqb a b = true -> a = b) ->
  forall xs ys, list_eqb eqb xs ys = true -> xs = ys.
Proof.
  intros Hs. induction xs as [|x xs IH]; intros [|y ys]; simpl;
    try discriminate; auto.
  intros H. apply andb_prop in H. destruct H as [H1 H2].
  f_equal; auto.
Qed.

Lemma item_eqb_eq : forall a b, item_eqb a b = true -> a = b.
Proof.
  intros [v|k v|l] [v'|k' v'|l']; simpl; try discriminate.
  - intros H. f_equal. now apply val_eqb_eq.
  - intros H. apply andb_prop in H. destruct H as [H1 H2].
    apply Z.eqb_eq in H1. apply Z.eqb_eq in H2. now subst.
  - intros H. f_equal. revert H. apply list_eqb_eq. exact oval_eqb_eq.
Qed.

Lemma items_eqb_eq : forall a b, items_eqb a b = true -> a = b.
Proof. apply list_eqb_eq. exact item_eqb_eq. Qed.

Lemma input_eqb_eq : forall a b, input_eqb a b = true -> a = b.
Proof.
  intros [f|f|f] [g|g|g]; simpl; try discriminate; intros H;
    apply Z.eqb_eq in H; now subst.
Qed.

Lemma zlist_eqb_eq : forall a b : list Z, list_eqb Z.eqb a b = true -> a = b.
Proof. apply list_eqb_eq. intros a b H. now apply Z.eqb_eq. Qed.

Lemma inputs_eqb_eq :
  forall a b : list input, list_eqb input_eqb a b = true -> a = b.
Proof. apply list_eqb_eq. exact input_eqb_eq. Qed.

Lemma memZ_in : forall x l, memZ x l = true -> In x l.
Proof.
  intros x l H. unfold memZ in H. apply existsb_exists in H.
  destruct H as [y [Hin Heq]]. apply Z.eqb_eq in Heq. now subst.
Qed.

Lemma in_memZ : forall x l, In x l -> memZ x l = true.
Proof.
  intros x l H. unfold memZ. apply existsb_exists. exists x. split; auto.
  apply Z.eqb_refl.
Qed.

Lemma mem_input_in : forall x l, mem_input x l = true -> In x l.
Proof.
  intros x l H. unfold mem_input in H. apply existsb_exists in H.
  destruct H as [y [Hin Heq]]. apply input_eqb_eq in Heq. now subst.
Qed.

Lemma assoc_in {A} : forall k (l : list (Z * A)) v,
  assoc k l = Some v -> In (k, v) l.
Proof.
  induction l as [|[k' v'] l IH]; simpl; intros v H; try discriminate.
  destruct (k =? k') eqn:E.
  - apply Z.eqb_eq in E. inversion H. subst. now left.
  - right. now apply IH.
Qed.

(* ------------------------------------------------------------------ *)
(* the shape of a hash: feature items, configuration items, req item   *)
(* ------------------------------------------------------------------ *)
Fixpoint nfeat (h : list item) : nat :=
  match h with ItFeat _ :: t => S (nfeat t) | _ => O end.
Fixpoint skipf (h : list item) : list item :=
  match h with ItFeat _ :: t => skipf t | _ => h end.
Fixpoint keys_of (h : list item) : list Z :=
  match h with ItCfg k _ :: t => k :: keys_of t | _ => [] end.
Fixpoint skipk (h : list item) : list item :=
  match h with ItCfg _ _ :: t => skipk t | _ => h end.

Definition tail_ok (r : recipe) (h : list item) : Prop :=
  if rf_hashed r
  then exists l, skipk (skipf h) = [ItReq l] /\ length l = length (r_extra r)
  else skipk (skipf h) = [].

Definition shape (r : recipe) (h : list item) : Prop :=
  nfeat h = length (r_feats r)
  /\ keys_of (skipf h) = r_keys r
  /\ tail_ok r h.

Definition no_feat_head (t : list item) : Prop :=
  match t with ItFeat _ :: _ => False | _ => True end.
Definition no_cfg_head (t : list item) : Prop :=
  match t with ItCfg _ _ :: _ => False | _ => True end.

Lemma nfeat_app : forall vs t, no_feat_head t ->
  nfeat (map ItFeat vs ++ t) = length vs.
Proof.
  induction vs as [|v vs IH]; simpl; intros t Ht.
  - destruct t as [|[?|? ?|?] t]; simpl in *; auto. contradiction.
  - f_equal. now apply IH.
Qed.

Lemma skipf_app : forall vs t, no_feat_head t ->
  skipf (map ItFeat vs ++ t) = t.
Proof.
  induction vs as [|v vs IH]; simpl; intros t Ht.
  - destruct t as [|[?|? ?|?] t]; simpl in *; auto. contradiction.
  - now apply IH.
Qed.

Lemma keys_of_app : forall (g : Z -> Z) ks t, no_cfg_head t ->
  keys_of (map (fun k => ItCfg k (g k)) ks ++ t) = ks.
Proof.
  induction ks as [|k ks IH]; simpl; intros t Ht.
  - destruct t as [|[?|? ?|?] t]; simpl in *; auto. contradiction.
  - f_equal. now apply IH.
Qed.

Lemma skipk_app : forall (g : Z -> Z) ks t, no_cfg_head t ->
  skipk (map (fun k => ItCfg k (g k)) ks ++ t) = t.
Proof.
  induction ks as [|k ks IH]; simpl; intros t Ht.
  - destruct t as [|[?|? ?|?] t]; simpl in *; auto. contradiction.
  - now apply IH.
Qed.

Lemma no_feat_head_cfg : forall (g : Z -> Z) ks t, no_feat_head t ->
  no_feat_head (map (fun k => ItCfg k (g k)) ks ++ t).
Proof. intros g [|k ks] t Ht; simpl; auto. Qed.

Lemma shape_built : forall r vs (g : Z -> Z) rit,
  length vs = length (r_feats r) ->
  (if rf_hashed r
   then exists l, rit = [ItReq l] /\ length l = length (r_extra r)
   else rit = []) ->
  shape r (map ItFeat vs ++ map (fun k => ItCfg k (g k)) (r_keys r) ++ rit).
Proof.
  intros r vs g rit Hl Hr.
  assert (Hrit : no_feat_head rit /\ no_cfg_head rit).
  { destruct (rf_hashed r); [destruct Hr as [l [-> _]]|subst]; simpl; auto. }
  destruct Hrit as [Hnf Hnc].
  assert (Hnf' := no_feat_head_cfg g (r_keys r) rit Hnf).
  unfold shape, tail_ok. rewrite nfeat_app by exact Hnf'.
  rewrite skipf_app by exact Hnf'.
  rewrite keys_of_app by exact Hnc. rewrite skipk_app by exact Hnc.
  repeat split; auto.
Qed.

(* ------------------------------------------------------------------ *)
(* declared ingredients are found in the hash items                    *)
(* ------------------------------------------------------------------ *)
Lemma feat_item_found : forall fs h f,
  nfeat h = length fs -> In f fs -> exists v, feat_item fs h f = Some v.
Proof.
  induction fs as [|g fs IH]; intros h f Hn Hin; [destruct Hin|].
  destruct h as [|[v|k v|l] h]; simpl in Hn; try discriminate.
  simpl. destruct (f =? g) eqn:E.
  - eexists. reflexivity.
  - destruct Hin as [->|Hin]; [rewrite Z.eqb_refl in E; discriminate|].
    apply IH; auto.
Qed.

Lemma cfg_item_keys : forall h k, In k (keys_of h) ->
  exists v, cfg_item h k = Some v.
Proof.
  induction h as [|[v|k' v|l] h IH]; simpl; intros k Hin; try contradiction.
  destruct (k =? k') eqn:E.
  - eexists. reflexivity.
  - destruct Hin as [->|Hin]; [rewrite Z.eqb_refl in E; discriminate|].
    now apply IH.
Qed.

Lemma cfg_item_skipf : forall h k, cfg_item h k = cfg_item (skipf h) k.
Proof.
  induction h as [|[v|k' v|l] h IH]; simpl; intros k; auto.
Qed.

Lemma req_item_skipk : forall ex h u, req_item ex h u = req_item ex (skipk h) u.
Proof.
  induction h as [|[v|k' v|l] h IH]; simpl; intros u; auto.
Qed.

Lemma req_item_skipf : forall ex h u, req_item ex h u = req_item ex (skipf h) u.
Proof.
  induction h as [|[v|k' v|l] h IH]; simpl; intros u; auto.
Qed.

Lemma extra_zip_found : forall ex l u,
  length l = length ex -> mem_input u ex = true ->
  exists v, extra_zip ex l u = Some v.
Proof.
  induction ex as [|e ex IH]; intros l u Hl Hin; [discriminate Hin|].
  destruct l as [|v l]; [discriminate Hl|]. simpl.
  destruct (input_eqb u e) eqn:E; [eauto|].
  unfold mem_input in Hin. simpl in Hin. rewrite E in Hin. simpl in Hin.
  apply IH; auto.
Qed.

(* a recipe without hashed req_func result has nothing in [r_extra] *)
Definition extra_ok (r : recipe) : bool :=
  rf_hashed r || match r_extra r with [] => true | _ => false end.

Lemma covered_found : forall r h u,
  extra_ok r = true -> shape r h -> covered r u = true ->
  exists v, from_items r h u = Some v.
Proof.
  intros r h u Hex [Hn [Hk Ht]] Hc.
  unfold from_items.
  assert (Hextra : mem_input u (r_extra r) = true ->
                   exists v, req_item (r_extra r) h u = Some v).
  { intros Hm. unfold extra_ok in Hex. unfold tail_ok in Ht.
    destruct (rf_hashed r).
    - destruct Ht as [l [Hl Hlen]].
      rewrite req_item_skipf, req_item_skipk, Hl. simpl.
      now apply extra_zip_found.
    - simpl in Hex. destruct (r_extra r); [discriminate Hm|discriminate Hex]. }
  unfold covered in Hc. apply orb_prop in Hc.
  destruct u as [f|f|k].
  - destruct (feat_item (r_feats r) h f) as [v|] eqn:E; [eauto|].
    destruct Hc as [Hc|Hc]; [|now apply Hextra].
    apply memZ_in in Hc.
    destruct (feat_item_found _ _ _ Hn Hc) as [v Hv]. congruence.
  - destruct (memZ f (r_feats r)) eqn:E; [eauto|].
    destruct Hc as [Hc|Hc]; [discriminate Hc|now apply Hextra].
  - destruct (cfg_item h k) as [v|] eqn:E; [eauto|].
    destruct Hc as [Hc|Hc]; [|now apply Hextra].
    apply memZ_in in Hc. rewrite cfg_item_skipf in E.
    rewrite <- Hk in Hc. destruct (cfg_item_keys _ _ Hc) as [v Hv]. congruence.
Qed.

Lemma from_items_ext : forall r0 r h u,
  r_feats r0 = r_feats r -> r_extra r0 = r_extra r ->
  from_items r0 h u = from_items r h u.
Proof.
  intros r0 r h u Hf He. unfold from_items. rewrite Hf, He. reflexivity.
Qed.

(* ------------------------------------------------------------------ *)
(* the cache invariant                                                 *)
(* ------------------------------------------------------------------ *)
Definition entry_ok (reg : list recipe) (o : Z) (hv : list item * val) : Prop :=
  exists r0 st0,
    In r0 reg /\ memZ o (r_outs r0) = true /\ shape r0 (fst hv)
    /\ (r_mkind r0 = 0 \/ r_mkind r0 = 2 ->
        snd hv = Comp (r_meth r0) o
                   (map (view_input AF reg st0 r0 (fst hv)) (r_uses r0))).

Definition Inv (reg : list recipe) (st : state) : Prop :=
  forall o hv, In (o, hv) (s_cache st) -> entry_ok reg o hv.

Lemma store_in : forall outs items m view c o hv,
  In (o, hv) (store outs items m view c) ->
  In (o, hv) c \/ (In o outs /\ hv = (items, Comp m o view)).
Proof.
  unfold store. induction outs as [|x outs IH]; simpl; intros items m view c o hv H.
  - now left.
  - apply IH in H. destruct H as [H|[H1 H2]].
    + destruct H as [H|H].
      * inversion H. subst. right. split; auto.
      * now left.
    + right. split; auto.
Qed.

Lemma select_some : forall fuel reg st f r,
  select fuel reg st f = Some r -> In r reg /\ r_name r = f.
Proof.
  intros fuel reg st f r H. unfold select in H. apply find_some in H.
  destruct H as [Hin Hp]. apply andb_prop in Hp. destruct Hp as [Hn _].
  apply Z.eqb_eq in Hn. split; auto. now apply in_rev.
Qed.

Lemma RF_eq : RF = S (S 6).
Proof. reflexivity. Qed.

Lemma SF_eq : SF = S 22.
Proof. reflexivity. Qed.

Lemma AF_eq : AF = S SF.
Proof. reflexivity. Qed.

Lemma read_S : forall n reg st f,
  read (S n) reg st f =
  match feat_raw (s_base st) f with
  | Some i => (st, Ok (Raw i))
  | None =>
    match select SF reg st f with
    | None => (st, Err e_key)
    | Some r =>
      let '(st1, fvals, err) :=
        fold_left (hash_step (read n reg)) (r_feats r) (st, [], None) in
      match err with
      | Some k => (st1, Err k)
      | None =>
        let fitems := map ItFeat fvals in
        let citems :=
          map (fun k => ItCfg k (match cfg (s_base st1) k with
                                 | Some v => v | None => 0 end))
              (r_keys r) in
        let ritems :=
          if rf_hashed r
          then [ItReq (map (direct AF reg st1) (r_extra r))] else [] in
        let items := fitems ++ citems ++ ritems in
        let hit :=
          match assoc f (s_cache st1) with
          | Some (h, v) => if items_eqb h items then Some v else None
          | None => None
          end in
        match hit with
        | Some v => (st1, Ok v)
        | None =>
          let b := s_base st1 in
          let outcome : (list (option val) * list input) + Z :=
            if r_mkind r =? 1 then
              match emod_outcome (cfg b k_medium) (cfg b k_temperature)
                      (cfg b k_viscosity) (contains AF reg st1 f_temp) with
              | inl sc => inl ([Some (Raw sc)], emod_inputs sc)
              | inr e => inr e
              end
            else if r_mkind r =? 2 then
              if ctc_missing AF reg st1 then inr e_ctmiss
              else inl ([], r_uses r)
            else inl ([], r_uses r) in
          match outcome with
          | inr e => (st1, Err e)
          | inl (pre, ins) =>
            let view := pre ++ map (view_input AF reg st1 r items) ins in
            (mkState b (store (r_outs r) items (r_meth r) view (s_cache st1)),
             Ok (Comp (r_meth r) f view))
          end
        end
      end
    end
  end.
Proof. reflexivity. Qed.

Opaque SF AF RF.

(* the fold of AncillaryFeature.hash *)
Lemma fold_hash_err : forall rd fs s vs k,
  fold_left (hash_step rd) fs (s, vs, Some k) = (s, vs, Some k).
Proof. induction fs as [|g fs IH]; simpl; intros; auto. Qed.

Lemma fold_hash_prop : forall (rd : state -> Z -> state * res) (P : state -> Prop),
  (forall s g, P s -> P (fst (rd s g))) ->
  forall fs s vs e, P s ->
    P (fst (fst (fold_left (hash_step rd) fs (s, vs, e)))).
Proof.
  intros rd P Hrd. induction fs as [|g fs IH]; simpl; intros s vs e Hs; auto.
  destruct e as [k|].
  - rewrite fold_hash_err. exact Hs.
  - specialize (Hrd s g Hs). destruct (rd s g) as [s' [v|k]]; simpl in *.
    + now apply IH.
    + rewrite fold_hash_err. exact Hrd.
Qed.

Lemma fold_hash_len : forall rd fs s vs s' vs',
  fold_left (hash_step rd) fs (s, vs, None) = (s', vs', None) ->
  length vs' = (length vs + length fs)%nat.
Proof.
  intros rd. induction fs as [|g fs IH]; simpl; intros s vs s' vs' H.
  - inversion H. lia.
  - destruct (rd s g) as [s1 [v|k]].
    + apply IH in H. rewrite app_length in H. simpl in H. lia.
    + rewrite fold_hash_err in H. discriminate H.
Qed.

Lemma read_inv : forall reg n st f,
  Inv reg st -> Inv reg (fst (read n reg st f)).
Proof.
  intros reg. induction n as [|n IH]; intros st f HI; [exact HI|].
  rewrite read_S.
  destruct (feat_raw (s_base st) f); [exact HI|].
  destruct (select SF reg st f) as [r|] eqn:Es; [|exact HI].
  destruct (select_some _ _ _ _ _ Es) as [Hin Hname].
  pose proof (fold_hash_prop (read n reg) (Inv reg)
                (fun s g Hs => IH s g Hs) (r_feats r) st [] None HI) as HI1.
  destruct (fold_left (hash_step (read n reg)) (r_feats r) (st, [], None))
    as [[st1 fvals] err] eqn:EF.
  cbn [fst] in HI1.
  destruct err as [k|]; [exact HI1|].
  apply fold_hash_len in EF. cbn [length Nat.add] in EF.
  cbv zeta.
  set (items := map ItFeat fvals ++
         map (fun k => ItCfg k match cfg (s_base st1) k with
                               | Some v => v | None => 0 end) (r_keys r) ++
         (if rf_hashed r then [ItReq (map (direct AF reg st1) (r_extra r))]
          else [])).
  assert (Hshape : shape r items).
  { apply shape_built; [exact EF|].
    destruct (rf_hashed r); [|reflexivity].
    eexists. split; [reflexivity|]. now rewrite map_length. }
  destruct (match assoc f (s_cache st1) with
            | Some (h, v) => if items_eqb h items then Some v else None
            | None => None end) as [v|]; [exact HI1|].
  destruct (r_mkind r =? 1) eqn:E1.
  - (* compute_emodulus *)
    apply Z.eqb_eq in E1.
    destruct (emod_outcome _ _ _ _) as [sc|e]; [|exact HI1].
    intros o hv Ho. cbn [fst s_cache] in Ho. apply store_in in Ho.
    destruct Ho as [Ho|[Ho ->]]; [now apply HI1|].
    exists r, st1. split; [exact Hin|]. split; [now apply in_memZ|].
    split; [exact Hshape|]. cbn [fst snd].
    intros [H0|H0]; rewrite H0 in E1; discriminate E1.
  - destruct (r_mkind r =? 2) eqn:E2.
    + apply Z.eqb_eq in E2.
      destruct (ctc_missing AF reg st1); [exact HI1|].
      intros o hv Ho. cbn [fst s_cache] in Ho. apply store_in in Ho.
      destruct Ho as [Ho|[Ho ->]]; [now apply HI1|].
      exists r, st1. split; [exact Hin|]. split; [now apply in_memZ|].
      split; [exact Hshape|]. cbn [fst snd]. intros _. reflexivity.
    + intros o hv Ho. cbn [fst s_cache] in Ho. apply store_in in Ho.
      destruct Ho as [Ho|[Ho ->]]; [now apply HI1|].
      exists r, st1. split; [exact Hin|]. split; [now apply in_memZ|].
      split; [exact Hshape|]. cbn [fst snd]. intros _. reflexivity.
Qed.

Lemma step_inv : forall reg st o, Inv reg st -> Inv reg (fst (step reg st o)).
Proof.
  intros reg st [k v|k|f v|f|f|] HI; cbn [step fst s_cache];
    try exact HI.
  pose proof (read_inv reg RF st f HI) as H.
  destruct (read RF reg st f) as [st' r].
  destruct (read RF reg (clear st) f) as [s0 r0]. exact H.
Qed.

Lemma run_inv : forall reg ops st, Inv reg st -> Inv reg (run_state reg st ops).
Proof.
  intros reg. induction ops as [|o ops IH]; simpl; intros st HI; auto.
  apply IH. now apply step_inv.
Qed.

Lemma fresh_inv : forall reg b, Inv reg (fresh b).
Proof. intros reg b o hv H. destruct H. Qed.

(* ------------------------------------------------------------------ *)
(* coherence of a flat, complete read                                  *)
(* ------------------------------------------------------------------ *)
Definition uses_covered (r : recipe) : bool := forallb (covered r) (r_uses r).

Definition raw_or0 (b : base) (g : Z) : val :=
  Raw (match feat_raw b g with Some i => i | None => 0 end).

Lemma hash_step_raw : forall reg n st vs g i,
  feat_raw (s_base st) g = Some i ->
  hash_step (read (S n) reg) (st, vs, None) g = (st, vs ++ [Raw i], None).
Proof.
  intros reg n st vs g i H. unfold hash_step. rewrite read_S, H. reflexivity.
Qed.

Lemma fold_flat : forall reg n fs st vs,
  forallb (in_base (s_base st)) fs = true ->
  fold_left (hash_step (read (S n) reg)) fs (st, vs, None)
  = (st, vs ++ map (raw_or0 (s_base st)) fs, None).
Proof.
  intros reg n. induction fs as [|g fs IH]; cbn [fold_left forallb map];
    intros st vs H.
  - now rewrite app_nil_r.
  - apply andb_prop in H. destruct H as [Hg Hfs].
    unfold in_base in Hg. unfold raw_or0 at 1.
    destruct (feat_raw (s_base st) g) as [i|] eqn:Eg; [|discriminate Hg].
    rewrite (hash_step_raw reg n st vs g i Eg).
    rewrite IH by exact Hfs. now rewrite <- app_assoc.
Qed.

Lemma view_covered : forall reg r items st st' u,
  extra_ok r = true -> shape r items -> covered r u = true ->
  view_input AF reg st r items u = view_input AF reg st' r items u.
Proof.
  intros reg r items st st' u Hex Hs Hc.
  destruct (covered_found r items u Hex Hs Hc) as [v Hv].
  unfold view_input. now rewrite Hv.
Qed.

Lemma shape_collidable : forall r0 r h,
  shape r0 h -> shape r h ->
  memZ (r_name r) (r_outs r0) = true -> collidable r0 r = true.
Proof.
  intros r0 r h [Hn0 [Hk0 Ht0]] [Hn [Hk Ht]] Hm.
  unfold collidable. rewrite Hm. simpl.
  assert (Hkeys : r_keys r0 = r_keys r) by congruence.
  assert (Hlen : length (r_feats r0) = length (r_feats r)) by congruence.
  rewrite Hkeys, Hlen, Z.eqb_refl.
  assert (Hl : forall l : list Z, list_eqb Z.eqb l l = true).
  { induction l; simpl; auto. now rewrite Z.eqb_refl. }
  rewrite Hl. simpl.
  unfold tail_ok in Ht0, Ht.
  destruct (rf_hashed r0), (rf_hashed r); simpl; auto.
  - destruct Ht0 as [l [Hl0 _]]. rewrite Ht in Hl0. discriminate Hl0.
  - destruct Ht as [l [Hl1 _]]. rewrite Ht0 in Hl1. discriminate Hl1.
Qed.

Lemma collide_ok_use : forall reg r0 r,
  collide_ok reg = true -> In r0 reg -> In r reg ->
  collidable r0 r = true -> same_recipe_shape r0 r = true.
Proof.
  intros reg r0 r H H0 H1 Hc. unfold collide_ok in H.
  rewrite forallb_forall in H. specialize (H r0 H0).
  rewrite forallb_forall in H. specialize (H r H1).
  rewrite Hc in H. exact H.
Qed.

(* a generic method, or compute_ctc with all six matrix elements required *)
Definition plain_method (r : recipe) : bool :=
  (r_mkind r =? 0)
  || ((r_mkind r =? 2) && forallb (fun k => memZ k (r_keys r)) k_ct).

Lemma avail_keys : forall n reg st r,
  avail (S n) reg st r = true ->
  forallb (fun k => has k (b_cfg (s_base st))) (r_keys r) = true.
Proof.
  intros n reg st r H. cbn [avail] in H.
  apply andb_prop in H. destruct H as [H _].
  apply andb_prop in H. destruct H as [H _].
  apply andb_prop in H. destruct H as [H _]. exact H.
Qed.

Lemma select_keys : forall reg st f r,
  select SF reg st f = Some r ->
  forallb (fun k => has k (b_cfg (s_base st))) (r_keys r) = true.
Proof.
  intros reg st f r H. unfold select in H. apply find_some in H.
  destruct H as [_ H]. apply andb_prop in H. destruct H as [_ H].
  rewrite SF_eq in H. now apply avail_keys in H.
Qed.

Lemma ctc_not_missing : forall reg st st' r,
  s_base st' = s_base st ->
  forallb (fun k => memZ k (r_keys r)) k_ct = true ->
  forallb (fun k => has k (b_cfg (s_base st))) (r_keys r) = true ->
  ctc_missing AF reg st' = false.
Proof.
  intros reg st st' r Hb Hall Hkeys. unfold ctc_missing. rewrite Hb.
  assert (H : forallb (fun k => has k (b_cfg (s_base st))) k_ct = true).
  { rewrite forallb_forall in *. intros k Hk. apply Hkeys.
    apply memZ_in. now apply Hall. }
  rewrite H. cbn [negb]. now rewrite andb_false_r.
Qed.

Definition is_idata (u : input) : bool :=
  match u with IData _ => true | _ => false end.

(* what the guard of the coherence theorems asks of the selected recipe *)
Definition coherent_recipe (b : base) (r : recipe) : bool :=
  forallb (in_base b) (r_feats r)          (* required features are stored *)
  && uses_covered r                        (* reads only hashed ingredients *)
  && plain_method r
  && extra_ok r
  && forallb is_idata (r_extra r).         (* hashed req_func result: data *)

Lemma direct_data_base : forall reg st st' l,
  s_base st' = s_base st -> forallb is_idata l = true ->
  map (direct AF reg st') l = map (direct AF reg st) l.
Proof.
  intros reg st st' l Hb Hl. apply map_ext_in. intros u Hu.
  rewrite forallb_forall in Hl. specialize (Hl u Hu).
  destruct u; try discriminate Hl. simpl. now rewrite Hb.
Qed.

Theorem read_coherent_flat : forall reg st f,
  collide_ok reg = true -> Inv reg st ->
  select SF reg st f = select SF reg (clear st) f ->
  (forall r, select SF reg st f = Some r ->
     coherent_recipe (s_base st) r = true) ->
  snd (read RF reg st f) = snd (read RF reg (clear st) f).
Proof.
  intros reg st f Hco HI Hsel Hg.
  rewrite RF_eq. rewrite !read_S. cbn [clear s_base s_cache].
  destruct (feat_raw (s_base st) f); [reflexivity|].
  rewrite <- Hsel.
  destruct (select SF reg st f) as [r|] eqn:Es; [|reflexivity].
  specialize (Hg r eq_refl). unfold coherent_recipe in Hg.
  apply andb_prop in Hg. destruct Hg as [Hg Hidata].
  apply andb_prop in Hg. destruct Hg as [Hg Hex].
  apply andb_prop in Hg. destruct Hg as [Hg Hmk].
  apply andb_prop in Hg. destruct Hg as [Hflat Hcov].
  destruct (select_some _ _ _ _ _ Es) as [Hin Hname].
  rewrite (fold_flat reg 6 (r_feats r) st [] Hflat).
  assert (Hflat' : forallb (in_base (s_base (clear st))) (r_feats r) = true)
    by exact Hflat.
  rewrite (fold_flat reg 6 (r_feats r) (clear st) [] Hflat').
  cbv zeta. unfold clear. cbn [s_base s_cache assoc].
  rewrite (direct_data_base reg st (mkState (s_base st) []) (r_extra r)
             eq_refl Hidata).
  pose proof (select_keys _ _ _ _ Es) as Hkeys.
  assert (Hm1 : (r_mkind r =? 1) = false).
  { unfold plain_method in Hmk. apply orb_prop in Hmk.
    destruct Hmk as [H|H]; [|apply andb_prop in H; destruct H as [H _]];
      apply Z.eqb_eq in H; rewrite H; reflexivity. }
  assert (Hm02 : r_mkind r = 0 \/ r_mkind r = 2).
  { unfold plain_method in Hmk. apply orb_prop in Hmk.
    destruct Hmk as [H|H]; [left|right; apply andb_prop in H;
                                 destruct H as [H _]];
      now apply Z.eqb_eq in H. }
  assert (Hplain : forall s, s_base s = s_base st -> forall view : list (option val),
     (if r_mkind r =? 2
      then if ctc_missing AF reg s then inr e_ctmiss
           else inl (@nil (option val), r_uses r)
      else inl ([], r_uses r))
     = (inl ([], r_uses r) : (list (option val) * list input) + Z)).
  { intros s Hs _. destruct (r_mkind r =? 2) eqn:E2; [|reflexivity].
    unfold plain_method in Hmk. rewrite E2 in Hmk.
    assert (E0 : (r_mkind r =? 0) = false).
    { apply Z.eqb_eq in E2. rewrite E2. reflexivity. }
    rewrite E0 in Hmk. cbn [orb andb] in Hmk.
    now rewrite (ctc_not_missing reg st s r Hs Hmk Hkeys). }
  rewrite Hm1.
  rewrite (Hplain st eq_refl []),
          (Hplain (mkState (s_base st) []) eq_refl []).
  set (items := map ItFeat ([] ++ map (raw_or0 (s_base st)) (r_feats r)) ++
         map (fun k => ItCfg k match cfg (s_base st) k with
                               | Some v => v | None => 0 end) (r_keys r) ++
         (if rf_hashed r then [ItReq (map (direct AF reg st) (r_extra r))]
          else [])).
  assert (Hshape : shape r items).
  { apply shape_built.
    - simpl. now rewrite map_length.
    - destruct (rf_hashed r); [|reflexivity].
      eexists. split; [reflexivity|]. now rewrite map_length. }
  assert (Hview : forall s s',
     map (view_input AF reg s r items) (r_uses r)
     = map (view_input AF reg s' r items) (r_uses r)).
  { intros s s'. apply map_ext_in. intros u Hu.
    apply view_covered; auto.
    unfold uses_covered in Hcov. rewrite forallb_forall in Hcov. auto. }
  destruct (assoc f (s_cache st)) as [[h v]|] eqn:Ea.
  - destruct (items_eqb h items) eqn:Eh.
    + (* cache hit: the slot holds what would be computed now *)
      cbn [snd app]. f_equal.
      apply items_eqb_eq in Eh. subst h.
      apply assoc_in in Ea. destruct (HI _ _ Ea) as [r0 [st0 [Hin0 [Hout [Hs0 Hv]]]]].
      cbn [fst snd] in Hs0, Hv.
      assert (Hcol : collidable r0 r = true).
      { apply (shape_collidable r0 r items); auto. now rewrite Hname. }
      pose proof (collide_ok_use reg r0 r Hco Hin0 Hin Hcol) as Hsame.
      unfold same_recipe_shape in Hsame.
      apply andb_prop in Hsame. destruct Hsame as [Hsame Hk].
      apply andb_prop in Hsame. destruct Hsame as [Hsame Hme].
      apply andb_prop in Hsame. destruct Hsame as [Hsame Hu].
      apply andb_prop in Hsame. destruct Hsame as [Hf He].
      apply zlist_eqb_eq in Hf. apply inputs_eqb_eq in He.
      apply inputs_eqb_eq in Hu. apply Z.eqb_eq in Hme. apply Z.eqb_eq in Hk.
      rewrite Hv by (rewrite Hk; exact Hm02). rewrite Hme, Hu. f_equal.
      apply map_ext_in. intros u Hu'.
      unfold view_input. rewrite (from_items_ext r0 r items u Hf He).
      assert (Hc : covered r u = true).
      { unfold uses_covered in Hcov. rewrite forallb_forall in Hcov. auto. }
      destruct (covered_found r items u Hex Hshape Hc) as [w Hw].
      now rewrite Hw.
    + rewrite (Hview st (mkState (s_base st) [])). reflexivity.
  - rewrite (Hview st (mkState (s_base st) [])). reflexivity.
Qed.

(* the same after any history, starting from any freshly opened dataset *)
Theorem history_read_coherent : forall reg b ops f,
  collide_ok reg = true ->
  let st := run_state reg (fresh b) ops in
  select SF reg st f = select SF reg (clear st) f ->
  (forall r, select SF reg st f = Some r ->
     coherent_recipe (s_base st) r = true) ->
  snd (read RF reg st f) = snd (read RF reg (clear st) f).
Proof.
  intros reg b ops f Hco st Hsel Hg.
  apply read_coherent_flat; auto.
  apply run_inv. apply fresh_inv.
Qed.

(* ------------------------------------------------------------------ *)
(* "reported as available exactly when reading succeeds"               *)
(* ------------------------------------------------------------------ *)
Lemma existsb_filter_find {A} : forall (p q : A -> bool) (l : list A),
  existsb p (filter q l)
  = match find (fun x => q x && p x) (rev l) with Some _ => true | None => false end.
Proof.
  intros p q l.
  destruct (find (fun x => q x && p x) (rev l)) as [x|] eqn:E.
  - apply find_some in E. destruct E as [Hin Hp].
    apply andb_prop in Hp. destruct Hp as [Hq Hp].
    apply existsb_exists. exists x. split; [|exact Hp].
    apply filter_In. split; [now apply in_rev|exact Hq].
  - destruct (existsb p (filter q l)) eqn:Ex; [|reflexivity].
    apply existsb_exists in Ex. destruct Ex as [x [Hin Hp]].
    apply filter_In in Hin. destruct Hin as [Hin Hq].
    pose proof (find_none _ _ E x (proj1 (in_rev l x) Hin)) as Hn.
    cbv beta in Hn. rewrite Hq, Hp in Hn. discriminate Hn.
Qed.

(* __contains__ = stored, or cached, or some instance is available *)
Lemma contains_select : forall reg st f,
  contains AF reg st f
  = in_base (s_base st) f || has f (s_cache st)
    || match select SF reg st f with Some _ => true | None => false end.
Proof.
  intros reg st f. rewrite AF_eq. cbn [contains]. unfold select.
  now rewrite existsb_filter_find.
Qed.

Lemma plain_outcome : forall reg st r,
  plain_method r = true ->
  forallb (fun k => has k (b_cfg (s_base st))) (r_keys r) = true ->
  (r_mkind r =? 1) = false
  /\ forall s, s_base s = s_base st ->
       (if r_mkind r =? 2
        then if ctc_missing AF reg s then inr e_ctmiss
             else inl (@nil (option val), r_uses r)
        else inl ([], r_uses r))
       = (inl ([], r_uses r) : (list (option val) * list input) + Z).
Proof.
  intros reg st r Hmk Hkeys. split.
  - unfold plain_method in Hmk. apply orb_prop in Hmk.
    destruct Hmk as [H|H]; [|apply andb_prop in H; destruct H as [H _]];
      apply Z.eqb_eq in H; rewrite H; reflexivity.
  - intros s Hs. destruct (r_mkind r =? 2) eqn:E2; [|reflexivity].
    unfold plain_method in Hmk. rewrite E2 in Hmk.
    assert (E0 : (r_mkind r =? 0) = false).
    { apply Z.eqb_eq in E2. rewrite E2. reflexivity. }
    rewrite E0 in Hmk. cbn [orb andb] in Hmk.
    now rewrite (ctc_not_missing reg st s r Hs Hmk Hkeys).
Qed.

(* For every state (reachable or not): if a cached feature is still
   selectable (guard; excludes finding C06-cached-stays-listed) and the
   selected recipe has stored required features and a method that cannot
   reject its inputs (generic, or the full 3-channel crosstalk correction),
   then `feat in ds` is True exactly when ds[feat] returns a value. *)
Theorem available_iff_readable : forall reg st f,
  (has f (s_cache st) = true ->
   in_base (s_base st) f = true \/ select SF reg st f <> None) ->
  (forall r, select SF reg st f = Some r ->
     forallb (in_base (s_base st)) (r_feats r) = true
     /\ plain_method r = true) ->
  (contains AF reg st f = true <-> exists v, snd (read RF reg st f) = Ok v).
Proof.
  intros reg st f Hcached Hg. rewrite contains_select.
  rewrite RF_eq, read_S. unfold in_base in *.
  destruct (feat_raw (s_base st) f) as [i|] eqn:Ef.
  - cbn [orb snd]. split; [eauto|reflexivity].
  - cbn [orb].
    destruct (select SF reg st f) as [r|] eqn:Es.
    + rewrite orb_true_r. split; [intros _|reflexivity].
      destruct (Hg r eq_refl) as [Hflat Hmk].
      pose proof (select_keys _ _ _ _ Es) as Hkeys.
      destruct (plain_outcome reg st r Hmk Hkeys) as [Hm1 Hplain].
      rewrite (fold_flat reg 6 (r_feats r) st [] Hflat).
      cbv zeta. rewrite Hm1, (Hplain st eq_refl).
      match goal with
      | |- context [match ?X with Some v => (st, Ok v) | None => _ end] =>
          destruct X as [v|]
      end; cbn [snd]; eauto.
    + rewrite orb_false_r. cbn [snd].
      split.
      * intros Hh. destruct (Hcached Hh) as [H|H];
          [discriminate H|now elim H].
      * intros [v Hv]. discriminate Hv.
Qed.

(* ------------------------------------------------------------------ *)
(* what a fresh dataset computes: the method on the current ingredients *)
(* ------------------------------------------------------------------ *)
Definition spec_value (reg : list recipe) (b : base) (r : recipe) (f : Z) : val :=
  Comp (r_meth r) f (map (direct AF reg (fresh b)) (r_uses r)).

Lemma feat_item_raw : forall b fs t g v,
  feat_item fs (map ItFeat (map (raw_or0 b) fs) ++ t) g = Some v ->
  In g fs /\ v = Some (raw_or0 b g).
Proof.
  intros b. induction fs as [|a fs IH]; simpl; intros t g v H; [discriminate H|].
  destruct (g =? a) eqn:E.
  - apply Z.eqb_eq in E. subst a. inversion H. auto.
  - apply IH in H. destruct H as [H1 H2]. auto.
Qed.

Lemma cfg_item_built : forall (g : Z -> Z) vs ks rit k v,
  (rit = [] \/ exists l, rit = [ItReq l]) ->
  cfg_item (map ItFeat vs ++ map (fun k => ItCfg k (g k)) ks ++ rit) k = Some v ->
  In k ks /\ v = Some (Raw (g k)).
Proof.
  intros g vs ks rit k v Hrit. induction vs as [|x vs IHv]; simpl.
  - induction ks as [|a ks IH]; simpl.
    + destruct Hrit as [->|[l ->]]; simpl; discriminate.
    + destruct (k =? a) eqn:E.
      * apply Z.eqb_eq in E. subst a. intros H. inversion H. auto.
      * intros H. apply IH in H. destruct H. auto.
  - exact IHv.
Qed.

Lemma extra_zip_map : forall (d : input -> option val) ex u v,
  extra_zip ex (map d ex) u = Some v -> v = d u.
Proof.
  intros d. induction ex as [|e ex IH]; simpl; intros u v H; [discriminate H|].
  destruct (input_eqb u e) eqn:E.
  - apply input_eqb_eq in E. subst e. now inversion H.
  - now apply IH.
Qed.

Lemma req_item_built : forall (d : input -> option val) (g : Z -> Z) ex vs ks rit u v,
  (rit = [] \/ rit = [ItReq (map d ex)]) ->
  req_item ex (map ItFeat vs ++ map (fun k => ItCfg k (g k)) ks ++ rit) u = Some v ->
  v = d u.
Proof.
  intros d g ex vs ks rit u v Hrit.
  induction vs as [|x vs IHv]; simpl; [|exact IHv].
  induction ks as [|a ks IH]; simpl; [|exact IH].
  destruct Hrit as [->| ->]; simpl; [discriminate|].
  apply extra_zip_map.
Qed.

(* A fresh dataset (empty cache) whose selected recipe has stored required
   features and a method that cannot reject its inputs returns exactly the
   method applied to the CURRENT values of everything the method reads. *)
Theorem read_fresh_is_spec : forall reg b f r,
  feat_raw b f = None -> select SF reg (fresh b) f = Some r ->
  forallb (in_base b) (r_feats r) = true -> plain_method r = true ->
  snd (read RF reg (fresh b) f) = Ok (spec_value reg b r f).
Proof.
  intros reg b f r Hf Es Hflat Hmk.
  rewrite RF_eq, read_S. cbn [fresh s_base]. rewrite Hf, Es.
  pose proof (select_keys _ _ _ _ Es) as Hkeys. cbn [fresh s_base] in Hkeys.
  destruct (plain_outcome reg (fresh b) r Hmk Hkeys) as [Hm1 Hplain].
  rewrite (fold_flat reg 6 (r_feats r) (fresh b) [] Hflat).
  cbv zeta. cbn [fresh s_base s_cache assoc app].
  rewrite Hm1, (Hplain (fresh b) eq_refl). cbn [snd app].
  unfold spec_value. f_equal. f_equal. apply map_ext_in. intros u Hu.
  unfold view_input, from_items.
  set (gk := fun k => match cfg b k with Some v => v | None => 0 end).
  set (rit := if rf_hashed r
              then [ItReq (map (direct AF reg (fresh b)) (r_extra r))] else []).
  assert (Hrit1 : rit = [] \/ exists l, rit = [ItReq l]).
  { unfold rit. destruct (rf_hashed r); eauto. }
  assert (Hrit2 : rit = [] \/
                  rit = [ItReq (map (direct AF reg (fresh b)) (r_extra r))]).
  { unfold rit. destruct (rf_hashed r); auto. }
  assert (Hreq : forall v,
    req_item (r_extra r)
      (map ItFeat (map (raw_or0 b) (r_feats r)) ++
       map (fun k => ItCfg k (gk k)) (r_keys r) ++ rit) u = Some v ->
    v = direct AF reg (fresh b) u).
  { intros v. now apply req_item_built. }
  destruct u as [g|g|k].
  - destruct (feat_item (r_feats r) _ g) as [v|] eqn:E.
    + apply feat_item_raw in E. destruct E as [Hin ->].
      rewrite forallb_forall in Hflat. specialize (Hflat g Hin).
      unfold in_base in Hflat. unfold raw_or0. cbn [direct fresh s_base].
      destruct (feat_raw b g); [reflexivity|discriminate Hflat].
    + destruct (req_item _ _ _) as [v|] eqn:E2; [now apply Hreq|reflexivity].
  - destruct (memZ g (r_feats r)) eqn:E.
    + apply memZ_in in E. rewrite forallb_forall in Hflat.
      specialize (Hflat g E). cbn [direct].
      rewrite contains_select. cbn [fresh s_base]. rewrite Hflat. reflexivity.
    + destruct (req_item _ _ _) as [v|] eqn:E2; [now apply Hreq|reflexivity].
  - destruct (cfg_item _ k) as [v|] eqn:E.
    + apply (cfg_item_built gk) in E; [|exact Hrit1].
      destruct E as [Hin ->].
      rewrite forallb_forall in Hkeys. specialize (Hkeys k Hin).
      unfold has in Hkeys. cbn [direct fresh s_base]. unfold gk, cfg.
      destruct (assoc k (b_cfg b)); [reflexivity|discriminate Hkeys].
    + destruct (req_item _ _ _) as [v|] eqn:E2; [now apply Hreq|reflexivity].
Qed.

(* ------------------------------------------------------------------ *)
(* chains: required features that are themselves computed (depth 2)    *)
(* ------------------------------------------------------------------ *)
Definition is_out (reg : list recipe) (x : Z) : bool :=
  existsb (fun r => (r_name r =? x) || memZ x (r_outs r)) reg.

(* the selection of a recipe for [g] cannot depend on the cache: every
   feature its instances require is stored or can never be in the cache *)
Definition stable (reg : list recipe) (b : base) (g : Z) : bool :=
  forallb (fun r' => negb (r_name r' =? g)
                     || (forallb (fun x => in_base b x || negb (is_out reg x))
                                 (r_feats r')
                         && negb (r_rf r' =? 2))) reg.

Definition cache_outs (reg : list recipe) (s : state) : Prop :=
  forall x, has x (s_cache s) = true -> is_out reg x = true.

Lemma inv_cache_outs : forall reg s, Inv reg s -> cache_outs reg s.
Proof.
  intros reg s HI x Hx. unfold has in Hx.
  destruct (assoc x (s_cache s)) as [hv|] eqn:E; [|discriminate Hx].
  apply assoc_in in E. destruct (HI _ _ E) as [r0 [st0 [Hin [Hout _]]]].
  unfold is_out. apply existsb_exists. exists r0. split; [exact Hin|].
  rewrite Hout. apply orb_true_r.
Qed.

Lemma forallb_ext_in {A} : forall (p q : A -> bool) l,
  (forall x, In x l -> p x = q x) -> forallb p l = forallb q l.
Proof.
  induction l as [|a l IH]; simpl; intros H; auto.
  rewrite (H a) by now left. f_equal. apply IH. intros x Hx. apply H. now right.
Qed.

Lemma existsb_ext_in {A} : forall (p q : A -> bool) l,
  (forall x, In x l -> p x = q x) -> existsb p l = existsb q l.
Proof.
  induction l as [|a l IH]; simpl; intros H; auto.
  rewrite (H a) by now left. f_equal. apply IH. intros x Hx. apply H. now right.
Qed.

Lemma find_ext_in {A} : forall (p q : A -> bool) l,
  (forall x, In x l -> p x = q x) -> find p l = find q l.
Proof.
  induction l as [|a l IH]; simpl; intros H; auto.
  rewrite (H a) by now left. destruct (q a); [reflexivity|].
  apply IH. intros x Hx. apply H. now right.
Qed.

Lemma not_out_no_recipe : forall reg x,
  is_out reg x = false -> filter (fun o => r_name o =? x) reg = [].
Proof.
  intros reg x H. induction reg as [|r reg IH]; simpl in *; auto.
  apply orb_false_iff in H. destruct H as [H1 H2].
  apply orb_false_iff in H1. destruct H1 as [H1 _]. rewrite H1. now apply IH.
Qed.

Lemma contains_stable_x : forall reg n s c x,
  s_base c = s_base s -> cache_outs reg s -> cache_outs reg c ->
  in_base (s_base s) x || negb (is_out reg x) = true ->
  contains n reg s x = contains n reg c x.
Proof.
  intros reg n s c x Hb Hs Hc Hx. destruct n as [|m]; [reflexivity|].
  cbn [contains]. rewrite Hb.
  destruct (in_base (s_base s) x) eqn:E; [reflexivity|].
  cbn [orb] in Hx. apply negb_true_iff in Hx.
  assert (H1 : has x (s_cache s) = false).
  { destruct (has x (s_cache s)) eqn:Eh; auto. apply Hs in Eh. congruence. }
  assert (H2 : has x (s_cache c) = false).
  { destruct (has x (s_cache c)) eqn:Eh; auto. apply Hc in Eh. congruence. }
  rewrite H1, H2, (not_out_no_recipe reg x Hx). reflexivity.
Qed.

Lemma stable_recipe : forall reg b r',
  In r' reg -> stable reg b (r_name r') = true ->
  forallb (fun x => in_base b x || negb (is_out reg x)) (r_feats r') = true
  /\ (r_rf r' =? 2) = false.
Proof.
  intros reg b r' Hin Hst. unfold stable in Hst. rewrite forallb_forall in Hst.
  specialize (Hst r' Hin). rewrite Z.eqb_refl in Hst. cbn [negb orb] in Hst.
  apply andb_prop in Hst. destruct Hst as [H1 H2].
  split; [exact H1|now apply negb_true_iff in H2].
Qed.

Lemma avail_stable : forall reg n s c,
  s_base c = s_base s -> cache_outs reg s -> cache_outs reg c ->
  forall r', In r' reg -> stable reg (s_base s) (r_name r') = true ->
    avail n reg s r' = avail n reg c r'.
Proof.
  intros reg n s c Hb Hs Hc. induction n as [|n IH]; intros r' Hin Hst;
    [reflexivity|].
  destruct (stable_recipe reg (s_base s) r' Hin Hst) as [Hf Hrf].
  cbn [avail]. rewrite Hb. rewrite Hrf.
  assert (E1 : forallb (contains n reg s) (r_feats r')
               = forallb (contains n reg c) (r_feats r')).
  { apply forallb_ext_in. intros x Hx. rewrite forallb_forall in Hf.
    apply contains_stable_x; auto. }
  assert (E2 : existsb (avail n reg s)
                 (filter (fun o => (r_name o =? r_name r')
                                   && (r_prio r' <? r_prio o)) reg)
               = existsb (avail n reg c)
                 (filter (fun o => (r_name o =? r_name r')
                                   && (r_prio r' <? r_prio o)) reg)).
  { apply existsb_ext_in. intros o Ho. apply filter_In in Ho.
    destruct Ho as [Ho Hn]. apply andb_prop in Hn. destruct Hn as [Hn _].
    apply Z.eqb_eq in Hn. apply IH; [exact Ho|]. now rewrite Hn. }
  rewrite E1, E2. reflexivity.
Qed.

Lemma select_stable : forall reg s c g,
  s_base c = s_base s -> cache_outs reg s -> cache_outs reg c ->
  stable reg (s_base s) g = true ->
  select SF reg s g = select SF reg c g.
Proof.
  intros reg s c g Hb Hs Hc Hst. unfold select. apply find_ext_in.
  intros r' Hin. apply in_rev in Hin.
  destruct (r_name r' =? g) eqn:E; cbn [andb]; [|reflexivity].
  apply Z.eqb_eq in E. apply avail_stable; auto. now rewrite E.
Qed.

(* reads never change the stored data / configuration *)
Lemma read_base : forall reg n st f, s_base (fst (read n reg st f)) = s_base st.
Proof.
  intros reg. induction n as [|n IH]; intros st f; [reflexivity|].
  rewrite read_S.
  destruct (feat_raw (s_base st) f); [reflexivity|].
  destruct (select SF reg st f) as [r|]; [|reflexivity].
  pose proof (fold_hash_prop (read n reg) (fun s => s_base s = s_base st)
                (fun s g Hs => eq_trans (IH s g) Hs) (r_feats r) st [] None
                eq_refl) as HB.
  destruct (fold_left (hash_step (read n reg)) (r_feats r) (st, [], None))
    as [[st1 fvals] err].
  cbn [fst] in HB.
  destruct err as [k|]; [exact HB|].
  cbv zeta.
  match goal with
  | |- context [match ?X with Some v => (st1, Ok v) | None => _ end] =>
      destruct X as [v|]
  end; [exact HB|].
  destruct (r_mkind r =? 1).
  - destruct (emod_outcome _ _ _ _); exact HB.
  - destruct (r_mkind r =? 2).
    + destruct (ctc_missing AF reg st1); exact HB.
    + exact HB.
Qed.

Definition items_of (reg : list recipe) (b : base) (r : recipe) (vs : list val)
  : list item :=
  map ItFeat vs
  ++ map (fun k => ItCfg k (match cfg b k with Some v => v | None => 0 end))
         (r_keys r)
  ++ (if rf_hashed r then [ItReq (map (direct AF reg (fresh b)) (r_extra r))]
      else []).

(* the value of [f] computed by [r] when its required features have the
   values [vs] *)
Definition value_of (reg : list recipe) (b : base) (r : recipe) (f : Z)
  (vs : list val) : val :=
  Comp (r_meth r) f
    (map (view_input AF reg (fresh b) r (items_of reg b r vs)) (r_uses r)).

Definition method_ok (r : recipe) : bool :=
  uses_covered r && plain_method r && extra_ok r
  && forallb is_idata (r_extra r).

(* whatever the cache holds: once the required features were read with the
   values [vs], the read returns [value_of ... vs] *)
Lemma read_after_fold : forall reg n st f r s1 vs,
  collide_ok reg = true ->
  feat_raw (s_base st) f = None -> select SF reg st f = Some r ->
  fold_left (hash_step (read n reg)) (r_feats r) (st, [], None)
    = (s1, vs, None) ->
  Inv reg s1 -> s_base s1 = s_base st -> method_ok r = true ->
  snd (read (S n) reg st f) = Ok (value_of reg (s_base st) r f vs).
Proof.
  intros reg n st f r s1 vs Hco Hf Es Hfold HI Hb Hok.
  unfold method_ok in Hok.
  apply andb_prop in Hok. destruct Hok as [Hok Hidata].
  apply andb_prop in Hok. destruct Hok as [Hok Hex].
  apply andb_prop in Hok. destruct Hok as [Hcov Hmk].
  destruct (select_some _ _ _ _ _ Es) as [Hin Hname].
  pose proof (select_keys _ _ _ _ Es) as Hkeys.
  destruct (plain_outcome reg st r Hmk Hkeys) as [Hm1 Hplain].
  pose proof (fold_hash_len _ _ _ _ _ _ Hfold) as Hlen. cbn [length Nat.add] in Hlen.
  rewrite read_S, Hf, Es, Hfold. cbv zeta. rewrite Hb.
  rewrite (direct_data_base reg (fresh (s_base st)) s1 (r_extra r) Hb Hidata).
  rewrite Hm1, (Hplain s1 Hb).
  fold (items_of reg (s_base st) r vs).
  set (items := items_of reg (s_base st) r vs).
  assert (Hshape : shape r items).
  { apply shape_built; [exact Hlen|].
    destruct (rf_hashed r); [|reflexivity].
    eexists. split; [reflexivity|]. now rewrite map_length. }
  assert (Hview : forall s s',
     map (view_input AF reg s r items) (r_uses r)
     = map (view_input AF reg s' r items) (r_uses r)).
  { intros s s'. apply map_ext_in. intros u Hu.
    apply view_covered; auto.
    unfold uses_covered in Hcov. rewrite forallb_forall in Hcov. auto. }
  unfold value_of. fold items.
  destruct (assoc f (s_cache s1)) as [[h v]|] eqn:Ea.
  - destruct (items_eqb h items) eqn:Eh.
    + cbn [snd app]. f_equal.
      apply items_eqb_eq in Eh. subst h.
      apply assoc_in in Ea.
      destruct (HI _ _ Ea) as [r0 [st0 [Hin0 [Hout [Hs0 Hv]]]]].
      cbn [fst snd] in Hs0, Hv.
      assert (Hcol : collidable r0 r = true).
      { apply (shape_collidable r0 r items); auto. now rewrite Hname. }
      pose proof (collide_ok_use reg r0 r Hco Hin0 Hin Hcol) as Hsame.
      unfold same_recipe_shape in Hsame.
      apply andb_prop in Hsame. destruct Hsame as [Hsame Hk].
      apply andb_prop in Hsame. destruct Hsame as [Hsame Hme].
      apply andb_prop in Hsame. destruct Hsame as [Hsame Hu].
      apply andb_prop in Hsame. destruct Hsame as [Hfe He].
      apply zlist_eqb_eq in Hfe. apply inputs_eqb_eq in He.
      apply inputs_eqb_eq in Hu. apply Z.eqb_eq in Hme. apply Z.eqb_eq in Hk.
      assert (Hm02 : r_mkind r = 0 \/ r_mkind r = 2).
      { unfold plain_method in Hmk. apply orb_prop in Hmk.
        destruct Hmk as [H|H]; [left|right; apply andb_prop in H;
                                     destruct H as [H _]];
          now apply Z.eqb_eq in H. }
      rewrite Hv by (rewrite Hk; exact Hm02). rewrite Hme, Hu. f_equal.
      apply map_ext_in. intros u Hu'.
      unfold view_input. rewrite (from_items_ext r0 r items u Hfe He).
      assert (Hc : covered r u = true).
      { unfold uses_covered in Hcov. rewrite forallb_forall in Hcov. auto. }
      destruct (covered_found r items u Hex Hshape Hc) as [w Hw].
      now rewrite Hw.
    + cbn [snd app]. f_equal. f_equal. apply Hview.
  - cbn [snd app]. f_equal. f_equal. apply Hview.
Qed.

(* a computed feature whose own required features are stored, read on ANY
   state satisfying the invariant *)
Lemma read_flat_value : forall reg n s g rg,
  collide_ok reg = true -> Inv reg s ->
  feat_raw (s_base s) g = None -> select SF reg s g = Some rg ->
  forallb (in_base (s_base s)) (r_feats rg) = true -> method_ok rg = true ->
  snd (read (S (S n)) reg s g)
  = Ok (value_of reg (s_base s) rg g (map (raw_or0 (s_base s)) (r_feats rg))).
Proof.
  intros reg n s g rg Hco HI Hf Es Hflat Hok.
  apply (read_after_fold reg (S n) s g rg s); auto.
  rewrite (fold_flat reg n (r_feats rg) s [] Hflat). reflexivity.
Qed.

(* what may be required: a stored feature, or a computed one whose selection
   cannot depend on the cache and whose own requirements are stored *)
Definition chain_feat (reg : list recipe) (b : base) (g : Z) : bool :=
  in_base b g
  || (stable reg b g
      && match select SF reg (fresh b) g with
         | Some rg => forallb (in_base b) (r_feats rg) && method_ok rg
         | None => false
         end).

Definition chain_val (reg : list recipe) (b : base) (g : Z) : val :=
  match feat_raw b g with
  | Some i => Raw i
  | None =>
      match select SF reg (fresh b) g with
      | Some rg => value_of reg b rg g (map (raw_or0 b) (r_feats rg))
      | None => Raw 0
      end
  end.

Lemma fresh_cache_outs : forall reg b, cache_outs reg (fresh b).
Proof. intros reg b x H. discriminate H. Qed.

Lemma fold_chain : forall reg n fs s vs,
  collide_ok reg = true -> Inv reg s ->
  forallb (chain_feat reg (s_base s)) fs = true ->
  exists s',
    fold_left (hash_step (read (S (S n)) reg)) fs (s, vs, None)
    = (s', vs ++ map (chain_val reg (s_base s)) fs, None)
    /\ Inv reg s' /\ s_base s' = s_base s.
Proof.
  intros reg n. induction fs as [|g fs IH]; intros s vs Hco HI Hch.
  - exists s. cbn [fold_left map]. rewrite app_nil_r. auto.
  - cbn [forallb] in Hch. apply andb_prop in Hch. destruct Hch as [Hg Hfs].
    cbn [fold_left map].
    assert (Hstep : exists s1,
      hash_step (read (S (S n)) reg) (s, vs, None) g
      = (s1, vs ++ [chain_val reg (s_base s) g], None)
      /\ Inv reg s1 /\ s_base s1 = s_base s).
    { unfold chain_feat in Hg. unfold chain_val.
      destruct (feat_raw (s_base s) g) as [i|] eqn:Ef.
      - exists s. rewrite (hash_step_raw reg (S n) s vs g i Ef). auto.
      - unfold in_base in Hg. rewrite Ef in Hg. cbn [orb] in Hg.
        apply andb_prop in Hg. destruct Hg as [Hst Hsel].
        destruct (select SF reg (fresh (s_base s)) g) as [rg|] eqn:Es;
          [|discriminate Hsel].
        apply andb_prop in Hsel. destruct Hsel as [Hflat Hok].
        assert (Es' : select SF reg s g = Some rg).
        { rewrite <- Es. apply select_stable; auto.
          - now apply inv_cache_outs.
          - apply fresh_cache_outs. }
        pose proof (read_flat_value reg n s g rg Hco HI Ef Es' Hflat Hok) as Hv.
        pose proof (read_inv reg (S (S n)) s g HI) as HI1.
        pose proof (read_base reg (S (S n)) s g) as Hb1.
        unfold hash_step.
        destruct (read (S (S n)) reg s g) as [s1 x].
        cbn [fst snd] in Hv, HI1, Hb1. subst x.
        exists s1. auto. }
    destruct Hstep as [s1 [Hs1 [HI1 Hb1]]]. rewrite Hs1.
    rewrite <- Hb1 in Hfs.
    destruct (IH s1 (vs ++ [chain_val reg (s_base s) g]) Hco HI1 Hfs)
      as [s' [Hfold [HI' Hb']]].
    exists s'. rewrite Hfold, Hb1, <- app_assoc. cbn [app].
    split; [reflexivity|]. split; [exact HI'|]. now rewrite Hb', Hb1.
Qed.

(* Coherence for chains of length 2: a read returns what a dataset with the
   same state and an empty cache returns when the selected recipe reads only
   hashed ingredients, cannot reject its inputs, and every required feature
   is stored or is itself computed from stored features by such a recipe
   whose selection does not depend on the cache. *)
Definition chain_recipe (reg : list recipe) (b : base) (r : recipe) : bool :=
  forallb (chain_feat reg b) (r_feats r) && method_ok r.

Theorem read_coherent_chain2 : forall reg st f,
  collide_ok reg = true -> Inv reg st ->
  select SF reg st f = select SF reg (clear st) f ->
  (forall r, select SF reg st f = Some r ->
     chain_recipe reg (s_base st) r = true) ->
  snd (read RF reg st f) = snd (read RF reg (clear st) f).
Proof.
  intros reg st f Hco HI Hsel Hg.
  destruct (feat_raw (s_base st) f) as [i|] eqn:Ef.
  - rewrite RF_eq, !read_S. cbn [clear s_base]. rewrite Ef. reflexivity.
  - destruct (select SF reg st f) as [r|] eqn:Es.
    + specialize (Hg r eq_refl). unfold chain_recipe in Hg.
      apply andb_prop in Hg. destruct Hg as [Hch Hok].
      assert (HIc : Inv reg (clear st)) by (intros o hv H; destruct H).
      destruct (fold_chain reg 5 (r_feats r) st [] Hco HI Hch)
        as [s1 [Hf1 [HI1 Hb1]]].
      destruct (fold_chain reg 5 (r_feats r) (clear st) [] Hco HIc Hch)
        as [c1 [Hf2 [HI2 Hb2]]].
      rewrite RF_eq.
      rewrite (read_after_fold reg 7 st f r s1 _ Hco Ef Es Hf1 HI1 Hb1 Hok).
      symmetry in Hsel.
      rewrite (read_after_fold reg 7 (clear st) f r c1 _ Hco Ef Hsel Hf2 HI2
                 Hb2 Hok).
      reflexivity.
    + rewrite RF_eq, !read_S. cbn [clear s_base]. rewrite Ef, Es, <- Hsel.
      reflexivity.
Qed.

Theorem history_read_coherent_chain2 : forall reg b ops f,
  collide_ok reg = true ->
  let st := run_state reg (fresh b) ops in
  select SF reg st f = select SF reg (clear st) f ->
  (forall r, select SF reg st f = Some r ->
     chain_recipe reg (s_base st) r = true) ->
  snd (read RF reg st f) = snd (read RF reg (clear st) f).
Proof.
  intros reg b ops f Hco st Hsel Hg.
  apply read_coherent_chain2; auto.
  apply run_inv. apply fresh_inv.
Qed.
