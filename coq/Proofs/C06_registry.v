(* C06 -- statements about the GENERATED registry (Gen/AncRegistry.v), all
   decided by vm_compute over the finite table / finite scenario space.
   The bounds are the table itself (one row per AncillaryFeature instance,
   ingredients observed in the traced environments) and the 2^6 x {known
   medium, "other"} emodulus combinations. *)
From Coq Require Import ZArith List Bool.
From Verif Require Import Model.C06 Proofs.C06 Gen.AncRegistry.
Import ListNotations.
Open Scope Z_scope.

Definition uses_declared := uses_covered.

(* every recipe outside the known findings reads only what its hash covers *)
Lemma registry_complete_partial :
  forall r, In r registry -> known_incomplete r = false ->
            uses_declared r = true.
Proof.
  assert (H : forallb (fun r => known_incomplete r || uses_declared r)
                registry = true) by (vm_compute; reflexivity).
  intros r Hin Hk. rewrite forallb_forall in H. specialize (H r Hin).
  rewrite Hk in H. exact H.
Qed.

(* recipes whose hashes can coincide compute the same thing *)
Lemma registry_collide_ok : collide_ok registry = true.
Proof. vm_compute. reflexivity. Qed.

(* ---- emodulus: documented precedence C > B > A decides the recipe ---- *)
Lemma eqb_true_eq : forall x y : Z, (x =? y) = true -> x = y.
Proof. intros x y H. now apply Z.eqb_eq. Qed.

Lemma emodulus_precedence :
  forall (lut med tmp visc vm ht : bool) (medv : Z),
    medv = 1 \/ medv = 4 ->
    sel_scenario registry (emod_base lut med tmp visc vm ht medv)
    = spec_scenario lut med tmp visc ht.
Proof.
  intros lut med tmp visc vm ht medv Hm. apply eqb_true_eq.
  destruct Hm as [-> | ->]; destruct lut, med, tmp, visc, vm, ht;
    vm_compute; reflexivity.
Qed.

(* the inputs compute_emodulus really uses are those of the chosen recipe's
   scenario -- provided no viscosity is given next to a medium *)
Definition taken (lut med tmp visc vm ht : bool) (medv : Z) : Z :=
  nth 2 (emod_row registry (lut, med, tmp, visc, vm, ht, medv)) 0.

Lemma emodulus_inputs_partial :
  forall (lut med tmp visc vm ht : bool),
    visc && med = false ->
    spec_scenario lut med tmp visc ht <> 0 ->
    taken lut med tmp visc vm ht 1 = spec_scenario lut med tmp visc ht.
Proof.
  intros lut med tmp visc vm ht Hg Hs. apply eqb_true_eq.
  destruct lut, med, tmp, visc, vm, ht;
    try discriminate Hg; try (exfalso; apply Hs; reflexivity);
    vm_compute; reflexivity.
Qed.

(* ---- witnesses of the listed findings: booleans, evaluated by the
   harness (vm_compute) and reported in the evidence next to the status of
   the finding in known_findings.json.  They are deliberately NOT theorems:
   a repair of a recorded defect must not break the build. ---- *)
(* some recipe reads an ingredient outside its cache key *)
Definition w_registry_incomplete : bool :=
  existsb (fun r => negb (uses_declared r)) registry.
(* case-C ingredients plus a viscosity: compute_emodulus does not use the
   inputs of the documented scenario *)
Definition w_emodulus_inputs : bool :=
  negb (taken true true true true true false 1
        =? spec_scenario true true true true false).
(* C06-emodulus-available-unreadable: case-A ingredients plus a viscosity *)
Definition w_available_unreadable : bool :=
  let b := emod_base true true false true true true 1 in
  contains AF registry (fresh b) f_emodulus
  && match snd (read RF registry (fresh b) f_emodulus) with
     | Err _ => true | Ok _ => false end.
(* C06-cached-stays-listed: compute time, delete the frame rate *)
Definition w_cached_stays_listed : bool :=
  let st := run_state registry
              (fresh (mkBase [(f_frame, 0)] [] [(k_frame_rate, 1)]))
              [Read f_time; DelCfg k_frame_rate] in
  contains AF registry st f_time
  && negb (contains AF registry (clear st) f_time).
(* C06-ctc-undeclared-crosstalk: 2-channel correction, then "crosstalk fl13"
   changes: the read returns a value a fresh dataset does not compute *)
Definition w_stale_read : bool :=
  let st := run_state registry
              (fresh (mkBase [(f_fl1, 0); (f_fl2, 0)] []
                             [(11, 1); (13, 1); (15, 1)]))
              [Read f_fl1_ctc; SetCfg 15 2] in
  match snd (read RF registry st f_fl1_ctc),
        snd (read RF registry (clear st) f_fl1_ctc) with
  | Ok v, Ok v0 => negb (val_eqb v v0)
  | _, _ => false
  end.
Definition finding_witnesses : list Z :=
  map b2z [w_registry_incomplete; w_emodulus_inputs; w_available_unreadable;
           w_cached_stays_listed; w_stale_read].

(* ---- the generic theorems instantiated with the table ---- *)
Lemma registry_recipes_coherent :
  forall r, In r registry -> known_incomplete r = false ->
    uses_covered r = true /\ plain_method r = true /\ extra_ok r = true
    /\ forallb is_idata (r_extra r) = true.
Proof.
  assert (H : forallb (fun r => known_incomplete r
                || (uses_covered r && plain_method r && extra_ok r
                    && forallb is_idata (r_extra r))) registry = true)
    by (vm_compute; reflexivity).
  intros r Hin Hk. rewrite forallb_forall in H. specialize (H r Hin).
  rewrite Hk in H. cbn [orb] in H.
  apply andb_prop in H. destruct H as [H H4].
  apply andb_prop in H. destruct H as [H H3].
  apply andb_prop in H. destruct H as [H1 H2]. auto.
Qed.

Lemma registry_read_coherent : forall b ops f,
  let st := run_state registry (fresh b) ops in
  select SF registry st f = select SF registry (clear st) f ->
  (forall r, select SF registry st f = Some r ->
     forallb (in_base (s_base st)) (r_feats r) = true
     /\ known_incomplete r = false) ->
  snd (read RF registry st f) = snd (read RF registry (clear st) f).
Proof.
  intros b ops f st Hsel Hg.
  apply history_read_coherent; auto using registry_collide_ok.
  intros r Hr. destruct (Hg r Hr) as [Hflat Hk].
  destruct (select_some _ _ _ _ _ Hr) as [Hin _].
  destruct (registry_recipes_coherent r Hin Hk) as [H1 [H2 [H3 H4]]].
  unfold coherent_recipe.
  apply andb_true_intro; split; [|exact H4].
  apply andb_true_intro; split; [|exact H3].
  apply andb_true_intro; split; [|exact H2].
  apply andb_true_intro; split; [exact Hflat|exact H1].
Qed.

(* chains of length 2 over the table: the selected recipe and the recipes of
   its computed required features are outside the listed findings *)
Definition chain_feat_reg (b : base) (g : Z) : bool :=
  in_base b g
  || (stable registry b g
      && match select SF registry (fresh b) g with
         | Some rg => forallb (in_base b) (r_feats rg)
                      && negb (known_incomplete rg)
         | None => false
         end).

Lemma registry_read_coherent_chain : forall b ops f,
  let st := run_state registry (fresh b) ops in
  select SF registry st f = select SF registry (clear st) f ->
  (forall r, select SF registry st f = Some r ->
     forallb (chain_feat_reg (s_base st)) (r_feats r) = true
     /\ known_incomplete r = false) ->
  snd (read RF registry st f) = snd (read RF registry (clear st) f).
Proof.
  intros b ops f st Hsel Hg.
  apply history_read_coherent_chain2; auto using registry_collide_ok.
  intros r Hr. destruct (Hg r Hr) as [Hch Hk].
  destruct (select_some _ _ _ _ _ Hr) as [Hin _].
  destruct (registry_recipes_coherent r Hin Hk) as [H1 [H2 [H3 H4]]].
  unfold chain_recipe, method_ok.
  apply andb_true_intro; split;
    [|now rewrite H1, H2, H3, H4].
  rewrite forallb_forall in *. intros g Hgin. specialize (Hch g Hgin).
  unfold chain_feat_reg in Hch. unfold chain_feat.
  fold st. destruct (in_base (s_base st) g); [reflexivity|].
  cbn [orb] in *. apply andb_prop in Hch. destruct Hch as [Hst Hs].
  rewrite Hst. cbn [andb].
  destruct (select SF registry (fresh (s_base st)) g) as [rg|] eqn:Eg;
    [|discriminate Hs].
  apply andb_prop in Hs. destruct Hs as [Hflat Hkg].
  apply negb_true_iff in Hkg.
  destruct (select_some _ _ _ _ _ Eg) as [Hing _].
  destruct (registry_recipes_coherent rg Hing Hkg) as [G1 [G2 [G3 G4]]].
  unfold method_ok. now rewrite Hflat, G1, G2, G3, G4.
Qed.

(* available exactly when reading succeeds, for every recipe of the table
   outside the emodulus / 2-channel crosstalk findings *)
Lemma registry_available_iff_readable : forall st f,
  (has f (s_cache st) = true ->
   in_base (s_base st) f = true \/ select SF registry st f <> None) ->
  (forall r, select SF registry st f = Some r ->
     forallb (in_base (s_base st)) (r_feats r) = true
     /\ known_incomplete r = false) ->
  (contains AF registry st f = true
   <-> exists v, snd (read RF registry st f) = Ok v).
Proof.
  intros st f Hc Hg. apply available_iff_readable; [exact Hc|].
  intros r Hr. destruct (Hg r Hr) as [Hflat Hk].
  destruct (select_some _ _ _ _ _ Hr) as [Hin _].
  destruct (registry_recipes_coherent r Hin Hk) as [_ [H2 _]]. auto.
Qed.

(* what a fresh dataset returns is the method on the current ingredients *)
Lemma registry_fresh_is_spec : forall b f r,
  feat_raw b f = None -> select SF registry (fresh b) f = Some r ->
  forallb (in_base b) (r_feats r) = true -> known_incomplete r = false ->
  snd (read RF registry (fresh b) f) = Ok (spec_value registry b r f).
Proof.
  intros b f r Hf Hr Hflat Hk. apply read_fresh_is_spec; auto.
  destruct (select_some _ _ _ _ _ Hr) as [Hin _].
  now destruct (registry_recipes_coherent r Hin Hk) as [_ [H2 _]].
Qed.

(* ---- pinned declarations: the recipes of the emodulus, of the crosstalk
   correction and of "time" declare at least what the reviewed tree
   declared (name, priority, required features, required keys) ---- *)
Definition baseline : list (Z * Z * list Z * list Z) :=
  [ (f_emodulus, 5, [10; 11], [5; 1; 2; 3; 8; 9; 10]);
    (f_emodulus, 1, [10; 11; 1], [5; 1; 2; 8; 9; 10]);
    (f_emodulus, 4, [10; 11], [1; 2; 3; 8; 9; 10]);
    (f_emodulus, 0, [10; 11; 1], [1; 2; 8; 9; 10]);
    (f_emodulus, 2, [10; 11], [1; 4; 8; 9; 10]);
    (f_fl1_ctc, 1, [2; 3; 4], [11; 12; 13; 14; 15; 16]);
    (f_fl2_ctc, 1, [2; 3; 4], [11; 12; 13; 14; 15; 16]);
    (f_fl3_ctc, 1, [2; 3; 4], [11; 12; 13; 14; 15; 16]);
    (f_fl1_ctc, 0, [2; 3], [11; 13]);
    (f_fl2_ctc, 0, [2; 3], [11; 13]);
    (f_fl1_ctc, 0, [2; 4], [12; 15]);
    (f_fl3_ctc, 0, [2; 4], [12; 15]);
    (f_fl2_ctc, 0, [3; 4], [14; 16]);
    (f_fl3_ctc, 0, [3; 4], [14; 16]);
    (f_time, 0, [f_frame], [k_frame_rate]) ].

Definition declares_at_least (b : Z * Z * list Z * list Z) (r : recipe) : bool :=
  let '(n, p, fs, ks) := b in
  (r_name r =? n) && (r_prio r =? p) && list_eqb Z.eqb (r_feats r) fs
  && forallb (fun k => memZ k (r_keys r)) ks.

Lemma registry_declares_baseline :
  forall b, In b baseline ->
    exists r, In r registry /\ declares_at_least b r = true.
Proof.
  assert (H : forallb (fun b => existsb (declares_at_least b) registry)
                baseline = true) by (vm_compute; reflexivity).
  intros b Hb. rewrite forallb_forall in H. specialize (H b Hb).
  now apply existsb_exists in H.
Qed.

(* non-vacuity: a history that changes the frame rate between two reads of
   "time" meets every hypothesis, and the read is not a trivial one *)
Example registry_read_coherent_example :
  let b := mkBase [(f_frame, 0)] [] [(k_frame_rate, 1)] in
  let ops := [Read f_time; SetCfg k_frame_rate 2] in
  let st := run_state registry (fresh b) ops in
  select SF registry st f_time = select SF registry (clear st) f_time
  /\ (forall r, select SF registry st f_time = Some r ->
       forallb (in_base (s_base st)) (r_feats r) = true
       /\ known_incomplete r = false)
  /\ has f_time (s_cache st) = true
  /\ exists v, snd (read RF registry st f_time) = Ok v.
Proof.
  cbv zeta. split; [vm_compute; reflexivity|]. split.
  - intros r H. vm_compute in H. inversion H. subst r. vm_compute.
    repeat split; reflexivity.
  - split; [vm_compute; reflexivity|]. vm_compute. eexists. reflexivity.
Qed.

(* non-vacuity of the emodulus table: scenario C really is selected *)
Example emodulus_precedence_example :
  sel_scenario registry (emod_base true true true false true true 1) = 3
  /\ taken true true true false true true 1 = 3.
Proof. vm_compute. split; reflexivity. Qed.

(* non-vacuity for a prioritised recipe: three channels, all six elements,
   one element changes between two reads *)
Example registry_read_coherent_example_ctc :
  let b := mkBase [(f_fl1, 0); (f_fl2, 0); (f_fl3, 0)] []
                  [(11, 1); (12, 1); (13, 1); (14, 1); (15, 1); (16, 1)] in
  let ops := [Read f_fl1_ctc; SetCfg 15 2] in
  let st := run_state registry (fresh b) ops in
  select SF registry st f_fl1_ctc = select SF registry (clear st) f_fl1_ctc
  /\ (forall r, select SF registry st f_fl1_ctc = Some r ->
       forallb (in_base (s_base st)) (r_feats r) = true
       /\ known_incomplete r = false)
  /\ has f_fl1_ctc (s_cache st) = true.
Proof.
  cbv zeta. split; [vm_compute; reflexivity|]. split.
  - intros r H. vm_compute in H. inversion H. subst r. vm_compute.
    split; reflexivity.
  - vm_compute. reflexivity.
Qed.

(* non-vacuity for a recipe with a hashed req_func result (ml_class after the
   repair): a score is replaced between two reads *)
Example registry_read_coherent_example_ml :
  let b := mkBase [(f_deform, 0)] [(f_ml_a, 1); (f_ml_b, 1)] [] in
  let ops := [Read f_ml_class; SetTemp f_ml_a 2] in
  let st := run_state registry (fresh b) ops in
  select SF registry st f_ml_class = select SF registry (clear st) f_ml_class
  /\ (forall r, select SF registry st f_ml_class = Some r ->
       forallb (in_base (s_base st)) (r_feats r) = true
       /\ known_incomplete r = false /\ rf_hashed r = true)
  /\ has f_ml_class (s_cache st) = true.
Proof.
  cbv zeta. split; [vm_compute; reflexivity|]. split.
  - intros r H. vm_compute in H. inversion H. subst r. vm_compute.
    repeat split; reflexivity.
  - vm_compute. reflexivity.
Qed.

(* ... and for bright_bc_avg with the optional bg_off *)
Example registry_read_coherent_example_bgoff :
  let b := mkBase [(f_image, 0); (f_image_bg, 0); (f_mask, 0)] [] [] in
  let ops := [Read f_bright_bc_avg; SetTemp f_bg_off 1] in
  let st := run_state registry (fresh b) ops in
  select SF registry st f_bright_bc_avg
  = select SF registry (clear st) f_bright_bc_avg
  /\ (forall r, select SF registry st f_bright_bc_avg = Some r ->
       forallb (in_base (s_base st)) (r_feats r) = true
       /\ known_incomplete r = false /\ rf_hashed r = true)
  /\ has f_bright_bc_avg (s_cache st) = true.
Proof.
  cbv zeta. split; [vm_compute; reflexivity|]. split.
  - intros r H. vm_compute in H. inversion H. subst r. vm_compute.
    repeat split; reflexivity.
  - vm_compute. reflexivity.
Qed.

(* non-vacuity of available_iff_readable: both directions occur *)
Example registry_available_iff_readable_example :
  let st1 := fresh (mkBase [(f_frame, 0)] [] [(k_frame_rate, 1)]) in
  let st0 := fresh (mkBase [(f_frame, 0)] [] []) in
  contains AF registry st1 f_time = true
  /\ contains AF registry st0 f_time = false
  /\ (forall r, select SF registry st1 f_time = Some r ->
       forallb (in_base (s_base st1)) (r_feats r) = true
       /\ known_incomplete r = false).
Proof.
  cbv zeta. split; [vm_compute; reflexivity|].
  split; [vm_compute; reflexivity|].
  intros r H. vm_compute in H. inversion H. subst r. vm_compute.
  split; reflexivity.
Qed.

(* non-vacuity of the chain theorem: volume <- contour <- mask, the pixel
   size changes between two reads *)
Example registry_read_coherent_chain_example :
  let b := mkBase [(f_mask, 0); (f_pos_x, 0); (f_pos_y, 0)] []
                  [(k_pixel_size, 1)] in
  let ops := [Read f_volume; SetCfg k_pixel_size 2] in
  let st := run_state registry (fresh b) ops in
  select SF registry st f_volume = select SF registry (clear st) f_volume
  /\ (forall r, select SF registry st f_volume = Some r ->
       forallb (chain_feat_reg (s_base st)) (r_feats r) = true
       /\ known_incomplete r = false
       /\ forallb (in_base (s_base st)) (r_feats r) = false)
  /\ has f_volume (s_cache st) = true /\ has f_contour (s_cache st) = true.
Proof.
  cbv zeta. split; [vm_compute; reflexivity|]. split.
  - intros r H. vm_compute in H. inversion H. subst r. vm_compute.
    repeat split; reflexivity.
  - split; vm_compute; reflexivity.
Qed.
