(* C06 -- statements about the GENERATED registry (Gen/AncRegistry.v), all
   decided by vm_compute over the finite table / finite scenario space.
   The bounds are the table itself (one row per AncillaryFeature instance,
   ingredients observed in the traced environments) and the 2^6 x {known
   medium, "other"} emodulus combinations. *)
From Coq Require Import ZArith List Bool.
From Verif Require Import Model.C06 Gen.AncRegistry.
Import ListNotations.
Open Scope Z_scope.

Definition uses_declared (r : recipe) : bool := forallb (covered r) (r_uses r).

(* every recipe outside the known findings reads only what its hash covers *)
Lemma registry_complete_partial :
  forall r, In r registry -> known_incomplete r = false ->
            uses_declared r = true.
Proof.
  assert (H : forallb (fun r => known_incomplete r || uses_declared r)
                registry = true) by (vm_compute; reflexivity).
  intros r Hin Hk. rewrite forallb_forall in H. specialize (H r Hin).
  rewrite Hk in H. exact H.
Qed.

(* ... and the full statement is false of the table as it is today *)
Lemma registry_complete_refuted :
  exists r, In r registry /\ uses_declared r = false.
Proof.
  destruct (find (fun r => negb (uses_declared r)) registry) as [r|] eqn:E.
  - apply find_some in E. destruct E as [Hin Hn]. exists r. split; [exact Hin|].
    now apply negb_true_iff in Hn.
  - exfalso. revert E. vm_compute. discriminate.
Qed.

(* recipes whose hashes can coincide compute the same thing *)
Lemma registry_collide_ok : collide_ok registry = true.
Proof. vm_compute. reflexivity. Qed.

(* ---- emodulus: documented precedence C > B > A decides the recipe ---- *)
Definition combo := (bool * bool * bool * bool * bool * bool)%type.

Definition prec_ok (medv : Z) (c : combo) : bool :=
  let '(lut, med, tmp, visc, vm, ht) := c in
  sel_scenario registry (emod_base lut med tmp visc vm ht medv)
  =? spec_scenario lut med tmp visc ht.

Definition combo_eqb (x y : combo) : bool :=
  let '(a, b, c, d, e, f) := x in
  let '(a', b', c', d', e', f') := y in
  eqb a a' && eqb b b' && eqb c c' && eqb d d' && eqb e e' && eqb f f'.

Lemma combo_eqb_eq : forall x y, combo_eqb x y = true -> x = y.
Proof.
  intros [[[[[a b] c] d] e] f] [[[[[a' b'] c'] d'] e'] f'].
  destruct a, a', b, b', c, c', d, d', e, e', f, f';
    simpl; intros H; try discriminate H; reflexivity.
Qed.

Lemma bools6_all : forall c : combo, In c bools6.
Proof.
  intros c.
  assert (H : existsb (combo_eqb c) bools6 = true).
  { destruct c as [[[[[a b] c] d] e] f].
    destruct a, b, c, d, e, f; vm_compute; reflexivity. }
  apply existsb_exists in H. destruct H as [x [Hin Heq]].
  apply combo_eqb_eq in Heq. now subst.
Qed.

Lemma emodulus_precedence :
  forall (lut med tmp visc vm ht : bool) (medv : Z),
    medv = 1 \/ medv = 4 ->
    sel_scenario registry (emod_base lut med tmp visc vm ht medv)
    = spec_scenario lut med tmp visc ht.
Proof.
  intros lut med tmp visc vm ht medv Hm.
  assert (H : forallb (prec_ok 1) bools6 && forallb (prec_ok 4) bools6 = true)
    by (vm_compute; reflexivity).
  apply andb_prop in H as [H1 H4]. rewrite forallb_forall in H1, H4.
  pose proof (bools6_all (lut, med, tmp, visc, vm, ht)) as Hin.
  destruct Hm as [-> | ->].
  - specialize (H1 _ Hin). unfold prec_ok in H1. now apply Z.eqb_eq in H1.
  - specialize (H4 _ Hin). unfold prec_ok in H4. now apply Z.eqb_eq in H4.
Qed.

(* the inputs compute_emodulus really uses are those of the chosen recipe's
   scenario -- provided no viscosity is given next to a medium *)
Definition taken (c : combo) (medv : Z) : Z :=
  let '(lut, med, tmp, visc, vm, ht) := c in
  nth 2 (emod_row registry (lut, med, tmp, visc, vm, ht, medv)) 0.

Definition taken_guard (c : combo) : bool :=
  let '(lut, med, tmp, visc, vm, ht) := c in negb (visc && med).

Lemma emodulus_inputs_partial :
  forall c : combo, taken_guard c = true ->
    let '(lut, med, tmp, visc, vm, ht) := c in
    spec_scenario lut med tmp visc ht <> 0 ->
    taken c 1 = spec_scenario lut med tmp visc ht.
Proof.
  intros c.
  assert (H : forallb (fun c : combo =>
     let '(lut, med, tmp, visc, vm, ht) := c in
     negb (taken_guard c) || (spec_scenario lut med tmp visc ht =? 0)
     || (taken c 1 =? spec_scenario lut med tmp visc ht)) bools6 = true)
    by (vm_compute; reflexivity).
  rewrite forallb_forall in H. specialize (H c (bools6_all c)).
  destruct c as [[[[[lut med] tmp] visc] vm] ht]. intros Hg Hs.
  rewrite Hg in H. simpl in H.
  destruct (spec_scenario lut med tmp visc ht =? 0) eqn:E.
  - apply Z.eqb_eq in E. contradiction.
  - simpl in H. now apply Z.eqb_eq in H.
Qed.

(* finding C06-emodulus-available-unreadable: case-A ingredients plus a
   viscosity: listed as available, reading raises ValueError *)
Lemma available_iff_readable_refuted :
  exists b : base,
    contains AF registry (fresh b) f_emodulus = true
    /\ snd (read RF registry (fresh b) f_emodulus) = Err e_value.
Proof.
  exists (emod_base true true false true true true 1).
  vm_compute. split; reflexivity.
Qed.

(* finding C06-cached-stays-listed: compute time, delete the frame rate *)
Lemma contains_fresh_refuted :
  exists (b : base) (ops : list op) (f : Z),
    let st := run_state registry (fresh b) ops in
    contains AF registry st f = true
    /\ contains AF registry (clear st) f = false
    /\ snd (read RF registry st f) = Err e_key.
Proof.
  exists (mkBase [(f_frame, 0)] [] [(k_frame_rate, 1)]),
         [Read f_time; DelCfg k_frame_rate], f_time.
  vm_compute. repeat split; reflexivity.
Qed.

(* findings C06-bright-bgoff / -mlclass-score-data / -ctc-undeclared-
   crosstalk / -emodulus-stale-viscosity: a read that returns a value a fresh
   dataset would not compute.  Witness: 2-channel crosstalk correction,
   then "crosstalk fl13" changes. *)
Lemma read_fresh_refuted :
  exists (b : base) (ops : list op) (f : Z),
    let st := run_state registry (fresh b) ops in
    exists v v0, snd (read RF registry st f) = Ok v
                 /\ snd (read RF registry (clear st) f) = Ok v0 /\ v <> v0.
Proof.
  exists (mkBase [(f_fl1, 0); (f_fl2, 0)] [] [(11, 1); (13, 1); (15, 1)]),
         [Read 108; SetCfg 15 2], 108.
  vm_compute. do 2 eexists. repeat split; try reflexivity. discriminate.
Qed.
