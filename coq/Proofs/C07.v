(* Proofs for C07 (basin-provided features). *)
From Coq Require Import ZArith List Bool Lia ZifyBool ZifyNat.
From Verif Require Import Model.C07.
Import ListNotations.
Open Scope Z_scope.

(* ------------------------------------------------------------------ *)
(* gather                                                              *)
(* ------------------------------------------------------------------ *)
Lemma gather_length {A} (l : list A) idx r :
  gather l idx = Some r -> length r = length idx.
Proof.
  revert r; induction idx as [|i idx IH]; intros r H; simpl in H.
  - now inversion H.
  - destruct (nthz l i); [|discriminate].
    destruct (gather l idx) as [t|]; [|discriminate].
    inversion H; subst; simpl. now rewrite (IH t eq_refl).
Qed.

Lemma gather_zlen {A} (l : list A) idx r :
  gather l idx = Some r -> zlen r = zlen idx.
Proof. intros H; unfold zlen; now rewrite (gather_length _ _ _ H). Qed.

Lemma loop_gather {A} (feat : list A) js : loop A feat js = gather feat js.
Proof.
  induction js as [|j js IH]; simpl; [reflexivity|].
  rewrite IH. destruct (nthz feat j); [|reflexivity].
  now destruct (gather feat js).
Qed.

Lemma nth_error_gather {A} (feat : list A) bmap mapped :
  gather feat bmap = Some mapped ->
  forall k, nth_error mapped k =
            match nth_error bmap k with
            | Some j => nthz feat j
            | None => None
            end.
Proof.
  revert mapped; induction bmap as [|j bmap IH]; intros mapped H k; simpl in H.
  - inversion H; subst. now destruct k.
  - destruct (nthz feat j) as [a|] eqn:Ej; [|discriminate].
    destruct (gather feat bmap) as [t|]; [|discriminate].
    inversion H; subst. destruct k as [|k]; simpl; [now rewrite Ej|].
    now apply IH.
Qed.

Lemma nthz_gather {A} (feat : list A) bmap mapped :
  gather feat bmap = Some mapped ->
  forall p, nthz mapped p =
            match nthz bmap p with
            | Some j => nthz feat j
            | None => None
            end.
Proof.
  intros H p.
  assert (E1 : nthz mapped p
               = if p <? 0 then None else nth_error mapped (Z.to_nat p))
    by reflexivity.
  assert (E2 : nthz bmap p
               = if p <? 0 then None else nth_error bmap (Z.to_nat p))
    by reflexivity.
  rewrite E1, E2. destruct (p <? 0); [reflexivity|].
  now apply nth_error_gather.
Qed.

(* composition of index maps *)
Lemma gather_gather {A} (feat : list A) bmap mapped :
  gather feat bmap = Some mapped ->
  forall ps, gather mapped ps =
             match gather bmap ps with
             | Some js => gather feat js
             | None => None
             end.
Proof.
  intros H ps; induction ps as [|p ps IH]; simpl; [reflexivity|].
  rewrite (nthz_gather _ _ _ H p), IH.
  destruct (nthz bmap p) as [j|]; [|reflexivity].
  destruct (gather bmap ps) as [js|]; simpl.
  - reflexivity.
  - now destruct (nthz feat j).
Qed.

Lemma nthz_some_lt {A} (l : list A) p a :
  nthz l p = Some a -> 0 <= p < zlen l.
Proof.
  unfold nthz, zlen; destruct (p <? 0) eqn:E; [discriminate|].
  intros H. assert (Hn : nth_error l (Z.to_nat p) <> None) by congruence.
  apply nth_error_Some in Hn. lia.
Qed.

Lemma nthz_lt_some {A} (l : list A) p :
  0 <= p < zlen l -> exists a, nthz l p = Some a.
Proof.
  unfold nthz, zlen; intros H. destruct (p <? 0) eqn:E; [lia|].
  destruct (nth_error l (Z.to_nat p)) as [a|] eqn:En; [now exists a|].
  apply nth_error_None in En. lia.
Qed.

(* if the composed read works then the composed map exists *)
Lemma gather_gather_ex {A} (feat : list A) bmap mapped ps out :
  gather feat bmap = Some mapped ->
  gather mapped ps = Some out ->
  exists js, gather bmap ps = Some js /\ gather feat js = Some out.
Proof.
  intros H Hout. rewrite (gather_gather _ _ _ H) in Hout.
  destruct (gather bmap ps) as [js|]; [|discriminate]. now exists js.
Qed.

(* ------------------------------------------------------------------ *)
(* numpy indexing                                                      *)
(* ------------------------------------------------------------------ *)
Lemma positions_single n ix ps :
  positions n ix = Some (true, ps) -> exists p, ps = [p].
Proof.
  unfold positions; destruct ix as [i|x y s|m|idx].
  - destruct (norm_int n i) as [j|]; [|discriminate].
    intros E; inversion E; now exists j.
  - destruct ((match s with Some v => v | None => 1 end) =? 0);
      [discriminate|].
    destruct (0 <? (match s with Some v => v | None => 1 end)); discriminate.
  - destruct (zlen m =? n); discriminate.
  - destruct (norm_all n idx); discriminate.
Qed.

Lemma np_index_gather {A} (feat : list A) bmap mapped ix :
  gather feat bmap = Some mapped ->
  np_index mapped ix =
  match np_index bmap ix with
  | RErr => RErr
  | ROne j => match nthz feat j with Some a => ROne a | None => RErr end
  | RMany js => match gather feat js with Some l => RMany l | None => RErr end
  end.
Proof.
  intros H. unfold np_index. rewrite (gather_zlen _ _ _ H).
  destruct (positions (zlen bmap) ix) as [[single ps]|] eqn:Ep;
    [|reflexivity].
  rewrite (gather_gather _ _ _ H ps).
  destruct (gather bmap ps) as [js|] eqn:Ejs; [|reflexivity].
  destruct single.
  - destruct (positions_single _ _ _ Ep) as [p ->].
    pose proof (gather_length _ _ _ Ejs) as Hl.
    destruct js as [|j [|j2 js]]; simpl in Hl; try discriminate.
    simpl. now destruct (nthz feat j).
  - reflexivity.
Qed.

Lemma np_index_one_is_int {A} (l : list A) ix a :
  np_index l ix = ROne a -> exists i, ix = IInt i.
Proof.
  unfold np_index, positions. destruct ix as [i|x y s|m|idx].
  - intros _; now exists i.
  - destruct ((match s with Some v => v | None => 1 end) =? 0);
      [discriminate|].
    destruct (0 <? (match s with Some v => v | None => 1 end));
      match goal with |- context [gather l ?z] => destruct (gather l z) end;
      discriminate.
  - destruct (zlen m =? zlen l); [|discriminate].
    destruct (gather l (where_ m)); discriminate.
  - destruct (norm_all (zlen l) idx); [|discriminate].
    match goal with |- context [gather l ?z] => destruct (gather l z) end;
      discriminate.
Qed.

Lemma np_index_int_not_many {A} (l : list A) i js :
  np_index l (IInt i) <> RMany js.
Proof.
  unfold np_index, positions. destruct (norm_int (zlen l) i); [|discriminate].
  destruct (gather l [z]) as [[|a t]|]; discriminate.
Qed.

Lemma gather_zrange {A} (pre r : list A) :
  gather (pre ++ r) (zrange (length r) (zlen pre) 1) = Some r.
Proof.
  revert pre; induction r as [|a r IH]; intros pre; simpl; [reflexivity|].
  assert (Hn : nthz (pre ++ a :: r) (zlen pre) = Some a).
  { unfold nthz, zlen. destruct (Z.of_nat (length pre) <? 0) eqn:E; [lia|].
    rewrite Nat2Z.id, nth_error_app2 by lia.
    now rewrite Nat.sub_diag. }
  rewrite Hn.
  specialize (IH (pre ++ [a])). rewrite <- app_assoc in IH. simpl in IH.
  replace (zlen (pre ++ [a])) with (zlen pre + 1) in IH
    by (unfold zlen; rewrite app_length; simpl; lia).
  now rewrite IH.
Qed.

Lemma np_index_full {A} (l : list A) :
  np_index l (ISlice None None None) = RMany l.
Proof.
  unfold np_index, positions, clip_bound. simpl.
  assert (Hc : (if zlen l <=? 0 then 0 else (zlen l - 0 + 1 - 1) / 1)
               = zlen l).
  { destruct (zlen l <=? 0) eqn:E; [unfold zlen in *; lia|].
    rewrite Z.div_1_r. lia. }
  rewrite Hc. unfold zlen at 1. rewrite Nat2Z.id.
  pose proof (gather_zrange [] l) as G. simpl in G.
  change (zlen (@nil A)) with 0 in G.
  now rewrite G.
Qed.

(* ------------------------------------------------------------------ *)
(* the three access routes of BasinProxyFeature                        *)
(* ------------------------------------------------------------------ *)
Definition cache_ok {A} (is_scalar : bool) (mapped : list A)
           (cache : option (list A)) : Prop :=
  cache = None \/ (is_scalar = true /\ cache = Some mapped).

Lemma proxy_routes_agree {A} (feat : list A) bmap is_scalar mapped :
  gather feat bmap = Some mapped ->
  forall cache ix,
    cache_ok is_scalar mapped cache ->
    snd (proxy_getitem A feat bmap is_scalar cache ix) = np_index mapped ix
    /\ cache_ok is_scalar mapped
                (fst (proxy_getitem A feat bmap is_scalar cache ix)).
Proof.
  intros H cache ix Hc.
  assert (Hgen :
    forall c, cache_ok is_scalar mapped c ->
      (c = None -> forall i, ix <> IInt i) \/ (c <> None) ->
      (if negb is_scalar
       then (c, match (if is_full ix then RMany bmap else np_index bmap ix)
                with
                | RMany js => match loop A feat js with
                              | Some l => RMany l
                              | None => RErr
                              end
                | _ => RErr
                end)
       else let '(c', arr) := proxy_array A feat bmap is_scalar c in
            (c', match arr with
                 | Some l => np_index l ix
                 | None => RErr
                 end)) =
      (fst (if negb is_scalar
       then (c, match (if is_full ix then RMany bmap else np_index bmap ix)
                with
                | RMany js => match loop A feat js with
                              | Some l => RMany l
                              | None => RErr
                              end
                | _ => RErr
                end)
       else let '(c', arr) := proxy_array A feat bmap is_scalar c in
            (c', match arr with
                 | Some l => np_index l ix
                 | None => RErr
                 end)), np_index mapped ix)
      /\ cache_ok is_scalar mapped
           (fst (if negb is_scalar
       then (c, match (if is_full ix then RMany bmap else np_index bmap ix)
                with
                | RMany js => match loop A feat js with
                              | Some l => RMany l
                              | None => RErr
                              end
                | _ => RErr
                end)
       else let '(c', arr) := proxy_array A feat bmap is_scalar c in
            (c', match arr with
                 | Some l => np_index l ix
                 | None => RErr
                 end)))).
  { intros c Hok Hix. destruct is_scalar eqn:Es; simpl negb; cbv iota.
    - (* scalar: through __array__ *)
      unfold proxy_array.
      destruct Hok as [->|[_ ->]].
      + rewrite H. simpl. split; [reflexivity|]. right; now split.
      + rewrite loop_gather, H. simpl. split; [reflexivity|].
        right; now split.
    - (* image, mask, ...: per-index loop; the cache is never set *)
      destruct Hok as [->|[Hs _]]; [|discriminate].
      simpl. split; [|now left]. f_equal.
      destruct (is_full ix) eqn:Ef.
      + destruct ix as [| [|] [|] [|] | |]; try discriminate.
        rewrite np_index_full, loop_gather, H. reflexivity.
      + rewrite (np_index_gather _ _ _ ix H).
        destruct (np_index bmap ix) as [|j|js] eqn:En.
        * reflexivity.
        * destruct (np_index_one_is_int _ _ _ En) as [i ->].
          destruct Hix as [Hix|Hix]; [|congruence].
          exfalso; now apply (Hix eq_refl i).
        * now rewrite loop_gather. }
  unfold proxy_getitem.
  destruct cache as [c|].
  - (* cache set *)
    destruct (Hgen (Some c) Hc) as [E1 E2]; [right; discriminate|].
    destruct ix; (rewrite E1; simpl; split; [reflexivity|]; exact E2).
  - destruct ix as [i|x y s|m|idx].
    + (* single index, cheap route *)
      simpl. split; [|now left].
      rewrite (np_index_gather _ _ _ (IInt i) H).
      destruct (np_index bmap (IInt i)) as [|j|js] eqn:En; try reflexivity.
      exfalso; exact (np_index_int_not_many _ _ _ En).
    + destruct (Hgen None Hc) as [E1 E2]; [left; intros _ i; discriminate|].
      rewrite E1; simpl; split; [reflexivity|exact E2].
    + destruct (Hgen None Hc) as [E1 E2]; [left; intros _ i; discriminate|].
      rewrite E1; simpl; split; [reflexivity|exact E2].
    + destruct (Hgen None Hc) as [E1 E2]; [left; intros _ i; discriminate|].
      rewrite E1; simpl; split; [reflexivity|exact E2].
Qed.

(* in-range maps can always be read *)
Lemma gather_in_range {A} (l : list A) m :
  in_range (zlen l) m = true -> exists d, gather l m = Some d.
Proof.
  induction m as [|j m IH]; simpl; intros H; [now exists []|].
  apply andb_prop in H as [Hj Hm]. destruct (IH Hm) as [t Ht].
  destruct (nthz_lt_some l j) as [a Ha]; [lia|].
  rewrite Ha, Ht. now exists (a :: t).
Qed.

(* ------------------------------------------------------------------ *)
(* store_basin: allocation and reuse of basinmap features              *)
(* ------------------------------------------------------------------ *)
Lemma list_eqb_eq a b : list_eqb a b = true <-> a = b.
Proof.
  revert b; induction a as [|x a IH]; intros [|y b]; simpl; split;
    try discriminate; try reflexivity; intros H.
  - apply andb_prop in H as [H1 H2]. apply IH in H2. f_equal; [lia|assumption].
  - inversion H; subst. apply andb_true_intro; split; [lia|now apply IH].
Qed.

Lemma set_nth_length {B} k (v : B) l : length (set_nth k v l) = length l.
Proof.
  revert k; induction l as [|x l IH]; intros [|k]; simpl; auto.
Qed.

Lemma nth_set_nth_same {B} k (v d : B) l :
  (k < length l)%nat -> nth k (set_nth k v l) d = v.
Proof.
  revert k; induction l as [|x l IH]; intros [|k] H; simpl in *;
    try lia; auto. apply IH; lia.
Qed.

Lemma nth_set_nth_other {B} k j (v d : B) l :
  j <> k -> nth j (set_nth k v l) d = nth j l d.
Proof.
  revert k j; induction l as [|x l IH]; intros [|k] [|j] H; simpl;
    try reflexivity; try congruence. apply IH; congruence.
Qed.

Lemma alloc_loop_sound cands slots m k slots' :
  (forall c, In c cands -> (c < length slots)%nat) ->
  alloc_loop cands slots m = Some (k, slots') ->
  In k cands /\ slot slots' k = Some m /\ length slots' = length slots /\
  (forall j m0, slot slots j = Some m0 -> slot slots' j = Some m0).
Proof.
  induction cands as [|c cands IH]; simpl; intros Hc H; [discriminate|].
  destruct (slot slots c) as [m'|] eqn:Es.
  - destruct (list_eqb m' m) eqn:Ee.
    + inversion H; subst. apply list_eqb_eq in Ee; subst.
      repeat split; auto.
    + destruct (IH (fun c0 Hin => Hc c0 (or_intror Hin)) H)
        as (Hin & Hs & Hl & Hp).
      repeat split; auto.
  - inversion H; subst. unfold slot in *.
    repeat split; auto.
    + apply nth_set_nth_same. apply Hc; now left.
    + apply set_nth_length.
    + intros j m0 Hj. rewrite nth_set_nth_other; [assumption|].
      intros ->. congruence.
Qed.

(* a reused or newly written basinmap feature holds the requested map, is
   one of basinmap0..9, and no map written earlier is changed *)
Lemma alloc_sound slots m k slots' :
  length slots = 10%nat ->
  alloc slots m = Some (k, slots') ->
  (k < 10)%nat /\ slot slots' k = Some m /\ length slots' = 10%nat /\
  (forall j m0, slot slots j = Some m0 -> slot slots' j = Some m0).
Proof.
  intros Hl H. unfold alloc in H.
  apply alloc_loop_sound in H.
  - destruct H as (Hin & Hs & Hl' & Hp). apply in_seq in Hin.
    repeat split; auto; lia.
  - intros c Hc. apply in_seq in Hc. lia.
Qed.

Lemma alloc_named_sound slots m k0 k slots' :
  (k0 < length slots)%nat ->
  alloc_named k0 slots m = Some (k, slots') ->
  k = k0 /\ slot slots' k = Some m /\ length slots' = length slots /\
  (forall j m0, slot slots j = Some m0 -> slot slots' j = Some m0).
Proof.
  unfold alloc_named; intros Hk H.
  destruct (slot slots k0) as [m'|] eqn:Es.
  - destruct (list_eqb m' m) eqn:Ee; [|discriminate].
    inversion H; subst. apply list_eqb_eq in Ee; subst. repeat split; auto.
  - inversion H; subst. unfold slot in *. repeat split.
    + now apply nth_set_nth_same.
    + apply set_nth_length.
    + intros j m0 Hj. rewrite nth_set_nth_other; [assumption|].
      intros ->. congruence.
Qed.

(* the allocation only fails when all ten features hold other maps *)
Lemma alloc_loop_fails cands slots m :
  alloc_loop cands slots m = None ->
  forall c, In c cands -> exists m', slot slots c = Some m' /\ m' <> m.
Proof.
  induction cands as [|c0 cands IH]; simpl; intros H c Hc; [contradiction|].
  destruct (slot slots c0) as [m'|] eqn:Es; [|discriminate].
  destruct (list_eqb m' m) eqn:Ee; [discriminate|].
  destruct Hc as [<-|Hc].
  - exists m'; split; [assumption|]. intros ->.
    assert (list_eqb m m = true) by now apply list_eqb_eq. congruence.
  - now apply IH.
Qed.

Lemma alloc_fails slots m :
  alloc slots m = None ->
  forall c, (c < 10)%nat -> exists m', slot slots c = Some m' /\ m' <> m.
Proof.
  intros H c Hc. apply (alloc_loop_fails _ _ _ H). apply in_seq. lia.
Qed.

(* ------------------------------------------------------------------ *)
(* map composition on export                                           *)
(* ------------------------------------------------------------------ *)
Lemma mask_gather {A} (l : list A) filt m d :
  gather l m = Some d ->
  gather l (mask filt m) = Some (mask filt d).
Proof.
  revert m d; induction filt as [|b filt IH]; intros m d H; simpl.
  - reflexivity.
  - destruct m as [|j m]; simpl in H.
    + inversion H; subst. reflexivity.
    + destruct (nthz l j) as [a|] eqn:Ej; [|discriminate].
      destruct (gather l m) as [t|] eqn:Et; [|discriminate].
      inversion H; subst. destruct b; simpl.
      * rewrite Ej, (IH m t Et). reflexivity.
      * apply IH; assumption.
Qed.

Lemma where_gather_gen {A} (pre l : list A) filt :
  length l = length filt ->
  gather (pre ++ l) (where_from (zlen pre) filt) = Some (mask filt l).
Proof.
  revert pre l; induction filt as [|b filt IH]; intros pre l Hl; simpl.
  - reflexivity.
  - destruct l as [|a l]; simpl in Hl; [discriminate|].
    assert (Hn : nthz (pre ++ a :: l) (zlen pre) = Some a).
    { unfold nthz, zlen. destruct (Z.of_nat (length pre) <? 0) eqn:E; [lia|].
      rewrite Nat2Z.id, nth_error_app2 by lia. now rewrite Nat.sub_diag. }
    specialize (IH (pre ++ [a]) l). rewrite <- app_assoc in IH. simpl in IH.
    replace (zlen (pre ++ [a])) with (zlen pre + 1) in IH
      by (unfold zlen; rewrite app_length; simpl; lia).
    destruct b; simpl.
    + rewrite Hn, IH by lia. reflexivity.
    + apply IH; lia.
Qed.

(* np.where(filt)[0] selects exactly the events kept by the filter *)
Lemma where_gather {A} (l : list A) filt :
  zlen l = zlen filt -> gather l (where_ filt) = Some (mask filt l).
Proof.
  intros H. apply (where_gather_gen [] l filt). unfold zlen in H. lia.
Qed.

Lemma mask_length_count {A} (l : list A) filt :
  zlen l = zlen filt -> zlen (mask filt l) = count_true filt.
Proof.
  intros H. unfold count_true.
  pose proof (where_gather l filt H) as G.
  apply gather_zlen in G. lia.
Qed.

(* one export step: the new map shows, of the basin's data, exactly the
   filtered events of what the source showed *)
Lemma export_map_sound basin_data m src_data filt :
  view_through basin_data m = Some src_data ->
  zlen src_data = zlen filt ->
  exists m', export_map filt m = Some m' /\
             gather basin_data m' = Some (mask filt src_data).
Proof.
  intros Hv Hl. destruct m as [mm|]; simpl in *.
  - rewrite <- (gather_zlen _ _ _ Hv), Hl, Z.eqb_refl.
    exists (mask filt mm); split; [reflexivity|]. now apply mask_gather.
  - inversion Hv; subst. exists (where_ filt); split; [reflexivity|].
    now apply where_gather.
Qed.

(* hierarchy children (fixed code): the upstream map is first translated
   from root events to child events *)
Lemma hier_map_sound basin_data m root_data idx_root child_data :
  view_through basin_data m = Some root_data ->
  gather root_data idx_root = Some child_data ->
  exists m', hier_map idx_root m = Some m' /\
             gather basin_data m' = Some child_data.
Proof.
  intros Hv Hc. destruct m as [mm|]; simpl in *.
  - destruct (gather_gather_ex _ _ _ _ _ Hv Hc) as [js [H1 H2]].
    exists js; now split.
  - inversion Hv; subst. exists idx_root; now split.
Qed.

(* chains of filtered exports of any depth *)
Lemma chain_feature_gen basin_data filts :
  forall m d,
    view_through basin_data m = Some d ->
    (m = None -> filts <> []) ->
    chain_ok (zlen d) filts = true ->
    exists m', chain_map m filts = Some m' /\
               gather basin_data m' = Some (chain_data d filts).
Proof.
  induction filts as [|f filts IH]; intros m d Hv Hne Hok; simpl in *.
  - destruct m as [mm|]; [|exfalso; now apply Hne].
    exists mm; split; [reflexivity|exact Hv].
  - apply andb_prop in Hok as [Hf Hok].
    destruct (export_map_sound basin_data m d f Hv) as [m' [E G]]; [lia|].
    rewrite E.
    apply (IH (Some m') (mask f d)).
    + exact G.
    + discriminate.
    + rewrite mask_length_count by lia. exact Hok.
Qed.

Lemma chain_feature (origin : list Z) f0 filts :
  zlen f0 = zlen origin ->
  chain_ok (count_true f0) filts = true ->
  exists m', chain_map None (f0 :: filts) = Some m' /\
             gather origin m' = Some (chain_data origin (f0 :: filts)).
Proof.
  intros H0 Hok. apply (chain_feature_gen origin (f0 :: filts) None origin).
  - reflexivity.
  - discriminate.
  - simpl. rewrite Hok. apply andb_true_intro; split; [lia|reflexivity].
Qed.

(* ------------------------------------------------------------------ *)
(* lookup order                                                        *)
(* ------------------------------------------------------------------ *)
Lemma innate_precedence st fid fl f d fu :
  get_file st fid = Some fl ->
  assoc f (f_innate fl) = Some d ->
  lookup (S fu) st fid f = Some (ODirect d).
Proof. intros Hg Ha. simpl. now rewrite Hg, Ha. Qed.

Lemma innate_precedence_resolve st fid fl f d :
  get_file st fid = Some fl ->
  assoc f (f_innate fl) = Some d ->
  resolve st fid f = Some d.
Proof.
  intros Hg Ha. unfold resolve, fuel_of.
  now rewrite (innate_precedence st fid fl f d (length st) Hg Ha).
Qed.

(* ------------------------------------------------------------------ *)
(* non-vacuity                                                         *)
(* ------------------------------------------------------------------ *)
Example ex_routes :
  let feat := [10; 11; 12; 13] in
  let bmap := [3; 3; 0; 2; 0] in       (* repeats, not monotone *)
  gather feat bmap = Some [13; 13; 10; 12; 10] /\
  snd (proxy_getitem Z feat bmap true None (IInt (-2))) = ROne 12 /\
  snd (proxy_getitem Z feat bmap true (Some [13; 13; 10; 12; 10])
                     (ISlice (Some 1) None (Some 2))) = RMany [13; 12] /\
  snd (proxy_getitem Z feat bmap false None
                     (IBool [true; false; false; false; true]))
  = RMany [13; 10].
Proof. vm_compute. repeat split. Qed.

Example ex_alloc :
  exists s1 s2 s3,
    alloc empty_slots [1; 2] = Some (0%nat, s1) /\
    alloc s1 [2; 1] = Some (1%nat, s2) /\
    alloc s2 [1; 2] = Some (0%nat, s3) /\ s3 = s2.
Proof. repeat eexists; vm_compute; reflexivity. Qed.

Example ex_chain :
  let origin := [100; 101; 102; 103; 104; 105] in
  let f0 := [true; false; true; true; false; true] in
  let f1 := [false; true; true; true] in
  let f2 := [true; false; true] in
  chain_ok (count_true f0) [f1; f2] = true /\
  chain_map None [f0; f1; f2] = Some [2; 5] /\
  chain_data origin [f0; f1; f2] = [102; 105].
Proof. vm_compute. repeat split. Qed.

Example ex_hier :
  (* root shows basin events [4;0;2;2]; the child holds root events 1 and 3 *)
  hier_map [1; 3] (Some [4; 0; 2; 2]) = Some [0; 2] /\
  child2root [[true; true; false; true]; [false; true; true]] = Some [1; 3].
Proof. vm_compute. repeat split. Qed.

(* ------------------------------------------------------------------ *)
(* sequences of store_basin calls                                      *)
(* ------------------------------------------------------------------ *)
Lemma store_basin_sound fl sb fl' :
  length (f_slots fl) = 10%nat ->
  (match sb with
   | SBFile _ (Some _) (Some k) _ => 0 <= k < 10
   | _ => True
   end) ->
  store_basin fl sb = Some fl' ->
  length (f_slots fl') = 10%nat /\
  f_n fl' = f_n fl /\ f_innate fl' = f_innate fl /\
  (forall j m0, slot (f_slots fl) j = Some m0 ->
                slot (f_slots fl') j = Some m0) /\
  exists b, f_basins fl' = f_basins fl ++ [b] /\
            slot_holds (f_slots fl') b (sb_map sb) /\
            b_internal b = (match sb with SBInternal _ _ => true
                                     | _ => false end) /\
            (match sb with
             | SBInternal d _ => b_int b = d
             | SBFile t _ _ _ => b_target b = Z.to_nat t
             end).
Proof.
  intros Hl Hk H. unfold store_basin in H.
  destruct sb as [data m|t [mm|] name feats]; simpl in *.
  - destruct (alloc (f_slots fl) m) as [[k slots']|] eqn:Ea; [|discriminate].
    inversion H; subst; simpl.
    destruct (alloc_sound _ _ _ _ Hl Ea) as (Hk10 & Hs & Hl' & Hp).
    repeat split; auto. eexists; repeat split; simpl; eauto.
  - destruct name as [k0|].
    + destruct (alloc_named (Z.to_nat k0) (f_slots fl) mm)
        as [[k slots']|] eqn:Ea; [|discriminate].
      inversion H; subst; simpl.
      assert (Hlt : (Z.to_nat k0 < length (f_slots fl))%nat) by lia.
      destruct (alloc_named_sound _ _ _ _ _ Hlt Ea)
        as (-> & Hs & Hl' & Hp).
      repeat split; auto; try lia. eexists; repeat split; simpl; eauto.
    + destruct (alloc (f_slots fl) mm) as [[k slots']|] eqn:Ea;
        [|discriminate].
      inversion H; subst; simpl.
      destruct (alloc_sound _ _ _ _ Hl Ea) as (Hk10 & Hs & Hl' & Hp).
      repeat split; auto. eexists; repeat split; simpl; eauto.
  - inversion H; subst; simpl. repeat split; auto.
    eexists; repeat split; simpl; eauto.
Qed.

Definition name_ok (sb : sbasin) : Prop :=
  match sb with
  | SBFile _ (Some _) (Some k) _ => 0 <= k < 10
  | _ => True
  end.

(* After any sequence of store_basin calls every basin definition written
   (earlier ones included) refers to a basinmap feature that holds exactly
   the map that was requested for it. *)
Lemma store_basins_sound sbs :
  forall fl fl',
    length (f_slots fl) = 10%nat ->
    Forall name_ok sbs ->
    store_basins fl sbs = Some fl' ->
    length (f_slots fl') = 10%nat /\
    f_innate fl' = f_innate fl /\
    (forall j m0, slot (f_slots fl) j = Some m0 ->
                  slot (f_slots fl') j = Some m0) /\
    exists bs, f_basins fl' = f_basins fl ++ bs /\
               Forall2 (fun sb b => slot_holds (f_slots fl') b (sb_map sb))
                       sbs bs.
Proof.
  induction sbs as [|sb sbs IH]; intros fl fl' Hl Hn H; simpl in H.
  - inversion H; subst. repeat split; auto.
    exists []; split; [now rewrite app_nil_r|constructor].
  - destruct (store_basin fl sb) as [fl1|] eqn:E1; [|discriminate].
    inversion Hn as [|? ? Hn1 Hn2]; subst.
    destruct (store_basin_sound _ _ _ Hl Hn1 E1)
      as (Hl1 & _ & Hi1 & Hp1 & b & Hb & Hh & _).
    destruct (IH fl1 fl' Hl1 Hn2 H) as (Hl' & Hi' & Hp' & bs & Hbs & HF).
    repeat split; auto.
    + congruence.
    + exists (b :: bs); split.
      * rewrite Hbs, Hb, <- app_assoc. reflexivity.
      * constructor; [|assumption].
        unfold slot_holds in *. destruct (sb_map sb) as [mm|]; [|assumption].
        destruct Hh as [k [Hk Hs]]. exists k; split; auto.
Qed.

(* hierarchy child + filter: the complete translation of one upstream map *)
Lemma export_child_map_compose basin_data m root_data idx_root child_data
      filt :
  view_through basin_data m = Some root_data ->
  gather root_data idx_root = Some child_data ->
  zlen child_data = zlen filt ->
  exists m1 m', hier_map idx_root m = Some m1 /\
                export_map filt (Some m1) = Some m' /\
                gather basin_data m' = Some (mask filt child_data).
Proof.
  intros Hv Hc Hl.
  destruct (hier_map_sound _ _ _ _ _ Hv Hc) as [m1 [E1 G1]].
  destruct (export_map_sound basin_data (Some m1) child_data filt G1 Hl)
    as [m' [E2 G2]].
  exists m1, m'; auto.
Qed.

(* ------------------------------------------------------------------ *)
(* lookup through any graph of sound basin definitions                 *)
(* ------------------------------------------------------------------ *)
Lemma first_some_In {B C} (f : B -> option C) l c :
  first_some f l = Some c -> exists x, In x l /\ f x = Some c.
Proof.
  induction l as [|x l IH]; simpl; [discriminate|].
  destruct (f x) as [c'|] eqn:E.
  - intros H; inversion H; subst. exists x; auto.
  - intros H. destruct (IH H) as [y [Hy Hf]]. exists y; auto.
Qed.

Lemma In_insert_sorted b x l : In x (insert_sorted b l) -> x = b \/ In x l.
Proof.
  induction l as [|y l IH]; simpl.
  - intros [->|[]]; auto.
  - destruct (bkey b <? bkey y); simpl.
    + intros [->|[->|H]]; auto.
    + intros [->|H]; auto. destruct (IH H); auto.
Qed.

Lemma In_sorted_basins x l : In x (sorted_basins l) -> In x l.
Proof.
  induction l as [|y l IH]; simpl; [auto|].
  intros H. apply In_insert_sorted in H as [->|H]; auto.
Qed.

Section SoundLookup.
  Variable truth : Z -> list Z.
  Variable omap : nat -> list Z.

  (* Whatever route the lookup takes (innate, internal, file basins in
     priority order, nested basins of any depth), a feature that can be read
     equals the origin's feature at the events the file stands for. *)
  Lemma lookup_sound st :
    store_sound truth omap st ->
    forall fuel fid f o d,
      lookup fuel st fid f = Some o ->
      materialize o = Some d ->
      gather (truth f) (omap fid) = Some d.
  Proof.
    intros Hst fuel; induction fuel as [|fu IH]; intros fid f o d Hl Hm;
      simpl in Hl; [discriminate|].
    destruct (get_file st fid) as [fl|] eqn:Eg; [|discriminate].
    destruct (Hst fid fl Eg) as (HI & HB & HN).
    destruct (assoc f (f_innate fl)) as [d0|] eqn:Ea.
    - inversion Hl; subst. simpl in Hm. inversion Hm; subst. now apply HI.
    - set (attempt := fun b : bdef =>
              if provides fu st b f
              then match (if b_internal b then assoc f (b_int b)
                          else match lookup fu st (b_target b) f with
                               | Some o0 => materialize o0
                               | None => None
                               end) with
                   | Some d1 => match b_slot b with
                                | Some k => match slot (f_slots fl) k with
                                            | Some m => Some (OProxy d1 m)
                                            | None => None
                                            end
                                | None => Some (ODirect d1)
                                end
                   | None => None
                   end
              else None) in Hl.
      assert (Hat : forall b, In b (f_basins fl) -> attempt b = Some o ->
                              gather (truth f) (omap fid) = Some d).
      { intros b Hb Hab. unfold attempt in Hab.
        destruct (provides fu st b f); [|discriminate].
        destruct (b_internal b) eqn:Ei.
        - destruct (HN b Hb Ei) as (k & m & rows & Hk & Hs & Hr & Hd).
          destruct (assoc f (b_int b)) as [d1|] eqn:Ed; [|discriminate].
          rewrite Hk, Hs in Hab. inversion Hab; subst. simpl in Hm.
          specialize (Hd f d1 Ed).
          rewrite (gather_gather _ _ _ Hd m), Hr in Hm. exact Hm.
        - specialize (HB b Hb Ei).
          destruct (lookup fu st (b_target b) f) as [o0|] eqn:El;
            [|discriminate].
          destruct (materialize o0) as [d1|] eqn:Em0; [|discriminate].
          pose proof (IH _ _ _ _ El Em0) as Ht.
          destruct (b_slot b) as [k|].
          + destruct HB as [m [Hs Hg]]. rewrite Hs in Hab.
            inversion Hab; subst. simpl in Hm.
            rewrite (gather_gather _ _ _ Ht m), Hg in Hm. exact Hm.
          + inversion Hab; subst. simpl in Hm. inversion Hm; subst.
            rewrite HB. exact Ht. }
      assert (Hfs : forall l, (forall x, In x l -> In x (f_basins fl)) ->
                              first_some attempt l = Some o ->
                              gather (truth f) (omap fid) = Some d).
      { intros l Hsub Hf. destruct (first_some_In _ _ _ Hf) as [b [Hb Hab]].
        apply (Hat b); auto. }
      destruct (first_some attempt
                  (filter b_internal (sorted_basins (f_basins fl))))
        as [o1|] eqn:E1.
      + inversion Hl; subst. apply (Hfs _ (fun x Hx =>
          In_sorted_basins _ _ (proj1 (proj1 (filter_In _ _ _) Hx))) E1).
      + destruct (first_some attempt
                    (filter (fun b => negb (b_internal b))
                            (sorted_basins (f_basins fl))))
          as [o2|] eqn:E2.
        * inversion Hl; subst. apply (Hfs _ (fun x Hx =>
            In_sorted_basins _ _ (proj1 (proj1 (filter_In _ _ _) Hx))) E2).
        * apply (Hfs _ (fun x Hx => In_sorted_basins _ _ Hx) Hl).
  Qed.

  Lemma resolve_sound st fid f d :
    store_sound truth omap st ->
    resolve st fid f = Some d ->
    gather (truth f) (omap fid) = Some d.
  Proof.
    intros Hst H. unfold resolve in H.
    destruct (lookup (fuel_of st) st fid f) as [o|] eqn:El; [|discriminate].
    exact (lookup_sound st Hst _ _ _ _ _ El H).
  Qed.

  (* ... and so does every access pattern on the object handed out *)
  Lemma query_sound st fid f o mapped cache ix :
    store_sound truth omap st ->
    lookup (fuel_of st) st fid f = Some o ->
    gather (truth f) (omap fid) = Some mapped ->
    match o with
    | ODirect d => np_index d ix = np_index mapped ix
    | OProxy d m =>
        forall dm, gather d m = Some dm ->
        cache_ok (is_scalar_feat f) dm cache ->
        snd (proxy_getitem Z d m (is_scalar_feat f) cache ix)
        = np_index mapped ix
    end.
  Proof.
    intros Hst Hl Hg. destruct o as [d|d m].
    - pose proof (lookup_sound st Hst _ _ _ _ d Hl eq_refl) as H.
      rewrite Hg in H. now inversion H.
    - intros dm Hdm Hc.
      pose proof (lookup_sound st Hst _ _ _ _ dm Hl Hdm) as H.
      rewrite Hg in H. inversion H; subst.
      exact (proj1 (proxy_routes_agree d m _ dm Hdm cache ix Hc)).
  Qed.
End SoundLookup.

Example ex_store_sound :
  (* origin (file 0), a mapped referrer (file 1) and an internal basin *)
  let st := run_steps
      [SWrite 3 [(1, [10; 11; 12])] [];
       SWrite 4 [] [SBFile 0 (Some [2; 2; 0; 1]) None None;
                    SBInternal [(2, [70; 71])] [1; 1; 0; 0]]] in
  resolve st 1 1 = Some [12; 12; 10; 11] /\
  resolve st 1 2 = Some [71; 71; 70; 70].
Proof. vm_compute. split; reflexivity. Qed.

(* ------------------------------------------------------------------ *)
(* the whole export step keeps the store consistent                    *)
(* ------------------------------------------------------------------ *)
Definition basin_written (slots : list (option (list Z))) (sb : sbasin)
           (b : bdef) : Prop :=
  slot_holds slots b (sb_map sb) /\
  match sb with
  | SBInternal d _ => b_internal b = true /\ b_int b = d
  | SBFile t _ _ _ => b_internal b = false /\ b_target b = Z.to_nat t
  end.

Lemma store_basins_written sbs :
  forall fl fl',
    length (f_slots fl) = 10%nat ->
    Forall name_ok sbs ->
    store_basins fl sbs = Some fl' ->
    f_innate fl' = f_innate fl /\ f_n fl' = f_n fl /\
    length (f_slots fl') = 10%nat /\
    (forall j m0, slot (f_slots fl) j = Some m0 ->
                  slot (f_slots fl') j = Some m0) /\
    exists bs, f_basins fl' = f_basins fl ++ bs /\
               Forall2 (basin_written (f_slots fl')) sbs bs.
Proof.
  induction sbs as [|sb sbs IH]; intros fl fl' Hl Hn H; simpl in H.
  - inversion H; subst. repeat split; auto.
    exists []; split; [now rewrite app_nil_r|constructor].
  - destruct (store_basin fl sb) as [fl1|] eqn:E1; [|discriminate].
    inversion Hn as [|? ? Hn1 Hn2]; subst.
    destruct (store_basin_sound _ _ _ Hl Hn1 E1)
      as (Hl1 & Hn1' & Hi1 & Hp1 & b & Hb & Hh & Hint & Htgt).
    destruct (IH fl1 fl' Hl1 Hn2 H)
      as (Hi' & Hn' & Hl' & Hp' & bs & Hbs & HF).
    repeat split; auto; try congruence.
    exists (b :: bs); split.
    + rewrite Hbs, Hb, <- app_assoc. reflexivity.
    + constructor; [|assumption]. split.
      * unfold slot_holds in *. destruct (sb_map sb) as [mm|]; [|assumption].
        destruct Hh as [k [Hk Hs]]. exists k; split; auto.
      * destruct sb; auto.
Qed.

Lemma all_some_map_Forall {B C} (g : B -> option C) (P : B -> Prop)
      (Q : C -> Prop) :
  (forall x y, P x -> g x = Some y -> Q y) ->
  forall l r, Forall P l -> all_some (map g l) = Some r -> Forall Q r.
Proof.
  intros Hg l; induction l as [|x l IH]; intros r HP H; simpl in H.
  - inversion H; constructor.
  - inversion HP as [|? ? Hx Hl]; subst.
    destruct (g x) as [y|] eqn:Ey; [|discriminate].
    destruct (all_some (map g l)) as [t|] eqn:Et; [|discriminate].
    inversion H; subst. constructor; [now apply (Hg x)|now apply IH].
Qed.

Lemma all_some_map_length {B C} (g : B -> option C) l r :
  all_some (map g l) = Some r -> length r = length l.
Proof.
  revert r; induction l as [|x l IH]; intros r H; simpl in H.
  - now inversion H.
  - destruct (g x); [|discriminate].
    destruct (all_some (map g l)) as [t|]; [|discriminate].
    inversion H; subst; simpl. now rewrite (IH t eq_refl).
Qed.

Lemma assoc_In {B} f (l : list (Z * B)) d : assoc f l = Some d -> In (f, d) l.
Proof.
  induction l as [|[k v] l IH]; simpl; [discriminate|].
  destruct (f =? k) eqn:E.
  - intros H; inversion H; subst. left. f_equal. lia.
  - intros H; right; now apply IH.
Qed.

Lemma zrange_length k a s : length (zrange k a s) = k.
Proof. revert a; induction k as [|k IH]; intros a; simpl; auto. Qed.

Lemma zlen_iota n : 0 <= n -> zlen (iota n) = n.
Proof. intros H; unfold zlen, iota. rewrite zrange_length. lia. Qed.

Lemma zlen_nonneg {A} (l : list A) : 0 <= zlen l.
Proof. unfold zlen; lia. Qed.

Lemma Forall2_In_r {B C} (R : B -> C -> Prop) l r y :
  Forall2 R l r -> In y r -> exists x, In x l /\ R x y.
Proof.
  intros H; induction H as [|x y' l r Hxy HF IH]; simpl; [contradiction|].
  intros [<-|Hin].
  - exists x; auto.
  - destruct (IH Hin) as [x0 [H1 H2]]. exists x0; auto.
Qed.

Lemma fmask_gather {A} (l : list A) filt m d :
  gather l m = Some d -> gather l (fmask filt m) = Some (fmask filt d).
Proof.
  destruct filt as [f|]; simpl; [apply mask_gather|auto].
Qed.

Section ExportSound.
  Variable truth : Z -> list Z.
  Variable omap : nat -> list Z.

  (* basins refer to files created earlier: acyclic (C14 covers cycles) *)
  Definition scoped (st : store) : Prop :=
    forall fid fl, get_file st fid = Some fl ->
      forall b, In b (f_basins fl) -> b_internal b = false ->
                (b_target b < fid)%nat.

  Definition omap_ext (n : nat) (new : list Z) (j : nat) : list Z :=
    if Nat.eqb j n then new else omap j.

  (* a store_basin request whose map shows [data] of its target *)
  Definition good_sb (st : store) (data : list Z) (sb : sbasin) : Prop :=
    match sb with
    | SBInternal _ _ => True
    | SBFile t m nm _ =>
        nm = None /\ (Z.to_nat t < length st)%nat /\
        view_through (omap (Z.to_nat t)) m = Some data
    end.

  Lemma get_file_app_old (st : store) x fid :
    (fid < length st)%nat -> get_file (st ++ [x]) fid = get_file st fid.
  Proof. intros H; unfold get_file. now rewrite nth_error_app1. Qed.

  Lemma get_file_bound (st : store) fid fl :
    get_file st fid = Some fl -> (fid < length st)%nat.
  Proof.
    unfold get_file; intros H.
    destruct (nth_error st fid) eqn:E; [|discriminate].
    apply nth_error_Some. congruence.
  Qed.

  Lemma get_file_snoc_cases (st : store) fl' fid fl :
    get_file (st ++ [Some fl']) fid = Some fl ->
    (fid < length st)%nat /\ get_file st fid = Some fl \/
    fid = length st /\ fl = fl'.
  Proof.
    intros Hg. destruct (Nat.lt_ge_cases fid (length st)) as [Hlt|Hge].
    - left. rewrite get_file_app_old in Hg by assumption. auto.
    - right. pose proof (get_file_bound _ _ _ Hg) as Hb.
      rewrite app_length in Hb; simpl in Hb.
      assert (fid = length st) by lia. subst fid. split; [reflexivity|].
      unfold get_file in Hg.
      rewrite nth_error_app2, Nat.sub_diag in Hg by lia.
      simpl in Hg. congruence.
  Qed.

  (* appending a consistent file whose basins refer to earlier files keeps
     the store consistent and acyclic *)
  Lemma store_sound_snoc st fl' new :
    store_sound truth omap st ->
    scoped st ->
    file_sound truth (omap_ext (length st) new) (st ++ [Some fl'])
               (length st) fl' ->
    (forall b, In b (f_basins fl') -> b_internal b = false ->
               (b_target b < length st)%nat) ->
    store_sound truth (omap_ext (length st) new) (st ++ [Some fl']) /\
    scoped (st ++ [Some fl']).
  Proof.
    intros Hst Hsc Hnew Htg. split.
    - intros fid fl Hg.
      destruct (get_file_snoc_cases st fl' fid fl Hg) as [[Hlt Hold]|[-> ->]].
      + destruct (Hst fid fl Hold) as (HI & HB & HN).
        assert (Eo : omap_ext (length st) new fid = omap fid).
        { unfold omap_ext.
          replace (Nat.eqb fid (length st)) with false
            by (symmetry; apply Nat.eqb_neq; lia). reflexivity. }
        unfold file_sound. rewrite Eo. repeat split.
        * exact HI.
        * intros b Hb Hi. specialize (HB b Hb Hi).
          pose proof (Hsc fid fl Hold b Hb Hi) as Ht.
          unfold omap_ext.
          replace (Nat.eqb (b_target b) (length st)) with false
            by (symmetry; apply Nat.eqb_neq; lia). exact HB.
        * exact HN.
      + exact Hnew.
    - intros fid fl Hg b Hb Hi.
      destruct (get_file_snoc_cases st fl' fid fl Hg) as [[Hlt Hold]|[-> ->]].
      + exact (Hsc fid fl Hold b Hb Hi).
      + exact (Htg b Hb Hi).
  Qed.

  Lemma store_sound_nil : store_sound truth omap [] /\ scoped [].
  Proof.
    split; intros fid fl H; unfold get_file in H;
      destruct fid; simpl in H; discriminate.
  Qed.

  (* ---------------- base case: hand-written files ------------------- *)
  (* a store_basin request that is correct for a file standing for the
     origin events [new] *)
  Definition request_ok (st : store) (new : list Z) (sb : sbasin) : Prop :=
    match sb with
    | SBFile t m nm _ =>
        name_ok sb /\ (Z.to_nat t < length st)%nat /\
        view_through (omap (Z.to_nat t)) m = Some new
    | SBInternal data m =>
        exists rows, gather rows m = Some new /\
                     forall f d, assoc f data = Some d ->
                                 gather (truth f) rows = Some d
    end.

  Lemma request_name_ok st new sb : request_ok st new sb -> name_ok sb.
  Proof. destruct sb; simpl; [intros; exact I|intros [H _]; exact H]. Qed.

  (* A file written with RTDCWriter (stored features taken from the origin
     at the events [new], any sequence of store_basin calls with correct
     maps: "same", mapped subsets / supersets / permutations, internal
     basins) is consistent. *)
  Lemma write_file_sound st n innate sbs fl' new :
    (forall f d, assoc f innate = Some d ->
                 gather (truth f) new = Some d) ->
    Forall (request_ok st new) sbs ->
    store_basins {| f_n := n; f_innate := innate; f_slots := empty_slots;
                    f_basins := [] |} sbs = Some fl' ->
    file_sound truth (omap_ext (length st) new) (st ++ [Some fl'])
               (length st) fl' /\
    (forall b, In b (f_basins fl') -> b_internal b = false ->
               (b_target b < length st)%nat).
  Proof.
    intros Hinn Hreq H.
    assert (Hnames : Forall name_ok sbs).
    { apply Forall_forall. intros sb Hs. rewrite Forall_forall in Hreq.
      exact (request_name_ok st new sb (Hreq sb Hs)). }
    assert (Hl0 : length (f_slots {| f_n := n; f_innate := innate;
                                     f_slots := empty_slots;
                                     f_basins := [] |}) = 10%nat)
      by reflexivity.
    destruct (store_basins_written sbs _ fl' Hl0 Hnames H)
      as (Hfi & _ & _ & _ & bs & Hbs & HF2).
    simpl in Hfi, Hbs. rewrite Forall_forall in Hreq.
    assert (Hown : omap_ext (length st) new (length st) = new)
      by (unfold omap_ext; now rewrite Nat.eqb_refl).
    split; [unfold file_sound; rewrite Hown; repeat split|].
    - intros f d Ha. rewrite Hfi in Ha. now apply Hinn.
    - intros b Hb Hi. rewrite Hbs in Hb.
      destruct (Forall2_In_r _ _ _ _ HF2 Hb) as [sb [Hsb [Hh Hk]]].
      specialize (Hreq sb Hsb).
      destruct sb as [data m|t m nm fs]; simpl in Hk;
        [destruct Hk; congruence|].
      destruct Hk as [_ Htg]. destruct Hreq as (_ & Ht & Hv).
      assert (Eo : omap_ext (length st) new (b_target b)
                   = omap (Z.to_nat t)).
      { unfold omap_ext. rewrite Htg.
        replace (Nat.eqb (Z.to_nat t) (length st)) with false
          by (symmetry; apply Nat.eqb_neq; lia). reflexivity. }
      rewrite Eo. simpl in Hh, Hv. destruct m as [mm|].
      + destruct Hh as [k [Hk Hs]]. rewrite Hk. exists mm; auto.
      + rewrite Hh. inversion Hv; reflexivity.
    - intros b Hb Hi. rewrite Hbs in Hb.
      destruct (Forall2_In_r _ _ _ _ HF2 Hb) as [sb [Hsb [Hh Hk]]].
      specialize (Hreq sb Hsb).
      destruct sb as [data m|t m nm fs]; simpl in Hk;
        [|destruct Hk; congruence].
      destruct Hk as [_ Hint]. destruct Hreq as [rows [Hr Hd]].
      simpl in Hh. destruct Hh as [k [Hk Hs]].
      exists k, m, rows. rewrite Hint. auto.
    - intros b Hb Hi. rewrite Hbs in Hb.
      destruct (Forall2_In_r _ _ _ _ HF2 Hb) as [sb [Hsb [Hh Hk]]].
      specialize (Hreq sb Hsb).
      destruct sb as [data m|t m nm fs]; simpl in Hk;
        [destruct Hk; congruence|].
      destruct Hk as [_ ->]. destruct Hreq as (_ & Ht & _). exact Ht.
  Qed.

  (* ---------------- the export step ---------------------------------- *)
  Lemma export_sound st src root pfilts filt feats fl' cv :
    store_sound truth omap st ->
    scoped st ->
    get_file st src = Some root ->
    length (f_slots root) = 10%nat ->
    (* cv: the origin events of the dataset that is exported *)
    match pfilts with
    | [] => f_n root = zlen (omap src) /\ cv = omap src
    | _ => exists idx, child2root pfilts = Some idx /\
                       gather (omap src) idx = Some cv
    end ->
    export st src pfilts filt feats = Some fl' ->
    file_sound truth (omap_ext (length st) (fmask filt cv))
               (st ++ [Some fl']) (length st) fl' /\
    f_n fl' = zlen (fmask filt cv) /\ length (f_slots fl') = 10%nat /\
    match filt with Some f => zlen cv = zlen f | None => True end /\
    (forall b, In b (f_basins fl') -> (b_target b < length st)%nat) /\
    (forall b, In b (f_basins fl') -> b_internal b = false).
  Proof.
    intros Hst Hsc Hroot Hl10 Hcv H.
    assert (Hsrc : (src < length st)%nat) by exact (get_file_bound _ _ _ Hroot).
    destruct (Hst src root Hroot) as (HI & HB & HN).
    unfold export in H. rewrite Hroot in H. simpl opt_bind in H.
    set (hier := match pfilts with [] => false | _ => true end) in *.
    destruct (if hier then child2root pfilts else Some (iota (f_n root)))
      as [idx_root|] eqn:Eidx; [|discriminate].
    simpl opt_bind in H.
    set (view := fun d : list Z =>
                   if hier then gather d idx_root else Some d) in *.
    assert (Hview : view (omap src) = Some cv /\ zlen idx_root = zlen cv).
    { unfold view, hier in *. destruct pfilts as [|pf pfs].
      - destruct Hcv as [Hn ->]. inversion Eidx; subst. split; auto.
        rewrite zlen_iota; [assumption|]. rewrite Hn. apply zlen_nonneg.
      - destruct Hcv as [idx [Hc Hg]]. rewrite Hc in Eidx.
        inversion Eidx; subst. split; auto.
        symmetry; now apply (gather_zlen _ _ _ Hg). }
    destruct Hview as [Hview Hlen].
    destruct (match filt with
              | Some f => zlen idx_root =? zlen f
              | None => true
              end) eqn:Elen; simpl in H; [|discriminate].
    assert (Hcvlen : match filt with
                     | Some f => zlen cv = zlen f
                     | None => True
                     end) by (destruct filt; [lia|exact I]).
    (* features *)
    match type of H with
    | opt_bind (all_some (map ?g ?names)) _ = _ =>
        destruct (all_some (map g names)) as [innate|] eqn:Einn;
          [|discriminate]; set (gi := g) in *
    end.
    simpl opt_bind in H.
    assert (Hinn : forall f d, In (f, d) innate ->
                   gather (truth f) (fmask filt cv) = Some d).
    { assert (HF : Forall (fun fd => gather (truth (fst fd)) (fmask filt cv)
                                     = Some (snd fd)) innate).
      { eapply (all_some_map_Forall gi (fun _ => True));
          [ | | exact Einn].
        - intros f [f' d'] _ Hg. unfold gi in Hg. simpl.
          destruct (resolve st src f) as [d0|] eqn:Er; [|discriminate].
          simpl in Hg.
          change (if hier then gather d0 idx_root else Some d0)
            with (view d0) in Hg.
          destruct (view d0) as [v|] eqn:Ev; [|discriminate].
          simpl in Hg. inversion Hg; subst.
          pose proof (resolve_sound truth omap st src f' d0 Hst Er) as Ht.
          apply fmask_gather.
          unfold view in *. destruct hier.
          + rewrite (gather_gather _ _ _ Ht idx_root) in Ev.
            rewrite Hview in Ev. exact Ev.
          + inversion Ev; inversion Hview; subst. exact Ht.
        - apply Forall_forall. intros; exact I. }
      intros f d Hin. rewrite Forall_forall in HF. exact (HF (f, d) Hin). }
    (* empty selection: nothing is written *)
    destruct (empty_selection filt) eqn:Eempty.
    { inversion H; subst; simpl.
      assert (Hz : zlen (fmask filt cv) = 0).
      { destruct filt as [f|]; simpl in *; [|discriminate].
        rewrite mask_length_count by assumption. lia. }
      repeat split; auto; try (intros; simpl in *; contradiction).
      intros f d Ha; simpl in Ha; discriminate. }
    (* basinmap features copied with the default feature list *)
    match type of H with
    | opt_bind ?x _ = _ => destruct x as [slots0|] eqn:Eslots; [|discriminate]
    end.
    simpl opt_bind in H.
    assert (Hs0 : length slots0 = 10%nat).
    { destruct feats.
      - inversion Eslots; reflexivity.
      - rewrite (all_some_map_length _ _ _ Eslots). exact Hl10. }
    (* upstream basins *)
    destruct (all_some (map (as_dict st root) (sorted_basins (f_basins root))))
      as [upstream|] eqn:Eup; [|discriminate].
    simpl opt_bind in H.
    assert (Hup : Forall (good_sb st (omap src)) upstream).
    { eapply (all_some_map_Forall (as_dict st root)
                (fun b => In b (f_basins root))); [ | | exact Eup].
      - intros b sb Hb Hd. unfold as_dict in Hd.
        destruct (b_internal b) eqn:Ei.
        + destruct (b_slot b) as [k|]; [|discriminate].
          destruct (slot (f_slots root) k); [|discriminate].
          inversion Hd; subst; exact I.
        + specialize (HB b Hb Ei).
          pose proof (Hsc src root Hroot b Hb Ei) as Ht.
          destruct (b_slot b) as [k|].
          * destruct HB as [m0 [Hs Hg]]. rewrite Hs in Hd.
            inversion Hd; subst. simpl. rewrite Nat2Z.id.
            repeat split; auto; lia.
          * inversion Hd; subst. simpl. rewrite Nat2Z.id.
            repeat split; auto; [lia|]. now rewrite HB.
      - apply Forall_forall. intros b Hb. now apply In_sorted_basins. }
    match type of H with
    | opt_bind (all_some (map ?g upstream)) _ = _ =>
        destruct (all_some (map g upstream)) as [upstream'|] eqn:Eup';
          [|discriminate]; set (gh := g) in *
    end.
    simpl opt_bind in H.
    assert (Hup' : Forall (good_sb st cv) upstream').
    { eapply (all_some_map_Forall gh (good_sb st (omap src)));
        [ | exact Hup | exact Eup'].
      intros sb sb' Hg Hh. unfold gh in Hh.
      destruct sb as [dd mm|t m nm fs]; [inversion Hh; subst; exact I|].
      destruct Hg as (Hnm & Ht & Hv).
      unfold view in Hview. destruct hier.
      - destruct (hier_map_sound _ _ _ _ _ Hv Hview) as [m1 [E1 G1]].
        rewrite E1 in Hh. simpl in Hh. inversion Hh; subst. simpl. auto.
      - inversion Hh; inversion Hview; subst. simpl. auto. }
    set (self := SBFile (Z.of_nat src)
                        (if hier then Some idx_root else None) None None)
      in *.
    assert (Hself : good_sb st cv self).
    { unfold self; simpl. rewrite Nat2Z.id. repeat split; auto.
      unfold view in Hview. destruct hier; simpl; assumption. }
    match type of H with
    | opt_bind (all_some (map ?g _)) _ = _ =>
        destruct (all_some (map g (upstream' ++ [self]))) as [blist|] eqn:Ebl;
          [|discriminate]; set (ge := g) in *
    end.
    simpl opt_bind in H.
    assert (Hbl : Forall (good_sb st (fmask filt cv)) blist).
    { eapply (all_some_map_Forall ge (good_sb st cv)); [ | | exact Ebl].
      - intros sb sb' Hg He. unfold ge in He.
        destruct sb as [dd mm|t m nm fs];
          [inversion He; subst; exact I|].
        destruct Hg as (Hnm & Ht & Hv).
        unfold export_map_opt in He. destruct filt as [f|].
        + destruct (export_map_sound _ _ _ f Hv Hcvlen) as [m' [E1 G1]].
          rewrite E1 in He. simpl in He. inversion He; subst. simpl. auto.
        + simpl in He. inversion He; subst. simpl. auto.
      - apply Forall_app; split; [assumption|]. constructor; [|constructor].
        exact Hself. }
    set (blist' := filter (fun sb => match sb with
                                     | SBInternal _ _ => false
                                     | _ => true
                                     end) blist) in *.
    assert (Hbl' : Forall (fun sb => exists t m fs,
                             sb = SBFile t m None fs /\
                             (Z.to_nat t < length st)%nat /\
                             view_through (omap (Z.to_nat t)) m
                             = Some (fmask filt cv)) blist').
    { apply Forall_forall. intros sb Hin. unfold blist' in Hin.
      apply filter_In in Hin as [Hin Hf]. rewrite Forall_forall in Hbl.
      pose proof (Hbl sb Hin) as Hg.
      destruct sb as [dd mm|t m nm fs]; try discriminate.
      destruct Hg as (-> & Ht & Hv). exists t, m, fs. auto. }
    assert (Hnames : Forall name_ok blist').
    { apply Forall_forall. intros sb Hin. rewrite Forall_forall in Hbl'.
      destruct (Hbl' sb Hin) as (t & m & fs & -> & _).
      destruct m; exact I. }
    match type of H with
    | store_basins ?fl0 _ = _ =>
        destruct (store_basins_written blist' fl0 fl' Hs0 Hnames H)
          as (Hfi & Hfn & Hfl & _ & bs & Hbs & HF2)
    end.
    simpl in Hfi, Hfn, Hbs.
    assert (Htargets : forall b, In b (f_basins fl') ->
                                 (b_target b < length st)%nat).
    { intros b Hb. rewrite Hbs in Hb.
      destruct (Forall2_In_r _ _ _ _ HF2 Hb) as [sb [Hsb [Hh Hk]]].
      rewrite Forall_forall in Hbl'.
      destruct (Hbl' sb Hsb) as (t & m & fs & -> & Ht & _).
      simpl in Hk. destruct Hk as [_ ->]. exact Ht. }
    assert (Hnoint : forall b, In b (f_basins fl') -> b_internal b = false).
    { intros b Hb. rewrite Hbs in Hb.
      destruct (Forall2_In_r _ _ _ _ HF2 Hb) as [sb [Hsb [Hh Hk]]].
      rewrite Forall_forall in Hbl'.
      destruct (Hbl' sb Hsb) as (t & m & fs & -> & _).
      simpl in Hk. now destruct Hk. }
    assert (Hn' : f_n fl' = zlen (fmask filt cv)).
    { rewrite Hfn. destruct filt as [f|]; simpl.
      - symmetry. now apply mask_length_count.
      - exact Hlen. }
    split; [|repeat split; auto].
    unfold file_sound. repeat split.
    - intros f d Ha. rewrite Hfi in Ha. apply assoc_In in Ha.
      unfold omap_ext. rewrite Nat.eqb_refl. now apply Hinn.
    - intros b Hb Hi. rewrite Hbs in Hb.
      destruct (Forall2_In_r _ _ _ _ HF2 Hb) as [sb [Hsb [Hh Hk]]].
      rewrite Forall_forall in Hbl'.
      destruct (Hbl' sb Hsb) as (t & m & fs & -> & Ht & Hg).
      simpl in Hh, Hk. destruct Hk as [_ Htg].
      assert (Eo : omap_ext (length st) (fmask filt cv) (b_target b)
                   = omap (Z.to_nat t)).
      { unfold omap_ext. rewrite Htg.
        replace (Nat.eqb (Z.to_nat t) (length st)) with false
          by (symmetry; apply Nat.eqb_neq; lia). reflexivity. }
      rewrite Eo. unfold omap_ext at 1 2. rewrite Nat.eqb_refl.
      destruct m as [m'|]; simpl in Hh, Hg.
      + destruct Hh as [k [Hk Hs]]. rewrite Hk. exists m'; auto.
      + rewrite Hh. inversion Hg; reflexivity.
    - intros b Hb Hi. rewrite Hbs in Hb.
      destruct (Forall2_In_r _ _ _ _ HF2 Hb) as [sb [Hsb [Hh Hk]]].
      rewrite Forall_forall in Hbl'.
      destruct (Hbl' sb Hsb) as (t & m & fs & -> & _).
      simpl in Hk. destruct Hk as [Hk _]. congruence.
  Qed.

  (* The inductive step for pipelines of any length: an export (filtered or
     not, also an empty selection, from a file or from a hierarchy child)
     maps a consistent store to a consistent store, in which the new file
     stands for the selected origin events of its source. *)
  Lemma export_store_sound st src root pfilts filt feats fl' cv :
    store_sound truth omap st ->
    scoped st ->
    get_file st src = Some root ->
    length (f_slots root) = 10%nat ->
    match pfilts with
    | [] => f_n root = zlen (omap src) /\ cv = omap src
    | _ => exists idx, child2root pfilts = Some idx /\
                       gather (omap src) idx = Some cv
    end ->
    export st src pfilts filt feats = Some fl' ->
    store_sound truth (omap_ext (length st) (fmask filt cv))
                (st ++ [Some fl']) /\
    scoped (st ++ [Some fl']).
  Proof.
    intros Hst Hsc Hroot Hl10 Hcv H.
    destruct (export_sound st src root pfilts filt feats fl' cv
                           Hst Hsc Hroot Hl10 Hcv H)
      as (Hnew & _ & _ & _ & Htg & _).
    apply store_sound_snoc; auto.
  Qed.

  (* ... and so does writing a file by hand with correct requests *)
  Lemma write_store_sound st n innate sbs fl' new :
    store_sound truth omap st ->
    scoped st ->
    (forall f d, assoc f innate = Some d ->
                 gather (truth f) new = Some d) ->
    Forall (request_ok st new) sbs ->
    store_basins {| f_n := n; f_innate := innate; f_slots := empty_slots;
                    f_basins := [] |} sbs = Some fl' ->
    store_sound truth (omap_ext (length st) new) (st ++ [Some fl']) /\
    scoped (st ++ [Some fl']).
  Proof.
    intros Hst Hsc Hinn Hreq H.
    destruct (write_file_sound st n innate sbs fl' new Hinn Hreq H)
      as [Hnew Htg].
    apply store_sound_snoc; auto.
  Qed.
End ExportSound.

(* ------------------------------------------------------------------ *)
(* copies (compress, repack, rtdc_copy) keep what can be looked up     *)
(* ------------------------------------------------------------------ *)
Definition attempt_fn (fu : nat) (st : store) (fl : file) (f : Z) (b : bdef)
  : option obj :=
  if provides fu st b f then
    let data :=
        if b_internal b then assoc f (b_int b)
        else match lookup fu st (b_target b) f with
             | Some o => materialize o
             | None => None
             end in
    match data with
    | None => None
    | Some d =>
        match b_slot b with
        | None => Some (ODirect d)
        | Some k => match slot (f_slots fl) k with
                    | Some m => Some (OProxy d m)
                    | None => None
                    end
        end
    end
  else None.

Definition try_basins (att : bdef -> option obj) (bs : list bdef)
  : option obj :=
  match first_some att (filter b_internal bs) with
  | Some o => Some o
  | None =>
      match first_some att (filter (fun b => negb (b_internal b)) bs) with
      | Some o => Some o
      | None => first_some att bs
      end
  end.

Lemma lookup_S fu st fid f :
  lookup (S fu) st fid f =
  match get_file st fid with
  | None => None
  | Some fl =>
      match assoc f (f_innate fl) with
      | Some d => Some (ODirect d)
      | None => try_basins (attempt_fn fu st fl f)
                           (sorted_basins (f_basins fl))
      end
  end.
Proof. reflexivity. Qed.

Lemma has_feat_S fu st fid f :
  has_feat (S fu) st fid f =
  match get_file st fid with
  | None => false
  | Some fl =>
      match assoc f (f_innate fl) with
      | Some _ => true
      | None => existsb (fun b => provides fu st b f) (f_basins fl)
      end
  end.
Proof. reflexivity. Qed.

(* internal basins always list their features (store_basin demands it) *)
Definition internal_listed (st : store) : Prop :=
  forall fid fl, get_file st fid = Some fl ->
    forall b, In b (f_basins fl) -> b_internal b = true -> b_feats b <> None.

(* a basin whose features are not listed is a file basin of an older file *)
Lemma unlisted_target st j fl b :
  scoped st -> internal_listed st ->
  get_file st j = Some fl -> In b (f_basins fl) ->
  b_feats b = None \/ b_internal b = false ->
  (b_target b < j)%nat.
Proof.
  intros Hsc Hint Eg Hb H. destruct (b_internal b) eqn:Ei.
  - destruct H as [Ef|H]; [|discriminate].
    exfalso; exact (Hint j fl Eg b Hb Ei Ef).
  - exact (Hsc j fl Eg b Hb Ei).
Qed.

Lemma existsb_ext {B} (p q : B -> bool) l :
  (forall x, In x l -> p x = q x) -> existsb p l = existsb q l.
Proof.
  induction l as [|x l IH]; simpl; intros H; [reflexivity|].
  rewrite (H x (or_introl eq_refl)), IH; auto.
Qed.

Lemma first_some_ext {B C} (p q : B -> option C) l :
  (forall x, In x l -> p x = q x) -> first_some p l = first_some q l.
Proof.
  induction l as [|x l IH]; simpl; intros H; [reflexivity|].
  rewrite (H x (or_introl eq_refl)), IH; auto.
Qed.

Lemma try_basins_ext p q bs :
  (forall x, In x bs -> p x = q x) -> try_basins p bs = try_basins q bs.
Proof.
  intros H. unfold try_basins.
  rewrite (first_some_ext p q (filter b_internal bs)),
          (first_some_ext p q (filter (fun b => negb (b_internal b)) bs)),
          (first_some_ext p q bs); auto;
    intros x Hx; apply filter_In in Hx as [Hx _]; auto.
Qed.

(* adding a file does not change what older files show *)
Lemma has_feat_ext st x :
  scoped st -> internal_listed st ->
  forall fu j f, (j < length st)%nat ->
                 has_feat fu (st ++ [x]) j f = has_feat fu st j f.
Proof.
  intros Hsc Hint fu; induction fu as [|fu IH]; intros j f Hj;
    [reflexivity|].
  rewrite !has_feat_S, get_file_app_old by assumption.
  destruct (get_file st j) as [fl|] eqn:Eg; [|reflexivity].
  destruct (assoc f (f_innate fl)); [reflexivity|].
  apply existsb_ext. intros b Hb. unfold provides.
  destruct (b_feats b) eqn:Ef; [reflexivity|].
  apply IH.
  pose proof (unlisted_target st j fl b Hsc Hint Eg Hb (or_introl Ef)). lia.
Qed.

Lemma lookup_ext st x :
  scoped st -> internal_listed st ->
  forall fu j f, (j < length st)%nat ->
                 lookup fu (st ++ [x]) j f = lookup fu st j f.
Proof.
  intros Hsc Hint fu; induction fu as [|fu IH]; intros j f Hj;
    [reflexivity|].
  rewrite !lookup_S, get_file_app_old by assumption.
  destruct (get_file st j) as [fl|] eqn:Eg; [|reflexivity].
  destruct (assoc f (f_innate fl)); [reflexivity|].
  apply try_basins_ext. intros b Hb. apply In_sorted_basins in Hb.
  pose proof (unlisted_target st j fl b Hsc Hint Eg Hb) as Ht.
  unfold attempt_fn, provides.
  replace (match b_feats b with
           | Some l => zmem f l
           | None => has_feat fu (st ++ [x]) (b_target b) f
           end)
    with (match b_feats b with
          | Some l => zmem f l
          | None => has_feat fu st (b_target b) f
          end)
    by (destruct (b_feats b) eqn:Ef; [reflexivity|];
        symmetry; apply has_feat_ext; auto;
        pose proof (Ht (or_introl eq_refl)); lia).
  destruct (b_internal b) eqn:Ei; [reflexivity|].
  rewrite IH by (pose proof (Ht (or_intror eq_refl)); lia). reflexivity.
Qed.

Lemma assoc_filter_key {B} (p : Z -> bool) f (l : list (Z * B)) :
  p f = true -> assoc f (filter (fun kv => p (fst kv)) l) = assoc f l.
Proof.
  intros Hp; induction l as [|[k v] l IH]; simpl; [reflexivity|].
  destruct (f =? k) eqn:E.
  - assert (k = f) by lia. subst. simpl. rewrite Hp. simpl.
    now rewrite Z.eqb_refl.
  - destruct (p k); simpl; [rewrite E|]; exact IH.
Qed.

Lemma zmem_filter f (p : Z -> bool) l :
  p f = true -> zmem f (filter p l) = zmem f l.
Proof.
  intros Hp; induction l as [|x l IH]; simpl; [reflexivity|].
  destruct (f =? x) eqn:E.
  - assert (x = f) by lia. subst. rewrite Hp. simpl. now rewrite Z.eqb_refl.
  - destruct (p x); simpl; [rewrite E|]; exact IH.
Qed.

(* the rewritten basin list keeps the priority order: stable sorting
   commutes with dropping / rewriting entries that keep their key *)
Fixpoint ssorted (l : list bdef) : Prop :=
  match l with
  | [] => True
  | y :: r => (forall z, In z r -> bkey y <= bkey z) /\ ssorted r
  end.

Lemma insert_sorted_ssorted b l : ssorted l -> ssorted (insert_sorted b l).
Proof.
  induction l as [|y l IH]; simpl; intros H.
  - split; [intros z []|exact I].
  - destruct H as [Hy Hl]. destruct (bkey b <? bkey y) eqn:E; simpl.
    + split; [|split; assumption].
      intros z [<-|Hz]; [lia|]. specialize (Hy z Hz). lia.
    + split; [|now apply IH].
      intros z Hz. apply In_insert_sorted in Hz as [->|Hz]; [lia|now apply Hy].
Qed.

Lemma sorted_basins_ssorted l : ssorted (sorted_basins l).
Proof.
  induction l as [|b l IH]; simpl; [exact I|now apply insert_sorted_ssorted].
Qed.

Lemma insert_sorted_head b r :
  (forall z, In z r -> bkey b < bkey z) -> insert_sorted b r = b :: r.
Proof.
  destruct r as [|z r]; simpl; [reflexivity|]. intros H.
  specialize (H z (or_introl eq_refl)).
  destruct (bkey b <? bkey z) eqn:E; [reflexivity|lia].
Qed.

Definition key_preserving (g : bdef -> list bdef) : Prop :=
  forall x, match g x with
            | [] => True
            | [x'] => bkey x' = bkey x
            | _ => False
            end.

Lemma In_flat_map_key (g : bdef -> list bdef) z s :
  key_preserving g -> In z (flat_map g s) ->
  exists y, In y s /\ bkey z = bkey y.
Proof.
  intros Hg Hz. apply in_flat_map in Hz as [y [Hy Hz]].
  exists y; split; [assumption|]. specialize (Hg y).
  destruct (g y) as [|y' [|? ?]]; try contradiction.
  destruct Hz as [<-|[]]. exact Hg.
Qed.

Lemma flat_map_insert_dropped (g : bdef -> list bdef) b s :
  g b = [] -> flat_map g (insert_sorted b s) = flat_map g s.
Proof.
  intros Hb; induction s as [|y s IH]; simpl.
  - now rewrite Hb.
  - destruct (bkey b <? bkey y); simpl; [now rewrite Hb|now rewrite IH].
Qed.

Lemma flat_map_insert_kept (g : bdef -> list bdef) b b' s :
  key_preserving g -> g b = [b'] -> ssorted s ->
  flat_map g (insert_sorted b s) = insert_sorted b' (flat_map g s).
Proof.
  intros Hg Hb; induction s as [|y s IH]; simpl; intros Hs.
  - now rewrite Hb.
  - destruct Hs as [Hy Hs]. pose proof (Hg b) as Kb. rewrite Hb in Kb.
    pose proof (Hg y) as Ky.
    destruct (bkey b <? bkey y) eqn:E; simpl.
    + rewrite Hb. simpl.
      destruct (g y) as [|y' [|? ?]]; try contradiction; simpl.
      * symmetry. apply insert_sorted_head. intros z Hz.
        destruct (In_flat_map_key g z s Hg Hz) as [w [Hw Hk]].
        specialize (Hy w Hw). lia.
      * rewrite Kb, Ky, E. reflexivity.
    + rewrite (IH Hs).
      destruct (g y) as [|y' [|? ?]]; try contradiction; simpl.
      * reflexivity.
      * rewrite Kb, Ky, E. reflexivity.
Qed.

Lemma sorted_basins_flat_map (g : bdef -> list bdef) l :
  key_preserving g ->
  sorted_basins (flat_map g l) = flat_map g (sorted_basins l).
Proof.
  intros Hg; induction l as [|b l IH]; simpl; [reflexivity|].
  pose proof (Hg b) as Kb.
  destruct (g b) as [|b' [|? ?]] eqn:Eb; try contradiction; simpl.
  - rewrite IH. symmetry. now apply flat_map_insert_dropped.
  - rewrite IH. symmetry.
    apply flat_map_insert_kept; auto. apply sorted_basins_ssorted.
Qed.

Lemma first_some_flat_map (g : bdef -> list bdef) (att att' : bdef -> option obj)
      (p : bdef -> bool) l :
  (forall b, In b l ->
     match g b with
     | [] => att b = None
     | [b'] => att' b' = att b /\ p b' = p b
     | _ => False
     end) ->
  first_some att' (filter p (flat_map g l)) = first_some att (filter p l).
Proof.
  induction l as [|b l IH]; simpl; intros H; [reflexivity|].
  pose proof (H b (or_introl eq_refl)) as Hb.
  assert (IH' := IH (fun x Hx => H x (or_intror Hx))).
  destruct (g b) as [|b' [|? ?]]; try contradiction; simpl.
  - destruct (p b); simpl; [rewrite Hb|]; exact IH'.
  - destruct Hb as [Ha Hp]. rewrite Hp.
    destruct (p b); simpl; [rewrite Ha, IH'; reflexivity|exact IH'].
Qed.

Lemma try_basins_flat_map (g : bdef -> list bdef) att att' l :
  (forall b, In b l ->
     match g b with
     | [] => att b = None
     | [b'] => att' b' = att b /\ b_internal b' = b_internal b
     | _ => False
     end) ->
  try_basins att' (flat_map g l) = try_basins att l.
Proof.
  intros H. unfold try_basins.
  rewrite (first_some_flat_map g att att' b_internal l H).
  rewrite (first_some_flat_map g att att' (fun b => negb (b_internal b)) l).
  - pose proof (first_some_flat_map g att att' (fun _ => true) l) as H3.
    assert (Hf : forall (r : list bdef), filter (fun _ => true) r = r).
    { induction r as [|x r IHr]; simpl; [reflexivity|now rewrite IHr]. }
    rewrite !Hf in H3. rewrite H3; [reflexivity|].
    intros b Hb. specialize (H b Hb).
    destruct (g b) as [|b' [|? ?]]; auto. destruct H; auto.
  - intros b Hb. specialize (H b Hb).
    destruct (g b) as [|b' [|? ?]]; auto. destruct H as [H1 H2].
    split; [assumption|now rewrite H2].
Qed.

Lemma copy_basin_keys innate keep : key_preserving (copy_basin innate keep).
Proof.
  intros b. unfold copy_basin. destruct (b_internal b) eqn:Ei; [|reflexivity].
  destruct (filter (fun f => zmem f keep)
                   (match b_feats b with Some l => l | None => [] end));
    [exact I|].
  unfold bkey; simpl. now rewrite Ei.
Qed.

(* A copy (compress / repack / rtdc_copy with a feature selection) of a file
   answers every lookup of a feature that is still present exactly like the
   original does: same stored data, same basin, same map. *)
Lemma copy_keeps_lookup st fid fl keep :
  scoped st -> internal_listed st ->
  get_file st fid = Some fl ->
  forall fu f, zmem f keep = true ->
    lookup fu (st ++ [Some (copy_file fl keep)]) (length st) f
    = lookup fu st fid f.
Proof.
  intros Hsc Hint0 Hg fu f Hk. destruct fu as [|fu]; [reflexivity|].
  pose proof (Hint0 fid fl Hg) as Hint.
  pose proof (get_file_bound st fid fl Hg) as Hfid.
  rewrite !lookup_S, Hg.
  assert (Hgc : get_file (st ++ [Some (copy_file fl keep)]) (length st)
                = Some (copy_file fl keep)).
  { unfold get_file. rewrite nth_error_app2, Nat.sub_diag by lia.
    reflexivity. }
  rewrite Hgc. simpl f_innate.
  rewrite (assoc_filter_key (fun k => zmem k keep) f _ Hk).
  destruct (assoc f (f_innate fl)) as [d|] eqn:Ea; [reflexivity|].
  simpl f_basins.
  rewrite (sorted_basins_flat_map _ _ (copy_basin_keys (f_innate fl) keep)).
  apply try_basins_flat_map.
  intros b Hb. apply In_sorted_basins in Hb.
  pose proof (unlisted_target st fid fl b Hsc Hint0 Hg Hb) as Ht.
  unfold copy_basin. destruct (b_internal b) eqn:Ei.
  - (* internal basin: rewritten to the copied features *)
    destruct (b_feats b) as [feats|] eqn:Ef;
      [|exfalso; now apply (Hint b Hb Ei)].
    destruct (filter (fun f0 => zmem f0 keep) feats) as [|u used] eqn:Eu.
    + unfold attempt_fn, provides. rewrite Ef.
      rewrite <- (zmem_filter f (fun f0 => zmem f0 keep) feats Hk), Eu.
      reflexivity.
    + split; [|reflexivity].
      unfold attempt_fn, provides; simpl. rewrite Ef, Ei.
      change ((f =? u) || zmem f used) with (zmem f (u :: used)).
      rewrite <- Eu, (zmem_filter f (fun f0 => zmem f0 keep) feats Hk).
      rewrite (assoc_filter_key
                 (fun k => zmem k keep && negb (has_key k (f_innate fl)))).
      * reflexivity.
      * unfold has_key. rewrite Ea, Hk. reflexivity.
  - (* other basins are copied as they are *)
    split; [|exact Ei].
    unfold attempt_fn, provides. simpl f_slots.
    replace (match b_feats b with
             | Some l => zmem f l
             | None => has_feat fu (st ++ [Some (copy_file fl keep)])
                                (b_target b) f
             end)
      with (match b_feats b with
            | Some l => zmem f l
            | None => has_feat fu st (b_target b) f
            end)
      by (destruct (b_feats b) eqn:Ef; [reflexivity|];
          symmetry; apply has_feat_ext; auto;
          pose proof (Ht (or_introl eq_refl)); lia).
    rewrite Ei.
    rewrite lookup_ext by (auto; pose proof (Ht (or_intror eq_refl)); lia).
    reflexivity.
Qed.

Example ex_copy :
  let st := run_steps
      [SWrite 3 [(1, [10; 11; 12]); (4, [40; 41; 42])] [];
       SWrite 2 [(2, [7; 8])]
              [SBFile 0 (Some [2; 0]) None None;
               SBInternal [(3, [70; 71]); (4, [5; 6])] [1; 1]];
       SCopy 1 [1; 2; 3]] in
  resolve st 2 1 = Some [12; 10] /\ resolve st 2 3 = Some [71; 71] /\
  resolve st 2 2 = Some [7; 8] /\
  resolve st 1 4 = Some [6; 6] /\ resolve st 2 4 = Some [42; 40].
Proof. vm_compute. repeat split. Qed.

(* ------------------------------------------------------------------ *)
(* iteration and np.array() of a mapped feature                        *)
(* ------------------------------------------------------------------ *)
Lemma nthz_app_mid {A} (pre : list A) a s :
  nthz (pre ++ a :: s) (zlen pre) = Some a.
Proof.
  unfold nthz, zlen. destruct (Z.of_nat (length pre) <? 0) eqn:E; [lia|].
  rewrite Nat2Z.id, nth_error_app2 by lia. now rewrite Nat.sub_diag.
Qed.

Lemma nthz_end {A} (l : list A) : nthz l (zlen l) = None.
Proof.
  unfold nthz, zlen. destruct (Z.of_nat (length l) <? 0) eqn:E; [lia|].
  rewrite Nat2Z.id. apply nth_error_None. lia.
Qed.

Lemma np_index_int_nonneg {A} (l : list A) i :
  0 <= i ->
  np_index l (IInt i) = match nthz l i with
                        | Some a => ROne a
                        | None => RErr
                        end.
Proof.
  intros Hi. unfold np_index, positions, norm_int.
  destruct ((0 <=? i) && (i <? zlen l)) eqn:E1.
  - simpl. destruct (nthz l i); reflexivity.
  - replace ((i <? 0) && (0 <=? i + zlen l)) with false by lia.
    destruct (nthz l i) as [a|] eqn:En; [|reflexivity].
    apply nthz_some_lt in En. lia.
Qed.

Lemma proxy_iter_spec {A} (feat : list A) bmap is_scalar mapped :
  gather feat bmap = Some mapped ->
  forall suffix pre fuel cache,
    mapped = pre ++ suffix ->
    (length suffix < fuel)%nat ->
    cache_ok is_scalar mapped cache ->
    snd (proxy_iter A feat bmap is_scalar fuel (zlen pre) cache) = suffix /\
    cache_ok is_scalar mapped
             (fst (proxy_iter A feat bmap is_scalar fuel (zlen pre) cache)).
Proof.
  intros H suffix; induction suffix as [|a s IH];
    intros pre fuel cache Hm Hf Hc; (destruct fuel as [|fu]; [simpl in Hf; lia|]);
    simpl proxy_iter;
    destruct (proxy_routes_agree feat bmap is_scalar mapped H cache
                                 (IInt (zlen pre)) Hc) as [Hr Hc'];
    destruct (proxy_getitem A feat bmap is_scalar cache (IInt (zlen pre)))
      as [c' r]; simpl in Hr, Hc'; subst r;
    rewrite np_index_int_nonneg by apply zlen_nonneg; subst mapped.
  - rewrite app_nil_r, nthz_end. simpl. split; [reflexivity|].
    now rewrite app_nil_r in Hc'.
  - rewrite nthz_app_mid.
    specialize (IH (pre ++ [a]) fu c').
    replace (zlen (pre ++ [a])) with (zlen pre + 1) in IH
      by (unfold zlen; rewrite app_length; simpl; lia).
    rewrite <- app_assoc in IH. simpl in IH.
    destruct (IH eq_refl ltac:(simpl in Hf; lia) Hc') as [E1 E2].
    destruct (proxy_iter A feat bmap is_scalar fu (zlen pre + 1) c')
      as [c'' rest]. simpl in *. split; [now rewrite E1|exact E2].
Qed.

(* indexing, iteration and np.array() of a mapped feature (scalar, image,
   ragged) all show origin[basinmap] *)
Lemma proxy_access_agree {A} (feat : list A) bmap is_scalar cast amax amin
      mapped :
  gather feat bmap = Some mapped ->
  forall cache ac,
    cache_ok is_scalar mapped cache ->
    snd (proxy_access A feat bmap is_scalar cast amax amin cache ac)
    = direct_access cast amax amin mapped ac /\
    cache_ok is_scalar mapped
             (fst (proxy_access A feat bmap is_scalar cast amax amin
                                cache ac)).
Proof.
  intros H cache ac Hc.
  assert (Harr : forall (g : list A -> res A),
    snd (let '(c', arr) := proxy_array A feat bmap is_scalar cache in
         (c', match arr with Some l => g l | None => RErr end)) = g mapped /\
    cache_ok is_scalar mapped
      (fst (let '(c', arr) := proxy_array A feat bmap is_scalar cache in
            (c', match arr with Some l => g l | None => RErr end)))).
  { intros g. unfold proxy_array. destruct cache as [c|].
    - rewrite loop_gather, H. simpl. auto.
    - destruct is_scalar eqn:Es.
      + rewrite H. simpl. split; [reflexivity|]. right; auto.
      + rewrite loop_gather, H. simpl. auto. }
  destruct ac as [ix| | | | | |];
    [ | | | | exact (Harr (summary amax)) | exact (Harr (summary amin))
      | destruct (Harr (fun l => match l with [] => RErr | _ => RMany [] end))
          as [E1 E2]; split; [|exact E2];
        unfold proxy_access, direct_access;
        destruct (proxy_array A feat bmap is_scalar cache) as [c' [l|]];
        simpl in *; [destruct l; exact E1|exact E1] ].
  - exact (proxy_routes_agree feat bmap is_scalar mapped H cache ix Hc).
  - unfold proxy_access, direct_access.
    assert (Hlen : (length mapped < S (length bmap))%nat)
      by (rewrite (gather_length _ _ _ H); lia).
    destruct (proxy_iter_spec feat bmap is_scalar mapped H mapped []
                              (S (length bmap)) cache eq_refl Hlen Hc)
      as [E1 E2].
    change (zlen (@nil A)) with 0 in E1, E2.
    destruct (proxy_iter A feat bmap is_scalar (S (length bmap)) 0 cache)
      as [c' l]. simpl in *. now subst.
  - unfold proxy_access, direct_access, proxy_array. destruct cache as [c|].
    + rewrite loop_gather, H. simpl. auto.
    + destruct is_scalar eqn:Es.
      * rewrite H. simpl. split; [reflexivity|]. right; auto.
      * rewrite loop_gather, H. simpl. auto.
  - (* a cast of the result never reaches the cache *)
    unfold proxy_access, direct_access, proxy_array. destruct cache as [c|].
    + rewrite loop_gather, H. simpl. auto.
    + destruct is_scalar eqn:Es.
      * rewrite H. simpl. split; [reflexivity|]. right; auto.
      * rewrite loop_gather, H. simpl. auto.
Qed.

Example ex_iter_array :
  let feat := [10; 11; 12; 13] in
  let bmap := [3; 3; 0; 2] in
  snd (proxy_access Z feat bmap false trunc8 list_max list_min None AIter) = RMany [13; 13; 10; 12] /\
  snd (proxy_access Z feat bmap false trunc8 list_max list_min None AArray) = RMany [13; 13; 10; 12] /\
  snd (proxy_access Z feat bmap true trunc8 list_max list_min (Some [13; 13; 10; 12]) AIter)
  = RMany [13; 13; 10; 12].
Proof. vm_compute. repeat split. Qed.

(* ------------------------------------------------------------------ *)
(* the fuel of lookup is never exhausted on acyclic stores             *)
(* ------------------------------------------------------------------ *)
Lemma provides_mono st b f fu :
  (b_feats b = None -> has_feat fu st (b_target b) f
                       = has_feat (S fu) st (b_target b) f) ->
  provides fu st b f = provides (S fu) st b f.
Proof. unfold provides. destruct (b_feats b); auto. Qed.

Lemma fuel_mono st :
  scoped st -> internal_listed st ->
  forall fu fid f, (fid < fu)%nat ->
    has_feat fu st fid f = has_feat (S fu) st fid f /\
    lookup fu st fid f = lookup (S fu) st fid f.
Proof.
  intros Hsc Hint fu; induction fu as [|fu IH]; intros fid f Hf; [lia|].
  assert (Hprov : forall fl b, get_file st fid = Some fl ->
                    In b (f_basins fl) ->
                    provides fu st b f = provides (S fu) st b f).
  { intros fl b Hg Hb. apply provides_mono. intros Hn.
    destruct (b_internal b) eqn:Ei.
    - exfalso. exact (Hint fid fl Hg b Hb Ei Hn).
    - pose proof (Hsc fid fl Hg b Hb Ei). apply IH. lia. }
  split.
  - rewrite (has_feat_S fu), (has_feat_S (S fu)).
    destruct (get_file st fid) as [fl|] eqn:Eg; [|reflexivity].
    destruct (assoc f (f_innate fl)); [reflexivity|].
    apply existsb_ext. intros b Hb. now apply (Hprov fl).
  - rewrite (lookup_S fu), (lookup_S (S fu)).
    destruct (get_file st fid) as [fl|] eqn:Eg; [|reflexivity].
    destruct (assoc f (f_innate fl)); [reflexivity|].
    apply try_basins_ext. intros b Hb. apply In_sorted_basins in Hb.
    unfold attempt_fn. rewrite <- (Hprov fl b eq_refl Hb).
    destruct (b_internal b) eqn:Ei; [reflexivity|].
    pose proof (Hsc fid fl Eg b Hb Ei).
    replace (lookup (S fu) st (b_target b) f)
      with (lookup fu st (b_target b) f) by (apply IH; lia).
    reflexivity.
Qed.

(* any two amounts of fuel above the file's position give the same answer:
   in particular [fuel_of st] is enough for every file of the store *)
Lemma fuel_irrelevant st :
  scoped st -> internal_listed st ->
  forall fid f fu1 fu2, (fid < fu1)%nat -> (fid < fu2)%nat ->
    lookup fu1 st fid f = lookup fu2 st fid f /\
    has_feat fu1 st fid f = has_feat fu2 st fid f.
Proof.
  intros Hsc Hint fid f.
  assert (Hb : forall d, lookup (S fid + d) st fid f = lookup (S fid) st fid f
                         /\ has_feat (S fid + d) st fid f
                            = has_feat (S fid) st fid f).
  { induction d as [|d [IH1 IH2]]; [rewrite Nat.add_0_r; auto|].
    replace (S fid + S d)%nat with (S (S fid + d)) by lia.
    destruct (fuel_mono st Hsc Hint (S fid + d) fid f ltac:(lia)) as [E1 E2].
    rewrite <- E1, <- E2. auto. }
  intros fu1 fu2 H1 H2.
  destruct (Hb (fu1 - S fid)%nat) as [A1 A2].
  destruct (Hb (fu2 - S fid)%nat) as [B1 B2].
  replace (S fid + (fu1 - S fid))%nat with fu1 in * by lia.
  replace (S fid + (fu2 - S fid))%nat with fu2 in * by lia.
  split; congruence.
Qed.

(* ------------------------------------------------------------------ *)
(* completeness: a provided feature IS returned                        *)
(* ------------------------------------------------------------------ *)
Lemma first_some_complete {B C} (g : B -> option C) l x c :
  In x l -> g x = Some c -> exists c', first_some g l = Some c'.
Proof.
  induction l as [|y l IH]; simpl; [contradiction|].
  intros [->|Hin] Hg.
  - rewrite Hg. eauto.
  - destruct (g y); eauto.
Qed.

Lemma try_basins_complete att bs b o :
  In b bs -> att b = Some o -> exists o', try_basins att bs = Some o'.
Proof.
  intros Hb Ha. unfold try_basins.
  destruct (first_some att (filter b_internal bs)); eauto.
  destruct (first_some att (filter (fun b0 => negb (b_internal b0)) bs));
    eauto.
  exact (first_some_complete att bs b o Hb Ha).
Qed.

Lemma try_basins_In att bs o :
  try_basins att bs = Some o -> exists b, In b bs /\ att b = Some o.
Proof.
  unfold try_basins. intros H.
  destruct (first_some att (filter b_internal bs)) as [o1|] eqn:E1.
  - inversion H; subst. destruct (first_some_In _ _ _ E1) as [b [Hb Ha]].
    apply filter_In in Hb as [Hb _]. eauto.
  - destruct (first_some att (filter (fun b0 => negb (b_internal b0)) bs))
      as [o2|] eqn:E2.
    + inversion H; subst. destruct (first_some_In _ _ _ E2) as [b [Hb Ha]].
      apply filter_In in Hb as [Hb _]. eauto.
    + destruct (first_some_In _ _ _ H) as [b [Hb Ha]]. eauto.
Qed.

Lemma In_insert_sorted_conv b x l :
  x = b \/ In x l -> In x (insert_sorted b l).
Proof.
  induction l as [|y l IH]; simpl.
  - intros [->|[]]; auto.
  - destruct (bkey b <? bkey y); simpl.
    + intros [->|[->|H]]; auto.
    + intros [->|[->|H]]; auto.
Qed.

Lemma In_sorted_basins_conv x l : In x l -> In x (sorted_basins l).
Proof.
  induction l as [|y l IH]; simpl; [auto|].
  intros [->|H]; apply In_insert_sorted_conv; auto.
Qed.

Lemma gather_same_length {A B} (l1 : list A) (l2 : list B) m r :
  gather l1 m = Some r -> length l1 = length l2 ->
  exists r2, gather l2 m = Some r2.
Proof.
  intros H Hl. revert r H; induction m as [|j m IH]; intros r H; simpl in *.
  - eauto.
  - destruct (nthz l1 j) as [a|] eqn:Ej; [|discriminate].
    destruct (gather l1 m) as [t|] eqn:Et; [|discriminate].
    destruct (IH t eq_refl) as [t2 Ht2]. rewrite Ht2.
    apply nthz_some_lt in Ej.
    destruct (nthz_lt_some l2 j) as [b Hb];
      [unfold zlen in *; lia|]. rewrite Hb. eauto.
Qed.

Lemma lookup_has_feat st fu fid f o :
  lookup fu st fid f = Some o -> has_feat fu st fid f = true.
Proof.
  destruct fu as [|fu]; [discriminate|].
  rewrite lookup_S, has_feat_S.
  destruct (get_file st fid) as [fl|]; [|discriminate].
  destruct (assoc f (f_innate fl)); [reflexivity|].
  intros H. apply try_basins_In in H as [b [Hb Ha]].
  apply In_sorted_basins in Hb. apply existsb_exists. exists b; split; auto.
  unfold attempt_fn in Ha. destruct (provides fu st b f); [reflexivity|].
  discriminate.
Qed.

Section Complete.
  Variable truth : Z -> list Z.
  Variable omap : nat -> list Z.

  (* in a consistent store whatever a basin hands out can be read *)
  Lemma attempt_materializes st fid fl fu f b o :
    store_sound truth omap st ->
    get_file st fid = Some fl ->
    In b (f_basins fl) ->
    attempt_fn fu st fl f b = Some o ->
    exists d, materialize o = Some d.
  Proof.
    intros Hst Hg Hb Ha. destruct (Hst fid fl Hg) as (HI & HB & HN).
    unfold attempt_fn in Ha.
    destruct (provides fu st b f); [|discriminate].
    destruct (b_internal b) eqn:Ei.
    - destruct (HN b Hb Ei) as (k & m & rows & Hk & Hs & Hr & Hd).
      destruct (assoc f (b_int b)) as [d1|] eqn:Ed; [|discriminate].
      rewrite Hk, Hs in Ha. inversion Ha; subst. simpl.
      apply (gather_same_length rows d1 m _ Hr).
      symmetry. exact (gather_length _ _ _ (Hd f d1 Ed)).
    - specialize (HB b Hb Ei).
      destruct (lookup fu st (b_target b) f) as [o0|] eqn:El; [|discriminate].
      destruct (materialize o0) as [d1|] eqn:Em; [|discriminate].
      pose proof (lookup_sound truth omap st Hst _ _ _ _ _ El Em) as Ht.
      destruct (b_slot b) as [k|].
      + destruct HB as [m [Hs Hgm]]. rewrite Hs in Ha.
        inversion Ha; subst. simpl.
        apply (gather_same_length (omap (b_target b)) d1 m _ Hgm).
        symmetry. exact (gather_length _ _ _ Ht).
      + inversion Ha; subst. simpl. eauto.
  Qed.

  Lemma lookup_complete st fid fl fu f b o :
    store_sound truth omap st ->
    get_file st fid = Some fl ->
    In b (f_basins fl) ->
    attempt_fn fu st fl f b = Some o ->
    exists o' d, lookup (S fu) st fid f = Some o' /\
                 materialize o' = Some d /\
                 gather (truth f) (omap fid) = Some d.
  Proof.
    intros Hst Hg Hb Ha. rewrite lookup_S, Hg.
    destruct (assoc f (f_innate fl)) as [d0|] eqn:Ei.
    - exists (ODirect d0), d0. repeat split.
      destruct (Hst fid fl Hg) as (HI & _). now apply HI.
    - destruct (try_basins_complete _ _ b o
                  (In_sorted_basins_conv _ _ Hb) Ha) as [o' Ho'].
      destruct (try_basins_In _ _ _ Ho') as [b' [Hb' Ha']].
      apply In_sorted_basins in Hb'.
      destruct (attempt_materializes st fid fl fu f b' o' Hst Hg Hb' Ha')
        as [d Hd].
      exists o', d. repeat split; auto.
      apply (lookup_sound truth omap st Hst (S fu) fid f o' d); auto.
      rewrite lookup_S, Hg, Ei. exact Ho'.
  Qed.

  (* Completeness for file basins: if a basin of the file lists the feature
     (or lists nothing, i.e. offers everything) and the basin's file can
     read it, then the file returns it - and it is the origin's feature at
     the file's events.  The fuel of [resolve] is enough. *)
  Lemma resolve_complete_file st fid fl b f dt :
    store_sound truth omap st ->
    scoped st -> internal_listed st ->
    get_file st fid = Some fl ->
    In b (f_basins fl) ->
    b_internal b = false ->
    match b_feats b with Some l => zmem f l = true | None => True end ->
    resolve st (b_target b) f = Some dt ->
    exists d, resolve st fid f = Some d /\
              gather (truth f) (omap fid) = Some d.
  Proof.
    intros Hst Hsc Hint Hg Hb Hi Hf Hr.
    pose proof (get_file_bound st fid fl Hg) as Hfid.
    pose proof (Hsc fid fl Hg b Hb Hi) as Ht.
    unfold resolve, fuel_of in Hr.
    destruct (lookup (S (length st)) st (b_target b) f) as [ot|] eqn:El;
      [|discriminate].
    assert (El' : lookup (length st) st (b_target b) f = Some ot).
    { rewrite <- El.
      apply (fuel_irrelevant st Hsc Hint (b_target b) f); lia. }
    destruct (Hst fid fl Hg) as (_ & HB & _). specialize (HB b Hb Hi).
    assert (Ha : exists o, attempt_fn (length st) st fl f b = Some o).
    { unfold attempt_fn.
      assert (Hp : provides (length st) st b f = true).
      { unfold provides. destruct (b_feats b); [assumption|].
        exact (lookup_has_feat _ _ _ _ _ El'). }
      rewrite Hp, Hi, El', Hr.
      destruct (b_slot b) as [k|]; [|eauto].
      destruct HB as [m [Hs _]]. rewrite Hs. eauto. }
    destruct Ha as [o Ha].
    destruct (lookup_complete st fid fl (length st) f b o Hst Hg Hb Ha)
      as (o' & d & E1 & E2 & E3).
    exists d. unfold resolve, fuel_of. rewrite E1. auto.
  Qed.

  (* ... and for internal basins *)
  Lemma resolve_complete_internal st fid fl b f l di :
    store_sound truth omap st ->
    get_file st fid = Some fl ->
    In b (f_basins fl) ->
    b_internal b = true ->
    b_feats b = Some l -> zmem f l = true ->
    assoc f (b_int b) = Some di ->
    exists d, resolve st fid f = Some d /\
              gather (truth f) (omap fid) = Some d.
  Proof.
    intros Hst Hg Hb Hi Hfe Hz Hd.
    destruct (Hst fid fl Hg) as (_ & _ & HN).
    destruct (HN b Hb Hi) as (k & m & rows & Hk & Hs & _).
    assert (Ha : attempt_fn (length st) st fl f b = Some (OProxy di m)).
    { unfold attempt_fn, provides. now rewrite Hfe, Hz, Hi, Hd, Hk, Hs. }
    destruct (lookup_complete st fid fl (length st) f b _ Hst Hg Hb Ha)
      as (o' & d & E1 & E2 & E3).
    exists d. unfold resolve, fuel_of. rewrite E1. auto.
  Qed.
End Complete.

(* ------------------------------------------------------------------ *)
(* non-vacuity: a consistent store with a mapped basin (repeats, not   *)
(* monotone), an internal basin and a filtered export of the referrer  *)
(* ------------------------------------------------------------------ *)
Definition ex_truth (f : Z) : list Z :=
  if f =? 1 then [10; 11; 12] else if f =? 2 then [70; 71; 72] else [].

Definition ex_f0 : file :=
  {| f_n := 3; f_innate := [(1, [10; 11; 12]); (2, [70; 71; 72])];
     f_slots := empty_slots; f_basins := [] |}.

Definition ex_sbs : list sbasin :=
  [SBFile 0 (Some [2; 2; 0; 1]) None (Some [1]);
   SBInternal [(2, [72; 70; 71])] [0; 0; 1; 2]].

Definition ex_init1 : file :=
  {| f_n := 4; f_innate := []; f_slots := empty_slots; f_basins := [] |}.

Definition ex_f1 : file :=
  Eval vm_compute in
    match store_basins ex_init1 ex_sbs with Some x => x | None => ex_f0 end.

Definition ex_st2 : store := ([] ++ [Some ex_f0]) ++ [Some ex_f1].

Definition ex_f2 : file :=
  Eval vm_compute in
    match export ex_st2 1 [] (Some [true; false; true; true]) (Some [])
    with Some x => x | None => ex_f0 end.

Definition ex_omap : nat -> list Z :=
  omap_ext (omap_ext (omap_ext (fun _ => []) 0 [0; 1; 2]) 1 [2; 2; 0; 1])
           2 [2; 0; 1].

Example ex_store_sound_inhabited :
  run_steps [SWrite 3 [(1, [10; 11; 12]); (2, [70; 71; 72])] [];
             SWrite 4 [] ex_sbs;
             SExport 1 [] (Some [true; false; true; true]) (Some [])]
  = ex_st2 ++ [Some ex_f2] /\
  store_sound ex_truth ex_omap (ex_st2 ++ [Some ex_f2]) /\
  scoped (ex_st2 ++ [Some ex_f2]) /\
  internal_listed (ex_st2 ++ [Some ex_f2]) /\
  resolve (ex_st2 ++ [Some ex_f2]) 2 1 = Some [12; 10; 11] /\
  resolve (ex_st2 ++ [Some ex_f2]) 2 2 = Some [72; 70; 71].
Proof.
  split; [vm_compute; reflexivity|].
  assert (Hinn : forall f d,
             assoc f [(1, [10; 11; 12]); (2, [70; 71; 72])] = Some d ->
             gather (ex_truth f) [0; 1; 2] = Some d).
  { intros f d H. simpl in H. unfold ex_truth.
    destruct (f =? 1) eqn:E1; [inversion H; reflexivity|].
    destruct (f =? 2) eqn:E2; [inversion H; reflexivity|discriminate]. }
  destruct (store_sound_nil ex_truth (fun _ => [])) as [S0 C0].
  destruct (write_store_sound ex_truth (fun _ => []) [] 3 _ [] ex_f0
                              [0; 1; 2] S0 C0 Hinn (Forall_nil _) eq_refl)
    as [S1 C1].
  set (om1 := omap_ext (fun _ => []) (length (@nil (option file))) [0; 1; 2])
    in *.
  assert (Hreq : Forall (request_ok ex_truth om1 ([] ++ [Some ex_f0])
                                    [2; 2; 0; 1]) ex_sbs).
  { repeat constructor; simpl; auto.
    exists [2; 0; 1]. split; [reflexivity|].
    intros f d H. simpl in H. unfold ex_truth.
    destruct (f =? 2) eqn:E2; [|discriminate].
    assert (f = 2) by lia. subst. inversion H. reflexivity. }
  assert (E1 : store_basins ex_init1 ex_sbs = Some ex_f1)
    by (vm_compute; reflexivity).
  destruct (write_store_sound ex_truth om1 ([] ++ [Some ex_f0]) 4 [] ex_sbs
                              ex_f1 [2; 2; 0; 1] S1 C1
                              ltac:(intros f d H; discriminate) Hreq E1)
    as [S2 C2].
  set (om2 := omap_ext om1 (length ([] ++ [Some ex_f0])) [2; 2; 0; 1]) in *.
  assert (E2 : export ex_st2 1 [] (Some [true; false; true; true]) (Some [])
               = Some ex_f2) by (vm_compute; reflexivity).
  destruct (export_store_sound ex_truth om2 ex_st2 1 ex_f1 []
              (Some [true; false; true; true]) (Some []) ex_f2 [2; 2; 0; 1]
              S2 C2 eq_refl eq_refl (conj eq_refl eq_refl) E2) as [S3 C3].
  split; [exact S3|]. split; [exact C3|]. split.
  - intros fid fl Hg b Hb Hi.
    pose proof (get_file_bound _ _ _ Hg) as Hlt. simpl in Hlt.
    destruct fid as [|[|[|fid]]]; [ | | |lia];
      vm_compute in Hg; inversion Hg; subst; simpl in Hb;
      repeat (destruct Hb as [<-|Hb]); try contradiction;
      simpl in *; discriminate.
  - split; vm_compute; reflexivity.
Qed.

(* ------------------------------------------------------------------ *)
(* referrer and origin moved together                                  *)
(* ------------------------------------------------------------------ *)
(* The writer stores the absolute path and the path relative to the
   referrer's directory.  If the tree is moved (the same datasets live at
   the new prefix, nothing is left at the old absolute path), the relative
   entry leads to the same dataset. *)
Lemma moved_together (fs fs' : fsys) ok (dir dir' rel : list Z) id :
  fs (dir ++ rel) = Some id -> ok id = true ->
  fs' (dir' ++ rel) = fs (dir ++ rel) ->
  fs' (dir ++ rel) = None ->
  find_basin fs ok dir [LAbs (dir ++ rel); LRel rel]
  = Some (0, dir ++ rel) /\
  find_basin fs' ok dir' [LAbs (dir ++ rel); LRel rel]
  = Some (1, dir' ++ rel) /\
  fs' (dir' ++ rel) = Some id.
Proof.
  intros H1 Hok Hm Hg. repeat split.
  - simpl. now rewrite H1, Hok.
  - simpl. rewrite Hg, Hm, H1, Hok. reflexivity.
  - congruence.
Qed.

(* a dataset with another identifier at the old location is skipped *)
Lemma moved_together_other_file (fs' : fsys) ok (dir dir' rel : list Z)
      id other :
  fs' (dir ++ rel) = Some other -> ok other = false ->
  fs' (dir' ++ rel) = Some id -> ok id = true ->
  find_basin fs' ok dir' [LAbs (dir ++ rel); LRel rel]
  = Some (1, dir' ++ rel).
Proof.
  intros H1 H2 H3 H4. simpl. now rewrite H1, H2, H3, H4.
Qed.

Example ex_moved :
  run_find (2, 0) = [0] /\ run_find (0, 2) = [1] /\ run_find (1, 2) = [1] /\
  run_find (2, 2) = [0] /\ run_find (1, 0) = [-1].
Proof. vm_compute. repeat split. Qed.

(* ------------------------------------------------------------------ *)
(* pipelines: the invariant of run_steps                               *)
(* ------------------------------------------------------------------ *)
(* origin events of the files of a pipeline, in creation order *)
Definition omf (oms : list (list Z)) (j : nat) : list Z := nth j oms [].

Lemma omf_snoc oms new n j :
  length oms = n -> omf (oms ++ [new]) j = omap_ext (omf oms) n new j.
Proof.
  intros <-. unfold omf, omap_ext.
  destruct (Nat.eqb j (length oms)) eqn:E.
  - apply Nat.eqb_eq in E. subst. rewrite app_nth2, Nat.sub_diag by lia.
    reflexivity.
  - apply Nat.eqb_neq in E. destruct (Nat.lt_ge_cases j (length oms)).
    + now rewrite app_nth1.
    + rewrite !nth_overflow; auto. rewrite app_length; simpl; lia.
Qed.

Lemma file_sound_ext truth om1 om2 st fid fl :
  (forall j, om1 j = om2 j) ->
  file_sound truth om1 st fid fl -> file_sound truth om2 st fid fl.
Proof.
  intros He (HI & HB & HN). unfold file_sound. repeat split.
  - intros f d Ha. rewrite <- He. now apply HI.
  - intros b Hb Hi. specialize (HB b Hb Hi). rewrite <- !He. exact HB.
  - intros b Hb Hi. destruct (HN b Hb Hi) as (k & m & rows & H).
    exists k, m, rows. rewrite <- He. exact H.
Qed.

Lemma store_sound_ext truth om1 om2 st :
  (forall j, om1 j = om2 j) ->
  store_sound truth om1 st -> store_sound truth om2 st.
Proof.
  intros He Hst fid fl Hg. apply (file_sound_ext truth om1 om2); auto.
Qed.

Lemma assoc_filter_sub {B} (p : Z -> bool) f (l : list (Z * B)) d :
  assoc f (filter (fun kv => p (fst kv)) l) = Some d ->
  p f = true /\ assoc f l = Some d.
Proof.
  induction l as [|[k v] l IH]; simpl; [discriminate|].
  destruct (p k) eqn:Ep; simpl.
  - destruct (f =? k) eqn:E.
    + intros H. assert (k = f) by lia. subst. auto.
    + exact IH.
  - intros H. destruct (IH H) as [Hp Ha]. split; [assumption|].
    destruct (f =? k) eqn:E; [|assumption].
    assert (k = f) by lia. subst. congruence.
Qed.

Section Pipeline.
  Variable truth : Z -> list Z.

  Definition pipe_inv (oms : list (list Z)) (st : store) : Prop :=
    length oms = length st /\
    store_sound truth (omf oms) st /\
    scoped st /\
    internal_listed st /\
    (forall fid fl, get_file st fid = Some fl ->
       length (f_slots fl) = 10%nat /\ f_n fl = zlen (omf oms fid)).

  Lemma pipe_inv_nil : pipe_inv [] [].
  Proof.
    destruct (store_sound_nil truth (omf [])) as [S C].
    unfold pipe_inv. split; [reflexivity|]. split; [exact S|].
    split; [exact C|].
    split; intros j fl H; unfold get_file in H;
      destruct j; simpl in H; discriminate.
  Qed.

  Lemma get_file_snoc_none (st : store) fid fl :
    get_file (st ++ [None]) fid = Some fl ->
    (fid < length st)%nat /\ get_file st fid = Some fl.
  Proof.
    intros Hg. destruct (Nat.lt_ge_cases fid (length st)) as [Hlt|Hge].
    - rewrite get_file_app_old in Hg by assumption. auto.
    - pose proof (get_file_bound _ _ _ Hg) as Hb.
      rewrite app_length in Hb; simpl in Hb.
      assert (fid = length st) by lia. subst fid.
      unfold get_file in Hg.
      rewrite nth_error_app2, Nat.sub_diag in Hg by lia. discriminate.
  Qed.

  (* a failed step leaves a hole; nothing else changes *)
  Lemma pipe_inv_snoc_none oms st new :
    pipe_inv oms st -> pipe_inv (oms ++ [new]) (st ++ [None]).
  Proof.
    intros (Hl & Hst & Hsc & Hint & Hsl).
    assert (Hom : forall j, (j < length st)%nat ->
                            omf (oms ++ [new]) j = omf oms j).
    { intros j Hj. unfold omf. rewrite app_nth1 by lia. reflexivity. }
    split; [rewrite !app_length; simpl; lia|]. split; [|split; [|split]].
    - intros fid fl Hg. destruct (get_file_snoc_none st fid fl Hg) as [Hlt Ho].
      destruct (Hst fid fl Ho) as (HI & HB & HN). unfold file_sound.
      rewrite (Hom fid Hlt). repeat split; auto.
      intros b Hb Hi. specialize (HB b Hb Hi).
      pose proof (Hsc fid fl Ho b Hb Hi).
      rewrite (Hom (b_target b)) by lia. exact HB.
    - intros fid fl Hg b Hb Hi.
      destruct (get_file_snoc_none st fid fl Hg) as [_ Ho].
      exact (Hsc fid fl Ho b Hb Hi).
    - intros fid fl Hg b Hb Hi.
      destruct (get_file_snoc_none st fid fl Hg) as [_ Ho].
      exact (Hint fid fl Ho b Hb Hi).
    - intros fid fl Hg.
      destruct (get_file_snoc_none st fid fl Hg) as [Hlt Ho].
      rewrite (Hom fid Hlt). exact (Hsl fid fl Ho).
  Qed.

  Lemma pipe_inv_snoc_some oms st fl' new :
    pipe_inv oms st ->
    file_sound truth (omap_ext (omf oms) (length st) new)
               (st ++ [Some fl']) (length st) fl' ->
    (forall b, In b (f_basins fl') -> b_internal b = false ->
               (b_target b < length st)%nat) ->
    (forall b, In b (f_basins fl') -> b_internal b = true ->
               b_feats b <> None) ->
    length (f_slots fl') = 10%nat ->
    f_n fl' = zlen new ->
    pipe_inv (oms ++ [new]) (st ++ [Some fl']).
  Proof.
    intros (Hl & Hst & Hsc & Hint & Hsl) Hnew Htg Hli Hs10 Hn.
    destruct (store_sound_snoc truth (omf oms) st fl' new Hst Hsc Hnew Htg)
      as [S C].
    assert (He : forall j, omap_ext (omf oms) (length st) new j
                           = omf (oms ++ [new]) j)
      by (intros j; symmetry; now apply omf_snoc).
    split; [rewrite !app_length; simpl; lia|]. split; [|split; [|split]].
    - exact (store_sound_ext truth _ _ _ He S).
    - exact C.
    - intros fid fl Hg b Hb Hi.
      destruct (get_file_snoc_cases (omf oms) st fl' fid fl Hg) as [[_ Ho]|[-> ->]].
      + exact (Hint fid fl Ho b Hb Hi).
      + exact (Hli b Hb Hi).
    - intros fid fl Hg. rewrite <- He.
      destruct (get_file_snoc_cases (omf oms) st fl' fid fl Hg) as [[Hlt Ho]|[-> ->]].
      + unfold omap_ext.
        replace (Nat.eqb fid (length st)) with false
          by (symmetry; apply Nat.eqb_neq; lia). exact (Hsl fid fl Ho).
      + unfold omap_ext. rewrite Nat.eqb_refl. auto.
  Qed.

  (* store_basin lists the features of internal basins *)
  Lemma store_basins_listed sbs :
    forall fl fl',
      (forall b, In b (f_basins fl) -> b_internal b = true ->
                 b_feats b <> None) ->
      store_basins fl sbs = Some fl' ->
      forall b, In b (f_basins fl') -> b_internal b = true ->
                b_feats b <> None.
  Proof.
    induction sbs as [|sb sbs IH]; intros fl fl' H0 H; simpl in H.
    - inversion H; subst. exact H0.
    - destruct (store_basin fl sb) as [fl1|] eqn:E1; [|discriminate].
      apply (IH fl1 fl'); [|assumption].
      intros b Hb Hi. unfold store_basin in E1.
      destruct sb as [data m|t [mm|] name feats]; simpl in E1.
      + destruct (alloc (f_slots fl) m) as [[k s']|]; [|discriminate].
        inversion E1; subst; simpl in Hb. apply in_app_or in Hb.
        destruct Hb as [Hb|[<-|[]]]; [now apply H0|simpl; discriminate].
      + destruct (match name with
                  | Some k => alloc_named (Z.to_nat k) (f_slots fl) mm
                  | None => alloc (f_slots fl) mm
                  end) as [[k s']|]; [|discriminate].
        inversion E1; subst; simpl in Hb. apply in_app_or in Hb.
        destruct Hb as [Hb|[<-|[]]]; [now apply H0|simpl in Hi; discriminate].
      + inversion E1; subst; simpl in Hb. apply in_app_or in Hb.
        destruct Hb as [Hb|[<-|[]]]; [now apply H0|simpl in Hi; discriminate].
  Qed.

  (* ---------------- the copy step ------------------------------------ *)
  Lemma copy_file_sound oms st src fl keep :
    pipe_inv oms st ->
    get_file st src = Some fl ->
    pipe_inv (oms ++ [omf oms src])
             (st ++ [Some (copy_file fl keep)]).
  Proof.
    intros Hinv Hg. pose proof Hinv as (Hl & Hst & Hsc & Hint & Hsl).
    pose proof (get_file_bound st src fl Hg) as Hsrc.
    destruct (Hst src fl Hg) as (HI & HB & HN).
    destruct (Hsl src fl Hg) as [Hs10 Hn].
    assert (Hown : omap_ext (omf oms) (length st) (omf oms src) (length st)
                   = omf oms src)
      by (unfold omap_ext; now rewrite Nat.eqb_refl).
    assert (Hold : forall j, (j < length st)%nat ->
              omap_ext (omf oms) (length st) (omf oms src) j = omf oms j).
    { intros j Hj. unfold omap_ext.
      replace (Nat.eqb j (length st)) with false
        by (symmetry; apply Nat.eqb_neq; lia). reflexivity. }
    assert (Hcb : forall b, In b (f_basins (copy_file fl keep)) ->
              exists b0, In b0 (f_basins fl) /\
                         In b (copy_basin (f_innate fl) keep b0)).
    { intros b Hb. simpl in Hb. apply in_flat_map in Hb. exact Hb. }
    apply pipe_inv_snoc_some; auto.
    - unfold file_sound. rewrite Hown. repeat split.
      + intros f d Ha. simpl in Ha.
        apply (assoc_filter_sub (fun k => zmem k keep)) in Ha as [_ Ha].
        now apply HI.
      + intros b Hb Hi. destruct (Hcb b Hb) as [b0 [Hb0 Hin]].
        unfold copy_basin in Hin. destruct (b_internal b0) eqn:Ei0.
        * destruct (filter (fun f => zmem f keep)
                           (match b_feats b0 with Some l => l | None => [] end));
            [contradiction|]. destruct Hin as [<-|[]]. discriminate.
        * destruct Hin as [<-|[]]. specialize (HB b0 Hb0 Ei0).
          pose proof (Hsc src fl Hg b0 Hb0 Ei0).
          rewrite Hold by lia. exact HB.
      + intros b Hb Hi. destruct (Hcb b Hb) as [b0 [Hb0 Hin]].
        unfold copy_basin in Hin. destruct (b_internal b0) eqn:Ei0.
        * destruct (filter (fun f => zmem f keep)
                           (match b_feats b0 with Some l => l | None => [] end));
            [contradiction|]. destruct Hin as [<-|[]]. simpl.
          destruct (HN b0 Hb0 Ei0) as (k & m & rows & Hk & Hs & Hr & Hd).
          exists k, m, rows. repeat split; auto.
          intros f d Ha.
          apply (assoc_filter_sub
                   (fun k0 => zmem k0 keep
                              && negb (has_key k0 (f_innate fl)))) in Ha
            as [_ Ha]. now apply Hd.
        * destruct Hin as [<-|[]]. congruence.
    - intros b Hb Hi. destruct (Hcb b Hb) as [b0 [Hb0 Hin]].
      unfold copy_basin in Hin. destruct (b_internal b0) eqn:Ei0.
      + destruct (filter (fun f => zmem f keep)
                         (match b_feats b0 with Some l => l | None => [] end));
          [contradiction|]. destruct Hin as [<-|[]]. discriminate.
      + destruct Hin as [<-|[]]. pose proof (Hsc src fl Hg b0 Hb0 Ei0). lia.
    - intros b Hb Hi. destruct (Hcb b Hb) as [b0 [Hb0 Hin]].
      unfold copy_basin in Hin. destruct (b_internal b0) eqn:Ei0.
      + destruct (filter (fun f => zmem f keep)
                         (match b_feats b0 with Some l => l | None => [] end));
          [contradiction|]. destruct Hin as [<-|[]]. simpl. discriminate.
      + destruct Hin as [<-|[]]. congruence.
  Qed.

  (* ---------------- what a step may assume --------------------------- *)
  (* [new]: the origin events the new file stands for *)
  Inductive step_ok (oms : list (list Z)) (st : store)
    : step -> list Z -> Prop :=
  | ok_write n innate sbs new :
      n = zlen new ->
      (forall f d, assoc f innate = Some d ->
                   gather (truth f) new = Some d) ->
      Forall (request_ok truth (omf oms) st new) sbs ->
      step_ok oms st (SWrite n innate sbs) new
  | ok_export src pfilts filt feats cv :
      (forall root, get_file st (Z.to_nat src) = Some root ->
         match pfilts with
         | [] => cv = omf oms (Z.to_nat src)
         | _ => exists idx, child2root pfilts = Some idx /\
                            gather (omf oms (Z.to_nat src)) idx = Some cv
         end) ->
      step_ok oms st (SExport src pfilts filt feats) (fmask filt cv)
  | ok_copy src keep :
      step_ok oms st (SCopy src keep) (omf oms (Z.to_nat src)).

  Lemma run_step_inv oms st s new :
    pipe_inv oms st -> step_ok oms st s new ->
    pipe_inv (oms ++ [new]) (run_step st s).
  Proof.
    intros Hinv Hok. pose proof Hinv as (Hl & Hst & Hsc & Hint & Hsl).
    destruct Hok as [n innate sbs new Hn Hinn Hreq
                    |src pfilts filt feats cv Hcv|src keep];
      unfold run_step.
    - destruct (forallb _ sbs); [|now apply pipe_inv_snoc_none].
      destruct (store_basins _ sbs) as [fl'|] eqn:E;
        [|now apply pipe_inv_snoc_none].
      destruct (write_file_sound truth (omf oms) st n innate sbs fl' new
                                 Hinn Hreq E) as [Hnew Htg].
      assert (Hnames : Forall name_ok sbs).
      { apply Forall_forall. intros sb Hs. rewrite Forall_forall in Hreq.
        exact (request_name_ok truth (omf oms) st new sb (Hreq sb Hs)). }
      assert (Hl0 : length (f_slots {| f_n := n; f_innate := innate;
                                       f_slots := empty_slots;
                                       f_basins := [] |}) = 10%nat)
        by reflexivity.
      destruct (store_basins_written sbs _ fl' Hl0 Hnames E)
        as (_ & Hfn & Hs10 & _).
      apply pipe_inv_snoc_some; auto.
      + apply (store_basins_listed sbs
                 {| f_n := n; f_innate := innate; f_slots := empty_slots;
                    f_basins := [] |} fl'); [|exact E].
        intros b [].
      + simpl in Hfn. congruence.
    - destruct (export st (Z.to_nat src) pfilts filt feats) as [fl'|] eqn:E;
        [|now apply pipe_inv_snoc_none].
      assert (Hroot : exists root, get_file st (Z.to_nat src) = Some root).
      { unfold export in E.
        destruct (get_file st (Z.to_nat src)); [eauto|discriminate]. }
      destruct Hroot as [root Hroot].
      destruct (Hsl _ _ Hroot) as [Hr10 Hrn].
      assert (Hcv' : match pfilts with
                     | [] => f_n root = zlen (omf oms (Z.to_nat src)) /\
                             cv = omf oms (Z.to_nat src)
                     | _ => exists idx, child2root pfilts = Some idx /\
                              gather (omf oms (Z.to_nat src)) idx = Some cv
                     end).
      { specialize (Hcv root Hroot). destruct pfilts; auto. }
      destruct (export_sound truth (omf oms) st (Z.to_nat src) root pfilts
                             filt feats fl' cv Hst Hsc Hroot Hr10 Hcv' E)
        as (Hnew & Hfn & Hs10 & _ & Htg & Hnoint).
      apply pipe_inv_snoc_some; auto.
      (* exported files have no internal basins *)
      intros b Hb Hi. rewrite (Hnoint b Hb) in Hi. discriminate.
    - destruct (get_file st (Z.to_nat src)) as [fl|] eqn:Eg;
        [|now apply pipe_inv_snoc_none].
      now apply copy_file_sound.
  Qed.

  (* what the steps of a pipeline may assume, each in the store built by
     the steps before it *)
  Fixpoint steps_ok (oms : list (list Z)) (st : store) (steps : list step)
           (news : list (list Z)) : Prop :=
    match steps, news with
    | [], [] => True
    | s :: r, new :: nr =>
        step_ok oms st s new /\ steps_ok (oms ++ [new]) (run_step st s) r nr
    | _, _ => False
    end.

  Lemma run_steps_inv steps :
    forall news oms st,
      pipe_inv oms st -> steps_ok oms st steps news ->
      pipe_inv (oms ++ news) (fold_left run_step steps st).
  Proof.
    induction steps as [|s steps IH]; intros [|new news] oms st Hinv Hok;
      simpl in Hok; try contradiction.
    - now rewrite app_nil_r.
    - destruct Hok as [Hs Hr]. simpl.
      replace (oms ++ new :: news) with ((oms ++ [new]) ++ news)
        by (rewrite <- app_assoc; reflexivity).
      apply IH; [|assumption]. now apply run_step_inv.
  Qed.

  (* Pipelines of any length and shape (hand-written files with same /
     mapped / internal basins, filtered and unfiltered exports from files and
     hierarchy children, copies, failed steps): the store computed by
     run_steps - the function that is run against the real code - satisfies
     the invariant, with the origin events [news]. *)
  Lemma pipeline_sound steps news :
    steps_ok [] [] steps news -> pipe_inv news (run_steps steps).
  Proof.
    intros H. exact (run_steps_inv steps news [] [] pipe_inv_nil H).
  Qed.

  (* ... hence whatever can be read from any file of the pipeline is the
     origin's data at the file's origin events, through every access *)
  Lemma pipeline_resolve steps news fid f d :
    steps_ok [] [] steps news ->
    resolve (run_steps steps) fid f = Some d ->
    gather (truth f) (nth fid news []) = Some d.
  Proof.
    intros H Hr. destruct (pipeline_sound steps news H) as (_ & Hst & _).
    exact (resolve_sound truth (omf news) _ fid f d Hst Hr).
  Qed.
End Pipeline.

Example ex_pipeline :
  steps_ok ex_truth [] []
    [SWrite 3 [(1, [10; 11; 12]); (2, [70; 71; 72])] [];
     SWrite 4 [] ex_sbs;
     SCopy 1 [1; 2];
     SExport 2 [] (Some [true; false; true; true]) (Some [])]
    [[0; 1; 2]; [2; 2; 0; 1]; [2; 2; 0; 1]; [2; 0; 1]].
Proof.
  simpl. repeat split.
  - constructor; [reflexivity| |constructor].
    intros f d H. simpl in H. unfold ex_truth.
    destruct (f =? 1) eqn:E1; [inversion H; reflexivity|].
    destruct (f =? 2) eqn:E2; [inversion H; reflexivity|discriminate].
  - constructor; [reflexivity|intros f d H; discriminate|].
    repeat constructor; simpl; auto.
    exists [2; 0; 1]. split; [reflexivity|].
    intros f d H. simpl in H. unfold ex_truth.
    destruct (f =? 2) eqn:E2; [|discriminate].
    assert (f = 2) by lia. subst. inversion H. reflexivity.
  - exact (ok_copy ex_truth _ _ 1 [1; 2]).
  - change [2; 0; 1]
      with (fmask (Some [true; false; true; true]) [2; 2; 0; 1]).
    apply ok_export. intros root _. reflexivity.
Qed.

(* every way of reading (index, iteration, np.array, cast) what lookup
   hands out shows the origin's feature at the file's events *)
Lemma access_sound truth omap st fid f o mapped cast amax amin cache ac :
  store_sound truth omap st ->
  lookup (fuel_of st) st fid f = Some o ->
  gather (truth f) (omap fid) = Some mapped ->
  match o with
  | ODirect d => direct_access cast amax amin d ac
                 = direct_access cast amax amin mapped ac
  | OProxy d m =>
      forall dm, gather d m = Some dm ->
      cache_ok (is_scalar_feat f) dm cache ->
      snd (proxy_access Z d m (is_scalar_feat f) cast amax amin cache ac)
      = direct_access cast amax amin mapped ac
  end.
Proof.
  intros Hst Hl Hg. destruct o as [d|d m].
  - pose proof (lookup_sound truth omap st Hst _ _ _ _ d Hl eq_refl) as H.
    rewrite Hg in H. now inversion H.
  - intros dm Hdm Hc.
    pose proof (lookup_sound truth omap st Hst _ _ _ _ dm Hl Hdm) as H.
    rewrite Hg in H. inversion H; subst.
    exact (proj1 (proxy_access_agree d m _ cast amax amin dm Hdm cache ac
                                     Hc)).
Qed.
