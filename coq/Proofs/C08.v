(* Proofs about the dataset-level copy of Model/C08.v: chunk iteration,
   string conversion, h5ds_copy. *)
From Coq Require Import ZArith List Bool Lia ZifyBool ZifyNat.
From Verif Require Import Model.C08.
Import ListNotations.
Open Scope Z_scope.

(* ---------------------------------------------------------------------- *)
(* counting                                                                 *)
(* ---------------------------------------------------------------------- *)
Fixpoint countb {A} (p : A -> bool) (l : list A) : Z :=
  match l with
  | [] => 0
  | x :: l' => (if p x then 1 else 0) + countb p l'
  end.

Lemma countb_app {A} (p : A -> bool) l1 l2 :
  countb p (l1 ++ l2) = countb p l1 + countb p l2.
Proof. induction l1 as [|x l1 IH]; simpl; [reflexivity|]. rewrite IH. lia. Qed.

Lemma countb_nonneg {A} (p : A -> bool) l : 0 <= countb p l.
Proof. induction l as [|x l IH]; simpl; [lia|]. destruct (p x); lia. Qed.

Lemma countb_false {A} (p : A -> bool) l :
  (forall x, In x l -> p x = false) -> countb p l = 0.
Proof.
  induction l as [|x l IH]; simpl; intros H; [reflexivity|].
  rewrite (H x) by now left. rewrite IH; [reflexivity|]. intros; apply H; now right.
Qed.

Lemma countb_pos_In {A} (p : A -> bool) l :
  0 < countb p l -> exists x, In x l /\ p x = true.
Proof.
  induction l as [|x l IH]; simpl; [lia|].
  destruct (p x) eqn:E.
  - intros _. exists x; auto.
  - intros H. destruct IH as [y [Hy Hp]]; [lia|]. exists y; auto.
Qed.

Lemma countb_ext {A} (p q : A -> bool) l :
  (forall x, In x l -> p x = q x) -> countb p l = countb q l.
Proof.
  induction l as [|x l IH]; simpl; intros H; [reflexivity|].
  rewrite (H x) by now left. rewrite IH; [reflexivity|]. intros; apply H; now right.
Qed.

Definition in_iv (i : Z) (iv : Z * Z) : bool := (fst iv <=? i) && (i <? snd iv).

Fixpoint in_box (idx : list Z) (b : box) : bool :=
  match idx, b with
  | [], [] => true
  | i :: is_, iv :: b' => in_iv i iv && in_box is_ b'
  | _, _ => false
  end.

(* ---------------------------------------------------------------------- *)
(* one dimension                                                            *)
(* ---------------------------------------------------------------------- *)
Lemma dim_ivs_aux_count fuel : forall start n c i,
  0 < c -> start <= i -> i < n -> n - start <= Z.of_nat fuel ->
  countb (in_iv i) (dim_ivs_aux fuel start n c) = 1.
Proof.
  induction fuel as [|k IH]; intros start n c i Hc Hs Hi Hf; [lia|].
  cbn [dim_ivs_aux]. destruct (n <=? start) eqn:E; [lia|].
  cbn [countb]. unfold in_iv at 1; cbn [fst snd].
  destruct (i <? Z.min (start + c) n) eqn:E2.
  - replace (start <=? i) with true by lia. cbn [andb].
    rewrite countb_false; [lia|].
    (* all later intervals start at >= start + c > i *)
    assert (G : forall fuel' s, start + c <= s ->
              forall iv, In iv (dim_ivs_aux fuel' s n c) -> in_iv i iv = false).
    { clear - E2 Hc. induction fuel' as [|k' IH']; intros s Hs iv; simpl; [tauto|].
      destruct (n <=? s); [simpl; tauto|]. intros [<-|H].
      - unfold in_iv; cbn [fst snd]. lia.
      - apply (IH' (s + c)); [lia|exact H]. }
    apply (G k (start + c)); lia.
  - replace ((start <=? i) && false) with false by (destruct (start <=? i); reflexivity).
    rewrite IH; lia.
Qed.

Lemma dim_ivs_count n c i :
  0 < c -> 0 <= i -> i < n -> countb (in_iv i) (dim_ivs n c) = 1.
Proof. intros; unfold dim_ivs; apply dim_ivs_aux_count; lia. Qed.

Lemma dim_ivs_aux_bounds fuel : forall start n c iv,
  0 < c -> 0 <= start -> In iv (dim_ivs_aux fuel start n c) ->
  0 <= fst iv /\ fst iv < snd iv /\ snd iv <= n.
Proof.
  induction fuel as [|k IH]; intros start n c iv Hc Hs; simpl; [tauto|].
  destruct (n <=? start) eqn:E; [simpl; tauto|].
  intros [<-|H]; cbn [fst snd]; [lia|]. apply (IH (start + c) n c); auto; lia.
Qed.

(* ---------------------------------------------------------------------- *)
(* all dimensions: every index vector of the dataspace lies in exactly one
   chunk of the iteration                                                   *)
(* ---------------------------------------------------------------------- *)
Fixpoint in_range (idx shape : list Z) : Prop :=
  match idx, shape with
  | [], [] => True
  | i :: is_, n :: ns => 0 <= i < n /\ in_range is_ ns
  | _, _ => False
  end.

Lemma countb_flat_map_cons (i : Z) (rest : list Z) (ivs : list (Z * Z))
      (bs : list box) :
  countb (in_box (i :: rest))
         (flat_map (fun iv => map (cons iv) bs) ivs)
  = countb (in_iv i) ivs * countb (in_box rest) bs.
Proof.
  induction ivs as [|iv ivs IH]; cbn [flat_map countb]; [lia|].
  rewrite countb_app, IH.
  assert (E : countb (in_box (i :: rest)) (map (cons iv) bs)
              = (if in_iv i iv then 1 else 0) * countb (in_box rest) bs).
  { clear. induction bs as [|b bs IHb]; cbn [map countb]; [lia|].
    rewrite IHb.
    change (in_box (i :: rest) (iv :: b)) with (in_iv i iv && in_box rest b).
    destruct (in_iv i iv); cbn [andb]; lia. }
  rewrite E. lia.
Qed.

Lemma boxes_rec_cover : forall shape chunks idx,
  length shape = length chunks ->
  Forall (fun c => 0 < c) chunks ->
  in_range idx shape ->
  countb (in_box idx) (boxes_rec shape chunks) = 1.
Proof.
  induction shape as [|n ns IH]; intros chunks idx Hl Hc Hr.
  - destruct idx; [|contradiction]. reflexivity.
  - destruct chunks as [|c cs]; [discriminate|].
    destruct idx as [|i rest]; [contradiction|]. destruct Hr as [Hi Hr].
    inversion Hc as [|? ? Hc0 Hcs]; subst.
    cbn [boxes_rec]. rewrite countb_flat_map_cons.
    rewrite dim_ivs_count by lia. rewrite IH; auto.
Qed.

Lemma iter_chunks_cover shape chunks idx :
  shape <> [] ->
  length shape = length chunks ->
  Forall (fun c => 0 < c) chunks ->
  in_range idx shape ->
  countb (in_box idx) (boxes shape chunks) = 1.
Proof.
  intros Hne Hl Hc Hr. unfold boxes. destruct shape; [congruence|].
  now apply boxes_rec_cover.
Qed.

(* the chunks stay inside the dataspace *)
Lemma boxes_rec_inside : forall shape chunks b idx,
  length shape = length chunks ->
  Forall (fun c => 0 < c) chunks ->
  In b (boxes_rec shape chunks) -> in_box idx b = true -> in_range idx shape.
Proof.
  induction shape as [|n ns IH]; intros chunks b idx Hl Hc Hb Hi.
  - simpl in Hb. destruct Hb as [<-|[]]. destruct idx; simpl in *; [exact I|discriminate].
  - destruct chunks as [|c cs]; [discriminate|].
    inversion Hc as [|? ? Hc0 Hcs]; subst.
    cbn [boxes_rec] in Hb. apply in_flat_map in Hb. destruct Hb as [iv [Hiv Hb]].
    apply in_map_iff in Hb. destruct Hb as [b' [<- Hb']].
    destruct idx as [|i rest]; [discriminate|]. cbn [in_box] in Hi.
    apply andb_prop in Hi. destruct Hi as [Hi1 Hi2].
    unfold dim_ivs in Hiv. apply dim_ivs_aux_bounds in Hiv; [|lia|lia].
    unfold in_iv in Hi1. split; [lia|].
    apply (IH cs b' rest); auto.
Qed.

(* ---------------------------------------------------------------------- *)
(* the element writes of the copy loop                                      *)
(* ---------------------------------------------------------------------- *)
Lemma idx_eqb_eq a : forall b, idx_eqb a b = true <-> a = b.
Proof.
  induction a as [|x a IH]; intros [|y b]; simpl; split; try congruence; try discriminate.
  - intros H. apply andb_prop in H. destruct H as [H1 H2].
    apply IH in H2. f_equal; [lia|assumption].
  - intros [= -> ->]. rewrite Z.eqb_refl. simpl. now apply IH.
Qed.

Lemma idx_eqb_refl a : idx_eqb a a = true.
Proof. now apply idx_eqb_eq. Qed.

Lemma zrange_aux_In k : forall a i, In i (zrange_aux k a) <-> a <= i < a + Z.of_nat k.
Proof.
  induction k as [|k IH]; intros a i; simpl; [lia|].
  rewrite IH. lia.
Qed.

Lemma zrange_In a b i : In i (zrange a b) <-> a <= i < b.
Proof. unfold zrange. rewrite zrange_aux_In. lia. Qed.

Lemma box_idx_In : forall b idx, In idx (box_idx b) <-> in_box idx b = true.
Proof.
  induction b as [|[lo hi] b IH]; intros idx; cbn [box_idx].
  - destruct idx; simpl; split; auto; try discriminate.
    + intros [H|[]]; discriminate.
  - rewrite in_flat_map. split.
    + intros [i [Hi Hm]]. apply in_map_iff in Hm. destruct Hm as [r [<- Hr]].
      cbn [in_box]. apply zrange_In in Hi. apply IH in Hr. rewrite Hr.
      unfold in_iv; cbn [fst snd]. lia.
    + destruct idx as [|i rest]; [discriminate|]. cbn [in_box]. intros H.
      apply andb_prop in H. destruct H as [H1 H2]. unfold in_iv in H1; cbn [fst snd] in H1.
      exists i. split; [apply zrange_In; lia|]. apply in_map. now apply IH.
Qed.

(* reading the log: any write to idx determines the value when all writes
   to idx carry the same value *)
Lemma read_uniform (g : list Z -> elem) (w : wlog) idx :
  (forall i v, In (i, v) w -> v = g i) ->
  (exists v, In (idx, v) w) ->
  read w idx = g idx.
Proof.
  induction w as [|[i v] w IH]; intros Hall [v0 Hin]; [destruct Hin|].
  cbn [read]. destruct (idx_eqb idx i) eqn:E.
  - apply idx_eqb_eq in E. subst. apply Hall. now left.
  - apply IH.
    + intros; apply Hall; now right.
    + destruct Hin as [Hin|Hin]; [|eauto].
      inversion Hin; subst. rewrite idx_eqb_refl in E. discriminate.
Qed.

Lemma chunk_writes_spec shape data (bs : list box) : forall w0 i v,
  In (i, v) (fold_left (write_box shape data) bs w0) <->
  In (i, v) w0 \/ (v = src_at shape data i /\ exists b, In b bs /\ In i (box_idx b)).
Proof.
  induction bs as [|b bs IH]; intros w0 i v; cbn [fold_left].
  - split; [auto|]. intros [H|[_ [b [[] _]]]]; assumption.
  - rewrite IH. unfold write_box at 1. rewrite in_app_iff, <- in_rev, in_map_iff.
    split.
    + intros [[H|H]|H].
      * destruct H as [j [Hj Hin]]. inversion Hj; subst. right. split; [reflexivity|].
        exists b. split; [now left|assumption].
      * now left.
      * destruct H as [Hv [b' [Hb' Hi]]]. right. split; [assumption|].
        exists b'. split; [now right|assumption].
    + intros [H|[Hv [b' [[<-|Hb'] Hi]]]].
      * left. now right.
      * left. left. exists i. subst. auto.
      * right. split; [assumption|]. exists b'. auto.
Qed.

(* Every element of the dataspace is read back as the source element. *)
Lemma chunk_copy_pointwise shape chunks data idx :
  shape <> [] ->
  length shape = length chunks ->
  Forall (fun c => 0 < c) chunks ->
  in_range idx shape ->
  read (chunk_writes shape chunks data) idx = src_at shape data idx.
Proof.
  intros Hne Hl Hc Hr. unfold chunk_writes.
  apply (read_uniform (src_at shape data)).
  - intros i v Hin. apply chunk_writes_spec in Hin. destruct Hin as [[]|[Hv _]]. exact Hv.
  - pose proof (iter_chunks_cover shape chunks idx Hne Hl Hc Hr) as Hcov.
    destruct (countb_pos_In (in_box idx) (boxes shape chunks)) as [b [Hb Hin]]; [lia|].
    exists (src_at shape data idx). apply chunk_writes_spec. right. split; [reflexivity|].
    exists b. split; [assumption|]. now apply box_idx_In.
Qed.

Lemma full_box_in_range : forall shape idx,
  in_box idx (full_box shape) = true -> in_range idx shape.
Proof.
  induction shape as [|n ns IH]; intros [|i rest]; simpl; try discriminate; auto.
  intros H. apply andb_prop in H. destruct H as [H1 H2]. unfold in_iv in H1; cbn [fst snd] in H1.
  split; [lia|]. now apply IH.
Qed.

Lemma chunk_copy_is_src shape chunks data :
  shape <> [] ->
  length shape = length chunks ->
  Forall (fun c => 0 < c) chunks ->
  chunk_copy shape chunks data = map (src_at shape data) (all_idx shape).
Proof.
  intros Hne Hl Hc. unfold chunk_copy. apply map_ext_in. intros idx Hin.
  apply chunk_copy_pointwise; auto. apply full_box_in_range.
  now apply box_idx_In.
Qed.

(* ---------------------------------------------------------------------- *)
(* row-major enumeration: reading all indices in order gives the list back  *)
(* ---------------------------------------------------------------------- *)
Lemma zprod_nonneg shape : Forall (fun n => 0 <= n) shape -> 0 <= zprod shape.
Proof.
  induction 1 as [|n ns Hn Hns IH]; simpl; [lia|]. unfold zprod in *. simpl. nia.
Qed.

Lemma zrange_aux_app k1 : forall k2 a,
  zrange_aux (k1 + k2) a = zrange_aux k1 a ++ zrange_aux k2 (a + Z.of_nat k1).
Proof.
  induction k1 as [|k1 IH]; intros k2 a; simpl.
  - f_equal. lia.
  - rewrite IH. do 3 f_equal. lia.
Qed.

Lemma zrange_aux_shift k : forall a d,
  map (Z.add d) (zrange_aux k a) = zrange_aux k (d + a).
Proof.
  induction k as [|k IH]; intros a d; simpl; [reflexivity|].
  rewrite IH. do 2 f_equal. lia.
Qed.

(* offsets of all index vectors of the full box, in order: 0, 1, 2, ... *)
Lemma flat_all_idx : forall shape,
  Forall (fun n => 0 <= n) shape ->
  map (flat_of shape) (all_idx shape) = zrange_aux (Z.to_nat (zprod shape)) 0.
Proof.
  induction shape as [|n ns IH]; intros Hs.
  - reflexivity.
  - inversion Hs as [|? ? Hn Hns]; subst. specialize (IH Hns).
    pose proof (zprod_nonneg ns Hns) as HP.
    unfold all_idx in *. cbn [full_box map box_idx].
    change (map (fun n0 => (0, n0)) ns) with (full_box ns).
    (* generalise over the prefix of rows already emitted *)
    assert (G : forall k a, 0 <= a ->
      map (flat_of (n :: ns))
          (flat_map (fun i => map (cons i) (box_idx (full_box ns))) (zrange_aux k a))
      = zrange_aux (k * Z.to_nat (zprod ns)) (a * zprod ns)).
    { induction k as [|k IHk]; intros a Ha; [reflexivity|].
      cbn [zrange_aux flat_map]. rewrite map_app, IHk by lia.
      rewrite map_map. cbn [flat_of].
      replace (S k * Z.to_nat (zprod ns))%nat
        with (Z.to_nat (zprod ns) + k * Z.to_nat (zprod ns))%nat by lia.
      rewrite zrange_aux_app. f_equal.
      - rewrite <- (map_map (flat_of ns) (Z.add (a * zprod ns))).
        fold (zprod ns). rewrite IH, zrange_aux_shift. f_equal. lia.
      - f_equal. lia. }
    unfold zrange. rewrite G by lia. f_equal.
    change (zprod (n :: ns)) with (n * zprod ns). nia.
Qed.

Lemma map_nth_range {A} (d : A) (l : list A) :
  map (fun k => nth (Z.to_nat k) l d) (zrange_aux (length l) 0) = l.
Proof.
  assert (G : forall l a (pre : list A), a = Z.of_nat (length pre) ->
            map (fun k => nth (Z.to_nat k) (pre ++ l) d) (zrange_aux (length l) a) = l).
  { clear l. induction l as [|x l IH]; intros a pre Ha; [reflexivity|].
    cbn [length zrange_aux map]. f_equal.
    - rewrite app_nth2 by lia. replace (Z.to_nat a - length pre)%nat with 0%nat by lia.
      reflexivity.
    - replace (pre ++ x :: l) with ((pre ++ [x]) ++ l) by (rewrite <- app_assoc; reflexivity).
      apply IH. rewrite app_length. simpl. lia. }
  apply (G l 0 []). reflexivity.
Qed.

Lemma read_all_is_data shape (data : list elem) :
  Forall (fun n => 0 <= n) shape ->
  Z.of_nat (length data) = zprod shape ->
  map (src_at shape data) (all_idx shape) = data.
Proof.
  intros Hs Hl. unfold src_at.
  rewrite <- (map_map (flat_of shape) (fun k => nth (Z.to_nat k) data [])).
  rewrite flat_all_idx by assumption.
  replace (Z.to_nat (zprod shape)) with (length data) by lia.
  apply map_nth_range.
Qed.

(* The chunk-wise copy reproduces the source elements. *)
Theorem chunk_copy_id shape chunks data :
  shape <> [] ->
  length shape = length chunks ->
  Forall (fun c => 0 < c) chunks ->
  Forall (fun n => 0 <= n) shape ->
  Z.of_nat (length data) = zprod shape ->
  chunk_copy shape chunks data = data.
Proof.
  intros. rewrite chunk_copy_is_src by assumption. now apply read_all_is_data.
Qed.

(* ---------------------------------------------------------------------- *)
(* strings                                                                  *)
(* ---------------------------------------------------------------------- *)
Lemma longest_ge data s : In s data -> Z.of_nat (length s) <= longest data.
Proof.
  induction data as [|x data IH]; simpl; [tauto|].
  intros [->|H]; [lia|]. specialize (IH H). lia.
Qed.

Theorem string_conversion_lossless data :
  map (to_fixed (Z.max (longest data) 100)) data = data.
Proof.
  transitivity (map (fun x : elem => x) data); [|apply map_id].
  apply map_ext_in. intros s Hs.
  unfold to_fixed. apply firstn_all2. pose proof (longest_ge data s Hs). lia.
Qed.

(* ---------------------------------------------------------------------- *)
(* h5ds_copy                                                                *)
(* ---------------------------------------------------------------------- *)
(* well-formed abstract dataset: what h5py guarantees *)
Definition wf_dset (d : dset) : Prop :=
  d_shape d <> [] /\
  Forall (fun n => 0 <= n) (d_shape d) /\
  Z.of_nat (length (d_data d)) = zprod (d_shape d) /\
  match d_chunks d with
  | None => True
  | Some ch => length (d_shape d) = length ch /\ Forall (fun c => 0 < c) ch
  end.

Theorem h5ds_copy_content ensure d :
  wf_dset d -> content (h5ds_copy ensure d) = content d.
Proof.
  intros [Hne [Hs [Hl Hc]]]. unfold h5ds_copy, content.
  destruct (ensure && negb (properly d) && negb (hd 0 (d_shape d) =? 0)); [|reflexivity].
  cbn [d_shape d_data d_attrs]. f_equal. f_equal.
  destruct (d_kind d =? 1).
  - apply string_conversion_lossless.
  - destruct (d_chunks d) as [ch|]; [|reflexivity].
    destruct Hc as [Hlc Hpos]. now apply chunk_copy_id.
Qed.

Lemma properly_copied src chunks kind width data attrs :
  properly (mkD (d_shape src) chunks kind width (Some [5]) data attrs) = true.
Proof. reflexivity. Qed.

Lemma h5ds_copy_properly_fix ensure d :
  properly d = true -> h5ds_copy ensure d = d.
Proof.
  intros H. unfold h5ds_copy. rewrite H. cbn [negb]. rewrite andb_false_r.
  reflexivity.
Qed.

(* copying a copy changes nothing at all, layout included (no hypothesis) *)
Theorem h5ds_copy_idempotent ensure d :
  h5ds_copy ensure (h5ds_copy ensure d) = h5ds_copy ensure d.
Proof.
  destruct (ensure && negb (properly d) && negb (hd 0 (d_shape d) =? 0)) eqn:E.
  - apply h5ds_copy_properly_fix. unfold h5ds_copy. rewrite E. reflexivity.
  - assert (H : h5ds_copy ensure d = d) by (unfold h5ds_copy; rewrite E; reflexivity).
    rewrite !H. reflexivity.
Qed.

(* the result of a copy is compressed, or it is the untouched source *)
Theorem h5ds_copy_compressed d :
  hd 0 (d_shape d) <> 0 -> properly (h5ds_copy true d) = true.
Proof.
  intros Hn. unfold h5ds_copy. cbn [andb].
  destruct (properly d) eqn:E; cbn [negb andb]; [exact E|].
  replace (hd 0 (d_shape d) =? 0) with false by lia. reflexivity.
Qed.

(* re-chunking only ever shrinks the first chunk dimension to the data *)
Theorem rechunk_fits n0 c0 cs :
  0 < n0 -> 0 < c0 ->
  exists c0', rechunk n0 (Some (c0 :: cs)) = Some (c0' :: cs) /\ 0 < c0' <= n0
              /\ c0' <= c0.
Proof.
  intros Hn Hc. unfold rechunk. destruct (n0 <? c0) eqn:E.
  - exists n0. split; [reflexivity|lia].
  - exists c0. split; [reflexivity|lia].
Qed.

(* ---------------------------------------------------------------------- *)
(* the odometer of h5py equals the cartesian enumeration on a swept domain  *)
(* ---------------------------------------------------------------------- *)
Definition box_eqb (a b : box) : bool :=
  idx_eqb (flat_map (fun iv => [fst iv; snd iv]) a)
          (flat_map (fun iv => [fst iv; snd iv]) b)
  && (length a =? length b)%nat.

Fixpoint boxes_eqb (a b : list box) : bool :=
  match a, b with
  | [], [] => true
  | x :: a', y :: b' => box_eqb x y && boxes_eqb a' b'
  | _, _ => false
  end.

Fixpoint tuples (k : nat) (vals : list Z) : list (list Z) :=
  match k with
  | O => [[]]
  | S k' => flat_map (fun v => map (cons v) (tuples k' vals)) vals
  end.

Definition sweep_rank (k : nat) (smax cmax : Z) : bool :=
  forallb (fun shape =>
    forallb (fun chunks => boxes_eqb (odometer shape chunks) (boxes shape chunks))
            (tuples k (zrange 1 (cmax + 1))))
    (tuples k (zrange 1 (smax + 1))).

Lemma odometer_sweep :
  sweep_rank 1 12 13 = true /\ sweep_rank 2 5 6 = true /\ sweep_rank 3 4 4 = true.
Proof. vm_compute. auto. Qed.

(* ---------------------------------------------------------------------- *)
(* non-vacuity                                                              *)
(* ---------------------------------------------------------------------- *)
Example ex_cover :
  countb (in_box [4; 5; 8]) (boxes [5; 6; 9] [2; 4; 5]) = 1
  /\ length (boxes [5; 6; 9] [2; 4; 5]) = 12%nat.
Proof. vm_compute. auto. Qed.

Example ex_wf_copy :
  let d := mkD [5; 2] (Some [7; 1]) 0 0 (Some [1])
               [[1]; [2]; [3]; [4]; [5]; [6]; [7]; [8]; [9]; [10]] [(1, 4)] in
  wf_dset d /\ h5ds_copy true d <> d
  /\ d_chunks (h5ds_copy true d) = Some [5; 1]
  /\ d_data (h5ds_copy true d) = d_data d.
Proof.
  cbv zeta. split; [|split; [|split]].
  - unfold wf_dset; cbn. repeat split; try discriminate; try lia;
      repeat constructor; lia.
  - vm_compute. discriminate.
  - vm_compute. reflexivity.
  - vm_compute. reflexivity.
Qed.

Example ex_string :
  let d := mkD [2] None 1 0 None [[104; 105]; [1; 2; 3]] [] in
  d_kind (h5ds_copy true d) = 2 /\ d_width (h5ds_copy true d) = 100
  /\ d_data (h5ds_copy true d) = d_data d.
Proof. vm_compute. auto. Qed.
