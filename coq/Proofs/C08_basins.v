(* Proofs about basin_definition_copy of Model/C08.v (the repaired single
   pass): every basin definition of the input is in the output; internal
   basins are restricted to exactly the features selected for the copy. *)
From Coq Require Import ZArith List Bool Lia ZifyBool ZifyNat.
From Verif Require Import Model.C08 Proofs.C08 Proofs.C08_file.
Import ListNotations.
Open Scope Z_scope.

Lemma assoc_None_iff {A} k (l : list (Z * A)) :
  assoc k l = None <-> ~ In k (map fst l).
Proof.
  induction l as [|[k' v] l IH]; simpl; [tauto|].
  destruct (k =? k') eqn:E.
  - split; [discriminate|]. intros H. exfalso. apply H. left. lia.
  - rewrite IH. split; [|tauto]. intros H [H1|H1]; [lia|tauto].
Qed.

Lemma assoc_NoDup_In {A} k (v : A) (l : list (Z * A)) :
  NoDup (map fst l) -> In (k, v) l -> assoc k l = Some v.
Proof.
  induction l as [|[k' v'] l IH]; simpl; intros Hnd Hin; [destruct Hin|].
  inversion Hnd as [|? ? Hk Hl]; subst.
  destruct Hin as [[= -> ->]|Hin].
  - now rewrite Z.eqb_refl.
  - destruct (k =? k') eqn:E; [|auto].
    exfalso. apply Hk. assert (k = k') by lia; subst.
    apply in_map_iff. exists (k', v). auto.
Qed.

Section Basins.
  Variable rekey : Z -> list Z -> Z.

  Definition used (fit : list Z) (bn : bdef) : list Z :=
    filter (fun x => memZ x fit) (b_feats bn).

  (* what the loop writes for one definition *)
  Definition out_of (fit : list Z) (kb : Z * bdef) : list (Z * bdef) :=
    if b_internal (snd kb) then
      match used fit (snd kb) with
      | [] => []
      | _ =>
          if idx_eqb (used fit (snd kb)) (b_feats (snd kb))
          then [(fst kb, mkB (h5ds_copy true (b_ds (snd kb))) true
                             (b_feats (snd kb)) (b_rest (snd kb)))]
          else [(rekey (fst kb) (used fit (snd kb)),
                 mkB (mkD [] None 2 0 (Some [5]) [] []) true
                     (used fit (snd kb)) (b_rest (snd kb)))]
      end
    else [(fst kb, mkB (h5ds_copy true (b_ds (snd kb))) false
                       (b_feats (snd kb)) (b_rest (snd kb)))].

  Lemma out_of_key fit kb k' b' :
    In (k', b') (out_of fit kb) ->
    k' = fst kb \/ k' = rekey (fst kb) (used fit (snd kb)).
  Proof.
    unfold out_of. destruct (b_internal (snd kb)).
    - destruct (used fit (snd kb)) as [|u us] eqn:E; [intros []|].
      destruct (idx_eqb (u :: us) (b_feats (snd kb)));
        intros [[= <- _]|[]]; auto.
    - intros [[= <- _]|[]]; auto.
  Qed.

  (* md5 names: never the name of a definition of the source, and different
     definitions get different names *)
  Definition rekey_fresh (bs : list (Z * bdef)) : Prop :=
    forall k u, ~ In (rekey k u) (map fst bs).
  Definition rekey_inj : Prop :=
    forall k1 u1 k2 u2, rekey k1 u1 = rekey k2 u2 -> k1 = k2.

  Lemma basin_fold_spec fit (Hinj : rekey_inj) : forall bs dst,
    NoDup (map fst bs) ->
    rekey_fresh bs ->
    (forall k, In k (map fst bs) -> ~ In k (map fst dst)) ->
    (forall k u, In k (map fst bs) -> ~ In (rekey k u) (map fst dst)) ->
    fold_left (basin_step rekey fit) bs dst = dst ++ flat_map (out_of fit) bs.
  Proof.
    induction bs as [|[key bn] bs IH]; intros dst Hnd Hfr Hsrc Hrk;
      cbn [fold_left flat_map]; [now rewrite app_nil_r|].
    inversion Hnd as [|? ? Hk Hnd']; subst.
    assert (Hstep : basin_step rekey fit dst (key, bn)
                    = dst ++ out_of fit (key, bn)).
    { unfold basin_step, out_of. cbn [fst snd].
      replace (assoc key dst) with (@None bdef)
        by (symmetry; apply assoc_None_iff, Hsrc; now left).
      fold (used fit bn).
      destruct (b_internal bn); [|reflexivity].
      destruct (used fit bn) as [|u us] eqn:E; [now rewrite app_nil_r|].
      destruct (idx_eqb (u :: us) (b_feats bn)); [reflexivity|].
      replace (assoc (rekey key (u :: us)) dst) with (@None bdef);
        [reflexivity|].
      symmetry. apply assoc_None_iff, Hrk. now left. }
    rewrite Hstep, IH, <- app_assoc; [reflexivity|assumption|idtac|idtac|idtac].
    - intros k u Hin. apply (Hfr k u). now right.
    - intros k Hin Hd. rewrite map_app, in_app_iff in Hd. destruct Hd as [Hd|Hd].
      + apply (Hsrc k); [now right|assumption].
      + apply in_map_iff in Hd. destruct Hd as [[k' b'] [<- Hd]].
        apply out_of_key in Hd. cbn [fst snd] in Hd. destruct Hd as [-> | ->].
        * contradiction.
        * apply (Hfr key (used fit bn)). now right.
    - intros k u Hin Hd. rewrite map_app, in_app_iff in Hd. destruct Hd as [Hd|Hd].
      + apply (Hrk k u); [now right|assumption].
      + apply in_map_iff in Hd. destruct Hd as [[k' b'] [Hk' Hd]].
        apply out_of_key in Hd. cbn [fst snd] in *. destruct Hd as [-> | ->].
        * apply (Hfr k u). left. now rewrite <- Hk'.
        * apply Hinj in Hk'. subst. contradiction.
  Qed.

  Lemma produced_keys_NoDup fit (Hinj : rekey_inj) : forall bs,
    NoDup (map fst bs) -> rekey_fresh bs ->
    NoDup (map fst (flat_map (out_of fit) bs)).
  Proof.
    induction bs as [|[key bn] bs IH]; intros Hnd Hfr; [constructor|].
    inversion Hnd as [|? ? Hk Hnd']; subst.
    cbn [flat_map]. rewrite map_app.
    assert (Hfr' : rekey_fresh bs) by (intros k u H; apply (Hfr k u); now right).
    specialize (IH Hnd' Hfr').
    assert (Hrest : forall x, In x (map fst (flat_map (out_of fit) bs)) ->
              In x (map fst bs) \/ exists k u, In k (map fst bs) /\ x = rekey k u).
    { intros x Hx. apply in_map_iff in Hx. destruct Hx as [[k' b'] [<- Hx]].
      apply in_flat_map in Hx. destruct Hx as [[k0 b0] [Hin0 Hx]].
      apply out_of_key in Hx. cbn [fst snd] in *.
      assert (In k0 (map fst bs)) by (apply in_map_iff; exists (k0, b0); auto).
      destruct Hx as [-> | ->]; [now left|right; eauto]. }
    assert (Hhead : forall x, In x (map fst (out_of fit (key, bn))) ->
              ~ In x (map fst (flat_map (out_of fit) bs))).
    { intros x Hx Hr. apply in_map_iff in Hx. destruct Hx as [[k' b'] [<- Hx]].
      apply out_of_key in Hx. cbn [fst snd] in *.
      apply Hrest in Hr. destruct Hx as [-> | ->].
      - destruct Hr as [Hr|[k [u [Hin He]]]]; [contradiction|].
        apply (Hfr k u). left. now rewrite <- He.
      - destruct Hr as [Hr|[k [u [Hin He]]]].
        + apply (Hfr key (used fit bn)). now right.
        + apply Hinj in He. subst. contradiction. }
    assert (Hone : NoDup (map fst (out_of fit (key, bn)))).
    { unfold out_of. cbn [fst snd]. destruct (b_internal bn).
      - destruct (used fit bn); [constructor|].
        destruct (idx_eqb _ _); repeat constructor; intros [].
      - repeat constructor. intros []. }
    clear - IH Hhead Hone.
    induction (map fst (out_of fit (key, bn))) as [|x l IHl]; [exact IH|].
    inversion Hone; subst. cbn [app]. constructor.
    - rewrite in_app_iff. intros [H|H]; [contradiction|].
      apply (Hhead x); [now left|assumption].
    - apply IHl; [|assumption]. intros y Hy. apply Hhead. now right.
  Qed.
End Basins.

Section Env.
  Variable fexists fscalar fbmap : Z -> bool.
  Variable defective : Z -> bool.
  Variable rekey : Z -> list Z -> Z.

  Notation rtdc_copy := (rtdc_copy fexists fscalar fbmap defective rekey).

  Lemma rtdc_copy_basins sel il it f :
    rekey_inj rekey -> NoDup (map fst (f_basins f)) ->
    rekey_fresh rekey (f_basins f) ->
    f_basins (rtdc_copy sel true il it f)
    = flat_map (out_of rekey (feature_iter fscalar fbmap sel true f))
               (f_basins f).
  Proof.
    intros Hinj Hnd Hfr. unfold C08.rtdc_copy.
    destruct (fold_left _ _ _). cbn [f_basins]. unfold basin_definition_copy.
    rewrite (basin_fold_spec rekey _ Hinj); auto.
  Qed.

  (* Every basin definition of the input is in the output of a copy that
     keeps basins (compress, repack, condense):
     - a file/remote basin, or an internal basin all of whose features are
       copied, under its own name with the same parsed dictionary and the
       same text lines;
     - an internal basin of which only some features are copied, under a new
       name, with the same dictionary except that "features" lists exactly
       the copied ones;
     - an internal basin none of whose features is copied is left out. *)
  Theorem copy_preserves_basin_definitions sel il it f key bn :
    rekey_inj rekey -> NoDup (map fst (f_basins f)) ->
    rekey_fresh rekey (f_basins f) ->
    In (key, bn) (f_basins f) -> wf_dset (b_ds bn) ->
    let fit := feature_iter fscalar fbmap sel true f in
    let out := f_basins (rtdc_copy sel true il it f) in
    let kept := filter (fun x => memZ x fit) (b_feats bn) in
    if negb (b_internal bn) || idx_eqb kept (b_feats bn) && negb (idx_eqb kept [])
    then exists b', assoc key out = Some b'
                    /\ b_internal b' = b_internal bn
                    /\ b_feats b' = b_feats bn /\ b_rest b' = b_rest bn
                    /\ content (b_ds b') = content (b_ds bn)
    else if idx_eqb kept [] then assoc key out = None
    else exists b', assoc (rekey key kept) out = Some b'
                    /\ assoc key out = None
                    /\ b_internal b' = true
                    /\ b_feats b' = kept /\ b_rest b' = b_rest bn.
  Proof.
    intros Hinj Hnd Hfr Hin Hwf. cbv zeta.
    rewrite (rtdc_copy_basins sel il it f Hinj Hnd Hfr).
    set (fit := feature_iter fscalar fbmap sel true f).
    pose proof (produced_keys_NoDup rekey fit Hinj _ Hnd Hfr) as Hpn.
    assert (Hprod : forall k' b', In (k', b') (out_of rekey fit (key, bn)) ->
              assoc k' (flat_map (out_of rekey fit) (f_basins f)) = Some b').
    { intros k' b' H. apply assoc_NoDup_In; [assumption|].
      apply in_flat_map. exists (key, bn). auto. }
    (* the own name is produced by no other definition *)
    assert (Hown : ~ In key (map fst (out_of rekey fit (key, bn))) ->
              assoc key (flat_map (out_of rekey fit) (f_basins f)) = None).
    { intros Hno. apply assoc_None_iff. intros Hc.
      apply in_map_iff in Hc. destruct Hc as [[k' b'] [Hk Hc]]. cbn [fst] in Hk. subst k'.
      apply in_flat_map in Hc. destruct Hc as [[k0 b0] [Hin0 Hc]].
      pose proof (out_of_key rekey fit (k0, b0) key b' Hc) as Hk. cbn [fst snd] in Hk.
      destruct Hk as [-> | Hk].
      - (* same name: same definition, by NoDup *)
        assert (b0 = bn).
        { pose proof (assoc_NoDup_In k0 b0 _ Hnd Hin0) as A1.
          pose proof (assoc_NoDup_In k0 bn _ Hnd Hin) as A2. congruence. }
        subst. apply Hno. apply in_map_iff. exists (k0, b'). auto.
      - apply (Hfr k0 (used fit b0)). rewrite <- Hk.
        apply in_map_iff. exists (key, bn). auto. }
    fold (used fit bn).
    unfold out_of in Hprod, Hown. cbn [fst snd] in Hprod, Hown.
    destruct (b_internal bn) eqn:Ei; cbn [negb orb].
    - destruct (used fit bn) as [|u us] eqn:Eu.
      + cbn [idx_eqb]. rewrite andb_false_r. apply Hown. intros [].
      + replace (idx_eqb (u :: us) []) with false by reflexivity.
        rewrite andb_true_r.
        destruct (idx_eqb (u :: us) (b_feats bn)) eqn:Ee.
        * eexists. split; [apply Hprod; left; reflexivity|]. cbn.
          repeat split; auto. now apply h5ds_copy_content.
        * eexists. split; [apply Hprod; left; reflexivity|].
          split; [|cbn; auto].
          apply Hown. cbn. intros [H|[]]. apply (Hfr key (u :: us)).
          rewrite H. apply in_map_iff. exists (key, bn). auto.
    - eexists. split; [apply Hprod; left; reflexivity|]. cbn.
      repeat split; auto. now apply h5ds_copy_content.
  Qed.

  (* and nothing else: every definition of the output stems from one of the
     input *)
  Theorem copy_invents_no_basin sel il it f k' b' :
    rekey_inj rekey -> NoDup (map fst (f_basins f)) ->
    rekey_fresh rekey (f_basins f) ->
    In (k', b') (f_basins (rtdc_copy sel true il it f)) ->
    exists key bn, In (key, bn) (f_basins f)
                   /\ (k' = key \/ k' = rekey key (b_feats b'))
                   /\ b_rest b' = b_rest bn /\ b_internal b' = b_internal bn
                   /\ b_feats b'
                      = (if b_internal bn
                         then filter (fun x => memZ x (feature_iter fscalar fbmap
                                                                     sel true f))
                                     (b_feats bn)
                         else b_feats bn).
  Proof.
    intros Hinj Hnd Hfr. rewrite (rtdc_copy_basins sel il it f Hinj Hnd Hfr).
    intros H. apply in_flat_map in H. destruct H as [[key bn] [Hin H]].
    exists key, bn. split; [assumption|].
    unfold out_of in H. cbn [fst snd] in H.
    destruct (b_internal bn) eqn:Ei.
    - fold (used (feature_iter fscalar fbmap sel true f) bn) in *.
      destruct (used _ bn) as [|u us] eqn:Eu; [destruct H|].
      destruct (idx_eqb (u :: us) (b_feats bn)) eqn:Ee;
        destruct H as [[= <- <-]|[]]; cbn; repeat split; auto.
      apply idx_eqb_eq in Ee. congruence.
    - destruct H as [[= <- <-]|[]]. cbn. auto.
  Qed.
End Env.

(* non-vacuity: a file basin, an internal basin that is kept, one that is
   rewritten (feature 71 is not copied) and one that disappears *)
Example ex_basins :
  let ds := mkD [1] None 2 100 None [[123]] [] in
  let f := mkF [] [(30, NDs ds)] [(70, ds)] [] []
               [(1, mkB ds false [80] 5); (2, mkB ds true [70] 6);
                (3, mkB ds true [70; 71] 7); (4, mkB ds true [72] 8)] [] in
  let rk := fun k (_ : list Z) => if 0 <=? k then 100 + k else k - 100 in
  let out := f_basins (rtdc_copy (fun _ => true) (fun _ => true) (fun _ => false)
                                 (fun _ => false) rk FAll true true true f) in
  rekey_inj rk /\ NoDup (map fst (f_basins f)) /\ rekey_fresh rk (f_basins f)
  /\ map fst out = [1; 2; 103]
  /\ map (fun kb => b_feats (snd kb)) out = [[80]; [70]; [70]].
Proof.
  cbv zeta. split; [|split; [|split; [|split]]].
  - unfold rekey_inj. intros k1 u1 k2 u2 H. cbv beta in H. destruct (0 <=? k1) eqn:E1; destruct (0 <=? k2) eqn:E2; lia.
  - cbn. repeat (constructor; [cbn; lia|]). constructor.
  - unfold rekey_fresh. intros k u. cbn [In map fst f_basins]. destruct (0 <=? k) eqn:E; lia.
  - vm_compute. reflexivity.
  - vm_compute. reflexivity.
Qed.
