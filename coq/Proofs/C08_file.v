(* Proofs about the file-level copy of Model/C08.v: rtdc_copy, the task
   wrappers, condense feature selection. *)
From Coq Require Import ZArith List Bool Lia ZifyBool ZifyNat.
From Verif Require Import Model.C08 Proofs.C08.
Import ListNotations.
Open Scope Z_scope.

(* ---------------------------------------------------------------------- *)
(* association lists, membership                                            *)
(* ---------------------------------------------------------------------- *)
Lemma memZ_In x l : memZ x l = true <-> In x l.
Proof.
  unfold memZ. rewrite existsb_exists. split.
  - intros [y [Hy E]]. assert (x = y) by lia. now subst.
  - intros H. exists x. split; [assumption|lia].
Qed.

Lemma memZ_false x l : memZ x l = false <-> ~ In x l.
Proof.
  rewrite <- memZ_In. destruct (memZ x l); intuition congruence.
Qed.

Lemma assoc_app {A} k (l1 l2 : list (Z * A)) :
  assoc k (l1 ++ l2) = match assoc k l1 with Some v => Some v | None => assoc k l2 end.
Proof.
  induction l1 as [|[k' v] l1 IH]; simpl; [reflexivity|].
  destruct (k =? k'); [reflexivity|exact IH].
Qed.

Lemma assoc_In {A} k (l : list (Z * A)) v : assoc k l = Some v -> In (k, v) l.
Proof.
  induction l as [|[k' v'] l IH]; simpl; [discriminate|].
  destruct (k =? k') eqn:E.
  - intros [= ->]. left. f_equal. lia.
  - intros H. right. auto.
Qed.

Lemma assoc_None_keys {A} k (l : list (Z * A)) :
  (forall k' v, In (k', v) l -> k' <> k) -> assoc k l = None.
Proof.
  induction l as [|[k' v'] l IH]; simpl; intros H; [reflexivity|].
  destruct (k =? k') eqn:E.
  - exfalso. apply (H k' v'); [now left|lia].
  - apply IH. intros; eapply H; right; eauto.
Qed.

Lemma assoc_In_keys {A} k (l : list (Z * A)) v :
  assoc k l = Some v -> In k (map fst l).
Proof. intros H. apply assoc_In in H. apply in_map_iff. exists (k, v). auto. Qed.

(* keyed generators: g y only produces entries with key y *)
Lemma assoc_flat_map {A} (g : Z -> list (Z * A)) x l :
  (forall y k v, In (k, v) (g y) -> k = y) ->
  assoc x (flat_map g l) = if memZ x l then assoc x (g x) else None.
Proof.
  intros Hg. induction l as [|y l IH]; [reflexivity|].
  cbn [flat_map]. rewrite assoc_app, IH.
  unfold memZ; cbn [existsb]. fold (memZ x l).
  destruct (x =? y) eqn:E.
  - assert (x = y) by lia; subst y. cbn [orb].
    destruct (assoc x (g x)); [reflexivity|]. destruct (memZ x l); reflexivity.
  - cbn [orb]. rewrite (assoc_None_keys x (g y)); [reflexivity|].
    intros k' v Hin. apply Hg in Hin. lia.
Qed.

Lemma assoc_map_snd {A B} (h : A -> B) k (l : list (Z * A)) :
  assoc k (map (fun kd => (fst kd, h (snd kd))) l)
  = match assoc k l with Some v => Some (h v) | None => None end.
Proof.
  induction l as [|[k' v] l IH]; simpl; [reflexivity|].
  destruct (k =? k'); [reflexivity|exact IH].
Qed.

(* sorting and duplicate removal keep the members *)
Lemma insertZ_In x y l : In x (insertZ y l) <-> x = y \/ In x l.
Proof.
  induction l as [|z l IH]; simpl; [intuition|].
  destruct (y <=? z); simpl; [intuition|]. rewrite IH. intuition.
Qed.

Lemma sortZ_In x l : In x (sortZ l) <-> In x l.
Proof.
  induction l as [|y l IH]; simpl; [tauto|].
  rewrite insertZ_In, IH. intuition.
Qed.

Lemma nodupZ_In x l : In x (nodupZ l) <-> In x l.
Proof.
  induction l as [|y l IH]; simpl; [tauto|].
  destruct (memZ y l) eqn:E.
  - rewrite IH. apply memZ_In in E. split; [tauto|]. intros [<-|H]; auto.
  - simpl. rewrite IH. tauto.
Qed.

Section Env.
  Variable fexists fscalar fbmap : Z -> bool.
  Variable defective : Z -> bool.
  Variable rekey : Z -> list Z -> Z.

  Notation rtdc_copy := (rtdc_copy fexists fscalar fbmap defective rekey).
  Notation feature_iter := (feature_iter fscalar fbmap).
  Notation feat_step := (feat_step fexists fscalar defective).

  (* ---- feature_iter ---------------------------------------------------- *)
  Lemma events_src_In inc f x :
    In x (events_src inc f) <->
    In x (map fst (f_events f)) \/ (inc = true /\ In x (map fst (f_bevents f))).
  Proof.
    unfold events_src. destruct inc.
    - destruct (f_bevents f) as [|b bs] eqn:E.
      + simpl. intuition.
      + rewrite sortZ_In, nodupZ_In, in_app_iff. intuition.
    - intuition. discriminate.
  Qed.

  Lemma fold_add_In (bm : list Z) : forall it x,
    In x (fold_left (fun it b => if memZ b it then it else it ++ [b]) bm it)
    <-> In x it \/ In x bm.
  Proof.
    induction bm as [|b bm IH]; intros it x; cbn [fold_left]; [simpl; tauto|].
    rewrite IH. destruct (memZ b it) eqn:E.
    - apply memZ_In in E. simpl. split; [tauto|]. intros [H|[<-|H]]; auto.
    - rewrite in_app_iff. simpl. tauto.
  Qed.

  Lemma feature_iter_all_basins f x :
    In x (feature_iter FAll true f) <-> In x (events_src true f).
  Proof.
    unfold feature_iter. cbn [feature_iter0]. rewrite fold_add_In.
    split; [|tauto]. intros [H|H]; [assumption|].
    apply filter_In in H. tauto.
  Qed.

  Lemma remove_firstZ_In b : forall l x,
    NoDup l -> (In x (remove_firstZ b l) <-> In x l /\ x <> b).
  Proof.
    induction l as [|y l IH]; intros x Hnd; simpl; [tauto|].
    inversion Hnd as [|? ? Hy Hl]; subst.
    destruct (b =? y) eqn:E.
    - assert (b = y) by lia; subst y. split.
      + intros H. split; [now right|]. intros ->. contradiction.
      + intros [[H|H] Hne]; [congruence|assumption].
    - simpl. rewrite IH by assumption. split.
      + intros [<-|[H Hne]]; [split; [now left|lia]|tauto].
      + intros [[<-|H] Hne]; [now left|right; tauto].
  Qed.

  Lemma remove_firstZ_NoDup b : forall l, NoDup l -> NoDup (remove_firstZ b l).
  Proof.
    induction l as [|y l IH]; intros Hnd; simpl; [constructor|].
    inversion Hnd as [|? ? Hy Hl]; subst.
    destruct (b =? y); [assumption|]. constructor; [|auto].
    intros H. apply remove_firstZ_In in H; tauto.
  Qed.

  Lemma fold_remove_In (bm : list Z) : forall it x,
    NoDup it ->
    (In x (fold_left (fun it b => if memZ b it then remove_firstZ b it else it)
                     bm it)
     <-> In x it /\ ~ In x bm).
  Proof.
    induction bm as [|b bm IH]; intros it x Hnd; cbn [fold_left]; [simpl; tauto|].
    destruct (memZ b it) eqn:E.
    - rewrite IH by now apply remove_firstZ_NoDup.
      rewrite remove_firstZ_In by assumption. simpl. intuition.
    - rewrite IH by assumption. apply memZ_false in E. simpl.
      split; [|tauto]. intros [H1 H2]. split; [assumption|].
      intros [<-|H]; tauto.
  Qed.

  Lemma feature_iter_all_nobasins f x :
    NoDup (map fst (f_events f)) ->
    (In x (feature_iter FAll false f) <->
     In x (map fst (f_events f)) /\ fbmap x = false).
  Proof.
    intros Hnd. unfold feature_iter. cbn [feature_iter0 events_src].
    rewrite fold_remove_In by assumption. rewrite filter_In.
    destruct (fbmap x).
    - split; intros [H1 H2]; [exfalso; apply H2; auto|discriminate].
    - split; intros [H1 H2]; [auto|]. split; [assumption|]. intros [_ H]; discriminate.
  Qed.

  (* ---- the loop over the features -------------------------------------- *)
  Definition finish (feat : Z) (n : node) : node :=
    match copy_node n with
    | NDs d => if fscalar feat && negb (zprod (d_shape d) =? 0)
               then NDs (complete_stats d) else copy_node n
    | g => g
    end.

  Definition ev_of (f : h5file) (feat : Z) : list (Z * node) :=
    if negb (fexists feat) then []
    else match assoc feat (f_events f) with
         | Some n => if defective feat then [] else [(feat, finish feat n)]
         | None => []
         end.

  Definition bev_of (inc : bool) (f : h5file) (feat : Z) : list (Z * dset) :=
    if negb (fexists feat) then []
    else match inc, assoc feat (f_bevents f) with
         | true, Some d => [(feat, h5ds_copy true d)]
         | _, _ => []
         end.

  Lemma feat_fold_spec inc f (fit : list Z) : forall ev bev,
    fold_left (feat_step inc f) fit (ev, bev)
    = (ev ++ flat_map (ev_of f) fit, bev ++ flat_map (bev_of inc f) fit).
  Proof.
    induction fit as [|x fit IH]; intros ev bev; cbn [fold_left flat_map].
    - now rewrite !app_nil_r.
    - unfold feat_step at 2, ev_of at 1, bev_of at 1.
      destruct (negb (fexists x)); [rewrite IH; reflexivity|].
      assert (Hb : forall (l : list (Z * dset)) r, (bev ++ l) ++ r = bev ++ l ++ r)
        by (intros; now rewrite app_assoc).
      destruct (assoc x (f_events f)) as [n|].
      + destruct (defective x).
        * rewrite IH. destruct inc; [destruct (assoc x (f_bevents f))|];
            rewrite <- ?app_assoc; reflexivity.
        * rewrite IH. unfold finish.
          destruct (copy_node n); destruct inc;
            try destruct (assoc x (f_bevents f));
            rewrite <- ?app_assoc; reflexivity.
      + rewrite IH. destruct inc; [destruct (assoc x (f_bevents f))|];
          rewrite <- ?app_assoc; reflexivity.
  Qed.

  Lemma ev_of_keys f y k v : In (k, v) (ev_of f y) -> k = y.
  Proof.
    unfold ev_of. destruct (negb (fexists y)); [intros []|].
    destruct (assoc y (f_events f)); [|intros []].
    destruct (defective y); [intros []|]. intros [[= <- _]|[]]. reflexivity.
  Qed.

  Lemma bev_of_keys inc f y k v : In (k, v) (bev_of inc f y) -> k = y.
  Proof.
    unfold bev_of. destruct (negb (fexists y)); [intros []|].
    destruct inc; [|intros []]. destruct (assoc y (f_bevents f)); [|intros []].
    intros [[= <- _]|[]]. reflexivity.
  Qed.

  Lemma rtdc_copy_events sel ib il it f :
    f_events (rtdc_copy sel ib il it f) = flat_map (ev_of f) (feature_iter sel ib f)
    /\ f_bevents (rtdc_copy sel ib il it f)
       = flat_map (bev_of ib f) (feature_iter sel ib f).
  Proof.
    unfold C08.rtdc_copy. rewrite feat_fold_spec. simpl. auto.
  Qed.

  (* ---- what "same content" means for a feature -------------------------- *)
  Definition node_wf (n : node) : Prop :=
    match n with
    | NDs d => wf_dset d
    | NGrp ch => Forall (fun kd => wf_dset (snd kd)) ch
    end.

  (* same shape and elements; the attributes of the source are kept in order,
     statistics may be appended *)
  (* the dtype class is kept (numeric dtypes are numbered individually by
     the harness); variable-length strings become fixed-length strings *)
  Definition same_dtype (d d' : dset) : Prop :=
    d_kind d' = d_kind d \/ (d_kind d = 1 /\ d_kind d' = 2).

  Definition node_same (n n' : node) : Prop :=
    match n, n' with
    | NDs d, NDs d' =>
        d_shape d' = d_shape d /\ d_data d' = d_data d
        /\ same_dtype d d'
        /\ exists extra, d_attrs d' = d_attrs d ++ extra
    | NGrp ch, NGrp ch' =>
        map (fun kd => (fst kd, content (snd kd))) ch'
        = map (fun kd => (fst kd, content (snd kd))) ch
        /\ Forall2 (fun kd kd' => same_dtype (snd kd) (snd kd')) ch ch'
    | _, _ => False
    end.

  Lemma h5ds_copy_dtype e d : same_dtype d (h5ds_copy e d).
  Proof.
    unfold same_dtype, h5ds_copy.
    destruct (e && negb (properly d) && negb (hd 0 (d_shape d) =? 0));
      [|now left].
    cbn [d_kind]. destruct (d_kind d =? 1) eqn:E; [right; split; [lia|reflexivity]|now left].
  Qed.

  Lemma complete_attr_same k d :
    d_shape (complete_attr k d) = d_shape d /\ d_data (complete_attr k d) = d_data d
    /\ (exists extra, d_attrs (complete_attr k d) = d_attrs d ++ extra)
    /\ d_zstd (complete_attr k d) = d_zstd d
    /\ d_kind (complete_attr k d) = d_kind d.
  Proof.
    unfold complete_attr. destruct (assoc k (d_attrs d)); cbn.
    - repeat split; auto. exists []. now rewrite app_nil_r.
    - repeat split; auto. eauto.
  Qed.

  Lemma complete_stats_same d :
    d_shape (complete_stats d) = d_shape d /\ d_data (complete_stats d) = d_data d
    /\ (exists extra, d_attrs (complete_stats d) = d_attrs d ++ extra)
    /\ d_zstd (complete_stats d) = d_zstd d
    /\ d_kind (complete_stats d) = d_kind d.
  Proof.
    unfold complete_stats.
    destruct (complete_attr_same A_MIN d) as [s1 [d1 [[e1 a1] [z1 k1]]]].
    destruct (complete_attr_same A_MAX (complete_attr A_MIN d)) as [s2 [d2 [[e2 a2] [z2 k2]]]].
    destruct (complete_attr_same A_MEAN (complete_attr A_MAX (complete_attr A_MIN d)))
      as [s3 [d3 [[e3 a3] [z3 k3]]]].
    repeat split; try congruence.
    exists (e1 ++ e2 ++ e3). rewrite a3, a2, a1, <- !app_assoc. reflexivity.
  Qed.

  Lemma finish_same feat n : node_wf n -> node_same n (finish feat n).
  Proof.
    intros Hwf. unfold finish. destruct n as [d|ch]; cbn [copy_node].
    - cbn [node_wf] in Hwf. pose proof (h5ds_copy_content true d Hwf) as Hc.
      unfold content in Hc. injection Hc as Hs Hd Ha.
      pose proof (h5ds_copy_dtype true d) as Hk.
      destruct (fscalar feat && negb (zprod (d_shape (h5ds_copy true d)) =? 0)).
      + destruct (complete_stats_same (h5ds_copy true d)) as [s [dd [[e a] [_ k]]]].
        cbn [node_same]. repeat split; try congruence.
        * unfold same_dtype in *. rewrite k. exact Hk.
        * exists e. congruence.
      + cbn [node_same]. repeat split; auto. exists []. now rewrite app_nil_r.
    - cbn [node_same node_wf] in *. split.
      + rewrite map_map. cbn [fst snd].
        apply map_ext_in. intros [k d] Hin. cbn [fst snd]. f_equal.
        apply h5ds_copy_content. rewrite Forall_forall in Hwf. apply (Hwf _ Hin).
      + clear Hwf. induction ch as [|[k d] ch IH]; cbn [map]; constructor; auto.
        cbn [snd]. apply h5ds_copy_dtype.
  Qed.

  (* ---- features are preserved ------------------------------------------ *)
  (* compress, repack, rtdc_copy(features="all") with basins *)
  Theorem copy_all_preserves_feature il it f name n :
    assoc name (f_events f) = Some n ->
    fexists name = true -> defective name = false -> node_wf n ->
    exists n', assoc name (f_events (rtdc_copy FAll true il it f)) = Some n'
               /\ node_same n n'.
  Proof.
    intros Ha He Hd Hwf.
    destruct (rtdc_copy_events FAll true il it f) as [Hev _]. rewrite Hev.
    rewrite (assoc_flat_map (ev_of f)) by apply ev_of_keys.
    replace (memZ name (feature_iter FAll true f)) with true.
    - unfold ev_of. rewrite He, Ha, Hd. cbn [negb assoc]. rewrite Z.eqb_refl.
      eexists; split; [reflexivity|]. now apply finish_same.
    - symmetry. apply memZ_In. apply feature_iter_all_basins.
      apply events_src_In. left. eapply assoc_In_keys; eauto.
  Qed.

  (* repack --strip-basins: everything but the basinmap features *)
  Theorem copy_all_strip_basins_preserves_feature il it f name n :
    NoDup (map fst (f_events f)) ->
    assoc name (f_events f) = Some n ->
    fexists name = true -> defective name = false -> fbmap name = false ->
    node_wf n ->
    exists n', assoc name (f_events (rtdc_copy FAll false il it f)) = Some n'
               /\ node_same n n'.
  Proof.
    intros Hnd Ha He Hd Hb Hwf.
    destruct (rtdc_copy_events FAll false il it f) as [Hev _]. rewrite Hev.
    rewrite (assoc_flat_map (ev_of f)) by apply ev_of_keys.
    replace (memZ name (feature_iter FAll false f)) with true.
    - unfold ev_of. rewrite He, Ha, Hd. cbn [negb assoc]. rewrite Z.eqb_refl.
      eexists; split; [reflexivity|]. now apply finish_same.
    - symmetry. apply memZ_In. apply feature_iter_all_nobasins; [assumption|].
      split; [eapply assoc_In_keys; eauto|assumption].
  Qed.

  (* any selection: what is selected, recognised and not marked defective is
     in the output with the same content *)
  Theorem copy_preserves_selected_feature sel ib il it f name n :
    In name (feature_iter sel ib f) ->
    assoc name (f_events f) = Some n ->
    fexists name = true -> defective name = false -> node_wf n ->
    exists n', assoc name (f_events (rtdc_copy sel ib il it f)) = Some n'
               /\ node_same n n'.
  Proof.
    intros Hin Ha He Hd Hwf.
    destruct (rtdc_copy_events sel ib il it f) as [Hev _]. rewrite Hev.
    rewrite (assoc_flat_map (ev_of f)) by apply ev_of_keys.
    apply memZ_In in Hin. rewrite Hin.
    unfold ev_of. rewrite He, Ha, Hd. cbn [negb assoc]. rewrite Z.eqb_refl.
    eexists; split; [reflexivity|]. now apply finish_same.
  Qed.

  Lemma feature_iter_basins_In sel f x :
    In x (feature_iter sel true f) <->
    In x (feature_iter0 fscalar sel (events_src true f))
    \/ (In x (events_src true f) /\ fbmap x = true).
  Proof.
    unfold feature_iter. rewrite fold_add_In, filter_In. tauto.
  Qed.

  (* condense (features="scalar"): every stored scalar feature *)
  Theorem copy_scalar_preserves_feature il it f name n :
    assoc name (f_events f) = Some n -> fscalar name = true ->
    fexists name = true -> defective name = false -> node_wf n ->
    exists n', assoc name (f_events (rtdc_copy FScalar true il it f)) = Some n'
               /\ node_same n n'.
  Proof.
    intros Ha Hs He Hd Hwf.
    apply copy_preserves_selected_feature; auto.
    apply feature_iter_basins_In. left. cbn [feature_iter0].
    apply filter_In. split; [|assumption].
    apply events_src_In. left. eapply assoc_In_keys; eauto.
  Qed.

  (* a list selection: every listed feature *)
  Theorem copy_list_preserves_feature l il it f name n :
    In name l -> assoc name (f_events f) = Some n ->
    fexists name = true -> defective name = false -> node_wf n ->
    exists n', assoc name (f_events (rtdc_copy (FList l) true il it f)) = Some n'
               /\ node_same n n'.
  Proof.
    intros Hl Ha He Hd Hwf.
    apply copy_preserves_selected_feature; auto.
    apply feature_iter_basins_In. left. exact Hl.
  Qed.

  (* the basinmap features always accompany the basins *)
  Theorem copy_keeps_basinmap sel il it f name n :
    assoc name (f_events f) = Some n -> fbmap name = true ->
    fexists name = true -> defective name = false -> node_wf n ->
    exists n', assoc name (f_events (rtdc_copy sel true il it f)) = Some n'
               /\ node_same n n'.
  Proof.
    intros Ha Hb He Hd Hwf.
    apply copy_preserves_selected_feature; auto.
    apply feature_iter_basins_In. right. split; [|assumption].
    apply events_src_In. left. eapply assoc_In_keys; eauto.
  Qed.

  (* nothing is invented: every feature of the output is the copy of a
     recognised, non-defective feature of the input (any selection) *)
  Theorem copy_invents_no_feature sel ib il it f name n' :
    In (name, n') (f_events (rtdc_copy sel ib il it f)) ->
    exists n, assoc name (f_events f) = Some n /\ fexists name = true
              /\ defective name = false /\ n' = finish name n.
  Proof.
    destruct (rtdc_copy_events sel ib il it f) as [Hev _]. rewrite Hev.
    intros H. apply in_flat_map in H. destruct H as [y [_ H]].
    unfold ev_of in H. destruct (fexists y) eqn:E1; cbn [negb] in H; [|destruct H].
    destruct (assoc y (f_events f)) as [n|] eqn:E2; [|destruct H].
    destruct (defective y) eqn:E3; [destruct H|].
    destruct H as [[= <- <-]|[]]. eauto.
  Qed.

  (* internal basin data *)
  Theorem copy_preserves_basin_feature sel il it f name d :
    In name (feature_iter sel true f) ->
    assoc name (f_bevents f) = Some d ->
    fexists name = true -> wf_dset d ->
    exists d', assoc name (f_bevents (rtdc_copy sel true il it f)) = Some d'
               /\ content d' = content d /\ same_dtype d d'.
  Proof.
    intros Hin Hb He Hwf.
    destruct (rtdc_copy_events sel true il it f) as [_ Hbv]. rewrite Hbv.
    rewrite (assoc_flat_map (bev_of true f)) by apply bev_of_keys.
    apply memZ_In in Hin. rewrite Hin. unfold bev_of. rewrite He, Hb.
    cbn [negb assoc]. rewrite Z.eqb_refl. eexists; split; [reflexivity|].
    split; [now apply h5ds_copy_content|apply h5ds_copy_dtype].
  Qed.

  (* ---- metadata, logs, tables ------------------------------------------ *)
  Definition named_content (l : list (Z * dset)) :=
    map (fun kd => (fst kd, content (snd kd))) l.

  Theorem copy_preserves_metadata sel ib il it f :
    f_attrs (rtdc_copy sel ib il it f) = f_attrs f.
  Proof. unfold C08.rtdc_copy. destruct (fold_left _ _ _). reflexivity. Qed.

  (* rtdc_copy (and so repack) leaves the software version chain alone,
     unless it rewrites an internal basin definition: that goes through
     RTDCWriter, which brands the destination *)
  Theorem copy_version sel ib il it f :
    f_soft (rtdc_copy sel ib il it f)
    = if ib && basin_rewrites (feature_iter sel ib f) f
      then bump_version (f_soft f) else f_soft f.
  Proof. unfold C08.rtdc_copy. destruct (fold_left _ _ _). reflexivity. Qed.

  Theorem copy_preserves_version sel il it f :
    f_soft (rtdc_copy sel false il it f) = f_soft f.
  Proof. rewrite copy_version. reflexivity. Qed.

  Lemma bump_version_idem_in segs :
    bump_version (bump_version segs) = bump_version segs.
  Proof.
    destruct segs as [|a l]; [reflexivity|].
    assert (H : bump_version (a :: l) = a :: l
                \/ bump_version (a :: l) = (a :: l) ++ [SEG_CUR]).
    { unfold bump_version. destruct (last (a :: l) 0 =? SEG_CUR); auto. }
    destruct H as [H|H].
    - now rewrite !H.
    - rewrite H. unfold bump_version.
      destruct ((a :: l) ++ [SEG_CUR]) eqn:E2; [discriminate|].
      rewrite <- E2, last_last, Z.eqb_refl. reflexivity.
  Qed.

  Lemma bump_after_copy sel ib il it f :
    bump_version (f_soft (rtdc_copy sel ib il it f)) = bump_version (f_soft f).
  Proof.
    rewrite copy_version.
    destruct (ib && basin_rewrites (feature_iter sel ib f) f); [|reflexivity].
    apply bump_version_idem_in.
  Qed.

  Theorem copy_preserves_logs sel ib it f :
    Forall (fun kd => wf_dset (snd kd)) (f_logs f) ->
    named_content (f_logs (rtdc_copy sel ib true it f)) = named_content (f_logs f).
  Proof.
    intros Hwf. unfold C08.rtdc_copy. destruct (fold_left _ _ _). cbn [f_logs].
    unfold named_content. rewrite map_map. cbn [fst snd].
    apply map_ext_in. intros [k d] Hin. cbn [fst snd]. f_equal.
    apply h5ds_copy_content. rewrite Forall_forall in Hwf. apply (Hwf _ Hin).
  Qed.

  (* tables: elements AND attributes (the repaired code) *)
  Theorem copy_preserves_tables sel ib il f :
    named_content (f_tables (rtdc_copy sel ib il true f))
    = named_content (f_tables f).
  Proof.
    unfold C08.rtdc_copy. destruct (fold_left _ _ _). cbn [f_tables].
    unfold named_content. rewrite map_map. reflexivity.
  Qed.

  Theorem strip_logs_strips sel ib it f :
    f_logs (rtdc_copy sel ib false it f) = [].
  Proof. unfold C08.rtdc_copy. destruct (fold_left _ _ _). reflexivity. Qed.

  Theorem strip_basins_strips sel il it f :
    f_basins (rtdc_copy sel false il it f) = []
    /\ f_bevents (rtdc_copy sel false il it f) = [].
  Proof.
    split.
    - unfold C08.rtdc_copy. destruct (fold_left _ _ _). reflexivity.
    - destruct (rtdc_copy_events sel false il it f) as [_ Hb]. rewrite Hb.
      clear Hb.
      induction (feature_iter sel false f) as [|x l IH]; [reflexivity|].
      cbn [flat_map]. rewrite IH, app_nil_r. unfold bev_of.
      destruct (negb (fexists x)); reflexivity.
  Qed.

  (* ---- a second pass is a verbatim copy --------------------------------- *)
  Definition stable (d : dset) : Prop := h5ds_copy true d = d.

  Lemma stable_iff d :
    properly d = true \/ hd 0 (d_shape d) = 0 -> stable d.
  Proof.
    intros [H|H]; unfold stable.
    - now apply h5ds_copy_properly_fix.
    - unfold h5ds_copy. rewrite H. cbn. rewrite andb_false_r. reflexivity.
  Qed.

  Lemma h5ds_copy_result d :
    properly (h5ds_copy true d) = true \/ hd 0 (d_shape (h5ds_copy true d)) = 0.
  Proof.
    unfold h5ds_copy. cbn [andb].
    destruct (properly d) eqn:E; cbn [negb andb]; [now left|].
    destruct (hd 0 (d_shape d) =? 0) eqn:E2; cbn [negb].
    - right. lia.
    - left. reflexivity.
  Qed.

  Definition node_stable (n : node) : Prop :=
    match n with
    | NDs d => stable d
    | NGrp ch => Forall (fun kd => stable (snd kd)) ch
    end.

  Lemma finish_stable feat n : node_stable (finish feat n).
  Proof.
    unfold finish. destruct n as [d|ch]; cbn [copy_node].
    - destruct (fscalar feat && negb (zprod (d_shape (h5ds_copy true d)) =? 0)).
      + cbn [node_stable]. apply stable_iff.
        destruct (complete_stats_same (h5ds_copy true d)) as [s [_ [_ [z _]]]].
        unfold properly. rewrite z, s. apply h5ds_copy_result.
      + cbn [node_stable]. apply h5ds_copy_idempotent.
    - cbn [node_stable]. apply Forall_forall. intros [k d] Hin.
      apply in_map_iff in Hin. destruct Hin as [[k0 d0] [[= <- <-] _]].
      cbn [snd]. apply h5ds_copy_idempotent.
  Qed.

  (* every dataset the copy writes is left untouched by another copy: applying
     compress or repack to its own output re-encodes nothing *)
  Theorem copy_output_stable sel ib il it f :
    let g := rtdc_copy sel ib il it f in
    Forall (fun kn => node_stable (snd kn)) (f_events g)
    /\ Forall (fun kd => stable (snd kd)) (f_bevents g)
    /\ Forall (fun kd => stable (snd kd)) (f_logs g)
    /\ Forall (fun kd => table_copy (snd kd) = snd kd) (f_tables g).
  Proof.
    cbv zeta. destruct (rtdc_copy_events sel ib il it f) as [Hev Hbv].
    split; [|split; [|split]].
    - rewrite Hev. apply Forall_forall. intros [k n] Hin.
      apply in_flat_map in Hin. destruct Hin as [y [_ H]]. unfold ev_of in H.
      destruct (negb (fexists y)); [destruct H|].
      destruct (assoc y (f_events f)); [|destruct H].
      destruct (defective y); [destruct H|]. destruct H as [[= <- <-]|[]].
      cbn [snd]. apply finish_stable.
    - rewrite Hbv. apply Forall_forall. intros [k d] Hin.
      apply in_flat_map in Hin. destruct Hin as [y [_ H]]. unfold bev_of in H.
      destruct (negb (fexists y)); [destruct H|].
      destruct ib; [|destruct H]. destruct (assoc y (f_bevents f)); [|destruct H].
      destruct H as [[= <- <-]|[]]. cbn [snd]. apply h5ds_copy_idempotent.
    - unfold C08.rtdc_copy. destruct (fold_left _ _ _). cbn [f_logs].
      destruct il; [|constructor]. apply Forall_forall. intros [k d] Hin.
      apply in_map_iff in Hin. destruct Hin as [[k0 d0] [[= <- <-] _]].
      cbn [snd]. apply h5ds_copy_idempotent.
    - unfold C08.rtdc_copy. destruct (fold_left _ _ _). cbn [f_tables].
      destruct it; [|constructor]. apply Forall_forall. intros [k d] Hin.
      apply in_map_iff in Hin. destruct Hin as [[k0 d0] [[= <- <-] _]].
      reflexivity.
  Qed.

  (* ---- task wrappers ---------------------------------------------------- *)
  Lemma rename_log_other old new keep logs k :
    k <> old -> k <> new -> assoc k (rename_log old new keep logs) = assoc k logs.
  Proof.
    intros H1 H2. unfold rename_log. destruct (assoc old logs) as [d|]; [|reflexivity].
    assert (Hf : assoc k (filter (fun kd => negb (fst kd =? old)) logs) = assoc k logs).
    { clear - H1. induction logs as [|[k' v] l IH]; simpl; [reflexivity|].
      destruct (k' =? old) eqn:E; simpl.
      - replace (k =? k') with false by lia. exact IH.
      - destruct (k =? k'); [reflexivity|exact IH]. }
    destruct keep; [destruct (assoc new logs)|]; try exact Hf;
      rewrite assoc_app, Hf; destruct (assoc k logs); try reflexivity;
      simpl; replace (k =? new) with false by lia; reflexivity.
  Qed.

  (* compress keeps every log that is not one of its own command logs *)
  Theorem compress_keeps_logs warned kold kwold f k d :
    k <> L_CMD -> k <> L_WARN -> k <> kold -> k <> kwold ->
    assoc k (f_logs f) = Some d ->
    assoc k (f_logs (compress fexists fscalar fbmap defective rekey warned
                              kold kwold f))
    = Some (h5ds_copy true d).
  Proof.
    intros H1 H2 H3 H4 Ha. unfold compress, with_soft, with_logs.
    assert (Hg : assoc k (f_logs (rtdc_copy FAll true true true f))
                 = Some (h5ds_copy true d)).
    { unfold C08.rtdc_copy. destruct (fold_left _ _ _). cbn [f_logs].
      rewrite assoc_map_snd, Ha. reflexivity. }
    set (g := rtdc_copy FAll true true true f) in *.
    assert (Hl : assoc k (rename_log L_WARN kwold false
                   (rename_log L_CMD kold false (f_logs g))
                 ++ [(L_CMD, cmd_log)]) = Some (h5ds_copy true d)).
    { rewrite assoc_app, !rename_log_other by assumption. rewrite Hg. reflexivity. }
    destruct warned; cbn [f_logs].
    - rewrite assoc_app, Hl. reflexivity.
    - exact Hl.
  Qed.

  (* compress = the copy + log bookkeeping + one more version segment *)
  Theorem compress_events warned kold kwold f :
    let c := compress fexists fscalar fbmap defective rekey warned kold kwold f in
    let g := rtdc_copy FAll true true true f in
    f_events c = f_events g /\ f_bevents c = f_bevents g
    /\ f_tables c = f_tables g /\ f_basins c = f_basins g
    /\ f_attrs c = f_attrs f
    /\ f_soft c = bump_version (f_soft f).
  Proof.
    cbv zeta. unfold compress, with_soft, with_logs. cbn. repeat split.
    - apply copy_preserves_metadata.
    - apply bump_after_copy.
  Qed.

  (* compress as a whole: features *)
  Theorem compress_preserves_feature warned kold kwold f name n :
    assoc name (f_events f) = Some n ->
    fexists name = true -> defective name = false -> node_wf n ->
    exists n', assoc name (f_events (compress fexists fscalar fbmap defective
                                              rekey warned kold kwold f))
               = Some n'
               /\ node_same n n'.
  Proof.
    intros. destruct (compress_events warned kold kwold f) as [-> _].
    now apply copy_all_preserves_feature.
  Qed.

  Lemma assoc_filter_other {A} k old (l : list (Z * A)) :
    k <> old ->
    assoc k (filter (fun kd => negb (fst kd =? old)) l) = assoc k l.
  Proof.
    intros H1. induction l as [|[k' v] l IH]; simpl; [reflexivity|].
    destruct (k' =? old) eqn:E; simpl.
    - replace (k =? k') with false by lia. exact IH.
    - destruct (k =? k'); [reflexivity|exact IH].
  Qed.

  (* the previous command log survives under its new name [kold] (the md5 of
     the input file: a name that is not yet used, and none of the reserved
     ones) *)
  Theorem compress_renames_old_log warned kold kwold f d :
    kold <> L_CMD -> kold <> L_WARN -> kold <> kwold ->
    assoc L_CMD (f_logs f) = Some d -> assoc kold (f_logs f) = None ->
    assoc kold (f_logs (compress fexists fscalar fbmap defective rekey
                                 warned kold kwold f))
    = Some (h5ds_copy true d).
  Proof.
    intros N1 N2 N3 Ha Hn. unfold compress, with_soft, with_logs.
    set (g := rtdc_copy FAll true true true f).
    assert (Hg : f_logs g = map (fun kd => (fst kd, h5ds_copy true (snd kd)))
                                (f_logs f)).
    { unfold g, C08.rtdc_copy. destruct (fold_left _ _ _). reflexivity. }
    assert (H1 : assoc kold (rename_log L_CMD kold false (f_logs g))
                 = Some (h5ds_copy true d)).
    { unfold rename_log. rewrite Hg, assoc_map_snd, Ha.
      rewrite assoc_app, assoc_filter_other by assumption.
      rewrite assoc_map_snd, Hn. simpl. rewrite Z.eqb_refl. reflexivity. }
    assert (H2 : assoc kold
                   (rename_log L_WARN kwold false
                      (rename_log L_CMD kold false (f_logs g)))
                 = Some (h5ds_copy true d)).
    { rewrite rename_log_other; [exact H1| |]; assumption. }
    destruct warned; cbn [f_logs]; rewrite !assoc_app, H2; reflexivity.
  Qed.

  (* ---- condense --------------------------------------------------------- *)
  Variable fsc : Z -> bool.
  Variable dsval : Z -> list elem.

  Lemma fold_store_spec (feats : list Z) : forall ev x,
    let ev' := fold_left (fun ev x => match assoc x ev with
                                      | Some _ => ev
                                      | None => ev ++ [(x, stored_feature dsval x)]
                                      end) feats ev in
    (forall n, assoc x ev = Some n -> assoc x ev' = Some n)
    /\ (assoc x ev = None -> In x feats ->
        assoc x ev' = Some (stored_feature dsval x))
    /\ (assoc x ev = None -> ~ In x feats -> assoc x ev' = None).
  Proof.
    induction feats as [|y feats IH]; intros ev x; cbv zeta; cbn [fold_left].
    - repeat split; auto. intros _ [].
    - destruct (assoc y ev) as [ny|] eqn:Ey.
      + destruct (IH ev x) as [A [B C]]. repeat split; auto.
        * intros Hn [<-|Hin]; [congruence|auto].
        * intros Hn Hni. apply C; auto. intros H; apply Hni; now right.
      + destruct (IH (ev ++ [(y, stored_feature dsval y)]) x) as [A [B C]].
        repeat split.
        * intros n Hn. apply A. rewrite assoc_app, Hn. reflexivity.
        * intros Hn Hin. destruct (Z.eq_dec x y) as [->|Hne].
          -- apply A. rewrite assoc_app, Hn. simpl. rewrite Z.eqb_refl. reflexivity.
          -- apply B.
             ++ rewrite assoc_app, Hn. simpl. replace (x =? y) with false by lia.
                reflexivity.
             ++ destruct Hin as [<-|Hin]; [congruence|assumption].
        * intros Hn Hni. apply C.
          -- rewrite assoc_app, Hn. simpl.
             destruct (x =? y) eqn:E; [|reflexivity].
             exfalso. apply Hni. left. lia.
          -- intros H; apply Hni; now right.
  Qed.

  Lemma condense_features_In sa sb loaded basin anc g x :
    In x (condense_features fsc sa sb loaded basin anc g) <->
    fsc x = true /\
    (In x loaded
     \/ (sb = true /\ In x basin /\ ~ In x (map fst (f_bevents g)))
     \/ (sa = true /\ In x anc /\ ~ In x (map fst (f_bevents g)))).
  Proof.
    unfold condense_features. rewrite nodupZ_In, !in_app_iff.
    set (excl := filter fsc loaded ++ map fst (f_bevents g)).
    assert (Hex : forall y, fsc y = true ->
              (memZ y excl = false <-> ~ In y loaded /\ ~ In y (map fst (f_bevents g)))).
    { intros y Hy. rewrite memZ_false. unfold excl. rewrite in_app_iff, filter_In.
      intuition. }
    rewrite filter_In.
    destruct sb, sa; rewrite ?filter_In; cbn [In];
      split; intros H;
      repeat match goal with
             | H : _ /\ _ |- _ => destruct H
             | H : _ \/ _ |- _ => destruct H
             | H : _ && _ = true |- _ => apply andb_prop in H
             | H : negb _ = true |- _ => apply negb_true_iff in H
             | H : False |- _ => destruct H
             end;
      try (match goal with H : memZ _ excl = false |- _ =>
                           apply Hex in H; [|assumption] end);
      try solve [intuition];
      try discriminate.
    all: try (destruct (in_dec Z.eq_dec x loaded) as [Hl|Hl]; [left; split; assumption|]).
    all: try solve [right; left; split; [assumption|];
                    apply andb_true_intro; split; [assumption|];
                    apply negb_true_iff, Hex; auto].
    all: try solve [right; right; split; [assumption|];
                    apply andb_true_intro; split; [assumption|];
                    apply negb_true_iff, Hex; auto].
  Qed.

  (* every scalar feature condense selects is in the events of the output:
     the copy made by rtdc_copy if there is one, otherwise what the writer
     was handed, ds[feat] (for a .tdms input: always the latter) *)
  Theorem condense_scalar_features sa sb w h5 kold kwold loaded basin anc f x :
    let g := condense_base fexists fscalar fbmap defective rekey h5 f in
    let out := condense fexists fscalar fbmap defective rekey fsc dsval
                        sa sb w h5 kold kwold loaded basin anc f in
    In x (condense_features fsc sa sb loaded basin anc g) ->
    match assoc x (f_events g) with
    | Some n => assoc x (f_events out) = Some n
    | None => assoc x (f_events out) = Some (stored_feature dsval x)
    end.
  Proof.
    cbv zeta. intros Hin. unfold condense.
    set (g := condense_base fexists fscalar fbmap defective rekey h5 f) in *.
    set (feats := condense_features fsc sa sb loaded basin anc g) in *.
    destruct (fold_store_spec feats (f_events g) x) as [A [B _]].
    destruct w; cbn [f_events];
      (destruct (assoc x (f_events g)) eqn:E; [now apply A|now apply B]).
  Qed.

  (* condense of an .rtdc file: every stored scalar feature that is
     recognised and not marked keeps shape, elements, dtype and attributes,
     whatever dclab offers in addition (composition of the copy theorem with
     "the writer loop never replaces an existing feature") *)
  Theorem condense_preserves_stored_scalar sa sb w kold kwold loaded basin anc
          f name n :
    assoc name (f_events f) = Some n -> fscalar name = true ->
    fexists name = true -> defective name = false -> node_wf n ->
    exists n', assoc name (f_events (condense fexists fscalar fbmap defective
                                              rekey fsc dsval sa sb w true
                                              kold kwold loaded basin anc f))
               = Some n'
               /\ node_same n n'.
  Proof.
    intros Ha Hs He Hd Hwf.
    destruct (copy_scalar_preserves_feature true true f name n Ha Hs He Hd Hwf)
      as [n' [Hn' Hsame]].
    exists n'. split; [|exact Hsame]. unfold condense, condense_base.
    set (g := rtdc_copy FScalar true true true f) in *.
    destruct (fold_store_spec
                (condense_features fsc sa sb loaded basin anc g)
                (f_events g) name) as [A _].
    destruct w; cbn [f_events]; now apply A.
  Qed.

  (* condense of a .tdms file: the output holds exactly the selected scalar
     features, each as handed to the writer, and nothing else *)
  Theorem condense_tdms_features sa sb w kold kwold loaded basin anc f x :
    let out := condense fexists fscalar fbmap defective rekey fsc dsval
                        sa sb w false kold kwold loaded basin anc f in
    assoc x (f_events out)
    = (if memZ x (condense_features fsc sa sb loaded basin anc empty_file)
       then Some (stored_feature dsval x) else None)
    /\ f_bevents out = [] /\ f_tables out = [] /\ f_basins out = [].
  Proof.
    cbv zeta. unfold condense, condense_base.
    set (feats := condense_features fsc sa sb loaded basin anc empty_file).
    destruct (fold_store_spec feats (f_events empty_file) x) as [_ [B C]].
    assert (H : assoc x (fold_left
                (fun ev x0 => match assoc x0 ev with
                              | Some _ => ev
                              | None => ev ++ [(x0, stored_feature dsval x0)]
                              end) feats (f_events empty_file))
              = if memZ x feats then Some (stored_feature dsval x) else None).
    { destruct (memZ x feats) eqn:E.
      - apply B; [reflexivity|]. now apply memZ_In.
      - apply C; [reflexivity|]. now apply memZ_false. }
    destruct w; cbn [f_events f_bevents f_tables f_basins empty_file];
      repeat split; exact H.
  Qed.

  (* the internal basin data stay where rtdc_copy put them; the metadata are
     those of the input, the version chain gets one more segment *)
  Theorem condense_keeps_copy sa sb w kold kwold loaded basin anc f :
    let g := rtdc_copy FScalar true true true f in
    let out := condense fexists fscalar fbmap defective rekey fsc dsval
                        sa sb w true kold kwold loaded basin anc f in
    f_bevents out = f_bevents g /\ f_tables out = f_tables g
    /\ f_basins out = f_basins g /\ f_attrs out = f_attrs f
    /\ f_soft out = bump_version (f_soft f).
  Proof.
    cbv zeta. unfold condense, condense_base. destruct w; cbn; repeat split;
      try apply copy_preserves_metadata; apply bump_after_copy.
  Qed.

End Env.

(* ---------------------------------------------------------------------- *)
(* known findings: where content is NOT preserved                           *)
(* ---------------------------------------------------------------------- *)
Lemma uint32_store_refuted : exists v, h5_to_uint32 v <> v.
Proof. exists (-20). vm_compute. discriminate. Qed.

Lemma uint32_store_partial v : 0 <= v <= 4294967295 -> h5_to_uint32 v = v.
Proof. unfold h5_to_uint32. lia. Qed.

Lemma condense_total_refuted :
  exists dsval feats ev, condense_crashes dsval feats ev = true.
Proof. exists (fun _ => []), [7], []. reflexivity. Qed.

Lemma condense_total_partial dsval feats ev :
  (forall x, In x feats -> dsval x <> []) ->
  condense_crashes dsval feats ev = false.
Proof.
  intros H. unfold condense_crashes.
  destruct (existsb _ feats) eqn:E; [|reflexivity].
  apply existsb_exists in E. destruct E as [x [Hx E]].
  destruct (assoc x ev); [discriminate|].
  specialize (H x Hx). destruct (dsval x); [congruence|discriminate].
Qed.

(* the section generalised this lemma over variables it does not mention *)
Lemma condense_feature_set (fsc : Z -> bool) sa sb loaded basin anc g x :
  In x (condense_features fsc sa sb loaded basin anc g) <->
  fsc x = true /\
  (In x loaded
   \/ (sb = true /\ In x basin /\ ~ In x (map fst (f_bevents g)))
   \/ (sa = true /\ In x anc /\ ~ In x (map fst (f_bevents g)))).
Proof.
  exact (condense_features_In (fun _ => true) (fun _ => true) (fun _ => true)
           (fun _ => true) (fun k _ => k) fsc (fun _ => []) sa sb loaded basin
           anc g x).
Qed.

(* ---------------------------------------------------------------------- *)
(* non-vacuity                                                              *)
(* ---------------------------------------------------------------------- *)
Definition ex_d1 : dset :=
  mkD [4] (Some [3]) 0 0 None [[8]; [16]; [-4]; [2]] [(10, 77)].
Definition ex_log : dset := mkD [2] None 1 0 None [[104; 105]; [33]] [].
Definition ex_tab : dset := mkD [1] None 3 0 None [[1; 2; 3]] [(11, 5)].
Definition ex_file : h5file :=
  mkF [(20, 1)] [(30, NDs ex_d1); (31, NGrp [(0, ex_d1)])] []
      [(40, ex_log)] [(50, ex_tab)] [] [7].

Example ex_copy_feature :
  let ex := fun x => 30 <=? x in
  let sc := fun x => x =? 30 in
  let no := fun _ : Z => false in
  wf_dset ex_d1
  /\ exists n', assoc 30 (f_events (rtdc_copy ex sc no no (fun k _ => k) FAll true
                                              true true ex_file)) = Some n'
                /\ n' <> NDs ex_d1
                /\ named_content (f_tables (rtdc_copy ex sc no no (fun k _ => k) FAll
                                                      true true true ex_file))
                   = [(50, ([1], [[1; 2; 3]], [(11, 5)]))].
Proof.
  cbv zeta. split.
  - unfold wf_dset, ex_d1; cbn. repeat split; try discriminate; try lia;
      repeat constructor; lia.
  - eexists. split; [vm_compute; reflexivity|]. split; [discriminate|].
    vm_compute. reflexivity.
Qed.

Example ex_condense :
  In 61 (condense_features (fun x => 60 <=? x) true true [60] [61; 5] [62]
                           empty_file)
  /\ ~ In 5 (condense_features (fun x => 60 <=? x) true true [60] [61; 5] [62]
                               empty_file).
Proof. vm_compute. split; [auto|]. intros [H|[H|[H|[]]]]; discriminate. Qed.
