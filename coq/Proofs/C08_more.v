(* Proofs about Model/C08.v, continued: a second copy changes no data
   (file level), and the event selection of tdms2rtdc. *)
From Coq Require Import ZArith List Bool Lia ZifyBool ZifyNat.
From Verif Require Import Model.C08 Proofs.C08 Proofs.C08_file.
Import ListNotations.
Open Scope Z_scope.

(* ---------------------------------------------------------------------- *)
(* finishing a finished feature changes nothing                             *)
(* ---------------------------------------------------------------------- *)
Lemma complete_attr_present k d :
  assoc k (d_attrs d) <> None -> complete_attr k d = d.
Proof.
  unfold complete_attr. destruct (assoc k (d_attrs d)); [reflexivity|congruence].
Qed.

Lemma complete_attr_has k d : assoc k (d_attrs (complete_attr k d)) <> None.
Proof.
  unfold complete_attr. destruct (assoc k (d_attrs d)) eqn:E; [congruence|].
  cbn [d_attrs]. rewrite assoc_app, E. simpl. rewrite Z.eqb_refl. discriminate.
Qed.

Lemma complete_attr_keeps k k' d :
  assoc k (d_attrs d) <> None -> assoc k (d_attrs (complete_attr k' d)) <> None.
Proof.
  intros H. unfold complete_attr. destruct (assoc k' (d_attrs d)); [exact H|].
  cbn [d_attrs]. rewrite assoc_app. destruct (assoc k (d_attrs d)); congruence.
Qed.

Lemma complete_stats_idem d : complete_stats (complete_stats d) = complete_stats d.
Proof.
  unfold complete_stats at 1.
  set (c := complete_stats d).
  assert (H1 : assoc A_MIN (d_attrs c) <> None).
  { unfold c, complete_stats. do 2 apply complete_attr_keeps. apply complete_attr_has. }
  assert (H2 : assoc A_MAX (d_attrs c) <> None).
  { unfold c, complete_stats. apply complete_attr_keeps. apply complete_attr_has. }
  assert (H3 : assoc A_MEAN (d_attrs c) <> None).
  { unfold c, complete_stats. apply complete_attr_has. }
  rewrite (complete_attr_present A_MIN c H1), (complete_attr_present A_MAX c H2),
    (complete_attr_present A_MEAN c H3). reflexivity.
Qed.

Lemma finish_idem fscalar feat n :
  finish fscalar feat (finish fscalar feat n) = finish fscalar feat n.
Proof.
  destruct n as [d|ch]; unfold finish at 2; cbn [copy_node].
  - destruct (fscalar feat && negb (zprod (d_shape (h5ds_copy true d)) =? 0)) eqn:E.
    + unfold finish. cbn [copy_node].
      pose proof (finish_stable fscalar feat (NDs d)) as Hst.
      unfold finish in Hst. cbn [copy_node] in Hst. rewrite E in Hst.
      cbn [node_stable] in Hst. unfold stable in Hst. rewrite Hst.
      destruct (complete_stats_same (h5ds_copy true d)) as [s _]. rewrite s, E.
      now rewrite complete_stats_idem.
    + unfold finish. cbn [copy_node]. rewrite h5ds_copy_idempotent, E. reflexivity.
  - unfold finish. cbn [copy_node]. f_equal. rewrite map_map. cbn [fst snd].
    apply map_ext. intros [k d]. cbn [fst snd]. now rewrite h5ds_copy_idempotent.
Qed.

(* ---------------------------------------------------------------------- *)
(* the copy applied to its own output (compress/repack with basins kept):
   same features, same internal basin data, same logs, tables, metadata.
   [defective2] is DEFECTIVE_FEATURES evaluated on the first output; the
   hypothesis says that no feature of that output is marked (the harness
   checks it on every generated case; it fails only through the version
   brand an untagged build appends).  Basin definitions: see
   copy_preserves_basin_definitions applied to the output. *)
(* ---------------------------------------------------------------------- *)
Theorem second_copy_changes_no_data
        (fexists fscalar fbmap defective defective2 : Z -> bool)
        (rekey : Z -> list Z -> Z) (il it : bool) (f : h5file) :
  let g := rtdc_copy fexists fscalar fbmap defective rekey FAll true il it f in
  let h := rtdc_copy fexists fscalar fbmap defective2 rekey FAll true il it g in
  (forall name, In name (map fst (f_events g)) -> defective2 name = false) ->
  (forall name, assoc name (f_events h) = assoc name (f_events g))
  /\ (forall name, assoc name (f_bevents h) = assoc name (f_bevents g))
  /\ f_logs h = f_logs g /\ f_tables h = f_tables g /\ f_attrs h = f_attrs g.
Proof.
  cbv zeta. intros Hd2.
  set (g := rtdc_copy fexists fscalar fbmap defective rekey FAll true il it f).
  destruct (rtdc_copy_events fexists fscalar fbmap defective2 rekey FAll true il it g)
    as [Hev Hbv].
  split; [|split; [|split; [|split]]].
  - intros name. rewrite Hev.
    rewrite (assoc_flat_map (ev_of fexists fscalar defective2 g))
      by apply ev_of_keys.
    destruct (assoc name (f_events g)) as [n|] eqn:Ea.
    + assert (Hin : In name (map fst (f_events g))) by (eapply assoc_In_keys; eauto).
      replace (memZ name (feature_iter fscalar fbmap FAll true g)) with true.
      * pose proof (assoc_In _ _ _ Ea) as Hmem.
        apply (copy_invents_no_feature fexists fscalar fbmap defective rekey) in Hmem.
        destruct Hmem as [n0 [_ [He [_ ->]]]].
        unfold ev_of. rewrite He, Ea, (Hd2 name Hin). cbn [negb assoc].
        rewrite Z.eqb_refl. now rewrite finish_idem.
      * symmetry. apply memZ_In. apply (feature_iter_all_basins fexists fscalar fbmap defective rekey).
        apply (events_src_In fexists fscalar fbmap defective rekey). now left.
    + unfold ev_of. rewrite Ea.
      destruct (memZ name _); [|reflexivity].
      destruct (negb (fexists name)); reflexivity.
  - intros name. rewrite Hbv.
    rewrite (assoc_flat_map (bev_of fexists true g)) by apply bev_of_keys.
    destruct (assoc name (f_bevents g)) as [d|] eqn:Ea.
    + replace (memZ name (feature_iter fscalar fbmap FAll true g)) with true.
      * pose proof (assoc_In _ _ _ Ea) as Hmem.
        destruct (rtdc_copy_events fexists fscalar fbmap defective rekey FAll true
                                   il it f) as [_ Hbf].
        fold g in Hbf. rewrite Hbf in Hmem. apply in_flat_map in Hmem.
        destruct Hmem as [y [_ Hy]]. unfold bev_of in Hy.
        destruct (fexists y) eqn:Ey; cbn [negb] in Hy; [|destruct Hy].
        destruct (assoc y (f_bevents f)) as [d0|]; [|destruct Hy].
        destruct Hy as [[= <- <-]|[]].
        unfold bev_of. rewrite Ey, Ea. cbn [negb assoc]. rewrite Z.eqb_refl.
        now rewrite h5ds_copy_idempotent.
      * symmetry. apply memZ_In. apply (feature_iter_all_basins fexists fscalar fbmap defective rekey).
        apply (events_src_In fexists fscalar fbmap defective rekey). right. split; [reflexivity|].
        eapply assoc_In_keys; eauto.
    + unfold bev_of. rewrite Ea.
      destruct (memZ name _); [|reflexivity].
      destruct (negb (fexists name)); reflexivity.
  - unfold g, rtdc_copy. repeat destruct (fold_left _ _ _). cbn [f_logs].
    destruct il; [|reflexivity]. rewrite map_map. cbn [fst snd].
    apply map_ext. intros [k d]. cbn [fst snd]. now rewrite h5ds_copy_idempotent.
  - unfold g, rtdc_copy. repeat destruct (fold_left _ _ _). cbn [f_tables].
    destruct it; [|reflexivity]. rewrite map_map. reflexivity.
  - unfold g. now rewrite !copy_preserves_metadata.
Qed.

(* ---------------------------------------------------------------------- *)
(* the software version chain                                               *)
(* ---------------------------------------------------------------------- *)
(* version_brand appends exactly one segment, or nothing when the chain
   already ends with the current version *)
Theorem bump_spec segs :
  bump_version segs = segs ++ [SEG_CUR]
  \/ (bump_version segs = segs /\ segs <> [] /\ last segs 0 = SEG_CUR).
Proof.
  unfold bump_version. destruct segs as [|a l]; [now left|].
  destruct (last (a :: l) 0 =? SEG_CUR) eqn:E.
  - right. split; [reflexivity|]. split; [discriminate|lia].
  - now left.
Qed.

Theorem bump_idem segs : bump_version (bump_version segs) = bump_version segs.
Proof.
  destruct (bump_spec segs) as [H|[H [Hn Hl]]].
  - rewrite H. unfold bump_version at 1.
    destruct (segs ++ [SEG_CUR]) eqn:E; [destruct segs; discriminate|].
    rewrite <- E, last_last, Z.eqb_refl. reflexivity.
  - now rewrite !H.
Qed.

Local Notation T_ := (fun _ : Z => true).
Local Notation RK_ := (fun (k : Z) (_ : list Z) => k).

(* ---------------------------------------------------------------------- *)
(* repack --strip-basins applied twice                                      *)
(* ---------------------------------------------------------------------- *)
Lemma fold_remove_NoDup (bm : list Z) : forall it,
  NoDup it ->
  NoDup (fold_left (fun it b => if memZ b it then remove_firstZ b it else it)
                   bm it).
Proof.
  induction bm as [|b bm IH]; intros it Hnd; cbn [fold_left]; [assumption|].
  apply IH. destruct (memZ b it); [now apply (remove_firstZ_NoDup T_ T_ T_ T_ RK_)|assumption].
Qed.

Lemma ev_of_keys_NoDup fexists fscalar defective f (l : list Z) :
  NoDup l -> NoDup (map fst (flat_map (ev_of fexists fscalar defective f) l)).
Proof.
  induction l as [|y l IH]; intros Hnd; [constructor|].
  inversion Hnd as [|? ? Hy Hl]; subst. cbn [flat_map]. rewrite map_app.
  assert (Hsub : forall x, In x (map fst (flat_map (ev_of fexists fscalar defective f) l))
                           -> In x l).
  { intros x Hx. apply in_map_iff in Hx. destruct Hx as [[k v] [<- Hx]].
    apply in_flat_map in Hx. destruct Hx as [z [Hz Hx]].
    apply ev_of_keys in Hx. cbn [fst]. now subst. }
  unfold ev_of at 1. destruct (negb (fexists y)); [now apply IH|].
  destruct (assoc y (f_events f)); [|now apply IH].
  destruct (defective y); [now apply IH|].
  cbn [map fst app]. constructor; [|now apply IH].
  intros H. apply Hy. now apply Hsub.
Qed.

Theorem second_copy_strip_basins
        (fexists fscalar fbmap defective defective2 : Z -> bool)
        (rekey : Z -> list Z -> Z) (il it : bool) (f : h5file) :
  let g := rtdc_copy fexists fscalar fbmap defective rekey FAll false il it f in
  let h := rtdc_copy fexists fscalar fbmap defective2 rekey FAll false il it g in
  NoDup (map fst (f_events f)) ->
  (forall name, In name (map fst (f_events g)) -> defective2 name = false) ->
  (forall name, assoc name (f_events h) = assoc name (f_events g))
  /\ f_bevents h = [] /\ f_bevents g = [] /\ f_basins h = [] /\ f_basins g = []
  /\ f_logs h = f_logs g /\ f_tables h = f_tables g /\ f_attrs h = f_attrs g
  /\ f_soft h = f_soft g.
Proof.
  cbv zeta. intros Hnd Hd2.
  set (g := rtdc_copy fexists fscalar fbmap defective rekey FAll false il it f).
  destruct (rtdc_copy_events fexists fscalar fbmap defective2 rekey FAll false il it g)
    as [Hev _].
  destruct (rtdc_copy_events fexists fscalar fbmap defective rekey FAll false il it f)
    as [Hgf _]. fold g in Hgf.
  assert (Hfit : NoDup (feature_iter fscalar fbmap FAll false f)).
  { unfold feature_iter. cbn [feature_iter0 events_src]. now apply fold_remove_NoDup. }
  assert (Hgnd : NoDup (map fst (f_events g))).
  { rewrite Hgf. now apply ev_of_keys_NoDup. }
  split; [|repeat split].
  - intros name. rewrite Hev.
    rewrite (assoc_flat_map (ev_of fexists fscalar defective2 g)) by apply ev_of_keys.
    destruct (assoc name (f_events g)) as [n|] eqn:Ea.
    + assert (Hin : In name (map fst (f_events g))) by (eapply assoc_In_keys; eauto).
      pose proof (assoc_In _ _ _ Ea) as Hmem.
      assert (Hbm : fbmap name = false).
      { rewrite Hgf in Hmem. apply in_flat_map in Hmem. destruct Hmem as [y [Hy Hm]].
        apply ev_of_keys in Hm. subst y.
        apply (feature_iter_all_nobasins fexists fscalar fbmap defective rekey) in Hy;
          tauto. }
      replace (memZ name (feature_iter fscalar fbmap FAll false g)) with true.
      * apply (copy_invents_no_feature fexists fscalar fbmap defective rekey) in Hmem.
        destruct Hmem as [n0 [_ [He [_ ->]]]].
        unfold ev_of. rewrite He, Ea, (Hd2 name Hin). cbn [negb assoc].
        rewrite Z.eqb_refl. now rewrite finish_idem.
      * symmetry. apply memZ_In.
        apply (feature_iter_all_nobasins fexists fscalar fbmap defective rekey);
          [assumption|]. split; assumption.
    + unfold ev_of. rewrite Ea.
      destruct (memZ name _); [|reflexivity].
      destruct (negb (fexists name)); reflexivity.
  - apply (strip_basins_strips fexists fscalar fbmap defective2 rekey).
  - apply (strip_basins_strips fexists fscalar fbmap defective rekey).
  - apply (strip_basins_strips fexists fscalar fbmap defective2 rekey).
  - apply (strip_basins_strips fexists fscalar fbmap defective rekey).
  - unfold g, rtdc_copy. repeat destruct (fold_left _ _ _). cbn [f_logs].
    destruct il; [|reflexivity]. rewrite map_map. cbn [fst snd].
    apply map_ext. intros [k d]. cbn [fst snd]. now rewrite h5ds_copy_idempotent.
  - unfold g, rtdc_copy. repeat destruct (fold_left _ _ _). cbn [f_tables].
    destruct it; [|reflexivity]. rewrite map_map. reflexivity.
  - unfold g. now rewrite !copy_preserves_metadata.
  - unfold g. now rewrite !copy_preserves_version.
Qed.

(* ---------------------------------------------------------------------- *)
(* compress applied to its own output (two different md5 names)             *)
(* ---------------------------------------------------------------------- *)
Lemma rtdc_copy_depends_on_events fexists fscalar fbmap defective rekey sel ib
      il it il' it' (x y : h5file) :
  f_events x = f_events y -> f_bevents x = f_bevents y ->
  f_events (rtdc_copy fexists fscalar fbmap defective rekey sel ib il it x)
  = f_events (rtdc_copy fexists fscalar fbmap defective rekey sel ib il' it' y)
  /\ f_bevents (rtdc_copy fexists fscalar fbmap defective rekey sel ib il it x)
     = f_bevents (rtdc_copy fexists fscalar fbmap defective rekey sel ib il' it' y).
Proof.
  intros He Hb.
  destruct (rtdc_copy_events fexists fscalar fbmap defective rekey sel ib il it x)
    as [-> ->].
  destruct (rtdc_copy_events fexists fscalar fbmap defective rekey sel ib il' it' y)
    as [-> ->].
  unfold ev_of, bev_of, feature_iter, events_src. rewrite He, Hb. auto.
Qed.

Theorem compress_twice_same_data
        (fexists fscalar fbmap defective defective2 : Z -> bool)
        (rekey : Z -> list Z -> Z) (w1 w2 : bool) (k1 kw1 k2 kw2 : Z)
        (f : h5file) :
  let c1 := compress fexists fscalar fbmap defective rekey w1 k1 kw1 f in
  let c2 := compress fexists fscalar fbmap defective2 rekey w2 k2 kw2 c1 in
  (forall name, In name (map fst (f_events c1)) -> defective2 name = false) ->
  (forall name, assoc name (f_events c2) = assoc name (f_events c1))
  /\ (forall name, assoc name (f_bevents c2) = assoc name (f_bevents c1))
  /\ f_tables c2 = f_tables c1 /\ f_attrs c2 = f_attrs c1
  /\ f_soft c2 = f_soft c1.
Proof.
  cbv zeta. intros Hd2.
  set (g := rtdc_copy fexists fscalar fbmap defective rekey FAll true true true f).
  set (c1 := compress fexists fscalar fbmap defective rekey w1 k1 kw1 f) in *.
  destruct (compress_events fexists fscalar fbmap defective rekey w1 k1 kw1 f)
    as [E1 [B1 [T1 [_ [A1 S1]]]]]. fold c1 g in E1, B1, T1, A1, S1.
  destruct (compress_events fexists fscalar fbmap defective2 rekey w2 k2 kw2 c1)
    as [E2 [B2 [T2 [_ [A2 S2]]]]].
  destruct (rtdc_copy_depends_on_events fexists fscalar fbmap defective2 rekey FAll
              true true true true true c1 g E1 B1) as [E3 B3].
  rewrite E1 in Hd2.
  pose proof (second_copy_changes_no_data fexists fscalar fbmap defective defective2
                rekey true true f) as P.
  cbv zeta in P. fold g in P. destruct (P Hd2) as [P1 [P2 [_ [P4 _]]]].
  split; [|split; [|split; [|split]]].
  - intros name. rewrite E2, E3, E1. apply P1.
  - intros name. rewrite B2, B3, B1. apply P2.
  - assert (HT : forall d x,
              f_tables (rtdc_copy fexists fscalar fbmap d rekey FAll true true true x)
              = map (fun kd => (fst kd, table_copy (snd kd))) (f_tables x))
      by (intros; unfold rtdc_copy; destruct (fold_left _ _ _); reflexivity).
    rewrite T2, HT, T1. unfold g. rewrite HT, map_map.
    apply map_ext. intros [k d]. reflexivity.
  - now rewrite A2.
  - rewrite S2, S1. apply bump_idem.
Qed.

(* ---------------------------------------------------------------------- *)
(* tdms2rtdc                                                                *)
(* ---------------------------------------------------------------------- *)
Lemma tdms_kept_In n si sf fe le i :
  In i (tdms_kept n si sf fe le) <->
  0 <= i < n /\ tdms_manual n si sf fe le i = true.
Proof. unfold tdms_kept. rewrite filter_In, zrange_In. tauto. Qed.

(* only the first and the last event can be left out, and only when their
   image is empty and the option asks for it *)
Theorem tdms_keeps_event n si sf fe le i :
  0 <= i < n ->
  (i = 0 -> si && fe = false) -> (i = n - 1 -> sf && le = false) ->
  In i (tdms_kept n si sf fe le).
Proof.
  intros Hi H0 Hn. apply tdms_kept_In. split; [assumption|].
  unfold tdms_manual.
  destruct (i =? 0) eqn:E0.
  - rewrite <- andb_assoc, (H0 ltac:(lia)). cbn.
    destruct (i =? n - 1) eqn:En; [|reflexivity].
    rewrite <- andb_assoc, (Hn ltac:(lia)). reflexivity.
  - cbn. destruct (i =? n - 1) eqn:En; [|reflexivity].
    rewrite <- andb_assoc, (Hn ltac:(lia)). reflexivity.
Qed.

Theorem tdms_drops_only_empty_boundary n si sf fe le i :
  0 <= i < n -> ~ In i (tdms_kept n si sf fe le) ->
  (i = 0 /\ si = true /\ fe = true) \/ (i = n - 1 /\ sf = true /\ le = true).
Proof.
  intros Hi Hni.
  destruct (Z.eq_dec i 0) as [E0|E0]; destruct (Z.eq_dec i (n - 1)) as [En|En];
    destruct si, fe, sf, le; auto;
    exfalso; apply Hni; apply tdms_keeps_event; auto; intros; try reflexivity; lia.
Qed.

Lemma filter_all_true {A} (p : A -> bool) l :
  (forall x, In x l -> p x = true) -> filter p l = l.
Proof.
  induction l as [|x l IH]; simpl; intros H; [reflexivity|].
  rewrite (H x) by now left. f_equal. apply IH. intros; apply H; now right.
Qed.

(* nothing skipped: every feature is exported unchanged *)
Theorem tdms_export_all n si sf fe le (vals : list elem) :
  Z.of_nat (length vals) = n -> si && fe = false -> sf && le = false ->
  tdms_export (tdms_kept n si sf fe le) vals = vals.
Proof.
  intros Hl H1 H2. unfold tdms_export, tdms_kept.
  rewrite filter_all_true.
  - unfold zrange. replace (Z.to_nat (n - 0)) with (length vals) by lia.
    apply map_nth_range.
  - intros i Hi. apply zrange_In in Hi. unfold tdms_manual.
    rewrite <- !andb_assoc, H1, H2, !andb_false_r. reflexivity.
Qed.

(* in general: the exported list consists of the source values of the kept
   events, in order *)
Theorem tdms_export_values kept (vals : list elem) j :
  (j < length kept)%nat ->
  nth j (tdms_export kept vals) [] = nth (Z.to_nat (nth j kept 0)) vals [].
Proof.
  intros Hj. unfold tdms_export.
  set (F := fun i : Z => nth (Z.to_nat i) vals []).
  transitivity (nth j (map F kept) (F 0)).
  - apply nth_indep. now rewrite map_length.
  - apply (map_nth F kept 0 j).
Qed.

Example ex_tdms :
  tdms_kept 5 true true true false = [1; 2; 3; 4]
  /\ tdms_kept 5 true true true true = [1; 2; 3]
  /\ tdms_kept 5 false false true true = [0; 1; 2; 3; 4]
  /\ tdms_export (tdms_kept 3 true true true false) [[7]; [8]; [9]] = [[8]; [9]].
Proof. vm_compute. auto. Qed.

Example ex_second_copy :
  let ex := fun x => 30 <=? x in
  let sc := fun x => x =? 30 in
  let no := fun _ : Z => false in
  let g := rtdc_copy ex sc no no (fun k _ => k) FAll true true true ex_file in
  let h := rtdc_copy ex sc no no (fun k _ => k) FAll true true true g in
  g <> ex_file /\ h = g.
Proof. cbv zeta. split; [vm_compute; discriminate|vm_compute; reflexivity]. Qed.

(* ---------------------------------------------------------------------- *)
(* the defective-feature markers (fmt_hdf5/feat_defect.py)                  *)
(* ---------------------------------------------------------------------- *)
(* A file that was never written by dclab (no "dclab x.y.z" at the end of the
   software version), is not from Shape-In 2.0.6/2.0.7 and does not store a
   float32 time next to a frame feature carries no marker at all: the copy
   then keeps every recognised feature. *)
Theorem unmarked_file_has_no_defective_feature x c :
  df_exact_aspect x = false -> df_last_dclab x = None ->
  df_time_f32 x && df_has_frame x = false ->
  defective_code x c = false.
Proof.
  intros Ha Hl Ht. unfold defective_code, defect_inert_raw_cvx, defect_inert,
    defect_time, defect_volume, dclab_older. rewrite Ha, Hl.
  rewrite !andb_false_r.
  destruct (c =? D_ASPECT); [reflexivity|].
  destruct ((c =? D_CVX) || (c =? D_RAW)); [reflexivity|].
  destruct ((c =? D_PRNC) || (c =? D_TILT)); [reflexivity|].
  destruct (c =? D_TIME); [|destruct (c =? D_VOLUME); reflexivity].
  destruct (df_has_frame x), (df_rate x), (df_time_f32 x); cbn in *;
    try reflexivity; discriminate.
Qed.

Lemma ver_ltb_trans a b c : ver_ltb a b = true -> ver_ltb b c = true -> ver_ltb a c = true.
Proof.
  destruct a as [[[a1 a2] a3] a4], b as [[[b1 b2] b3] b4], c as [[[c1 c2] c3] c4].
  unfold ver_ltb. intros H1 H2. lia.
Qed.

Lemma ver_ltb_irrefl_ge a b : ver_ltb a b = true -> ver_ltb b a = false.
Proof.
  destruct a as [[[a1 a2] a3] a4], b as [[[b1 b2] b3] b4]. unfold ver_ltb. intros H. lia.
Qed.

(* a file last written by dclab >= 0.48.3 has at most the aspect and the
   float32-time markers *)
Theorem recent_dclab_marks_only_aspect_and_f32_time x c w :
  df_last_dclab x = Some w -> ver_ltb w (0, 48, 3, 0) = false ->
  defective_code x c = true ->
  (c = D_ASPECT /\ df_exact_aspect x = true)
  \/ (c = D_TIME /\ df_time_f32 x = true /\ df_has_frame x = true).
Proof.
  intros Hl Hw. unfold defective_code, defect_inert_raw_cvx, defect_inert,
    defect_time, defect_volume, dclab_older. rewrite Hl.
  assert (H1 : ver_ltb w (0, 47, 6, 0) = false).
  { destruct (ver_ltb w (0, 47, 6, 0)) eqn:E; [|reflexivity].
    rewrite (ver_ltb_trans w (0, 47, 6, 0) (0, 48, 3, 0) E eq_refl) in Hw. discriminate. }
  assert (H2 : ver_ltb w (0, 37, 0, 0) = false).
  { destruct (ver_ltb w (0, 37, 0, 0)) eqn:E; [|reflexivity].
    rewrite (ver_ltb_trans w (0, 37, 0, 0) (0, 48, 3, 0) E eq_refl) in Hw. discriminate. }
  rewrite Hw, H1, H2, !andb_false_r.
  destruct (c =? D_ASPECT) eqn:E1; [intros H; left; split; [lia|exact H]|].
  destruct ((c =? D_CVX) || (c =? D_RAW)); [discriminate|].
  destruct ((c =? D_PRNC) || (c =? D_TILT)); [discriminate|].
  destruct (c =? D_TIME) eqn:E2; [|destruct (c =? D_VOLUME); discriminate].
  intros H. right. split; [lia|].
  destruct (df_has_frame x), (df_rate x), (df_time_f32 x); cbn in H;
    try discriminate; auto.
Qed.

(* the aspect marker is an exact match of the software string: a file that a
   later program has touched ("ShapeIn 2.0.6 | dclab 0.50.0") keeps aspect *)
Theorem aspect_marker_is_exact x :
  defective_code x D_ASPECT = df_exact_aspect x.
Proof. reflexivity. Qed.

Example ex_defect :
  let old := mkFacts false true (Some (0, 30, 0, 0)) (Some (2, 0, 5, 0)) false None
                     false true true false true in
  defective_code old D_VOLUME = true /\ defective_code old D_TIME = true
  /\ defective_code old D_TILT = true /\ defective_code old D_RAW = false
  /\ defective_code old D_ASPECT = false
  /\ defective_code (mkFacts false true (Some (0, 30, 0, 0)) (Some (2, 0, 5, 0))
                             false None true true true false true) D_VOLUME = false
  (* 0.47.6rc1 is older than 0.47.6: time still marked *)
  /\ defective_code (mkFacts false true (Some (0, 47, 6, -1)) (Some (2, 0, 5, 0))
                             false None false true true false false) D_TIME = true
  (* newer Shape-In: bare first version 2.1.6 + acquisition log is trusted *)
  /\ defective_code (mkFacts false false (Some (0, 48, 0, 0)) None true
                             (Some (2, 1, 6, 0)) false true true false true)
                    D_RAW = false
  /\ defective_code (mkFacts false false (Some (0, 48, 0, 0)) None false
                             (Some (2, 1, 6, 0)) false true true false true)
                    D_RAW = true.
Proof. vm_compute. auto 10. Qed.
