(* Proofs about the join model (Model/C09.v). *)
From Coq Require Import ZArith List Bool Lia ZifyBool ZifyNat Permutation Sorted.
From Verif Require Import Common.ListIdx Common.PyList Model.C09.
Import ListNotations.
Open Scope Z_scope.
Ltac Zify.zify_post_hook ::= Z.div_mod_to_equations.

Notation len l := (Z.of_nat (length l)).

(* ---- ordering ---------------------------------------------------------- *)
Lemma tkey_leb_total a b : tkey_leb a b = true \/ tkey_leb b a = true.
Proof. destruct a, b; unfold tkey_leb; cbn [fst snd]; lia. Qed.

Lemma tkey_leb_trans a b c :
  tkey_leb a b = true -> tkey_leb b c = true -> tkey_leb a c = true.
Proof. destruct a, b, c; unfold tkey_leb; cbn [fst snd]; lia. Qed.

(* the order used by the fixed join: a permutation of the inputs, ascending
   in (acquisition time, run index), inputs with equal keys in given order *)
Theorem join_order_chronological inputs :
  Permutation (sorted_gen leb_num inputs) (tag_from 0 inputs)
  /\ StronglySorted (fun a b => leb_num (snd a) (snd b) = true)
                    (sorted_gen leb_num inputs)
  /\ forall t r, filter (same_key t r) (sorted_gen leb_num inputs)
                 = filter (same_key t r) (tag_from 0 inputs).
Proof.
  split; [|split].
  - apply py_sorted_perm.
  - apply (py_sorted_sorted _ (tagged_leb leb_num)).
    + intros x y. apply tkey_leb_total.
    + intros x y z. apply tkey_leb_trans.
  - intros t r. apply py_sorted_stable.
    intros a b Ha Hb. unfold same_key in *. unfold tagged_leb, leb_num, tkey_leb, tkey.
    cbn [fst snd]. lia.
Qed.

Lemma leb_num_time a b : leb_num a b = true -> acq_time8 a <= acq_time8 b.
Proof. unfold leb_num, tkey_leb, tkey; cbn [fst snd]; lia. Qed.

(* ---- inversion of join_gen --------------------------------------------- *)
Lemma join_gen_inv leb prune inputs j :
  join_gen leb prune inputs = Ok j ->
  exists m0 rest,
    map snd (sorted_gen leb inputs) = m0 :: rest
    /\ j_order j = map fst (sorted_gen leb inputs)
    /\ j_feats j
       = sort_dedup (fst (prune_all prune (py_sorted Z.leb (m_innate m0)) rest))
    /\ join_files (acq_time8 m0) (m0 :: rest)
                  (map (fun f => (f, [])) (j_feats j)) = Ok (j_cols j)
    /\ j_logs j = [(0, 0); (0, 1)]
                  ++ (if snd (prune_all prune (py_sorted Z.leb (m_innate m0)) rest)
                      then [(0, 2)] else [])
                  ++ source_logs 1 (m0 :: rest)
    /\ (j_date j = m_date m0 /\ j_time j = m_time m0
        /\ j_sample j = m_sample m0 /\ j_run j = JOIN_RUN_INDEX
        /\ j_count j = event_count m0 (j_cols j))
    /\ (2 <= length inputs)%nat
    /\ forallb wf_datetime inputs = true.
Proof.
  unfold join_gen, sorted_gen, tagged_leb. cbv zeta.
  destruct (length inputs <? 2)%nat eqn:Elen; [discriminate|].
  destruct (forallb wf_datetime inputs) eqn:Ewf; [|discriminate].
  cbn [negb].
  destruct (map snd (py_sorted _ (tag_from 0 inputs))) as [|m0 rest] eqn:E;
    [discriminate|].
  destruct (prune_all prune (py_sorted Z.leb (m_innate m0)) rest)
    as [feats warn] eqn:Ep.
  destruct (join_files (acq_time8 m0) (m0 :: rest)
                       (map (fun f => (f, [])) (sort_dedup feats)))
    as [cols|e] eqn:Ej; [|discriminate].
  intros [= <-]. exists m0, rest.
  cbn [j_order j_feats j_cols j_logs j_date j_time j_sample j_run j_count].
  rewrite Ep. cbn [fst snd]. repeat split; auto.
  apply Nat.ltb_ge in Elen. exact Elen.
Qed.

(* ---- features ------------------------------------------------------------ *)
Lemma prune_all_fixed rest :
  forall feats, NoDup feats ->
    fst (prune_all (py_prune_copy Z.eqb) feats rest)
    = filter (fun f => forallb (fun m => mem Z.eqb f (m_avail m)) rest) feats.
Proof.
  induction rest as [|m r IH]; intros feats Hnd; cbn [prune_all forallb].
  - cbn [fst]. symmetry. apply filter_id. auto.
  - rewrite (py_prune_copy_is_filter Z Z.eqb Z.eqb_eq) by assumption.
    assert (Hnd' : NoDup (filter (fun f => mem Z.eqb f (m_avail m)) feats))
      by (apply NoDup_filter; assumption).
    specialize (IH _ Hnd').
    destruct (prune_all (py_prune_copy Z.eqb)
                (filter (fun f => mem Z.eqb f (m_avail m)) feats) r)
      as [fs w'] eqn:Ep.
    cbn [fst] in *. rewrite IH. apply filter_filter.
Qed.

Lemma py_sorted_NoDup {B} (leb : B -> B -> bool) l :
  NoDup l -> NoDup (py_sorted leb l).
Proof.
  intros H. eapply Permutation_NoDup; [|exact H].
  symmetry. apply py_sorted_perm.
Qed.

(* the exported features are exactly the innate features of the earliest
   input that every other input can provide *)
Theorem join_features_common inputs j :
  join_fixed inputs = Ok j ->
  exists m0 rest,
    map snd (sorted_gen leb_num inputs) = m0 :: rest
    /\ (NoDup (m_innate m0) -> j_feats j = spec_features m0 rest).
Proof.
  intros H. apply join_gen_inv in H.
  destruct H as [m0 [rest [Hs [_ [Hf _]]]]].
  exists m0, rest. split; [assumption|]. intros Hnd.
  rewrite Hf. rewrite prune_all_fixed by now apply py_sorted_NoDup.
  unfold spec_features. apply sort_dedup_id.
  apply StronglySorted_filter. now apply py_sorted_strict.
Qed.

(* ---- columns ------------------------------------------------------------- *)
Definition data_spec (m : meas) (ti f : Z) (old : list Z) : list Z :=
  let col := getcol f m in
  if kind f =? 1 then map (Z.add ti) col
  else if kind f =? 2 then map (Z.add (round_half_even (ti * m_rate m) 64)) col
  else if kind f =? 3 then
    map (Z.add (match old with [] => 0 | _ => last old 0 + 1 end)) col
  else if kind f =? 4 then
    map (fun i => len old + 1 + Z.of_nat i) (seq 0 (length col))
  else col.

Lemma fdata_spec m ti f old d :
  fdata m ti f old = Ok d -> d = data_spec m ti f old.
Proof.
  unfold fdata, data_spec, getcol.
  destruct (lookup_col f (m_cols m)) as [col|]; [|discriminate].
  destruct col as [|c0 col]; [discriminate|].
  destruct (kind f =? 1); [now intros [= <-]|].
  destruct (kind f =? 2).
  { destruct (round_half_even (ti * m_rate m) 64 <? 0);
      [discriminate|now intros [= <-]]. }
  destruct (kind f =? 3); [now intros [= <-]|].
  destruct (kind f =? 4); now intros [= <-].
Qed.

Lemma append_all_spec m ti st :
  forall st', append_all m ti st = Ok st' ->
    st' = map (fun fc => (fst fc, snd fc ++ data_spec m ti (fst fc) (snd fc))) st.
Proof.
  induction st as [|[f old] r IH]; intros st'; cbn [append_all map].
  - now intros [= <-].
  - destruct (fdata m ti f old) as [d|e] eqn:Ef; [|discriminate].
    destruct (append_all m ti r) as [r'|e] eqn:Er; [|discriminate].
    intros [= <-]. cbn [fst snd].
    rewrite (fdata_spec _ _ _ _ _ Ef). f_equal. now apply IH.
Qed.

Definition final_col (t0 f : Z) (ms : list meas) (old : list Z) : list Z :=
  fold_left (fun o m => o ++ data_spec m (acq_time8 m - t0) f o) ms old.

Lemma join_files_spec t0 ms :
  forall st st', join_files t0 ms st = Ok st' ->
    st' = map (fun fc => (fst fc, final_col t0 (fst fc) ms (snd fc))) st.
Proof.
  induction ms as [|m r IH]; intros st st'; cbn [join_files].
  - intros [= <-]. transitivity (map (fun x : Z * list Z => x) st).
    + now rewrite map_id.
    + apply map_ext. intros [f o]. reflexivity.
  - destruct (append_all m (acq_time8 m - t0) st) as [st1|e] eqn:Ea;
      [|discriminate].
    intros H. apply IH in H. rewrite H.
    rewrite (append_all_spec _ _ _ _ Ea), map_map.
    apply map_ext. intros [f o]. reflexivity.
Qed.

Lemma lookup_col_map_feats (g : Z -> list Z) feats f :
  In f feats -> lookup_col f (map (fun f => (f, g f)) feats) = Some (g f).
Proof.
  induction feats as [|h r IH]; cbn [map lookup_col In]; [tauto|].
  intros [->|H].
  - now rewrite Z.eqb_refl.
  - destruct (f =? h) eqn:E; [apply Z.eqb_eq in E; now subst|auto].
Qed.

Lemma join_cols_final inputs j :
  join_fixed inputs = Ok j ->
  exists m0 rest,
    map snd (sorted_gen leb_num inputs) = m0 :: rest
    /\ forall f, In f (j_feats j) ->
         lookup_col f (j_cols j)
         = Some (final_col (acq_time8 m0) f (m0 :: rest) []).
Proof.
  intros H. apply join_gen_inv in H.
  destruct H as [m0 [rest [Hs [_ [_ [Hj _]]]]]].
  exists m0, rest. split; [assumption|]. intros f Hf.
  apply join_files_spec in Hj. rewrite Hj, map_map. cbn [fst snd].
  now apply (lookup_col_map_feats
               (fun f => final_col (acq_time8 m0) f (m0 :: rest) [])).
Qed.

Lemma final_shift t0 f (sh : meas -> Z) ms :
  (forall m o, data_spec m (acq_time8 m - t0) f o
               = map (Z.add (sh m)) (getcol f m)) ->
  forall old, final_col t0 f ms old = old ++ spec_shifted sh f ms.
Proof.
  intros H. unfold final_col, spec_shifted.
  induction ms as [|m r IH]; intros old; cbn [fold_left map concat].
  - now rewrite app_nil_r.
  - rewrite IH, H. now rewrite app_assoc.
Qed.

Lemma final_plain t0 f ms :
  (forall m o, data_spec m (acq_time8 m - t0) f o = getcol f m) ->
  forall old, final_col t0 f ms old = old ++ spec_plain f ms.
Proof.
  intros H. unfold final_col, spec_plain.
  induction ms as [|m r IH]; intros old; cbn [fold_left map concat].
  - now rewrite app_nil_r.
  - rewrite IH, H. now rewrite app_assoc.
Qed.

Lemma map_seq_shift {B} n :
  forall (g : nat -> B) c,
    map g (seq c n) = map (fun i => g (c + i)%nat) (seq 0 n).
Proof.
  induction n as [|n IH]; intros g c; cbn [seq map]; [reflexivity|].
  f_equal; [f_equal; lia|].
  rewrite (IH g (S c)), (IH (fun i => g (c + i)%nat) 1%nat).
  apply map_ext. intros i. f_equal. lia.
Qed.

Lemma final_index t0 f ms :
  kind f = 4 ->
  forall old, final_col t0 f ms old
              = old ++ map (fun i => len old + 1 + Z.of_nat i)
                           (seq 0 (length (spec_plain f ms))).
Proof.
  intros Hk. unfold final_col, spec_plain.
  induction ms as [|m r IH]; intros old; cbn [fold_left map concat].
  - cbn. now rewrite app_nil_r.
  - rewrite IH. unfold data_spec. rewrite Hk. cbn [Z.eqb Pos.eqb].
    rewrite <- app_assoc. f_equal.
    rewrite (app_length (getcol f m)), seq_app, map_app. f_equal.
    rewrite (map_seq_shift _ _ (0 + length (getcol f m))%nat).
    apply map_ext. intros i.
    rewrite app_length, map_length, seq_length. lia.
Qed.

(* time, frame, other features and the index of the joined file *)
Theorem join_columns inputs j :
  join_fixed inputs = Ok j ->
  exists m0 rest,
    map snd (sorted_gen leb_num inputs) = m0 :: rest
    /\ forall f, In f (j_feats j) ->
         (kind f = 1 -> lookup_col f (j_cols j)
                        = Some (spec_time (acq_time8 m0) f (m0 :: rest)))
         /\ (kind f = 2 -> lookup_col f (j_cols j)
                           = Some (spec_frame (acq_time8 m0) f (m0 :: rest)))
         /\ (kind f = 4 -> lookup_col f (j_cols j)
                           = Some (spec_index f (m0 :: rest)))
         /\ (kind f = 0 \/ 4 < kind f -> lookup_col f (j_cols j)
                           = Some (spec_plain f (m0 :: rest))).
Proof.
  intros H. destruct (join_cols_final _ _ H) as [m0 [rest [Hs Hc]]].
  exists m0, rest. split; [assumption|]. intros f Hf.
  rewrite (Hc f Hf). repeat split; intros Hk.
  - rewrite (final_shift _ _ (fun m => acq_time8 m - acq_time8 m0)); [reflexivity|].
    intros m o. unfold data_spec. now rewrite Hk.
  - rewrite (final_shift _ _ (fun m => round_half_even
                 ((acq_time8 m - acq_time8 m0) * m_rate m) 64)); [reflexivity|].
    intros m o. unfold data_spec. now rewrite Hk.
  - rewrite final_index by assumption. reflexivity.
  - rewrite final_plain; [reflexivity|].
    intros m o. unfold data_spec.
    destruct (kind f =? 1) eqn:E1; [lia|].
    destruct (kind f =? 2) eqn:E2; [lia|].
    destruct (kind f =? 3) eqn:E3; [lia|].
    destruct (kind f =? 4) eqn:E4; [lia|]. reflexivity.
Qed.

(* ---- the fixed join does not fail ---------------------------------------- *)
Lemma round_half_even_nonneg num den :
  0 <= num -> 0 < den -> 0 <= round_half_even num den.
Proof.
  intros Hn Hd. unfold round_half_even.
  assert (0 <= num / den) by (apply Z.div_pos; lia).
  destruct (2 * (num mod den) <? den); [assumption|].
  destruct (den <? 2 * (num mod den)); [lia|].
  destruct (Z.even (num / den)); lia.
Qed.

Definition fdata_ok (m : meas) (ti f : Z) : Prop :=
  lookup_col f (m_cols m) <> None
  /\ lookup_col f (m_cols m) <> Some []
  /\ 0 <= round_half_even (ti * m_rate m) 64.

Lemma fdata_ok_Ok m ti f old :
  fdata_ok m ti f -> exists d, fdata m ti f old = Ok d.
Proof.
  intros [Hl [Hne Ho]]. unfold fdata.
  destruct (lookup_col f (m_cols m)) as [col|]; [|contradiction].
  destruct col as [|c0 col]; [contradiction|].
  destruct (kind f =? 1); [eauto|].
  destruct (kind f =? 2).
  { destruct (round_half_even (ti * m_rate m) 64 <? 0) eqn:E; [lia|eauto]. }
  destruct (kind f =? 3); [eauto|].
  destruct (kind f =? 4); eauto.
Qed.

Lemma append_all_ok m ti st :
  (forall f, In f (map fst st) -> fdata_ok m ti f) ->
  exists st', append_all m ti st = Ok st' /\ map fst st' = map fst st.
Proof.
  induction st as [|[f old] r IH]; intros H; cbn [append_all].
  - exists []. auto.
  - destruct (fdata_ok_Ok m ti f old) as [d Hd]; [apply H; now left|].
    rewrite Hd. destruct IH as [r' [Hr Hm]]; [intros g Hg; apply H; now right|].
    rewrite Hr. eexists; split; [reflexivity|]. cbn [map fst]. now rewrite Hm.
Qed.

Lemma join_files_ok t0 ms :
  forall st,
    (forall m f, In m ms -> In f (map fst st) -> fdata_ok m (acq_time8 m - t0) f) ->
    exists st', join_files t0 ms st = Ok st'.
Proof.
  induction ms as [|m r IH]; intros st H; cbn [join_files]; [eauto|].
  destruct (append_all_ok m (acq_time8 m - t0) st) as [st1 [H1 Hm]].
  { intros f Hf. apply H; [now left|assumption]. }
  rewrite H1. apply IH. intros m' f Hm' Hf. rewrite Hm in Hf.
  apply H; [now right|assumption].
Qed.

Lemma mem_Z_In f l : mem Z.eqb f l = true <-> In f l.
Proof. apply (mem_In Z Z.eqb Z.eqb_eq). Qed.

Lemma tag_from_snd i l : map snd (tag_from i l) = l.
Proof.
  revert i; induction l as [|m r IH]; intros i; cbn; [reflexivity|].
  now rewrite IH.
Qed.

Lemma sorted_gen_perm leb inputs :
  Permutation (map snd (sorted_gen leb inputs)) inputs.
Proof.
  unfold sorted_gen. rewrite <- (tag_from_snd 0 inputs) at 2.
  apply Permutation_map, py_sorted_perm.
Qed.

Lemma StronglySorted_map_snd (R : meas -> meas -> Prop) (l : list (Z * meas)) :
  StronglySorted (fun a b => R (snd a) (snd b)) l ->
  StronglySorted R (map snd l).
Proof.
  induction 1 as [|a l Hs IH Hf]; cbn [map]; constructor; auto.
  apply Forall_map. exact Hf.
Qed.

Lemma wf_all_datetime inputs :
  Forall wf_meas inputs -> forallb wf_datetime inputs = true.
Proof.
  intros H. apply forallb_forall. intros m Hm. rewrite Forall_forall in H.
  destruct (H m Hm) as [_ [_ [_ [_ [Hd _]]]]]. exact Hd.
Qed.

(* whatever the inputs (well-formed, at least two), in whatever order: the
   fixed join produces its output; no KeyError, no OverflowError, no
   ValueError *)
Theorem join_fixed_total inputs :
  (2 <= length inputs)%nat -> Forall wf_meas inputs ->
  exists j, join_fixed inputs = Ok j.
Proof.
  intros Hlen Hwf.
  assert (Hne : inputs <> []) by (destruct inputs; [cbn in Hlen; lia|discriminate]).
  unfold join_fixed, join_gen. cbv zeta.
  apply Nat.ltb_ge in Hlen. rewrite Hlen.
  rewrite (wf_all_datetime _ Hwf). cbn [negb].
  fold (tagged_leb leb_num). fold (sorted_gen leb_num inputs).
  pose proof (sorted_gen_perm leb_num inputs) as Hperm.
  destruct (join_order_chronological inputs) as [_ [Hsorted _]].
  apply (StronglySorted_map_snd (fun a b => leb_num a b = true)) in Hsorted.
  destruct (map snd (sorted_gen leb_num inputs)) as [|m0 rest] eqn:E.
  { apply Permutation_nil in Hperm. contradiction. }
  assert (Hwf' : Forall wf_meas (m0 :: rest)).
  { eapply Permutation_Forall; [symmetry; exact Hperm|exact Hwf]. }
  destruct (prune_all (py_prune_copy Z.eqb) (py_sorted Z.leb (m_innate m0)) rest)
    as [feats warn] eqn:Ep.
  assert (Hfeats : feats = spec_features m0 rest).
  { change feats with (fst (feats, warn)). rewrite <- Ep.
    apply prune_all_fixed. apply py_sorted_NoDup.
    inversion Hwf' as [|? ? [Hnd _] _]; assumption. }
  destruct (join_files_ok (acq_time8 m0) (m0 :: rest)
                          (map (fun f => (f, [])) (sort_dedup feats)))
    as [cols Hc].
  - intros m f Hm Hf. rewrite map_map in Hf. cbn [fst] in Hf. rewrite map_id in Hf.
    apply (proj1 (sort_dedup_In _ _)) in Hf. subst feats. unfold spec_features in Hf. apply filter_In in Hf.
    destruct Hf as [Hf0 Hall].
    assert (Hinn : In f (m_innate m0)).
    { eapply Permutation_in; [apply py_sorted_perm|exact Hf0]. }
    rewrite Forall_forall in Hwf'.
    destruct (Hwf' m Hm) as [_ [Hia [Hcols [Hrate [_ Hnonempty]]]]].
    split; [|split].
    + apply Hcols. destruct Hm as [<-|Hm]; [now apply Hia|].
      rewrite forallb_forall in Hall. apply mem_Z_In. now apply Hall.
    + apply Hnonempty.
    + apply round_half_even_nonneg; [|lia].
      assert (acq_time8 m0 <= acq_time8 m).
      { destruct Hm as [<-|Hm]; [lia|].
        inversion Hsorted as [|? ? _ Hall0]; subst.
        rewrite Forall_forall in Hall0. now apply leb_num_time, Hall0. }
      nia.
  - rewrite Hc. eauto.
Qed.

(* ---- metadata --------------------------------------------------------------- *)
Lemma data_spec_length m ti f old :
  length (data_spec m ti f old) = length (getcol f m).
Proof.
  unfold data_spec.
  destruct (kind f =? 1); [apply map_length|].
  destruct (kind f =? 2); [apply map_length|].
  destruct (kind f =? 3); [apply map_length|].
  destruct (kind f =? 4); [|reflexivity].
  now rewrite map_length, seq_length.
Qed.

Lemma final_col_length t0 f ms :
  forall old, len (final_col t0 f ms old)
              = len old + fold_right Z.add 0 (map (fun m => len (getcol f m)) ms).
Proof.
  unfold final_col. induction ms as [|m r IH]; intros old;
    cbn [fold_left map fold_right]; [lia|].
  rewrite IH, app_length, data_spec_length. lia.
Qed.

(* date, time and sample of the output are those of the earliest input, the
   run index is the one given to join (default 1), the event count is the
   number of events of all inputs together (counted on the first exported
   feature) *)
Theorem join_meta_from_earliest inputs j :
  join_fixed inputs = Ok j ->
  exists m0 rest,
    map snd (sorted_gen leb_num inputs) = m0 :: rest
    /\ j_date j = m_date m0 /\ j_time j = m_time m0
    /\ j_sample j = m_sample m0 /\ j_run j = 1
    /\ Forall (fun m => acq_time8 m0 <= acq_time8 m) (m0 :: rest)
    /\ forall f fs, j_feats j = f :: fs ->
         j_count j
         = fold_right Z.add 0 (map (fun m => len (getcol f m)) (m0 :: rest)).
Proof.
  intros H. pose proof (join_gen_inv _ _ _ _ H) as Hinv.
  destruct Hinv as [m0 [rest [Hs [_ [_ [Hj [_ [[Hd [Ht [Hsa [Hr Hc]]]] _]]]]]]]].
  exists m0, rest. repeat split; auto.
  - destruct (join_order_chronological inputs) as [_ [Hsorted _]].
    apply (StronglySorted_map_snd (fun a b => leb_num a b = true)) in Hsorted.
    rewrite Hs in Hsorted. inversion Hsorted as [|? ? _ Hall]; subst.
    constructor; [lia|]. eapply Forall_impl; [|exact Hall].
    intros m. apply leb_num_time.
  - intros f fs Hfs. rewrite Hc. apply join_files_spec in Hj.
    rewrite Hj, Hfs. cbn [map fst snd event_count].
    rewrite final_col_length. reflexivity.
Qed.

(* ---- malformed calls ------------------------------------------------------- *)
(* fewer than two inputs, or a date/time strptime/float reject: ValueError *)
Theorem join_rejects inputs :
  (length inputs < 2)%nat \/ (exists m, In m inputs /\ wf_datetime m = false) ->
  join_fixed inputs = Err EValue.
Proof.
  intros H. unfold join_fixed, join_gen. cbv zeta.
  destruct (length inputs <? 2)%nat eqn:Elen; [reflexivity|].
  destruct H as [H|[m [Hm Hd]]].
  - apply Nat.ltb_ge in Elen. lia.
  - assert (Hf : forallb wf_datetime inputs = false).
    { apply not_true_iff_false. intros Hall. rewrite forallb_forall in Hall.
      rewrite (Hall m Hm) in Hd. discriminate. }
    rewrite Hf. reflexivity.
Qed.

(* ---- "restricted to the features available in every input" ------------------ *)
(* every exported feature is available (stored or computable) in every input,
   the earliest included *)
Theorem join_features_available_everywhere inputs j :
  join_fixed inputs = Ok j -> Forall wf_meas inputs ->
  forall f m, In f (j_feats j) -> In m inputs -> In f (m_avail m).
Proof.
  intros Hj Hwf f m Hf Hm.
  destruct (join_features_common _ _ Hj) as [m0 [rest [Hs Hfe]]].
  pose proof (sorted_gen_perm leb_num inputs) as Hperm. rewrite Hs in Hperm.
  assert (Hwf' : Forall wf_meas (m0 :: rest)).
  { eapply Permutation_Forall; [symmetry; exact Hperm|exact Hwf]. }
  assert (Hm' : In m (m0 :: rest)).
  { eapply Permutation_in; [symmetry; exact Hperm|exact Hm]. }
  inversion Hwf' as [|? ? [Hnd [Hia _]] _]; subst.
  rewrite (Hfe Hnd) in Hf. unfold spec_features in Hf.
  apply filter_In in Hf. destruct Hf as [Hf0 Hall].
  destruct Hm' as [<-|Hm'].
  - apply Hia. eapply Permutation_in; [apply py_sorted_perm|exact Hf0].
  - rewrite forallb_forall in Hall. apply mem_Z_In. now apply Hall.
Qed.

(* ---- logs ------------------------------------------------------------------ *)
Lemma source_logs_In ms :
  forall s i m lg, nth_error ms i = Some m ->
    In lg (m_logs m) \/ lg = LOG_CFG ->
    In (s + Z.of_nat i, lg) (source_logs s ms).
Proof.
  induction ms as [|m0 r IH]; intros s i m lg Hn Hlg.
  - destruct i; discriminate.
  - cbn [source_logs]. destruct i as [|i]; cbn [nth_error] in Hn.
    + injection Hn as ->. replace (s + Z.of_nat 0) with s by lia.
      apply in_or_app. destruct Hlg as [Hlg| ->].
      * left. now apply in_map.
      * right. now left.
    + apply in_or_app. right. right.
      replace (s + Z.of_nat (S i)) with (s + 1 + Z.of_nat i) by lia.
      eapply IH; eauto.
Qed.

(* every log of every source and the configuration of every source are in
   the joined file, under the number of the source in output order *)
Theorem join_logs_retained inputs j :
  join_fixed inputs = Ok j ->
  forall i m lg,
    nth_error (map snd (sorted_gen leb_num inputs)) i = Some m ->
    In lg (m_logs m) \/ lg = LOG_CFG ->
    In (1 + Z.of_nat i, lg) (j_logs j).
Proof.
  intros H i m lg Hn Hlg. apply join_gen_inv in H.
  destruct H as [m0 [rest [Hs [_ [_ [_ [Hl _]]]]]]].
  rewrite Hl. apply in_or_app. right. apply in_or_app. right.
  rewrite <- Hs. eapply source_logs_In; eauto.
Qed.

Theorem join_order_is_sorted inputs j :
  join_fixed inputs = Ok j -> j_order j = map fst (sorted_gen leb_num inputs).
Proof.
  intros H. apply join_gen_inv in H. destruct H as [m0 [rest [_ [Ho _]]]].
  exact Ho.
Qed.

(* ---- a boolean check of well-formedness (for concrete witnesses) --------- *)
Fixpoint nodupb (l : list Z) : bool :=
  match l with
  | [] => true
  | x :: r => negb (mem Z.eqb x r) && nodupb r
  end.

Definition wf_measb (m : meas) : bool :=
  nodupb (m_innate m)
  && forallb (fun f => mem Z.eqb f (m_avail m)) (m_innate m)
  && forallb (fun f => match lookup_col f (m_cols m) with
                       | Some _ => true | None => false end) (m_avail m)
  && (0 <=? m_rate m)
  && wf_datetime m
  && forallb (fun fc => negb (Nat.eqb (length (snd fc)) 0)) (m_cols m).

Lemma nodupb_NoDup l : nodupb l = true -> NoDup l.
Proof.
  induction l as [|x r IH]; cbn [nodupb]; intros H; [constructor|].
  apply andb_true_iff in H. destruct H as [Hx Hr].
  constructor; [|auto]. intros Hin. apply mem_Z_In in Hin.
  rewrite Hin in Hx. discriminate.
Qed.

Lemma lookup_col_In f cols c :
  lookup_col f cols = Some c -> exists g, In (g, c) cols.
Proof.
  induction cols as [|[g c'] r IH]; cbn [lookup_col]; [discriminate|].
  destruct (f =? g).
  - intros [= ->]. exists g. now left.
  - intros H. destruct (IH H) as [g' Hg']. exists g'. now right.
Qed.

Lemma wf_measb_sound m : wf_measb m = true -> wf_meas m.
Proof.
  unfold wf_measb, wf_meas. intros H.
  apply andb_true_iff in H. destruct H as [H Hne].
  apply andb_true_iff in H. destruct H as [H Hdt].
  apply andb_true_iff in H. destruct H as [H Hr].
  apply andb_true_iff in H. destruct H as [H Hc].
  apply andb_true_iff in H. destruct H as [Hn Ha].
  split; [now apply nodupb_NoDup|].
  split; [|split; [|split; [lia|split; [exact Hdt|]]]].
  - intros f Hf. rewrite forallb_forall in Ha. now apply mem_Z_In, Ha.
  - intros f Hf. rewrite forallb_forall in Hc. specialize (Hc f Hf).
    destruct (lookup_col f (m_cols m)); [discriminate|discriminate].
  - intros f Hf. rewrite forallb_forall in Hne.
    destruct (lookup_col_In _ _ _ Hf) as [g Hg].
    specialize (Hne _ Hg). discriminate.
Qed.

Lemma wf_all_sound ms : forallb wf_measb ms = true -> Forall wf_meas ms.
Proof.
  intros H. rewrite forallb_forall in H. apply Forall_forall.
  intros m Hm. now apply wf_measb_sound, H.
Qed.

(* ---- example inputs; the mutate-while-iterating loop is not a filter ------- *)
(* "2024-03-05", "12:00:00", "12:00:00.50" *)
Definition d0305 := [50; 48; 50; 52; 45; 48; 51; 45; 48; 53].
Definition t120000 := [49; 50; 58; 48; 48; 58; 48; 48].
Definition t12000050 := [49; 50; 58; 48; 48; 58; 48; 48; 46; 53; 48].
Definition t120001 := [49; 50; 58; 48; 48; 58; 48; 49].

(* features 10, 20, 30, 40 (plain); the second input lacks 20 and 30 *)
Definition w_prune : list meas :=
  [ mk_meas d0305 t120000 1 16 [10; 20; 30; 40] [10; 20; 30; 40]
            [(10, [1]); (20, [2]); (30, [3]); (40, [4])] [];
    mk_meas d0305 t120001 1 16 [10; 40] [10; 40] [(10, [5]); (40, [6])] [] ].

(* feature 12 = frame; the second input starts half a second later *)
Definition w_sort : list meas :=
  [ mk_meas d0305 t120000 1 16 [12] [12] [(12, [1; 2])] [];
    mk_meas d0305 t12000050 1 16 [12] [12] [(12, [1; 2])] [] ].

(* run indices 9 and 10 at the same time *)
Definition w_run : list meas :=
  [ mk_meas d0305 t120000 9 16 [10] [10] [(10, [1])] [];
    mk_meas d0305 t120000 10 16 [10] [10] [(10, [2])] [] ].

Theorem py_prune_refuted :
  exists (keep : Z -> bool) (l : list Z),
    NoDup l /\ py_prune Z.eqb keep l <> filter keep l.
Proof.
  exists (fun x => negb ((x =? 2) || (x =? 3))), [1; 2; 3; 4]. split.
  - repeat constructor; cbn; lia.
  - vm_compute. discriminate.
Qed.

(* ---- non-vacuity ------------------------------------------------------- *)
Example join_fixed_ex :
  enc_join (join_fixed w_prune)
  = [0; 2; 0; 1; 2; 10; 40; 10; 2; 1; 5; 40; 2; 4; 6;
     5; 0; 0; 0; 1; 0; 2; 1; 1000000; 2; 1000000;
     10; 50; 48; 50; 52; 45; 48; 51; 45; 48; 53;
     8; 49; 50; 58; 48; 48; 58; 48; 48; 0; 1; 2].
Proof. vm_compute. reflexivity. Qed.

Example wf_ex : Forall wf_meas w_sort.
Proof. apply wf_all_sound. vm_compute. reflexivity. Qed.

Example join_sort_ex :
  exists j, join_fixed w_sort = Ok j
            /\ lookup_col 12 (j_cols j) = Some [1; 2; 2; 3].
Proof. eexists. split; vm_compute; reflexivity. Qed.
