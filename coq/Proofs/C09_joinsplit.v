(* join (split ds k) = ds on the feature data: composition of the split
   partition theorem (applied to every column) with the join theorems. *)
From Coq Require Import ZArith List Bool Lia ZifyBool ZifyNat Permutation Sorted.
From Verif Require Import Common.ListIdx Common.PyList Model.C09.
From Verif Require Import Proofs.C09_split Proofs.C09_join Proofs.C09_more.
Import ListNotations.
Open Scope Z_scope.
Ltac Zify.zify_post_hook ::= Z.div_mod_to_equations.

Lemma all_related_sorted {B} (R : B -> B -> Prop) l :
  (forall a b, In a l -> In b l -> R a b) -> StronglySorted R l.
Proof.
  induction l as [|x r IH]; intros H; constructor.
  - apply IH. intros a b Ha Hb. apply H; now right.
  - apply Forall_forall. intros y Hy. apply H; [now left|now right].
Qed.

Lemma tag_from_In i l a : In a (tag_from i l) -> In (snd a) l.
Proof.
  revert i; induction l as [|m r IH]; intros i; cbn [tag_from In]; [tauto|].
  intros [<-|H]; [now left|right; eauto].
Qed.

Definition sel (n k : Z) (s0 s1 : bool) (ii : nat) : list Z -> list Z :=
  select_from 0 (part_pred n k s0 s1 (Z.of_nat ii)).

(* the parts when none of them is empty *)
Definition split_meas_full (m : meas) (n k : Z) (s0 s1 : bool) : list meas :=
  map (fun ii => part_full m (sel n k s0 s1 ii))
      (seq 0 (Z.to_nat (num_files n k))).

Lemma split_meas_guard m n k s0 s1 :
  no_empty_part n k s0 s1 = true ->
  split_meas m n k s0 s1 = split_meas_full m n k s0 s1.
Proof.
  unfold no_empty_part, split_meas, split_meas_full. intros H.
  rewrite forallb_forall in H. apply map_ext_in. intros ii Hii.
  specialize (H ii Hii). unfold part_of, sel.
  destruct (Nat.eqb (part_len n _) 0); [discriminate|reflexivity].
Qed.

Lemma select_from_length {B C} (p : Z -> bool) :
  forall (l : list B) (l' : list C) j,
    length l = length l' ->
    length (select_from j p l) = length (select_from j p l').
Proof.
  induction l as [|x r IH]; intros [|y r'] j H; cbn [length] in H;
    try discriminate; [reflexivity|].
  cbn [select_from]. destruct (p j); cbn [length]; auto.
Qed.

Lemma split_meas_In m n k s0 s1 p :
  In p (split_meas_full m n k s0 s1) ->
  exists ii, In ii (seq 0 (Z.to_nat (num_files n k)))
             /\ p = part_full m (sel n k s0 s1 ii).
Proof.
  unfold split_meas_full. intros H. apply in_map_iff in H.
  destruct H as [ii [<- Hii]]. exists ii. split; [exact Hii|reflexivity].
Qed.

Lemma part_key m s : tkey (part_full m s) = tkey m.
Proof. reflexivity. Qed.

Lemma part_acq m s : acq_time8 (part_full m s) = acq_time8 m.
Proof. reflexivity. Qed.

(* all parts carry the same date, time and run index: the (stable) sort
   leaves them in the given order *)
Lemma sorted_split_id m n k s0 s1 :
  sorted_gen leb_num (split_meas_full m n k s0 s1)
  = tag_from 0 (split_meas_full m n k s0 s1).
Proof.
  unfold sorted_gen. apply py_sorted_id. apply all_related_sorted.
  intros a b Ha Hb. apply tag_from_In in Ha. apply tag_from_In in Hb.
  apply split_meas_In in Ha. apply split_meas_In in Hb.
  destruct Ha as [i [_ Ha]], Hb as [i' [_ Hb]].
  unfold tagged_leb, leb_num. rewrite Ha, Hb, !part_key.
  unfold tkey_leb. cbn [fst snd]. lia.
Qed.

Lemma lookup_col_part f m s :
  lookup_col f (m_cols (part_full m s)) = option_map s (lookup_col f (m_cols m)).
Proof.
  cbn [part_full m_cols].
  induction (m_cols m) as [|[g c] r IH]; cbn [map lookup_col fst snd];
    [reflexivity|].
  destruct (f =? g); [reflexivity|exact IH].
Qed.

Lemma wf_part m n k s0 s1 ii :
  wf_meas m ->
  (forall f c, lookup_col f (m_cols m) = Some c -> Z.of_nat (length c) = n) ->
  part_len n (sel n k s0 s1 ii) <> 0%nat ->
  wf_meas (part_full m (sel n k s0 s1 ii)).
Proof.
  unfold wf_meas. intros [H1 [H2 [H3 [H4 [H5 H6]]]]] Hlen Hpl.
  cbn [part_full m_innate m_avail m_rate]. repeat split; auto.
  - intros f Hf. rewrite lookup_col_part. specialize (H3 f Hf).
    destruct (lookup_col f (m_cols m)); [discriminate|contradiction].
  - intros f Hf. rewrite lookup_col_part in Hf.
    destruct (lookup_col f (m_cols m)) as [c|] eqn:El; [|discriminate].
    cbn [option_map] in Hf. injection Hf as Hf.
    apply Hpl. unfold part_len, sel in *.
    rewrite (select_from_length _ (repeat 0 (Z.to_nat n)) c 0).
    + now rewrite Hf.
    + rewrite repeat_length. specialize (Hlen f c El). lia.
Qed.

Lemma getcol_part f m s : s [] = [] -> getcol f (part_full m s) = s (getcol f m).
Proof.
  intros Hs. unfold getcol. rewrite lookup_col_part.
  destruct (lookup_col f (m_cols m)); cbn [option_map]; auto.
Qed.

(* the parts' columns are the windows of the column: the split theorems at
   work on every feature *)
Lemma cols_of_parts f m n k s0 s1 c :
  lookup_col f (m_cols m) = Some c -> Z.of_nat (length c) = n ->
  map (getcol f) (split_meas_full m n k s0 s1) = split_parts c k s0 s1.
Proof.
  intros Hl Hn. unfold split_meas_full, split_parts. rewrite map_map, Hn.
  assert (Hg : getcol f m = c) by (unfold getcol; now rewrite Hl).
  apply map_ext. intros ii. rewrite getcol_part; [now rewrite Hg|reflexivity].
Qed.

Lemma spec_plain_split f m n k s0 s1 c :
  0 < k -> lookup_col f (m_cols m) = Some c -> Z.of_nat (length c) = n ->
  spec_plain f (split_meas_full m n k s0 s1) = slice c (b2z s0) (n - b2z s1).
Proof.
  intros Hk Hl Hn. unfold spec_plain.
  rewrite (cols_of_parts f m n k s0 s1 c Hl Hn).
  rewrite split_parts_concat by assumption. now rewrite Hn.
Qed.

(* more events than the split size: at least two parts (join needs two) *)
Lemma split_meas_two m n k s0 s1 :
  0 < k -> k < n -> (2 <= length (split_meas_full m n k s0 s1))%nat.
Proof.
  intros Hk Hn. unfold split_meas_full. rewrite map_length, seq_length.
  destruct (num_files_covers n k) as [H0 [H1 _]]; [lia|lia|].
  assert (2 <= num_files n k) by nia. lia.
Qed.

Lemma map_add0 l : map (Z.add 0) l = l.
Proof. induction l as [|x r IH]; cbn [map]; [reflexivity|]. now rewrite IH. Qed.

Lemma spec_shifted_zero (sh : meas -> Z) f ms :
  (forall p, In p ms -> sh p = 0) -> spec_shifted sh f ms = spec_plain f ms.
Proof.
  unfold spec_shifted, spec_plain. intros H. f_equal.
  apply map_ext_in. intros p Hp. rewrite (H p Hp). apply map_add0.
Qed.

(* Joining the parts of a split, given in order: for every N, every split
   size 0 < k < N (at least two parts) and whether or not the boundary events
   were skipped (s0, s1), the join succeeds, exports the innate features, and
   every column is the original column without the skipped boundary events;
   index is 1..N', index_online follows the block rule on the same windows. *)
Theorem join_of_split m n k s0 s1 :
  0 < k -> k < n -> wf_meas m ->
  (forall f c, lookup_col f (m_cols m) = Some c -> Z.of_nat (length c) = n) ->
  no_empty_part n k s0 s1 = true ->
  exists j,
    join_fixed (split_meas m n k s0 s1) = Ok j
    /\ j_feats j = py_sorted Z.leb (m_innate m)
    /\ forall f c, In f (m_innate m) -> lookup_col f (m_cols m) = Some c ->
         let kept := slice c (b2z s0) (n - b2z s1) in
         (kind f <> 3 -> kind f <> 4 -> lookup_col f (j_cols j) = Some kept)
         /\ (kind f = 4 ->
             lookup_col f (j_cols j)
             = Some (map (fun i => 1 + Z.of_nat i) (seq 0 (length kept))))
         /\ (kind f = 3 ->
             lookup_col f (j_cols j)
             = Some (spec_ido_blocks (split_parts c k s0 s1))).
Proof.
  intros Hk Hn Hwf Hlen Hguard.
  rewrite (split_meas_guard m n k s0 s1 Hguard).
  set (parts := split_meas_full m n k s0 s1).
  assert (Hparts : forall p, In p parts ->
                             exists ii, In ii (seq 0 (Z.to_nat (num_files n k)))
                                        /\ p = part_full m (sel n k s0 s1 ii))
    by (intros p Hp; now apply split_meas_In).
  assert (Hwfp : Forall wf_meas parts).
  { apply Forall_forall. intros p Hp. destruct (Hparts p Hp) as [ii [Hii ->]].
    apply wf_part; auto. unfold no_empty_part in Hguard.
    rewrite forallb_forall in Hguard. specialize (Hguard ii Hii).
    unfold sel. intros E. rewrite E in Hguard. discriminate. }
  destruct (join_fixed_total parts (split_meas_two m n k s0 s1 Hk Hn) Hwfp)
    as [j Hj].
  exists j. split; [exact Hj|].
  assert (Hsorted : map snd (sorted_gen leb_num parts) = parts).
  { unfold parts. rewrite sorted_split_id. apply tag_from_snd. }
  destruct Hwf as [Hnd [Hia [Hcols [Hrate [Hdt Hne]]]]].
  (* features *)
  destruct (join_features_common _ _ Hj) as [m0 [rest [Hs Hf]]].
  rewrite Hsorted in Hs.
  assert (Hm0 : exists ii, In ii (seq 0 (Z.to_nat (num_files n k)))
                           /\ m0 = part_full m (sel n k s0 s1 ii))
    by (apply Hparts; rewrite Hs; now left).
  destruct Hm0 as [i0 [_ Hm0]].
  assert (Hfeats : j_feats j = py_sorted Z.leb (m_innate m)).
  { rewrite Hf by (rewrite Hm0; exact Hnd).
    unfold spec_features. rewrite Hm0. cbn [part_full m_innate].
    apply filter_id. intros f Hfin. apply forallb_forall. intros p Hp.
    destruct (Hparts p) as [ii [_ ->]]; [rewrite Hs; now right|].
    cbn [part_full m_avail]. apply mem_Z_In. apply Hia.
    eapply Permutation_in; [apply py_sorted_perm|exact Hfin]. }
  split; [exact Hfeats|].
  (* columns *)
  destruct (join_columns _ _ Hj) as [m0' [rest' [Hs' Hc]]].
  rewrite Hsorted, Hs in Hs'. injection Hs' as <- <-.
  intros f c Hfin El kept.
  assert (Hfj : In f (j_feats j)).
  { rewrite Hfeats. eapply Permutation_in; [symmetry; apply py_sorted_perm|exact Hfin]. }
  destruct (Hc f Hfj) as [Ht [Hfr [Hix Hpl]]].
  assert (Hplain : spec_plain f (m0 :: rest) = kept).
  { rewrite <- Hs. apply spec_plain_split; auto. eapply Hlen; eauto. }
  assert (Hacq : forall p, In p (m0 :: rest) -> acq_time8 p = acq_time8 m0).
  { intros p Hp. rewrite <- Hs in Hp. destruct (Hparts p Hp) as [ii [_ ->]].
    rewrite Hm0. now rewrite !part_acq. }
  split; [|split].
  - intros H3 H4.
    destruct (Z.eq_dec (kind f) 1) as [E1|E1];
      [|destruct (Z.eq_dec (kind f) 2) as [E2|E2]].
    + rewrite (Ht E1). f_equal. unfold spec_time.
      rewrite spec_shifted_zero; [exact Hplain|].
      intros p Hp. rewrite (Hacq p Hp). lia.
    + rewrite (Hfr E2). f_equal. unfold spec_frame.
      rewrite spec_shifted_zero; [exact Hplain|].
      intros p Hp. rewrite (Hacq p Hp).
      replace ((acq_time8 m0 - acq_time8 m0) * m_rate p) with 0 by lia.
      reflexivity.
    + assert (Hkr : 0 <= kind f < 10) by (unfold kind; lia).
      rewrite Hpl by lia. now f_equal.
  - intros E4. rewrite (Hix E4). f_equal. unfold spec_index.
    now rewrite Hplain.
  - intros E3.
    destruct (join_index_online_column _ _ f Hj Hfj E3) as [m1 [r1 [Hs1 Hido]]].
    rewrite Hsorted, Hs in Hs1. injection Hs1 as <- <-.
    rewrite Hido. f_equal. unfold spec_ido. rewrite <- Hs.
    unfold parts. f_equal. apply cols_of_parts; auto. eapply Hlen; eauto.
Qed.

(* ---- non-vacuity ------------------------------------------------------- *)
Definition m_ex : meas :=
  mk_meas d0305 t12000050 3 16 [171; 82; 104; 10] [171; 82; 104; 10]
          [(10, [7; 8; 9; 10; 11]); (82, [1; 3; 4; 6; 9]);
           (104, [1; 2; 3; 4; 5]); (171, [2; 4; 5; 9; 12])] [].

Example join_of_split_ex :
  wf_meas m_ex
  /\ enc_join (join_fixed (split_meas m_ex 5 2 false false))
     = [0; 3; 0; 1; 2; 4; 10; 82; 104; 171;
        10; 5; 7; 8; 9; 10; 11; 82; 5; 1; 3; 4; 6; 9;
        104; 5; 1; 2; 3; 4; 5; 171; 5; 2; 4; 5; 9; 12;
        5; 0; 0; 0; 1; 1; 1000000; 2; 1000000; 3; 1000000;
        10; 50; 48; 50; 52; 45; 48; 51; 45; 48; 53;
        11; 49; 50; 58; 48; 48; 58; 48; 48; 46; 53; 48; 0; 1; 5].
Proof. split; [apply wf_measb_sound|]; vm_compute; reflexivity. Qed.

(* first and last event skipped: 5 events, parts [1] [2;3] (the last part
   would be empty: the real split fails there, finding C09-split-empty-part) *)
(* Without the guard the statement is false of the code (finding
   C09-split-empty-part): the event-less first part is the earliest input, it
   has no features, so the joined file has none ... *)
Theorem join_of_split_refuted :
  exists m n k s0 s1,
    0 < k /\ k < n /\ wf_meas m
    /\ (forall f c, lookup_col f (m_cols m) = Some c -> Z.of_nat (length c) = n)
    /\ no_empty_part n k s0 s1 = false
    /\ exists j, join_fixed (split_meas m n k s0 s1) = Ok j
                 /\ j_feats j = [] /\ j_count j = 0.
Proof.
  exists m_ex, 5, 1, true, false.
  split; [lia|]. split; [lia|]. split; [apply wf_measb_sound; vm_compute; reflexivity|].
  split.
  - intros f c. unfold m_ex, mk_meas. cbn [m_cols lookup_col].
    repeat (match goal with
            | |- context [if ?b then _ else _] => destruct b
            end; [intros [= <-]; reflexivity|]).
    discriminate.
  - split; [vm_compute; reflexivity|].
    eexists. split; [vm_compute; reflexivity|]. split; reflexivity.
Qed.

(* ... and when the event-less part comes last and "index" is stored, join
   raises ValueError (writing an empty "index" block) *)
Theorem join_of_split_refuted_error :
  join_fixed (split_meas m_ex 5 2 false true) = Err EValue
  /\ no_empty_part 5 2 false true = false.
Proof. split; vm_compute; reflexivity. Qed.
