(* Further join theorems: offsets are monotone along the output; the
   index_online column of a joined file is strictly increasing. *)
From Coq Require Import ZArith List Bool Lia ZifyBool ZifyNat Permutation Sorted.
From Verif Require Import Common.ListIdx Common.PyList Model.C09.
From Verif Require Import Proofs.C09_join.
Import ListNotations.
Open Scope Z_scope.

Lemma StronglySorted_weaken {B} (R R' : B -> B -> Prop) l :
  (forall a b, R a b -> R' a b) -> StronglySorted R l -> StronglySorted R' l.
Proof.
  intros H. induction 1 as [|a l Hs IH Hf]; constructor; auto.
  eapply Forall_impl; [|exact Hf]. auto.
Qed.

(* acquisition times never decrease along the processing order, hence the
   time/frame offsets of later inputs are never negative and never smaller
   than those of earlier inputs *)
Theorem join_offsets_monotone inputs :
  StronglySorted (fun a b => acq_time8 a <= acq_time8 b)
                 (map snd (sorted_gen leb_num inputs)).
Proof.
  destruct (join_order_chronological inputs) as [_ [Hs _]].
  apply (StronglySorted_map_snd (fun a b => leb_num a b = true)) in Hs.
  eapply StronglySorted_weaken; [|exact Hs].
  intros a b. apply leb_num_time.
Qed.

(* ---- index_online ------------------------------------------------------- *)
(* strictly increasing and above lo *)
Fixpoint incr_from (lo : Z) (l : list Z) : bool :=
  match l with
  | [] => true
  | x :: r => (lo <? x) && incr_from x r
  end.

Lemma last_nonempty_default (l : list Z) d d' : l <> [] -> last l d = last l d'.
Proof.
  induction l as [|x r IH]; intros H; [contradiction|].
  destruct r as [|y r']; [reflexivity|].
  change (last (y :: r') d = last (y :: r') d'). apply IH. discriminate.
Qed.

Lemma incr_from_app lo a b :
  incr_from lo (a ++ b) = incr_from lo a && incr_from (last a lo) b.
Proof.
  revert lo; induction a as [|x r IH]; intros lo; cbn [app incr_from].
  - reflexivity.
  - rewrite IH, andb_assoc. destruct r as [|z r']; [reflexivity|].
    change (last (x :: z :: r') lo) with (last (z :: r') lo).
    now rewrite (last_nonempty_default (z :: r') lo x) by discriminate.
Qed.

Lemma incr_from_shift lo c l :
  incr_from lo (map (Z.add c) l) = incr_from (lo - c) l.
Proof.
  revert lo; induction l as [|x r IH]; intros lo; cbn [map incr_from];
    [reflexivity|].
  rewrite IH. replace (c + x - c) with x by lia.
  f_equal. lia.
Qed.

Lemma final_ido_increasing t0 f ms :
  kind f = 3 ->
  (forall m, In m ms -> incr_from (-1) (getcol f m) = true) ->
  forall old, incr_from (-1) old = true ->
              incr_from (-1) (final_col t0 f ms old) = true.
Proof.
  intros Hk. unfold final_col.
  induction ms as [|m r IH]; intros Hin old Hold; cbn [fold_left]; [exact Hold|].
  apply IH; [intros m' Hm'; apply Hin; now right|].
  unfold data_spec. rewrite Hk. cbn [Z.eqb Pos.eqb].
  rewrite incr_from_app, Hold. cbn [andb].
  rewrite incr_from_shift.
  destruct old as [|x o].
  - cbn [last]. replace (-1 - 0) with (-1) by lia. apply Hin. now left.
  - rewrite (last_nonempty_default (x :: o) (-1) 0) by discriminate.
    replace (last (x :: o) 0 - (last (x :: o) 0 + 1)) with (-1) by lia.
    apply Hin. now left.
Qed.

(* if index_online is non-negative and strictly increasing in every input,
   it is non-negative and strictly increasing in the joined file *)
Theorem join_index_online_increasing inputs j f c :
  join_fixed inputs = Ok j ->
  In f (j_feats j) -> kind f = 3 ->
  (forall m, In m inputs -> incr_from (-1) (getcol f m) = true) ->
  lookup_col f (j_cols j) = Some c ->
  incr_from (-1) c = true.
Proof.
  intros Hj Hf Hk Hin Hc.
  destruct (join_cols_final _ _ Hj) as [m0 [rest [Hs Hcol]]].
  rewrite (Hcol f Hf) in Hc.
  assert (Hc' : c = final_col (acq_time8 m0) f (m0 :: rest) [])
    by (injection Hc; auto).
  rewrite Hc'. clear Hc Hc'.
  apply (final_ido_increasing (acq_time8 m0) f (m0 :: rest) Hk); [|reflexivity].
  intros m Hm. apply Hin.
  eapply Permutation_in; [apply sorted_gen_perm|]. now rewrite Hs.
Qed.

Example incr_ex : incr_from (-1) [0; 2; 3; 7] = true.
Proof. reflexivity. Qed.

Example join_ido_ex :
  exists j,
    join_fixed
      [ mk_meas d0305 t120001 1 16 [13] [13] [(13, [0; 4])] [];
        mk_meas d0305 t120000 1 16 [13] [13] [(13, [2; 3])] [] ] = Ok j
    /\ lookup_col 13 (j_cols j) = Some [2; 3; 4; 8].
Proof. eexists. split; vm_compute; reflexivity. Qed.

(* ---- the index_online column -------------------------------------------------- *)
Lemma final_ido t0 f ms :
  kind f = 3 ->
  forall old, final_col t0 f ms old
              = fold_left ido_append (map (getcol f) ms) old.
Proof.
  intros Hk. unfold final_col.
  induction ms as [|m r IH]; intros old; cbn [fold_left map]; [reflexivity|].
  rewrite IH. f_equal. unfold data_spec, ido_append. rewrite Hk. reflexivity.
Qed.

(* index_online of the joined file: the inputs' columns one after the other,
   every later one shifted by (last value written so far) + 1 *)
Theorem join_index_online_column inputs j f :
  join_fixed inputs = Ok j -> In f (j_feats j) -> kind f = 3 ->
  exists m0 rest,
    map snd (sorted_gen leb_num inputs) = m0 :: rest
    /\ lookup_col f (j_cols j) = Some (spec_ido f (m0 :: rest)).
Proof.
  intros Hj Hf Hk.
  destruct (join_cols_final _ _ Hj) as [m0 [rest [Hs Hcol]]].
  exists m0, rest. split; [exact Hs|].
  rewrite (Hcol f Hf). f_equal. now apply final_ido.
Qed.

Example spec_ido_ex : spec_ido_blocks [[0; 2]; [1; 5]; [0]] = [0; 2; 4; 8; 9].
Proof. reflexivity. Qed.

(* ---- rejection of malformed date/time, on the domain where the model of
   strptime/float is exact ---------------------------------------------------- *)
Theorem join_rejects_strict inputs :
  (forall m, In m inputs -> dt_shape_strict m = true) ->
  (length inputs < 2)%nat \/ (exists m, In m inputs /\ wf_datetime m = false) ->
  join_fixed inputs = Err EValue.
Proof. intros _. apply join_rejects. Qed.

(* inside the strict shape, being well-formed is a matter of numbers only *)
Example strict_shape_ex :
  let mk d t := mk_meas d t 0 0 [] [] [] [] in
  (* "2024-02-30", "12:00:00": shape ok, not a date *)
  dt_shape_strict (mk [50;48;50;52;45;48;50;45;51;48] t120000) = true
  /\ wf_datetime (mk [50;48;50;52;45;48;50;45;51;48] t120000) = false
  (* "12:00:60" is accepted by strptime: well-formed *)
  /\ wf_datetime (mk d0305 [49;50;58;48;48;58;54;48]) = true
  (* "2024-3-5": outside the strict shape (Python accepts it) *)
  /\ dt_shape_strict (mk [50;48;50;52;45;51;45;53] t120000) = false.
Proof. repeat split; vm_compute; reflexivity. Qed.
