(* Proofs about the split model (Model/C09.v, Section Split). *)
From Coq Require Import ZArith List Bool Lia ZifyBool ZifyNat.
From Verif Require Import Common.ListIdx Common.PyList Model.C09.
Import ListNotations.
Open Scope Z_scope.
Ltac Zify.zify_post_hook ::= Z.div_mod_to_equations.

Definition win (a b j : Z) : bool := (a <=? j) && (j <? b).
Notation len l := (Z.of_nat (length l)).

Section SplitProofs.
  Context {A : Type}.

  Lemma select_from_ext j p q (l : list A) :
    (forall i, j <= i < j + len l -> p i = q i) ->
    select_from j p l = select_from j q l.
  Proof.
    revert j; induction l as [|x r IH]; intros j H; [reflexivity|].
    cbn [select_from].
    rewrite (H j) by (cbn [length]; lia).
    rewrite (IH (j + 1)); [reflexivity|].
    intros i Hi. apply H. cbn [length]. lia.
  Qed.

  Lemma select_from_win j a b (l : list A) :
    select_from j (win a b) l
    = firstn (Z.to_nat (b - Z.max a j)) (skipn (Z.to_nat (a - j)) l).
  Proof.
    revert j; induction l as [|x r IH]; intros j.
    - cbn [select_from]. now rewrite skipn_nil, firstn_nil.
    - cbn [select_from]. rewrite IH. unfold win.
      destruct ((a <=? j) && (j <? b)) eqn:E.
      + replace (Z.to_nat (a - j)) with 0%nat by lia.
        replace (Z.to_nat (a - (j + 1))) with 0%nat by lia.
        replace (Z.to_nat (b - Z.max a j))
          with (S (Z.to_nat (b - Z.max a (j + 1)))) by lia.
        reflexivity.
      + destruct (Z.lt_ge_cases j a) as [Hja|Hja].
        * replace (Z.to_nat (a - j)) with (S (Z.to_nat (a - (j + 1)))) by lia.
          cbn [skipn]. f_equal. lia.
        * replace (Z.to_nat (b - Z.max a j)) with 0%nat by lia.
          replace (Z.to_nat (b - Z.max a (j + 1))) with 0%nat by lia.
          reflexivity.
  Qed.

  Lemma select_win_slice a b (l : list A) :
    0 <= a -> select_from 0 (win a b) l = slice l a b.
  Proof.
    intros Ha. rewrite select_from_win. unfold slice.
    f_equal; [|f_equal]; lia.
  Qed.

  Lemma part_pred_win n k s0 s1 ii j :
    0 <= j < n ->
    part_pred n k s0 s1 ii j
    = win (Z.max (ii * k) (b2z s0)) (Z.min ((ii + 1) * k) (n - b2z s1)) j.
  Proof.
    intros Hj. unfold part_pred, win, b2z.
    destruct s0, s1; cbn [andb negb]; lia.
  Qed.

  Lemma part_slice (l : list A) k s0 s1 ii :
    0 < k -> 0 <= ii ->
    select_from 0 (part_pred (len l) k s0 s1 ii) l
    = slice l (Z.max (ii * k) (b2z s0))
              (Z.min ((ii + 1) * k) (len l - b2z s1)).
  Proof.
    intros Hk Hii.
    rewrite (select_from_ext 0 _
               (win (Z.max (ii * k) (b2z s0))
                    (Z.min ((ii + 1) * k) (len l - b2z s1)))).
    - apply select_win_slice. unfold b2z; destruct s0; lia.
    - intros i Hi. apply part_pred_win. lia.
  Qed.

  Lemma concat_parts (l : list A) k s0 s1 m :
    0 < k ->
    concat (map (fun ii => select_from 0
                             (part_pred (len l) k s0 s1 (Z.of_nat ii)) l)
                (seq 0 m))
    = slice l (b2z s0) (Z.min (Z.of_nat m * k) (len l - b2z s1)).
  Proof.
    intros Hk. induction m as [|m IH].
    - cbn [seq map concat]. symmetry. apply slice_empty.
      unfold b2z; destruct s0; lia.
    - rewrite seq_S, map_app, concat_app, IH. cbn [plus map concat].
      rewrite app_nil_r, part_slice by lia.
      assert (HP0 : 0 <= Z.of_nat m * k) by nia.
      assert (HP1 : (0 < m)%nat -> k <= Z.of_nat m * k) by nia.
      replace ((Z.of_nat m + 1) * k) with (Z.of_nat m * k + k) by lia.
      replace (Z.of_nat (S m) * k) with (Z.of_nat m * k + k) by lia.
      set (P := Z.of_nat m * k) in *.
      set (e := len l - b2z s1).
      assert (Hs : 0 <= b2z s0 <= 1) by (unfold b2z; destruct s0; lia).
      destruct m as [|m'].
      + (* first part *)
        assert (P = 0) by (unfold P; lia).
        rewrite (slice_empty l (b2z s0) (Z.min P e)) by lia.
        cbn [app]. f_equal; lia.
      + assert (k <= P) by (apply HP1; lia).
        replace (Z.max P (b2z s0)) with P by lia.
        destruct (Z.le_gt_cases P e) as [HPe|HPe].
        * replace (Z.min P e) with P by lia.
          apply slice_app; lia.
        * rewrite (slice_empty l P) by lia.
          rewrite app_nil_r. f_equal. lia.
  Qed.

  Lemma num_files_covers n k : 0 <= n -> 0 < k ->
    0 <= num_files n k /\ n <= num_files n k * k
    /\ (n = 0 -> num_files n k = 0)
    /\ (0 < n -> (num_files n k - 1) * k < n).
  Proof.
    intros Hn Hk. unfold num_files.
    destruct (n mod k =? 0) eqn:E; repeat split; nia.
  Qed.

  Lemma num_files_ceil n k : 0 <= n -> 0 < k ->
    num_files n k = (n + k - 1) / k.
  Proof.
    intros Hn Hk. unfold num_files.
    destruct (n mod k =? 0) eqn:E; nia.
  Qed.

  (* the parts, one after the other, are the events that are not skipped *)
  Theorem split_parts_concat (l : list A) k s0 s1 :
    0 < k ->
    concat (split_parts l k s0 s1) = slice l (b2z s0) (len l - b2z s1).
  Proof.
    intros Hk. unfold split_parts. rewrite concat_parts by assumption.
    destruct (num_files_covers (len l) k) as [H0 [H1 _]]; [lia|lia|].
    f_equal. unfold b2z; destruct s1; lia.
  Qed.

  Theorem split_parts_bounded (l : list A) k s0 s1 :
    0 < k -> Forall (fun p => len p <= k) (split_parts l k s0 s1).
  Proof.
    intros Hk. unfold split_parts. apply Forall_forall. intros p Hp.
    apply in_map_iff in Hp. destruct Hp as [ii [<- _]].
    rewrite part_slice by lia. unfold slice.
    rewrite firstn_length. lia.
  Qed.

  Theorem split_parts_count (l : list A) k s0 s1 :
    0 < k -> len (split_parts l k s0 s1) = (len l + k - 1) / k.
  Proof.
    intros Hk. unfold split_parts. rewrite map_length, seq_length.
    rewrite <- num_files_ceil by lia.
    destruct (num_files_covers (len l) k); lia.
  Qed.

  (* without boundary skipping no part is empty *)
  Theorem split_parts_nonempty (l : list A) k :
    0 < k -> Forall (fun p => 0 < len p) (split_parts l k false false).
  Proof.
    intros Hk. unfold split_parts. apply Forall_forall. intros p Hp.
    apply in_map_iff in Hp. destruct Hp as [ii [<- Hii]].
    apply in_seq in Hii.
    destruct (num_files_covers (len l) k) as [H0 [H1 [H2 H3]]]; [lia|lia|].
    rewrite part_slice by lia. unfold slice, b2z.
    rewrite firstn_length, skipn_length.
    destruct (Z.eq_dec (len l) 0) as [E0|E0]; [rewrite (H2 E0) in Hii; lia|].
    assert (Z.of_nat ii * k < len l) by nia.
    assert (0 <= Z.of_nat ii * k) by nia.
    lia.
  Qed.

  Lemma slice_all (l : list A) : slice l 0 (len l) = l.
  Proof.
    unfold slice. replace (Z.to_nat 0) with 0%nat by lia. cbn [skipn].
    apply firstn_all2. lia.
  Qed.

  Theorem split_partition (l : list A) k :
    0 < k ->
    concat (split_parts l k false false) = l
    /\ Forall (fun p => 0 < len p <= k) (split_parts l k false false)
    /\ len (split_parts l k false false) = (len l + k - 1) / k.
  Proof.
    intros Hk. split; [|split].
    - rewrite split_parts_concat by assumption. cbn [b2z].
      rewrite Z.sub_0_r. apply slice_all.
    - pose proof (split_parts_bounded l k false false Hk) as Hb.
      pose proof (split_parts_nonempty l k Hk) as Hn.
      rewrite Forall_forall in *. intros p Hp. split; auto.
    - now apply split_parts_count.
  Qed.

  (* ---- split() with the skip flags ---------------------------------- *)
  Variable empty_first : A -> bool.
  Variable empty_last : A -> bool.

  Lemma existsb_is_nil_false (ps : list (list A)) :
    existsb is_nil ps = false -> Forall (fun p => 0 < len p) ps.
  Proof.
    induction ps as [|p r IH]; cbn [existsb]; intros H; [constructor|].
    apply orb_false_iff in H. destruct H as [Hp Hr].
    constructor; [|auto]. destruct p; [discriminate|cbn [length]; lia].
  Qed.

  (* the parts hold exactly the events that are not skipped boundary events,
     in order; no part is too large *)
  Theorem split_ok (l : list A) k initial final :
    0 < k ->
    concat (split empty_first empty_last l k initial final)
    = slice l (b2z (initial && first_empty empty_first l))
              (len l - b2z (final && last_empty empty_last l))
    /\ Forall (fun p => len p <= k)
              (split empty_first empty_last l k initial final).
  Proof.
    intros Hk. unfold split. split.
    - now apply split_parts_concat.
    - now apply split_parts_bounded.
  Qed.

  (* guard of the partial theorem: no boundary event is skipped *)
  Theorem split_total_partial (l : list A) k initial final :
    0 < k -> l <> [] ->
    initial && first_empty empty_first l = false ->
    final && last_empty empty_last l = false ->
    has_empty_part (split empty_first empty_last l k initial final) = false
    /\ concat (split empty_first empty_last l k initial final) = l.
  Proof.
    intros Hk Hl H0 H1. unfold split. rewrite H0, H1.
    destruct (split_partition l k Hk) as [Hc [Hf _]]. split; [|exact Hc].
    unfold has_empty_part.
    destruct (existsb is_nil (split_parts l k false false)) eqn:E; [|reflexivity].
    apply existsb_exists in E. destruct E as [p [Hp Hnil]].
    rewrite Forall_forall in Hf. apply Hf in Hp.
    destruct p; [cbn [length] in Hp; lia|discriminate].
  Qed.
End SplitProofs.

(* "no part is empty" is false of the code as it is (finding
   C09-split-empty-part): a part that only holds a skipped boundary event is
   written as a file without events *)
Theorem split_total_refuted :
  exists (l : list (Z * bool)) (k : Z),
    0 < k /\ l <> [] /\ has_empty_part (split snd snd l k true true) = true.
Proof.
  exists [(0, true)], 1. split; [lia|]. split; [discriminate|].
  vm_compute. reflexivity.
Qed.

(* ---- non-vacuity ------------------------------------------------------- *)
Example split_partition_ex :
  split_parts [1; 2; 3; 4; 5; 6; 7] 3 false false = [[1; 2; 3]; [4; 5; 6]; [7]].
Proof. vm_compute. reflexivity. Qed.

Example split_skip_ex :
  split snd snd [(0, true); (1, false); (2, false); (3, false); (4, false); (5, true)]
        2 true true
  = [[(1, false)]; [(2, false); (3, false)]; [(4, false)]].
Proof. vm_compute. reflexivity. Qed.

Example split_total_partial_ex :
  split snd snd [(0, false); (1, true); (2, false)] 2 true true
  = [[(0, false); (1, true)]; [(2, false)]].
Proof. vm_compute. reflexivity. Qed.

(* ---- what "empty" means for the boundary events ---------------------------- *)
Lemma all_zero_spec l : all_zero l = true <-> forall x, In x l -> x = 0.
Proof.
  unfold all_zero. rewrite forallb_forall. split; intros H x Hx.
  - specialize (H x Hx). lia.
  - rewrite (H x Hx). reflexivity.
Qed.

(* the first event is dropped exactly when every coordinate of its contour
   is 0 (dataset with contour/mask) or every pixel of its image is 0 (dataset
   with image); one non-zero pixel / coordinate keeps it *)
Theorem sev_first_empty_spec e :
  sev_first_empty e = true <->
  (exists c, se_cnt e = Some c /\ forall x, In x c -> x = 0)
  \/ (exists p, se_img e = Some p /\ forall x, In x p -> x = 0).
Proof.
  unfold sev_first_empty. rewrite orb_true_iff. split.
  - intros [H|H].
    + left. destruct (se_cnt e) as [c|]; [|discriminate].
      exists c. split; [reflexivity|now apply all_zero_spec].
    + right. destruct (se_img e) as [p|]; [|discriminate].
      exists p. split; [reflexivity|now apply all_zero_spec].
  - intros [[c [Hc H]]|[p [Hp H]]].
    + left. rewrite Hc. now apply all_zero_spec.
    + right. rewrite Hp. now apply all_zero_spec.
Qed.

Theorem sev_last_empty_spec e :
  sev_last_empty e = true <->
  exists p, se_img e = Some p /\ forall x, In x p -> x = 0.
Proof.
  unfold sev_last_empty. split.
  - destruct (se_img e) as [p|]; [|discriminate]. intros H.
    exists p. split; [reflexivity|now apply all_zero_spec].
  - intros [p [Hp H]]. rewrite Hp. now apply all_zero_spec.
Qed.

(* a measurement whose boundary images have a non-zero pixel (and whose first
   contour has a non-zero coordinate) is split without loss, whatever the
   flags *)
Theorem split_events_lossless (l : list sev) k initial final :
  0 < k -> l <> [] ->
  sev_first_empty (hd (mk_sev 0 None None) l) = false ->
  sev_last_empty (last l (mk_sev 0 None None)) = false ->
  has_empty_part (split_events l k initial final) = false
  /\ concat (split_events l k initial final) = l.
Proof.
  intros Hk Hl H0 H1. unfold split_events. apply split_total_partial; auto.
  - destruct l as [|x r]; [contradiction|]. cbn [first_empty hd] in *.
    rewrite H0. apply andb_false_r.
  - unfold last_empty.
    assert (Hr : forall d, last l d = hd d (rev l)).
    { intros d. destruct (exists_last Hl) as [l' [a ->]].
      rewrite last_last, rev_app_distr. reflexivity. }
    rewrite Hr in H1. destruct (rev l) as [|y r'] eqn:E.
    + apply andb_false_r.
    + cbn [hd] in H1. rewrite H1. apply andb_false_r.
Qed.

Example sev_partially_zero_image_kept :
  sev_first_empty (mk_sev 0 (Some [0; 0; 7; 0]) (Some [0; 3; 0; 0])) = false
  /\ sev_first_empty (mk_sev 0 (Some [5; 5]) (Some [0; 0; 0; 0])) = true
  /\ sev_last_empty (mk_sev 0 (Some [5; 5]) (Some [0; 0; 0; 0])) = false
  /\ sev_last_empty (mk_sev 0 (Some [0; 0]) None) = true.
Proof. repeat split; reflexivity. Qed.

Example split_events_ex :
  split_events [mk_sev 0 (Some [0; 1]) None; mk_sev 1 (Some [0; 0]) None;
                mk_sev 2 (Some [0; 0]) None] 2 true true
  = [[mk_sev 0 (Some [0; 1]) None; mk_sev 1 (Some [0; 0]) None]; []].
Proof. vm_compute. reflexivity. Qed.
