(* Trace channels of a joined file (finding C09-join-trace-channels-differ). *)
From Coq Require Import ZArith List Bool Lia ZifyBool ZifyNat.
From Verif Require Import Common.ListIdx Common.PyList Model.C09.
Import ListNotations.
Open Scope Z_scope.

Lemma tl_add_notin x n (done : list Z) (g : Z -> Z) tl :
  ~ In x done ->
  tl_add x n (map (fun k => (k, g k)) done ++ tl)
  = map (fun k => (k, g k)) done ++ tl_add x n tl.
Proof.
  induction done as [|y d IH]; cbn [map app tl_add]; intros H; [reflexivity|].
  destruct (x =? y) eqn:E; [exfalso; apply H; left; lia|].
  f_equal. apply IH. intros Hin. apply H. now right.
Qed.

(* one input with channels [todo] on a state that gives [a] rows to every
   channel of done ++ todo *)
Lemma tl_fold_same n a todo :
  forall done, NoDup (done ++ todo) ->
    fold_left (fun s k => tl_add k n s) todo
              (map (fun k => (k, a + n)) done ++ map (fun k => (k, a)) todo)
    = map (fun k => (k, a + n)) (done ++ todo).
Proof.
  induction todo as [|x r IH]; intros done Hnd; cbn [fold_left map].
  - now rewrite !app_nil_r.
  - assert (Hx : ~ In x done).
    { intros Hin. apply NoDup_remove_2 in Hnd. apply Hnd.
      apply in_or_app. now left. }
    rewrite (tl_add_notin x n done (fun _ => a + n)) by assumption.
    cbn [tl_add]. rewrite Z.eqb_refl.
    replace (done ++ x :: r) with ((done ++ [x]) ++ r) in * by now rewrite <- app_assoc.
    rewrite <- (IH (done ++ [x]) Hnd). f_equal.
    rewrite map_app. cbn [map]. now rewrite <- app_assoc.
Qed.

Lemma tl_fold_first n todo :
  forall done, NoDup (done ++ todo) ->
    fold_left (fun s k => tl_add k n s) todo (map (fun k => (k, n)) done)
    = map (fun k => (k, n)) (done ++ todo).
Proof.
  induction todo as [|x r IH]; intros done Hnd; cbn [fold_left].
  - now rewrite app_nil_r.
  - assert (Hx : ~ In x done).
    { intros Hin. apply NoDup_remove_2 in Hnd. apply Hnd.
      apply in_or_app. now left. }
    rewrite <- (app_nil_r (map (fun k => (k, n)) done)).
    rewrite (tl_add_notin x n done (fun _ => n)) by assumption.
    cbn [tl_add].
    replace (done ++ x :: r) with ((done ++ [x]) ++ r) in * by now rewrite <- app_assoc.
    rewrite <- (IH (done ++ [x]) Hnd). f_equal.
    rewrite map_app. reflexivity.
Qed.

Lemma trace_lengths_same ks :
  NoDup ks ->
  forall ns a,
    fold_left tl_input (map (fun n => (n, ks)) ns) (map (fun k => (k, a)) ks)
    = map (fun k => (k, a + fold_right Z.add 0 ns)) ks.
Proof.
  intros Hnd. induction ns as [|n r IH]; intros a; cbn [map fold_left fold_right].
  - apply map_ext. intros k. f_equal. lia.
  - pose proof (tl_fold_same n a ks [] Hnd) as H. cbn [map app] in H.
    unfold tl_input at 2. cbn [fst snd]. rewrite H.
    rewrite IH. apply map_ext. intros k. f_equal. lia.
Qed.

(* when all inputs record the same channels every channel of the joined file
   holds every event *)
Theorem trace_consistent_partial ks ns :
  NoDup ks -> ns <> [] ->
  trace_lengths (map (fun n => (n, ks)) ns)
  = map (fun k => (k, fold_right Z.add 0 ns)) ks.
Proof.
  intros Hnd Hne. destruct ns as [|n r]; [contradiction|].
  pose proof (tl_fold_first n ks [] Hnd) as H. cbn [map app] in H.
  unfold trace_lengths. cbn [map fold_left]. unfold tl_input at 2. cbn [fst snd].
  rewrite H. rewrite (trace_lengths_same ks Hnd r n). reflexivity.
Qed.

(* ... but not in general: a channel that is not in every input gets the
   events of some inputs only *)
Theorem trace_consistent_refuted :
  exists inputs, tl_consistent inputs = false
                 /\ trace_lengths inputs = [(1, 5); (2, 3)].
Proof. exists [(3, [1; 2]); (2, [1])]. split; vm_compute; reflexivity. Qed.

Example trace_consistent_ex :
  tl_consistent [(3, [1; 2]); (2, [1; 2]); (4, [1; 2])] = true
  /\ trace_lengths [(3, [1; 2]); (2, [1; 2])] = [(1, 5); (2, 5)].
Proof. split; vm_compute; reflexivity. Qed.
