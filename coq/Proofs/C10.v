(* C10 — proofs about the task protocols of Model/C10.v.

   Main results
     no_partial_output : for every task, every word t of its protocol (any
        number of writes / append rounds / output files), every fault
        position k and both fault kinds, every requested output path is
        absent, still the complete file it was before the run, or exactly
        the complete closed result of the fault-free run; inputs are
        untouched; nothing outside the temporary names is ever partial.
     success_complete  : the fault-free run leaves every output complete
        (closed, holding all writes), every temporary name absent.
   The proof is an invariant over the protocol automaton, by induction over
   the trace (no bound on its length). *)
From Coq Require Import List Bool Arith NArith ZArith Lia.
From Verif Require Import Model.C10.
Import ListNotations.

(* ------------------------------------------------------------------ *)
(* paths and updates                                                   *)
(* ------------------------------------------------------------------ *)
Lemma path_eqb_refl : forall p, path_eqb p p = true.
Proof. destruct p; simpl; apply Nat.eqb_refl. Qed.

Lemma path_eqb_eq : forall p q, path_eqb p q = true -> p = q.
Proof.
  destruct p, q; simpl; intros H; try discriminate;
    apply Nat.eqb_eq in H; subst; reflexivity.
Qed.

Lemma upd_same : forall s p v, upd s p v p = v.
Proof. intros; unfold upd; rewrite path_eqb_refl; reflexivity. Qed.

Lemma upd_other : forall s p v q, path_eqb q p = false -> upd s p v q = s q.
Proof. intros s p v q H; unfold upd; rewrite H; reflexivity. Qed.

Lemma exec_app : forall a b s, exec s (a ++ b) = exec (exec s a) b.
Proof. induction a as [|o a IH]; simpl; intros; auto. Qed.

Lemma run_app : forall c a b ps,
    run c ps (a ++ b) =
    match run c ps a with Some ps' => run c ps' b | None => None end.
Proof.
  induction a as [|o a IH]; simpl; intros b ps; auto.
  destruct (step c ps o) as [ps'|]; auto.
Qed.

Lemma wcount_app : forall i a b, wcount i (a ++ b) = (wcount i a + wcount i b)%N.
Proof.
  induction a as [|o a IH]; simpl; intros b; auto.
  rewrite IH. lia.
Qed.

(* ------------------------------------------------------------------ *)
(* the effect of an operation on the two paths of "its" output file    *)
(* ------------------------------------------------------------------ *)
Definition apply_l (l : lop) (o t : fstate) : fstate * fstate :=
  match l with
  | LUnlinkOut => (Absent, t)
  | LUnlinkTmp => (o, Absent)
  | LCreateTrunc => (o, Fresh 0 true)
  | LOpenAppend =>
      (o, match t with
          | Absent => Fresh 0 true
          | Fresh n _ => Fresh n true
          | _ => Junk
          end)
  | LWrite => (o, match t with Fresh n true => Fresh (n + 1) true | _ => Junk end)
  | LClose => (o, match t with Fresh n true => Fresh n false | _ => t end)
  | LRename => match t with Absent => (o, t) | v => (v, Absent) end
  | LOpenReadTmp | LOpenReadOut => (o, t)
  | LCloseOut => (match o with Fresh n true => Fresh n false | _ => o end, t)
  end.

Definition is_write (l : lop) : bool :=
  match l with LWrite => true | _ => false end.

Lemma apply_local : forall o s i l,
    classify o = CFile i l ->
    apply o s (POut i) = fst (apply_l l (s (POut i)) (s (PTmp i))) /\
    apply o s (PTmp i) = snd (apply_l l (s (POut i)) (s (PTmp i))).
Proof.
  intros o s i l H.
  destruct o as [p|p|p|p|p|p q|p]; destruct p as [j|j|j|j];
    try destruct q as [k|k|k|k]; simpl in H; try discriminate;
    try (destruct (Nat.eqb j k) eqn:E; try discriminate;
         apply Nat.eqb_eq in E; subst k);
    inversion H; subst; clear H; simpl;
    unfold upd; simpl; rewrite ?Nat.eqb_refl; simpl; auto.
  - (* Close (POut i) *)
    destruct (s (POut i)) as [| | |m [|]] eqn:E; simpl; unfold upd; simpl;
      rewrite ?Nat.eqb_refl, ?E; auto.
  - (* Close (PTmp i) *)
    destruct (s (PTmp i)) as [| | |m [|]] eqn:E; simpl; unfold upd; simpl;
      rewrite ?Nat.eqb_refl, ?E; auto.
  - (* Rename *)
    destruct (s (PTmp i)) as [| | |m b] eqn:E; simpl; unfold upd; simpl;
      rewrite ?Nat.eqb_refl, ?E; auto.
Qed.

Lemma apply_frame : forall o s i l p,
    classify o = CFile i l ->
    path_eqb p (POut i) = false -> path_eqb p (PTmp i) = false ->
    apply o s p = s p.
Proof.
  intros o s i l p H Ho Ht.
  destruct o as [r|r|r|r|r|r q|r]; destruct r as [j|j|j|j];
    try destruct q as [k|k|k|k]; simpl in H; try discriminate;
    try (destruct (Nat.eqb j k) eqn:E; try discriminate;
         apply Nat.eqb_eq in E; subst k);
    inversion H; subst; clear H; simpl;
    try (unfold upd; rewrite ?Ho, ?Ht; reflexivity).
  - destruct (s (POut i)) as [| | |m [|]] eqn:E; auto; unfold upd; rewrite Ho; auto.
  - destruct (s (PTmp i)) as [| | |m [|]] eqn:E; auto; unfold upd; rewrite Ht; auto.
  - destruct (s (PTmp i)) as [| | |m b] eqn:E; auto; unfold upd; rewrite Ho, Ht; auto.
Qed.

Lemma wcount_op_cls : forall o i l k,
    classify o = CFile i l ->
    wcount_op k o = if Nat.eqb k i && is_write l then 1%N else 0%N.
Proof.
  intros o i l k H.
  destruct o as [r|r|r|r|r|r q|r]; destruct r as [j|j|j|j];
    try destruct q as [m|m|m|m]; simpl in H; try discriminate;
    try (destruct (Nat.eqb j m) eqn:E; try discriminate);
    inversion H; subst; clear H; simpl;
    rewrite ?andb_false_r; auto.
  rewrite Nat.eqb_sym. rewrite andb_true_r. reflexivity.
Qed.

Lemma wcount_op_notfile : forall o k,
    (forall i l, classify o <> CFile i l) -> wcount_op k o = 0%N.
Proof.
  intros o k H.
  destruct o as [r|r|r|r|r|r q|r]; simpl; auto.
  destruct r as [j|j|j|j]; auto.
  exfalso. apply (H j LWrite). reflexivity.
Qed.

(* ------------------------------------------------------------------ *)
(* the invariant                                                       *)
(* ------------------------------------------------------------------ *)
(* o0/t0: initial state of the output / temporary path; w: writes applied to
   the temporary file so far; o/t: current state *)
Definition linv (o0 t0 : fstate) (w : N) (ph : phase) (o t : fstate) : Prop :=
  match ph with
  | P0 => o = o0 /\ t = t0 /\ w = 0%N
  | P1 => o = Absent /\ t = t0 /\ w = 0%N
  | P2 => (o = Absent \/ o = o0) /\ t = Absent /\ w = 0%N
  | PW => (o = Absent \/ o = o0) /\ t = Fresh w true
  | PC => (o = Absent \/ o = o0) /\ t = Fresh w false
  | PDone => t = Absent /\ o = Fresh w false
  end.

Lemma linv_step : forall so st o0 t0 w ph l ph' o t,
    (st = false -> t0 = Absent) ->
    step_file so st ph l = Some ph' ->
    linv o0 t0 w ph o t ->
    linv o0 t0 (w + (if is_write l then 1 else 0))%N ph'
         (fst (apply_l l o t)) (snd (apply_l l o t)).
Proof.
  intros so st o0 t0 w ph l ph' o t Hst Hs Hi.
  destruct ph, l; simpl in Hs; try discriminate;
    repeat match type of Hs with
           | (if ?b then _ else _) = _ =>
               let E := fresh "E" in destruct b eqn:E; try discriminate
           end;
    inversion Hs; subst ph'; clear Hs; simpl in *;
    rewrite ?N.add_0_r;
    try (apply negb_true_iff in E; specialize (Hst E));
    try (destruct Hi as (? & ? & ?)); try (destruct Hi as (? & ?));
    subst; auto.
Qed.

Definition inv (s0 : fs) (pre : list op) (s : fs) (ps : pstate) : Prop :=
  (forall i, linv (s0 (POut i)) (s0 (PTmp i)) (wcount i pre) (ps i)
                  (s (POut i)) (s (PTmp i)))
  /\ (forall j, s (PIn j) = s0 (PIn j))
  /\ (forall j, s (POther j) = s0 (POther j)).

Lemma inv_init : forall s0, inv s0 [] s0 ps0.
Proof.
  intros s0; repeat split; auto.
Qed.

Lemma read_frame : forall c s0 pre s ps o,
    init_ok c s0 -> inv s0 pre s ps -> classify o = CRead ->
    forall p, apply o s p = s p.
Proof.
  intros c s0 pre s ps o (_ & _ & Hin & Hoth) (_ & Hi & Ho) H p.
  destruct o as [r|r|r|r|r|r q|r]; destruct r as [j|j|j|j];
    try destruct q as [k|k|k|k]; simpl in H; try discriminate;
    try (destruct (Nat.eqb j k); discriminate); simpl; auto.
  - rewrite Hi, Hin. reflexivity.
  - rewrite Ho. destruct (Hoth j) as [E|E]; rewrite E; reflexivity.
Qed.

Lemma inv_step : forall c s0 pre s ps o ps',
    init_ok c s0 -> inv s0 pre s ps -> step c ps o = Some ps' ->
    inv s0 (pre ++ [o]) (apply o s) ps'.
Proof.
  intros c s0 pre s ps o ps' Hinit Hinv Hs.
  unfold step in Hs.
  destruct (classify o) as [i l| |] eqn:Hc; try discriminate.
  - destruct (step_file (c_so c i) (c_st c i) (ps i) l)
      as [ph|] eqn:Hsf; try discriminate.
    inversion Hs; subst ps'; clear Hs.
    destruct Hinv as (Hf & Hi & Ho).
    split; [|split].
    + intros k. rewrite wcount_app. simpl. rewrite N.add_0_r.
      rewrite (wcount_op_cls o i l k Hc).
      unfold pupd. destruct (Nat.eqb k i) eqn:E.
      * apply Nat.eqb_eq in E; subst k. simpl.
        destruct (apply_local o s i l Hc) as (Ea & Eb). rewrite Ea, Eb.
        eapply linv_step; eauto.
        destruct Hinit as (_ & Hst & _). apply Hst.
      * simpl. rewrite N.add_0_r.
        rewrite (apply_frame o s i l (POut k) Hc); simpl; auto.
        rewrite (apply_frame o s i l (PTmp k) Hc); simpl; auto.
    + intros j. rewrite (apply_frame o s i l (PIn j) Hc); simpl; auto.
    + intros j. rewrite (apply_frame o s i l (POther j) Hc); simpl; auto.
  - inversion Hs; subst ps'; clear Hs.
    pose proof (read_frame c s0 pre s ps o Hinit Hinv Hc) as Hfr.
    destruct Hinv as (Hf & Hi & Ho).
    split; [|split].
    + intros k. rewrite wcount_app. simpl.
      rewrite (wcount_op_notfile o k), !N.add_0_r, !Hfr; auto.
      intros i l E; rewrite E in Hc; discriminate.
    + intros j. rewrite Hfr; auto.
    + intros j. rewrite Hfr; auto.
Qed.

Lemma run_inv : forall c s0 t pre s ps psF,
    init_ok c s0 -> inv s0 pre s ps -> run c ps t = Some psF ->
    inv s0 (pre ++ t) (exec s t) psF.
Proof.
  intros c s0; induction t as [|o t IH]; simpl; intros pre s ps psF Hinit Hinv Hr.
  - inversion Hr; subst. rewrite app_nil_r. assumption.
  - destruct (step c ps o) as [ps'|] eqn:Hs; try discriminate.
    replace (pre ++ o :: t) with ((pre ++ [o]) ++ t)
      by (rewrite <- app_assoc; reflexivity).
    eapply IH; eauto. eapply inv_step; eauto.
Qed.

(* once renamed, an output file is not touched again *)
Lemma done_step : forall c ps o ps' i,
    step c ps o = Some ps' -> ps i = PDone ->
    ps' i = PDone /\ wcount_op i o = 0%N.
Proof.
  intros c ps o ps' i Hs Hd. unfold step in Hs.
  destruct (classify o) as [k l| |] eqn:Hc; try discriminate.
  - destruct (step_file (c_so c k) (c_st c k) (ps k) l)
      as [ph|] eqn:Hsf; try discriminate.
    inversion Hs; subst ps'; clear Hs.
    rewrite (wcount_op_cls o k l i Hc). unfold pupd.
    destruct (Nat.eqb i k) eqn:E; simpl; auto.
    apply Nat.eqb_eq in E; subst k. rewrite Hd in Hsf.
    destruct l; simpl in Hsf; try discriminate; inversion Hsf; auto.
  - inversion Hs; subst ps'. split; auto.
    apply wcount_op_notfile. intros k l E; rewrite E in Hc; discriminate.
Qed.

Lemma done_stays : forall c t ps ps' i,
    run c ps t = Some ps' -> ps i = PDone ->
    ps' i = PDone /\ wcount i t = 0%N.
Proof.
  intros c; induction t as [|o t IH]; simpl; intros ps ps' i Hr Hd.
  - inversion Hr; subst; auto.
  - destruct (step c ps o) as [ps1|] eqn:Hs; try discriminate.
    destruct (done_step c ps o ps1 i Hs Hd) as (Hd1 & Hw).
    destruct (IH ps1 ps' i Hr Hd1) as (Hd2 & Hw2).
    split; auto. rewrite Hw, Hw2. reflexivity.
Qed.

(* ------------------------------------------------------------------ *)
(* nothing outside the temporary names is open for writing             *)
(* ------------------------------------------------------------------ *)
Lemma nontmp_closed : forall c s0 pre s ps p n,
    init_ok c s0 -> inv s0 pre s ps -> is_tmp p = false ->
    s p <> Fresh n true.
Proof.
  intros c s0 pre s ps p n (Hso & _ & Hin & Hoth) (Hf & Hi & Ho) Hp.
  destruct p as [j|i|i|j]; simpl in Hp; try discriminate.
  - rewrite Hi, Hin. discriminate.
  - specialize (Hf i). specialize (Hso i).
    assert (Ho0 : s0 (POut i) <> Fresh n true)
      by (rewrite Hso; destruct (c_so c i); discriminate).
    destruct (ps i); simpl in Hf.
    + destruct Hf as (E & _); rewrite E; auto.
    + destruct Hf as (E & _); rewrite E; discriminate.
    + destruct Hf as ([E|E] & _); rewrite E; auto; discriminate.
    + destruct Hf as ([E|E] & _); rewrite E; auto; discriminate.
    + destruct Hf as ([E|E] & _); rewrite E; auto; discriminate.
    + destruct Hf as (_ & E); rewrite E; discriminate.
  - rewrite Ho. destruct (Hoth j) as [E|E]; rewrite E; discriminate.
Qed.

Lemma crash_frame : forall s p,
    (forall n, s p <> Fresh n true) -> crash s p = s p.
Proof.
  intros s p H. unfold crash. destruct (s p) as [| | |n [|]]; auto.
  exfalso; apply (H n); reflexivity.
Qed.

Lemma unwind_frame : forall extra s p,
    (forall n, s p <> Fresh n true) -> unwind extra s p = s p.
Proof.
  intros extra s p H. unfold unwind. destruct (s p) as [| | |n [|]]; auto.
  exfalso; apply (H n); reflexivity.
Qed.

(* an operation the protocol accepts damages, when it fails, at most a
   temporary file *)
Lemma fail_frame : forall c s0 pre s ps o ps' pe p,
    init_ok c s0 -> inv s0 pre s ps -> step c ps o = Some ps' ->
    is_tmp p = false -> fail_op pe o s p = s p.
Proof.
  intros c s0 pre s ps o ps' pe p Hinit Hinv Hs Hp.
  unfold fail_op. destruct pe; auto.
  assert (Hcl : forall n, s p <> Fresh n true)
    by (intros n; eapply nontmp_closed; eauto).
  unfold step in Hs.
  destruct o as [r|r|r|r|r|r q|r]; auto.
  - (* CreateTrunc *)
    destruct r as [j|j|j|j]; simpl in Hs; try discriminate.
    apply upd_other. destruct p; simpl in *; auto; discriminate.
  - (* OpenAppend *)
    destruct r as [j|j|j|j]; simpl in Hs; try discriminate.
    apply upd_other. destruct p; simpl in *; auto; discriminate.
  - (* Write *)
    destruct (s r) as [| | |m [|]] eqn:Er; auto.
    destruct (path_eqb p r) eqn:E.
    + apply path_eqb_eq in E; subst r. exfalso; apply (Hcl m); auto.
    + apply upd_other; auto.
  - (* Close *)
    destruct (s r) as [| | |m [|]] eqn:Er; auto.
    destruct (path_eqb p r) eqn:E.
    + apply path_eqb_eq in E; subst r. exfalso; apply (Hcl m); auto.
    + apply upd_other; auto.
Qed.

(* ------------------------------------------------------------------ *)
(* main theorems                                                       *)
(* ------------------------------------------------------------------ *)
Lemma accepts_run : forall c n t,
    accepts c n t = true ->
    exists psF, run c ps0 t = Some psF /\
                forall i, i < n -> psF i = PDone.
Proof.
  intros c n t H. unfold accepts in H.
  apply andb_true_iff in H as (_ & H).
  destruct (run c ps0 t) as [psF|]; try discriminate.
  exists psF; split; auto. intros i Hi.
  rewrite forallb_forall in H.
  assert (Hin : In i (seq 0 n)) by (apply in_seq; lia).
  specialize (H i Hin). destruct (psF i); simpl in H; try discriminate; auto.
Qed.

(* the faulted run agrees, outside the temporary names, with the state
   reached by the first k operations *)
Lemma fault_frame : forall c n t s0 k f p,
    accepts c n t = true -> init_ok c s0 -> is_tmp p = false ->
    exec_fault s0 t k f p = exec s0 (firstn k t) p.
Proof.
  intros c n t s0 k f p Hacc Hinit Hp.
  destruct (accepts_run c n t Hacc) as (psF & Hrun & _).
  rewrite <- (firstn_skipn k t) in Hrun. rewrite run_app in Hrun.
  destruct (run c ps0 (firstn k t)) as [ps1|] eqn:Hr1; try discriminate.
  pose proof (run_inv c s0 (firstn k t) [] s0 ps0 ps1 Hinit (inv_init s0) Hr1)
    as Hinv1. simpl in Hinv1.
  assert (Hcl : forall m, exec s0 (firstn k t) p <> Fresh m true)
    by (intros m; eapply nontmp_closed; eauto).
  unfold exec_fault. destruct f as [|pe extra].
  - apply crash_frame; auto.
  - destruct (nth_error t k) as [o|] eqn:Hn; auto.
    destruct (nth_error_split t k Hn) as (l1 & l2 & Et & El).
    assert (Ef : firstn k t = l1).
    { subst t k. rewrite firstn_app, firstn_all, Nat.sub_diag. simpl.
      apply app_nil_r. }
    assert (Es : skipn k t = o :: l2).
    { subst t k. rewrite skipn_app, skipn_all, Nat.sub_diag. reflexivity. }
    rewrite Es in Hrun. simpl in Hrun.
    destruct (step c ps1 o) as [ps2|] eqn:Hs; try discriminate.
    rewrite unwind_frame.
    + eapply fail_frame; eauto.
    + intros m. erewrite fail_frame; eauto.
Qed.

Lemma out_cases : forall c n t s0 k i,
    accepts c n t = true -> init_ok c s0 ->
    let s1 := exec s0 (firstn k t) in
    let sF := exec s0 t in
    s1 (POut i) = Absent \/ s1 (POut i) = s0 (POut i)
    \/ (s1 (POut i) = sF (POut i) /\ sF (POut i) = Fresh (wcount i t) false).
Proof.
  intros c n t s0 k i Hacc Hinit s1 sF.
  destruct (accepts_run c n t Hacc) as (psF & Hrun & _).
  pose proof (run_inv c s0 t [] s0 ps0 psF Hinit (inv_init s0) Hrun) as HinvF.
  simpl in HinvF.
  pose proof Hrun as Hrun'.
  rewrite <- (firstn_skipn k t) in Hrun'. rewrite run_app in Hrun'.
  destruct (run c ps0 (firstn k t)) as [ps1|] eqn:Hr1; try discriminate.
  pose proof (run_inv c s0 (firstn k t) [] s0 ps0 ps1 Hinit (inv_init s0) Hr1)
    as Hinv1. simpl in Hinv1.
  destruct Hinv1 as (Hf1 & _). specialize (Hf1 i). fold s1 in Hf1.
  destruct (ps1 i) eqn:Eph; simpl in Hf1.
  - destruct Hf1 as (E & _); auto.
  - destruct Hf1 as (E & _); auto.
  - destruct Hf1 as ([E|E] & _); auto.
  - destruct Hf1 as ([E|E] & _); auto.
  - destruct Hf1 as ([E|E] & _); auto.
  - destruct Hf1 as (_ & E).
    destruct (done_stays c (skipn k t) ps1 psF i Hrun' Eph) as (HdF & Hw0).
    destruct HinvF as (HfF & _). specialize (HfF i). fold sF in HfF.
    rewrite HdF in HfF. simpl in HfF. destruct HfF as (_ & EF).
    assert (Ew : wcount i t = wcount i (firstn k t)).
    { rewrite <- (firstn_skipn k t) at 1. rewrite wcount_app, Hw0. lia. }
    right; right. rewrite E, EF, Ew. auto.
Qed.

Lemma view_complete_self : forall w, view w (Fresh w false) = VComplete.
Proof. intros w; simpl. rewrite N.eqb_refl. reflexivity. Qed.

Theorem no_partial_output :
  forall (c : cfg) (n : nat) (t : list op) (s0 : fs) (k : nat) (f : fault),
    accepts c n t = true -> init_ok c s0 ->
    let s := exec_fault s0 t k f in
    let sF := exec s0 t in
    (forall i, s (POut i) = Absent \/ s (POut i) = s0 (POut i)
               \/ (s (POut i) = sF (POut i)
                   /\ sF (POut i) = Fresh (wcount i t) false))
    /\ (forall i, view (wcount i t) (s (POut i)) = VAbsent
                  \/ view (wcount i t) (s (POut i)) = VComplete)
    /\ (forall j, s (PIn j) = s0 (PIn j))
    /\ (forall p, is_tmp p = false -> view (total_of t p) (s p) <> VPartial).
Proof.
  intros c n t s0 k f Hacc Hinit s sF.
  assert (Hout : forall i, s (POut i) = Absent \/ s (POut i) = s0 (POut i)
               \/ (s (POut i) = sF (POut i)
                   /\ sF (POut i) = Fresh (wcount i t) false)).
  { intros i. unfold s.
    rewrite (fault_frame c n t s0 k f (POut i) Hacc Hinit eq_refl).
    apply (out_cases c n t s0 k i Hacc Hinit). }
  assert (Hview : forall i, view (wcount i t) (s (POut i)) = VAbsent
                  \/ view (wcount i t) (s (POut i)) = VComplete).
  { intros i. destruct Hinit as (Hso & _).
    destruct (Hout i) as [E|[E|(E & EF)]].
    - rewrite E; auto.
    - rewrite E, Hso. destruct (c_so c i); auto.
    - rewrite E, EF. right. apply view_complete_self. }
  assert (Hin : forall j, s (PIn j) = s0 (PIn j)).
  { intros j. unfold s.
    rewrite (fault_frame c n t s0 k f (PIn j) Hacc Hinit eq_refl).
    destruct (accepts_run c n t Hacc) as (psF & Hrun & _).
    rewrite <- (firstn_skipn k t) in Hrun. rewrite run_app in Hrun.
    destruct (run c ps0 (firstn k t)) as [ps1|] eqn:Hr1; try discriminate.
    pose proof (run_inv c s0 (firstn k t) [] s0 ps0 ps1 Hinit (inv_init s0) Hr1)
      as (_ & Hi & _). apply Hi. }
  repeat split; auto.
  intros p Hp. destruct p as [j|i|i|j]; simpl in Hp; try discriminate; simpl.
  - rewrite Hin. destruct Hinit as (_ & _ & Hi & _). rewrite Hi. discriminate.
  - destruct (Hview i) as [E|E]; rewrite E; discriminate.
  - unfold s.
    rewrite (fault_frame c n t s0 k f (POther j) Hacc Hinit eq_refl).
    destruct (accepts_run c n t Hacc) as (psF & Hrun & _).
    rewrite <- (firstn_skipn k t) in Hrun. rewrite run_app in Hrun.
    destruct (run c ps0 (firstn k t)) as [ps1|] eqn:Hr1; try discriminate.
    pose proof (run_inv c s0 (firstn k t) [] s0 ps0 ps1 Hinit (inv_init s0) Hr1)
      as (_ & _ & Ho). simpl in Ho. rewrite Ho.
    destruct Hinit as (_ & _ & _ & Hoth).
    destruct (Hoth j) as [E|E]; rewrite E; discriminate.
Qed.

Theorem success_complete :
  forall (c : cfg) (n : nat) (t : list op) (s0 : fs),
    accepts c n t = true -> init_ok c s0 ->
    let sF := exec s0 t in
    (forall i, i < n ->
               sF (POut i) = Fresh (wcount i t) false
               /\ sF (PTmp i) = Absent
               /\ view (wcount i t) (sF (POut i)) = VComplete)
    /\ (forall j, sF (PIn j) = s0 (PIn j)).
Proof.
  intros c n t s0 Hacc Hinit sF.
  destruct (accepts_run c n t Hacc) as (psF & Hrun & Hdone).
  pose proof (run_inv c s0 t [] s0 ps0 psF Hinit (inv_init s0) Hrun)
    as (Hf & Hi & _). simpl in Hf, Hi.
  split; auto.
  intros i Hlt. specialize (Hf i). rewrite (Hdone i Hlt) in Hf. simpl in Hf.
  destruct Hf as (Et & Eo). fold sF in Et, Eo.
  rewrite Eo, Et. repeat split; auto. apply view_complete_self.
Qed.

(* ------------------------------------------------------------------ *)
(* non-vacuity                                                         *)
(* ------------------------------------------------------------------ *)
Definition ex_compress : list op :=
  [Unlink (POut 0); Unlink (PTmp 0); OpenRead (PIn 0); CreateTrunc (PTmp 0);
   Write (PTmp 0); Write (PTmp 0); Write (PTmp 0); Close (PTmp 0);
   Close (PIn 0); OpenAppend (PTmp 0); Write (PTmp 0); Close (PTmp 0);
   Rename (PTmp 0) (POut 0)].

Definition cfg_stale (tk : task) : cfg :=
  {| c_task := tk; c_so := fun _ => true; c_st := fun _ => true |}.
Definition cfg_clean (tk : task) : cfg :=
  {| c_task := tk; c_so := fun _ => false; c_st := fun _ => false |}.

Example ex_compress_accepted : accepts (cfg_stale Compress) 1 ex_compress = true.
Proof. vm_compute. reflexivity. Qed.

Example ex_init_ok : forall tk, init_ok (cfg_stale tk) (init_fs (cfg_stale tk)).
Proof. intros tk; repeat split; simpl; auto; discriminate. Qed.

Definition ex_split : list op :=
  [OpenRead (PIn 0);
   OpenAppend (PTmp 0); Write (PTmp 0); Close (PTmp 0);
   OpenAppend (PTmp 1); Write (PTmp 1); Write (PTmp 1); Close (PTmp 1);
   Close (PIn 0);
   OpenAppend (PTmp 0); Write (PTmp 0); Close (PTmp 0);
   OpenAppend (PTmp 1); Write (PTmp 1); Close (PTmp 1);
   Rename (PTmp 0) (POut 0); Rename (PTmp 1) (POut 1)].

Example ex_split_accepted : accepts (cfg_clean Split) 2 ex_split = true.
Proof. vm_compute. reflexivity. Qed.

(* a fault between the two renames: first output complete, second absent,
   second temporary file complete but still under its temporary name *)
Example ex_split_between_renames :
  let s := exec_fault (init_fs (cfg_clean Split)) ex_split 16 Kill in
  (s (POut 0), s (POut 1), s (PTmp 1))
  = (Fresh 2 false, Absent, Fresh 3 false).
Proof. vm_compute. reflexivity. Qed.

(* the temporary file really is partial after a fault in mid-run *)
Example ex_compress_temp_partial :
  view (wcount 0 ex_compress)
       (exec_fault (init_fs (cfg_stale Compress)) ex_compress 6 Kill (PTmp 0))
  = VPartial.
Proof. vm_compute. reflexivity. Qed.

(* the fault semantics is not vacuous: a task that writes at the final path
   (not a word of any protocol) leaves a partial output when killed *)
Definition ex_bad_inplace : list op :=
  [CreateTrunc (POut 0); Write (POut 0); Write (POut 0); Close (POut 0)].

Example ex_bad_rejected : accepts (cfg_clean Repack) 1 ex_bad_inplace = false.
Proof. vm_compute. reflexivity. Qed.

Example ex_bad_partial :
  view (wcount 0 ex_bad_inplace)
       (exec_fault (init_fs (cfg_clean Repack)) ex_bad_inplace 2 Kill (POut 0))
  = VPartial.
Proof. vm_compute. reflexivity. Qed.

(* renaming before the file is closed is rejected, and is unsafe *)
Definition ex_bad_early : list op :=
  [CreateTrunc (PTmp 0); Write (PTmp 0); Rename (PTmp 0) (POut 0);
   Write (POut 0); Close (POut 0)].

Example ex_early_rejected : accepts (cfg_clean Repack) 1 ex_bad_early = false.
Proof. vm_compute. reflexivity. Qed.

Example ex_early_partial :
  view 2 (exec_fault (init_fs (cfg_clean Repack)) ex_bad_early 3 Kill (POut 0))
  = VPartial.
Proof. vm_compute. reflexivity. Qed.

(* ------------------------------------------------------------------ *)
(* the protocol as a grammar: every word                                *)
(*   Unlink out? ; Unlink tmp? ; create ; Write^w0 ; Close ;            *)
(*   (OpenAppend ; Write^w ; Close)^* ; Rename                          *)
(* with arbitrary repetition counts is accepted (so the theorems above  *)
(* apply to it for all parameters)                                      *)
(* ------------------------------------------------------------------ *)
Lemma run_writes : forall c ps i w,
    ps i = PW -> exists ps', run c ps (writes i w) = Some ps' /\ ps' i = PW.
Proof.
  intros c ps i w; revert ps; induction w as [|w IH]; simpl; intros ps H.
  - eauto.
  - unfold step; simpl. rewrite H. simpl. apply IH.
    unfold pupd. rewrite Nat.eqb_refl. reflexivity.
Qed.

Lemma run_round : forall c ps i w,
    ps i = PC -> exists ps', run c ps (round i w) = Some ps' /\ ps' i = PC.
Proof.
  intros c ps i w H. unfold round.
  change (OpenAppend (PTmp i) :: writes i w ++ [Close (PTmp i)])
    with ([OpenAppend (PTmp i)] ++ writes i w ++ [Close (PTmp i)]).
  rewrite run_app. simpl. unfold step at 1; simpl. rewrite H; simpl.
  rewrite run_app.
  destruct (run_writes c (pupd ps i PW) i w) as (ps1 & Hr & H1).
  { unfold pupd. rewrite Nat.eqb_refl. reflexivity. }
  rewrite Hr. simpl. unfold step; simpl. rewrite H1; simpl.
  eexists; split; eauto. unfold pupd. rewrite Nat.eqb_refl. reflexivity.
Qed.

Lemma run_rounds : forall c rounds ps i,
    ps i = PC ->
    exists ps', run c ps (flat_map (round i) rounds) = Some ps' /\ ps' i = PC.
Proof.
  intros c; induction rounds as [|w r IH]; intros ps i H.
  - simpl; eauto.
  - cbn [flat_map]. rewrite run_app.
    destruct (run_round c ps i w H) as (ps1 & Hr & H1).
    rewrite Hr. apply IH; auto.
Qed.

Lemma forallb_app' : forall (A : Type) (f : A -> bool) a b,
    forallb f (a ++ b) = forallb f a && forallb f b.
Proof. intros; apply forallb_app. Qed.

Lemma idx_writes : forall w, forallb (op_index_lt 1) (writes 0 w) = true.
Proof. induction w; simpl; auto. Qed.

Lemma idx_rounds : forall rounds,
    forallb (op_index_lt 1) (flat_map (round 0) rounds) = true.
Proof.
  induction rounds as [|w r IH]; [reflexivity|].
  cbn [flat_map]. rewrite forallb_app, IH. unfold round.
  cbn [forallb]. rewrite forallb_app, idx_writes. reflexivity.
Qed.

Theorem file_word_accepted :
  forall tk so st trunc w0 rounds,
    accepts (cfg1 tk so st) 1 (file_word so st trunc w0 rounds) = true.
Proof.
  intros tk so st trunc w0 rounds. unfold accepts.
  assert (Hm : (multi_output (c_task (cfg1 tk so st)) || Nat.eqb 1 1) = true)
    by (rewrite orb_true_r; reflexivity).
  rewrite Hm. simpl andb.
  assert (Hidx : forallb (op_index_lt 1) (file_word so st trunc w0 rounds)
                 = true).
  { unfold file_word. rewrite forallb_app, forallb_app, idx_writes.
    simpl forallb at 2. rewrite forallb_app, idx_rounds.
    destruct so, st, trunc; reflexivity. }
  rewrite Hidx. simpl andb.
  (* run through setup and creation: the temporary file is open *)
  assert (Hpre : exists ps1,
             run (cfg1 tk so st) ps0 (setup_create so st trunc) = Some ps1
             /\ ps1 0 = PW).
  { destruct so, st, trunc; simpl; unfold step; simpl;
      eexists; split; reflexivity. }
  destruct Hpre as (ps1 & Hr1 & H1).
  unfold file_word.
  rewrite run_app, Hr1, run_app.
  destruct (run_writes (cfg1 tk so st) ps1 0 w0 H1) as (ps2 & Hr2 & H2).
  rewrite Hr2.
  simpl run. unfold step at 1; simpl. rewrite H2; simpl.
  rewrite run_app.
  destruct (run_rounds (cfg1 tk so st) rounds (pupd ps2 0 PC) 0)
    as (ps3 & Hr3 & H3).
  { reflexivity. }
  rewrite Hr3. simpl. unfold step; simpl. rewrite H3; simpl. reflexivity.
Qed.

(* hence: whatever the number of writes and append rounds, a fault at any
   point of such a run leaves the output path absent, old-complete or
   new-complete *)
Corollary file_word_safe :
  forall tk so st trunc w0 rounds k f,
    let c := cfg1 tk so st in
    let t := file_word so st trunc w0 rounds in
    let s := exec_fault (init_fs c) t k f in
    view (wcount 0 t) (s (POut 0)) = VAbsent
    \/ view (wcount 0 t) (s (POut 0)) = VComplete.
Proof.
  intros tk so st trunc w0 rounds k f c t s.
  assert (Hi : init_ok c (init_fs c)).
  { unfold c; repeat split; simpl; auto.
    intros _ E; rewrite E; reflexivity. }
  destruct (no_partial_output c 1 t (init_fs c) k f
              (file_word_accepted tk so st trunc w0 rounds) Hi)
    as (_ & Hv & _).
  apply Hv.
Qed.

(* non-vacuity of the grammar theorems: the compress-like example above is
   such a word (interleaved with reads of the input) *)
Example ex_file_word :
  file_word true true true 3 [1]
  = [Unlink (POut 0); Unlink (PTmp 0); CreateTrunc (PTmp 0);
     Write (PTmp 0); Write (PTmp 0); Write (PTmp 0); Close (PTmp 0);
     OpenAppend (PTmp 0); Write (PTmp 0); Close (PTmp 0);
     Rename (PTmp 0) (POut 0)].
Proof. reflexivity. Qed.

(* a word with two append rounds and no stale files, created by open-append
   (join / split / tdms2rtdc style); killed inside the second round *)
Example ex_file_word_fault :
  let t := file_word false false false 2 [1; 2] in
  let s := exec_fault (init_fs (cfg1 Join false false)) t 9 Kill in
  (s (POut 0), view (wcount 0 t) (s (PTmp 0))) = (Absent, VPartial).
Proof. vm_compute. reflexivity. Qed.

(* ------------------------------------------------------------------ *)
(* restart: the state left by a faulted run is a legal state to start   *)
(* the next run from                                                    *)
(* ------------------------------------------------------------------ *)
Lemma view_cases : forall w st, view w st = VAbsent -> st = Absent.
Proof.
  intros w [| | |m b]; simpl; intros H; try discriminate; auto.
  destruct (negb b && N.eqb m w); discriminate.
Qed.

Theorem rerun_ready :
  forall (c : cfg) (n : nat) (t : list op) (s0 : fs) (k : nat) (f : fault)
         (tk' : task),
    accepts c n t = true -> init_ok c s0 ->
    let s' := age t (exec_fault s0 t k f) in
    init_ok (flags_of tk' s') s'.
Proof.
  intros c n t s0 k f tk' Hacc Hinit s'.
  destruct (no_partial_output c n t s0 k f Hacc Hinit)
    as (_ & Hview & Hin & Hnp).
  unfold init_ok, flags_of; simpl.
  split; [|split; [|split]].
  - intros i. unfold s', age.
    destruct (Hview i) as [E|E]; simpl; rewrite E; reflexivity.
  - intros i. unfold s', age.
    destruct (exec_fault s0 t k f (PTmp i)); simpl; auto; discriminate.
  - intros j. unfold s', age. rewrite Hin.
    destruct Hinit as (_ & _ & Hi & _). rewrite Hi. reflexivity.
  - intros j. unfold s', age.
    specialize (Hnp (POther j) eq_refl). simpl in Hnp.
    destruct (view 0 (exec_fault s0 t k f (POther j))); auto.
    exfalso; apply Hnp; reflexivity.
Qed.

Example ex_rerun :
  let t := ex_compress in
  let s' := age t (exec_fault (init_fs (cfg_stale Compress)) t 6 Kill) in
  (s' (POut 0), s' (PTmp 0), s' (PIn 0)) = (Absent, Junk, Old).
Proof. vm_compute. reflexivity. Qed.

(* ------------------------------------------------------------------ *)
(* each task's strict protocol is a sub-language of the union automaton *)
(* ------------------------------------------------------------------ *)
Lemma sstep_file_sim : forall tk so st sp l sp',
    sstep_file tk so st sp l = Some sp' ->
    step_file so st (abs_phase sp) l = Some (abs_phase sp').
Proof.
  intros tk so st sp l sp' H.
  destruct sp as [| | |r|r|]; destruct l; simpl in H; try discriminate;
    try (destruct r; try discriminate);
    repeat match type of H with
           | (if ?b then _ else _) = _ =>
               let E := fresh "E" in destruct b eqn:E; try discriminate
           end;
    inversion H; subst; clear H; simpl; auto;
    repeat match goal with
           | E : _ && _ = true |- _ =>
               apply andb_true_iff in E; destruct E
           end;
    repeat match goal with
           | E : negb _ = true |- _ => apply negb_true_iff in E
           end;
    subst; simpl; auto;
    try (destruct so; simpl in *; try discriminate; auto);
    try (destruct st; simpl in *; try discriminate; auto).
Qed.

Lemma sstep_sim : forall c ss ps o ss',
    (forall i, ps i = abs_phase (ss i)) ->
    sstep c ss o = Some ss' ->
    exists ps', step c ps o = Some ps' /\ forall i, ps' i = abs_phase (ss' i).
Proof.
  intros c ss ps o ss' Hrel H. unfold sstep in H. unfold step.
  destruct (classify o) as [k l| |]; try discriminate.
  - destruct (sstep_file (c_task c) (c_so c k) (c_st c k) (ss k) l)
      as [sp|] eqn:E; try discriminate.
    inversion H; subst ss'; clear H.
    rewrite (Hrel k). rewrite (sstep_file_sim _ _ _ _ _ _ E).
    eexists; split; eauto. intros i. unfold pupd, supd.
    destruct (Nat.eqb i k); auto.
  - inversion H; subst. eexists; split; eauto.
Qed.

Lemma srun_sim : forall c t ss ps ss',
    (forall i, ps i = abs_phase (ss i)) ->
    srun c ss t = Some ss' ->
    exists ps', run c ps t = Some ps' /\ forall i, ps' i = abs_phase (ss' i).
Proof.
  intros c; induction t as [|o t IH]; simpl; intros ss ps ss' Hrel H.
  - inversion H; subst. eauto.
  - destruct (sstep c ss o) as [ss1|] eqn:E; try discriminate.
    destruct (sstep_sim c ss ps o ss1 Hrel E) as (ps1 & Hs & Hrel1).
    rewrite Hs. eapply IH; eauto.
Qed.

Theorem accepts_task_sub : forall c n t,
    accepts_task c n t = true -> accepts c n t = true.
Proof.
  intros c n t H. unfold accepts_task in H. unfold accepts.
  apply andb_true_iff in H as (H12 & H3). rewrite H12. simpl.
  destruct (srun c ss0 t) as [ss|] eqn:E; try discriminate.
  destruct (srun_sim c t ss0 ps0 ss (fun _ => eq_refl) E) as (ps & Hr & Hrel).
  rewrite Hr. rewrite forallb_forall in *. intros i Hi.
  specialize (H3 i Hi). rewrite Hrel. destruct (ss i); simpl in *; auto;
    discriminate.
Qed.

(* the six strict languages are inhabited (and differ) *)
Example ex_strict_compress :
  accepts_task (cfg_stale Compress) 1 ex_compress = true.
Proof. vm_compute. reflexivity. Qed.

Example ex_strict_repack_rejects_compress_shape :
  accepts_task (cfg_stale Repack) 1 ex_compress = false
  /\ accepts (cfg_stale Repack) 1 ex_compress = true.
Proof. vm_compute. auto. Qed.

Example ex_strict_split : accepts_task (cfg_clean Split) 2 ex_split = true.
Proof. vm_compute. reflexivity. Qed.

(* ------------------------------------------------------------------ *)
(* which outputs exist after a fault: exactly those already renamed     *)
(* ------------------------------------------------------------------ *)
Lemma rename_makes_done : forall c t ps ps' i,
    run c ps t = Some ps' -> In (ren i) t -> ps' i = PDone.
Proof.
  intros c; induction t as [|o t IH]; simpl; intros ps ps' i Hr Hin.
  - contradiction.
  - destruct (step c ps o) as [ps1|] eqn:Hs; try discriminate.
    destruct Hin as [E|Hin].
    + subst o. assert (Hd : ps1 i = PDone).
      { unfold step, ren in Hs. simpl in Hs. rewrite Nat.eqb_refl in Hs.
        destruct (step_file (c_so c i) (c_st c i) (ps i) LRename)
          as [ph|] eqn:Hf; try discriminate.
        inversion Hs; subst ps1. unfold pupd. rewrite Nat.eqb_refl.
        destruct (ps i); simpl in Hf; try discriminate; inversion Hf; auto. }
      apply (done_stays c t ps1 ps' i Hr Hd).
    + eapply IH; eauto.
Qed.

Lemma no_rename_after_done : forall c t ps ps' i,
    run c ps t = Some ps' -> ps i = PDone -> ~ In (ren i) t.
Proof.
  intros c; induction t as [|o t IH]; simpl; intros ps ps' i Hr Hd Hin; auto.
  destruct (step c ps o) as [ps1|] eqn:Hs; try discriminate.
  destruct Hin as [E|Hin].
  - subst o. unfold step, ren in Hs. simpl in Hs. rewrite Nat.eqb_refl in Hs.
    rewrite Hd in Hs. simpl in Hs. discriminate.
  - destruct (done_step c ps o ps1 i Hs Hd) as (Hd1 & _).
    eapply IH; eauto.
Qed.

Theorem outputs_by_rename :
  forall (c : cfg) (n : nat) (t : list op) (s0 : fs) (k : nat) (f : fault)
         (i : nat),
    accepts c n t = true -> init_ok c s0 ->
    let s := exec_fault s0 t k f in
    (In (ren i) (firstn k t) -> s (POut i) = Fresh (wcount i t) false)
    /\ (In (ren i) (skipn k t) ->
        s (POut i) = Absent \/ s (POut i) = s0 (POut i)).
Proof.
  intros c n t s0 k f i Hacc Hinit s.
  unfold s. rewrite (fault_frame c n t s0 k f (POut i) Hacc Hinit eq_refl).
  destruct (accepts_run c n t Hacc) as (psF & Hrun & _).
  pose proof (run_inv c s0 t [] s0 ps0 psF Hinit (inv_init s0) Hrun) as HinvF.
  simpl in HinvF.
  pose proof Hrun as Hrun'.
  rewrite <- (firstn_skipn k t) in Hrun'. rewrite run_app in Hrun'.
  destruct (run c ps0 (firstn k t)) as [ps1|] eqn:Hr1; try discriminate.
  pose proof (run_inv c s0 (firstn k t) [] s0 ps0 ps1 Hinit (inv_init s0) Hr1)
    as Hinv1. simpl in Hinv1.
  destruct Hinv1 as (Hf1 & _). specialize (Hf1 i).
  split.
  - intros Hin.
    pose proof (rename_makes_done c (firstn k t) ps0 ps1 i Hr1 Hin) as Hd.
    rewrite Hd in Hf1. simpl in Hf1. destruct Hf1 as (_ & E).
    destruct (done_stays c (skipn k t) ps1 psF i Hrun' Hd) as (_ & Hw0).
    rewrite E. f_equal.
    rewrite <- (firstn_skipn k t) at 2. rewrite wcount_app, Hw0. lia.
  - intros Hin.
    destruct (ps1 i) eqn:Eph; simpl in Hf1.
    + destruct Hf1 as (E & _); auto.
    + destruct Hf1 as (E & _); auto.
    + destruct Hf1 as ([E|E] & _); auto.
    + destruct Hf1 as ([E|E] & _); auto.
    + destruct Hf1 as ([E|E] & _); auto.
    + exfalso.
      apply (no_rename_after_done c (skipn k t) ps1 psF i Hrun' Eph Hin).
Qed.

(* split with n parts: the renames come last, part by part.  A fault at the
   j-th rename (or a kill just before it) leaves parts < j complete at their
   output paths and parts >= j not there (absent, or still the old complete
   file): their data exist under the temporary names only. *)
Corollary split_parts :
  forall (c : cfg) (n j : nat) (body : list op) (s0 : fs) (f : fault),
    j <= n ->
    let t := body ++ map ren (seq 0 j) ++ map ren (seq j (n - j)) in
    accepts c n t = true -> init_ok c s0 ->
    let s := exec_fault s0 t (length (body ++ map ren (seq 0 j))) f in
    (forall i, i < j -> s (POut i) = Fresh (wcount i t) false)
    /\ (forall i, j <= i < n ->
                  s (POut i) = Absent \/ s (POut i) = s0 (POut i)).
Proof.
  intros c n j body s0 f Hj t Hacc Hinit s.
  set (pre := body ++ map ren (seq 0 j)).
  assert (Et : t = pre ++ map ren (seq j (n - j)))
    by (unfold t, pre; rewrite app_assoc; reflexivity).
  assert (Ef : firstn (length pre) t = pre).
  { rewrite Et, firstn_app, firstn_all, Nat.sub_diag. simpl.
    apply app_nil_r. }
  assert (Es : skipn (length pre) t = map ren (seq j (n - j))).
  { rewrite Et, skipn_app, skipn_all, Nat.sub_diag. reflexivity. }
  split.
  - intros i Hi.
    destruct (outputs_by_rename c n t s0 (length pre) f i Hacc Hinit) as (H1 & _).
    apply H1. rewrite Ef. unfold pre. apply in_or_app. right.
    apply in_map. apply in_seq. lia.
  - intros i Hi.
    destruct (outputs_by_rename c n t s0 (length pre) f i Hacc Hinit) as (_ & H2).
    apply H2. rewrite Es. apply in_map. apply in_seq. lia.
Qed.

(* non-vacuity: ex_split has this form (two parts) *)
Example ex_split_form :
  ex_split = firstn 15 ex_split ++ map ren (seq 0 1) ++ map ren (seq 1 (2 - 1)).
Proof. reflexivity. Qed.


(* the executable shape test yields the hypothesis of split_parts *)
Lemma path_eqb_true : forall p q, path_eqb p q = true -> p = q.
Proof. exact path_eqb_eq. Qed.

Lemma op_eqb_eq : forall a b, op_eqb a b = true -> a = b.
Proof.
  destruct a, b; simpl; intros H; try discriminate;
    try (apply path_eqb_eq in H; subst; reflexivity).
  apply andb_true_iff in H as (H1 & H2).
  apply path_eqb_eq in H1. apply path_eqb_eq in H2. subst; reflexivity.
Qed.

Lemma ops_eqb_eq : forall a b, ops_eqb a b = true -> a = b.
Proof.
  induction a as [|x a IH]; destruct b as [|y b]; simpl; intros H;
    try discriminate; auto.
  apply andb_true_iff in H as (H1 & H2). apply op_eqb_eq in H1.
  f_equal; auto.
Qed.

Theorem split_shape_form : forall n t j,
    split_shape n t = true -> j <= n ->
    t = firstn (length t - n) t
        ++ map ren (seq 0 j) ++ map ren (seq j (n - j)).
Proof.
  intros n t j H Hj. unfold split_shape in H. apply ops_eqb_eq in H.
  rewrite <- map_app.
  replace (seq 0 j ++ seq j (n - j)) with (seq 0 n).
  - rewrite <- H. symmetry. apply firstn_skipn.
  - replace n with (j + (n - j)) at 1 by lia. rewrite seq_app. reflexivity.
Qed.

Example ex_split_shape : split_shape 2 ex_split = true.
Proof. vm_compute. reflexivity. Qed.
