(* C10 — the temporary name of an output is the output name followed by "~";
   it can never coincide with another output name or with an input the tasks
   accept (so "partial data only under the temporary name" is meaningful and
   the constructors PIn / POut / PTmp of Model/C10.v denote distinct files). *)
From Coq Require Import List Bool ZArith Lia.
From Verif Require Import Model.C10_paths.
Import ListNotations.
Local Open Scope Z_scope.

Lemma zlist_eqb_eq : forall a b, zlist_eqb a b = true -> a = b.
Proof.
  induction a as [|x a IH]; destruct b as [|y b]; simpl; intros H;
    try discriminate; auto.
  apply andb_true_iff in H as (H1 & H2). apply Z.eqb_eq in H1. subst.
  f_equal; auto.
Qed.

Lemma zlist_eqb_refl : forall a, zlist_eqb a a = true.
Proof. induction a; simpl; auto. rewrite Z.eqb_refl; auto. Qed.

(* no dot in "rtdc" / "tdms": scanning them keeps the last hit *)
Lemma rfind_rtdc_tail : forall pos acc,
    rfind_dot [114; 116; 100; 99] pos acc = acc.
Proof. intros; reflexivity. Qed.

Lemma rfind_app_dot_rtdc : forall a pos acc,
    rfind_dot (a ++ s_rtdc) pos acc = pos + len a.
Proof.
  induction a as [|c a IH]; intros pos acc.
  - unfold len; simpl. lia.
  - simpl. rewrite IH. unfold len; simpl length. lia.
Qed.

Lemma suffix_app_rtdc : forall name,
    name <> [] -> suffix (name ++ s_rtdc) = s_rtdc.
Proof.
  intros name Hne. unfold suffix. rewrite rfind_app_dot_rtdc.
  assert (Hl : 0 < len name).
  { unfold len. destruct name; [congruence|simpl length; lia]. }
  assert (Hlen : len (name ++ s_rtdc) = len name + 5).
  { unfold len. rewrite app_length. simpl length. lia. }
  rewrite Hlen.
  replace (0 <? 0 + len name) with true by (symmetry; apply Z.ltb_lt; lia).
  replace (0 + len name <? len name + 5 - 1) with true
    by (symmetry; apply Z.ltb_lt; lia).
  simpl andb. cbv iota.
  replace (Z.to_nat (0 + len name)) with (length name)
    by (unfold len; lia).
  rewrite skipn_app, skipn_all, Nat.sub_diag. reflexivity.
Qed.

(* a name whose suffix is s (non-empty) is  stem ++ s *)
Lemma suffix_split : forall name s,
    suffix name = s -> s <> [] ->
    name = firstn (length name - length s) name ++ s.
Proof.
  intros name s H Hs. unfold suffix in H.
  destruct ((0 <? rfind_dot name 0 (-1))
            && (rfind_dot name 0 (-1) <? len name - 1)) eqn:E.
  - apply andb_true_iff in E as (E1 & E2).
    apply Z.ltb_lt in E1. apply Z.ltb_lt in E2.
    set (i := Z.to_nat (rfind_dot name 0 (-1))) in *.
    assert (Hi : (i <= length name)%nat) by (unfold len in E2; lia).
    assert (Hls : length s = (length name - i)%nat)
      by (rewrite <- H; apply skipn_length).
    replace (length name - length s)%nat with i by lia.
    rewrite <- H. symmetry. apply firstn_skipn.
  - congruence.
Qed.

Lemma with_suffix_of_suffixed : forall stem s suf,
    suffix (stem ++ s) = s -> s <> [] ->
    with_suffix (stem ++ s) suf = stem ++ suf.
Proof.
  intros stem s suf H Hs. unfold with_suffix. rewrite H.
  destruct s as [|c s']; [congruence|].
  rewrite app_length.
  replace (length stem + length (c :: s') - length (c :: s'))%nat
    with (length stem) by lia.
  rewrite firstn_app, firstn_all, Nat.sub_diag. simpl. rewrite app_nil_r.
  reflexivity.
Qed.

(* split: the temporary name of  <stem>_NNNN.rtdc *)
Lemma temp_of_rtdc_name : forall stem,
    stem <> [] -> temp_of (stem ++ s_rtdc) = (stem ++ s_rtdc) ++ [tilde].
Proof.
  intros stem H. unfold temp_of.
  rewrite with_suffix_of_suffixed.
  - unfold s_rtdc_tilde. rewrite app_assoc. reflexivity.
  - apply suffix_app_rtdc; auto.
  - discriminate.
Qed.

Lemma normalize_out_shape : forall name,
    name <> [] ->
    exists stem, stem <> [] /\ normalize_out name = stem ++ s_rtdc.
Proof.
  intros name Hne. unfold normalize_out.
  destruct (zlist_eqb (suffix name) s_rtdc) eqn:E.
  - apply zlist_eqb_eq in E.
    pose proof (suffix_split name s_rtdc E ltac:(discriminate)) as Hs.
    exists (firstn (length name - length s_rtdc) name). split; auto.
    (* the stem is non-empty: the dot is not at position 0 *)
    intros Hst. rewrite Hst in Hs. simpl in Hs.
    unfold suffix in E. rewrite Hs in E. simpl in E. discriminate.
  - exists name; auto.
Qed.

(* setup_task_paths: the temporary name is the output name plus "~" *)
Theorem temp_is_out_tilde : forall name,
    name <> [] ->
    temp_of (normalize_out name) = normalize_out name ++ [tilde].
Proof.
  intros name Hne.
  destruct (normalize_out_shape name Hne) as (stem & Hst & E).
  rewrite E. apply temp_of_rtdc_name; auto.
Qed.

Lemma last_app_single : forall (l : list Z) x d, last (l ++ [x]) d = x.
Proof.
  induction l as [|a l IH]; intros; simpl; auto.
  destruct (l ++ [x]) eqn:E.
  - destruct l; discriminate.
  - rewrite <- E. apply IH.
Qed.

Lemma last_app_ne : forall (a b : list Z) d, b <> [] -> last (a ++ b) d = last b d.
Proof.
  induction a as [|x a IH]; intros b d Hb; simpl; auto.
  destruct (a ++ b) eqn:E.
  - destruct a; simpl in E; [congruence|discriminate].
  - rewrite <- E. apply IH; auto.
Qed.

Theorem temp_names_distinct : forall n1 n2,
    n1 <> [] -> n2 <> [] ->
    (* distinct outputs have distinct temporary names *)
    (temp_of (normalize_out n1) = temp_of (normalize_out n2) ->
     normalize_out n1 = normalize_out n2)
    (* a temporary name is never an output name *)
    /\ temp_of (normalize_out n1) <> normalize_out n2.
Proof.
  intros n1 n2 H1 H2.
  rewrite (temp_is_out_tilde n1 H1), (temp_is_out_tilde n2 H2).
  split.
  - intros E. apply app_inj_tail in E. tauto.
  - intros E.
    destruct (normalize_out_shape n2 H2) as (stem & _ & E2).
    assert (L1 : last (normalize_out n1 ++ [tilde]) 0 = tilde)
      by apply last_app_single.
    rewrite E, E2, last_app_ne in L1 by discriminate.
    simpl in L1. discriminate.
Qed.

(* a temporary name is never an input file the tasks accept (.rtdc/.tdms) *)
Theorem temp_not_an_input : forall name inp,
    name <> [] -> allowed_input inp = true ->
    temp_of (normalize_out name) <> inp.
Proof.
  intros name inp Hne Hal E.
  rewrite (temp_is_out_tilde name Hne) in E.
  assert (L1 : last inp 0 = tilde)
    by (rewrite <- E; apply last_app_single).
  unfold allowed_input in Hal. apply orb_true_iff in Hal as [H|H];
    apply zlist_eqb_eq in H;
    pose proof (suffix_split inp _ H ltac:(discriminate)) as Hs;
    rewrite Hs, last_app_ne in L1 by discriminate;
    simpl in L1; discriminate.
Qed.

(* setup_task_paths with its refusal: it refuses exactly when the corrected
   output path or its temporary path is an input; otherwise neither of the
   two paths it unlinks is an input file - for ANY input names (also with
   check_suffix=False) and resolved directories *)
Lemma fpath_eqb_eq : forall a b, fpath_eqb a b = true <-> a = b.
Proof.
  intros [d1 n1] [d2 n2]. unfold fpath_eqb; simpl. split.
  - intros H. apply andb_true_iff in H as (H1 & H2).
    apply Z.eqb_eq in H1. apply zlist_eqb_eq in H2. subst; auto.
  - intros H. inversion H; subst. rewrite Z.eqb_refl, zlist_eqb_refl. auto.
Qed.

Lemma existsb_fpath : forall o l,
    existsb (fpath_eqb o) l = true <-> In o l.
Proof.
  intros o l. rewrite existsb_exists. split.
  - intros (x & Hin & E). apply fpath_eqb_eq in E. subst; auto.
  - intros H. exists o. split; auto. apply fpath_eqb_eq. reflexivity.
Qed.

Theorem setup_refuses_iff : forall inputs d name,
    setup_paths_at inputs d name = None
    <-> In (d, normalize_out name) inputs
        \/ In (d, temp_of (normalize_out name)) inputs.
Proof.
  intros inputs d name. unfold setup_paths_at.
  destruct (existsb (fpath_eqb (d, normalize_out name)) inputs) eqn:E1;
    destruct (existsb (fpath_eqb (d, temp_of (normalize_out name))) inputs)
      eqn:E2; simpl.
  - apply existsb_fpath in E1. tauto.
  - apply existsb_fpath in E1. tauto.
  - apply existsb_fpath in E2. tauto.
  - split; [discriminate|]. intros [H|H]; apply existsb_fpath in H; congruence.
Qed.

Theorem setup_unlinks_no_input : forall inputs d name o t,
    name <> [] ->
    setup_paths_at inputs d name = Some (o, t) ->
    o = (d, normalize_out name) /\ t = (d, snd o ++ [tilde])
    /\ ~ In o inputs /\ ~ In t inputs.
Proof.
  intros inputs d name o t Hne H. unfold setup_paths_at in H.
  destruct (existsb (fpath_eqb (d, normalize_out name)) inputs) eqn:E1;
    destruct (existsb (fpath_eqb (d, temp_of (normalize_out name))) inputs)
      eqn:E2; simpl in H; try discriminate.
  inversion H; subst o t; clear H. simpl.
  split; auto. split; [rewrite temp_is_out_tilde; auto|].
  split; intros Hin; apply existsb_fpath in Hin; congruence.
Qed.

(* lists of outputs *)
Theorem setup_list_refuses_iff : forall inputs reqs,
    setup_paths_list inputs reqs = None
    <-> exists p, In p (unlink_set reqs) /\ In p inputs.
Proof.
  intros inputs reqs. unfold setup_paths_list.
  destruct (existsb (fun p => existsb (fpath_eqb p) inputs) (unlink_set reqs))
    eqn:E.
  - apply existsb_exists in E as (p & Hp & Hi). apply existsb_fpath in Hi.
    split; auto. intros _. exists p; auto.
  - split; [discriminate|]. intros (p & Hp & Hi). exfalso.
    assert (existsb (fun p => existsb (fpath_eqb p) inputs) (unlink_set reqs)
            = true).
    { apply existsb_exists. exists p. split; auto. apply existsb_fpath; auto. }
    congruence.
Qed.

(* when setup runs, nothing it may unlink - no output and no temporary path
   of ANY of the requested outputs - is an input; and the single-output
   function is the special case *)
Theorem setup_list_unlinks_no_input : forall inputs reqs ots,
    setup_paths_list inputs reqs = Some ots ->
    ots = map out_tmp reqs
    /\ forall p, In p (unlink_set reqs) -> ~ In p inputs.
Proof.
  intros inputs reqs ots H. unfold setup_paths_list in H.
  destruct (existsb (fun p => existsb (fpath_eqb p) inputs) (unlink_set reqs))
    eqn:E; try discriminate.
  inversion H; subst ots. split; auto. intros p Hp Hi.
  assert (existsb (fun p => existsb (fpath_eqb p) inputs) (unlink_set reqs)
          = true).
  { apply existsb_exists. exists p. split; auto. apply existsb_fpath; auto. }
  congruence.
Qed.

Theorem setup_list_single : forall inputs d name,
    setup_paths_list inputs [(d, name)]
    = match setup_paths_at inputs d name with
      | None => None
      | Some ot => Some [ot]
      end.
Proof.
  intros inputs d name. unfold setup_paths_list, setup_paths_at, unlink_set,
    out_tmp. simpl. rewrite !orb_false_r.
  destruct (existsb (fpath_eqb (d, normalize_out name)) inputs
            || existsb (fpath_eqb (d, temp_of (normalize_out name))) inputs);
    reflexivity.
Qed.

(* the outputs and temporary paths of several requests never collide with
   each other except as the same request: an output is never another
   request's temporary path *)
Theorem out_never_a_temp : forall r1 r2 : fpath,
    snd r1 <> [] -> snd r2 <> [] ->
    fst (out_tmp r1) <> snd (out_tmp r2).
Proof.
  intros [d1 n1] [d2 n2] H1 H2 E. unfold out_tmp in E. simpl in *.
  inversion E. destruct (temp_names_distinct n2 n1 H2 H1) as (_ & Hd).
  apply Hd. congruence.
Qed.

Example ex_setup_list :
  setup_paths_list [(1, [105; 110] ++ s_rtdc)]
                   [(1, [111]); (1, [105; 110])] = None
  /\ setup_paths_list [(1, [105; 110] ++ s_rtdc)]
                      [(1, [111]); (2, [105; 110])]
     = Some [((1, [111] ++ s_rtdc), (1, [111] ++ s_rtdc_tilde));
             ((2, [105; 110] ++ s_rtdc), (2, [105; 110] ++ s_rtdc_tilde))].
Proof. vm_compute. auto. Qed.

(* with the suffix check in force (.rtdc/.tdms inputs) the temporary path can
   never be an input: the task refuses exactly when the output is an input *)
Theorem setup_refuses_allowed : forall inputs d name,
    name <> [] ->
    (forall inp, In inp inputs -> allowed_input (snd inp) = true) ->
    (setup_paths_at inputs d name = None
     <-> In (d, normalize_out name) inputs).
Proof.
  intros inputs d name Hne Hal. rewrite setup_refuses_iff. split; auto.
  intros [H|H]; auto. exfalso.
  apply (temp_not_an_input name _ Hne (Hal _ H)). reflexivity.
Qed.

(* split: neither <stem>_NNNN.rtdc nor its temporary name is the input
   <stem><suffix> (a pathlib suffix is empty or starts with a dot) *)
Theorem split_names_not_input : forall stem digits sfx,
    (sfx = [] \/ exists r, sfx = dot :: r) ->
    split_out stem digits <> stem ++ sfx
    /\ temp_of (split_out stem digits) = split_out stem digits ++ [tilde]
    /\ temp_of (split_out stem digits) <> stem ++ sfx.
Proof.
  intros stem digits sfx Hs.
  assert (Hshape : split_out stem digits
                   = (stem ++ [underscore] ++ digits) ++ s_rtdc)
    by (unfold split_out; rewrite <- !app_assoc; reflexivity).
  assert (Hne : stem ++ [underscore] ++ digits <> [])
    by (destruct stem; discriminate).
  assert (Ht : temp_of (split_out stem digits)
               = split_out stem digits ++ [tilde])
    by (rewrite Hshape; apply temp_of_rtdc_name; auto).
  split; [|split]; auto.
  - unfold split_out. intros E. apply app_inv_head in E.
    destruct Hs as [Hs|(r & Hs)]; subst sfx; simpl in E; discriminate.
  - rewrite Ht. unfold split_out. rewrite <- app_assoc. intros E.
    apply app_inv_head in E.
    destruct Hs as [Hs|(r & Hs)]; subst sfx; simpl in E; discriminate.
Qed.

(* "in" for the input "in.rtdc" is refused; "in.repacked" is not; the
   temporary name of "x.rtdc" is refused as input "x.rtdc~"; the same names
   in another directory are fine *)
Example ex_setup_refuses :
  setup_paths [[105; 110] ++ s_rtdc] [105; 110] = None
  /\ setup_paths [[105; 110] ++ s_rtdc] ([105; 110] ++ [46; 120])
     = Some ([105; 110; 46; 120] ++ s_rtdc,
             [105; 110; 46; 120] ++ s_rtdc ++ [tilde])
  /\ setup_paths_at [(1, [120] ++ s_rtdc_tilde)] 1 ([120] ++ s_rtdc) = None
  /\ setup_paths_at [(2, [120] ++ s_rtdc_tilde)] 1 ([120] ++ s_rtdc)
     = Some ((1, [120] ++ s_rtdc), (1, [120] ++ s_rtdc_tilde)).
Proof. vm_compute. auto. Qed.

(* non-vacuity: "out" -> ("out.rtdc", "out.rtdc~");  "a.b.rtdc" keeps its name *)
Example ex_setup_names_1 :
  setup_names [111; 117; 116]
  = ([111; 117; 116; 46; 114; 116; 100; 99],
     [111; 117; 116; 46; 114; 116; 100; 99; 126]).
Proof. vm_compute. reflexivity. Qed.

Example ex_setup_names_2 :
  setup_names [97; 46; 98; 46; 114; 116; 100; 99]
  = ([97; 46; 98; 46; 114; 116; 100; 99],
     [97; 46; 98; 46; 114; 116; 100; 99; 126]).
Proof. vm_compute. reflexivity. Qed.

(* the hidden file ".rtdc" has no suffix for pathlib *)
Example ex_setup_names_3 :
  fst (setup_names s_rtdc) = s_rtdc ++ s_rtdc.
Proof. vm_compute. reflexivity. Qed.
