From Coq Require Import ZArith List Bool Lia.
From Verif Require Import Model.C11.
Import ListNotations.
Open Scope Z_scope.

Lemma lower_c_idem : forall c, lower_c (lower_c c) = lower_c c.
Proof.
  intro c. unfold lower_c, is_upper.
  destruct ((65 <=? c) && (c <=? 90)) eqn:E; [|rewrite E; reflexivity].
  destruct ((65 <=? c + 32) && (c + 32 <=? 90)) eqn:E2; [lia|reflexivity].
Qed.

Lemma lower_idem : forall s, lower (lower s) = lower s.
Proof.
  induction s as [|c s IH]; [reflexivity|].
  cbn [lower map]. rewrite lower_c_idem. f_equal. exact IH.
Qed.
