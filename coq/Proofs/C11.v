(* Proofs for property C11 (metadata normalisation); the model is
   Model/C11.v, the generated table Gen/MetaTable.v. *)
From Coq Require Import ZArith List Bool Lia ZifyBool ZifyNat.
From Verif Require Import Model.C11.
Import ListNotations.
Open Scope Z_scope.

(* ------------------------------------------------------------------ *)
(* strings                                                             *)
(* ------------------------------------------------------------------ *)
Lemma lower_c_idem : forall c, lower_c (lower_c c) = lower_c c.
Proof.
  intro c. unfold lower_c, is_upper.
  destruct ((65 <=? c) && (c <=? 90)) eqn:E; [|rewrite E; reflexivity].
  destruct ((65 <=? c + 32) && (c + 32 <=? 90)) eqn:E2; [lia|reflexivity].
Qed.

Lemma lower_idem : forall s, lower (lower s) = lower s.
Proof.
  induction s as [|c s IH]; [reflexivity|].
  cbn [lower map]. rewrite lower_c_idem. f_equal. exact IH.
Qed.

Lemma lower_nil : forall s, lower s = [] -> s = [].
Proof. intros [|c s] H; [reflexivity|discriminate H]. Qed.

Lemma str_eqb_refl : forall s, str_eqb s s = true.
Proof.
  induction s as [|c s IH]; [reflexivity|].
  cbn [str_eqb]. rewrite Z.eqb_refl. exact IH.
Qed.

Lemma str_eqb_eq : forall a b, str_eqb a b = true -> a = b.
Proof.
  induction a as [|x a IH]; intros [|y b] H; try discriminate H.
  - reflexivity.
  - cbn [str_eqb] in H. apply andb_true_iff in H. destruct H as [H1 H2].
    apply Z.eqb_eq in H1. subst y. f_equal. apply IH. exact H2.
Qed.

(* ------------------------------------------------------------------ *)
(* results of the converters have a canonical shape                    *)
(* ------------------------------------------------------------------ *)
Lemma bind_ok : forall {A B} (r : res A) (f : A -> res B) b,
    bind r f = Ok b -> exists a, r = Ok a /\ f a = Ok b.
Proof.
  intros A B [a|e|] f b H; cbn in H; try discriminate H.
  exists a. split; [reflexivity|exact H].
Qed.

Lemma int_of_fl_of_int : forall n, int_of_fl (fl_of_int n) = Ok n.
Proof.
  intro n. unfold int_of_fl, fl_of_int. f_equal.
  rewrite Z.mul_comm. apply Z.quot_mul. lia.
Qed.

Lemma bool_of_fl_of_bool : forall b, bool_of_fl (fl_of_bool b) = b.
Proof. intros [|]; reflexivity. Qed.

Lemma fint_out : forall v w, fint v = Ok w -> exists n, w = VS (SInt n).
Proof.
  intros v w H. unfold fint in H. apply bind_ok in H.
  destruct H as [n [_ H]]. injection H as H. exists n. symmetry. exact H.
Qed.

Lemma fint_z_int : forall n, fint_z (VS (SInt n)) = Ok n.
Proof. intro n. reflexivity. Qed.

Lemma fbool_out : forall v w, fbool v = Ok w -> exists b, w = VS (SBool b).
Proof.
  intros v w H. unfold fbool in H. apply bind_ok in H.
  destruct H as [b [_ H]]. injection H as H. exists b. symmetry. exact H.
Qed.

Lemma fbool_bool : forall b, fbool (VS (SBool b)) = Ok (VS (SBool b)).
Proof. intro b. cbn. rewrite bool_of_fl_of_bool. reflexivity. Qed.

Lemma fbool_npbool : forall b, fbool (VS (SNpBool b)) = Ok (VS (SBool b)).
Proof. intro b. cbn. rewrite bool_of_fl_of_bool. reflexivity. Qed.

(* fboolorfloat returns a bool, or a float that is not zero *)
Lemma fboolorfloat_out : forall v w,
    fboolorfloat v = Ok w ->
    (exists b, w = VS (SBool b)) \/
    (exists f, w = VS (SFloat f) /\ fl_is_zero f = false).
Proof.
  intros v w H.
  assert (G : forall z, eq_zero v = Ok z ->
              (if z then fbool v
               else if is_real v
                    then bind (py_float v) (fun f => Ok (VS (SFloat f)))
                    else Raise EValue) = Ok w ->
              (exists b, w = VS (SBool b)) \/
              (exists f, w = VS (SFloat f) /\ fl_is_zero f = false)).
  { intros z Ez Hz. destruct z.
    - left. apply fbool_out with (v := v). exact Hz.
    - destruct (is_real v) eqn:Er; [|discriminate Hz].
      apply bind_ok in Hz. destruct Hz as [f [Hf Hw]].
      injection Hw as Hw. right. exists f. split; [symmetry; exact Hw|].
      destruct v as [x| | | | |]; try discriminate Er.
      destruct x; try discriminate Er;
        cbn [eq_zero py_float py_float_scalar] in Ez, Hf;
        try (destruct (exact_int n); [|discriminate Hf]);
        injection Ez as Ez; injection Hf as Hf; subst f.
      + destruct b; [reflexivity|discriminate Ez].
      + unfold fl_is_zero, fl_of_int. lia.
      + exact Ez.
      + unfold fl_is_zero, fl_of_int. lia.
      + exact Ez.
      + exact Ez. }
  unfold fboolorfloat in H.
  destruct v as [x|t l|t l|d x|d l|d l].
  - destruct x;
      try (left; exact (fbool_out _ _ H));
      try (apply bind_ok in H; destruct H as [z [Ez Hz]];
           apply (G z Ez Hz)).
  - apply bind_ok in H; destruct H as [z [Ez Hz]]; apply (G z Ez Hz).
  - apply bind_ok in H; destruct H as [z [Ez Hz]]; apply (G z Ez Hz).
  - apply bind_ok in H; destruct H as [z [Ez Hz]]; apply (G z Ez Hz).
  - apply bind_ok in H; destruct H as [z [Ez Hz]]; apply (G z Ez Hz).
  - apply bind_ok in H; destruct H as [z [Ez Hz]]; apply (G z Ez Hz).
Qed.

Lemma fboolorfloat_float : forall f,
    fl_is_zero f = false ->
    fboolorfloat (VS (SFloat f)) = Ok (VS (SFloat f)).
Proof. intros f H. cbn. rewrite H. reflexivity. Qed.

Lemma fboolorfloat_npf64 : forall f,
    fl_is_zero f = false ->
    fboolorfloat (VS (SNpF64 f)) = Ok (VS (SFloat f)).
Proof. intros f H. cbn. rewrite H. reflexivity. Qed.

(* fintlist returns a list of Python ints *)
Lemma fintlist_items_out : forall its r,
    fintlist_items its = Ok r -> exists ns, r = map SInt ns.
Proof.
  induction its as [|it its IH]; intros r H.
  - injection H as H. subst r. exists []. reflexivity.
  - cbn [fintlist_items] in H.
    destruct (match it with
              | VS x => truthy_or_number x
              | VSeq _ l' => match l' with [] => false | _ => true end
              | _ => true end).
    + apply bind_ok in H. destruct H as [n [_ H]].
      apply bind_ok in H. destruct H as [r' [Hr H]].
      injection H as H. subst r.
      destruct (IH r' Hr) as [ns Hns]. exists (n :: ns).
      cbn [map]. rewrite Hns. reflexivity.
    + apply IH. exact H.
Qed.

Lemma fintlist_items_ints : forall ns,
    fintlist_items (map VS (map SInt ns)) = Ok (map SInt ns).
Proof.
  induction ns as [|n ns IH]; [reflexivity|].
  cbn [map fintlist_items truthy_or_number].
  rewrite fint_z_int. cbn [bind]. rewrite IH. reflexivity.
Qed.

Lemma fintlist_out : forall v w,
    fintlist v = Ok w -> exists ns, w = VSeq false (map SInt ns).
Proof.
  intros v w H. unfold fintlist in H.
  apply bind_ok in H. destruct H as [its [_ H]].
  apply bind_ok in H. destruct H as [r [Hr H]].
  injection H as H. subst w.
  destruct (fintlist_items_out its r Hr) as [ns Hns].
  exists ns. rewrite Hns. reflexivity.
Qed.

Lemma fintlist_ints : forall ns,
    fintlist (VSeq false (map SInt ns)) = Ok (VSeq false (map SInt ns)).
Proof.
  intro ns. unfold fintlist. cbn [bind].
  rewrite fintlist_items_ints. reflexivity.
Qed.

Lemma f1d_out : forall v w,
    f1dfloatduple v = Ok w ->
    exists a b, w = VSeq true [SFloat a; SFloat b].
Proof.
  intros v w H. unfold f1dfloatduple in H.
  apply bind_ok in H. destruct H as [fs [_ H]].
  destruct fs as [|a [|b [|c fs]]]; try discriminate H.
  injection H as H. exists a, b. symmetry. exact H.
Qed.

Lemma f2d_out : forall v w,
    f2dfloatarray v = Ok w ->
    (exists x, w = VArr0 DF64 x) \/ (exists l, w = VArr1 DF64 l) \/
    (exists l, w = VArr2 DF64 l).
Proof.
  intros v w H. unfold f2dfloatarray in H.
  destruct v as [x|t l|t l|d x|d l|d l].
  - apply bind_ok in H. destruct H as [f [_ H]]. injection H as H.
    left. exists f. symmetry. exact H.
  - apply bind_ok in H. destruct H as [f [_ H]]. injection H as H.
    right. left. exists f. symmetry. exact H.
  - destruct l as [|r l'].
    + injection H as H. right. left. exists []. symmetry. exact H.
    + destruct (all_len (length r) (r :: l')); [|discriminate H].
      apply bind_ok in H. destruct H as [f [_ H]]. injection H as H.
      right. right. exists f. symmetry. exact H.
  - destruct (arr_exact d [x]); [|discriminate H].
    injection H as H. left. exists x. symmetry. exact H.
  - destruct (arr_exact d l); [|discriminate H].
    injection H as H. right. left. exists l. symmetry. exact H.
  - destruct (arr_exact d (concat l)); [|discriminate H].
    injection H as H. right. right. exists l. symmetry. exact H.
Qed.

Lemma py_str_out : forall v w,
    py_str v = Ok w -> exists s, w = VS (SStr s).
Proof.
  intros v w H. unfold py_str in H.
  destruct v as [x| | | | |]; try discriminate H.
  apply bind_ok in H. destruct H as [s [_ H]]. injection H as H.
  exists s. symmetry. exact H.
Qed.

Lemma py_floatv_out : forall v w,
    py_floatv v = Ok w -> exists f, w = VS (SFloat f).
Proof.
  intros v w H. unfold py_floatv in H.
  apply bind_ok in H. destruct H as [f [_ H]]. injection H as H.
  exists f. symmetry. exact H.
Qed.

Lemma fnumber_out : forall v w, fnumber v = Ok w -> is_number w = true.
Proof.
  intros v w H. unfold fnumber in H. destruct (is_number v) eqn:E.
  - injection H as H. subst w. exact E.
  - destruct (py_floatv_out v w H) as [f Hf]. subst w. reflexivity.
Qed.

Lemma fnumber_number : forall w, is_number w = true -> fnumber w = Ok w.
Proof. intros w H. unfold fnumber. rewrite H. reflexivity. Qed.

(* ------------------------------------------------------------------ *)
(* T1: every converter is idempotent                                   *)
(* ------------------------------------------------------------------ *)
Theorem apply_idempotent : forall c v w,
    apply c v = Ok w -> apply c w = Ok w.
Proof.
  intros c v w H. destruct c; cbn [apply] in *.
  - destruct (py_str_out v w H) as [s Hs]. subst w. reflexivity.
  - destruct (py_floatv_out v w H) as [f Hf]. subst w. reflexivity.
  - destruct (fint_out v w H) as [n Hn]. subst w.
    unfold fint. rewrite fint_z_int. reflexivity.
  - destruct (fbool_out v w H) as [b Hb]. subst w. apply fbool_bool.
  - destruct (fboolorfloat_out v w H) as [[b Hb]|[f [Hf Hz]]]; subst w.
    + apply fbool_bool.
    + apply fboolorfloat_float. exact Hz.
  - destruct (fintlist_out v w H) as [ns Hns]. subst w. apply fintlist_ints.
  - destruct (f1d_out v w H) as [a [b Hab]]. subst w. reflexivity.
  - destruct (f2d_out v w H) as [[x Hx]|[[l Hl]|[l Hl]]]; subst w;
      reflexivity.
  - unfold lcstr in *. destruct v as [x| | | | |]; try discriminate H.
    destruct x; try discriminate H; injection H as H; subst w;
      rewrite lower_idem; reflexivity.
  - apply fnumber_number. apply fnumber_out with (v := v). exact H.
  - reflexivity.
Qed.

(* ------------------------------------------------------------------ *)
(* results of converters are never "", None or bytes (for such inputs)  *)
(* ------------------------------------------------------------------ *)
Definition clean (v : value) : bool :=
  match v with
  | VS (SStr []) | VS SNone | VS (SBytes _) => false
  | _ => true
  end.

Lemma digits_fuel_nonempty : forall fuel n acc,
    acc <> [] -> digits_fuel fuel n acc <> [].
Proof.
  induction fuel as [|f IH]; intros n acc Ha; cbn [digits_fuel].
  - exact Ha.
  - destruct (n <? 10); [discriminate|]. apply IH. discriminate.
Qed.

Lemma digits_of_nonempty : forall n, digits_of n <> [].
Proof.
  intro n. unfold digits_of. cbn [digits_fuel].
  destruct (n <? 10); [discriminate|].
  apply digits_fuel_nonempty. discriminate.
Qed.

Lemma app_nonempty_r : forall (a b : str), b <> [] -> a ++ b <> [].
Proof. intros [|x a] b Hb; [exact Hb|discriminate]. Qed.

Lemma repr_fl_nonempty : forall f s, repr_fl f = Ok s -> s <> [].
Proof.
  intros f s H. destruct f; unfold repr_fl in H;
    try (injection H as H; subst s; discriminate).
  match type of H with
  | context [if ?c then _ else _] => destruct c; [discriminate H|]
  end.
  injection H as H. subst s.
  apply app_nonempty_r. apply app_nonempty_r. cbn [app]. discriminate.
Qed.

Lemma py_str_clean : forall v w,
    clean v = true -> py_str v = Ok w -> clean w = true.
Proof.
  intros v w Hc H. unfold py_str in H.
  destruct v as [x| | | | |]; try discriminate H.
  apply bind_ok in H. destruct H as [s [Hs H]]. injection H as H. subst w.
  assert (s <> []) as Hne.
  { destruct x; try discriminate Hc.
    - injection Hs as Hs. subst s. destruct s0; [discriminate Hc|discriminate].
    - injection Hs as Hs. subst s. destruct b; discriminate.
    - injection Hs as Hs. subst s. unfold repr_int.
      destruct (n <? 0); [discriminate|apply digits_of_nonempty].
    - exact (repr_fl_nonempty _ _ Hs).
    - injection Hs as Hs. subst s. destruct b; discriminate.
    - injection Hs as Hs. subst s. unfold repr_int.
      destruct (n <? 0); [discriminate|apply digits_of_nonempty].
    - exact (repr_fl_nonempty _ _ Hs).
    - exact (repr_fl_nonempty _ _ Hs). }
  destruct s; [contradiction|reflexivity].
Qed.

Lemma apply_clean : forall c v w,
    clean v = true -> apply c v = Ok w -> clean w = true.
Proof.
  intros c v w Hc H. destruct c; cbn [apply] in H.
  - apply py_str_clean with (v := v); assumption.
  - destruct (py_floatv_out v w H) as [f Hf]. subst w. reflexivity.
  - destruct (fint_out v w H) as [n Hn]. subst w. reflexivity.
  - destruct (fbool_out v w H) as [b Hb]. subst w. reflexivity.
  - destruct (fboolorfloat_out v w H) as [[b Hb]|[f [Hf _]]]; subst w;
      reflexivity.
  - destruct (fintlist_out v w H) as [ns Hns]. subst w. reflexivity.
  - destruct (f1d_out v w H) as [a [b Hab]]. subst w. reflexivity.
  - destruct (f2d_out v w H) as [[x Hx]|[[l Hl]|[l Hl]]]; subst w;
      reflexivity.
  - unfold lcstr in H. destruct v as [x| | | | |]; try discriminate H.
    destruct x; try discriminate H; try discriminate Hc.
    injection H as H. subst w. destruct s; [discriminate Hc|reflexivity].
  - pose proof (fnumber_out v w H) as Hn.
    destruct w as [x| | | | |]; try discriminate Hn.
    destruct x; try discriminate Hn; reflexivity.
  - injection H as H. subst w. exact Hc.
Qed.

Section Dict.
  Variable tbl : list row.
  Variable feats : list str.
  Variable sections : list str.

  Notation setitem := (setitem tbl feats).
  Notation verify := (verify tbl feats).
  Notation func_of := (func_of tbl).
  Notation key_exists := (key_exists tbl feats).

  Lemma dget_dset : forall d k v, dget (dset d k v) k = Some v.
  Proof.
    induction d as [|[k' v'] d IH]; intros k v; cbn [dset dget].
    - rewrite str_eqb_refl. reflexivity.
    - destruct (str_eqb k k') eqn:E; cbn [dget]; rewrite E.
      + reflexivity.
      + apply IH.
  Qed.

  Lemma dset_same : forall d k v, dget d k = Some v -> dset d k v = d.
  Proof.
    induction d as [|[k' v'] d IH]; intros k v H; cbn [dset dget] in *.
    - discriminate H.
    - destruct (str_eqb k k') eqn:E.
      + injection H as H. subst v'. reflexivity.
      + f_equal. apply IH. exact H.
  Qed.

  Lemma decode_clean : forall v v1, decode v = Ok v1 ->
      (match v1 with VS (SBytes _) => false | _ => true end) = true.
  Proof.
    intros v v1 H. unfold decode in H.
    destruct v as [x| | | | |]; try (injection H as H; subst v1; reflexivity).
    destruct x; try (injection H as H; subst v1; reflexivity).
    destruct (forallb (fun c => c <? 128) s); [|discriminate H].
    injection H as H. subst v1. reflexivity.
  Qed.

  Lemma decode_of_clean : forall v, clean v = true -> decode v = Ok v.
  Proof.
    intros v H. destruct v as [x| | | | |]; try reflexivity.
    destruct x; try reflexivity. discriminate H.
  Qed.

  (* the warnings of an assignment *)
  Definition warns (sec lk : str) (v : value) : list warning :=
    (match verify sec lk with
     | Some w => [w]
     | None => match v with VS (SStr []) => [WEmpty] | _ => [] end
     end) ++ (match v with VS SNone => [WBadValue] | _ => [] end).

  Lemma setitem_eq : forall sec key v0 d,
      setitem sec key v0 d =
      match decode v0 with
      | Unmod => OUnmod
      | Raise e => Exc e
      | Ok v =>
          match warns sec (lower key) v with
          | [] => match apply (func_of sec (lower key)) v with
                  | Ok w => Done (dset d (lower key) w) []
                  | Raise e => Exc e
                  | Unmod => OUnmod
                  end
          | ws => Done d ws
          end
      end.
  Proof. reflexivity. Qed.

  Lemma warns_nil : forall sec lk v,
      warns sec lk v = [] <->
      (verify sec lk = None /\ v <> VS (SStr []) /\ v <> VS SNone).
  Proof.
    intros sec lk v. unfold warns. split.
    - intro H. apply app_eq_nil in H. destruct H as [H1 H2].
      destruct (verify sec lk); [discriminate H1|].
      split; [reflexivity|]. split; intro E; subst v; discriminate.
    - intros [Hv [H1 H2]]. rewrite Hv.
      destruct v as [x| | | | |]; try reflexivity.
      destruct x; try reflexivity; [contradiction|].
      destruct s; [contradiction|reflexivity].
  Qed.

  Lemma warns_nil_clean : forall sec lk v,
      verify sec lk = None -> clean v = true -> warns sec lk v = [].
  Proof.
    intros sec lk v Hv Hc. apply warns_nil. split; [exact Hv|].
    split; intro E; subst v; discriminate Hc.
  Qed.

  (* T2: assigning the stored value again changes nothing *)
  Theorem setitem_idempotent : forall sec key v d d',
      setitem sec key v d = Done d' [] ->
      exists w, dget d' (lower key) = Some w /\
                setitem sec key w d' = Done d' [].
  Proof.
    intros sec key v d d' H. rewrite setitem_eq in H.
    destruct (decode v) as [v1|e|] eqn:Ed; try discriminate H.
    destruct (warns sec (lower key) v1) as [|w0 ws] eqn:Ew;
      [|discriminate H].
    destruct (apply (func_of sec (lower key)) v1) as [w|e|] eqn:Ea;
      try discriminate H.
    injection H as H. subst d'. exists w. split; [apply dget_dset|].
    apply warns_nil in Ew. destruct Ew as [Hv [Hne Hnn]].
    assert (clean v1 = true) as Hc1.
    { pose proof (decode_clean v v1 Ed) as Hb.
      destruct v1 as [x| | | | |]; try reflexivity.
      destruct x; try reflexivity; try discriminate Hb;
        [contradiction|]. destruct s; [contradiction|reflexivity]. }
    pose proof (apply_clean _ _ _ Hc1 Ea) as Hcw.
    rewrite setitem_eq. rewrite (decode_of_clean w Hcw).
    rewrite (warns_nil_clean _ _ _ Hv Hcw).
    rewrite (apply_idempotent _ _ _ Ea).
    rewrite dset_same; [reflexivity|apply dget_dset].
  Qed.

  (* T3: only the lower-cased key matters *)
  Theorem setitem_case_insensitive : forall sec key key' v d,
      lower key = lower key' -> setitem sec key v d = setitem sec key' v d.
  Proof.
    intros sec key key' v d H. rewrite !setitem_eq. rewrite H. reflexivity.
  Qed.

  Corollary setitem_lower : forall sec key v d,
      setitem sec (lower key) v d = setitem sec key v d.
  Proof.
    intros. apply setitem_case_insensitive. apply lower_idem.
  Qed.

  (* T4: unknown keys, "" and None are rejected with a warning *)
  Theorem setitem_rejects : forall sec key v v1 d,
      decode v = Ok v1 ->
      verify sec (lower key) <> None \/ v1 = VS (SStr []) \/ v1 = VS SNone ->
      exists w ws, setitem sec key v d = Done d (w :: ws).
  Proof.
    intros sec key v v1 d Ed H. rewrite setitem_eq, Ed.
    destruct (warns sec (lower key) v1) as [|w ws] eqn:Ew.
    - apply warns_nil in Ew. destruct Ew as [Hv [H1 H2]].
      destruct H as [H|[H|H]]; contradiction.
    - exists w, ws. reflexivity.
  Qed.

  (* T5: the assignment implements the specification *)
  Theorem setitem_meets_spec : forall sec key v d,
      match spec_store tbl feats sec key v with
      | Ok (Some w) => setitem sec key v d = Done (dset d (lower key) w) []
      | Ok None => exists w ws, setitem sec key v d = Done d (w :: ws)
      | Raise e => setitem sec key v d = Exc e
      | Unmod => setitem sec key v d = OUnmod
      end.
  Proof.
    intros sec key v d. unfold spec_store. rewrite setitem_eq.
    destruct (decode v) as [v1|e|] eqn:Ed; cbn [bind]; try reflexivity.
    unfold warns.
    destruct (C11.verify tbl feats sec (lower key)) as [w0|] eqn:Ev.
    - cbn [app]. eexists. eexists. reflexivity.
    - destruct v1 as [x|t l|t l|dt x|dt l|dt l]; cbn [app];
        try (destruct (apply (C11.func_of tbl sec (lower key)) _);
             reflexivity).
      destruct x; cbn [app];
        try (destruct (apply (C11.func_of tbl sec (lower key)) _);
             reflexivity).
      + eexists. eexists. reflexivity.
      + destruct s; cbn [app].
        * eexists. eexists. reflexivity.
        * destruct (apply (C11.func_of tbl sec (lower key)) _); reflexivity.
  Qed.

  (* T6: a configuration file entry for a known key gives the same result
     as assigning its (stripped, non-empty) text *)
  Definition file_text (rawval : str) : str :=
    strip (strip_dq (strip_sq rawval)).

  Theorem file_entry_agrees : forall sec rawvar rawval d,
      let var := lower (strip rawvar) in
      var <> [] ->
      key_exists sec var = true ->
      file_text rawval <> [] ->
      file_entry tbl feats sec rawvar rawval d
      = setitem sec var (VS (SStr (file_text rawval))) d.
  Proof.
    intros sec rawvar rawval d var Hvar Hk Hne.
    unfold file_entry, load_value. fold var. fold (file_text rawval).
    destruct (file_text rawval) as [|c0 val] eqn:Et; [contradiction|].
    rewrite Hk. rewrite setitem_eq.
    assert (lower var = var) as Hlv by (apply lower_idem).
    rewrite Hlv. cbn [decode].
    assert (verify sec var = None) as Hv.
    { unfold C11.verify. rewrite Hk. reflexivity. }
    assert (clean (VS (SStr (c0 :: val))) = true) as Hc by reflexivity.
    rewrite (warns_nil_clean _ _ _ Hv Hc).
    destruct (apply (C11.func_of tbl sec var) (VS (SStr (c0 :: val))))
      as [w|e|] eqn:Ea; cbn [bind]; try reflexivity.
    pose proof (apply_clean _ _ _ Hc Ea) as Hcw.
    assert ((match w with VS (SStr []) => Ok None | _ => Ok (Some w) end)
            = Ok (Some w)) as Hm.
    { destruct w as [x| | | | |]; try reflexivity.
      destruct x; try reflexivity. destruct s; [discriminate Hcw|reflexivity]. }
    rewrite Hm. destruct var as [|v0 var'] eqn:Evar; [contradiction|].
    rewrite <- Evar in *.
    rewrite setitem_eq, Hlv.
    rewrite (decode_of_clean w Hcw).
    rewrite (warns_nil_clean _ _ _ Hv Hcw).
    rewrite (apply_idempotent _ _ _ Ea). reflexivity.
  Qed.

  (* the line is split at its FIRST "=": later "=" belong to the value *)
  Lemma split_first_first : forall sep a b,
      count_c sep a = 0 -> split_first sep (a ++ sep :: b) = Some (a, b).
  Proof.
    intros sep a b. induction a as [|c a IH]; intro H; cbn [app split_first].
    - rewrite Z.eqb_refl. reflexivity.
    - cbn [count_c] in H.
      assert (0 <= count_c sep a) as Hnn.
      { clear. induction a as [|x a IH]; cbn [count_c]; [lia|].
        destruct (x =? sep); lia. }
      destruct (c =? sep) eqn:E; [lia|].
      rewrite IH by lia. reflexivity.
  Qed.

  (* a whole line "<var> = <val>" (comment removed, stripped; not a section
     header) of a file behaves like the assignment of the stripped text right
     of the first "=" to the stripped, lower-cased name left of it *)
  Theorem line_route_agrees : forall sec line rawvar rawval d,
      let l := strip (before_hash line) in
      (starts_with [91] l && ends_with [93] l) = false ->
      count_c 61 rawvar = 0 ->
      l = rawvar ++ 61 :: rawval ->
      lower (strip rawvar) <> [] ->
      key_exists sec (lower (strip rawvar)) = true ->
      file_text rawval <> [] ->
      line_route tbl feats sec line d
      = setitem sec (lower (strip rawvar)) (VS (SStr (file_text rawval))) d.
  Proof.
    intros sec line rawvar rawval d l Hh Hc Hl Hvar Hk Hne.
    unfold line_route. fold l. rewrite Hh.
    destruct l as [|c0 l'] eqn:El.
    - destruct rawvar; discriminate Hl.
    - rewrite Hl. rewrite (split_first_first 61 rawvar rawval Hc).
      apply file_entry_agrees; assumption.
  Qed.

  (* update / constructor: item assignment key by key *)
  Theorem update_single : forall sec k v d,
      update tbl feats sec [(k, v)] d =
      match setitem sec k v d with
      | Done d' ws => Done d' (ws ++ [])
      | o => o
      end.
  Proof. reflexivity. Qed.

  Theorem update_app : forall sec l1 l2 d,
      update tbl feats sec (l1 ++ l2) d =
      match update tbl feats sec l1 d with
      | Done d1 ws1 =>
          match update tbl feats sec l2 d1 with
          | Done d2 ws2 => Done d2 (ws1 ++ ws2)
          | o => o
          end
      | o => o
      end.
  Proof.
    intros sec l1. induction l1 as [|[k v] l1 IH]; intros l2 d.
    - cbn [app update]. destruct (update tbl feats sec l2 d); reflexivity.
    - cbn [app update].
      destruct (C11.setitem tbl feats sec k v d) as [d' ws|e|]; try reflexivity.
      rewrite IH.
      destruct (update tbl feats sec l1 d') as [d1 ws1|e|]; try reflexivity.
      destruct (update tbl feats sec l2 d1) as [d2 ws2|e|]; try reflexivity.
      rewrite app_assoc. reflexivity.
  Qed.
End Dict.

(* ------------------------------------------------------------------ *)
(* T7: HDF5 attribute round trip                                        *)
(* ------------------------------------------------------------------ *)
Definition roundtrippable (c : conv) : bool :=
  match c with CFintlist | CFnumber | CId => false | _ => true end.

Theorem attr_roundtrip : forall c v w x,
    roundtrippable c = true ->
    apply c v = Ok w -> h5 w = Ok x -> apply c x = Ok w.
Proof.
  intros c v w x Hr Ha Hx. destruct c; try discriminate Hr; cbn [apply] in *.
  - destruct (py_str_out v w Ha) as [s Hs]. subst w. cbn [h5] in Hx.
    destruct (forallb (fun c => negb (c =? 0)) s); [|discriminate Hx].
    injection Hx as Hx. subst x. reflexivity.
  - destruct (py_floatv_out v w Ha) as [f Hf]. subst w.
    injection Hx as Hx. subst x. reflexivity.
  - destruct (fint_out v w Ha) as [n Hn]. subst w. cbn [h5] in Hx.
    destruct (int64_ok n); [|discriminate Hx]. injection Hx as Hx. subst x.
    reflexivity.
  - destruct (fbool_out v w Ha) as [b Hb]. subst w.
    injection Hx as Hx. subst x. apply fbool_npbool.
  - destruct (fboolorfloat_out v w Ha) as [[b Hb]|[f [Hf Hz]]]; subst w;
      injection Hx as Hx; subst x.
    + unfold fboolorfloat. apply fbool_npbool.
    + apply fboolorfloat_npf64. exact Hz.
  - destruct (f1d_out v w Ha) as [a [b Hab]]. subst w.
    injection Hx as Hx. subst x. reflexivity.
  - destruct (f2d_out v w Ha) as [[y Hy]|[[l Hl]|[l Hl]]]; subst w;
      injection Hx as Hx; subst x; reflexivity.
  - unfold lcstr in Ha. destruct v as [y| | | | |]; try discriminate Ha.
    destruct y; try discriminate Ha; injection Ha as Ha; subst w;
      cbn [h5] in Hx; [|discriminate Hx].
    destruct (forallb (fun c => negb (c =? 0)) (lower s)); [|discriminate Hx].
    injection Hx as Hx. subst x. cbn [lcstr]. rewrite lower_idem. reflexivity.
Qed.

(* values of keys without a converter (user section, min/max ranges) come
   back from the file as numpy objects that compare equal *)
Definition fl_eqb (a b : fl) : bool :=
  match a, b with
  | FFin m, FFin n => m =? n
  | FNaN, FNaN | FPInf, FPInf | FNInf, FNInf => true
  | _, _ => false
  end.

(* a bool array holds 0/1, an int array integers *)
Definition wf_arr0 (v : value) : bool :=
  match v with
  | VArr0 DBool x => fl_eqb x (FFin 0) || fl_eqb x (FFin 8)
  | VArr0 DInt (FFin m) => m mod 8 =? 0
  | _ => true
  end.

Lemma forallb_impl : forall {A} (p q : A -> bool) l,
    (forall a, p a = true -> q a = true) ->
    forallb p l = true -> forallb q l = true.
Proof.
  intros A p q l Hpq H. rewrite forallb_forall in *. intros a Ha.
  apply Hpq. apply H. exact Ha.
Qed.

Lemma seq_dtype_num : forall l d,
    seq_dtype l = Some d -> forallb scalar_is_num l = true.
Proof.
  intros l d H. unfold seq_dtype in H.
  destruct (forallb scalar_is_bool l) eqn:Eb.
  - apply forallb_impl with (p := scalar_is_bool); [|exact Eb].
    intros []; intro Hx; try discriminate Hx; reflexivity.
  - destruct (forallb scalar_is_intlike l) eqn:Ei.
    + apply forallb_impl with (p := scalar_is_intlike); [|exact Ei].
      intros []; intro Hx; try discriminate Hx; reflexivity.
    + destruct (forallb scalar_is_num l); [reflexivity|discriminate H].
Qed.

Lemma forallb_concat : forall {A} (p : A -> bool) l,
    forallb p (concat l) = forallb (forallb p) l.
Proof.
  intros A p l. induction l as [|r l IH]; [reflexivity|].
  cbn [concat forallb]. rewrite forallb_app, IH. reflexivity.
Qed.

Theorem h5_preserves_value : forall w x,
    wf_arr0 w = true -> h5 w = Ok x -> nf x = nf w.
Proof.
  intros w x Hwf H. destruct w as [y|t l|t l|d y|d l|d l]; cbn [h5] in H.
  - destruct y; try discriminate H;
      try (injection H as H; subst x; reflexivity).
    + destruct (forallb (fun c => negb (c =? 0)) s); [|discriminate H].
      injection H as H. subst x. reflexivity.
    + destruct (int64_ok n); [|discriminate H].
      injection H as H. subst x. reflexivity.
    + destruct (int64_ok n); [|discriminate H].
      injection H as H. subst x. reflexivity.
  - destruct (seq_dtype l) as [d|] eqn:Ed; [|discriminate H].
    injection H as H. subst x. cbn [nf].
    rewrite (seq_dtype_num l d Ed). reflexivity.
  - destruct l as [|r l']; [discriminate H|].
    destruct (all_len (length r) (r :: l')); [|discriminate H].
    destruct (seq_dtype (concat (r :: l'))) as [d|] eqn:Ed; [|discriminate H].
    injection H as H. subst x. cbn [nf].
    pose proof (seq_dtype_num _ d Ed) as Hn. rewrite forallb_concat in Hn.
    rewrite Hn. reflexivity.
  - destruct d.
    + injection H as H. subst x. cbn [nf nf_scalar scalar_num].
      cbn [wf_arr0] in Hwf. destruct y as [m| | |]; try discriminate Hwf.
      cbn [fl_eqb] in Hwf. unfold bool_of_fl, fl_is_zero, fl_of_bool.
      destruct (m =? 0) eqn:E0; cbn [negb].
      * f_equal. f_equal. lia.
      * f_equal. f_equal. lia.
    + destruct y as [m| | |]; try discriminate H.
      destruct (int64_ok (Z.quot m 8)); [|discriminate H].
      injection H as H. subst x. cbn [nf nf_scalar scalar_num].
      cbn [wf_arr0] in Hwf. unfold fl_of_int. f_equal. f_equal.
      pose proof (Z.quot_exact m 8) as Hq.
      assert (Z.rem m 8 = 0) as Hr.
      { rewrite Z.rem_mod by lia.
        assert (Z.abs m mod 8 = 0) as Hm.
        { destruct (Z.abs_eq_or_opp m) as [Ha|Ha]; rewrite Ha; [lia|].
          apply Z.mod_opp_l_z; lia. }
        cbn [Z.abs]. rewrite Hm. lia. }
      apply Hq in Hr; lia.
    + injection H as H. subst x. reflexivity.
  - injection H as H. subst x. reflexivity.
  - injection H as H. subst x. reflexivity.
Qed.

Lemma h5_clean : forall w x, clean w = true -> h5 w = Ok x -> clean x = true.
Proof.
  intros w x Hc H. destruct w as [y|t l|t l|d y|d l|d l]; cbn [h5] in H.
  - destruct y; try discriminate H; try discriminate Hc;
      try (injection H as H; subst x; reflexivity).
    + destruct (forallb (fun c => negb (c =? 0)) s); [|discriminate H].
      injection H as H. subst x. exact Hc.
    + destruct (int64_ok n); [|discriminate H].
      injection H as H. subst x. reflexivity.
    + destruct (int64_ok n); [|discriminate H].
      injection H as H. subst x. reflexivity.
  - destruct (seq_dtype l); [|discriminate H].
    injection H as H. subst x. reflexivity.
  - destruct l as [|r l']; [discriminate H|].
    destruct (all_len (length r) (r :: l')); [|discriminate H].
    destruct (seq_dtype (concat (r :: l'))); [|discriminate H].
    injection H as H. subst x. reflexivity.
  - destruct d; try (injection H as H; subst x; reflexivity).
    destruct y; try discriminate H.
    destruct (int64_ok (Z.quot m 8)); [|discriminate H].
    injection H as H. subst x. reflexivity.
  - injection H as H. subst x. reflexivity.
  - injection H as H. subst x. reflexivity.
Qed.

Section Route.
  Variable tbl : list row.
  Variable feats : list str.
  Variable sections : list str.

  (* writing an entry of a metadata section with RTDCWriter.store_metadata
     and re-opening the file stores the same value as assigning it *)
  Theorem h5_route_agrees : forall sec key v v1 w x d,
      lower key = key ->
      str_eqb sec s_user = false ->
      mem_str sec sections = true ->
      key_exists tbl feats sec key = true ->
      roundtrippable (func_of tbl sec key) = true ->
      decode v = Ok v1 -> clean v1 = true ->
      apply (func_of tbl sec key) v1 = Ok w -> h5 w = Ok x ->
      h5_route tbl feats sections sec key v d = setitem tbl feats sec key v d
      /\ setitem tbl feats sec key v d = Done (dset d key w) [].
  Proof.
    intros sec key v v1 w x d Hl Hu Hs Hk Hr Ed Hc Ha Hx.
    assert (verify tbl feats sec key = None) as Hv.
    { unfold verify. rewrite Hk. reflexivity. }
    assert (setitem tbl feats sec key v d = Done (dset d key w) []) as E1.
    { rewrite setitem_eq, Ed, Hl.
      rewrite (warns_nil_clean _ _ _ _ _ Hv Hc). rewrite Ha. reflexivity. }
    split; [|exact E1]. rewrite E1.
    unfold h5_route. rewrite Ed, Hu, Hs, Hk. cbn [negb orb].
    rewrite Ha, Hx.
    pose proof (apply_clean _ _ _ Hc Ha) as Hcw.
    pose proof (h5_clean _ _ Hcw Hx) as Hcx.
    rewrite setitem_eq, (decode_of_clean x Hcx), Hl.
    rewrite (warns_nil_clean _ _ _ _ _ Hv Hcx).
    rewrite (attr_roundtrip _ _ _ _ Hr Ha Hx). reflexivity.
  Qed.
End Route.

(* ------------------------------------------------------------------ *)
(* T8: results have the type documented for the converter               *)
(* ------------------------------------------------------------------ *)
Definition not_bytes (v : value) : bool :=
  match v with VS (SBytes _) => false | _ => true end.

Theorem apply_out_type : forall c v w,
    c <> CId -> not_bytes v = true -> apply c v = Ok w ->
    has_some_type (out_types c) w = true.
Proof.
  intros c v w Hc Hb H. destruct c; cbn [apply] in H;
    try (exfalso; apply Hc; reflexivity).
  - destruct (py_str_out v w H) as [s Hs]. subst w. reflexivity.
  - destruct (py_floatv_out v w H) as [f Hf]. subst w. reflexivity.
  - destruct (fint_out v w H) as [n Hn]. subst w. reflexivity.
  - destruct (fbool_out v w H) as [b Hb']. subst w. reflexivity.
  - destruct (fboolorfloat_out v w H) as [[b Hb']|[f [Hf _]]]; subst w;
      reflexivity.
  - destruct (fintlist_out v w H) as [ns Hns]. subst w. reflexivity.
  - destruct (f1d_out v w H) as [a [b Hab]]. subst w. reflexivity.
  - destruct (f2d_out v w H) as [[x Hx]|[[l Hl]|[l Hl]]]; subst w;
      reflexivity.
  - unfold lcstr in H. destruct v as [x| | | | |]; try discriminate H.
    destruct x; try discriminate H; try discriminate Hb.
    injection H as H. subst w. reflexivity.
  - pose proof (fnumber_out v w H) as Hn.
    destruct w as [x| | | | |]; try discriminate Hn.
    destruct x; try discriminate Hn; reflexivity.
Qed.

Lemma type_covers_sound : forall t u w,
    type_covers t u = true -> has_type u w = true -> has_type t w = true.
Proof.
  intros t u w Hc Hu.
  destruct t, u; try discriminate Hc; try exact Hu;
    destruct w as [x|tt l|tt l|d x|d l|d l]; try discriminate Hu;
    try reflexivity;
    destruct x; try discriminate Hu; reflexivity.
Qed.

Lemma covers_some_type : forall ts us w,
    forallb (fun u => existsb (fun t => type_covers t u) ts) us = true ->
    has_some_type us w = true -> has_some_type ts w = true.
Proof.
  intros ts us w Hall Hw. unfold has_some_type in *.
  apply existsb_exists in Hw. destruct Hw as [u [Hin Hu]].
  rewrite forallb_forall in Hall. specialize (Hall u Hin).
  apply existsb_exists in Hall. destruct Hall as [t [Htin Hc]].
  apply existsb_exists. exists t. split; [exact Htin|].
  apply type_covers_sound with (u := u); assumption.
Qed.

Definition conv_eqb (a b : conv) : bool :=
  match a, b with
  | CStr, CStr | CFloat, CFloat | CFint, CFint | CFbool, CFbool
  | CFboolorfloat, CFboolorfloat | CFintlist, CFintlist | CF1d, CF1d
  | CF2d, CF2d | CLcstr, CLcstr | CFnumber, CFnumber | CId, CId => true
  | _, _ => false
  end.

Lemma conv_eqb_eq : forall a b, conv_eqb a b = true -> a = b.
Proof. intros [] []; intro H; try discriminate H; reflexivity. Qed.

(* ------------------------------------------------------------------ *)
(* items(): the entries, each exactly once, sorted by key               *)
(* ------------------------------------------------------------------ *)
From Coq Require Import Permutation.

Lemma str_leb_total : forall a b, str_leb a b = false -> str_leb b a = true.
Proof.
  induction a as [|x a IH]; intros [|y b] H; cbn [str_leb] in *;
    try discriminate H; try reflexivity.
  destruct (x <? y) eqn:E1; [discriminate H|].
  destruct (y <? x) eqn:E2; [reflexivity|]. apply IH. exact H.
Qed.

Fixpoint sorted_keys (l : dict) : bool :=
  match l with
  | [] => true
  | kv :: t => match t with
               | [] => true
               | kv' :: _ => str_leb (fst kv) (fst kv') && sorted_keys t
               end
  end.

Lemma insert_sorted : forall kv l,
    sorted_keys l = true -> sorted_keys (insert_kv kv l) = true.
Proof.
  intros kv l. induction l as [|a l IH]; intro H; cbn [insert_kv].
  - reflexivity.
  - destruct (str_leb (fst kv) (fst a)) eqn:E.
    + cbn [sorted_keys]. rewrite E. exact H.
    + apply str_leb_total in E. destruct l as [|b l'].
      * cbn [insert_kv sorted_keys]. rewrite E. reflexivity.
      * cbn [sorted_keys] in H. apply andb_true_iff in H.
        destruct H as [Hab Hs]. specialize (IH Hs).
        cbn [insert_kv] in *.
        destruct (str_leb (fst kv) (fst b)) eqn:E2.
        -- cbn [sorted_keys]. rewrite E, E2. exact Hs.
        -- change (sorted_keys (a :: b :: insert_kv kv l') = true).
           cbn [sorted_keys]. cbn [sorted_keys] in IH.
           rewrite Hab. exact IH.
Qed.

Theorem items_sorted : forall d, sorted_keys (items d) = true.
Proof.
  induction d as [|kv d IH]; [reflexivity|].
  cbn [items fold_right]. apply insert_sorted. exact IH.
Qed.

Lemma insert_perm : forall kv l, Permutation (insert_kv kv l) (kv :: l).
Proof.
  intros kv l. induction l as [|a l IH]; cbn [insert_kv].
  - apply Permutation_refl.
  - destruct (str_leb (fst kv) (fst a)); [apply Permutation_refl|].
    apply perm_trans with (a :: kv :: l); [|apply perm_swap].
    apply perm_skip. exact IH.
Qed.

Theorem items_perm : forall d, Permutation (items d) d.
Proof.
  induction d as [|kv d IH]; [apply perm_nil|].
  cbn [items fold_right].
  apply perm_trans with (kv :: items d); [apply insert_perm|].
  apply perm_skip. exact IH.
Qed.

(* ------------------------------------------------------------------ *)
(* several assignments: frame and last-assignment properties            *)
(* ------------------------------------------------------------------ *)
Lemma str_eqb_neq : forall a b, a <> b -> str_eqb a b = false.
Proof.
  intros a b H. destruct (str_eqb a b) eqn:E; [|reflexivity].
  exfalso. apply H. apply str_eqb_eq. exact E.
Qed.

Lemma dget_dset_other : forall d k k2 v,
    k <> k2 -> dget (dset d k2 v) k = dget d k.
Proof.
  induction d as [|[k' v'] d IH]; intros k k2 v H; cbn [dset dget].
  - rewrite (str_eqb_neq k k2 H). reflexivity.
  - destruct (str_eqb k2 k') eqn:E; cbn [dget].
    + apply str_eqb_eq in E. subst k'.
      rewrite (str_eqb_neq k k2 H). reflexivity.
    + destruct (str_eqb k k'); [reflexivity|]. apply IH. exact H.
Qed.

Section Update.
  Variable tbl : list row.
  Variable feats : list str.

  Lemma setitem_frame : forall sec k v d d' ws k0,
      setitem tbl feats sec k v d = Done d' ws ->
      lower k <> k0 -> dget d' k0 = dget d k0.
  Proof.
    intros sec k v d d' ws k0 H Hne. rewrite setitem_eq in H.
    destruct (decode v) as [v1|e|]; try discriminate H.
    destruct (warns tbl feats sec (lower k) v1) as [|w0 ws0].
    - destruct (apply (func_of tbl sec (lower k)) v1) as [w|e|];
        try discriminate H.
      injection H as H _. subst d'. apply dget_dset_other.
      intro E. apply Hne. symmetry. exact E.
    - injection H as H _. subst d'. reflexivity.
  Qed.

  (* entries whose key is not assigned are left alone *)
  Theorem update_frame : forall sec items d d' ws k0,
      update tbl feats sec items d = Done d' ws ->
      (forall k v, In (k, v) items -> lower k <> k0) ->
      dget d' k0 = dget d k0.
  Proof.
    intros sec items. induction items as [|[k v] items IH];
      intros d d' ws k0 H Hk; cbn [update] in H.
    - injection H as H _. subst d'. reflexivity.
    - destruct (setitem tbl feats sec k v d) as [d1 ws1|e|] eqn:E1;
        try discriminate H.
      destruct (update tbl feats sec items d1) as [d2 ws2|e|] eqn:E2;
        try discriminate H.
      injection H as H _. subst d'.
      rewrite (IH d1 d2 ws2 k0 E2).
      + apply (setitem_frame _ _ _ _ _ _ _ E1). apply (Hk k v). left.
        reflexivity.
      + intros k' v' Hin. apply (Hk k' v'). right. exact Hin.
  Qed.

  (* the last assignment of a key decides what is stored: after an update
     that ends with (k, v), the entry is what the specification says *)
  Theorem update_last_wins : forall sec items k v d d' ws w,
      update tbl feats sec (items ++ [(k, v)]) d = Done d' ws ->
      spec_store tbl feats sec k v = Ok (Some w) ->
      dget d' (lower k) = Some w.
  Proof.
    intros sec items k v d d' ws w H Hs.
    rewrite update_app in H.
    destruct (update tbl feats sec items d) as [d1 ws1|e|]; try discriminate H.
    cbn [update] in H.
    pose proof (setitem_meets_spec tbl feats sec k v d1) as Hm.
    rewrite Hs in Hm. rewrite Hm in H.
    injection H as H _. subst d'. apply dget_dset.
  Qed.

  (* a rejected last assignment keeps what was there *)
  Theorem update_rejected_keeps : forall sec items k v d d' ws,
      update tbl feats sec (items ++ [(k, v)]) d = Done d' ws ->
      spec_store tbl feats sec k v = Ok None ->
      exists d1 ws1, update tbl feats sec items d = Done d1 ws1 /\ d' = d1.
  Proof.
    intros sec items k v d d' ws H Hs.
    rewrite update_app in H.
    destruct (update tbl feats sec items d) as [d1 ws1|e|]; try discriminate H.
    cbn [update] in H.
    pose proof (setitem_meets_spec tbl feats sec k v d1) as Hm.
    rewrite Hs in Hm. destruct Hm as [w0 [ws0 Hm]]. rewrite Hm in H.
    injection H as H _. exists d1, ws1. split; [reflexivity|].
    symmetry. exact H.
  Qed.

  (* Configuration level: section and key are case-insensitive *)
  Variable allsecs : list str.

  Theorem cfg_update_case_insensitive : forall sec sec' items c,
      lower sec = lower sec' ->
      cfg_update tbl feats sec items c = cfg_update tbl feats sec' items c.
  Proof. intros. unfold cfg_update. rewrite H. reflexivity. Qed.

  Theorem cfg_item_case_insensitive : forall sec sec' key key' v c,
      lower sec = lower sec' -> lower key = lower key' ->
      cfg_item tbl feats allsecs sec key v c
      = cfg_item tbl feats allsecs sec' key' v c.
  Proof.
    intros sec sec' key key' v c Hs Hk. unfold cfg_item, cfg_update.
    rewrite Hs. cbn [update].
    rewrite (setitem_case_insensitive tbl feats (lower sec') key key' v _ Hk).
    reflexivity.
  Qed.

  (* item assignment to an existing or known section is update with one
     entry, i.e. the dictionary-level assignment on that section *)
  Theorem cfg_item_is_setitem : forall sec key v c,
      (cget c (lower sec) <> None \/
       mem_str (lower sec) allsecs || str_eqb (lower sec) s_user = true) ->
      cfg_item tbl feats allsecs sec key v c =
      match setitem tbl feats (lower sec) key v
                    (match cget c (lower sec) with Some d => d | None => [] end)
      with
      | Done d' ws => CDone (cset c (lower sec) d') (ws ++ [])
      | Exc e => CExc e
      | OUnmod => CUnmod
      end.
  Proof.
    intros sec key v c H. unfold cfg_item.
    assert (cfg_update tbl feats sec [(key, v)] c =
            match setitem tbl feats (lower sec) key v
                    (match cget c (lower sec) with Some d => d | None => [] end)
            with
            | Done d' ws => CDone (cset c (lower sec) d') (ws ++ [])
            | Exc e => CExc e
            | OUnmod => CUnmod
            end) as E.
    { unfold cfg_update. cbn [update].
      destruct (setitem tbl feats (lower sec) key v _); reflexivity. }
    destruct (cget c (lower sec)) eqn:Ec.
    - exact E.
    - destruct H as [H|H]; [contradiction|]. rewrite H. exact E.
  Qed.

  (* a section of a configuration file whose lines are well-formed entries
     for known keys is the update with the (name, text) pairs, in order *)
  Definition good_entry (sec : str) (e : str * str * str) : Prop :=
    let '(line, rawvar, rawval) := e in
    let l := strip (before_hash line) in
    (starts_with [91] l && ends_with [93] l) = false /\
    count_c 61 rawvar = 0 /\ l = rawvar ++ 61 :: rawval /\
    lower (strip rawvar) <> [] /\
    key_exists tbl feats sec (lower (strip rawvar)) = true /\
    file_text rawval <> [].

  Theorem load_section_agrees : forall sec es d,
      Forall (good_entry sec) es ->
      load_section tbl feats sec (map (fun e => fst (fst e)) es) d
      = update tbl feats sec
               (map (fun e => (lower (strip (snd (fst e))),
                               VS (SStr (file_text (snd e))))) es) d.
  Proof.
    intros sec es. induction es as [|[[line rawvar] rawval] es IH];
      intros d Hg; cbn [map load_section update fst snd].
    - reflexivity.
    - inversion Hg as [|e0 es0 Hg1 Hg2]. subst.
      destruct Hg1 as [H1 [H2 [H3 [H4 [H5 H6]]]]].
      rewrite (line_route_agrees tbl feats sec line rawvar rawval d
                                 H1 H2 H3 H4 H5 H6).
      destruct (setitem tbl feats sec (lower (strip rawvar))
                        (VS (SStr (file_text rawval))) d) as [d1 ws1|e|];
        try reflexivity.
      rewrite (IH d1 Hg2). reflexivity.
  Qed.
End Update.

(* ------------------------------------------------------------------ *)
(* carry-over by export.hdf5 and the command-line tools                 *)
(* ------------------------------------------------------------------ *)
Lemma h5_idem : forall w x, h5 w = Ok x -> h5 x = Ok x.
Proof.
  intros w x H. destruct w as [y|t l|t l|d y|d l|d l]; cbn [h5] in H.
  - destruct y; try discriminate H.
    + destruct (forallb (fun c => negb (c =? 0)) s) eqn:E; [|discriminate H].
      injection H as H. subst x. cbn [h5]. rewrite E. reflexivity.
    + injection H as H. subst x. reflexivity.
    + destruct (int64_ok n) eqn:E; [|discriminate H].
      injection H as H. subst x. cbn [h5]. rewrite E. reflexivity.
    + injection H as H. subst x. reflexivity.
    + injection H as H. subst x. reflexivity.
    + destruct (int64_ok n) eqn:E; [|discriminate H].
      injection H as H. subst x. cbn [h5]. rewrite E. reflexivity.
    + injection H as H. subst x. reflexivity.
    + injection H as H. subst x. reflexivity.
  - destruct (seq_dtype l); [|discriminate H].
    injection H as H. subst x. reflexivity.
  - destruct l as [|r l']; [discriminate H|].
    destruct (all_len (length r) (r :: l')); [|discriminate H].
    destruct (seq_dtype (concat (r :: l'))); [|discriminate H].
    injection H as H. subst x. reflexivity.
  - destruct d.
    + injection H as H. subst x. reflexivity.
    + destruct y; try discriminate H.
      destruct (int64_ok (Z.quot m 8)) eqn:E; [|discriminate H].
      injection H as H. subst x. cbn [h5]. rewrite E. reflexivity.
    + injection H as H. subst x. reflexivity.
  - injection H as H. subst x. reflexivity.
  - injection H as H. subst x. reflexivity.
Qed.

Section Carry.
  Variable tbl : list row.
  Variable feats : list str.
  Variable sections : list str.

  (* keys with a converter: after any number of export hops the file holds
     exactly the normalised original *)
  Theorem carry_hops_stable : forall sec key v v1 w x,
      lower key = key ->
      str_eqb sec s_user = false ->
      mem_str sec sections = true ->
      key_exists tbl feats sec key = true ->
      roundtrippable (func_of tbl sec key) = true ->
      decode v = Ok v1 -> clean v1 = true ->
      apply (func_of tbl sec key) v1 = Ok w -> h5 w = Ok x ->
      forall n, carry_hops tbl feats sections n sec key v = Done [(key, w)] [].
  Proof.
    intros sec key v v1 w x Hl Hu Hs Hk Hr Ed Hc Ha Hx n.
    induction n as [|n IH]; cbn [carry_hops].
    - destruct (h5_route_agrees tbl feats sections sec key v v1 w x []
                                Hl Hu Hs Hk Hr Ed Hc Ha Hx) as [E1 E2].
      rewrite E1, E2. reflexivity.
    - rewrite IH. cbn [stored_of dget]. rewrite Hl, str_eqb_refl.
      pose proof (apply_clean _ _ _ Hc Ha) as Hcw.
      destruct (h5_route_agrees tbl feats sections sec key w w w x []
                  Hl Hu Hs Hk Hr (decode_of_clean w Hcw) Hcw
                  (apply_idempotent _ _ _ Ha) Hx) as [E1 E2].
      rewrite E1, E2. reflexivity.
  Qed.

  (* user-defined entries: what the first file holds is a fixed point of
     every further hop, and it compares equal to the original *)
  Theorem carry_hops_user_stable : forall key v v1 x,
      decode v = Ok v1 -> clean v1 = true -> h5 v1 = Ok x ->
      strip (lower key) <> [] ->
      (forall n, carry_hops tbl feats sections n s_user key v
                 = Done [(lower key, x)] []) /\
      (wf_arr0 v1 = true -> nf x = nf v1).
  Proof.
    intros key v v1 x Ed Hc Hx Hk.
    assert (Hcx : clean x = true) by (apply (h5_clean _ _ Hc Hx)).
    assert (Hset : forall y, clean y = true ->
              setitem tbl feats s_user key y [] = Done [(lower key, y)] []).
    { intros y Hy. rewrite setitem_eq, (decode_of_clean y Hy).
      assert (verify tbl feats s_user (lower key) = None) as Hv.
      { unfold verify, key_exists. rewrite str_eqb_refl.
        destruct (strip (lower key)); [contradiction|reflexivity]. }
      rewrite (warns_nil_clean _ _ _ _ _ Hv Hy).
      unfold func_of. rewrite str_eqb_refl. reflexivity. }
    split; [|intro Hwf; apply h5_preserves_value; assumption].
    induction n as [|n IH]; cbn [carry_hops].
    - unfold h5_route. rewrite Ed, str_eqb_refl, Hx. apply Hset. exact Hcx.
    - rewrite IH. cbn [stored_of dget]. rewrite str_eqb_refl.
      unfold h5_route. rewrite (decode_of_clean x Hcx), str_eqb_refl.
      rewrite (h5_idem _ _ Hx). apply Hset. exact Hcx.
  Qed.
End Carry.

(* ------------------------------------------------------------------ *)
(* audit 2: whole files, section assignment, number keys                 *)
(* ------------------------------------------------------------------ *)
Lemma cget_cset_same : forall c s d, cget (cset c s d) s = Some d.
Proof.
  induction c as [|[s' d'] c IH]; intros s d; cbn [cset cget].
  - rewrite str_eqb_refl. reflexivity.
  - destruct (str_eqb s s') eqn:E; cbn [cget]; rewrite E.
    + reflexivity.
    + apply IH.
Qed.

Definition dof (c : config) (s : str) : dict :=
  match cget c s with Some d => d | None => [] end.

Lemma dof_cset : forall c s d, dof (cset c s d) s = d.
Proof. intros. unfold dof. rewrite cget_cset_same. reflexivity. Qed.

Definition not_header (line : str) : Prop :=
  let l := strip (before_hash line) in
  (starts_with [91] l && ends_with [93] l) = false.

Section Files.
  Variable tbl : list row.
  Variable feats : list str.

  (* an entry before any section header is an error *)
  Theorem load_lines_entry_before_header : forall line rest c a b,
      not_header line ->
      strip (before_hash line) <> [] ->
      split_first 61 (strip (before_hash line)) = Some (a, b) ->
      load_lines tbl feats None (line :: rest) c = CExc EOther.
  Proof.
    intros line rest c a b Hh Hne Hs. cbn [load_lines].
    unfold not_header in Hh. cbv zeta in Hh.
    destruct (strip (before_hash line)) as [|c0 l] eqn:El; [contradiction|].
    rewrite Hh, Hs. reflexivity.
  Qed.

  (* below a header, the lines up to the next header are processed exactly
     like the dictionary-level fold [load_section] on that section
     (comments, blank lines and lines without "=" are skipped; repeated keys
     are assigned in file order, so the last one wins) *)
  Theorem load_lines_section : forall lines s c,
      Forall not_header lines ->
      match load_section tbl feats s lines (dof c s) with
      | Done d' ws =>
          exists c', load_lines tbl feats (Some s) lines c = CDone c' ws /\
                     dof c' s = d'
      | Exc e => load_lines tbl feats (Some s) lines c = CExc e
      | OUnmod => load_lines tbl feats (Some s) lines c = CUnmod
      end.
  Proof.
    induction lines as [|line rest IH]; intros s c Hall.
    - cbn [load_section load_lines]. exists c. split; reflexivity.
    - inversion Hall as [|x xs Hh Hrest]. subst.
      cbn [load_section load_lines].
      unfold not_header in Hh. cbv zeta in Hh.
      unfold line_route at 1.
      destruct (strip (before_hash line)) as [|c0 l] eqn:El.
      + specialize (IH s c Hrest).
        destruct (load_section tbl feats s rest (dof c s)) as [d' ws|e|];
          exact IH.
      + rewrite Hh.
        destruct (split_first 61 (c0 :: l)) as [[a b]|] eqn:Es.
        * fold (dof c s).
          assert (line_route tbl feats s line (dof c s)
                  = file_entry tbl feats s a b (dof c s)) as Elr.
          { unfold line_route. rewrite El, Hh, Es. reflexivity. }
          rewrite Elr.
          destruct (file_entry tbl feats s a b (dof c s)) as [d1 ws1|e|];
            try reflexivity.
          specialize (IH s (cset c s d1) Hrest). rewrite dof_cset in IH.
          destruct (load_section tbl feats s rest d1) as [d2 ws2|e|].
          -- destruct IH as [c' [E1 E2]]. exists c'. rewrite E1.
             split; [reflexivity|exact E2].
          -- rewrite IH. reflexivity.
          -- rewrite IH. reflexivity.
        * specialize (IH s c Hrest).
          destruct (load_section tbl feats s rest (dof c s)) as [d' ws|e|];
            exact IH.
  Qed.

  (* cfg[sec] = items: the last entry is stored as the specification says,
     whatever the section held before *)
  Theorem cfg_setsection_last_wins : forall sec items k v c c' ws w,
      cfg_setsection tbl feats sec (items ++ [(k, v)]) c = CDone c' ws ->
      spec_store tbl feats (lower sec) k v = Ok (Some w) ->
      dget (dof c' (lower sec)) (lower k) = Some w.
  Proof.
    intros sec items k v c c' ws w H Hs. unfold cfg_setsection in H.
    destruct (update tbl feats (lower sec) (items ++ [(k, v)]) [])
      as [d' ws'|e|] eqn:E; try discriminate H.
    injection H as H _. subst c'. rewrite dof_cset.
    apply (update_last_wins tbl feats (lower sec) items k v [] d' ws' w E Hs).
  Qed.

  (* ... and nothing of the old content survives: keys that are not assigned
     are absent afterwards *)
  Theorem cfg_setsection_replaces : forall sec items c c' ws k0,
      cfg_setsection tbl feats sec items c = CDone c' ws ->
      (forall k v, In (k, v) items -> lower k <> k0) ->
      dget (dof c' (lower sec)) k0 = None.
  Proof.
    intros sec items c c' ws k0 H Hk. unfold cfg_setsection in H.
    destruct (update tbl feats (lower sec) items []) as [d' ws'|e|] eqn:E;
      try discriminate H.
    injection H as H _. subst c'. rewrite dof_cset.
    rewrite (update_frame tbl feats (lower sec) items [] d' ws' k0 E Hk).
    reflexivity.
  Qed.
End Files.

(* online_filter "<feat> min/max" (fnumber): what comes back from the file
   converts to a number that compares equal (the Python type may change:
   bool -> float, int -> numpy integer) *)
Theorem attr_roundtrip_number : forall v w x,
    apply CFnumber v = Ok w -> h5 w = Ok x ->
    exists y, apply CFnumber x = Ok y /\ nf y = nf w.
Proof.
  intros v w x Ha Hx. cbn [apply] in *.
  pose proof (fnumber_out v w Ha) as Hn.
  destruct w as [s| | | | |]; try discriminate Hn.
  destruct s; try discriminate Hn; cbn [h5] in Hx.
  - injection Hx as Hx. subst x. eexists. split; [reflexivity|].
    destruct b; reflexivity.
  - destruct (int64_ok n); [|discriminate Hx]. injection Hx as Hx. subst x.
    eexists. split; reflexivity.
  - injection Hx as Hx. subst x. eexists. split; reflexivity.
  - destruct (int64_ok n); [|discriminate Hx]. injection Hx as Hx. subst x.
    eexists. split; reflexivity.
  - injection Hx as Hx. subst x. eexists. split; reflexivity.
  - injection Hx as Hx. subst x. eexists. split; reflexivity.
Qed.
