(* Facts about the generated tables (Gen/MetaTable.v, written by
   harness/translators/tables.py from the tree under test), swept completely
   by vm_compute, and the table-level versions of the theorems. *)
From Coq Require Import ZArith List Bool Lia.
From Verif Require Import Model.C11 Proofs.C11 Gen.MetaTable.
Import ListNotations.
Open Scope Z_scope.

(* every row names a converter whose results have a documented type *)
Definition row_types_ok (r : row) : bool :=
  negb (conv_eqb (r_conv r) CId) &&
  forallb (fun u => existsb (fun t => type_covers t u) (r_types r))
          (out_types (r_conv r)).

Lemma table_types_ok : forallb row_types_ok table = true.
Proof. vm_compute. reflexivity. Qed.

Theorem table_type_ok : forall r, In r table ->
    forall v w, not_bytes v = true -> apply (r_conv r) v = Ok w ->
                has_some_type (r_types r) w = true.
Proof.
  intros r Hin v w Hb Ha.
  pose proof table_types_ok as H. rewrite forallb_forall in H.
  specialize (H r Hin). unfold row_types_ok in H.
  apply andb_true_iff in H. destruct H as [Hc Hcov].
  apply covers_some_type with (us := out_types (r_conv r)); [exact Hcov|].
  apply apply_out_type with (v := v); [|exact Hb|exact Ha].
  intro E. rewrite E in Hc. discriminate Hc.
Qed.

(* every key of a section that is written to .rtdc files has a converter
   that survives the HDF5 attribute layer *)
Lemma table_meta_roundtrippable :
  forallb (fun r => negb (r_meta r) || roundtrippable (r_conv r)) table = true.
Proof. vm_compute. reflexivity. Qed.

Theorem table_attr_roundtrip : forall r, In r table -> r_meta r = true ->
    forall v w x, apply (r_conv r) v = Ok w -> h5 w = Ok x ->
                  apply (r_conv r) x = Ok w.
Proof.
  intros r Hin Hm v w x Ha Hx.
  pose proof table_meta_roundtrippable as H. rewrite forallb_forall in H.
  specialize (H r Hin). rewrite Hm in H. cbn [negb orb] in H.
  apply attr_roundtrip with (v := v); assumption.
Qed.

(* the rows are found under their own (lower-case) key, i.e. the table has
   no duplicate or mixed-case keys *)
Definition row_found (r : row) : bool :=
  match lookup_row table (r_sec r) (r_key r) with
  | Some r' => conv_eqb (r_conv r') (r_conv r)
  | None => false
  end && str_eqb (lower (r_key r)) (r_key r)
  && negb (str_eqb (r_sec r) s_user).

Lemma table_rows_found : forallb row_found table = true.
Proof. vm_compute. reflexivity. Qed.

Theorem table_key_conv : forall r, In r table ->
    key_exists table feats (r_sec r) (r_key r) = true /\
    func_of table (r_sec r) (r_key r) = r_conv r /\
    lower (r_key r) = r_key r.
Proof.
  intros r Hin. pose proof table_rows_found as H.
  rewrite forallb_forall in H. specialize (H r Hin). unfold row_found in H.
  apply andb_true_iff in H. destruct H as [H Hu].
  apply andb_true_iff in H. destruct H as [Hf Hl].
  apply negb_true_iff in Hu. apply str_eqb_eq in Hl.
  unfold key_exists, func_of. rewrite Hu.
  destruct (lookup_row table (r_sec r) (r_key r)) as [r'|]; [|discriminate Hf].
  apply conv_eqb_eq in Hf. repeat split; assumption.
Qed.

(* the pattern rules of meta_logic (config_key_exists,
   get_config_value_func, get_config_value_type), probed on the real code by
   the translator, agree with the model *)
Definition types_eqb (a b : list pytype) : bool :=
  (length a =? length b)%nat &&
  forallb (fun p => pytype_eqb (fst p) (snd p)) (combine a b).

Definition probe_ok (p : list Z * list Z * bool * conv * list pytype) : bool :=
  let '(sec, key, ex, c, tys) := p in
  Bool.eqb (key_exists table feats sec key) ex &&
  conv_eqb (func_of table sec key) c &&
  types_eqb (types_of table sec key) tys.

Lemma probes_agree : forallb probe_ok probes = true.
Proof. vm_compute. reflexivity. Qed.

(* table-level statement of idempotence: assigning to any key of the table
   (with whatever dictionary content) is idempotent *)
Theorem table_assignment_idempotent : forall sec key v d d',
    setitem table feats sec key v d = Done d' [] ->
    exists w, dget d' (lower key) = Some w /\
              setitem table feats sec key w d' = Done d' [].
Proof. exact (setitem_idempotent table feats). Qed.

Lemma lookup_row_in' : forall l sec key r,
    lookup_row l sec key = Some r -> In r l.
Proof.
  induction l as [|r0 l IH]; intros sec key r H; cbn [lookup_row] in H.
  - discriminate H.
  - destruct (str_eqb (r_sec r0) sec && str_eqb (r_key r0) key).
    + injection H as H. subst r0. left. reflexivity.
    + right. apply IH with (sec := sec) (key := key). exact H.
Qed.

(* every key that has a documented type (table keys and the pattern keys
   "<feat> soft limit", "<f1>,<f2> polygon points", "<feat> min/max"): the
   stored value has that type *)
Theorem all_keys_type_ok : forall sec key v w,
    types_of table sec key <> [] -> not_bytes v = true ->
    apply (func_of table sec key) v = Ok w ->
    has_some_type (types_of table sec key) w = true.
Proof.
  intros sec key v w Ht Hb Ha. unfold types_of, func_of in *.
  destruct (str_eqb sec s_user); [contradiction Ht; reflexivity|].
  destruct (lookup_row table sec key) as [r|] eqn:El.
  - apply (table_type_ok r (lookup_row_in' _ _ _ _ El) v w Hb Ha).
  - destruct (str_eqb sec s_online_filter); [|contradiction Ht; reflexivity].
    destruct (ends_with s_soft_limit key).
    + destruct (fbool_out v w Ha) as [b Hw]. subst w. reflexivity.
    + destruct (ends_with s_polygon_points key).
      * destruct (f2d_out v w Ha) as [[x Hx]|[[l Hl]|[l Hl]]]; subst w;
          reflexivity.
      * destruct (ends_with [109; 105; 110] key || ends_with [109; 97; 120] key).
        -- pose proof (fnumber_out v w Ha) as Hn.
           destruct w as [x| | | | |]; try discriminate Hn.
           destruct x; try discriminate Hn; reflexivity.
        -- contradiction Ht. reflexivity.
Qed.

(* ------------------------------------------------------------------ *)
(* non-vacuity: concrete inputs that meet the hypotheses                *)
(* ------------------------------------------------------------------ *)
From Coq Require Import String.
Open Scope string_scope.

(* "0" -> [0] -> [0]  (the zero used to be dropped on the second pass) *)
Example ex_fintlist_zero :
  apply CFintlist (VS (SStr (codes "0"))) = Ok (VSeq false [SInt 0]) /\
  apply CFintlist (VSeq false [SInt 0]) = Ok (VSeq false [SInt 0]).
Proof. vm_compute. split; reflexivity. Qed.

Example ex_setitem_polygon_filters :
  setitem table feats (codes "filtering") (codes "Polygon Filters")
          (VS (SStr (codes "[0, 1]"))) []
  = Done [(codes "polygon filters", VSeq false [SInt 0; SInt 1])] [].
Proof. vm_compute. reflexivity. Qed.

Example ex_setitem_float_text :
  setitem table feats (codes "setup") (codes "Channel Width")
          (VS (SStr (codes " 2.5e1 "))) []
  = Done [(codes "channel width", VS (SFloat (FFin 200)))] [].
Proof. vm_compute. reflexivity. Qed.

Example ex_reject_unknown :
  setitem table feats (codes "setup") (codes "peter") (VS (SInt 1)) []
  = Done [] [WUnknown].
Proof. vm_compute. reflexivity. Qed.

Example ex_reject_empty_and_none :
  setitem table feats (codes "setup") (codes "medium") (VS (SStr [])) []
  = Done [] [WEmpty] /\
  setitem table feats (codes "setup") (codes "medium") (VS SNone) []
  = Done [] [WBadValue].
Proof. vm_compute. split; reflexivity. Qed.

Example ex_reject_malformed_pattern :
  setitem table feats (codes "online_filter")
          (codes "area_um,deform,bright_avg soft limit") (VS (SBool true)) []
  = Done [] [WUnknown].
Proof. vm_compute. reflexivity. Qed.

Example ex_file_route :
  file_route table feats (codes "imaging") (codes "Pixel Size ")
             (codes "'0.5'") []
  = Done [(codes "pixel size", VS (SFloat (FFin 4)))] [] /\
  key_exists table feats (codes "imaging") (lower (strip (codes "Pixel Size ")))
  = true /\ file_text (codes " '0.5'") = codes "0.5".
Proof. vm_compute. repeat split; reflexivity. Qed.

(* a value that contains "=", ":", "[" and a "#" comment after it *)
Example ex_line_route_equals_in_value :
  line_route table feats (codes "pipeline")
             (codes "dcnum segmenter = thresh:t=-6:cle=1^f=[1]  # note") []
  = Done [(codes "dcnum segmenter",
           VS (SStr (codes "thresh:t=-6:cle=1^f=[1]")))] [] /\
  split_first 61 (codes "dcnum segmenter = thresh:t=-6:cle=1^f=[1]")
  = Some (codes "dcnum segmenter ", codes " thresh:t=-6:cle=1^f=[1]").
Proof. vm_compute. split; reflexivity. Qed.

(* save + load of such a value *)
Example ex_save_load :
  save_load_route table feats (codes "experiment") (codes "Sample")
                  (VS (SStr (codes "dilution c=0.5 mg/mL, [a]: 'x'")))
  = inl (Done [(codes "sample",
                VS (SStr (codes "dilution c=0.5 mg/mL, [a]: 'x")))] []).
Proof. vm_compute. reflexivity. Qed.

(* scale to filter = True survives the file (np.bool_ used to be refused) *)
Example ex_h5_route_bool :
  h5_route table feats meta_sections (codes "qpi") (codes "scale to filter")
           (VS (SBool true)) []
  = Done [(codes "scale to filter", VS (SBool true))] [] /\
  h5 (VS (SBool true)) = Ok (VS (SNpBool true)).
Proof. vm_compute. split; reflexivity. Qed.

Example ex_h5_route_duple :
  h5_route table feats meta_sections (codes "qpi") (codes "sideband freq")
           (VSeq false [SInt 1; SStr (codes "2.5")]) []
  = Done [(codes "sideband freq",
           VSeq true [SFloat (FFin 8); SFloat (FFin 20)])] [].
Proof. vm_compute. reflexivity. Qed.

(* a user key with a colon and a list value *)
Example ex_h5_route_user :
  h5_route table feats meta_sections (codes "user") (codes "A:b")
           (VSeq false [SInt 1; SFloat (FFin 20)]) []
  = Done [(codes "a:b", VArr1 DF64 [FFin 8; FFin 20])] [] /\
  nf (VArr1 DF64 [FFin 8; FFin 20]) = nf (VSeq false [SInt 1; SFloat (FFin 20)]).
Proof. vm_compute. split; reflexivity. Qed.

Lemma lookup_row_in : forall l sec key r,
    lookup_row l sec key = Some r -> In r l.
Proof.
  induction l as [|r0 l IH]; intros sec key r H; cbn [lookup_row] in H.
  - discriminate H.
  - destruct (str_eqb (r_sec r0) sec && str_eqb (r_key r0) key).
    + injection H as H. subst r0. left. reflexivity.
    + right. apply IH with (sec := sec) (key := key). exact H.
Qed.

Example ex_table_row :
  In (R "qpi" "scale to filter" CFboolorfloat [TBool; TNpBool; TFloat] true)
     table.
Proof.
  apply lookup_row_in with (sec := codes "qpi") (key := codes "scale to filter").
  vm_compute. reflexivity.
Qed.

(* the online_filter range keys convert text to numbers and keep numbers *)
Example ex_minmax_number :
  setitem table feats (codes "online_filter") (codes "Deform Min")
          (VS (SStr (codes "0.5"))) []
  = Done [(codes "deform min", VS (SFloat (FFin 4)))] [] /\
  setitem table feats (codes "online_filter") (codes "deform max")
          (VS (SInt 1)) []
  = Done [(codes "deform max", VS (SInt 1))] [] /\
  types_of table (codes "online_filter") (codes "deform min") = [TNumber].
Proof. vm_compute. repeat split; reflexivity. Qed.

(* section names in any case *)
Example ex_cfg_section_case :
  cfg_item table feats sections (codes "SETUP") (codes "Channel Width")
           (VS (SStr (codes "20"))) []
  = CDone [(codes "setup", [(codes "channel width", VS (SFloat (FFin 160)))])]
          [] /\
  cfg_update table feats (codes "Peter") [(codes "x", VS (SInt 1))] []
  = CDone [(codes "peter", [])] [WUnknown] /\
  cfg_item table feats sections (codes "peter") (codes "x") (VS (SInt 1)) []
  = CExc EKey.
Proof. vm_compute. repeat split; reflexivity. Qed.

(* a whole file: two sections, a repeated key, a comment, an invalid line *)
Example ex_load_lines :
  load_lines table feats None
    [codes "# comment"; codes "[Setup]"; codes "channel width = 20";
     codes "medium = a=b"; codes "no equal sign";
     codes "[imaging]"; codes "pixel size = 0.5"; codes "[setup]";
     codes "channel width = 30"] []
  = CDone [(codes "setup", [(codes "channel width", VS (SFloat (FFin 240)));
                            (codes "medium", VS (SStr (codes "a=b")))]);
           (codes "imaging", [(codes "pixel size", VS (SFloat (FFin 4)))])] []
  /\ load_lines table feats None [codes "a = 1"] [] = CExc EOther.
Proof. vm_compute. split; reflexivity. Qed.

Example ex_good_entry :
  good_entry table feats (codes "setup")
             (codes "Medium = a=b # c", codes "Medium ", codes " a=b").
Proof.
  unfold good_entry. repeat split; try (vm_compute; reflexivity);
    vm_compute; discriminate.
Qed.

(* three export hops of a value that needs conversion *)
Example ex_carry_hops :
  carry_hops table feats meta_sections 3 (codes "imaging") (codes "pixel size")
             (VS (SStr (codes "0.5")))
  = Done [(codes "pixel size", VS (SFloat (FFin 4)))] [] /\
  carry_hops table feats meta_sections 3 (codes "user") (codes "A:b")
             (VSeq false [SInt 1; SInt 2])
  = Done [(codes "a:b", VArr1 DInt [FFin 8; FFin 16])] [].
Proof. vm_compute. split; reflexivity. Qed.

(* section assignment replaces the section and converts its entries *)
Example ex_section_assignment :
  cfg_setsection table feats (codes "Setup")
    [(codes "Channel Width", VS (SStr (codes "20")));
     (codes "peter", VS SNone)]
    [(codes "setup", [(codes "medium", VS (SStr (codes "old")))])]
  = CDone [(codes "setup", [(codes "channel width", VS (SFloat (FFin 160)))])]
          [WUnknown; WBadValue].
Proof. vm_compute. reflexivity. Qed.

Example ex_not_header_and_entry_before_header :
  not_header (codes "a = 1") /\
  split_first 61 (strip (before_hash (codes "a = 1")))
  = Some (codes "a ", codes " 1").
Proof. split; vm_compute; reflexivity. Qed.

Example ex_number_roundtrip :
  apply CFnumber (VS (SBool true)) = Ok (VS (SBool true)) /\
  h5 (VS (SBool true)) = Ok (VS (SNpBool true)) /\
  apply CFnumber (VS (SNpBool true)) = Ok (VS (SFloat (FFin 8))).
Proof. vm_compute. repeat split; reflexivity. Qed.
