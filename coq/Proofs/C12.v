(* Proofs about the model of the filtered analysis entry points
   (Model/C12.v). *)
From Coq Require Import ZArith List Bool Lia ZifyBool ZifyNat.
From Verif Require Import Model.C12.
Import ListNotations.
Open Scope Z_scope.
Ltac Zify.zify_post_hook ::= Z.div_mod_to_equations.

(* two data columns agree on the events selected by the mask *)
Definition agree {A} (m : list bool) (xs xs' : list A) : Prop :=
  forall i : nat, nth i m false = true -> nth_error xs i = nth_error xs' i.

(* ---- select ------------------------------------------------------------ *)

Lemma select_nil_r {A} (m : list bool) : select m (@nil A) = [].
Proof. destruct m; reflexivity. Qed.

Lemma select_ext {A} (m : list bool) : forall xs xs' : list A,
  agree m xs xs' -> select m xs = select m xs'.
Proof.
  induction m as [|b m IH]; intros xs xs' H; [reflexivity|].
  assert (Ht : agree m (tl xs) (tl xs')).
  { intros i Hi. specialize (H (S i) Hi).
    destruct xs, xs'; simpl in *; try rewrite !nth_error_nil_any; auto;
      destruct i; auto. }
  destruct b.
  - specialize (H 0%nat eq_refl).
    destruct xs as [|x xs], xs' as [|y ys]; simpl in *; try discriminate;
      [reflexivity|].
    injection H as ->. f_equal. now apply IH.
  - destruct xs as [|x xs], xs' as [|y ys]; simpl in *.
    + reflexivity.
    + rewrite <- (IH [] ys Ht). now rewrite select_nil_r.
    + rewrite (IH xs [] Ht). now rewrite select_nil_r.
    + now apply IH.
Qed.

Lemma select_all_true_gen {A B} (l : list A) : forall l' : list B,
  length l = length l' -> select (all_true l) l' = l'.
Proof.
  induction l as [|a l IH]; intros [|b l'] H; simpl in *; try discriminate;
    [reflexivity|]. f_equal. apply IH. lia.
Qed.

Lemma select_all_true {A} (l : list A) : select (all_true l) l = l.
Proof. now apply select_all_true_gen. Qed.

Lemma select_length_eq {A B} (m : list bool) : forall (xs : list A)
  (ys : list B), length xs = length ys ->
  length (select m xs) = length (select m ys).
Proof.
  induction m as [|b m IH]; intros [|x xs] [|y ys] H; simpl in *;
    try discriminate; try reflexivity.
  destruct b; simpl; [f_equal|]; apply IH; lia.
Qed.

Lemma countp_nonneg {A} (p : A -> bool) l : 0 <= countp p l.
Proof. induction l as [|a l IH]; simpl; [lia|]. destruct (p a); lia. Qed.

Lemma countp_le_len {A} (p : A -> bool) l : countp p l <= zlen l.
Proof.
  unfold zlen. induction l as [|a l IH]; simpl length; simpl countp; [lia|].
  destruct (p a); lia.
Qed.

Lemma select_count {A} (m : list bool) : forall xs : list A,
  length m = length xs -> zlen (select m xs) = countp (fun b => b) m.
Proof.
  unfold zlen.
  induction m as [|b m IH]; intros [|x xs] H; simpl in *; try discriminate;
    [reflexivity|].
  assert (Hl : length m = length xs) by lia. specialize (IH xs Hl).
  destruct b; simpl length; lia.
Qed.

Lemma countp_all_true {A} (l : list A) :
  countp (fun b => b) (all_true l) = zlen l.
Proof.
  unfold zlen. induction l as [|a l IH]; [reflexivity|].
  cbn [all_true map countp length]. unfold all_true in IH. rewrite IH. lia.
Qed.

Lemma select_map {A B} (f : A -> B) (m : list bool) : forall xs,
  select m (map f xs) = map f (select m xs).
Proof.
  induction m as [|b m IH]; intros [|x xs]; simpl; try reflexivity.
  destruct b; simpl; now rewrite IH.
Qed.

(* ---- insertion sort ---------------------------------------------------- *)

Fixpoint sorted (l : list Z) : Prop :=
  match l with
  | [] => True
  | a :: t => (forall x, In x t -> a <= x) /\ sorted t
  end.

Lemma insert_In a l x : In x (insert a l) <-> x = a \/ In x l.
Proof.
  induction l as [|b t IH]; simpl.
  - intuition.
  - destruct (a <=? b); simpl; [intuition|]. rewrite IH. intuition.
Qed.

Lemma insert_sorted a l : sorted l -> sorted (insert a l).
Proof.
  induction l as [|b t IH]; simpl.
  - intros _. split; [intros x []|exact I].
  - intros [Hb Ht]. destruct (a <=? b) eqn:E.
    + simpl. split; [|split; assumption].
      intros x [<-|Hx]; [lia|]. specialize (Hb x Hx). lia.
    + simpl. split; [|now apply IH].
      intros x Hx. apply insert_In in Hx. destruct Hx as [->|Hx]; [lia|].
      now apply Hb.
Qed.

Lemma isort_sorted l : sorted (isort l).
Proof.
  induction l as [|a l IH]; simpl; [exact I|]. now apply insert_sorted.
Qed.

Lemma countp_insert (p : Z -> bool) a l :
  countp p (insert a l) = countp p (a :: l).
Proof.
  induction l as [|b t IH]; simpl; [reflexivity|].
  destruct (a <=? b); simpl; [reflexivity|]. rewrite IH. simpl. lia.
Qed.

Lemma countp_isort (p : Z -> bool) l : countp p (isort l) = countp p l.
Proof.
  induction l as [|a l IH]; simpl; [reflexivity|].
  rewrite countp_insert. simpl. now rewrite IH.
Qed.

Lemma length_insert a l : length (insert a l) = S (length l).
Proof.
  induction l as [|b t IH]; simpl; [reflexivity|].
  destruct (a <=? b); simpl; [reflexivity|]. now rewrite IH.
Qed.

Lemma length_isort l : length (isort l) = length l.
Proof.
  induction l as [|a l IH]; simpl; [reflexivity|].
  rewrite length_insert. now rewrite IH.
Qed.

Lemma zlen_isort l : zlen (isort l) = zlen l.
Proof. unfold zlen. now rewrite length_isort. Qed.

Lemma isort_In l x : In x (isort l) <-> In x l.
Proof.
  induction l as [|a l IH]; simpl; [tauto|].
  rewrite insert_In, IH. intuition.
Qed.

Lemma sorted_nth_mono s : sorted s -> forall i j : nat,
  (i <= j)%nat -> (j < length s)%nat -> nth i s 0 <= nth j s 0.
Proof.
  induction s as [|a t IH]; intros Hs i j Hij Hj; simpl in Hj; [lia|].
  destruct Hs as [Ha Ht].
  destruct i as [|i], j as [|j]; simpl; try lia.
  - apply Ha. apply nth_In. lia.
  - apply IH; auto; lia.
Qed.

(* ---- order statistics of a sorted sample ------------------------------- *)

Definition down_closed (f : Z -> bool) : Prop :=
  forall x y, x <= y -> f y = true -> f x = true.

Lemma countp_none {A} (f : A -> bool) l :
  (forall x, In x l -> f x = false) -> countp f l = 0.
Proof.
  induction l as [|a l IH]; intros H; simpl; [reflexivity|].
  rewrite (H a (or_introl eq_refl)). rewrite IH; [lia|].
  intros x Hx. apply H. now right.
Qed.

Lemma sorted_count_le f s : down_closed f -> sorted s -> forall k : nat,
  (k < length s)%nat -> f (nth k s 0) = false -> countp f s <= Z.of_nat k.
Proof.
  intros Hf. induction s as [|a t IH]; intros Hs k Hk Hfk; simpl in Hk; [lia|].
  destruct Hs as [Ha Ht]. destruct k as [|k]; simpl in Hfk.
  - simpl. rewrite Hfk. rewrite countp_none; [lia|].
    intros x Hx. destruct (f x) eqn:E; [|reflexivity].
    rewrite (Hf a x (Ha x Hx) E) in Hfk. discriminate.
  - simpl countp. assert (Hk' : (k < length t)%nat) by lia.
    specialize (IH Ht k Hk' Hfk). destruct (f a); lia.
Qed.

Lemma sorted_count_ge f s : down_closed f -> sorted s -> forall k : nat,
  (k < length s)%nat -> f (nth k s 0) = true -> Z.of_nat k + 1 <= countp f s.
Proof.
  intros Hf. induction s as [|a t IH]; intros Hs k Hk Hfk; simpl in Hk; [lia|].
  destruct Hs as [Ha Ht]. destruct k as [|k]; simpl in Hfk.
  - simpl. rewrite Hfk. pose proof (countp_nonneg f t). lia.
  - simpl countp. assert (Hk' : (k < length t)%nat) by lia.
    specialize (IH Ht k Hk' Hfk).
    assert (Hin : In (nth k t 0) t) by (apply nth_In; lia).
    rewrite (Hf a _ (Ha _ Hin) Hfk). lia.
Qed.

Lemma countp_compl {A} (g h : A -> bool) l :
  (forall x, g x = negb (h x)) -> countp g l = zlen l - countp h l.
Proof.
  intros H. unfold zlen. induction l as [|a l IH]; simpl length; simpl countp;
    [lia|]. rewrite (H a). destruct (h a); cbn [negb]; lia.
Qed.

(* ---- np.percentile (linear interpolation) ------------------------------ *)

Lemma nthZ_nat s i : 0 <= i -> nthZ s i = nth (Z.to_nat i) s 0.
Proof. reflexivity. Qed.

Section Percentile.
  Variables a b : Z.
  Hypothesis Ha : 0 <= a <= b.
  Hypothesis Hb : 0 < b.

  Lemma perc_lo_range n : 0 < n ->
    0 <= perc_lo a b n <= n - 1 /\ 0 <= perc_rem a b n < b /\
    b * perc_lo a b n + perc_rem a b n = a * (n - 1) /\
    (perc_lo a b n = n - 1 -> perc_rem a b n = 0).
  Proof.
    intros Hn. unfold perc_lo, perc_rem.
    pose proof (Z.div_mod (a * (n - 1)) b ltac:(lia)) as Hdm.
    pose proof (Z.mod_pos_bound (a * (n - 1)) b Hb) as Hr.
    set (q := a * (n - 1) / b) in *. set (r := (a * (n - 1)) mod b) in *.
    assert (0 <= a * (n - 1)) by nia.
    assert (a * (n - 1) <= b * (n - 1)) by nia.
    assert (0 <= q) by nia.
    assert (q <= n - 1) by nia.
    repeat split; try lia; try (intros ->; nia).
  Qed.

  (* the sorted-sample statement *)
  Lemma perc_sorted_brackets s : sorted s -> 0 < zlen s ->
    let P := perc_sorted a b s in
    countp (fun x => b * x <? P) s <= perc_lo a b (zlen s) + 1 /\
    perc_lo a b (zlen s) + 1 <= countp (fun x => b * x <=? P) s.
  Proof.
    intros Hs Hn P.
    destruct (perc_lo_range (zlen s) Hn) as (Hlo & Hr & Heq & Hlast).
    unfold P, perc_sorted. set (lo := perc_lo a b (zlen s)) in *.
    set (r := perc_rem a b (zlen s)) in *.
    unfold zlen in *.
    assert (Hmono : (Z.to_nat lo + 1 < length s)%nat ->
                    nthZ s lo <= nthZ s (lo + 1)).
    { intros H. unfold nthZ. apply sorted_nth_mono; auto; lia. }
    set (Pv := b * nthZ s lo + r * (nthZ s (lo + 1) - nthZ s lo)).
    split.
    - destruct (Z_lt_dec (lo + 1) (Z.of_nat (length s))) as [Hlt|Hge].
      + assert (Hc : countp (fun x => b * x <? Pv) s
                     <= Z.of_nat (Z.to_nat (lo + 1))); [|lia].
        apply sorted_count_le; auto; try lia.
        * intros x y Hxy Hy. nia.
        * fold (nthZ s (lo + 1)).
          assert (nthZ s lo <= nthZ s (lo + 1)) by (apply Hmono; lia).
          apply Z.ltb_ge. unfold Pv. nia.
      + pose proof (countp_le_len (fun x => b * x <? Pv) s) as Hc.
        unfold zlen in Hc. lia.
    - assert (Hc : Z.of_nat (Z.to_nat lo) + 1
                   <= countp (fun x => b * x <=? Pv) s); [|lia].
      apply sorted_count_ge; auto; try lia.
      + intros x y Hxy Hy. nia.
      + fold (nthZ s lo).
        destruct (Z_lt_dec (lo + 1) (Z.of_nat (length s))) as [Hlt|Hge].
        * assert (nthZ s lo <= nthZ s (lo + 1)) by (apply Hmono; lia).
          apply Z.leb_le. unfold Pv. nia.
        * assert (r = 0) by (apply Hlast; lia). apply Z.leb_le. unfold Pv. nia.
  Qed.

  (* np.percentile(d, 100*a/b) = P/b: the number of sample values below P/b
     is at most floor(q(n-1))+1 and the number of values <= P/b is at least
     that; in particular the fraction below is q up to one event *)
  Lemma percentile_brackets d : 0 < zlen d ->
    let P := perc_lin a b d in
    let n := zlen d in
    b * countp (fun x => b * x <? P) d <= a * n + (b - a) /\
    a * n - a < b * countp (fun x => b * x <=? P) d.
  Proof.
    intros Hn P n. unfold P, perc_lin.
    pose proof (perc_sorted_brackets (isort d) (isort_sorted d)) as H.
    rewrite zlen_isort in H. specialize (H Hn). cbv zeta in H.
    rewrite !countp_isort in H.
    destruct (perc_lo_range (zlen d) Hn) as (Hlo & Hr & Heq & _).
    fold n in H, Hlo, Hr, Heq. destruct H as [H1 H2]. split; nia.
  Qed.

  (* the level is one of the sample values or lies between two neighbours *)
  Lemma perc_between d : 0 < zlen d ->
    exists lo hi, In lo d /\ In hi d /\
                  b * lo <= perc_lin a b d <= b * hi.
  Proof.
    intros Hn. unfold perc_lin, perc_sorted. rewrite zlen_isort.
    destruct (perc_lo_range (zlen d) Hn) as (Hlo & Hr & Heq & Hlast).
    set (lo := perc_lo a b (zlen d)) in *.
    set (r := perc_rem a b (zlen d)) in *.
    set (s := isort d).
    assert (Hlen : length s = length d) by apply length_isort.
    unfold zlen in *.
    assert (Hin : In (nthZ s lo) d).
    { apply isort_In. apply nth_In. rewrite length_isort. lia. }
    destruct (Z_lt_dec (lo + 1) (Z.of_nat (length d))) as [Hlt|Hge].
    - exists (nthZ s lo), (nthZ s (lo + 1)). split; [exact Hin|]. split.
      + apply isort_In. apply nth_In. rewrite length_isort. lia.
      + assert (nthZ s lo <= nthZ s (lo + 1)).
        { unfold nthZ. apply sorted_nth_mono; [apply isort_sorted|lia|fold s; lia]. }
        nia.
    - exists (nthZ s lo), (nthZ s lo). split; [exact Hin|]. split; [exact Hin|].
      assert (r = 0) by (apply Hlast; lia). nia.
  Qed.
End Percentile.

(* the bracket without the one-event slack is false for numpy's definition:
   n = 3, q = 1/10 gives a level strictly above the smallest value *)
Lemma percentile_brackets_noslack_refuted :
  exists a b d, 0 <= a <= b /\ 0 < b /\ 0 < zlen d /\
    ~ (b * countp (fun x => b * x <? perc_lin a b d) d <= a * zlen d).
Proof.
  exists 1, 10, [0; 8; 16]. repeat split; try lia.
  vm_compute. intros H. apply H. reflexivity.
Qed.

Example percentile_example :
  perc_lin 1 2 [24; 8; 16; 0] = 2 * 12 /\ perc_lin 3 4 [0; 8; 16; 24; 40] = 4 * 24.
Proof. split; reflexivity. Qed.

(* ---- median ------------------------------------------------------------- *)

Lemma median_order d : 0 < zlen d ->
  2 * countp (fun x => 2 * x <? median16 d) d <= zlen d /\
  2 * countp (fun x => median16 d <? 2 * x) d <= zlen d.
Proof.
  intros Hn.
  rewrite (countp_compl (fun x => median16 d <? 2 * x)
                        (fun x => 2 * x <=? median16 d)) by (intros x; lia).
  rewrite <- (countp_isort (fun x => 2 * x <? median16 d)).
  rewrite <- (countp_isort (fun x => 2 * x <=? median16 d)).
  unfold median16. set (s := isort d).
  assert (Hs : sorted s) by apply isort_sorted.
  assert (Hlen : length s = length d) by apply length_isort.
  set (n := zlen d) in *. unfold zlen in n.
  destruct (Z.even n) eqn:E.
  - apply Z.even_spec in E. destruct E as [m Hm].
    assert (Hdiv : n / 2 = m) by lia. rewrite Hdiv.
    assert (Hmono : nthZ s (m - 1) <= nthZ s m).
    { unfold nthZ. apply sorted_nth_mono; auto; lia. }
    split.
    + assert (countp (fun x => 2 * x <? nthZ s (m - 1) + nthZ s m) s
              <= Z.of_nat (Z.to_nat m)); [|lia].
      apply sorted_count_le; auto; try lia.
      * intros x y Hxy Hy. lia.
      * fold (nthZ s m). lia.
    + assert (Z.of_nat (Z.to_nat (m - 1)) + 1
              <= countp (fun x => 2 * x <=? nthZ s (m - 1) + nthZ s m) s);
        [|lia].
      apply sorted_count_ge; auto; try lia.
      * intros x y Hxy Hy. lia.
      * fold (nthZ s (m - 1)). lia.
  - rewrite <- Z.negb_odd in E. apply negb_false_iff in E.
    apply Z.odd_spec in E. destruct E as [m Hm].
    assert (Hdiv : n / 2 = m) by lia. rewrite Hdiv.
    split.
    + assert (countp (fun x => 2 * x <? 2 * nthZ s m) s
              <= Z.of_nat (Z.to_nat m)); [|lia].
      apply sorted_count_le; auto; try lia.
      * intros x y Hxy Hy. lia.
      * fold (nthZ s m). lia.
    + assert (Z.of_nat (Z.to_nat m) + 1
              <= countp (fun x => 2 * x <=? 2 * nthZ s m) s); [|lia].
      apply sorted_count_ge; auto; try lia.
      * intros x y Hxy Hy. lia.
      * fold (nthZ s m). lia.
Qed.

Example median_example :
  median16 [24; 8; 16; 0] = 2 * 12 /\ median16 [40; 8; 16] = 2 * 16.
Proof. split; reflexivity. Qed.

(* ---- mean --------------------------------------------------------------- *)

Lemma zsum_bounds lo hi d : (forall x, In x d -> lo <= x <= hi) ->
  zlen d * lo <= zsum d <= zlen d * hi.
Proof.
  unfold zlen. induction d as [|a d IH]; intros H; simpl length; simpl zsum;
    [lia|].
  assert (Ha : lo <= a <= hi) by (apply H; now left).
  assert (Hd : forall x, In x d -> lo <= x <= hi) by (intros x Hx; apply H; now right).
  specialize (IH Hd). lia.
Qed.

Lemma zsum_insert a l : zsum (insert a l) = a + zsum l.
Proof.
  induction l as [|b t IH]; simpl; [reflexivity|].
  destruct (a <=? b); simpl; [reflexivity|]. rewrite IH. lia.
Qed.

(* the mean does not depend on the order of the events *)
Lemma zsum_isort l : zsum (isort l) = zsum l.
Proof.
  induction l as [|a l IH]; simpl; [reflexivity|].
  rewrite zsum_insert. now rewrite IH.
Qed.

(* ---- SD (np.std): variance = var_num d / (64 n^2) ------------------------ *)

Lemma zsum_sq_dev (m t : Z) (d : list Z) :
  zsum (map (fun x => (m * x - t) * (m * x - t)) d)
  = m * m * zsum (map (fun x => x * x) d) - 2 * m * t * zsum d
    + zlen d * t * t.
Proof.
  unfold zlen. induction d as [|a d IH]; simpl length; simpl zsum; simpl map;
    [lia|].
  simpl zsum. rewrite IH. lia.
Qed.

(* definition: n * var_num = sum (n*x - sum)^2, i.e. var_num/n^2 is the mean
   squared deviation from the mean *)
Lemma var_num_definition d :
  zlen d * var_num d
  = zsum (map (fun x => (zlen d * x - zsum d) * (zlen d * x - zsum d)) d).
Proof. rewrite zsum_sq_dev. unfold var_num. lia. Qed.

Lemma zsum_sq_nonneg (f : Z -> Z) d : 0 <= zsum (map (fun x => f x * f x) d).
Proof. induction d as [|a d IH]; simpl; [lia|]. nia. Qed.

Lemma var_num_nonneg d : 0 <= var_num d.
Proof.
  destruct d as [|a d]; [unfold var_num, zlen; simpl; lia|].
  pose proof (var_num_definition (a :: d)) as H.
  pose proof (zsum_sq_nonneg
                (fun x => zlen (a :: d) * x - zsum (a :: d)) (a :: d)) as Hn.
  cbv beta in Hn. rewrite <- H in Hn.
  assert (0 < zlen (a :: d)) by (unfold zlen; simpl length; lia).
  nia.
Qed.

Lemma zsum_sq_zero_iff (n t : Z) l :
  zsum (map (fun x => (n * x - t) * (n * x - t)) l) = 0
  <-> forall x, In x l -> n * x = t.
Proof.
  induction l as [|b l IH]; cbn [map zsum fold_right In].
  - split; [intros _ x []|reflexivity].
  - pose proof (zsum_sq_nonneg (fun x => n * x - t) l) as Hp.
    cbv beta in Hp. fold (zsum (map (fun x => (n * x - t) * (n * x - t)) l)).
    split.
    + intros H0.
      pose proof (Z.square_nonneg (n * b - t)) as Hs.
      assert (Hb : (n * b - t) * (n * b - t) = 0) by lia.
      assert (Hl : zsum (map (fun x => (n * x - t) * (n * x - t)) l) = 0)
        by lia.
      intros x [<-|Hx]; [|apply IH; assumption].
      apply Z.mul_eq_0 in Hb. lia.
    + intros Hall. assert (Hb : n * b = t) by (apply Hall; now left).
      assert (Hr : zsum (map (fun x => (n * x - t) * (n * x - t)) l) = 0)
        by (apply IH; intros x Hx; apply Hall; now right).
      rewrite Hr. replace (n * b - t) with 0 by lia. lia.
Qed.

(* the variance vanishes exactly for constant data *)
Lemma var_num_zero_iff d :
  var_num d = 0 <-> forall x, In x d -> zlen d * x = zsum d.
Proof.
  destruct d as [|a d].
  - split; [intros _ x []|reflexivity].
  - assert (Hn : 0 < zlen (a :: d)) by (unfold zlen; simpl length; lia).
    pose proof (var_num_definition (a :: d)) as H.
    rewrite <- zsum_sq_zero_iff, <- H. split; [intros ->; lia|nia].
Qed.

Example var_example : var_num [8; 24] = 256 /\ var_num [5; 5; 5] = 0.
Proof. split; reflexivity. Qed.

(* ---- mode ---------------------------------------------------------------- *)

Lemma best_key_spec keys : forall cands best bc,
  let r := best_key cands keys best bc in
  (countp (Z.eqb best) keys = bc \/ (bc = 0 /\ cands <> [])) ->
  bc <= countp (Z.eqb r) keys /\
  (forall k, In k cands -> countp (Z.eqb k) keys <= countp (Z.eqb r) keys) /\
  (r = best \/ In r cands).
Proof.
  induction cands as [|k t IH]; intros best bc r H.
  - simpl in r. subst r. destruct H as [H|[_ H]]; [|congruence].
    repeat split; try lia; try (intros k []); try (now left).
  - simpl in r. destruct (bc <? countp (Z.eqb k) keys) eqn:E.
    + specialize (IH k (countp (Z.eqb k) keys) (or_introl eq_refl)).
      cbv zeta in IH. fold r in IH. destruct IH as (I1 & I2 & I3).
      repeat split; try lia.
      * intros k' [<-|Hk']; [lia|]. now apply I2.
      * destruct I3 as [->|I3]; right; [now left|now right].
    + destruct H as [H|[H _]].
      * specialize (IH best bc (or_introl H)).
        cbv zeta in IH. fold r in IH. destruct IH as (I1 & I2 & I3).
        repeat split; try lia.
        -- intros k' [<-|Hk']; [lia|]. now apply I2.
        -- destruct I3 as [->|I3]; [now left|right; now right].
      * subst bc. pose proof (countp_nonneg (Z.eqb k) keys) as Hk.
        assert (Hk0 : countp (Z.eqb k) keys = 0) by lia.
        destruct t as [|k2 t].
        -- simpl in r. subst r.
           pose proof (countp_nonneg (Z.eqb best) keys) as Hb0.
           split; [lia|]. split; [|now left].
           intros k' [<-|[]]. lia.
        -- assert (Hne : k2 :: t <> []) by discriminate.
           specialize (IH best 0 (or_intror (conj eq_refl Hne))).
           cbv zeta in IH. fold r in IH. destruct IH as (I1 & I2 & I3).
           repeat split; try lia.
           ++ intros k' [<-|Hk']; [lia|]. now apply I2.
           ++ destruct I3 as [->|I3]; [now left|right; now right].
Qed.

Lemma countp_eqb_notin k keys : ~ In k keys -> countp (Z.eqb k) keys = 0.
Proof.
  intros H. apply countp_none. intros x Hx.
  destruct (k =? x) eqn:E; [|reflexivity].
  apply Z.eqb_eq in E. subst. contradiction.
Qed.

(* the reported bin holds at least as many events as any other bin *)
Lemma mode_key_max keys : keys <> [] ->
  forall k, countp (Z.eqb k) keys <= countp (Z.eqb (mode_key keys)) keys.
Proof.
  intros Hne k. unfold mode_key.
  assert (Hc : isort keys <> []).
  { intros Hn. apply Hne. apply length_zero_iff_nil.
    rewrite <- length_isort, Hn. reflexivity. }
  destruct (best_key_spec keys (isort keys) 0 0
              (or_intror (conj eq_refl Hc))) as (H1 & H2 & _).
  destruct (in_dec Z.eq_dec k keys) as [Hin|Hnin].
  - apply H2. now apply isort_In.
  - rewrite (countp_eqb_notin k keys Hnin). exact H1.
Qed.

Example mode_example :
  mode_key (mode_keys 1 1 [8; 16; 17; 15; 40; 41; 80]) = 2 /\
  st_mode 8 1 [8; 8; 8] = SNaN.
Proof. split; reflexivity. Qed.

(* ---- statistics: selection theorems ------------------------------------- *)

Lemma get_feature_noninterference fall xs xs' :
  agree fall xs xs' -> get_feature true fall xs = get_feature true fall xs'.
Proof. intros H. unfold get_feature. now rewrite (select_ext fall xs xs' H). Qed.

Lemma stat_call_noninterference method fall xs xs' :
  agree fall xs xs' ->
  stat_call method true fall xs = stat_call method true fall xs'.
Proof.
  intros H. unfold stat_call. now rewrite (get_feature_noninterference _ _ _ H).
Qed.

Lemma stat_call_filtered_eq_restricted method fall xs :
  let sel := select fall xs in
  stat_call method true fall xs = stat_call method true (all_true sel) sel /\
  stat_call method true fall xs = stat_call method false (all_true sel) sel.
Proof.
  intros sel. unfold stat_call, get_feature. rewrite select_all_true. split; reflexivity.
Qed.

Lemma stat_call_disabled_uses_all method fall xs :
  stat_call method false fall xs =
  match purge xs with [] => SNaN | d => method d end /\
  stat_call method false fall xs = stat_call method true (all_true xs) xs.
Proof.
  unfold stat_call, get_feature. rewrite select_all_true.
  split; [destruct (purge xs)|]; reflexivity.
Qed.

(* what a statistic sees are exactly the finite selected values, in order *)
Lemma get_feature_spec enable fall xs :
  get_feature enable fall xs =
  map snd (filter finite (select (filter_all enable fall xs) xs)).
Proof.
  unfold get_feature, filter_all, purge. destruct enable; [reflexivity|].
  now rewrite select_all_true.
Qed.

Lemma events_eq_restricted_len {A} fall (xs : list A) :
  length fall = length xs -> fall <> [] ->
  st_events fall = SVal (zlen (select fall xs)) 1.
Proof.
  intros Hl Hne. unfold st_events. rewrite (select_count fall xs Hl).
  destruct fall; [congruence|reflexivity].
Qed.

Lemma feature_stats_noninterference fall bn bd xs xs' :
  agree fall xs xs' ->
  feature_stats true fall bn bd xs = feature_stats true fall bn bd xs'.
Proof.
  intros H. unfold feature_stats.
  now rewrite !(stat_call_noninterference _ fall xs xs' H).
Qed.

Lemma get_statistics_noninterference fall feats feats' :
  Forall2 (fun f f' => fst f = fst f' /\ agree fall (snd f) (snd f'))
          feats feats' ->
  get_statistics true fall feats = get_statistics true fall feats'.
Proof.
  intros H. unfold get_statistics. f_equal.
  induction H as [|[[bn bd] xs] [[bn' bd'] xs'] l l' [H1 H2] _ IH]; simpl;
    [reflexivity|].
  simpl in H1, H2. injection H1 as -> ->. rewrite IH.
  now rewrite !(stat_call_noninterference _ fall xs xs' H2).
Qed.

Example statistics_example :
  stats_flat (true, [true; false; true; true],
              [(8, 1, [(0, 8); (2, 0); (0, 24); (1, 0)])])
  = [1; 3; 1;  1; 300; 4;  1; 32; 16;  1; 32; 16;  1; 0; 1;  1; 256; 256;
     1; 32; 32].
Proof. reflexivity. Qed.

(* ---- abstract estimators -------------------------------------------------- *)

Section AnalysisProofs.
  Variable D : Type.
  Variable dnan : D.
  Variable logf expf : fv -> fv.
  Variable K : Type.
  Variable core : K -> list fv -> list fv -> list fv -> list fv -> list D.
  Variable is_none : K -> bool.
  Variable done : D.
  Variable A : Type.
  Variable spacing : list fv -> A.
  Variable mesh : option A -> option A -> A -> A -> list fv -> list fv ->
                  option (list fv * list fv).
  Variable interp : fv -> fv -> Z.
  Variable dsgrid : list fv -> list fv -> Z -> bool -> list bool.

  Notation kde_scatter := (kde_scatter D dnan logf K core is_none done).
  Notation kde_contour :=
    (kde_contour D dnan logf expf K core is_none done A spacing mesh).
  Notation ds_quantile_level := (ds_quantile_level interp).
  Notation downsampled := (downsampled logf dsgrid).

  (* non-interference *)
  Lemma kde_scatter_noninterference fall k sx sy xs xs' ys ys' pos :
    agree fall xs xs' -> agree fall ys ys' ->
    kde_scatter fall k sx sy xs ys pos = kde_scatter fall k sx sy xs' ys' pos.
  Proof.
    intros Hx Hy. unfold C12.kde_scatter.
    now rewrite (select_ext fall xs xs' Hx), (select_ext fall ys ys' Hy).
  Qed.

  (* kde_type "none": one [done] per selected event / per position *)
  Lemma kde_method_none k ex ey pos : is_none k = true ->
    kde_method D dnan K core is_none done k ex ey pos
    = map (fun _ => done)
          (match pos with None => ex | Some (px, _) => px end).
  Proof. intros H. unfold kde_method. now rewrite H. Qed.

  Lemma kde_method_wrapped k ex ey pos : is_none k = false ->
    kde_method D dnan K core is_none done k ex ey pos
    = wrapped D dnan K core k ex ey pos.
  Proof. intros H. unfold kde_method. now rewrite H. Qed.

  Lemma kde_contour_noninterference fall k sx sy xacc yacc xs xs' ys ys' :
    agree fall xs xs' -> agree fall ys ys' ->
    kde_contour fall k sx sy xacc yacc xs ys
    = kde_contour fall k sx sy xacc yacc xs' ys'.
  Proof.
    intros Hx Hy. unfold C12.kde_contour.
    now rewrite (select_ext fall xs xs' Hx), (select_ext fall ys ys' Hy).
  Qed.

  Lemma quantile_noninterference fall a b xs xs' ys ys' :
    agree fall xs xs' -> agree fall ys ys' ->
    ds_quantile_level fall a b xs ys = ds_quantile_level fall a b xs' ys'.
  Proof.
    intros Hx Hy. unfold C12.ds_quantile_level.
    now rewrite (select_ext fall xs xs' Hx), (select_ext fall ys ys' Hy).
  Qed.

  Lemma downsampled_noninterference fall sx sy n rm xs xs' ys ys' :
    agree fall xs xs' -> agree fall ys ys' ->
    downsampled fall sx sy n rm xs ys = downsampled fall sx sy n rm xs' ys'.
  Proof.
    intros Hx Hy. unfold C12.downsampled.
    now rewrite (select_ext fall xs xs' Hx), (select_ext fall ys ys' Hy).
  Qed.

  Lemma tsv_noninterference fall feats feats' :
    Forall2 (agree fall) feats feats' ->
    tsv_columns true fall feats = tsv_columns true fall feats'.
  Proof.
    intros H. unfold tsv_columns.
    induction H as [|f f' l l' Hf _ IH]; simpl; [reflexivity|].
    now rewrite IH, (select_ext fall f f' Hf).
  Qed.

  (* filtered dataset = dataset of the selected events, all-True filter *)
  Lemma kde_scatter_filtered_eq_restricted fall k sx sy xs ys pos :
    length xs = length ys ->
    let rx := select fall xs in
    let ry := select fall ys in
    kde_scatter fall k sx sy xs ys pos
    = kde_scatter (all_true rx) k sx sy rx ry pos.
  Proof.
    intros Hl rx ry. unfold C12.kde_scatter.
    rewrite select_all_true.
    rewrite (select_all_true_gen rx ry (select_length_eq fall xs ys Hl)).
    reflexivity.
  Qed.

  Lemma kde_contour_filtered_eq_restricted fall k sx sy xacc yacc xs ys :
    length xs = length ys ->
    let rx := select fall xs in
    let ry := select fall ys in
    kde_contour fall k sx sy xacc yacc xs ys
    = kde_contour (all_true rx) k sx sy xacc yacc rx ry.
  Proof.
    intros Hl rx ry. unfold C12.kde_contour.
    rewrite select_all_true.
    rewrite (select_all_true_gen rx ry (select_length_eq fall xs ys Hl)).
    reflexivity.
  Qed.

  Lemma quantile_filtered_eq_restricted fall a b xs ys :
    length xs = length ys ->
    let rx := select fall xs in
    let ry := select fall ys in
    ds_quantile_level fall a b xs ys
    = ds_quantile_level (all_true rx) a b rx ry.
  Proof.
    intros Hl rx ry. unfold C12.ds_quantile_level.
    rewrite select_all_true.
    rewrite (select_all_true_gen rx ry (select_length_eq fall xs ys Hl)).
    reflexivity.
  Qed.

  (* the returned points; the returned mask lives in the index space of the
     full dataset and is related to the points by [scatter_mask_select] *)
  Lemma downsampled_filtered_eq_restricted fall sx sy n rm xs ys :
    length fall = length xs -> length xs = length ys ->
    let rx := select fall xs in
    let ry := select fall ys in
    fst (downsampled fall sx sy n rm xs ys)
    = fst (downsampled (all_true rx) sx sy n rm rx ry).
  Proof.
    intros Hf Hl rx ry. unfold C12.downsampled. simpl.
    rewrite countp_all_true. subst rx ry.
    rewrite (select_count fall xs Hf).
    rewrite select_all_true.
    rewrite (select_all_true_gen _ _ (select_length_eq fall xs ys Hl)).
    reflexivity.
  Qed.

  Lemma tsv_filtered_eq_restricted fall feats :
    Forall (fun f => length f = length (hd [] feats)) feats ->
    tsv_columns true fall feats
    = tsv_columns true (all_true (select fall (hd [] feats)))
                  (map (select fall) feats).
  Proof.
    unfold tsv_columns. intros H. rewrite map_map.
    apply map_ext_in. intros f Hf.
    rewrite Forall_forall in H. specialize (H f Hf).
    symmetry. apply select_all_true_gen.
    apply select_length_eq. now rewrite H.
  Qed.

  Lemma tsv_filtered_is_selection fall feats :
    tsv_columns true fall feats = map (select fall) feats /\
    tsv_columns false fall feats = feats.
  Proof.
    unfold tsv_columns. split; [reflexivity|]. now rewrite map_id.
  Qed.

  (* filtering disabled: every event is used *)
  Lemma disabled_uses_all mask k sx sy xacc yacc a b n rm xs ys pos :
    length xs = length ys ->
    let fall := filter_all false mask xs in
    kde_scatter fall k sx sy xs ys pos
    = (match xs with
       | [] => []
       | _ => kde_method D dnan K core is_none done k
                      (apply_scale logf sx xs) (apply_scale logf sy ys)
                      (match pos with
                       | None => None
                       | Some (px, py) => Some (apply_scale logf sx px,
                                                apply_scale logf sy py)
                       end)
       end) /\
    kde_contour fall k sx sy xacc yacc xs ys
    = kde_contour (all_true xs) k sx sy xacc yacc xs ys /\
    ds_quantile_level fall a b xs ys = quantile_level interp a b xs ys /\
    fst (downsampled fall sx sy n rm xs ys)
    = (let idx := dsgrid (apply_scale logf sx xs) (apply_scale logf sy ys)
                         (Z.min n (zlen xs)) rm
       in (select idx xs, select idx ys)) /\
    tsv_columns true fall [xs; ys] = [xs; ys].
  Proof.
    intros Hl fall. unfold fall, filter_all.
    unfold C12.kde_scatter, C12.ds_quantile_level, C12.downsampled,
      tsv_columns.
    simpl map. simpl fst. rewrite countp_all_true.
    rewrite !select_all_true, !(select_all_true_gen xs ys Hl).
    repeat split; reflexivity.
  Qed.

  (* ignore_nan_inf: non-finite events never reach the estimator, and the
     density has one entry per requested position *)
  Lemma place_length good dens : length (place D dnan good dens) = length good.
  Proof.
    revert dens. induction good as [|[|] g IH]; intros dens; simpl;
      [reflexivity| |].
    - destruct dens; simpl; now rewrite IH.
    - now rewrite IH.
  Qed.

  (* the estimator's values land on the good positions, in order; every
     other position is NaN *)
  Lemma place_select good : forall dens,
    length dens = length (select good good) ->
    select good (place D dnan good dens) = dens.
  Proof.
    induction good as [|[|] g IH]; intros dens H; simpl in *.
    - destruct dens; [reflexivity|discriminate].
    - destruct dens as [|d ds]; simpl in *; [discriminate|].
      f_equal. apply IH. lia.
    - now apply IH.
  Qed.

  Lemma place_bad good : forall dens (i : nat),
    (i < length good)%nat -> nth i good true = false ->
    nth i (place D dnan good dens) dnan = dnan.
  Proof.
    induction good as [|b g IH]; intros dens i Hi Hb; simpl in Hi; [lia|].
    destruct b; simpl.
    - destruct i as [|i]; simpl in Hb; [discriminate|].
      destruct dens as [|d ds]; simpl; apply IH; auto; lia.
    - destruct i as [|i]; simpl; [reflexivity|]. simpl in Hb.
      apply IH; auto; lia.
  Qed.

  Lemma good2_select_finite xs ys :
    Forall (fun v => finite v = true) (select (good2 xs ys) xs) /\
    Forall (fun v => finite v = true) (select (good2 xs ys) ys).
  Proof.
    unfold good2. revert ys. induction xs as [|x xs IH]; intros [|y ys]; simpl;
      try (split; constructor).
    destruct (IH ys) as [I1 I2].
    destruct (finite x) eqn:Ex, (finite y) eqn:Ey; simpl; split;
      try constructor; auto.
  Qed.

  Lemma wrapped_noninterference k ex ey ex' ey' pos :
    good2 ex ey = good2 ex' ey' ->
    agree (good2 ex ey) ex ex' -> agree (good2 ex ey) ey ey' ->
    wrapped D dnan K core k ex ey pos = wrapped D dnan K core k ex' ey' pos.
  Proof.
    intros Hg Hx Hy. unfold wrapped. rewrite <- Hg.
    now rewrite (select_ext _ ex ex' Hx), (select_ext _ ey ey' Hy).
  Qed.

  (* quantile level: the fraction of the (finite) selected events whose
     density is below the level is q up to one event *)
  Lemma quantile_level_brackets fall a b xs ys :
    0 <= a <= b -> 0 < b ->
    let dp := event_density interp (select fall xs) (select fall ys) in
    let P := ds_quantile_level fall a b xs ys in
    0 < zlen dp ->
    b * countp (fun d => b * d <? P) dp <= a * zlen dp + (b - a) /\
    a * zlen dp - a < b * countp (fun d => b * d <=? P) dp.
  Proof.
    intros Ha Hb dp P Hn. apply percentile_brackets; assumption.
  Qed.
End AnalysisProofs.

(* downsampling: the returned mask identifies exactly the returned points
   in the full dataset *)
Lemma scatter_mask_select {B} fall : forall idx (xs : list B),
  length fall = length xs -> length idx = length (select fall xs) ->
  select (scatter_mask fall idx) xs = select idx (select fall xs) /\
  length (scatter_mask fall idx) = length fall.
Proof.
  induction fall as [|b f IH]; intros idx [|x xs] Hl Hi; simpl in *;
    try discriminate.
  - destruct idx; [split; reflexivity|discriminate].
  - assert (Hl' : length f = length xs) by lia.
    destruct b; simpl in *.
    + destruct idx as [|i r]; simpl in *; [discriminate|].
      assert (Hi' : length r = length (select f xs)) by lia.
      destruct (IH r xs Hl' Hi') as [I1 I2].
      split; [|now rewrite I2]. destruct i; now rewrite I1.
    + destruct (IH idx xs Hl' Hi) as [I1 I2].
      split; [exact I1|now rewrite I2].
Qed.

Lemma downsampled_mask_spec (logf : fv -> fv)
      (dsgrid : list fv -> list fv -> Z -> bool -> list bool)
      fall sx sy n rm xs ys :
  length fall = length xs -> length xs = length ys ->
  (forall s, length (dsgrid (apply_scale logf sx (select fall xs))
                            (apply_scale logf sy (select fall ys)) s rm)
             = length (select fall xs)) ->
  let r := downsampled logf dsgrid fall sx sy n rm xs ys in
  select (snd r) xs = fst (fst r) /\ select (snd r) ys = snd (fst r) /\
  length (snd r) = length fall.
Proof.
  intros Hl Hxy Hi. unfold downsampled. cbn [fst snd].
  set (s := Z.min n (countp (fun b : bool => b) fall)).
  specialize (Hi s).
  destruct (scatter_mask_select fall _ xs Hl Hi) as [H1 H2].
  assert (Hly : length fall = length ys) by lia.
  assert (Hiy : length (dsgrid (apply_scale logf sx (select fall xs))
                 (apply_scale logf sy (select fall ys)) s rm)
                = length (select fall ys)).
  { rewrite Hi. now apply select_length_eq. }
  destruct (scatter_mask_select fall _ ys Hly Hiy) as [H3 _].
  repeat split; assumption.
Qed.


Example scatter_example :
  scatter_flat (true, [true; false; true; true], 0, 1,
                [(0, 8); (0, 999); (1, 0); (0, 24)],
                [(0, 16); (2, 0); (0, 8); (0, -8)],
                false, [], [], false)
  = [0; 424; 1; 0; 1; 0].
Proof. reflexivity. Qed.

(* kde_type = "none": ones for every selected event, also where a value is
   nan (kde_none is not wrapped by ignore_nan_inf) *)
Example scatter_none_example :
  scatter_flat (true, [true; false; true; true], 0, 1,
                [(0, 8); (0, 999); (1, 0); (0, 24)],
                [(0, 16); (2, 0); (0, 8); (0, -8)],
                false, [], [], true)
  = [0; 8; 0; 8; 0; 8].
Proof. reflexivity. Qed.

(* the two accuracies fall back to their defaults independently *)
Lemma acc_or_default_spec user dflt :
  acc_or_default user dflt
  = match user with
    | Some k => if k =? 0 then dflt else k
    | None => dflt
    end.
Proof. reflexivity. Qed.

Lemma mesh_fake_axes_independent xa ya dx dy xc yc gx gy :
  mesh_fake xa ya dx dy xc yc = Some (gx, gy) ->
  forall ya' dy' gx' gy', mesh_fake xa ya' dx dy' xc yc = Some (gx', gy') ->
    acc_or_default ya dy = acc_or_default ya' dy' -> gx = gx' /\ gy = gy'.
Proof.
  unfold mesh_fake. destruct xc as [|c xc]; [discriminate|].
  intros [= <- <-] ya' dy' gx' gy' [= <- <-] ->. split; reflexivity.
Qed.

Example contour_example :
  contour_flat (true, [true; true; false; true], 0, 0,
                [(0, 0); (0, 16); (0, 999); (1, 0)],
                [(0, 8); (0, 24); (2, 0); (0, 8)], Some 3, Some 0, 2, false)
  = [0; 6;  0; 0; 0; 0; 0; 8; 0; 8; 0; 16; 0; 16;
     0; 8; 0; 24; 0; 8; 0; 24; 0; 8; 0; 24;
     0; 640; 0; 816; 0; 696; 0; 872; 0; 752; 0; 928].
Proof. reflexivity. Qed.

(* a log x axis: the non-positive value becomes nan / -inf and is not kept
   (remove_invalid), the returned points are the unscaled ones *)
Example down_log_example :
  down_flat (true, [true; true; true; false], 1, 0,
             [(0, 8); (0, 0); (0, -8); (0, 999)],
             [(0, 16); (0, 8); (0, 8); (0, 8)], 2, true)
  = [1; 0; 8; 0; 16; 1; 0; 0; 0].
Proof. reflexivity. Qed.

Example down_example :
  down_flat (true, [true; false; true; true], 0, 0,
             [(0, 8); (0, 999); (1, 0); (0, 24)],
             [(0, 16); (2, 0); (0, 8); (0, -7)], 2, false)
  = [2; 0; 8; 1; 0; 0; 16; 0; 8; 1; 0; 1; 0].
Proof. reflexivity. Qed.

Example agree_example :
  agree [true; false; true] [1; 2; 3] [1; 99; 3] /\
  select [true; false; true] [1; 2; 3] = [1; 3].
Proof.
  split; [|reflexivity].
  intros [|[|[|i]]] H; simpl in *; try reflexivity; try discriminate;
    destruct i; discriminate.
Qed.

(* ---- kde_multivariate: evaluation positions ------------------------------- *)

Lemma transpose_two_rows : forall xo yo : list Z, length xo = length yo ->
  map (fun j => [nth j xo 0; nth j yo 0]) (seq 0 (length xo))
  = point_rows xo yo.
Proof.
  unfold point_rows.
  induction xo as [|a xo IH]; intros [|b yo] Hl; simpl in *; try discriminate;
    [reflexivity|].
  f_equal. rewrite <- seq_shift, map_map. simpl. apply IH. lia.
Qed.

(* the fixed code hands exactly the points (x_j, y_j) to the estimator *)
Lemma mv_points_correct xo yo : length xo = length yo ->
  mv_points xo yo = Some (point_rows xo yo).
Proof.
  intros _. unfold mv_points, adjust_shape.
  destruct ((zlen xo =? 2) && negb (2 =? 2)) eqn:E; [|reflexivity].
  rewrite andb_false_r in E. discriminate.
Qed.

(* the code before the fix: right unless there are exactly two positions *)
Lemma mv_points_vstack_partial xo yo : length xo = length yo ->
  zlen xo <> 2 -> mv_points_vstack xo yo = Some (point_rows xo yo).
Proof.
  intros Hl Hn. unfold mv_points_vstack, adjust_shape.
  assert (E : (2 =? 2) && negb (zlen xo =? 2) = true) by lia.
  rewrite E. unfold transpose. rewrite Z.eqb_refl. cbn [orb]. f_equal.
  unfold zlen. rewrite Nat2Z.id.
  rewrite <- (transpose_two_rows xo yo Hl). apply map_ext. reflexivity.
Qed.

Lemma mv_points_vstack_refuted :
  exists xo yo, length xo = length yo /\
                mv_points_vstack xo yo <> Some (point_rows xo yo).
Proof. exists [1; 2], [3; 4]. split; [reflexivity|]. vm_compute. discriminate. Qed.

Example mv_points_example :
  mv_points [1; 2] [3; 4] = Some [[1; 3]; [2; 4]] /\
  mv_points_vstack [1; 2] [3; 4] = Some [[1; 2]; [3; 4]] /\
  mv_points_vstack [1; 2; 5] [3; 4; 6] = Some [[1; 3]; [2; 4]; [5; 6]].
Proof. repeat split; reflexivity. Qed.
