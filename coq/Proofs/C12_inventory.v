(* The statistics methods registered by dclab/statistics.py of the tree under
   test (generated coq/Gen/StatMethods.v) are those Model/C12.v and
   harness/c12.py were written for, in the order in which get_statistics
   reports them.  A new, removed or renamed method, or a changed req_feature
   flag, breaks this file (fail closed). *)
From Coq Require Import String List Bool.
From Verif Require Import Model.C12 Gen.StatMethods.
Import ListNotations.

Definition meth_eqb (a b : string * bool) : bool :=
  String.eqb (fst a) (fst b) && Bool.eqb (snd a) (snd b).
Fixpoint list_eqb {A} (e : A -> A -> bool) (l m : list A) : bool :=
  match l, m with
  | [], [] => true
  | x :: l', y :: m' => e x y && list_eqb e l' m'
  | _, _ => false
  end.

Definition stat_inventory_ok : bool :=
  list_eqb meth_eqb gen_stat_methods model_stat_methods.

Lemma stat_inventory_matches : stat_inventory_ok = true.
Proof. vm_compute. reflexivity. Qed.

(* get_statistics reports the feature-free methods first, then, per feature,
   the methods that need one - both in registration order: the model's
   [get_statistics] lists Events, %-gated (Flow rate is configuration and is
   checked by the oracle only) and the block Mean, Median, Mode, SD *)
Lemma stat_report_order :
  map fst (filter (fun m => negb (snd m)) model_stat_methods)
  = ["Events"; "%-gated"; "Flow rate"]%string /\
  map fst (filter (fun m => snd m) model_stat_methods)
  = ["Mean"; "Median"; "Mode"; "SD"]%string.
Proof. split; reflexivity. Qed.
