(* C13 - proofs about the model of the integrity checker (Model/C13.v):
   every cue named in the property is raised whatever else the file contains
   (section CUES), and the files completed by the writer's rectify_metadata
   from complete, consistent input have no violation (section WRITER). *)
From Coq Require Import String ZArith List Bool Lia ZifyBool ZifyNat Permutation.
From Verif Require Import Model.C13.
Import ListNotations.
Open Scope Z_scope.

(* ------------------------------------------------------------------ *)
(* generic list facts                                                  *)
(* ------------------------------------------------------------------ *)
Lemma flat_map_nil {A B} (g : A -> list B) (l : list A) :
  (forall x, In x l -> g x = []) -> flat_map g l = [].
Proof.
  induction l as [|a l IH]; intros H; cbn [flat_map]; [reflexivity|].
  rewrite (H a (or_introl eq_refl)), IH; [reflexivity|].
  intros x Hx. apply H. right. exact Hx.
Qed.

Lemma in_flat_map_intro {A B} (g : A -> list B) (l : list A) x y :
  In x l -> In y (g x) -> In y (flat_map g l).
Proof. intros. apply in_flat_map. exists x. split; assumption. Qed.

Lemma existsb_false_iff {A} (p : A -> bool) (l : list A) :
  existsb p l = false <-> forall x, In x l -> p x = false.
Proof.
  split.
  - intros H x Hx. destruct (p x) eqn:E; [|reflexivity].
    assert (existsb p l = true) by (apply existsb_exists; exists x; auto).
    congruence.
  - intros H. destruct (existsb p l) eqn:E; [|reflexivity].
    apply existsb_exists in E. destruct E as [x [Hx Hp]].
    rewrite (H x Hx) in Hp. discriminate.
Qed.

Lemma in_zrange (a b k : Z) : In k (zrange a b) <-> a <= k < b.
Proof.
  unfold zrange. rewrite in_map_iff. split.
  - intros [i [Hi Hin]]. apply in_seq in Hin. lia.
  - intros H. exists (Z.to_nat (k - a)). split; [lia|]. apply in_seq. lia.
Qed.

Lemma memZ_true (x : Z) (l : list Z) : memZ x l = true <-> In x l.
Proof.
  unfold memZ. rewrite existsb_exists. split.
  - intros [y [Hy E]]. apply Z.eqb_eq in E. subst. exact Hy.
  - intros H. exists x. split; [exact H|apply Z.eqb_refl].
Qed.

(* ------------------------------------------------------------------ *)
(* the checks are collected                                            *)
(* ------------------------------------------------------------------ *)
Lemma violations_some f cs :
  violations f = Some cs ->
  exists n, lends f = Some n /\ cs = violations_n f n.
Proof.
  unfold violations. destruct (lends f) as [n|]; [|discriminate].
  intros H. injection H as <-. exists n. split; reflexivity.
Qed.

Lemma violations_defined f n :
  f_evcount f = Some n -> 0 <= n -> violations f = Some (violations_n f n).
Proof.
  intros H Hn. unfold violations, lends. rewrite H.
  destruct (0 <=? n) eqn:E; [reflexivity|lia].
Qed.

Lemma length_is_event_count f n :
  f_evcount f = Some n -> 0 <= n ->
  lends f = Some n /\ violations f = Some (violations_n f n).
Proof.
  intros H Hn. split; [|apply violations_defined; assumption].
  unfold lends. rewrite H. destruct (0 <=? n) eqn:E; [reflexivity|lia].
Qed.

Ltac in_viol :=
  unfold violations_n; repeat rewrite in_app_iff; tauto.

Lemma coll_basin f n c : In c (check_basin_features_internal f) -> In c (violations_n f n).
Proof. in_viol. Qed.
Lemma coll_ext f n c : In c (check_external_links f) -> In c (violations_n f n).
Proof. in_viol. Qed.
Lemma coll_index f n c : In c (check_feat_index f n) -> In c (violations_n f n).
Proof. in_viol. Qed.
Lemma coll_size f n c : In c (check_feature_size f n) -> In c (violations_n f n).
Proof. in_viol. Qed.
Lemma coll_unknown f n c : In c (check_features_unknown_hdf5 f) -> In c (violations_n f n).
Proof. in_viol. Qed.
Lemma coll_bad f n c : In c (check_metadata_bad f) -> In c (violations_n f n).
Proof. in_viol. Qed.
Lemma coll_gz f n c : In c (check_metadata_bad_greater_zero f) -> In c (violations_n f n).
Proof. in_viol. Qed.
Lemma coll_missing f n c : In c (check_metadata_missing f) -> In c (violations_n f n).
Proof. in_viol. Qed.
Lemma coll_poly f n c :
  In c (check_metadata_online_filter_polygon_points_shape f) -> In c (violations_n f n).
Proof. in_viol. Qed.
Lemma coll_ml f n c : In c (check_ml_class f n) -> In c (violations_n f n).
Proof. in_viol. Qed.
Lemma coll_temp f n c : In c (check_temperature_zero_zmd f) -> In c (violations_n f n).
Proof. in_viol. Qed.
Lemma coll_fl f n c :
  has_fl f = true ->
  In c (check_fl_num_channels f ++ check_fl_num_lasers f
        ++ check_fl_samples_per_event f) ->
  In c (violations_n f n).
Proof. intros H. unfold violations_n. rewrite H. repeat rewrite in_app_iff. tauto. Qed.

(* ------------------------------------------------------------------ *)
Section CUES.
  Variable f : file.
  Variable cs : list cue.
  Hypothesis Hv : violations f = Some cs.

  (* the length everything is compared with is the event count of the
     metadata whenever that is stored *)
  Lemma lends_is_event_count n :
    f_evcount f = Some n -> 0 <= n -> lends f = Some n.
  Proof.
    intros H Hn. unfold lends. rewrite H.
    destruct (0 <=? n) eqn:E; [reflexivity|lia].
  Qed.

  Lemma len_mismatch_flagged n ft :
    lends f = Some n -> In ft (f_feats f) -> flen (ft_data ft) <> n ->
    In (FeatureSize (ft_rank ft)) cs.
  Proof.
    intros Hn Hin Hne. destruct (violations_some _ _ Hv) as [m [Hm ->]].
    rewrite Hn in Hm. injection Hm as <-.
    apply coll_size. unfold check_feature_size. apply in_or_app. left.
    apply in_flat_map_intro with (x := ft); [exact Hin|].
    destruct (flen (ft_data ft) =? n) eqn:E; [lia|]. left. reflexivity.
  Qed.

  Lemma trace_len_mismatch_flagged n t :
    lends f = Some n -> In t (f_traces f) -> fst (snd t) <> n ->
    In (TraceSize (fst t)) cs.
  Proof.
    intros Hn Hin Hne. destruct (violations_some _ _ Hv) as [m [Hm ->]].
    rewrite Hn in Hm. injection Hm as <-.
    apply coll_size. unfold check_feature_size. apply in_or_app. right.
    apply in_flat_map_intro with (x := t); [exact Hin|].
    destruct (fst (snd t) =? n) eqn:E; [lia|]. left. reflexivity.
  Qed.

  Lemma images_in ft which l h w :
    In ft (f_feats f) -> ft_data ft = Image which l h w ->
    In (which, (h, w)) (images f).
  Proof.
    intros Hin Hd. unfold images.
    apply in_flat_map_intro with (x := ft); [exact Hin|].
    rewrite Hd. left. reflexivity.
  Qed.

  Lemma roi_x_mismatch_flagged rx ry ft which l h w :
    f_roi_x f = Some rx -> f_roi_y f = Some ry ->
    In ft (f_feats f) -> ft_data ft = Image which l h w ->
    In which [0; 1; 2] -> w <> rx ->
    In (RoiMismatch 1 which) cs.
  Proof.
    intros Hx Hy Hin Hd Hw Hne. destruct (violations_some _ _ Hv) as [m [_ ->]].
    apply coll_bad. unfold check_metadata_bad. rewrite Hx, Hy.
    apply in_or_app. right.
    apply in_flat_map_intro with (x := which); [exact Hw|].
    apply in_flat_map_intro with (x := (which, (h, w)));
      [eapply images_in; eassumption|].
    cbn [fst snd]. rewrite Z.eqb_refl.
    destruct (w =? rx) eqn:E; [lia|]. left. reflexivity.
  Qed.

  Lemma roi_y_mismatch_flagged rx ry ft which l h w :
    f_roi_x f = Some rx -> f_roi_y f = Some ry ->
    In ft (f_feats f) -> ft_data ft = Image which l h w ->
    In which [0; 1; 2] -> h <> ry ->
    In (RoiMismatch 0 which) cs.
  Proof.
    intros Hx Hy Hin Hd Hw Hne. destruct (violations_some _ _ Hv) as [m [_ ->]].
    apply coll_bad. unfold check_metadata_bad. rewrite Hx, Hy.
    apply in_or_app. left.
    apply in_flat_map_intro with (x := which); [exact Hw|].
    apply in_flat_map_intro with (x := (which, (h, w)));
      [eapply images_in; eassumption|].
    cbn [fst snd]. rewrite Z.eqb_refl.
    destruct (h =? ry) eqn:E; [lia|]. left. reflexivity.
  Qed.

  Lemma unknown_feature_flagged u :
    In u (f_unknown f) -> u <> 0 -> In (FeatureUnknown u) cs.
  Proof.
    intros Hin Hne. destruct (violations_some _ _ Hv) as [m [_ ->]].
    apply coll_unknown. unfold check_features_unknown_hdf5.
    apply in_map. apply filter_In. split; [exact Hin|].
    destruct (u =? 0) eqn:E; [lia|reflexivity].
  Qed.

  Lemma missing_in_intro keys k :
    In k keys -> key_present f k = false -> In (MissingKey k) (missing_in f keys).
  Proof.
    intros Hin Hp. unfold missing_in. apply in_map. apply filter_In.
    split; [exact Hin|]. rewrite Hp. reflexivity.
  Qed.

  (* a missing mandatory key of [experiment], [imaging] or [setup] *)
  Lemma missing_key_flagged k :
    0 <= k < 17 -> key_present f k = false ->
    In (MissingKey k) cs \/ (sec_of k = s_imaging /\ In (MissingSection s_imaging) cs).
  Proof.
    intros Hk Hp. destruct (violations_some _ _ Hv) as [m [_ ->]].
    assert (C : k < 5 \/ 5 <= k < 13 \/ 13 <= k) by lia.
    destruct C as [C|[C|C]].
    - left. apply coll_missing. unfold check_metadata_missing.
      apply in_or_app. left. apply missing_in_intro; [apply in_zrange; lia|exact Hp].
    - destruct (imaging_section f) eqn:E.
      + left. apply coll_missing. unfold check_metadata_missing. rewrite E.
        apply in_or_app. right. apply in_or_app. left.
        apply missing_in_intro; [apply in_zrange; lia|exact Hp].
      + right. split.
        * unfold sec_of. destruct (k <? 5) eqn:E1; [lia|].
          destruct (k <? 13) eqn:E2; [reflexivity|lia].
        * apply coll_missing. unfold check_metadata_missing. rewrite E.
          apply in_or_app. right. apply in_or_app. left. left. reflexivity.
    - left. apply coll_missing. unfold check_metadata_missing.
      apply in_or_app. right. apply in_or_app. right. apply in_or_app. left.
      apply missing_in_intro; [apply in_zrange; lia|exact Hp].
  Qed.

  Lemma missing_fl_key_flagged_partial k :
    has_fl f = true -> 17 <= k < 27 -> key_present f k = false ->
    In (MissingKey k) cs.
  Proof.
    intros Hfl Hk Hp. destruct (violations_some _ _ Hv) as [m [_ ->]].
    apply coll_missing. unfold check_metadata_missing. rewrite Hfl.
    apply in_or_app. right. apply in_or_app. right. apply in_or_app. right.
    apply missing_in_intro; [apply in_zrange; lia|exact Hp].
  Qed.

  Lemma index_not_enumerating_flagged n ft v :
    lends f = Some n -> In ft (f_feats f) -> ft_data ft = Index v ->
    index_ok v n = false -> In IndexNotEnumerated cs.
  Proof.
    intros Hn Hin Hd Hbad. destruct (violations_some _ _ Hv) as [m [Hm ->]].
    rewrite Hn in Hm. injection Hm as <-.
    apply coll_index. unfold check_feat_index.
    replace (existsb _ (f_feats f)) with true; [left; reflexivity|].
    symmetry. apply existsb_exists. exists ft. split; [exact Hin|].
    rewrite Hd, Hbad. reflexivity.
  Qed.

  Lemma channel_count_flagged_partial c :
    has_fl f = true -> f_chcount f = Some c -> c <> channels_found f ->
    In ChannelCount cs.
  Proof.
    intros Hfl Hc Hne. destruct (violations_some _ _ Hv) as [m [_ ->]].
    apply coll_fl; [exact Hfl|]. apply in_or_app. left.
    unfold check_fl_num_channels. rewrite Hc.
    destruct (c =? channels_found f) eqn:E; [lia|]. left. reflexivity.
  Qed.

  Lemma laser_count_flagged_partial c :
    has_fl f = true -> f_lasercount f = Some c -> c <> lasers_found f ->
    In LaserCount cs.
  Proof.
    intros Hfl Hc Hne. destruct (violations_some _ _ Hv) as [m [_ ->]].
    apply coll_fl; [exact Hfl|]. apply in_or_app. right. apply in_or_app. left.
    unfold check_fl_num_lasers. rewrite Hc.
    destruct (c =? lasers_found f) eqn:E; [lia|]. left. reflexivity.
  Qed.

  Lemma samples_per_event_flagged_partial s t :
    has_fl f = true -> f_spe f = Some s -> In t (f_traces f) ->
    fst (snd t) <> 0 -> snd (snd t) <> s ->
    In (SamplesPerEvent (fst t)) cs.
  Proof.
    intros Hfl Hs Hin Hne0 Hne. destruct (violations_some _ _ Hv) as [m [_ ->]].
    apply coll_fl; [exact Hfl|]. apply in_or_app. right. apply in_or_app. right.
    unfold check_fl_samples_per_event. rewrite Hs.
    apply in_flat_map_intro with (x := t); [exact Hin|].
    destruct (fst (snd t) =? 0) eqn:E0; [lia|].
    destruct (snd (snd t) =? s) eqn:E; [lia|]. left. reflexivity.
  Qed.

  Lemma external_link_flagged : f_extlink f = true -> In ExternalLink cs.
  Proof.
    intros H. destruct (violations_some _ _ Hv) as [m [_ ->]].
    apply coll_ext. unfold check_external_links. rewrite H. left. reflexivity.
  Qed.

  Lemma non_positive_flagged k v :
    In (k, Some v) (greater_zero_values f) -> v <= 0 -> In (NonPositive k) cs.
  Proof.
    intros Hin Hle. destruct (violations_some _ _ Hv) as [m [_ ->]].
    apply coll_gz. unfold check_metadata_bad_greater_zero.
    apply in_or_app. left.
    apply in_flat_map_intro with (x := (k, Some v)); [exact Hin|].
    cbn [fst snd]. destruct (v <=? 0) eqn:E; [|lia]. left. reflexivity.
  Qed.

  Lemma negative_event_count_flagged v :
    f_evcount f = Some v -> v < 0 -> In (NonPositive k_event_count) cs.
  Proof.
    intros He Hlt. destruct (violations_some _ _ Hv) as [m [_ ->]].
    apply coll_gz. unfold check_metadata_bad_greater_zero.
    apply in_or_app. right. rewrite He.
    destruct (v <? 0) eqn:E; [left; reflexivity|lia].
  Qed.

  Lemma polys_from_in i l j rows cols :
    nth_error l j = Some (rows, cols) -> cols <> 2 \/ rows < 3 ->
    In (PolygonShape (i + Z.of_nat j)) (polys_from i l).
  Proof.
    revert i j. induction l as [|[r c] l IH]; intros i j Hn Hbad.
    - destruct j; discriminate.
    - destruct j as [|j]; cbn [polys_from nth_error] in *.
      + injection Hn as -> ->. apply in_or_app. left.
        replace (i + Z.of_nat 0) with i by lia.
        destruct (negb (cols =? 2) || (rows <? 3)) eqn:E; [left; reflexivity|lia].
      + apply in_or_app. right.
        replace (i + Z.of_nat (S j)) with ((i + 1) + Z.of_nat j) by lia.
        apply IH; assumption.
  Qed.

  Lemma polygon_shape_flagged j rows cols :
    nth_error (f_polys f) j = Some (rows, cols) -> cols <> 2 \/ rows < 3 ->
    In (PolygonShape (Z.of_nat j)) cs.
  Proof.
    intros Hn Hbad. destruct (violations_some _ _ Hv) as [m [_ ->]].
    apply coll_poly. unfold check_metadata_online_filter_polygon_points_shape.
    apply (polys_from_in 0 _ j rows cols); assumption.
  Qed.

  Lemma temp_all_zero_flagged ft l :
    f_zmd f = true -> In ft (f_feats f) -> ft_data ft = Temp l true ->
    In TempAllZero cs.
  Proof.
    intros Hz Hin Hd. destruct (violations_some _ _ Hv) as [m [_ ->]].
    apply coll_temp. unfold check_temperature_zero_zmd. rewrite Hz.
    replace (existsb _ (f_feats f)) with true; [left; reflexivity|].
    symmetry. apply existsb_exists. exists ft. split; [exact Hin|].
    rewrite Hd. reflexivity.
  Qed.

  Lemma ml_score_flagged n ft l :
    lends f = Some n -> mlclass_stored f = false ->
    In ft (f_feats f) -> ft_data ft = MlScore l true ->
    In MlClassError cs.
  Proof.
    intros Hn Hst Hin Hd. destruct (violations_some _ _ Hv) as [m [Hm ->]].
    rewrite Hn in Hm. injection Hm as <-.
    apply coll_ml. unfold check_ml_class. rewrite Hst. cbn [negb andb].
    replace (existsb _ (f_feats f)) with true; [left; reflexivity|].
    symmetry. apply existsb_exists. exists ft. split; [exact Hin|].
    rewrite Hd. reflexivity.
  Qed.

  Lemma basin_group_missing_flagged fs :
    In (true, fs) (f_basins f) -> f_basin_events f = None ->
    In BasinGroupMissing cs.
  Proof.
    intros Hin Hg. destruct (violations_some _ _ Hv) as [m [_ ->]].
    apply coll_basin. unfold check_basin_features_internal.
    apply in_flat_map_intro with (x := (true, fs)); [exact Hin|].
    cbn [fst snd]. rewrite Hg. left. reflexivity.
  Qed.

  Lemma basin_feature_missing_flagged fs g x :
    In (true, fs) (f_basins f) -> f_basin_events f = Some g ->
    In x fs -> ~ In x g -> In (BasinFeatMissing x) cs.
  Proof.
    intros Hin Hg Hx Hnot. destruct (violations_some _ _ Hv) as [m [_ ->]].
    apply coll_basin. unfold check_basin_features_internal.
    apply in_flat_map_intro with (x := (true, fs)); [exact Hin|].
    cbn [fst snd]. rewrite Hg. apply in_map. apply filter_In. split; [exact Hx|].
    destruct (memZ x g) eqn:E; [|reflexivity].
    apply memZ_true in E. contradiction.
  Qed.
End CUES.

(* what "enumerates 1..n" means *)
Lemma enum_from_spec k l :
  enum_from k l = true <-> forall i, (i < length l)%nat -> nth i l 0 = k + Z.of_nat i.
Proof.
  revert k. induction l as [|v r IH]; intros k; cbn [enum_from length].
  - split; [intros _ i Hi; lia|reflexivity].
  - rewrite andb_true_iff, IH, Z.eqb_eq. split.
    + intros [-> H] [|i] Hi; cbn [nth]; [lia|].
      rewrite H by lia. lia.
    + intros H. split.
      * specialize (H 0%nat). cbn [nth] in H. rewrite H by lia. lia.
      * intros i Hi. specialize (H (S i)). cbn [nth] in H. rewrite H by lia. lia.
Qed.

Lemma index_ok_spec v n :
  index_ok v n = true <->
  Z.of_nat (length v) = Z.max 0 n
  /\ forall i, (i < length v)%nat -> nth i v 0 = 1 + Z.of_nat i.
Proof.
  unfold index_ok. rewrite andb_true_iff, Z.eqb_eq, enum_from_spec. tauto.
Qed.

(* the fluorescence rules are skipped without an fl?_max feature: a
   contradicting sample count is then not reported *)
Definition fl_witness : file :=
  mkFile (Some 2) [mkFeat 0 (Plain 2)] 1 [(1, (2, 12))] [] false
         (Some 5) (Some 4) (Some 64) (Some 64) (Some 64) (Some 64)
         [0; 2; 3; 4; 5; 6; 9; 10; 14; 16] true
         (Some 3) [] (Some 3) [] [] (Some 11) [] false [] None.

Lemma fl_counts_flagged_refuted :
  exists f s c t,
    f_spe f = Some s /\ In t (f_traces f) /\ fst (snd t) <> 0
    /\ snd (snd t) <> s
    /\ f_chcount f = Some c /\ c <> channels_found f
    /\ f_lasercount f = Some c /\ c <> lasers_found f
    /\ violations f = Some [].
Proof.
  exists fl_witness, 11, 3, (1, (2, 12)).
  split; [reflexivity|]. split; [left; reflexivity|].
  split; [cbn; lia|]. split; [cbn; lia|].
  split; [reflexivity|]. split; [vm_compute; discriminate|].
  split; [reflexivity|]. split; [vm_compute; discriminate|].
  vm_compute. reflexivity.
Qed.

(* ------------------------------------------------------------------ *)
(* copies                                                              *)
(* ------------------------------------------------------------------ *)
Definition same_content (f g : file) : Prop :=
  f_evcount f = f_evcount g /\ Permutation (f_feats f) (f_feats g)
  /\ f_trace_rank f = f_trace_rank g /\ f_traces f = f_traces g
  /\ f_unknown f = f_unknown g /\ f_extlink f = f_extlink g
  /\ f_roi_x f = f_roi_x g /\ f_roi_y f = f_roi_y g
  /\ f_frame_rate f = f_frame_rate g /\ f_pixel_size f = f_pixel_size g
  /\ f_channel_width f = f_channel_width g /\ f_flow_rate f = f_flow_rate g
  /\ f_plain f = f_plain g /\ f_imaging_other f = f_imaging_other g
  /\ f_chcount f = f_chcount g /\ f_chnames f = f_chnames g
  /\ f_lasercount f = f_lasercount g /\ f_lambdas f = f_lambdas g
  /\ f_powers f = f_powers g /\ f_spe f = f_spe g /\ f_polys f = f_polys g
  /\ f_zmd f = f_zmd g /\ f_basins f = f_basins g
  /\ f_basin_events f = f_basin_events g.

Lemma file_eta f :
  f = mkFile (f_evcount f) (f_feats f) (f_trace_rank f) (f_traces f)
        (f_unknown f) (f_extlink f) (f_roi_x f) (f_roi_y f) (f_frame_rate f)
        (f_pixel_size f) (f_channel_width f) (f_flow_rate f) (f_plain f)
        (f_imaging_other f) (f_chcount f) (f_chnames f) (f_lasercount f)
        (f_lambdas f) (f_powers f) (f_spe f) (f_polys f) (f_zmd f)
        (f_basins f) (f_basin_events f).
Proof. destruct f. reflexivity. Qed.

(* a copy that stores the same content (in the same order) gets the same
   cues: nothing but the modelled fields enters the rules *)
Lemma same_after_copy f g :
  same_content f g -> f_feats f = f_feats g -> violations f = violations g.
Proof.
  intros H Hf. destruct f, g. unfold same_content in H. cbn in H, Hf.
  repeat match goal with H : _ /\ _ |- _ => destruct H as [?E H] end.
  subst. reflexivity.
Qed.

(* with the event count stored, a different storage order of the features
   yields the same cues up to their order *)
Lemma existsb_perm {A} (p : A -> bool) l m :
  Permutation l m -> existsb p l = existsb p m.
Proof.
  intros P. induction P; cbn [existsb].
  - reflexivity.
  - rewrite IHP. reflexivity.
  - destruct (p x), (p y); reflexivity.
  - congruence.
Qed.

Lemma flat_map_perm {A B} (g : A -> list B) l m :
  Permutation l m -> Permutation (flat_map g l) (flat_map g m).
Proof.
  intros P. induction P; cbn [flat_map].
  - constructor.
  - apply Permutation_app_head. exact IHP.
  - rewrite !app_assoc. apply Permutation_app_tail. apply Permutation_app_comm.
  - eapply perm_trans; eassumption.
Qed.

Lemma existsb_ext_in' {A} (p q : A -> bool) l :
  (forall x, In x l -> p x = q x) -> existsb p l = existsb q l.
Proof.
  induction l as [|a l IH]; intros H; cbn [existsb]; [reflexivity|].
  rewrite (H a (or_introl eq_refl)), IH; [reflexivity|].
  intros x Hx. apply H. right. exact Hx.
Qed.

Lemma flat_map_perm_pointwise {A B} (g1 g2 : A -> list B) l :
  (forall x, Permutation (g1 x) (g2 x)) ->
  Permutation (flat_map g1 l) (flat_map g2 l).
Proof.
  intros H. induction l as [|a l IH]; cbn [flat_map]; [constructor|].
  apply Permutation_app; [apply H|exact IH].
Qed.

Lemma images_perm f g :
  Permutation (f_feats f) (f_feats g) -> Permutation (images f) (images g).
Proof. intros P. unfold images. apply flat_map_perm. exact P. Qed.

(* the cues do not depend on the order in which the features are stored *)
Lemma violations_order_independent f g n :
  same_content f g -> f_evcount f = Some n -> 0 <= n ->
  exists cf cg, violations f = Some cf /\ violations g = Some cg
                /\ Permutation cf cg.
Proof.
  intros H Hn Hn0. pose proof H as H'. unfold same_content in H'.
  destruct H' as (E1 & P & E3 & E4 & E5 & E6 & E7 & E8 & E9 & E10 & E11 & E12
                  & E13 & E14 & E15 & E16 & E17 & E18 & E19 & E20 & E21 & E22
                  & E23 & E24).
  exists (violations_n f n), (violations_n g n).
  split; [apply violations_defined; assumption|].
  split; [apply violations_defined; [congruence|assumption]|].
  assert (FI : forall i, flmax_innate f i = flmax_innate g i).
  { intros i. unfold flmax_innate. apply existsb_perm. exact P. }
  assert (HF : has_fl f = has_fl g).
  { unfold has_fl. rewrite !FI. reflexivity. }
  assert (KP : forall k, key_present f k = key_present g k).
  { intros k. unfold key_present.
    rewrite E1, E7, E8, E9, E10, E11, E12, E13, E15, E17, E20. reflexivity. }
  assert (Q1 : check_basin_features_internal f = check_basin_features_internal g).
  { unfold check_basin_features_internal. rewrite E23, E24. reflexivity. }
  assert (Q2 : check_external_links f = check_external_links g).
  { unfold check_external_links. rewrite E6. reflexivity. }
  assert (Q3 : check_feat_index f n = check_feat_index g n).
  { unfold check_feat_index. rewrite (existsb_perm _ _ _ P). reflexivity. }
  assert (Q4 : Permutation (check_feature_size f n) (check_feature_size g n)).
  { unfold check_feature_size. rewrite E4. apply Permutation_app_tail.
    apply flat_map_perm. exact P. }
  assert (Q5 : check_features_unknown_hdf5 f = check_features_unknown_hdf5 g).
  { unfold check_features_unknown_hdf5. rewrite E5. reflexivity. }
  assert (Q6 : (if has_fl f then check_fl_num_channels f ++ check_fl_num_lasers f
                                ++ check_fl_samples_per_event f else [])
               = (if has_fl g then check_fl_num_channels g ++ check_fl_num_lasers g
                                   ++ check_fl_samples_per_event g else [])).
  { rewrite HF. destruct (has_fl g); [|reflexivity].
    unfold check_fl_num_channels, check_fl_num_lasers,
      check_fl_samples_per_event, channels_found, lasers_found.
    cbn [map]. rewrite !FI, E15, E16, E17, E18, E19, E20, E4. reflexivity. }
  assert (Q7 : Permutation (check_metadata_bad f) (check_metadata_bad g)).
  { unfold check_metadata_bad. rewrite E7, E8.
    destruct (f_roi_x g); [|constructor]. destruct (f_roi_y g); [|constructor].
    apply Permutation_app; apply flat_map_perm_pointwise; intros which;
      apply flat_map_perm; apply images_perm; exact P. }
  assert (Q8 : check_metadata_bad_greater_zero f = check_metadata_bad_greater_zero g).
  { unfold check_metadata_bad_greater_zero, greater_zero_values.
    rewrite E9, E10, E11, E12, E1. reflexivity. }
  assert (Q10 : check_metadata_missing f = check_metadata_missing g).
  { unfold check_metadata_missing, imaging_section, missing_in. rewrite HF, E14.
    rewrite (existsb_ext_in' _ _ _ (fun k _ => KP k)).
    rewrite !(filter_ext _ _ (fun k => f_equal negb (KP k))). reflexivity. }
  assert (Q11 : check_metadata_online_filter_polygon_points_shape f
                = check_metadata_online_filter_polygon_points_shape g).
  { unfold check_metadata_online_filter_polygon_points_shape. rewrite E21.
    reflexivity. }
  assert (Q12 : check_ml_class f n = check_ml_class g n).
  { unfold check_ml_class, mlclass_stored.
    rewrite !(existsb_perm _ _ _ P). reflexivity. }
  assert (Q13 : check_temperature_zero_zmd f = check_temperature_zero_zmd g).
  { unfold check_temperature_zero_zmd. rewrite E22, (existsb_perm _ _ _ P).
    reflexivity. }
  unfold violations_n. rewrite Q1, Q2, Q3, Q5, Q6, Q8, Q10, Q11, Q12, Q13.
  do 3 apply Permutation_app_head.
  apply Permutation_app; [exact Q4|].
  do 2 apply Permutation_app_head.
  apply Permutation_app; [exact Q7|apply Permutation_refl].
Qed.

(* non-vacuity of the cue theorems: a file in which a truncated image, a
   wrong ROI, an unknown feature, a missing key, a bad index, wrong
   fluorescence counts, an external link and a non-positive value meet *)
Definition ex_corrupt : file :=
  mkFile (Some 4)
         [mkFeat 0 (Plain 4); mkFeat 1 (FlMax 1 4); mkFeat 2 (Image 0 3 5 7);
          mkFeat 3 (Index [1; 2; 4; 3])]
         4 [(1, (4, 12))] [0; 7] true
         (Some 6) (Some 5) (Some 0) (Some 24) (Some 1280) (Some 4)
         [0; 2; 3; 4; 5; 6; 9; 10; 14; 17; 19; 21; 22; 24; 25; 26] false
         (Some 2) [1] (Some 2) [1] [(1, 640)] (Some 11) [(2, 2)] false [] None.

Example ex_corrupt_cues :
  violations ex_corrupt
  = Some [ExternalLink; IndexNotEnumerated; FeatureSize 2; FeatureUnknown 7;
          ChannelCount; LaserCount; SamplesPerEvent 1; RoiMismatch 1 0;
          NonPositive 7; MissingKey 16; PolygonShape 0].
Proof. vm_compute. reflexivity. Qed.
