(* C13 - external data anywhere in the file is found (hdf5_has_external);
   what dclab-repack / dclab-compress do to the violations. *)
From Coq Require Import String ZArith List Bool Lia ZifyBool ZifyNat.
From Verif Require Import Model.C13 Proofs.C13 Proofs.C13_writer.
Import ListNotations.
Open Scope Z_scope.

(* ------------------------------------------------------------------ *)
(* hdf5_has_external                                                   *)
(* ------------------------------------------------------------------ *)
(* [inside o r]: the object o is r or lies in r at any depth *)
Inductive inside : h5obj -> h5obj -> Prop :=
| inside_refl o : inside o o
| inside_member o g ms : In g ms -> inside o g -> inside o (H5Group ms).

(* external data: an external link (its target need not exist), a virtual
   dataset, a dataset with external raw storage *)
Definition leaf_external (o : h5obj) : bool :=
  match o with
  | H5ExtLink => true
  | H5Dataset v e => v || e
  | H5Group _ => false
  end.

Lemma obj_external_complete o r :
  inside o r -> leaf_external o = true -> obj_external r = true.
Proof.
  intros Hi Hl. induction Hi as [o|o g ms Hin Hi IH].
  - destruct o; cbn in *; [exact Hl|discriminate|reflexivity].
  - cbn [obj_external]. apply existsb_exists. exists g. split; [exact Hin|].
    apply IH. exact Hl.
Qed.

Fixpoint obj_external_sound (r : h5obj) :
  obj_external r = true -> exists o, inside o r /\ leaf_external o = true.
Proof.
  destruct r as [v e|ms|]; cbn [obj_external]; intros H.
  - exists (H5Dataset v e). split; [constructor|exact H].
  - induction ms as [|m ms IH]; [discriminate|].
    cbn [existsb] in H. apply orb_prop in H. destruct H as [H|H].
    + destruct (obj_external_sound m H) as [o [Hi Hl]]. exists o.
      split; [|exact Hl]. apply inside_member with (g := m);
        [left; reflexivity|exact Hi].
    + destruct (IH H) as [o [Hi Hl]]. exists o. split; [|exact Hl].
      inversion Hi as [o'|o' g ms' Hin Hi']; subst.
      * cbn in Hl. discriminate.
      * apply inside_member with (g := g); [right; exact Hin|exact Hi'].
  - exists H5ExtLink. split; [constructor|reflexivity].
Qed.

(* external data at any depth of the file is found, and nothing else is *)
Lemma has_external_spec root :
  has_external root = true <->
  exists r o, In r root /\ inside o r /\ leaf_external o = true.
Proof.
  unfold has_external. rewrite existsb_exists. split.
  - intros [r [Hr H]]. destruct (obj_external_sound r H) as [o [Hi Hl]].
    exists r, o. auto.
  - intros [r [o [Hr [Hi Hl]]]]. exists r. split; [exact Hr|].
    eapply obj_external_complete; eassumption.
Qed.

Lemma mk_file_extlink sc feats traces unknown plain chnames lambdas powers
      polys basins tree :
  f_extlink (mk_file sc feats traces unknown plain chnames lambdas powers
                     polys basins tree) = has_external tree.
Proof. reflexivity. Qed.

Lemma external_data_flagged f cs root r o :
  violations f = Some cs -> f_extlink f = has_external root ->
  In r root -> inside o r -> leaf_external o = true -> In ExternalLink cs.
Proof.
  intros Hv He Hr Hi Hl. apply (external_link_flagged f cs Hv).
  rewrite He. apply has_external_spec. exists r, o. auto.
Qed.

Example ex_nested_link :
  has_external [H5Dataset false false;
                H5Group [H5Dataset false false;
                         H5Group [H5Dataset false false; H5ExtLink]]] = true
  /\ has_external [H5Group [H5Group [H5Dataset true false]]] = true
  /\ has_external [H5Group [H5Group [H5Dataset false true]]] = true
  /\ has_external [H5Dataset false false; H5Group [H5Group []]] = false.
Proof. repeat split. Qed.

(* ------------------------------------------------------------------ *)
(* dclab-repack: copy_model                                            *)
(* ------------------------------------------------------------------ *)
Lemma lends_copy f : lends (copy_model f) = lends f.
Proof. destruct f. reflexivity. Qed.

(* the copy loses exactly the external-link cue and the unknown-feature cues;
   every other cue is kept, in place *)
Lemma copy_model_cues f n :
  exists a b c,
    violations_n f n
    = a ++ check_external_links f ++ b ++ check_features_unknown_hdf5 f ++ c
    /\ violations_n (copy_model f) n = a ++ b ++ c.
Proof.
  exists (check_basin_features_internal f),
         (check_feat_index f n ++ check_feature_size f n),
         ((if has_fl f then check_fl_num_channels f ++ check_fl_num_lasers f
                            ++ check_fl_samples_per_event f else [])
          ++ check_metadata_bad f ++ check_metadata_bad_greater_zero f
          ++ check_metadata_choices f ++ check_metadata_missing f
          ++ check_metadata_online_filter_polygon_points_shape f
          ++ check_ml_class f n ++ check_temperature_zero_zmd f).
  split.
  - unfold violations_n. rewrite <- !app_assoc. reflexivity.
  - unfold violations_n.
    change (check_basin_features_internal (copy_model f))
      with (check_basin_features_internal f).
    change (check_external_links (copy_model f)) with (@nil cue).
    change (check_feat_index (copy_model f) n) with (check_feat_index f n).
    change (check_feature_size (copy_model f) n) with (check_feature_size f n).
    change (check_features_unknown_hdf5 (copy_model f)) with (@nil cue).
    change (has_fl (copy_model f)) with (has_fl f).
    change (check_fl_num_channels (copy_model f)) with (check_fl_num_channels f).
    change (check_fl_num_lasers (copy_model f)) with (check_fl_num_lasers f).
    change (check_fl_samples_per_event (copy_model f))
      with (check_fl_samples_per_event f).
    change (check_metadata_bad (copy_model f)) with (check_metadata_bad f).
    change (check_metadata_bad_greater_zero (copy_model f))
      with (check_metadata_bad_greater_zero f).
    change (check_metadata_missing (copy_model f)) with (check_metadata_missing f).
    change (check_metadata_online_filter_polygon_points_shape (copy_model f))
      with (check_metadata_online_filter_polygon_points_shape f).
    change (check_ml_class (copy_model f) n) with (check_ml_class f n).
    change (check_temperature_zero_zmd (copy_model f))
      with (check_temperature_zero_zmd f).
    cbn [app]. rewrite <- !app_assoc. reflexivity.
Qed.

(* a file without external data and without unknown features and its
   repacked copy get the same violations *)
Lemma repack_same_violations f :
  f_extlink f = false -> (forall u, In u (f_unknown f) -> u = 0) ->
  violations (copy_model f) = violations f.
Proof.
  intros He Hu. unfold violations. rewrite lends_copy.
  destruct (lends f) as [n|]; [|reflexivity]. f_equal.
  destruct (copy_model_cues f n) as (a & b & c & E1 & E2).
  rewrite E1, E2. unfold check_external_links. rewrite He.
  unfold check_features_unknown_hdf5.
  replace (filter (fun u => negb (u =? 0)) (f_unknown f)) with (@nil Z);
    [reflexivity|].
  symmetry. apply filter_nil. intros u Hin. rewrite (Hu u Hin). reflexivity.
Qed.

(* ------------------------------------------------------------------ *)
(* dclab-compress of a file written by dclab: nothing the checker looks  *)
(* at changes                                                          *)
(* ------------------------------------------------------------------ *)
Lemma rectify_idempotent f n g :
  complete_input f n = true -> rectify f = Some g -> rectify g = Some g.
Proof.
  intros HC HR. destruct (rectify_some f g HR) as (r & ev & rest & ES & Hg).
  pose proof (sort_Forall _ _ (entries_all_n f n HC)) as HF.
  rewrite ES in HF. inversion HF as [|x l Hx _]. cbn [snd] in Hx. subst ev.
  set (g0 := set_rectified f n (r_spe f) (r_chc f) (r_rx f) (r_ry f)) in *.
  assert (R1 : r_spe g0 = r_spe f).
  { unfold r_spe. change (f_traces g0) with (f_traces f).
    change (f_spe g0) with (r_spe f). unfold r_spe.
    destruct (f_traces f); reflexivity. }
  assert (R2 : r_chc g0 = r_chc f).
  { unfold r_chc at 1. change (r_chcount g0) with (r_chcount f).
    change (f_chcount g0) with (r_chc f). unfold r_chc.
    destruct (r_chcount f =? 0); [reflexivity|].
    destruct (f_chcount f); reflexivity. }
  assert (R3 : r_rx g0 = r_rx f).
  { unfold r_rx at 1. change (r_shape g0) with (r_shape f).
    change (f_roi_x g0) with (r_rx f). unfold r_rx.
    destruct (r_shape f); reflexivity. }
  assert (R4 : r_ry g0 = r_ry f).
  { unfold r_ry at 1. change (r_shape g0) with (r_shape f).
    change (f_roi_y g0) with (r_ry f). unfold r_ry.
    destruct (r_shape f); reflexivity. }
  subst g. unfold rectify, rectify_gen.
  change (writer_entries true g0) with (writer_entries true f). rewrite ES.
  change (Some (set_rectified g0 n (r_spe g0) (r_chc g0) (r_rx g0) (r_ry g0))
          = Some g0).
  rewrite R1, R2, R3, R4. reflexivity.
Qed.

Lemma compress_written_identity f n g :
  complete_input f n = true -> rectify f = Some g -> compress_model g = Some g.
Proof.
  intros HC HR. unfold compress_model.
  assert (E : copy_model g = g).
  { destruct (ci_parts f n HC) as (_ & _ & _ & _ & Hunk & Hext & _).
    destruct (rectify_some f g HR) as (r & ev & rest & ES & ->).
    destruct f. cbn in Hunk, Hext. subst. reflexivity. }
  rewrite E. eapply rectify_idempotent; eassumption.
Qed.

Lemma written_copies_same_violations f n g :
  complete_input f n = true -> rectify f = Some g ->
  violations (copy_model g) = violations g
  /\ exists g', compress_model g = Some g' /\ violations g' = violations g.
Proof.
  intros HC HR. pose proof (compress_written_identity f n g HC HR) as E.
  split.
  - destruct (ci_parts f n HC) as (_ & _ & _ & _ & Hunk & Hext & _).
    destruct (rectify_some f g HR) as (r & ev & rest & ES & ->).
    apply repack_same_violations.
    + exact Hext.
    + cbn. rewrite Hunk. intros u [].
  - exists g. split; [exact E|reflexivity].
Qed.

(* ------------------------------------------------------------------ *)
(* the checker terminates with a cue list on every file that holds a    *)
(* feature; a missing event count is then reported                     *)
(* ------------------------------------------------------------------ *)
Lemma sort_length l : length (sort_by_rank l) = length l.
Proof.
  induction l as [|e l IH]; [reflexivity|].
  cbn [sort_by_rank fold_right length]. fold (sort_by_rank l). rewrite <- IH.
  generalize (sort_by_rank l). intros m.
  induction m as [|x m IHm]; cbn [insert_by_rank length]; [reflexivity|].
  destruct (fst e <=? fst x); cbn [length]; [reflexivity|].
  rewrite IHm. reflexivity.
Qed.

Lemma length_from_features_some f :
  (f_feats f <> [] \/ f_traces f <> []) -> exists n, length_from_features f = Some n.
Proof.
  intros Hne. unfold length_from_features.
  destruct (sort_by_rank (reader_entries f)) as [|e es] eqn:ES.
  - exfalso. pose proof (sort_length (reader_entries f)) as L.
    rewrite ES in L. unfold reader_entries in L.
    rewrite app_length, map_length in L. cbn [length] in L. unfold ntraces in L.
    destruct Hne as [H|H].
    + destruct (f_feats f); [contradiction|]. cbn [length] in L. lia.
    + destruct (f_traces f) as [|t l]; [contradiction|]. cbn [length] in L.
      destruct (Z.of_nat (S (length l)) =? 0) eqn:E; [lia|].
      cbn [length] in L. lia.
  - destruct (first_nonzero (e :: es)); eexists; reflexivity.
Qed.

Lemma checker_total f :
  (f_feats f <> [] \/ f_traces f <> []) -> exists cs, violations f = Some cs.
Proof.
  intros Hne. destruct (length_from_features_some f Hne) as [m Hm].
  unfold violations, lends. destruct (f_evcount f) as [z|].
  - destruct (0 <=? z); [eexists; reflexivity|]. rewrite Hm. eexists; reflexivity.
  - rewrite Hm. eexists; reflexivity.
Qed.

Lemma missing_event_count_flagged f :
  f_evcount f = None -> (f_feats f <> [] \/ f_traces f <> []) ->
  exists cs, violations f = Some cs /\ In (MissingKey k_event_count) cs.
Proof.
  intros He Hne. destruct (checker_total f Hne) as [cs Hv]. exists cs.
  split; [exact Hv|].
  destruct (missing_key_flagged f cs Hv k_event_count) as [H|[H _]].
  - unfold k_event_count. lia.
  - unfold key_present. rewrite Z.eqb_refl, He. reflexivity.
  - exact H.
  - discriminate.
Qed.

(* ------------------------------------------------------------------ *)
(* The sentence about compressed or repacked copies receiving the same *)
(* violations is false for arbitrary (corrupted) files: the copy loses  *)
(* external links and unknown features, dclab-compress also rewrites the *)
(* metadata the writer completes.  The harness checks that the copies   *)
(* are exactly those the model predicts (run_copy_flat).                *)
(* ------------------------------------------------------------------ *)
Lemma repack_same_violations_refuted :
  exists f, f_extlink f = true
            /\ violations (copy_model f) <> violations f.
Proof. exists ex_corrupt. split; [reflexivity|]. vm_compute. discriminate. Qed.

(* a file whose event count contradicts its features: the compressed copy
   has the count of the first feature again *)
Definition ex_wrong_count : file :=
  mkFile (Some 5) [mkFeat 0 (Plain 2); mkFeat 1 (Plain 2)] 9 [] [] false
         (Some 5) (Some 4) (Some 64) (Some 64) (Some 64) (Some 64)
         [0; 2; 3; 4; 5; 6; 9; 10; 14; 16] false
         None [] None [] [] None [] false [] None.

Lemma compress_same_violations_refuted :
  exists f g, f_extlink f = false /\ f_unknown f = []
              /\ violations f = Some [FeatureSize 0; FeatureSize 1]
              /\ compress_model f = Some g /\ violations g = Some [].
Proof.
  exists ex_wrong_count. eexists.
  split; [reflexivity|]. split; [reflexivity|].
  split; [vm_compute; reflexivity|]. split; [reflexivity|].
  vm_compute. reflexivity.
Qed.

(* ... and true whenever the writer's completion has nothing to change *)
Lemma compress_same_violations_partial f :
  f_extlink f = false -> (forall u, In u (f_unknown f) -> u = 0) ->
  compress_model f = Some (copy_model f) ->
  exists g, compress_model f = Some g /\ violations g = violations f.
Proof.
  intros He Hu Hc. exists (copy_model f). split; [exact Hc|].
  apply repack_same_violations; assumption.
Qed.
