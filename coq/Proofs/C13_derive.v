(* C13 - files derived from a written file by ds.export.hdf5, dclab-split,
   dclab-join and dclab-condense (Model.C13.derive_model) have no violation,
   provided every fl?_max feature of the source is kept (the guard excludes
   the known finding C13-export-subset-channel-count). *)
From Coq Require Import String ZArith List Bool Lia ZifyBool ZifyNat.
From Verif Require Import Model.C13 Proofs.C13 Proofs.C13_writer.
Import ListNotations.
Open Scope Z_scope.

Lemma enum_from_zseq k m : enum_from k (map (fun i => k + Z.of_nat i) (seq 0 m)) = true.
Proof.
  revert k. induction m as [|m IH]; intros k; [reflexivity|].
  cbn [seq map enum_from]. replace (k + Z.of_nat 0) with k by lia.
  rewrite Z.eqb_refl. cbn [andb]. rewrite <- seq_shift, map_map.
  rewrite <- (IH (k + 1)). f_equal. apply map_ext. intros i. lia.
Qed.

Lemma index_ok_zseq n : 0 <= n -> index_ok (zseq 1 n) n = true.
Proof.
  intros Hn. unfold index_ok, zseq. rewrite map_length, seq_length.
  rewrite enum_from_zseq. rewrite andb_true_r. lia.
Qed.

Lemma flen_relen n d : 0 <= n -> flen (relen n d) = n.
Proof.
  intros Hn. destruct d; cbn [relen flen]; try reflexivity.
  unfold zseq. rewrite map_length, seq_length. lia.
Qed.

Definition img_pred (k : Z) (ft : feat) : bool :=
  match ft_data ft with
  | Image w l _ _ => (w =? k) && negb (l =? 0)
  | _ => false
  end.

Lemma nonempty_image_filter fl k :
  nonempty_image fl k
  = match filter (img_pred k) (f_feats fl) with
    | {| ft_data := Image _ _ h w |} :: _ => Some (h, w)
    | _ => None
    end.
Proof. reflexivity. Qed.

Lemma nonempty_image_none fl k :
  nonempty_image fl k = None <->
  forall ft, In ft (f_feats fl) -> img_pred k ft = false.
Proof.
  rewrite nonempty_image_filter. split.
  - intros H ft Hin. destruct (img_pred k ft) eqn:E; [|reflexivity].
    assert (Hf : In ft (filter (img_pred k) (f_feats fl)))
      by (apply filter_In; auto).
    destruct (filter (img_pred k) (f_feats fl)) as [|x r] eqn:EF; [destruct Hf|].
    assert (Hx : img_pred k x = true).
    { assert (In x (filter (img_pred k) (f_feats fl))) by (rewrite EF; left; reflexivity).
      apply filter_In in H0. tauto. }
    destruct x as [rk d]. unfold img_pred in Hx. cbn in Hx, H.
    destruct d; try discriminate.
  - intros H. rewrite (filter_nil _ _ H). reflexivity.
Qed.

Lemma nonempty_image_some fl k s :
  nonempty_image fl k = Some s -> In (k, (fst s, snd s)) (images fl).
Proof.
  rewrite nonempty_image_filter. intros H.
  destruct (filter (img_pred k) (f_feats fl)) as [|x r] eqn:EF; [discriminate|].
  assert (Hx : In x (f_feats fl) /\ img_pred k x = true).
  { apply filter_In. rewrite EF. left. reflexivity. }
  destruct Hx as [Hin Hp]. destruct x as [rk d]. unfold img_pred in Hp. cbn in Hp, H.
  destruct d; try discriminate. injection H as <-. cbn [fst snd].
  unfold images. apply in_flat_map. exists {| ft_rank := rk; ft_data := Image which len h w |}.
  split; [exact Hin|]. cbn. left. f_equal. lia.
Qed.

Lemma same_shape_in fl a b im :
  same_shape fl a b = true -> In im (images fl) ->
  fst (snd im) = a /\ snd (snd im) = b.
Proof.
  unfold same_shape. rewrite forallb_forall. intros H Hin.
  specialize (H im Hin). lia.
Qed.

Section DERIVE.
  Variable f : file.
  Variable n : Z.
  Hypothesis HC : complete_input f n = true.
  Let g := set_rectified f n (r_spe f) (r_chc f) (r_rx f) (r_ry f).

  Variable keep : list Z.
  Variable kt : bool.
  Variable extra : list feat.
  Variable m : Z.
  Hypothesis Hm : 0 < m.
  Hypothesis Hextra : forallb (extra_ok m) extra = true.
  Hypothesis Hkeep : keeps_channels keep f = true.

  Let h := derive_input g keep kt extra m.
  Let rl := fun ft => mkFeat (ft_rank ft) (relen m (ft_data ft)).
  Let kp := fun ft => memZ (ft_rank ft) keep.

  Lemma feats_h : f_feats h = map rl (filter kp (f_feats f)) ++ extra.
  Proof. reflexivity. Qed.

  Lemma in_feats_h ft :
    In ft (f_feats h) ->
    (exists ft0, In ft0 (f_feats f) /\ ft = rl ft0) \/ In ft extra.
  Proof.
    rewrite feats_h, in_app_iff. intros [H|H]; [left|right; exact H].
    apply in_map_iff in H. destruct H as [ft0 [<- H]].
    apply filter_In in H. exists ft0. tauto.
  Qed.

  Lemma extra_in ft : In ft extra -> extra_ok m ft = true.
  Proof. intros H. rewrite forallb_forall in Hextra. auto. Qed.

  Lemma flmax_h i : flmax_innate h i = flmax_innate f i.
  Proof.
    unfold flmax_innate. rewrite feats_h, existsb_app.
    replace (existsb _ extra) with false.
    2:{ symmetry. apply existsb_false_iff. intros ft Hft.
        pose proof (extra_in ft Hft) as E. unfold extra_ok in E.
        destruct (ft_data ft); try reflexivity; discriminate. }
    rewrite orb_false_r. unfold keeps_channels in Hkeep.
    induction (f_feats f) as [|a l IH]; [reflexivity|].
    cbn [forallb] in Hkeep. apply andb_prop in Hkeep. destruct Hkeep as [Ha Hl].
    cbn [filter existsb]. unfold kp at 1.
    destruct (ft_data a) eqn:Ed.
    all: try (destruct (memZ (ft_rank a) keep); cbn [map existsb rl ft_data];
              rewrite ?Ed; cbn [relen]; rewrite (IH Hl); reflexivity).
    rewrite Ha. cbn [map existsb rl ft_data]. rewrite Ed. cbn [relen].
    rewrite (IH Hl). reflexivity.
  Qed.

  Lemma images_h im : In im (images h) -> In im (images f).
  Proof.
    unfold images. rewrite feats_h, flat_map_app, in_app_iff. intros [H|H].
    - apply in_flat_map in H. destruct H as [ft [Hft Him]].
      apply in_map_iff in Hft. destruct Hft as [ft0 [<- Hft0]].
      apply filter_In in Hft0. destruct Hft0 as [Hin _].
      apply in_flat_map. exists ft0. split; [exact Hin|].
      cbn [rl ft_data] in Him. revert Him.
      destruct (ft_data ft0); cbn [relen]; intros Him;
        try (destruct Him; fail). exact Him.
    - apply in_flat_map in H. destruct H as [ft [Hft Him]].
      pose proof (extra_in ft Hft) as E. unfold extra_ok in E.
      destruct (ft_data ft); try discriminate; destruct Him.
  Qed.

  Lemma same_shape_h a b : same_shape f a b = true -> same_shape h a b = true.
  Proof.
    unfold same_shape. rewrite !forallb_forall. intros H im Him.
    apply H. apply images_h. exact Him.
  Qed.

  Lemma none_h k : nonempty_image f k = None -> nonempty_image h k = None.
  Proof.
    destruct (ci_parts f n HC) as (Hn & Hlen & _).
    rewrite !nonempty_image_none. intros H ft Hft.
    destruct (in_feats_h ft Hft) as [[ft0 [Hin ->]]|Hex].
    - specialize (H ft0 Hin). specialize (Hlen ft0 Hin).
      unfold img_pred in *. cbn [rl ft_data].
      destruct (ft_data ft0); cbn [relen]; try reflexivity.
      cbn [flen] in Hlen. destruct (which =? k); [|reflexivity].
      cbn [andb] in *. destruct (len =? 0) eqn:E; [|discriminate].
      clear - Hn Hlen E. lia.
    - pose proof (extra_in ft Hex) as E. unfold extra_ok in E. unfold img_pred.
      destruct (ft_data ft); try reflexivity; discriminate.
  Qed.

  Lemma derive_complete : complete_input h m = true.
  Proof.
    destruct (ci_parts f n HC) as (Hn & Hlen & Htr & Hsp & Hunk & Hext & Hw
                                   & Hshape & Hk & Hflk & Hp1 & Hp2 & Hp3 & Hp4
                                   & Hch & Hlas & Hpolys & Hbasins).
    unfold complete_input.
    with_strategy opaque [forallb] (repeat (apply andb_true_intro; split)).
    - clear - Hm. lia.
    - apply forallb_forall. intros ft Hft. apply Z.eqb_eq.
      destruct (in_feats_h ft Hft) as [[ft0 [_ ->]]|Hex].
      + cbn [rl ft_data]. apply flen_relen. clear - Hm. lia.
      + pose proof (extra_in ft Hex) as E. unfold extra_ok in E.
        destruct (ft_data ft); try discriminate; cbn [flen].
        * clear - E. lia.
        * unfold index_ok in E. clear - E Hm. lia.
        * clear - E. lia.
    - change (f_traces h)
        with (if kt then map (fun t : Z * (Z * Z) => (fst t, (m, snd (snd t))))
                             (f_traces f) else []).
      destruct kt; [|reflexivity]. apply forallb_forall. intros t Ht.
      apply in_map_iff in Ht. destruct Ht as [t0 [<- _]]. cbn [fst snd].
      apply Z.eqb_refl.
    - apply forallb_forall. intros ft Hft.
      destruct (in_feats_h ft Hft) as [[ft0 [Hin ->]]|Hex].
      + specialize (Hsp ft0 Hin). cbn [rl ft_data].
        destruct (ft_data ft0); cbn [relen]; try reflexivity.
        * apply index_ok_zseq. clear - Hm. lia.
        * exact Hsp.
        * exact Hsp.
      + pose proof (extra_in ft Hex) as E. unfold extra_ok in E.
        destruct (ft_data ft); try discriminate; try reflexivity. exact E.
    - reflexivity.
    - reflexivity.
    - change (f_traces h)
        with (if kt then map (fun t : Z * (Z * Z) => (fst t, (m, snd (snd t))))
                             (f_traces f) else []).
      destruct kt; [|reflexivity].
      destruct (f_traces f) as [|t r]; [reflexivity|]. cbn [map].
      apply forallb_forall. intros u Hu. apply in_map_iff in Hu.
      destruct Hu as [u0 [<- Hu0]]. cbn [fst snd].
      rewrite forallb_forall in Hw. apply Hw. exact Hu0.
    - change (f_roi_x h) with (r_rx f). change (f_roi_y h) with (r_ry f).
      unfold r_rx, r_ry, r_shape.
      destruct (nonempty_image f 0) as [s0|] eqn:F0.
      { (* all images of the source have the shape s0 *)
        destruct (nonempty_image h 0) as [s|] eqn:E0.
        { pose proof (nonempty_image_some h 0 s E0) as Hin.
          apply images_h in Hin.
          destruct (same_shape_in f _ _ _ Hshape Hin) as [A B].
          cbn [fst snd] in A, B. rewrite A, B. apply same_shape_h. exact Hshape. }
        destruct (nonempty_image h 2) as [s|] eqn:E2.
        { pose proof (nonempty_image_some h 2 s E2) as Hin.
          apply images_h in Hin.
          destruct (same_shape_in f _ _ _ Hshape Hin) as [A B].
          cbn [fst snd] in A, B. rewrite A, B. apply same_shape_h. exact Hshape. }
        cbn [fst snd]. apply same_shape_h. exact Hshape. }
      rewrite (none_h 0 F0).
      destruct (nonempty_image f 2) as [s0|] eqn:F2.
      { destruct (nonempty_image h 2) as [s|] eqn:E2.
        { pose proof (nonempty_image_some h 2 s E2) as Hin.
          apply images_h in Hin.
          destruct (same_shape_in f _ _ _ Hshape Hin) as [A B].
          cbn [fst snd] in A, B. rewrite A, B. apply same_shape_h. exact Hshape. }
        cbn [fst snd]. apply same_shape_h. exact Hshape. }
      rewrite (none_h 2 F2).
      destruct (f_roi_x f) as [rx|]; [|reflexivity].
      destruct (f_roi_y f) as [ry|]; [|reflexivity].
      apply same_shape_h. exact Hshape.
    - apply forallb_forall. intros k Hk'. apply in_zrange in Hk'.
      unfold key_supplied.
      replace (key_present h k) with true; [reflexivity|].
      symmetry. exact (key_supplied_present f n k (Hk k Hk')).
    - destruct (has_fl h) eqn:EH; [|reflexivity]. cbn [negb orb].
      assert (HF : has_fl f = true).
      { unfold has_fl in *. rewrite !flmax_h in EH. exact EH. }
      apply forallb_forall. intros k Hk'. apply in_zrange in Hk'.
      unfold key_supplied.
      replace (key_present h k) with true; [reflexivity|].
      symmetry. exact (key_supplied_present f n k (Hflk HF k Hk')).
    - exact Hp1.
    - exact Hp2.
    - exact Hp3.
    - exact Hp4.
    - change (f_chcount h) with (r_chc f). change (f_chnames h) with (f_chnames f).
      assert (CF : channels_found h = channels_found f).
      { unfold channels_found. cbn [map]. rewrite !flmax_h. reflexivity. }
      unfold r_chc. destruct (f_chcount f) as [c|] eqn:EC.
      + destruct (r_chcount f =? 0); rewrite CF; exact Hch.
      + destruct (r_chcount f =? 0) eqn:E0.
        * cbn [forallb]. rewrite !flmax_h. exact Hch.
        * rewrite CF. apply Z.eqb_eq. unfold r_chcount, channels_found.
          f_equal. cbn [map forallb] in *. rewrite !(flmax_nonempty_innate f n HC).
          apply andb_prop in Hch. destruct Hch as [H1 Hch'].
          apply andb_prop in Hch'. destruct Hch' as [H2 Hch''].
          apply andb_prop in Hch''. destruct Hch'' as [H3 _].
          destruct (flmax_innate f 1), (flmax_innate f 2), (flmax_innate f 3);
            cbn [negb orb] in H1, H2, H3;
            try rewrite H1; try rewrite H2; try rewrite H3;
            rewrite ?andb_false_r; reflexivity.
    - exact Hlas.
    - exact Hpolys.
    - reflexivity.
  Qed.
End DERIVE.

(* export / split / join / condense of a file written by dclab *)
Theorem derived_output_clean f n g keep kt extra m h' :
  complete_input f n = true -> rectify f = Some g ->
  0 < m -> forallb (extra_ok m) extra = true -> keeps_channels keep g = true ->
  derive_model g keep kt extra m = Some h' -> violations h' = Some [].
Proof.
  intros HC HR Hm Hex Hk HD.
  destruct (rectify_some f g HR) as (r & ev & rest & ES & Hg).
  pose proof (sort_Forall _ _ (entries_all_n f n HC)) as HF.
  rewrite ES in HF. inversion HF as [|x l Hx _]. cbn [snd] in Hx. subst ev.
  subst g. unfold derive_model in HD.
  eapply writer_output_clean; [|exact HD].
  apply (derive_complete f n HC keep kt extra m Hm Hex). exact Hk.
Qed.

(* non-vacuity: the written example file, exported without the scalar and
   the mask, filtered to two events, with an added index *)
Example ex_derived :
  exists g h', rectify ex_two_channels = Some g
    /\ keeps_channels [1; 2] g = true
    /\ derive_model g [1; 2] false [mkFeat 9 (Index [1; 2])] 2 = Some h'
    /\ violations h' = Some [] /\ f_evcount h' = Some 2.
Proof. eexists. eexists. split; [reflexivity|]. split; [reflexivity|].
  split; [reflexivity|]. split; vm_compute; reflexivity. Qed.

(* Known finding C13-export-subset-channel-count: exporting only one of two
   fluorescence channels (the guard keeps_channels fails) gives a file with a
   violation, because "channel count" is only added when absent. *)
Lemma derived_output_clean_refuted :
  exists f n g keep h',
    complete_input f n = true /\ rectify f = Some g
    /\ violations g = Some []
    /\ keeps_channels keep g = false
    /\ derive_model g keep false [] n = Some h'
    /\ violations h' = Some [ChannelCount].
Proof.
  exists ex_two_channels, 3. eexists. exists [0; 2]. eexists.
  split; [vm_compute; reflexivity|]. split; [reflexivity|].
  split; [vm_compute; reflexivity|]. split; [vm_compute; reflexivity|].
  split; [reflexivity|]. vm_compute. reflexivity.
Qed.
