(* The check_* inventory and key tables of the tree under test (generated
   coq/Gen/CheckInventory.v) are those Model/C13.v was written for.  A new,
   removed or re-levelled check method, or a changed key table, breaks this
   file (fail closed). *)
From Coq Require Import String ZArith List Bool.
From Verif Require Import Model.C13 Gen.CheckInventory.
Import ListNotations.

Definition pair_eqb (a b : string * string) : bool :=
  String.eqb (fst a) (fst b) && String.eqb (snd a) (snd b).
Definition meth_eqb (a b : string * bool) : bool :=
  String.eqb (fst a) (fst b) && Bool.eqb (snd a) (snd b).
Fixpoint list_eqb {A} (e : A -> A -> bool) (l m : list A) : bool :=
  match l, m with
  | [], [] => true
  | x :: l', y :: m' => e x y && list_eqb e l' m'
  | _, _ => false
  end.

Definition inventory_ok : bool :=
  list_eqb meth_eqb gen_methods model_methods
  && list_eqb pair_eqb gen_important model_important
  && Nat.eqb gen_n_basic model_n_basic
  && match gen_optional_overlap with [] => true | _ => false end
  && list_eqb pair_eqb gen_greater_zero model_greater_zero
  && list_eqb String.eqb gen_ignored_unknown model_ignored_unknown
  && list_eqb String.eqb gen_desirable model_desirable
  && gen_valid_choices_empty
  && gen_dispatch_ok.

Lemma inventory_matches : inventory_ok = true.
Proof. vm_compute. reflexivity. Qed.

(* the key ids used by the model denote the keys they are named after *)
Open Scope string_scope.
Lemma key_ids_ok :
  nth (Z.to_nat k_event_count) model_important ("", "") = ("experiment", "event count")
  /\ nth (Z.to_nat k_frame_rate) model_important ("", "") = ("imaging", "frame rate")
  /\ nth (Z.to_nat k_pixel_size) model_important ("", "") = ("imaging", "pixel size")
  /\ nth (Z.to_nat k_roi_x) model_important ("", "") = ("imaging", "roi size x")
  /\ nth (Z.to_nat k_roi_y) model_important ("", "") = ("imaging", "roi size y")
  /\ nth (Z.to_nat k_channel_width) model_important ("", "") = ("setup", "channel width")
  /\ nth (Z.to_nat k_flow_rate) model_important ("", "") = ("setup", "flow rate")
  /\ nth (Z.to_nat k_channel_count) model_important ("", "") = ("fluorescence", "channel count")
  /\ nth (Z.to_nat k_laser_count) model_important ("", "") = ("fluorescence", "laser count")
  /\ nth (Z.to_nat k_spe) model_important ("", "") = ("fluorescence", "samples per event")
  /\ map (fun k => nth (Z.to_nat k) model_important ("", ""))
         [k_frame_rate; k_pixel_size; k_channel_width; k_flow_rate]
     = model_greater_zero
  /\ map (fun p => sec_of (Z.of_nat (fst p)))
         (combine (seq 0 27) model_important)
     = map (fun p => if String.eqb (fst p) "experiment" then s_experiment
                     else if String.eqb (fst p) "imaging" then s_imaging
                     else if String.eqb (fst p) "setup" then s_setup
                     else s_fluorescence) model_important.
Proof. vm_compute. repeat split; reflexivity. Qed.
