(* The check_* inventory and key tables of the tree under test (generated
   coq/Gen/CheckInventory.v) are those Model/C13.v was written for.  A new,
   removed or re-levelled check method, or a changed key table, breaks this
   file (fail closed). *)
From Coq Require Import String ZArith List Bool.
From Verif Require Import Model.C13 Gen.CheckInventory.
Import ListNotations.

Definition pair_eqb (a b : string * string) : bool :=
  String.eqb (fst a) (fst b) && String.eqb (snd a) (snd b).
Definition meth_eqb (a b : string * bool) : bool :=
  String.eqb (fst a) (fst b) && Bool.eqb (snd a) (snd b).
Fixpoint list_eqb {A} (e : A -> A -> bool) (l m : list A) : bool :=
  match l, m with
  | [], [] => true
  | x :: l', y :: m' => e x y && list_eqb e l' m'
  | _, _ => false
  end.

(* compared as sets: a reordered table, a new alert/info-level check method
   or another implementation of check()'s dispatch do not break this file; a
   new, removed or re-levelled *violation-level* method, a changed key table
   or a non-empty VALID_CHOICES do *)
Definition incl_b {A} (e : A -> A -> bool) (l m : list A) : bool :=
  forallb (fun x => existsb (e x) m) l.
Definition seteq {A} (e : A -> A -> bool) (l m : list A) : bool :=
  incl_b e l m && incl_b e m l.
Definition violation_methods (l : list (string * bool)) : list string :=
  map fst (filter (fun p : string * bool => snd p) l).

Definition inventory_ok : bool :=
  seteq String.eqb (violation_methods gen_methods)
        (violation_methods model_methods)
  && seteq pair_eqb (firstn gen_n_basic gen_important)
           (firstn model_n_basic model_important)
  && seteq pair_eqb (skipn gen_n_basic gen_important)
           (skipn model_n_basic model_important)
  && match gen_optional_overlap with [] => true | _ => false end
  && seteq pair_eqb gen_greater_zero model_greater_zero
  && seteq String.eqb gen_ignored_unknown model_ignored_unknown
  && seteq String.eqb gen_desirable model_desirable
  && gen_valid_choices_empty.

Lemma inventory_matches : inventory_ok = true.
Proof. vm_compute. reflexivity. Qed.

(* the key ids used by the model denote the keys they are named after *)
Open Scope string_scope.
Lemma key_ids_ok :
  nth (Z.to_nat k_event_count) model_important ("", "") = ("experiment", "event count")
  /\ nth (Z.to_nat k_frame_rate) model_important ("", "") = ("imaging", "frame rate")
  /\ nth (Z.to_nat k_pixel_size) model_important ("", "") = ("imaging", "pixel size")
  /\ nth (Z.to_nat k_roi_x) model_important ("", "") = ("imaging", "roi size x")
  /\ nth (Z.to_nat k_roi_y) model_important ("", "") = ("imaging", "roi size y")
  /\ nth (Z.to_nat k_channel_width) model_important ("", "") = ("setup", "channel width")
  /\ nth (Z.to_nat k_flow_rate) model_important ("", "") = ("setup", "flow rate")
  /\ nth (Z.to_nat k_channel_count) model_important ("", "") = ("fluorescence", "channel count")
  /\ nth (Z.to_nat k_laser_count) model_important ("", "") = ("fluorescence", "laser count")
  /\ nth (Z.to_nat k_spe) model_important ("", "") = ("fluorescence", "samples per event")
  /\ map (fun k => nth (Z.to_nat k) model_important ("", ""))
         [k_frame_rate; k_pixel_size; k_channel_width; k_flow_rate]
     = model_greater_zero
  /\ map (fun p => sec_of (Z.of_nat (fst p)))
         (combine (seq 0 27) model_important)
     = map (fun p => if String.eqb (fst p) "experiment" then s_experiment
                     else if String.eqb (fst p) "imaging" then s_imaging
                     else if String.eqb (fst p) "setup" then s_setup
                     else s_fluorescence) model_important.
Proof. vm_compute. repeat split; reflexivity. Qed.
