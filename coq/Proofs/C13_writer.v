(* C13 - the writer closure: a file whose metadata was completed by
   RTDCWriter.rectify_metadata from complete, consistent input (Model.C13.
   complete_input) has no violation. *)
From Coq Require Import String ZArith List Bool Lia ZifyBool ZifyNat.
From Verif Require Import Model.C13 Proofs.C13.
Import ListNotations.
Open Scope Z_scope.

(* ------------------------------------------------------------------ *)
Lemma insert_Forall (P : Z * Z -> Prop) e l :
  P e -> Forall P l -> Forall P (insert_by_rank e l).
Proof.
  intros He Hl. induction Hl as [|x l Hx Hl IH]; cbn [insert_by_rank].
  - constructor; [exact He|constructor].
  - destruct (fst e <=? fst x).
    + constructor; [exact He|]. constructor; assumption.
    + constructor; assumption.
Qed.

Lemma sort_Forall (P : Z * Z -> Prop) l :
  Forall P l -> Forall P (sort_by_rank l).
Proof.
  intros H. induction H as [|x l Hx Hl IH]; cbn [sort_by_rank fold_right].
  - constructor.
  - apply insert_Forall; assumption.
Qed.

Lemma existsb_ext_in {A} (p q : A -> bool) l :
  (forall x, In x l -> p x = q x) -> existsb p l = existsb q l.
Proof.
  induction l as [|a l IH]; intros H; cbn [existsb]; [reflexivity|].
  rewrite (H a (or_introl eq_refl)), IH; [reflexivity|].
  intros x Hx. apply H. right. exact Hx.
Qed.

Lemma filter_nil {A} (p : A -> bool) l :
  (forall x, In x l -> p x = false) -> filter p l = [].
Proof.
  induction l as [|a l IH]; intros H; cbn [filter]; [reflexivity|].
  rewrite (H a (or_introl eq_refl)). apply IH.
  intros x Hx. apply H. right. exact Hx.
Qed.

Lemma polys_from_nil i l :
  forallb (fun p : Z * Z => (snd p =? 2) && (3 <=? fst p)) l = true ->
  polys_from i l = [].
Proof.
  revert i. induction l as [|[r c] l IH]; intros i H; cbn [polys_from];
    [reflexivity|].
  cbn [forallb fst snd] in H. apply andb_prop in H. destruct H as [H1 H2].
  rewrite (IH (i + 1) H2).
  destruct (negb (c =? 2) || (r <? 3)) eqn:E; [lia|reflexivity].
Qed.

(* ------------------------------------------------------------------ *)
(* the completed values                                                *)
(* ------------------------------------------------------------------ *)
Definition r_spe (f : file) : option Z :=
  match f_traces f with t :: _ => Some (snd (snd t)) | [] => f_spe f end.
Definition r_chcount (f : file) : Z :=
  count_true (map (flmax_nonempty f) [1; 2; 3]).
Definition r_chc (f : file) : option Z :=
  if r_chcount f =? 0 then f_chcount f
  else match f_chcount f with Some c => Some c | None => Some (r_chcount f) end.
Definition r_shape (f : file) : option (Z * Z) :=
  match nonempty_image f 0 with Some s => Some s | None => nonempty_image f 2 end.
Definition r_rx (f : file) : option Z :=
  match r_shape f with Some s => Some (snd s) | None => f_roi_x f end.
Definition r_ry (f : file) : option Z :=
  match r_shape f with Some s => Some (fst s) | None => f_roi_y f end.

Lemma rectify_some f g :
  rectify f = Some g ->
  exists r ev rest,
    sort_by_rank (writer_entries true f) = (r, ev) :: rest
    /\ g = set_rectified f ev (r_spe f) (r_chc f) (r_rx f) (r_ry f).
Proof.
  unfold rectify, rectify_gen.
  destruct (sort_by_rank (writer_entries true f)) as [|[r ev] rest];
    [discriminate|].
  intros H. injection H as <-. exists r, ev, rest. split; reflexivity.
Qed.

Lemma same_shape_clean (fl : file) h w :
  same_shape fl h w = true -> f_roi_x fl = Some w -> f_roi_y fl = Some h ->
  check_metadata_bad fl = [].
Proof.
  intros Hs Hx Hy. unfold check_metadata_bad. rewrite Hx, Hy.
  unfold same_shape in Hs. rewrite forallb_forall in Hs.
  assert (A : forall which, flat_map (fun im : Z * (Z * Z) =>
              if (fst im =? which) && negb (fst (snd im) =? h)
              then [RoiMismatch 0 which] else []) (images fl) = []).
  { intros which. apply flat_map_nil. intros im Him.
    specialize (Hs im Him). destruct (fst im =? which); [|reflexivity].
    destruct (fst (snd im) =? h) eqn:E; [reflexivity|lia]. }
  assert (B : forall which, flat_map (fun im : Z * (Z * Z) =>
              if (fst im =? which) && negb (snd (snd im) =? w)
              then [RoiMismatch 1 which] else []) (images fl) = []).
  { intros which. apply flat_map_nil. intros im Him.
    specialize (Hs im Him). destruct (fst im =? which); [|reflexivity].
    destruct (snd (snd im) =? w) eqn:E; [reflexivity|lia]. }
  rewrite (flat_map_nil _ [0; 1; 2]) by (intros; apply A).
  rewrite (flat_map_nil _ [0; 1; 2]) by (intros; apply B).
  reflexivity.
Qed.

Lemma missing_in_nil fl keys :
  (forall k, In k keys -> key_present fl k = true) -> missing_in fl keys = [].
Proof.
  intros H. unfold missing_in. rewrite filter_nil; [reflexivity|].
  intros k Hk. rewrite (H k Hk). reflexivity.
Qed.

(* ------------------------------------------------------------------ *)
Section WRITER.
  Variable f : file.
  Variable n : Z.
  Hypothesis HC : complete_input f n = true.

  Let g := set_rectified f n (r_spe f) (r_chc f) (r_rx f) (r_ry f).

  (* the components of complete_input *)
  Lemma ci_parts :
    0 < n
    /\ (forall ft, In ft (f_feats f) -> flen (ft_data ft) = n)
    /\ (forall t, In t (f_traces f) -> fst (snd t) = n)
    /\ (forall ft, In ft (f_feats f) ->
          match ft_data ft with
          | Index v => index_ok v n
          | MlScore _ bad => negb bad
          | Temp _ z => negb (f_zmd f && z)
          | _ => true end = true)
    /\ f_unknown f = []
    /\ f_extlink f = false
    /\ match f_traces f with
       | [] => true
       | t :: r => forallb (fun u : Z * (Z * Z) => snd (snd u) =? snd (snd t)) r
       end = true
    /\ match nonempty_image f 0, nonempty_image f 2 with
       | Some s, _ => same_shape f (fst s) (snd s)
       | None, Some s => same_shape f (fst s) (snd s)
       | None, None =>
           match f_roi_x f, f_roi_y f with
           | Some rx, Some ry => same_shape f ry rx
           | _, _ => true
           end
       end = true
    /\ (forall k, 0 <= k < 17 -> key_supplied f k = true)
    /\ (has_fl f = true -> forall k, 17 <= k < 27 -> key_supplied f k = true)
    /\ positive_or_absent (f_frame_rate f) = true
    /\ positive_or_absent (f_pixel_size f) = true
    /\ positive_or_absent (f_channel_width f) = true
    /\ positive_or_absent (f_flow_rate f) = true
    /\ match f_chcount f with
       | Some c => c =? channels_found f
       | None => forallb (fun i => negb (flmax_innate f i) || memZ i (f_chnames f))
                         [1; 2; 3]
       end = true
    /\ match f_lasercount f with
       | Some c => c =? lasers_found f
       | None => true
       end = true
    /\ forallb (fun p : Z * Z => (snd p =? 2) && (3 <=? fst p)) (f_polys f) = true
    /\ forallb (fun b : bool * list Z =>
                  negb (fst b)
                  || match f_basin_events f with
                     | Some g => forallb (fun x => memZ x g) (snd b)
                     | None => false
                     end) (f_basins f) = true.
  Proof.
    pose proof HC as H. unfold complete_input in H.
    apply andb_prop in H; destruct H as [H Hbasins].
    apply andb_prop in H; destruct H as [H Hpolys].
    apply andb_prop in H; destruct H as [H Hlas].
    apply andb_prop in H; destruct H as [H Hch].
    apply andb_prop in H; destruct H as [H Hp4].
    apply andb_prop in H; destruct H as [H Hp3].
    apply andb_prop in H; destruct H as [H Hp2].
    apply andb_prop in H; destruct H as [H Hp1].
    apply andb_prop in H; destruct H as [H Hflk].
    apply andb_prop in H; destruct H as [H Hk].
    apply andb_prop in H; destruct H as [H Hshape].
    apply andb_prop in H; destruct H as [H Hw].
    apply andb_prop in H; destruct H as [H Hext].
    apply andb_prop in H; destruct H as [H Hunk].
    apply andb_prop in H; destruct H as [H Hspecial].
    apply andb_prop in H; destruct H as [H Htr].
    apply andb_prop in H; destruct H as [Hn Hlen].
    rewrite forallb_forall in Hlen, Htr, Hspecial, Hk.
    split; [apply Z.ltb_lt; exact Hn|].
    split; [intros ft Hft; apply Z.eqb_eq; apply Hlen; exact Hft|].
    split; [intros t Ht; apply Z.eqb_eq; apply Htr; exact Ht|].
    split; [exact Hspecial|].
    split; [destruct (f_unknown f); [reflexivity|discriminate]|].
    split; [destruct (f_extlink f); [discriminate|reflexivity]|].
    split; [exact Hw|]. split; [exact Hshape|].
    split; [intros k Hk'; apply Hk; apply in_zrange; clear - Hk'; lia|].
    split.
    { intros Hfl k Hk'. rewrite Hfl in Hflk. cbn [negb orb] in Hflk.
      rewrite forallb_forall in Hflk. apply Hflk. apply in_zrange.
      clear - Hk'. lia. }
    repeat (split; [assumption|]). assumption.
  Qed.

  Lemma flmax_nonempty_innate i : flmax_nonempty f i = flmax_innate f i.
  Proof.
    destruct ci_parts as (Hn & Hlen & _).
    unfold flmax_nonempty, flmax_innate. apply existsb_ext_in.
    intros ft Hft. specialize (Hlen ft Hft).
    destruct (ft_data ft); try reflexivity. cbn [flen] in Hlen.
    destruct (len =? 0) eqn:E; [clear - Hn Hlen E; lia|]. cbn [negb].
    apply andb_true_r.
  Qed.

  Lemma entries_all_n :
    Forall (fun e : Z * Z => snd e = n) (writer_entries true f).
  Proof.
    destruct ci_parts as (Hn & Hlen & Htr & _).
    unfold writer_entries. apply Forall_app. split.
    - apply Forall_forall. intros e He. apply in_map_iff in He.
      destruct He as [ft [<- Hft]]. cbn [snd]. apply Hlen. exact Hft.
    - destruct (ntraces f =? 0) eqn:E; [constructor|].
      constructor; [|constructor]. cbn [snd]. unfold first_trace_len.
      unfold ntraces in E.
      destruct (f_traces f) as [|t r]; [cbn in E; clear - E; lia|].
      apply Htr. left. reflexivity.
  Qed.

  Lemma key_present_mono k : key_present f k = true -> key_present g k = true.
  Proof.
    unfold key_present, g. cbn [f_evcount f_frame_rate f_pixel_size f_roi_x
      f_roi_y f_channel_width f_flow_rate f_chcount f_lasercount f_spe f_plain
      set_rectified].
    destruct (k =? k_event_count); [reflexivity|].
    destruct (k =? k_frame_rate); [auto|].
    destruct (k =? k_pixel_size); [auto|].
    destruct (k =? k_roi_x).
    { unfold r_rx. destruct (r_shape f); [reflexivity|auto]. }
    destruct (k =? k_roi_y).
    { unfold r_ry. destruct (r_shape f); [reflexivity|auto]. }
    destruct (k =? k_channel_width); [auto|].
    destruct (k =? k_flow_rate); [auto|].
    destruct (k =? k_channel_count).
    { unfold r_chc. destruct (r_chcount f =? 0); [auto|].
      destruct (f_chcount f); reflexivity. }
    destruct (k =? k_laser_count); [auto|].
    destruct (k =? k_spe).
    { unfold r_spe. destruct (f_traces f); [auto|reflexivity]. }
    auto.
  Qed.

  Lemma key_supplied_present k : key_supplied f k = true -> key_present g k = true.
  Proof.
    unfold key_supplied. intros H.
    apply orb_prop in H. destruct H as [H|H].
    2:{ (* channel count, set from the fl?_max features *)
      apply andb_prop in H. destruct H as [Hk Hc]. apply Z.eqb_eq in Hk. subst k.
      unfold key_present, g. cbn. unfold r_chc. fold (r_chcount f) in Hc.
      destruct (r_chcount f =? 0); [discriminate|].
      destruct (f_chcount f); reflexivity. }
    apply orb_prop in H. destruct H as [H|H].
    2:{ (* ROI size, set from image or mask *)
      apply andb_prop in H. destruct H as [Hk Hs].
      assert (Hsh : exists s, r_shape f = Some s).
      { unfold r_shape. destruct (nonempty_image f 0) as [s|]; [exists s; reflexivity|].
        destruct (nonempty_image f 2) as [s|]; [exists s; reflexivity|discriminate]. }
      destruct Hsh as [s Hsh].
      apply orb_prop in Hk. destruct Hk as [Hk|Hk]; apply Z.eqb_eq in Hk; subst k;
        unfold key_present, g; cbn; unfold r_rx, r_ry; rewrite Hsh; reflexivity. }
    apply orb_prop in H. destruct H as [H|H].
    2:{ (* samples per event, set from the first trace *)
      apply andb_prop in H. destruct H as [Hk Ht]. apply Z.eqb_eq in Hk. subst k.
      unfold key_present, g. cbn. unfold r_spe. unfold ntraces in Ht.
      destruct (f_traces f); [discriminate|reflexivity]. }
    apply orb_prop in H. destruct H as [H|H].
    2:{ apply Z.eqb_eq in H. subst k. reflexivity. }
    apply key_present_mono. exact H.
  Qed.

  Theorem rectified_clean : violations g = Some [].
  Proof.
    destruct ci_parts as (Hn & Hlen & Htr & Hsp & Hunk & Hext & Hw & Hshape & Hk
                          & Hflk & Hp1 & Hp2 & Hp3 & Hp4 & Hch & Hlas & Hpolys
                          & Hbasins).
    rewrite (violations_defined g n); [|reflexivity|clear - Hn; lia].
    f_equal. unfold violations_n.
    (* 1 basins *)
    assert (A1 : check_basin_features_internal g = []).
    { unfold check_basin_features_internal. change (f_basins g) with (f_basins f).
      change (f_basin_events g) with (f_basin_events f).
      apply flat_map_nil. intros [ok fs] Hin.
      rewrite forallb_forall in Hbasins. specialize (Hbasins _ Hin).
      cbn [fst snd] in *. destruct ok; [|reflexivity]. cbn [negb orb] in Hbasins.
      destruct (f_basin_events f) as [ge|]; [|discriminate].
      rewrite forallb_forall in Hbasins.
      rewrite filter_nil; [reflexivity|].
      intros x Hx. rewrite (Hbasins x Hx). reflexivity. }
    (* 2 external links *)
    assert (A2 : check_external_links g = []).
    { unfold check_external_links. change (f_extlink g) with (f_extlink f).
      rewrite Hext. reflexivity. }
    (* 3 index *)
    assert (A3 : check_feat_index g n = []).
    { unfold check_feat_index. change (f_feats g) with (f_feats f).
      replace (existsb _ (f_feats f)) with false; [reflexivity|].
      symmetry. apply existsb_false_iff. intros ft Hft. specialize (Hsp ft Hft).
      destruct (ft_data ft); try reflexivity. rewrite Hsp. reflexivity. }
    (* 4 sizes *)
    assert (A4 : check_feature_size g n = []).
    { unfold check_feature_size. change (f_feats g) with (f_feats f).
      change (f_traces g) with (f_traces f).
      rewrite !flat_map_nil; [reflexivity| |].
      - intros t Ht. rewrite (Htr t Ht), Z.eqb_refl. reflexivity.
      - intros ft Hft. rewrite (Hlen ft Hft), Z.eqb_refl. reflexivity. }
    (* 5 unknown *)
    assert (A5 : check_features_unknown_hdf5 g = []).
    { unfold check_features_unknown_hdf5. change (f_unknown g) with (f_unknown f).
      rewrite Hunk. reflexivity. }
    (* 6 channels *)
    assert (A6 : check_fl_num_channels g = []).
    { unfold check_fl_num_channels. change (f_chcount g) with (r_chc f).
      change (channels_found g) with (channels_found f).
      unfold r_chc. destruct (f_chcount f) as [c|] eqn:EC.
      - destruct (r_chcount f =? 0); rewrite Hch; reflexivity.
      - destruct (r_chcount f =? 0) eqn:E0; [reflexivity|].
        replace (r_chcount f =? channels_found f) with true; [reflexivity|].
        symmetry. apply Z.eqb_eq. unfold r_chcount, channels_found.
        f_equal. cbn [map forallb] in *.
        rewrite !flmax_nonempty_innate.
        apply andb_prop in Hch. destruct Hch as [H1 Hch].
        apply andb_prop in Hch. destruct Hch as [H2 Hch].
        apply andb_prop in Hch. destruct Hch as [H3 _].
        destruct (flmax_innate f 1), (flmax_innate f 2), (flmax_innate f 3);
          cbn [negb orb] in H1, H2, H3;
          try rewrite H1; try rewrite H2; try rewrite H3;
          rewrite ?andb_false_r; reflexivity. }
    (* 7 lasers *)
    assert (A7 : check_fl_num_lasers g = []).
    { unfold check_fl_num_lasers. change (f_lasercount g) with (f_lasercount f).
      change (lasers_found g) with (lasers_found f).
      destruct (f_lasercount f); [rewrite Hlas|]; reflexivity. }
    (* 8 samples per event *)
    assert (A8 : check_fl_samples_per_event g = []).
    { unfold check_fl_samples_per_event. change (f_spe g) with (r_spe f).
      change (f_traces g) with (f_traces f). unfold r_spe.
      destruct (f_traces f) as [|t r] eqn:ET.
      - destruct (f_spe f); reflexivity.
      - apply flat_map_nil. intros u Hu.
        destruct (fst (snd u) =? 0); [reflexivity|].
        destruct Hu as [<-|Hu]; [rewrite Z.eqb_refl; reflexivity|].
        rewrite forallb_forall in Hw. rewrite (Hw u Hu). reflexivity. }
    (* 9 ROI *)
    assert (A9 : check_metadata_bad g = []).
    { assert (SS : forall h w, same_shape g h w = same_shape f h w) by reflexivity.
      assert (RX : f_roi_x g = r_rx f) by reflexivity.
      assert (RY : f_roi_y g = r_ry f) by reflexivity.
      unfold r_rx, r_ry, r_shape in RX, RY.
      destruct (nonempty_image f 0) as [s|].
      { apply (same_shape_clean g (fst s) (snd s)); [rewrite SS|..]; assumption. }
      destruct (nonempty_image f 2) as [s|].
      { apply (same_shape_clean g (fst s) (snd s)); [rewrite SS|..]; assumption. }
      destruct (f_roi_x f) as [rx|] eqn:EX; destruct (f_roi_y f) as [ry|] eqn:EY.
      - apply (same_shape_clean g ry rx); [rewrite SS|..]; assumption.
      - unfold check_metadata_bad. rewrite RX, RY. reflexivity.
      - unfold check_metadata_bad. rewrite RX. reflexivity.
      - unfold check_metadata_bad. rewrite RX. reflexivity. }
    (* 10 positive values *)
    assert (A10 : check_metadata_bad_greater_zero g = []).
    { unfold check_metadata_bad_greater_zero, greater_zero_values.
      change (f_frame_rate g) with (f_frame_rate f).
      change (f_pixel_size g) with (f_pixel_size f).
      change (f_channel_width g) with (f_channel_width f).
      change (f_flow_rate g) with (f_flow_rate f).
      change (f_evcount g) with (Some n). cbn beta iota.
      assert (EN : (n <? 0) = false) by (clear - Hn; lia). rewrite EN.
      unfold positive_or_absent in Hp1, Hp2, Hp3, Hp4.
      clear - Hp1 Hp2 Hp3 Hp4.
      destruct (f_frame_rate f) as [v1|], (f_pixel_size f) as [v2|],
        (f_channel_width f) as [v3|], (f_flow_rate f) as [v4|];
        cbn [flat_map fst snd app];
        repeat match goal with
               | |- context [?v <=? 0] => destruct (v <=? 0) eqn:?; [lia|]
               end; reflexivity. }
    (* 11 mandatory keys *)
    assert (A11 : check_metadata_missing g = []).
    { assert (HFL : has_fl g = has_fl f) by reflexivity.
      unfold check_metadata_missing. rewrite HFL.
      assert (IS : imaging_section g = true).
      { unfold imaging_section. apply orb_true_iff. right.
        apply existsb_exists. exists 5. split; [apply in_zrange; clear; lia|].
        apply key_supplied_present. apply Hk. clear. lia. }
      rewrite IS.
      assert (M : forall a b, 0 <= a -> b <= 17 -> missing_in g (zrange a b) = []).
      { intros a b Ha Hb. apply missing_in_nil. intros k Hk'.
        apply in_zrange in Hk'. apply key_supplied_present. apply Hk.
        clear - Hk' Ha Hb. lia. }
      unfold imaging_keys. rewrite !M by (clear; lia).
      destruct (has_fl f) eqn:EF; [|reflexivity].
      rewrite missing_in_nil; [reflexivity|].
      intros k Hk'. apply in_zrange in Hk'. apply key_supplied_present.
      apply Hflk; [reflexivity|clear - Hk'; lia]. }
    (* 12 polygons *)
    assert (A12 : check_metadata_online_filter_polygon_points_shape g = []).
    { unfold check_metadata_online_filter_polygon_points_shape.
      change (f_polys g) with (f_polys f). apply polys_from_nil. exact Hpolys. }
    (* 13 ml_class *)
    assert (A13 : check_ml_class g n = []).
    { unfold check_ml_class. change (f_feats g) with (f_feats f).
      replace (existsb (fun ft => match ft_data ft with
                                  | MlScore l bad => _
                                  | _ => false end) (f_feats f)) with false;
        [rewrite andb_false_r; reflexivity|].
      symmetry. apply existsb_false_iff. intros ft Hft.
      specialize (Hsp ft Hft). specialize (Hlen ft Hft).
      destruct (ft_data ft); try reflexivity. cbn [flen] in Hlen.
      destruct bad; [discriminate|]. subst len.
      destruct (n =? 0) eqn:E; [clear - Hn E; lia|]. rewrite Z.eqb_refl.
      reflexivity. }
    (* 14 temperature *)
    assert (A14 : check_temperature_zero_zmd g = []).
    { unfold check_temperature_zero_zmd. change (f_zmd g) with (f_zmd f).
      change (f_feats g) with (f_feats f).
      destruct (f_zmd f) eqn:EZ; [|reflexivity]. cbn [andb].
      replace (existsb _ (f_feats f)) with false; [reflexivity|].
      symmetry. apply existsb_false_iff. intros ft Hft. specialize (Hsp ft Hft).
      destruct (ft_data ft); try reflexivity.
      destruct allzero; [discriminate|reflexivity]. }
    rewrite A1, A2, A3, A4, A5, A6, A7, A8, A9, A10, A11, A12, A13, A14.
    unfold check_metadata_choices. destruct (has_fl g); reflexivity.
  Qed.
End WRITER.

Theorem writer_output_clean f n g :
  complete_input f n = true -> rectify f = Some g -> violations g = Some [].
Proof.
  intros HC HR. destruct (rectify_some f g HR) as (r & ev & rest & ES & ->).
  pose proof (sort_Forall _ _ (entries_all_n f n HC)) as HF.
  rewrite ES in HF. inversion HF as [|x l Hx _]. cbn [snd] in Hx. subst ev.
  apply rectified_clean. exact HC.
Qed.

(* the writer always completes such input *)
Theorem writer_completes f n :
  complete_input f n = true ->
  (f_feats f <> [] \/ f_traces f <> []) -> exists g, rectify f = Some g.
Proof.
  intros HC Hne. unfold rectify, rectify_gen.
  destruct (sort_by_rank (writer_entries true f)) as [|[r ev] rest] eqn:ES.
  - exfalso.
    assert (L : length (sort_by_rank (writer_entries true f))
                = length (writer_entries true f)).
    { generalize (writer_entries true f). intros l.
      induction l as [|e l IH]; [reflexivity|].
      cbn [sort_by_rank fold_right length]. fold (sort_by_rank l). rewrite <- IH.
      generalize (sort_by_rank l). intros m.
      induction m as [|x m IHm]; cbn [insert_by_rank length]; [reflexivity|].
      destruct (fst e <=? fst x); cbn [length]; [reflexivity|].
      rewrite IHm. reflexivity. }
    rewrite ES in L. unfold writer_entries in L. rewrite app_length, map_length in L.
    cbn [length] in L. unfold ntraces in L.
    destruct Hne as [Hne|Hne].
    + destruct (f_feats f); [contradiction|]. cbn [length] in L. lia.
    + destruct (f_traces f); [contradiction|]. cbn [length] in L.
      destruct (Z.of_nat (S (length l)) =? 0) eqn:E; [lia|]. cbn [length] in L. lia.
  - eexists. reflexivity.
Qed.

(* ------------------------------------------------------------------ *)
(* non-vacuity and the two defects on the writer side                  *)
(* ------------------------------------------------------------------ *)
(* fl1_max + image + mask + two traces + stored index; ROI size, event
   count, samples per event and channel count are left to the writer *)
Definition ex_input : file :=
  mkFile None
         [mkFeat 0 (Plain 3); mkFeat 1 (FlMax 1 3); mkFeat 2 (Image 0 3 4 6);
          mkFeat 3 (Index [1; 2; 3]); mkFeat 4 (Image 2 3 4 6)]
         5 [(0, (3, 12)); (1, (3, 12))] [] false
         None None (Some 128000) (Some 24) (Some 1280) (Some 4)
         [0; 2; 3; 4; 5; 6; 9; 10; 14; 16; 17; 19; 21; 22; 24; 25; 26] false
         None [1] (Some 1) [1] [(1, 640)] None [(4, 2)] false [] None.

Example ex_input_complete : complete_input ex_input 3 = true.
Proof. vm_compute. reflexivity. Qed.

Example ex_input_written :
  exists g, rectify ex_input = Some g /\ violations g = Some []
            /\ f_evcount g = Some 3 /\ f_roi_x g = Some 6 /\ f_spe g = Some 12
            /\ f_chcount g = Some 1.
Proof. eexists. split; [reflexivity|]. vm_compute. repeat split. Qed.

(* HISTORICAL (the code no longer exists, tied to nothing): before dclab
   commit ea8e52b a dataset
   whose alphabetically first feature is "trace" gets the number of traces as
   event count and is then reported with violations *)
Definition ex_trace_first : file :=
  mkFile None [mkFeat 1 (Plain 5)] 0 [(1, (5, 12)); (3, (5, 12))] [] false
         (Some 6) (Some 4) (Some 128000) (Some 24) (Some 1280) (Some 4)
         [0; 2; 3; 4; 5; 6; 9; 10; 14; 16] false
         (Some 0) [] (Some 0) [] [] None [] false [] None.

Lemma writer_unfixed_refuted :
  exists f n g, complete_input f n = true /\ rectify_gen false f = Some g
                /\ violations g = Some [FeatureSize 1; TraceSize 1; TraceSize 3].
Proof.
  exists ex_trace_first, 5. eexists.
  split; [vm_compute; reflexivity|]. split; [reflexivity|].
  vm_compute. reflexivity.
Qed.

Definition ex_two_channels : file :=
  mkFile None
         [mkFeat 0 (Plain 3); mkFeat 1 (FlMax 1 3); mkFeat 2 (FlMax 2 3)]
         5 [] [] false
         (Some 6) (Some 4) (Some 128000) (Some 24) (Some 1280) (Some 4)
         [0; 2; 3; 4; 5; 6; 9; 10; 14; 16; 17; 19; 21; 22; 24; 25; 26] false
         None [1; 2] (Some 0) [] [] (Some 12) [] false [] None.


(* ------------------------------------------------------------------ *)
(* exit status of dclab-verify-dataset                                 *)
(* ------------------------------------------------------------------ *)
Lemma exit_status_range r v a :
  In (exit_status r v a) [0; 1; 2; 3; 4].
Proof.
  unfold exit_status. destruct r; [cbn; tauto|].
  destruct ((0 <? a) && (0 <? v)); [cbn; tauto|].
  destruct (0 <? a); [cbn; tauto|]. destruct (0 <? v); cbn; tauto.
Qed.

Lemma verify_exit_zero f a :
  0 <= a -> (verify_exit f a = 0 <-> violations f = Some [] /\ a = 0).
Proof.
  intros Ha. unfold verify_exit, exit_status.
  destruct (violations f) as [cs|].
  - destruct cs as [|c cs]; cbn [length].
    + change (Z.of_nat 0) with 0. cbn [Z.ltb Z.compare andb].
      rewrite andb_false_r. destruct (0 <? a) eqn:E; split.
      * discriminate.
      * intros [_ H]. lia.
      * intros _. split; [reflexivity|lia].
      * reflexivity.
    + assert (P : 0 <? Z.of_nat (S (length cs)) = true) by lia. rewrite P.
      rewrite andb_true_r. destruct (0 <? a); split; try discriminate;
        intros [H _]; discriminate.
  - split; [discriminate|]. intros [H _]. discriminate.
Qed.

Lemma verify_exit_violations f cs a :
  0 <= a -> violations f = Some cs -> cs <> [] ->
  (a = 0 -> verify_exit f a = 2) /\ (0 < a -> verify_exit f a = 3).
Proof.
  intros Ha Hv Hne. unfold verify_exit, exit_status. rewrite Hv.
  destruct cs as [|c cs]; [contradiction|]. cbn [length].
  assert (P : 0 <? Z.of_nat (S (length cs)) = true) by lia. rewrite P.
  rewrite andb_true_r. split; intros H.
  - subst a. reflexivity.
  - assert (Q : 0 <? a = true) by lia. rewrite Q. reflexivity.
Qed.

Lemma verify_exit_raises f a : violations f = None -> verify_exit f a = 4.
Proof. intros H. unfold verify_exit. rewrite H. reflexivity. Qed.

Lemma writer_output_exit f n g :
  complete_input f n = true -> rectify f = Some g -> verify_exit g 0 = 0.
Proof.
  intros HC HR. apply verify_exit_zero; [lia|]. split; [|reflexivity].
  eapply writer_output_clean; eassumption.
Qed.
