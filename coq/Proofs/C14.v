(* Proofs about Model/C14.v: termination of basin resolution on every
   reference graph, isolation of network formats from the local file system,
   and what can be listed / served. *)
From Coq Require Import ZArith List Bool Lia Arith.
From Verif Require Import Model.C14.
Import ListNotations.
Open Scope Z_scope.

(* ------------------------------------------------------------ lists *)
Lemma memz_In : forall x l, memz x l = true <-> In x l.
Proof.
  intros x l; induction l as [|y r IH]; cbn [memz In].
  - split; [discriminate | tauto].
  - rewrite orb_true_iff, IH, Z.eqb_eq. split; intros [H|H]; auto.
Qed.

Lemma memz_false : forall x l, memz x l = false <-> ~ In x l.
Proof.
  intros x l. rewrite <- memz_In. destruct (memz x l); split; intros H.
  - discriminate.
  - exfalso; apply H; reflexivity.
  - intros H'; discriminate.
  - reflexivity.
Qed.

Lemma insert_u_In : forall x y l, In y (insert_u x l) <-> y = x \/ In y l.
Proof.
  intros x y l; induction l as [|z r IH]; cbn [insert_u].
  - cbn [In]. intuition.
  - destruct (x <? z) eqn:E1.
    + cbn [In]. intuition.
    + destruct (x =? z) eqn:E2.
      * apply Z.eqb_eq in E2. subst z. cbn [In]. intuition.
      * cbn [In]. rewrite IH. intuition.
Qed.

Lemma sortdedup_In : forall x l, In x (sortdedup l) <-> In x l.
Proof.
  intros x l; induction l as [|y r IH]; cbn [sortdedup fold_right].
  - tauto.
  - fold (sortdedup r). rewrite insert_u_In, IH. cbn [In]. intuition.
Qed.

Lemma list_eqb_eq : forall a b, list_eqb a b = true <-> a = b.
Proof.
  induction a as [|x a IH]; destruct b as [|y b]; cbn [list_eqb];
    try (split; [discriminate | discriminate]); try tauto.
  rewrite andb_true_iff, Z.eqb_eq, IH. split.
  - intros [-> ->]; reflexivity.
  - intros H; inversion H; auto.
Qed.

Lemma prefixb_spec : forall p s, prefixb p s = true <-> exists r, s = p ++ r.
Proof.
  induction p as [|x p IH]; intros s; cbn [prefixb].
  - split; [intros _; exists s; reflexivity | reflexivity].
  - destruct s as [|y s].
    + split; [discriminate | intros [r H]; discriminate].
    + rewrite andb_true_iff, Z.eqb_eq, IH. split.
      * intros [-> [r ->]]. exists r; reflexivity.
      * intros [r H]. inversion H; subst. split; [reflexivity|].
        exists r; reflexivity.
Qed.

Lemma insert_b_In : forall b x l, In x (insert_b b l) <-> x = b \/ In x l.
Proof.
  intros b x l; induction l as [|y r IH]; cbn [insert_b].
  - cbn [In]. intuition.
  - destruct (prio b <=? prio y); cbn [In]; [|rewrite IH]; intuition.
Qed.

Lemma sort_basins_In : forall x l, In x (sort_basins l) <-> In x l.
Proof.
  intros x l; induction l as [|y r IH]; cbn [sort_basins fold_right].
  - tauto.
  - fold (sort_basins r). rewrite insert_b_In, IH. cbn [In]. intuition.
Qed.

(* ------------------------------------------- the measure: open keys *)
Definition notin (ign : list Z) (k : Z) : bool := negb (memz k ign).

Definition remaining (w : world) (ign : list Z) : nat :=
  length (filter (notin ign) (nodup Z.eq_dec (all_keys w))).

Lemma notin_unfold : forall ign k, notin ign k = negb (memz k ign).
Proof. reflexivity. Qed.

Lemma filter_le : forall (U : list Z) ign ign',
    (forall x, memz x ign = true -> memz x ign' = true) ->
    (length (filter (notin ign') U) <= length (filter (notin ign) U))%nat.
Proof.
  intros U ign ign' Hsub; induction U as [|u U IH]; cbn [filter length].
  - lia.
  - rewrite (notin_unfold ign' u), (notin_unfold ign u).
    destruct (memz u ign) eqn:E.
    + rewrite (Hsub _ E). cbn [negb]. exact IH.
    + destruct (memz u ign'); cbn [negb length]; lia.
Qed.

Lemma filter_lt : forall (U : list Z) ign ign' k,
    (forall x, memz x ign = true -> memz x ign' = true) ->
    In k U -> memz k ign = false -> memz k ign' = true ->
    (length (filter (notin ign') U) < length (filter (notin ign) U))%nat.
Proof.
  intros U ign ign' k Hsub; induction U as [|u U IH]; intros Hin Hk Hk'.
  - destruct Hin.
  - cbn [filter]. destruct Hin as [->|Hin].
    + rewrite (notin_unfold ign' k), (notin_unfold ign k), Hk, Hk'.
      cbn [negb length].
      pose proof (filter_le U ign ign' Hsub). lia.
    + specialize (IH Hin Hk Hk').
      rewrite (notin_unfold ign' u), (notin_unfold ign u).
      destruct (memz u ign) eqn:E.
      * rewrite (Hsub _ E). cbn [negb]. exact IH.
      * destruct (memz u ign'); cbn [negb length]; lia.
Qed.

Lemma remaining_le_keys : forall w ign,
    (remaining w ign <= length (nodup Z.eq_dec (all_keys w)))%nat.
Proof.
  intros w ign. unfold remaining.
  induction (nodup Z.eq_dec (all_keys w)) as [|u U IH]; cbn [filter length].
  - lia.
  - destruct (notin ign u); cbn [length]; lia.
Qed.

(* --------------------------------------- what basins_retrieve returns *)
Definition from_def (w : world) (fm : fmt) (i : nat) (f : file)
           (keys ign : list Z) (b : basin) (rb : rbasin) : Prop :=
  (exists t, rb = mk_rb i f keys b t)
  /\ memz (b_key b) ign = false
  /\ (kclass (b_kind b) = CHdf5 -> local_allowed fm = true)
  /\ (ktype (b_kind b) = TFile -> verify w rb = true).

Lemma file_loop_spec : forall w i f keys b locs rb,
    In rb (fst (file_loop w i f keys b locs)) ->
    (exists t, rb = mk_rb i f keys b t) /\ verify w rb = true.
Proof.
  intros w i f keys b locs; induction locs as [|l rest IH]; intros rb;
    cbn [file_loop].
  - cbn. tauto.
  - destruct (verify w (mk_rb i f keys b
                              (resolve_asis w (kclass (b_kind b)) l))) eqn:V1.
    + cbn [fst In]. intros [<-|[]]. split; [eexists; reflexivity | exact V1].
    + destruct (verify w (mk_rb i f keys b
                                (resolve_rel w (kclass (b_kind b)) l))) eqn:V2.
      * cbn [fst In]. intros [<-|[]].
        split; [eexists; reflexivity | exact V2].
      * destruct (file_loop w i f keys b rest) as [r p] eqn:E.
        cbn [fst] in *. exact (IH rb).
Qed.

Lemma retrieve_one_spec : forall w fm i f keys ign b rb,
    In rb (fst (retrieve_one w fm i f keys ign b)) ->
    from_def w fm i f keys ign b rb.
Proof.
  intros w fm i f keys ign b rb. unfold retrieve_one, from_def.
  destruct (memz (b_key b) ign) eqn:Ek; [cbn; tauto|].
  destruct ((match kclass (b_kind b) with CHdf5 => true | _ => false end)
            && negb (local_allowed fm)) eqn:Ec; [cbn; tauto|].
  assert (Hcls : kclass (b_kind b) = CHdf5 -> local_allowed fm = true).
  { intros Hc. rewrite Hc in Ec. cbn in Ec.
    destruct (local_allowed fm); [reflexivity | discriminate]. }
  destruct (ktype (b_kind b)) eqn:Et.
  - destruct (b_locs b) as [|l ls]; [cbn; tauto|].
    cbn [fst In]. intros [<-|[]].
    split; [eexists; reflexivity|]. split; [reflexivity|].
    split; [exact Hcls | discriminate].
  - destruct (negb (local_allowed fm)); [cbn; tauto|].
    intros Hin. apply file_loop_spec in Hin. destruct Hin as [Ht Hv].
    split; [exact Ht|]. split; [reflexivity|]. split; [exact Hcls|].
    intros _; exact Hv.
  - cbn [fst]. rewrite in_map_iff. intros [l [<- _]].
    split; [eexists; reflexivity|]. split; [reflexivity|].
    split; [exact Hcls | discriminate].
Qed.

Lemma retrieve_loop_spec : forall w fm i f keys ign bs rb,
    In rb (fst (retrieve_loop w fm i f keys ign bs)) ->
    exists b, In b bs /\ from_def w fm i f keys ign b rb.
Proof.
  intros w fm i f keys ign bs; induction bs as [|b rest IH]; intros rb;
    cbn [retrieve_loop].
  - cbn. tauto.
  - destruct (retrieve_one w fm i f keys ign b) as [mine mypr] eqn:E1.
    destruct (retrieve_loop w fm i f keys ign rest) as [rbs pr] eqn:E2.
    cbn [fst] in *. rewrite in_app_iff. intros [H|H].
    + exists b. split; [left; reflexivity|].
      apply retrieve_one_spec. rewrite E1. exact H.
    + destruct (IH rb H) as [b' [Hb' Hd]]. exists b'. split; [right|]; auto.
Qed.

Lemma retrieve_spec : forall w fm i ign rb,
    In rb (fst (retrieve w fm i ign)) ->
    exists f b, nth_error w i = Some f /\ In b (f_basins f)
                /\ from_def w fm i f
                            (map b_key (sort_basins (f_basins f)) ++ ign)
                            ign b rb.
Proof.
  intros w fm i ign rb. unfold retrieve.
  destruct (nth_error w i) as [f|] eqn:E; [|cbn; tauto].
  intros H. apply retrieve_loop_spec in H. destruct H as [b [Hb Hd]].
  exists f, b. split; [reflexivity|]. split; [|exact Hd].
  apply sort_basins_In. exact Hb.
Qed.

(* without permission for local basins nothing is probed *)
Lemma retrieve_no_probe : forall w fm i ign,
    local_allowed fm = false -> snd (retrieve w fm i ign) = [].
Proof.
  intros w fm i ign Hl. unfold retrieve.
  destruct (nth_error w i) as [f|]; [|reflexivity].
  generalize (map b_key (sort_basins (f_basins f)) ++ ign) as keys.
  intros keys. induction (sort_basins (f_basins f)) as [|b rest IH];
    cbn [retrieve_loop]; [reflexivity|].
  destruct (retrieve_one w fm i f keys ign b) as [mine mypr] eqn:E1.
  destruct (retrieve_loop w fm i f keys ign rest) as [rbs pr] eqn:E2.
  cbn [snd] in *. subst pr. rewrite app_nil_r.
  unfold retrieve_one in E1. rewrite Hl in E1. cbn [negb] in E1.
  destruct (memz (b_key b) ign); [inversion E1; reflexivity|].
  rewrite andb_true_r in E1.
  destruct (kclass (b_kind b)) eqn:Ec; destruct (ktype (b_kind b)) eqn:Et;
    try (inversion E1; reflexivity);
    destruct (b_locs b); inversion E1; reflexivity.
Qed.

Lemma key_in_all_keys : forall w i f b,
    nth_error w i = Some f -> In b (f_basins f) -> In (b_key b) (all_keys w).
Proof.
  intros w i f b Hn Hb. unfold all_keys. apply in_flat_map.
  exists f. split; [eapply nth_error_In; eauto|].
  apply in_map. exact Hb.
Qed.

Lemma mk_rb_ign : forall i f keys b t, rb_ign (mk_rb i f keys b t) = keys.
Proof. reflexivity. Qed.

(* every followed edge strictly shrinks the set of keys not yet ignored *)
Lemma followed_edge_decreases : forall w fm i ign rb,
    In rb (fst (retrieve w fm i ign)) ->
    (remaining w (rb_ign rb) < remaining w ign)%nat.
Proof.
  intros w fm i ign rb H.
  destruct (retrieve_spec _ _ _ _ _ H) as [f [b [Hn [Hb [[t ->] [Hk _]]]]]].
  rewrite mk_rb_ign. unfold remaining.
  apply filter_lt with (k := b_key b).
  - intros x Hx. apply memz_In. apply in_or_app. right.
    apply memz_In. exact Hx.
  - apply nodup_In. eapply key_in_all_keys; eauto.
  - exact Hk.
  - apply memz_In. apply in_or_app. left. apply in_map.
    apply sort_basins_In. exact Hb.
Qed.

(* ------------------------------------------------------ termination *)
Lemma build_kids_some : forall rec rbs,
    (forall rb fm' j, In rb rbs -> rb_child rb = Some (fm', j) ->
                      rec fm' j (rb_ign rb) <> None) ->
    build_kids rec rbs <> None.
Proof.
  intros rec rbs; induction rbs as [|rb rest IH]; intros H;
    cbn [build_kids]; [discriminate|].
  destruct (build_kids rec rest) as [fr|] eqn:E.
  - destruct (rb_child rb) as [[fm' j]|] eqn:Ec; [|discriminate].
    destruct (rec fm' j (rb_ign rb)) eqn:Er; [discriminate|].
    exfalso. eapply H; [left; reflexivity | exact Ec | exact Er].
  - exfalso. apply IH; [|reflexivity].
    intros rb' fm' j Hin. apply H. right; exact Hin.
Qed.

Lemma build_S : forall w k fm i ign,
    build w (S k) fm i ign =
    let '(rbs, probed) := retrieve w fm i ign in
    match build_kids (build w k) rbs with
    | None => None
    | Some kids => Some (Tree fm i probed kids)
    end.
Proof. reflexivity. Qed.

Lemma build_enough_fuel : forall w n fm i ign,
    (remaining w ign <= n)%nat -> build w (S n) fm i ign <> None.
Proof.
  intros w n; induction n as [|n IH]; intros fm i ign Hr.
  - rewrite build_S. destruct (retrieve w fm i ign) as [rbs pr] eqn:E.
    destruct (build_kids (build w 0) rbs) eqn:Ek; [discriminate|].
    exfalso. revert Ek. apply build_kids_some.
    intros rb fm' j Hin _.
    assert (H : In rb (fst (retrieve w fm i ign))) by (rewrite E; exact Hin).
    apply followed_edge_decreases in H. lia.
  - rewrite build_S.
    destruct (retrieve w fm i ign) as [rbs pr] eqn:E.
    destruct (build_kids (build w (S n)) rbs) eqn:Ek; [discriminate|].
    exfalso. revert Ek. apply build_kids_some.
    intros rb fm' j Hin _. apply IH.
    assert (H : In rb (fst (retrieve w fm i ign))) by (rewrite E; exact Hin).
    apply followed_edge_decreases in H. lia.
Qed.

(* Opening terminates: with fuel = number of distinct basin keys + 1 the
   resolution never runs out of fuel, for every world (every reference
   graph), every root format, every root file and every initial ignore list *)
Lemma open_terminates : forall w fm i ign,
    build w (fuel_for w) fm i ign <> None.
Proof.
  intros w fm i ign. unfold fuel_for. apply build_enough_fuel.
  apply remaining_le_keys.
Qed.

(* ------------------------------------------------- tree invariants *)
Definition tree_fmt (t : tree) : fmt := match t with Tree fm _ _ _ => fm end.

Definition rb_ok (w : world) (fm : fmt) (i : nat) (rb : rbasin) : Prop :=
  rb_self rb = i
  /\ rb_ref rb = rid_of w i
  /\ (ktype (b_kind (rb_b rb)) = TFile -> verify w rb = true)
  /\ (rb_class rb = CHdf5 -> local_allowed fm = true).

Fixpoint inv (w : world) (t : tree) : Prop :=
  match t with
  | Tree fm i pr kids =>
      (local_allowed fm = false -> pr = []) /\ finv w fm i kids
  end
with finv (w : world) (fm : fmt) (i : nat) (f : forest) : Prop :=
  match f with
  | FNil => True
  | FLeaf rb rest => rb_ok w fm i rb /\ rb_child rb = None /\ finv w fm i rest
  | FNode rb t rest =>
      rb_ok w fm i rb /\ rb_child rb = Some (tree_fmt t, tree_file t)
      /\ inv w t /\ finv w fm i rest
  end.

Lemma build_shape : forall w fuel fm i ign t,
    build w fuel fm i ign = Some t -> tree_fmt t = fm /\ tree_file t = i.
Proof.
  intros w fuel fm i ign t. destruct fuel as [|k];
    [cbn [build]; discriminate | rewrite build_S].
  destruct (retrieve w fm i ign) as [rbs pr].
  destruct (build_kids (build w k) rbs); [|discriminate].
  intros H; inversion H; subst. split; reflexivity.
Qed.

Lemma retrieve_rb_ok : forall w fm i ign rb,
    In rb (fst (retrieve w fm i ign)) -> rb_ok w fm i rb.
Proof.
  intros w fm i ign rb H.
  destruct (retrieve_spec _ _ _ _ _ H)
    as [f [b [Hn [Hb [[t Heq] [Hk [Hc Hv]]]]]]].
  unfold rb_ok. subst rb. cbn [rb_self rb_ref rb_b mk_rb].
  split; [reflexivity|]. split; [unfold rid_of; rewrite Hn; reflexivity|].
  split; [exact Hv|]. unfold rb_class. cbn [rb_b]. exact Hc.
Qed.

Lemma build_kids_inv : forall w fm i (rec : fmt -> nat -> list Z -> option tree)
                              rbs f,
    (forall fm' j ign t, rec fm' j ign = Some t ->
                         inv w t /\ tree_fmt t = fm' /\ tree_file t = j) ->
    (forall rb, In rb rbs -> rb_ok w fm i rb) ->
    build_kids rec rbs = Some f -> finv w fm i f.
Proof.
  intros w fm i rec rbs; induction rbs as [|rb rest IH]; intros f Hrec Hok;
    cbn [build_kids].
  - intros H; inversion H; subst. exact I.
  - destruct (build_kids rec rest) as [fr|] eqn:E; [|discriminate].
    assert (Hrest : finv w fm i fr).
    { apply IH; auto. intros rb' Hin. apply Hok. right; exact Hin. }
    destruct (rb_child rb) as [[fm' j]|] eqn:Ec.
    + destruct (rec fm' j (rb_ign rb)) as [t|] eqn:Er; [|discriminate].
      intros H; inversion H; subst. cbn [finv].
      destruct (Hrec _ _ _ _ Er) as [Hi [Hf Hj]].
      split; [apply Hok; left; reflexivity|].
      split; [rewrite Hf, Hj; exact Ec|]. split; assumption.
    + intros H; inversion H; subst. cbn [finv].
      split; [apply Hok; left; reflexivity|]. split; [exact Ec|].
      assumption.
Qed.

Lemma build_inv : forall w fuel fm i ign t,
    build w fuel fm i ign = Some t -> inv w t.
Proof.
  intros w fuel; induction fuel as [|k IH]; intros fm i ign t;
    [cbn [build]; discriminate | rewrite build_S].
  destruct (retrieve w fm i ign) as [rbs pr] eqn:E.
  destruct (build_kids (build w k) rbs) as [kids|] eqn:Ek; [|discriminate].
  intros H; inversion H; subst. cbn [inv]. split.
  - intros Hl. pose proof (retrieve_no_probe w fm i ign Hl) as Hp.
    rewrite E in Hp. exact Hp.
  - eapply build_kids_inv; [| |exact Ek].
    + intros fm' j ign' t' Hb. split; [eapply IH; eauto|].
      eapply build_shape; eauto.
    + intros rb Hin. eapply retrieve_rb_ok. rewrite E. exact Hin.
Qed.

Scheme tree_ind2 := Induction for tree Sort Prop
  with forest_ind2 := Induction for forest Sort Prop.
Combined Scheme tree_forest_ind from tree_ind2, forest_ind2.

(* ------------------------------------------- isolation of remote roots *)
Fixpoint tree_edges (t : tree) : list rbasin :=
  match t with Tree _ _ _ kids => forest_edges kids end
with forest_edges (f : forest) : list rbasin :=
  match f with
  | FNil => []
  | FLeaf rb rest => rb :: forest_edges rest
  | FNode rb t rest => rb :: tree_edges t ++ forest_edges rest
  end.

Lemma class_fmt_nonlocal : forall c,
    c <> CHdf5 -> c <> CInternal -> local_allowed (class_fmt c) = false.
Proof. intros [] H1 H2; try reflexivity; congruence. Qed.

Lemma rb_child_fmt : forall rb fm' j,
    rb_child rb = Some (fm', j) ->
    fm' = class_fmt (rb_class rb) /\ rb_class rb <> CInternal.
Proof.
  intros rb fm' j. unfold rb_child.
  destruct (rb_class rb) eqn:Ec; try discriminate;
    destruct (rb_tgt rb); try discriminate;
    intros H; inversion H; subst; split; try reflexivity; discriminate.
Qed.

Lemma nonlocal_isolated_aux : forall w,
    (forall t, inv w t -> local_allowed (tree_fmt t) = false ->
               ttouched t = []
               /\ Forall (fun rb => rb_class rb <> CHdf5) (tree_edges t))
    /\ (forall f fm i, finv w fm i f -> local_allowed fm = false ->
                       ftouched f = []
                       /\ Forall (fun rb => rb_class rb <> CHdf5)
                                 (forest_edges f)).
Proof.
  intros w. apply tree_forest_ind.
  - intros fm fid pr kids IH [Hpr Hk] Hl. cbn [tree_fmt] in Hl.
    cbn [ttouched tree_edges]. rewrite Hl, (Hpr Hl).
    destruct (IH fm fid Hk Hl) as [Ht He]. rewrite Ht. split; auto.
  - intros fm i _ _. cbn. split; auto.
  - intros rb rest IH fm i [Hok [Hc Hrest]] Hl. cbn [ftouched forest_edges].
    destruct (IH fm i Hrest Hl) as [Ht He]. split; [exact Ht|].
    constructor; [|exact He].
    destruct Hok as [_ [_ [_ Hcls]]]. intros Hc'. rewrite (Hcls Hc') in Hl.
    discriminate.
  - intros rb t IHt rest IHr fm i [Hok [Hc [Hi Hrest]]] Hl.
    cbn [ftouched forest_edges].
    destruct (IHr fm i Hrest Hl) as [Ht He].
    assert (Hncls : rb_class rb <> CHdf5).
    { destruct Hok as [_ [_ [_ Hcls]]]. intros Hc'.
      rewrite (Hcls Hc') in Hl. discriminate. }
    destruct (rb_child_fmt _ _ _ Hc) as [Hf Hni].
    assert (Hl' : local_allowed (tree_fmt t) = false).
    { rewrite Hf. apply class_fmt_nonlocal; assumption. }
    destruct (IHt Hi Hl') as [Ht' He']. rewrite Ht', Ht.
    split; [reflexivity|]. constructor; [exact Hncls|].
    apply Forall_app. split; assumption.
Qed.

(* A dataset opened through a network format never opens a file by local
   path and never instantiates a basin class that reads the local file
   system, at any depth of nesting. *)
Lemma no_local_from_remote : forall w fuel fm i ign t,
    build w fuel fm i ign = Some t ->
    local_allowed fm = false ->
    ttouched t = []
    /\ Forall (fun rb => class_type (rb_class rb) <> TFile) (tree_edges t).
Proof.
  intros w fuel fm i ign t Hb Hl.
  pose proof (build_inv _ _ _ _ _ _ Hb) as Hi.
  destruct (build_shape _ _ _ _ _ _ Hb) as [Hf _].
  destruct (nonlocal_isolated_aux w) as [H _].
  rewrite <- Hf in Hl. destruct (H t Hi Hl) as [Ht He].
  split; [exact Ht|]. eapply Forall_impl; [|exact He].
  intros rb Hc. cbv beta in Hc. destruct (rb_class rb); cbn [class_type];
    try discriminate. exfalso; apply Hc; reflexivity.
Qed.

(* ------------------------------------------------ depth is bounded *)
Fixpoint depth (t : tree) : nat :=
  match t with Tree _ _ _ kids => S (fdepth kids) end
with fdepth (f : forest) : nat :=
  match f with
  | FNil => 0
  | FLeaf _ rest => fdepth rest
  | FNode _ t rest => Nat.max (depth t) (fdepth rest)
  end.

Lemma build_kids_depth : forall (rec : fmt -> nat -> list Z -> option tree) k rbs f,
    (forall fm j ign t, rec fm j ign = Some t -> (depth t <= k)%nat) ->
    build_kids rec rbs = Some f -> (fdepth f <= k)%nat.
Proof.
  intros rec k rbs; induction rbs as [|rb rest IH]; intros f Hrec;
    cbn [build_kids].
  - intros H; inversion H; subst. cbn. lia.
  - destruct (build_kids rec rest) as [fr|] eqn:E; [|discriminate].
    specialize (IH fr Hrec eq_refl).
    destruct (rb_child rb) as [[fm' j]|].
    + destruct (rec fm' j (rb_ign rb)) as [t|] eqn:Er; [|discriminate].
      intros H; inversion H; subst. cbn [fdepth].
      pose proof (Hrec _ _ _ _ Er). lia.
    + intros H; inversion H; subst. cbn [fdepth]. exact IH.
Qed.

Lemma build_depth : forall w fuel fm i ign t,
    build w fuel fm i ign = Some t -> (depth t <= fuel)%nat.
Proof.
  intros w fuel; induction fuel as [|k IH]; intros fm i ign t;
    [cbn [build]; discriminate | rewrite build_S].
  destruct (retrieve w fm i ign) as [rbs pr].
  destruct (build_kids (build w k) rbs) as [kids|] eqn:Ek; [|discriminate].
  intros H; inversion H; subst. cbn [depth].
  pose proof (build_kids_depth (build w k) k rbs kids IH Ek). lia.
Qed.

(* the chain of nested datasets is never longer than the number of distinct
   basin keys + 1, whatever the cycles *)
Lemma open_depth_bounded : forall w fm i ign t,
    build w (fuel_for w) fm i ign = Some t ->
    (depth t <= S (length (nodup Z.eq_dec (all_keys w))))%nat.
Proof. intros w fm i ign t H. apply build_depth in H. exact H. Qed.

(* ------------------------------------------------------------------ *)
(* What the property calls "belongs to the same measurement", stated
   with equality and concatenation of identifiers (not with the model's
   boolean functions): the location exists, and, when the referrer has an
   identifier, the basin has one that is equal to it ("same" mapping) or a
   prefix of it (mapped basins). *)
Definition Matches (w : world) (rb : rbasin) : Prop :=
  exists j, rb_tgt rb = Some j /\
    match rb_ref rb with
    | None => True
    | Some r =>
        exists c, rid_of w j = Some c
                  /\ (b_map (rb_b rb) = 0 -> r = c)
                  /\ (b_map (rb_b rb) <> 0 -> exists rest, r = c ++ rest)
    end.

Lemma verify_matches : forall w rb,
    rb_class rb <> CInternal -> verify w rb = true -> Matches w rb.
Proof.
  intros w rb Hc. unfold verify, Matches.
  destruct (rb_class rb) eqn:Ec; try congruence;
    (destruct (rb_tgt rb) as [j|]; [|discriminate]);
    intros H; exists j; (split; [reflexivity|]);
    unfold id_ok in H; destruct (rb_ref rb) as [r|]; auto;
    destruct (rid_of w j) as [c|]; try discriminate;
    exists c; (split; [reflexivity|]); unfold rb_mapped in H;
    destruct (b_map (rb_b rb) =? 0) eqn:Em; cbn [negb] in H.
  all: try (apply Z.eqb_eq in Em; split;
            [intros _; apply list_eqb_eq; exact H | intros Hn; congruence]).
  all: apply Z.eqb_neq in Em; split;
    [intros He; congruence | intros _; apply prefixb_spec; exact H].
Qed.

Lemma matches_verify : forall w rb,
    rb_class rb <> CInternal -> Matches w rb -> verify w rb = true.
Proof.
  intros w rb Hc [j [Ht Hm]]. unfold verify. rewrite Ht.
  assert (Hid : id_ok (rb_mapped rb) (rb_ref rb) (rid_of w j) = true).
  { unfold id_ok. destruct (rb_ref rb) as [r|]; [|reflexivity].
    destruct Hm as [c [Hc' [Hs Hp]]]. rewrite Hc'. unfold rb_mapped.
    destruct (b_map (rb_b rb) =? 0) eqn:Em; cbn [negb].
    - apply Z.eqb_eq in Em. apply list_eqb_eq. auto.
    - apply Z.eqb_neq in Em. apply prefixb_spec. auto. }
  destruct (rb_class rb); try exact Hid. congruence.
Qed.

Fixpoint kids_list (f : forest) : list (rbasin * option tree) :=
  match f with
  | FNil => []
  | FLeaf rb rest => (rb, None) :: kids_list rest
  | FNode rb t rest => (rb, Some t) :: kids_list rest
  end.

(* ---------------------------------------------------- served data *)
(* [GoodSrc t feat s]: s is the store of a file that holds [feat] itself
   and is connected to the root of t by a chain of basins each of which
   exists and matches its referrer *)
Inductive GoodSrc (w : world) : tree -> Z -> Z -> Prop :=
| gs_here : forall fm i pr kids feat,
    In feat (innate_of w i) ->
    GoodSrc w (Tree fm i pr kids) feat (Z.of_nat i)
| gs_internal : forall fm i pr kids rb feat,
    In (rb, None) (kids_list kids) -> rb_class rb = CInternal ->
    In feat (leaf_feats rb) ->
    GoodSrc w (Tree fm i pr kids) feat (100 + Z.of_nat i)
| gs_step : forall fm i pr kids rb t feat s,
    In (rb, Some t) (kids_list kids) -> Matches w rb ->
    GoodSrc w t feat s ->
    GoodSrc w (Tree fm i pr kids) feat s.

Lemma rb_child_some_class : forall rb x,
    rb_child rb = Some x -> rb_class rb <> CInternal.
Proof.
  intros rb [fm j] H. apply rb_child_fmt in H. tauto.
Qed.

Lemma tget_eq : forall w fm i pr kids feat,
    tget w (Tree fm i pr kids) feat =
    if memz feat (innate_of w i) then Some (Z.of_nat i)
    else match fget w kids (Some TInternal) feat with
         | Some s => Some s
         | None => match fget w kids (Some TFile) feat with
                   | Some s => Some s
                   | None => fget w kids None feat
                   end
         end.
Proof. reflexivity. Qed.

Lemma fget_leaf : forall w rb rest pass feat,
    fget w (FLeaf rb rest) pass feat =
    if pass_ok pass rb && memz feat (leaf_feats rb) && verify w rb
       && is_internal rb
    then Some (100 + Z.of_nat (rb_self rb))
    else fget w rest pass feat.
Proof. reflexivity. Qed.

Lemma fget_node : forall w rb t rest pass feat,
    fget w (FNode rb t rest) pass feat =
    if pass_ok pass rb && memz feat (node_feats w rb t) && verify w rb
    then match tget w t feat with
         | Some s => Some s
         | None => fget w rest pass feat
         end
    else fget w rest pass feat.
Proof. reflexivity. Qed.

Lemma tfb_eq : forall w fm i pr kids,
    tfb w (Tree fm i pr kids) = sortdedup (ffb w kids []).
Proof. reflexivity. Qed.

Lemma ffb_leaf : forall w rb rest acc,
    ffb w (FLeaf rb rest) acc = ffb w rest (fb_step rb (leaf_feats rb) acc).
Proof. reflexivity. Qed.

Lemma ffb_node : forall w rb t rest acc,
    ffb w (FNode rb t rest) acc =
    ffb w rest (fb_step rb (node_feats w rb t) acc).
Proof. reflexivity. Qed.

Lemma served_aux : forall w,
    (forall t, inv w t -> forall feat s,
          tget w t feat = Some s -> GoodSrc w t feat s)
    /\ (forall f fm i, finv w fm i f -> forall pass feat s,
          fget w f pass feat = Some s ->
          (exists rb, In (rb, None) (kids_list f) /\ rb_class rb = CInternal
                      /\ In feat (leaf_feats rb) /\ s = 100 + Z.of_nat i)
          \/ (exists rb t, In (rb, Some t) (kids_list f) /\ Matches w rb
                           /\ GoodSrc w t feat s)).
Proof.
  intros w. apply tree_forest_ind.
  - intros fm i pr kids IH [_ Hk] feat s. rewrite tget_eq.
    destruct (memz feat (innate_of w i)) eqn:Ei.
    + intros H; inversion H; subst. apply gs_here. apply memz_In. exact Ei.
    + assert (Hcase : forall pass, fget w kids pass feat = Some s ->
                                   GoodSrc w (Tree fm i pr kids) feat s).
      { intros pass Hp.
        destruct (IH fm i Hk pass feat s Hp)
          as [[rb [Hin [Hc [Hf ->]]]] | [rb [t [Hin [Hm Hg]]]]].
        - eapply gs_internal; eauto.
        - eapply gs_step; eauto. }
      destruct (fget w kids (Some TInternal) feat) eqn:E1.
      * intros H; inversion H; subst. eapply Hcase; eauto.
      * destruct (fget w kids (Some TFile) feat) eqn:E2.
        -- intros H; inversion H; subst. eapply Hcase; eauto.
        -- intros H. eapply Hcase; eauto.
  - intros fm i _ pass feat s. cbn. discriminate.
  - intros rb rest IH fm i [Hok [Hc Hrest]] pass feat s.
    rewrite fget_leaf. cbn [kids_list].
    destruct (pass_ok pass rb && memz feat (leaf_feats rb) && verify w rb
              && is_internal rb) eqn:Econd.
    + intros H; inversion H; subst. left. exists rb.
      apply andb_true_iff in Econd. destruct Econd as [Econd Hint].
      apply andb_true_iff in Econd. destruct Econd as [Econd _].
      apply andb_true_iff in Econd. destruct Econd as [_ Hmem].
      split; [left; reflexivity|]. split.
      * unfold is_internal in Hint. destruct (rb_class rb); congruence.
      * split; [apply memz_In; exact Hmem|].
        destruct Hok as [Hs _]. rewrite Hs. reflexivity.
    + intros H. destruct (IH fm i Hrest pass feat s H)
        as [[rb' [Hin R]] | [rb' [t [Hin R]]]].
      * left. exists rb'. split; [right; exact Hin | exact R].
      * right. exists rb', t. split; [right; exact Hin | exact R].
  - intros rb t IHt rest IHr fm i [Hok [Hc [Hi Hrest]]] pass feat s.
    rewrite fget_node. cbn [kids_list].
    assert (Hrestcase : fget w rest pass feat = Some s ->
      (exists rb0, In (rb0, None) ((rb, Some t) :: kids_list rest)
                   /\ rb_class rb0 = CInternal /\ In feat (leaf_feats rb0)
                   /\ s = 100 + Z.of_nat i)
      \/ (exists rb0 t0, In (rb0, Some t0) ((rb, Some t) :: kids_list rest)
                         /\ Matches w rb0 /\ GoodSrc w t0 feat s)).
    { intros H. destruct (IHr fm i Hrest pass feat s H)
        as [[rb' [Hin R]] | [rb' [t' [Hin R]]]].
      - left. exists rb'. split; [right; exact Hin | exact R].
      - right. exists rb', t'. split; [right; exact Hin | exact R]. }
    match goal with
    | |- context [if ?c then _ else _] => destruct c eqn:Econd
    end; [|exact Hrestcase].
    destruct (tget w t feat) as [s'|] eqn:Et; [|exact Hrestcase].
    intros H; inversion H; subst. right. exists rb, t.
    split; [left; reflexivity|].
    apply andb_true_iff in Econd. destruct Econd as [_ Hv].
    split.
    + apply verify_matches; [eapply rb_child_some_class; eauto | exact Hv].
    + apply IHt; assumption.
Qed.

(* ds[feat] never returns data of a basin that does not exist or does not
   belong to the same measurement as its referrer, at any nesting depth *)
Lemma served_only_matching : forall w fuel fm i ign t feat s,
    build w fuel fm i ign = Some t ->
    tget w t feat = Some s -> GoodSrc w t feat s.
Proof.
  intros w fuel fm i ign t feat s Hb Hg.
  destruct (served_aux w) as [H _]. eapply H; eauto. eapply build_inv; eauto.
Qed.

(* ---------------------------------------------------- listed features *)
(* what the code guarantees for every basin whose features are listed:
   it is reachable, and if it is of type "file" it matches *)
Definition Accepted (w : world) (rb : rbasin) : Prop :=
  rb_avail rb = true
  /\ rb_class rb <> CInternal
  /\ (ktype (b_kind (rb_b rb)) = TFile -> Matches w rb).

Section Listing.
  Variable w : world.
  Variable OK : rbasin -> Prop.     (* admission of a basin *)

  Inductive ListedBy : tree -> Z -> Prop :=
  | l_internal : forall fm i pr kids rb feat,
      In (rb, None) (kids_list kids) -> rb_class rb = CInternal ->
      In feat (leaf_feats rb) -> ListedBy (Tree fm i pr kids) feat
  | l_decl : forall fm i pr kids rb t fs feat,
      In (rb, Some t) (kids_list kids) -> OK rb ->
      rb_feats rb = Some fs -> In feat fs ->
      ListedBy (Tree fm i pr kids) feat
  | l_innate : forall fm i pr kids rb t feat,
      In (rb, Some t) (kids_list kids) -> OK rb ->
      rb_feats rb = None -> In feat (innate_of w (tree_file t)) ->
      ListedBy (Tree fm i pr kids) feat
  | l_nested : forall fm i pr kids rb t feat,
      In (rb, Some t) (kids_list kids) -> OK rb ->
      rb_feats rb = None -> ListedBy t feat ->
      ListedBy (Tree fm i pr kids) feat.
End Listing.

(* the specification: every basin on the way matches *)
Definition Justified (w : world) := ListedBy w (Matches w).
(* the guarantee of the code *)
Definition Listed (w : world) := ListedBy w (Accepted w).

Lemma fb_step_In : forall rb fs acc x,
    In x (fb_step rb fs acc) -> In x acc \/ (rb_avail rb = true /\ In x fs).
Proof.
  intros rb fs acc x. unfold fb_step.
  destruct (nonempty fs && subsetz fs acc); [auto|].
  destruct (rb_avail rb); [|auto].
  rewrite in_app_iff. intros [H|H]; auto.
Qed.

Lemma avail_leaf_internal : forall rb,
    rb_avail rb = true -> rb_child rb = None -> rb_class rb = CInternal.
Proof.
  intros rb. unfold rb_avail, rb_child.
  destruct (rb_class rb); auto; destruct (rb_tgt rb); discriminate.
Qed.

Lemma listed_aux : forall w,
    (forall t, inv w t -> forall feat, In feat (tfb w t) -> Listed w t feat)
    /\ (forall f fm i, finv w fm i f -> forall acc feat,
          In feat (ffb w f acc) ->
          In feat acc
          \/ (exists rb, In (rb, None) (kids_list f)
                         /\ rb_class rb = CInternal
                         /\ In feat (leaf_feats rb))
          \/ (exists rb t, In (rb, Some t) (kids_list f) /\ Accepted w rb
                /\ ((exists fs, rb_feats rb = Some fs /\ In feat fs)
                    \/ (rb_feats rb = None
                        /\ (In feat (innate_of w (tree_file t))
                            \/ Listed w t feat))))).
Proof.
  intros w. apply tree_forest_ind.
  - intros fm i pr kids IH [_ Hk] feat. rewrite tfb_eq, sortdedup_In.
    intros H. destruct (IH fm i Hk [] feat H)
      as [[] | [[rb [Hin [Hc Hf]]] | [rb [t [Hin [Hacc Hcase]]]]]].
    + eapply l_internal; eauto.
    + destruct Hcase as [[fs [Hfs Hi]] | [Hn [Hi | Hl]]].
      * eapply l_decl; eauto.
      * eapply l_innate; eauto.
      * eapply l_nested; eauto.
  - intros fm i _ acc feat. cbn. auto.
  - intros rb rest IH fm i [Hok [Hc Hrest]] acc feat.
    rewrite ffb_leaf. cbn [kids_list].
    intros H. destruct (IH fm i Hrest _ feat H)
      as [Hacc | [[rb' [Hin R]] | [rb' [t [Hin R]]]]].
    + apply fb_step_In in Hacc. destruct Hacc as [Hacc | [Hav Hf]]; auto.
      right; left. exists rb. split; [left; reflexivity|].
      split; [apply avail_leaf_internal; assumption | exact Hf].
    + right; left. exists rb'. split; [right; exact Hin | exact R].
    + right; right. exists rb', t. split; [right; exact Hin | exact R].
  - intros rb t IHt rest IHr fm i [Hok [Hc [Hi Hrest]]] acc feat.
    rewrite ffb_node. cbn [kids_list]. intros H.
    destruct (IHr fm i Hrest _ feat H)
      as [Hacc | [[rb' [Hin R]] | [rb' [t' [Hin R]]]]].
    + apply fb_step_In in Hacc. destruct Hacc as [Hacc | [Hav Hf]]; auto.
      right; right. exists rb, t. split; [left; reflexivity|].
      split.
      * split; [exact Hav|].
        split; [eapply rb_child_some_class; eauto|].
        intros Hty. destruct Hok as [_ [_ [Hv _]]].
        apply verify_matches; [eapply rb_child_some_class; eauto | auto].
      * unfold node_feats in Hf. destruct (rb_feats rb) as [fs|] eqn:Efs.
        -- left. exists fs. split; [reflexivity | exact Hf].
        -- right. split; [reflexivity|].
           rewrite sortdedup_In in Hf. apply in_app_or in Hf.
           destruct Hf as [Hf|Hf]; [left; exact Hf|].
           right. apply IHt; assumption.
    + right; left. exists rb'. split; [right; exact Hin | exact R].
    + right; right. exists rb', t'. split; [right; exact Hin | exact R].
Qed.

(* features_basin only lists features of basins that are reachable; for
   basins of type "file" also only when they match (at every depth) *)
Lemma unreachable_degrades : forall w fuel fm i ign t feat,
    build w fuel fm i ign = Some t ->
    In feat (tfb w t) -> Listed w t feat.
Proof.
  intros w fuel fm i ign t feat Hb Hin.
  destruct (listed_aux w) as [H _]. eapply H; eauto. eapply build_inv; eauto.
Qed.

(* guard of the partial theorem: every reachable basin that is appended
   without verification (type "remote", or "internal" with a file format)
   happens to match *)
Definition unverified_match (w : world) (t : tree) : bool :=
  forallb (fun rb => is_internal rb || negb (rb_avail rb) || verify w rb)
          (tree_edges t).

Lemma kids_list_edges : forall f rb ot,
    In (rb, ot) (kids_list f) ->
    In rb (forest_edges f)
    /\ (forall t, ot = Some t -> incl (tree_edges t) (forest_edges f)).
Proof.
  induction f as [|rb0 rest IH|rb0 t0 rest IH] using forest_ind;
    intros rb ot; cbn [kids_list forest_edges].
  - intros [].
  - intros [H|H].
    + inversion H; subst. split; [left; reflexivity|]. intros t Ht.
      discriminate.
    + destruct (IH _ _ H) as [H1 H2]. split; [right; exact H1|].
      intros t Ht x Hx. right. eapply H2; eauto.
  - intros [H|H].
    + inversion H; subst. split; [left; reflexivity|]. intros t Ht.
      inversion Ht; subst. intros x Hx. right. apply in_or_app. left. exact Hx.
    + destruct (IH _ _ H) as [H1 H2].
      split; [right; apply in_or_app; right; exact H1|].
      intros t Ht x Hx. right. apply in_or_app. right. eapply H2; eauto.
Qed.

Lemma guard_matches : forall w rb,
    Accepted w rb ->
    is_internal rb || negb (rb_avail rb) || verify w rb = true ->
    Matches w rb.
Proof.
  intros w rb [Hav [Hc _]] Hg. apply verify_matches; [exact Hc|].
  rewrite Hav in Hg. cbn [negb] in Hg. rewrite orb_false_r in Hg.
  unfold is_internal in Hg. destruct (rb_class rb); try exact Hg. congruence.
Qed.

Lemma listed_justified : forall w t feat,
    Listed w t feat ->
    (forall rb, In rb (tree_edges t) ->
                is_internal rb || negb (rb_avail rb) || verify w rb = true) ->
    Justified w t feat.
Proof.
  intros w t feat H. induction H as
      [fm i pr kids rb feat Hin Hc Hf
      |fm i pr kids rb t fs feat Hin Hok Hfs Hf
      |fm i pr kids rb t feat Hin Hok Hfs Hf
      |fm i pr kids rb t feat Hin Hok Hfs Hl IH]; intros Hg.
  - eapply l_internal; eauto.
  - assert (Hm : Matches w rb).
    { apply guard_matches; [exact Hok|]. apply Hg. cbn [tree_edges].
      destruct (kids_list_edges _ _ _ Hin) as [H1 _]. exact H1. }
    exact (l_decl w _ fm i pr kids rb t fs feat Hin Hm Hfs Hf).
  - assert (Hm : Matches w rb).
    { apply guard_matches; [exact Hok|]. apply Hg. cbn [tree_edges].
      destruct (kids_list_edges _ _ _ Hin) as [H1 _]. exact H1. }
    exact (l_innate w _ fm i pr kids rb t feat Hin Hm Hfs Hf).
  - assert (Hm : Matches w rb).
    { apply guard_matches; [exact Hok|]. apply Hg. cbn [tree_edges].
      destruct (kids_list_edges _ _ _ Hin) as [H1 _]. exact H1. }
    refine (l_nested w _ fm i pr kids rb t feat Hin Hm Hfs _).
    apply IH. intros rb' Hin'. apply Hg. cbn [tree_edges].
    destruct (kids_list_edges _ _ _ Hin) as [_ H2]. eapply H2; eauto.
Qed.

(* Under the guard (no reachable unverified basin mismatches) every listed
   feature is justified by a chain of matching basins. *)
Lemma mismatch_not_listed_partial : forall w fuel fm i ign t feat,
    build w fuel fm i ign = Some t ->
    unverified_match w t = true ->
    In feat (tfb w t) -> Justified w t feat.
Proof.
  intros w fuel fm i ign t feat Hb Hg Hin.
  apply listed_justified.
  - eapply unreachable_degrades; eauto.
  - unfold unverified_match in Hg. rewrite forallb_forall in Hg. exact Hg.
Qed.

(* ------------------------------------ served features are contained *)
Lemma subsetz_In : forall a b x, subsetz a b = true -> In x a -> In x b.
Proof.
  intros a b x H Hin. unfold subsetz in H. rewrite forallb_forall in H.
  apply memz_In. apply H. exact Hin.
Qed.

Lemma fb_step_keeps : forall rb fs acc x, In x acc -> In x (fb_step rb fs acc).
Proof.
  intros rb fs acc x H. unfold fb_step.
  destruct (nonempty fs && subsetz fs acc); [exact H|].
  destruct (rb_avail rb); [apply in_or_app; left|]; exact H.
Qed.

Lemma fb_step_adds : forall rb fs acc x,
    rb_avail rb = true -> In x fs -> In x (fb_step rb fs acc).
Proof.
  intros rb fs acc x Hav H. unfold fb_step.
  destruct (nonempty fs && subsetz fs acc) eqn:E.
  - apply andb_true_iff in E. destruct E as [_ E]. eapply subsetz_In; eauto.
  - rewrite Hav. apply in_or_app. right; exact H.
Qed.

Lemma ffb_keeps : forall w f acc x, In x acc -> In x (ffb w f acc).
Proof.
  intros w f; induction f as [|rb rest IH|rb t rest IH] using forest_ind;
    intros acc x H.
  - exact H.
  - rewrite ffb_leaf. apply IH. apply fb_step_keeps. exact H.
  - rewrite ffb_node. apply IH. apply fb_step_keeps. exact H.
Qed.

Lemma verify_avail : forall w rb,
    rb_class rb <> CInternal -> verify w rb = true -> rb_avail rb = true.
Proof.
  intros w rb Hc. unfold verify, rb_avail.
  destruct (rb_class rb); try congruence; destruct (rb_tgt rb);
    try reflexivity; discriminate.
Qed.

Lemma fget_listed : forall w f fm i, finv w fm i f -> forall pass feat s acc,
    fget w f pass feat = Some s -> In feat (ffb w f acc).
Proof.
  intros w f; induction f as [|rb rest IH|rb t rest IH] using forest_ind;
    intros fm i Hinv pass feat s acc.
  - cbn. discriminate.
  - destruct Hinv as [Hok [Hc Hrest]]. rewrite fget_leaf, ffb_leaf.
    destruct (pass_ok pass rb && memz feat (leaf_feats rb) && verify w rb
              && is_internal rb) eqn:Econd.
    + intros _. apply ffb_keeps.
      apply andb_true_iff in Econd. destruct Econd as [Econd Hint].
      apply andb_true_iff in Econd. destruct Econd as [Econd _].
      apply andb_true_iff in Econd. destruct Econd as [_ Hmem].
      apply memz_In in Hmem. apply fb_step_adds; [|exact Hmem].
      unfold rb_avail, is_internal in *. unfold leaf_feats in Hmem.
      destruct (rb_class rb); try discriminate.
      destruct (rb_feats rb) as [fs|]; [|destruct Hmem].
      destruct fs; [destruct Hmem | reflexivity].
    + intros H. eapply IH; eauto.
  - destruct Hinv as [Hok [Hc [Hi Hrest]]]. rewrite fget_node, ffb_node.
    destruct (pass_ok pass rb && memz feat (node_feats w rb t) && verify w rb)
             eqn:Econd.
    + intros _. apply ffb_keeps.
      apply andb_true_iff in Econd. destruct Econd as [Econd Hv].
      apply andb_true_iff in Econd. destruct Econd as [_ Hmem].
      apply memz_In in Hmem. apply fb_step_adds; [|exact Hmem].
      eapply verify_avail; [eapply rb_child_some_class; eauto | exact Hv].
    + intros H. eapply IH; eauto.
Qed.

(* ds[feat] returns data only for features that `feat in ds` reports *)
Lemma served_is_contained : forall w fuel fm i ign t feat s,
    build w fuel fm i ign = Some t ->
    tget w t feat = Some s -> tcontains w t feat = true.
Proof.
  intros w fuel fm i ign t feat s Hb.
  pose proof (build_inv _ _ _ _ _ _ Hb) as Hi.
  destruct t as [fm' j pr kids]. destruct Hi as [_ Hk].
  rewrite tget_eq. unfold tcontains. cbn [tree_file].
  destruct (memz feat (innate_of w j)) eqn:Ei; [reflexivity|].
  cbn [orb]. rewrite tfb_eq. intros H.
  apply memz_In. apply sortdedup_In.
  destruct (fget w kids (Some TInternal) feat) eqn:E1;
    [eapply fget_listed; eauto|].
  destruct (fget w kids (Some TFile) feat) eqn:E2;
    [eapply fget_listed; eauto|].
  eapply fget_listed; eauto.
Qed.

Lemma ListedBy_inv : forall w OK fm i pr kids feat,
    ListedBy w OK (Tree fm i pr kids) feat ->
    (exists rb, In (rb, None) (kids_list kids) /\ rb_class rb = CInternal)
    \/ (exists rb t, In (rb, Some t) (kids_list kids) /\ OK rb).
Proof.
  intros w OK fm i pr kids feat H. inversion H; subst; eauto.
Qed.

(* The unguarded statement is false of the code: a remote basin is appended
   without looking at its identifier, and features_basin lists its features
   (reading them raises KeyError).  Root served over HTTP with identifier
   "aa", one http basin whose file has identifier "b" and feature 1. *)
Definition w_refute : world :=
  [mkF (Some [97; 97]) [0] [] [mkBasin 0 KHttp 0 [Here 1%nat] None];
   mkF (Some [98]) [1] [] []].

Lemma mismatch_not_listed_refuted :
  exists w fm i t feat,
    build w (fuel_for w) fm i [] = Some t
    /\ In feat (tfb w t) /\ tget w t feat = None
    /\ ~ Justified w t feat.
Proof.
  exists w_refute, FHttp, 0%nat. eexists. exists 1.
  split; [vm_compute; reflexivity|].
  split; [vm_compute; left; reflexivity|].
  split; [vm_compute; reflexivity|].
  assert (Hno : forall rb t, 
             In (rb, Some t) [(mk_rb 0 (mkF (Some [97; 97]) [0] []
                                  [mkBasin 0 KHttp 0 [Here 1%nat] None])
                                  [0] (mkBasin 0 KHttp 0 [Here 1%nat] None)
                                  (Some 1%nat),
                               Some (Tree FHttp 1 [] FNil))] ->
             ~ Matches w_refute rb).
  { intros rb t [Hin|[]] [j [Ht Hm]]. inversion Hin; subst rb t.
    cbn in Ht. inversion Ht; subst j. cbn in Hm.
    destruct Hm as [c [Hc [Hs _]]]. inversion Hc; subst c.
    specialize (Hs eq_refl). discriminate. }
  intros H. apply ListedBy_inv in H.
  destruct H as [[rb [Hin _]] | [rb [t [Hin Hm]]]].
  - cbn in Hin. destruct Hin as [Hin|[]]. discriminate.
  - eapply Hno; eauto.
Qed.

(* ------------------------------------------------ non-vacuity examples *)
(* a 3-cycle a -> b -> c -> a of file basins, all of one measurement *)
Definition w_cycle : world :=
  [mkF (Some [97]) [0] [] [mkBasin 0 KFile 0 [Here 1%nat] None];
   mkF (Some [97]) [1] [] [mkBasin 1 KFile 0 [Rel 2%nat] None];
   mkF (Some [97]) [2] [] [mkBasin 2 KFile 0 [Here 0%nat] None]].

Example ex_terminates_cycle :
  exists t, build w_cycle (fuel_for w_cycle) FHdf5 0 [] = Some t
            /\ depth t = 4%nat
            /\ map (fun rb => b_key (rb_b rb)) (tree_edges t) = [0; 1; 2]
            /\ tfb w_cycle t = [0; 1; 2]
            /\ tcontains w_cycle t 2 = true
            /\ tget w_cycle t 2 = Some 2.
Proof. eexists. repeat split; vm_compute; reflexivity. Qed.

(* root served over HTTP; its definitions point at local files through the
   kinds file, remote+hdf5 and internal+hdf5, and at a served file whose own
   file basin points at a local file *)
Definition w_remote : world :=
  [mkF (Some [97]) [0] []
          [mkBasin 0 KFile 0 [Here 1%nat] None;
           mkBasin 1 KRemoteHdf5 0 [Here 1%nat] None;
           mkBasin 2 KInternalHdf5 0 [Here 1%nat] None;
           mkBasin 3 KHttp 0 [Here 2%nat] None];
   mkF (Some [97]) [1] [] [];
   mkF (Some [97]) [2] [] [mkBasin 4 KFile 0 [Here 1%nat] None]].

Example ex_remote_isolated :
  exists t, build w_remote (fuel_for w_remote) FHttp 0 [] = Some t
            /\ length (tree_edges t) = 1%nat
            /\ ttouched t = []
            /\ tfb w_remote t = [2]
            /\ tget w_remote t 1 = None.
Proof. eexists. repeat split; vm_compute; reflexivity. Qed.

(* the same world opened from disk does follow the local definitions *)
Example ex_local_follows :
  exists t, build w_remote (fuel_for w_remote) FHdf5 0 [] = Some t
            /\ tget w_remote t 1 = Some 1
            /\ sortdedup (map Z.of_nat (ttouched t)) = [0; 1].
Proof. eexists. repeat split; vm_compute; reflexivity. Qed.

(* identifiers: equal, prefix (mapped), unrelated, absent; a dangling basin *)
Definition w_ids : world :=
  [mkF (Some [97; 97; 98]) [0] []
          [mkBasin 0 KFile 0 [Here 1%nat] None;          (* equal *)
           mkBasin 1 KFile 1 [Here 2%nat] None;          (* prefix, mapped *)
           mkBasin 2 KFile 0 [Here 2%nat] None;          (* prefix, same *)
           mkBasin 3 KFile 0 [Here 3%nat] None;          (* no identifier *)
           mkBasin 4 KFile 0 [Nowhere] (Some [5])];      (* dangling *)
   mkF (Some [97; 97; 98]) [1] [] [];
   mkF (Some [97; 97]) [2] [] [];
   mkF None [3] [] []].

Example ex_identifiers :
  exists t, build w_ids (fuel_for w_ids) FHdf5 0 [] = Some t
            /\ tfb w_ids t = [1; 2]
            /\ tget w_ids t 1 = Some 1 /\ tget w_ids t 2 = Some 2
            /\ tget w_ids t 3 = None /\ tget w_ids t 5 = None
            /\ unverified_match w_ids t = true.
Proof. eexists. repeat split; vm_compute; reflexivity. Qed.

(* --------------------------------------- ignored keys are never followed *)
Lemma build_kids_edges : forall (P : rbasin -> Prop)
                                (rec : fmt -> nat -> list Z -> option tree)
                                rbs f,
    (forall rb, In rb rbs -> P rb) ->
    (forall rb fm j t, In rb rbs -> rec fm j (rb_ign rb) = Some t ->
                       Forall P (tree_edges t)) ->
    build_kids rec rbs = Some f -> Forall P (forest_edges f).
Proof.
  intros P rec rbs; induction rbs as [|rb rest IH]; intros f Hp Hrec;
    cbn [build_kids].
  - intros H; inversion H; subst. constructor.
  - destruct (build_kids rec rest) as [fr|] eqn:E; [|discriminate].
    assert (Hrest : Forall P (forest_edges fr)).
    { apply IH; auto.
      - intros rb' Hin. apply Hp. right; exact Hin.
      - intros rb' fm j t Hin. apply Hrec. right; exact Hin. }
    destruct (rb_child rb) as [[fm' j]|].
    + destruct (rec fm' j (rb_ign rb)) as [t|] eqn:Er; [|discriminate].
      intros H; inversion H; subst. cbn [forest_edges].
      constructor; [apply Hp; left; reflexivity|].
      apply Forall_app. split; [|exact Hrest].
      eapply Hrec; [left; reflexivity | exact Er].
    + intros H; inversion H; subst. cbn [forest_edges].
      constructor; [apply Hp; left; reflexivity | exact Hrest].
Qed.

(* No basin whose key is in the ignore list is instantiated, at any depth;
   since every dataset passes its own keys down, no key is followed twice
   on a path: this is the cycle cut. *)
Lemma ignored_never_followed : forall w fuel fm i ign t,
    build w fuel fm i ign = Some t ->
    Forall (fun rb => memz (b_key (rb_b rb)) ign = false
                      /\ (forall k, In k ign -> In k (rb_ign rb))
                      /\ In (b_key (rb_b rb)) (rb_ign rb))
           (tree_edges t).
Proof.
  intros w fuel; induction fuel as [|k IH]; intros fm i ign t;
    [cbn [build]; discriminate | rewrite build_S].
  destruct (retrieve w fm i ign) as [rbs pr] eqn:E.
  destruct (build_kids (build w k) rbs) as [kids|] eqn:Ek; [|discriminate].
  intros H; inversion H; subst. cbn [tree_edges].
  assert (Hrb : forall rb, In rb rbs ->
                memz (b_key (rb_b rb)) ign = false
                /\ (forall k0, In k0 ign -> In k0 (rb_ign rb))
                /\ In (b_key (rb_b rb)) (rb_ign rb)).
  { intros rb Hin.
    assert (Hin' : In rb (fst (retrieve w fm i ign))) by (rewrite E; exact Hin).
    destruct (retrieve_spec _ _ _ _ _ Hin')
      as [f [b [Hn [Hb [[t0 ->] [Hk _]]]]]].
    cbn [rb_b rb_ign mk_rb]. split; [exact Hk|]. split.
    - intros k0 Hk0. apply in_or_app. right; exact Hk0.
    - apply in_or_app. left. apply in_map. apply sort_basins_In. exact Hb. }
  eapply build_kids_edges; [exact Hrb | | exact Ek].
  intros rb fm' j t' Hin Hb.
  destruct (Hrb rb Hin) as [_ [Hsub _]].
  eapply Forall_impl; [|eapply IH; exact Hb].
  intros rb' [H1 [H2 H3]]. split; [|split].
  - apply memz_false. intros Hc. apply memz_false in H1. apply H1.
    apply Hsub. exact Hc.
  - intros k0 Hk0. apply H2. apply Hsub. exact Hk0.
  - exact H3.
Qed.

(* ----------------------------- offered features are within the declared *)
(* The feature list of a definition restricts what its basin offers. *)
Definition feats_ok (rb : rbasin) : Prop :=
  forall fs, b_feats (rb_b rb) = Some fs ->
             exists fs', rb_feats rb = Some fs' /\ incl fs' fs.

Lemma mk_rb_feats_ok : forall i f keys b t, feats_ok (mk_rb i f keys b t).
Proof.
  intros i f keys b t fs Hfs. cbn [rb_b rb_feats mk_rb] in *.
  destruct (kclass (b_kind b)).
  - eexists. split; [reflexivity|]. unfold internal_feats. rewrite Hfs.
    destruct (b_locs b) as [|[j|j|] ls]; try (intros x []).
    intros x Hx. apply filter_In in Hx. tauto.
  - exists fs. split; [exact Hfs | apply incl_refl].
  - exists fs. split; [exact Hfs | apply incl_refl].
  - exists fs. split; [exact Hfs | apply incl_refl].
  - exists fs. split; [exact Hfs | apply incl_refl].
Qed.

Lemma build_feats_ok : forall w fuel fm i ign t,
    build w fuel fm i ign = Some t -> Forall feats_ok (tree_edges t).
Proof.
  intros w fuel; induction fuel as [|k IH]; intros fm i ign t;
    [cbn [build]; discriminate | rewrite build_S].
  destruct (retrieve w fm i ign) as [rbs pr] eqn:E.
  destruct (build_kids (build w k) rbs) as [kids|] eqn:Ek; [|discriminate].
  intros H; inversion H; subst. cbn [tree_edges].
  eapply build_kids_edges; [| |exact Ek].
  - intros rb Hin.
    assert (Hin' : In rb (fst (retrieve w fm i ign))) by (rewrite E; exact Hin).
    destruct (retrieve_spec _ _ _ _ _ Hin') as [f [b [_ [_ [[t0 ->] _]]]]].
    apply mk_rb_feats_ok.
  - intros rb fm' j t' _ Hb. eapply IH; exact Hb.
Qed.

Lemma ffb_attrib : forall w f acc feat,
    In feat (ffb w f acc) ->
    In feat acc
    \/ exists rb ot, In (rb, ot) (kids_list f) /\ rb_avail rb = true
                     /\ (forall fs', rb_feats rb = Some fs' -> In feat fs').
Proof.
  intros w f; induction f as [|rb rest IH|rb t rest IH] using forest_ind;
    intros acc feat.
  - cbn. auto.
  - rewrite ffb_leaf. cbn [kids_list]. intros H.
    destruct (IH _ _ H) as [Hacc | [rb' [ot [Hin R]]]].
    + apply fb_step_In in Hacc. destruct Hacc as [Hacc | [Hav Hf]]; auto.
      right. exists rb, None. split; [left; reflexivity|]. split; [exact Hav|].
      intros fs' Hfs. unfold leaf_feats in Hf. rewrite Hfs in Hf. exact Hf.
    + right. exists rb', ot. split; [right; exact Hin | exact R].
  - rewrite ffb_node. cbn [kids_list]. intros H.
    destruct (IH _ _ H) as [Hacc | [rb' [ot [Hin R]]]].
    + apply fb_step_In in Hacc. destruct Hacc as [Hacc | [Hav Hf]]; auto.
      right. exists rb, (Some t). split; [left; reflexivity|].
      split; [exact Hav|].
      intros fs' Hfs. unfold node_feats in Hf. rewrite Hfs in Hf. exact Hf.
    + right. exists rb', ot. split; [right; exact Hin | exact R].
Qed.

Lemma fget_attrib : forall w f fm i, finv w fm i f -> forall pass feat s,
    fget w f pass feat = Some s ->
    exists rb ot, In (rb, ot) (kids_list f) /\ rb_avail rb = true
                  /\ (forall fs', rb_feats rb = Some fs' -> In feat fs').
Proof.
  intros w f; induction f as [|rb rest IH|rb t rest IH] using forest_ind;
    intros fm i Hinv pass feat s.
  - cbn. discriminate.
  - destruct Hinv as [Hok [Hc Hrest]]. rewrite fget_leaf. cbn [kids_list].
    destruct (pass_ok pass rb && memz feat (leaf_feats rb) && verify w rb
              && is_internal rb) eqn:Econd.
    + intros _. exists rb, None. split; [left; reflexivity|].
      apply andb_true_iff in Econd. destruct Econd as [Econd Hint].
      apply andb_true_iff in Econd. destruct Econd as [Econd _].
      apply andb_true_iff in Econd. destruct Econd as [_ Hmem].
      apply memz_In in Hmem. split.
      * unfold rb_avail, is_internal in *. unfold leaf_feats in Hmem.
        destruct (rb_class rb); try discriminate.
        destruct (rb_feats rb) as [fs|]; [|destruct Hmem].
        destruct fs; [destruct Hmem | reflexivity].
      * intros fs' Hfs. unfold leaf_feats in Hmem. rewrite Hfs in Hmem.
        exact Hmem.
    + intros H. destruct (IH fm i Hrest pass feat s H) as [rb' [ot [Hin R]]].
      exists rb', ot. split; [right; exact Hin | exact R].
  - destruct Hinv as [Hok [Hc [Hi Hrest]]]. rewrite fget_node.
    cbn [kids_list].
    assert (Hr : fget w rest pass feat = Some s ->
      exists rb0 ot, In (rb0, ot) ((rb, Some t) :: kids_list rest)
                     /\ rb_avail rb0 = true
                     /\ (forall fs', rb_feats rb0 = Some fs' -> In feat fs')).
    { intros H. destruct (IH fm i Hrest pass feat s H) as [rb' [ot [Hin R]]].
      exists rb', ot. split; [right; exact Hin | exact R]. }
    destruct (pass_ok pass rb && memz feat (node_feats w rb t) && verify w rb)
             eqn:Econd; [|exact Hr].
    destruct (tget w t feat) as [s'|]; [|exact Hr].
    intros _. exists rb, (Some t). split; [left; reflexivity|].
    apply andb_true_iff in Econd. destruct Econd as [Econd Hv].
    apply andb_true_iff in Econd. destruct Econd as [_ Hmem].
    apply memz_In in Hmem. split.
    + eapply verify_avail; [eapply rb_child_some_class; eauto | exact Hv].
    + intros fs' Hfs. unfold node_feats in Hmem. rewrite Hfs in Hmem.
      exact Hmem.
Qed.

Definition tree_kids (t : tree) : forest :=
  match t with Tree _ _ _ kids => kids end.

(* what a dataset offers beyond its own events *)
Definition offered (w : world) (t : tree) (feat : Z) : Prop :=
  In feat (tfb w t)
  \/ (exists s, tget w t feat = Some s
                /\ ~ In feat (innate_of w (tree_file t))).

(* Every feature a dataset lists as basin feature or serves from a basin is
   attributable to one of its own available basins whose definition either
   declares no feature list or declares this feature.  (Holds for the
   dataset behind every basin as well: it is a built tree itself.) *)
Lemma offered_within_declared : forall w fuel fm i ign t feat,
    build w fuel fm i ign = Some t ->
    offered w t feat ->
    exists rb, In rb (map fst (kids_list (tree_kids t)))
               /\ rb_avail rb = true
               /\ (forall fs, b_feats (rb_b rb) = Some fs -> In feat fs).
Proof.
  intros w fuel fm i ign t feat Hb Hoff.
  pose proof (build_inv _ _ _ _ _ _ Hb) as Hi.
  pose proof (build_feats_ok _ _ _ _ _ _ Hb) as Hfo.
  destruct t as [fm' j pr kids]. destruct Hi as [_ Hk].
  cbn [tree_kids tree_edges tree_file] in *.
  assert (Hfin : forall rb ot,
             In (rb, ot) (kids_list kids) -> rb_avail rb = true ->
             (forall fs', rb_feats rb = Some fs' -> In feat fs') ->
             exists rb0, In rb0 (map fst (kids_list kids))
                         /\ rb_avail rb0 = true
                         /\ (forall fs, b_feats (rb_b rb0) = Some fs ->
                                        In feat fs)).
  { intros rb ot Hin Hav Hf. exists rb.
    split; [apply in_map_iff; exists (rb, ot); auto|]. split; [exact Hav|].
    intros fs Hfs. rewrite Forall_forall in Hfo.
    destruct (kids_list_edges _ _ _ Hin) as [He _].
    destruct (Hfo rb He fs Hfs) as [fs' [Hfs' Hincl]].
    apply Hincl. apply Hf. exact Hfs'. }
  destruct Hoff as [Hl | [s [Hg Hni]]].
  - rewrite tfb_eq, sortdedup_In in Hl.
    destruct (ffb_attrib _ _ _ _ Hl) as [[] | [rb [ot [Hin [Hav Hf]]]]].
    eapply Hfin; eauto.
  - rewrite tget_eq in Hg.
    destruct (memz feat (innate_of w j)) eqn:Ei.
    + exfalso. apply Hni. apply memz_In. exact Ei.
    + assert (Hp : forall pass, fget w kids pass feat = Some s ->
                                exists rb ot, In (rb, ot) (kids_list kids)
                                  /\ rb_avail rb = true
                                  /\ (forall fs', rb_feats rb = Some fs' ->
                                                  In feat fs')).
      { intros pass. eapply fget_attrib; eauto. }
      destruct (fget w kids (Some TInternal) feat) eqn:E1.
      * inversion Hg; subst. destruct (Hp _ E1) as [rb [ot [A [B C]]]].
        eapply Hfin; eauto.
      * destruct (fget w kids (Some TFile) feat) eqn:E2.
        -- inversion Hg; subst. destruct (Hp _ E2) as [rb [ot [A [B C]]]].
           eapply Hfin; eauto.
        -- destruct (Hp _ Hg) as [rb [ot [A [B C]]]]. eapply Hfin; eauto.
Qed.

(* a definition that declares [1; 2; 5] on a file holding 1, 2 and 3:
   3 is not offered, 5 is listed (declared) but cannot be read *)
Definition w_declared : world :=
  [mkF (Some [97]) [0] [] [mkBasin 0 KFile 0 [Here 1%nat] (Some [1; 2; 5])];
   mkF (Some [97]) [1; 2; 3] [] []].

Example ex_declared :
  exists t, build w_declared (fuel_for w_declared) FHdf5 0 [] = Some t
            /\ tfb w_declared t = [1; 2; 5]
            /\ tget w_declared t 1 = Some 1
            /\ tget w_declared t 3 = None
            /\ tget w_declared t 5 = None.
Proof. eexists. repeat split; vm_compute; reflexivity. Qed.

(* ================================================================== *)
(* Audit round: the property text without the code's exception for     *)
(* referrers that have no identifier; positive directions; subtrees.   *)

(* "belongs to the same measurement" by the text: both identifiers absent,
   or both present and equal / prefix *)
Definition StrictMatches (w : world) (rb : rbasin) : Prop :=
  exists j, rb_tgt rb = Some j /\
    match rb_ref rb, rid_of w j with
    | None, None => True
    | Some r, Some c =>
        (b_map (rb_b rb) = 0 -> r = c)
        /\ (b_map (rb_b rb) <> 0 -> exists rest, r = c ++ rest)
    | _, _ => False
    end.

(* guard: no followed basin has an identifier while its referrer has none *)
Definition idless_ok (w : world) (rb : rbasin) : bool :=
  match rb_ref rb with
  | Some _ => true
  | None => match rb_tgt rb with
            | Some j => match rid_of w j with None => true | Some _ => false end
            | None => true
            end
  end.

Definition referrers_identified (w : world) (t : tree) : bool :=
  forallb (idless_ok w) (tree_edges t).

Lemma matches_strict : forall w rb,
    Matches w rb -> idless_ok w rb = true -> StrictMatches w rb.
Proof.
  intros w rb [j [Ht Hm]] Hg. exists j. split; [exact Ht|].
  unfold idless_ok in Hg. rewrite Ht in Hg.
  destruct (rb_ref rb) as [r|].
  - destruct Hm as [c [Hc Hrest]]. rewrite Hc. exact Hrest.
  - destruct (rid_of w j); [discriminate | exact I].
Qed.

Inductive StrictSrc (w : world) : tree -> Z -> Z -> Prop :=
| ss_here : forall fm i pr kids feat,
    In feat (innate_of w i) ->
    StrictSrc w (Tree fm i pr kids) feat (Z.of_nat i)
| ss_internal : forall fm i pr kids rb feat,
    In (rb, None) (kids_list kids) -> rb_class rb = CInternal ->
    In feat (leaf_feats rb) ->
    StrictSrc w (Tree fm i pr kids) feat (100 + Z.of_nat i)
| ss_step : forall fm i pr kids rb t feat s,
    In (rb, Some t) (kids_list kids) -> StrictMatches w rb ->
    StrictSrc w t feat s ->
    StrictSrc w (Tree fm i pr kids) feat s.

Lemma goodsrc_strict : forall w t feat s,
    GoodSrc w t feat s ->
    (forall rb, In rb (tree_edges t) -> idless_ok w rb = true) ->
    StrictSrc w t feat s.
Proof.
  intros w t feat s H. induction H as
      [fm i pr kids feat Hin
      |fm i pr kids rb feat Hin Hc Hf
      |fm i pr kids rb t feat s Hin Hm Hg IH]; intros Hgd.
  - apply ss_here; exact Hin.
  - eapply ss_internal; eauto.
  - destruct (kids_list_edges _ _ _ Hin) as [H1 H2].
    refine (ss_step w fm i pr kids rb t feat s Hin _ _).
    + apply matches_strict; [exact Hm|]. apply Hgd. exact H1.
    + apply IH. intros rb' Hin'. apply Hgd. cbn [tree_edges].
      eapply H2; eauto.
Qed.

(* served data come from the same measurement in the sense of the text,
   provided no followed basin carries an identifier its referrer lacks *)
Lemma same_measurement_served_partial : forall w fuel fm i ign t feat s,
    build w fuel fm i ign = Some t ->
    referrers_identified w t = true ->
    tget w t feat = Some s -> StrictSrc w t feat s.
Proof.
  intros w fuel fm i ign t feat s Hb Hg Hget.
  apply goodsrc_strict; [eapply served_only_matching; eauto|].
  unfold referrers_identified in Hg. rewrite forallb_forall in Hg. exact Hg.
Qed.

(* without the guard it is false (finding C14-idless-referrer-unchecked):
   a root without identifier, a file basin with run identifier "b" *)
Definition w_idless : world :=
  [mkF None [0] [] [mkBasin 0 KFile 0 [Here 1%nat] None];
   mkF (Some [98]) [1] [] []].

Lemma StrictSrc_inv : forall w fm i pr kids feat s,
    StrictSrc w (Tree fm i pr kids) feat s ->
    In feat (innate_of w i)
    \/ (exists rb, In (rb, None) (kids_list kids) /\ rb_class rb = CInternal)
    \/ (exists rb t, In (rb, Some t) (kids_list kids) /\ StrictMatches w rb).
Proof.
  intros w fm i pr kids feat s H. inversion H; subst; eauto 6.
Qed.

Lemma same_measurement_served_refuted :
  exists w fm i t feat s,
    build w (fuel_for w) fm i [] = Some t
    /\ tget w t feat = Some s /\ ~ StrictSrc w t feat s.
Proof.
  exists w_idless, FHdf5, 0%nat. eexists. exists 1, 1.
  split; [vm_compute; reflexivity|].
  split; [vm_compute; reflexivity|].
  intros H. apply StrictSrc_inv in H.
  destruct H as [H | [[rb [Hin _]] | [rb [t [Hin [j [Ht Hm]]]]]]].
  - cbn in H. destruct H as [H|[]]. discriminate.
  - cbn in Hin. destruct Hin as [Hin|[]]. discriminate.
  - cbn in Hin. destruct Hin as [Hin|[]]. inversion Hin; subst rb t.
    cbn in Ht. inversion Ht; subst j. cbn in Hm. exact Hm.
Qed.

(* -------------------------------------------------- positive directions *)
Lemma ffb_adds : forall w f acc rb ot feat,
    In (rb, ot) (kids_list f) -> rb_avail rb = true ->
    In feat (match ot with
             | None => leaf_feats rb
             | Some t => node_feats w rb t
             end) ->
    In feat (ffb w f acc).
Proof.
  intros w f; induction f as [|rb0 rest IH|rb0 t0 rest IH] using forest_ind;
    intros acc rb ot feat Hin Hav Hf.
  - destruct Hin.
  - rewrite ffb_leaf. cbn [kids_list] in Hin. destruct Hin as [Hin|Hin].
    + inversion Hin; subst. apply ffb_keeps. apply fb_step_adds; assumption.
    + eapply IH; eauto.
  - rewrite ffb_node. cbn [kids_list] in Hin. destruct Hin as [Hin|Hin].
    + inversion Hin; subst. apply ffb_keeps. apply fb_step_adds; assumption.
    + eapply IH; eauto.
Qed.

(* every feature of an available basin of a dataset is listed by it *)
Lemma available_basin_features_listed : forall w t rb ot feat,
    In (rb, ot) (kids_list (tree_kids t)) -> rb_avail rb = true ->
    In feat (match ot with
             | None => leaf_feats rb
             | Some t' => node_feats w rb t'
             end) ->
    In feat (tfb w t).
Proof.
  intros w [fm i pr kids] rb ot feat Hin Hav Hf. cbn [tree_kids] in Hin.
  rewrite tfb_eq. apply sortdedup_In. eapply ffb_adds; eauto.
Qed.

Lemma fget_complete : forall w f rb t feat s,
    In (rb, Some t) (kids_list f) -> verify w rb = true ->
    In feat (node_feats w rb t) -> tget w t feat = Some s ->
    fget w f None feat <> None.
Proof.
  intros w f; induction f as [|rb0 rest IH|rb0 t0 rest IH] using forest_ind;
    intros rb t feat s Hin Hv Hf Hg.
  - destruct Hin.
  - rewrite fget_leaf. cbn [kids_list] in Hin.
    destruct Hin as [Hin|Hin]; [discriminate|].
    destruct (pass_ok None rb0 && memz feat (leaf_feats rb0) && verify w rb0
              && is_internal rb0); [discriminate | eapply IH; eauto].
  - rewrite fget_node. cbn [kids_list] in Hin. destruct Hin as [Hin|Hin].
    + inversion Hin; subst. cbn [pass_ok andb].
      apply memz_In in Hf. rewrite Hf, Hv, Hg. cbn. discriminate.
    + destruct (pass_ok None rb0 && memz feat (node_feats w rb0 t0)
                && verify w rb0).
      * destruct (tget w t0 feat); [discriminate | eapply IH; eauto].
      * eapply IH; eauto.
Qed.

(* a feature that a verified basin of the dataset can deliver is delivered
   (by that basin or by one of higher priority) *)
Lemma matching_basin_served : forall w t rb t' feat s',
    In (rb, Some t') (kids_list (tree_kids t)) -> verify w rb = true ->
    In feat (node_feats w rb t') -> tget w t' feat = Some s' ->
    exists s, tget w t feat = Some s.
Proof.
  intros w [fm i pr kids] rb t' feat s' Hin Hv Hf Hg.
  cbn [tree_kids] in Hin. rewrite tget_eq.
  destruct (memz feat (innate_of w i)); [eexists; reflexivity|].
  destruct (fget w kids (Some TInternal) feat); [eexists; reflexivity|].
  destruct (fget w kids (Some TFile) feat); [eexists; reflexivity|].
  pose proof (fget_complete w kids rb t' feat s' Hin Hv Hf Hg) as Hne.
  destruct (fget w kids None feat); [eexists; reflexivity | congruence].
Qed.

(* ------------------------------------------------ every nested dataset *)
Fixpoint subtrees (t : tree) : list tree :=
  t :: match t with Tree _ _ _ kids => fsubtrees kids end
with fsubtrees (f : forest) : list tree :=
  match f with
  | FNil => []
  | FLeaf _ rest => fsubtrees rest
  | FNode _ t rest => subtrees t ++ fsubtrees rest
  end.

Lemma inv_subtrees : forall w,
    (forall t, inv w t -> Forall (inv w) (subtrees t))
    /\ (forall f fm i, finv w fm i f -> Forall (inv w) (fsubtrees f)).
Proof.
  intros w. apply tree_forest_ind.
  - intros fm i pr kids IH Hi. cbn [subtrees]. constructor; [exact Hi|].
    destruct Hi as [_ Hk]. eapply IH; eauto.
  - intros fm i _. constructor.
  - intros rb rest IH fm i [_ [_ Hrest]]. cbn [fsubtrees]. eapply IH; eauto.
  - intros rb t IHt rest IHr fm i [_ [_ [Hi Hrest]]]. cbn [fsubtrees].
    apply Forall_app. split; [apply IHt; exact Hi | eapply IHr; eauto].
Qed.

(* Whatever the root: below every dataset that is accessed through a network
   format (e.g. an http basin of a file opened from disk) nothing is opened
   by local path and no local basin class is instantiated. *)
Lemma no_local_below_remote : forall w fuel fm i ign t,
    build w fuel fm i ign = Some t ->
    Forall (fun t' => local_allowed (tree_fmt t') = false ->
                      ttouched t' = []
                      /\ Forall (fun rb => class_type (rb_class rb) <> TFile)
                                (tree_edges t'))
           (subtrees t).
Proof.
  intros w fuel fm i ign t Hb.
  pose proof (build_inv _ _ _ _ _ _ Hb) as Hi.
  destruct (inv_subtrees w) as [Hs _]. specialize (Hs t Hi).
  eapply Forall_impl; [|exact Hs].
  intros t' Hi' Hl. destruct (nonlocal_isolated_aux w) as [H _].
  destruct (H t' Hi' Hl) as [Ht He]. split; [exact Ht|].
  eapply Forall_impl; [|exact He].
  intros rb Hc. cbv beta in Hc. destruct (rb_class rb); cbn [class_type];
    try discriminate. exfalso; apply Hc; reflexivity.
Qed.

(* file opened from disk -> http basin -> file and remote+hdf5 definitions *)
Definition w_nested : world :=
  [mkF (Some [97]) [0] [] [mkBasin 0 KHttp 0 [Here 1%nat] None];
   mkF (Some [97]) [1] []
          [mkBasin 1 KFile 0 [Here 2%nat] None;
           mkBasin 2 KRemoteHdf5 0 [Here 2%nat] None];
   mkF (Some [97]) [2] [] []].

Example ex_nested :
  exists t, build w_nested (fuel_for w_nested) FHdf5 0 [] = Some t
            /\ length (subtrees t) = 2%nat
            /\ ttouched t = [0%nat]
            /\ tget w_nested t 1 = Some 1 /\ tget w_nested t 2 = None.
Proof. eexists. repeat split; vm_compute; reflexivity. Qed.

(* ------------------------------------------ reading: mapping features *)
Lemma memn_In : forall x l, memn x l = true <-> In x l.
Proof.
  intros x l; induction l as [|y r IH]; cbn [memn In].
  - split; [discriminate | tauto].
  - rewrite orb_true_iff, IH, Nat.eqb_eq. split; intros [H|H]; auto.
Qed.

Lemma active_bound : forall n (active : list nat) i,
    NoDup active -> (forall j, In j active -> (j < n)%nat) ->
    (i < n)%nat -> ~ In i active -> (S (length active) <= n)%nat.
Proof.
  intros n active i Hnd Hlt Hi Hni.
  assert (Hnd' : NoDup (i :: active)) by (constructor; assumption).
  assert (Hincl : incl (i :: active) (seq 0 n)).
  { intros j [<-|Hj]; apply in_seq; [lia | specialize (Hlt j Hj); lia]. }
  pose proof (NoDup_incl_length Hnd' Hincl) as H.
  rewrite seq_length in H. exact H.
Qed.

(* The lookup of a (mapping) feature ends: with the re-entrancy guard every
   nested lookup makes one more basin active, so fuel = number of basin
   objects not yet active + 1 is never exhausted -- whatever the basins need
   and deliver (also when the mapping feature is stored nowhere, or only
   "behind" the basin that needs it). *)
Lemma lookup_terminates_aux :
  forall n innate needs gives k active feat,
    NoDup active -> (forall j, In j active -> (j < n)%nat) ->
    (n - length active <= k)%nat ->
    lookup n innate needs gives (S k) active feat <> None.
Proof.
  intros n innate needs gives k; induction k as [|k IH];
    intros active feat Hnd Hlt Hk.
  - cbn [lookup]. destruct (innate feat); [discriminate|].
    assert (Hall : forall bs, (forall i, In i bs -> (i < n)%nat) ->
      (fix try (bs : list nat) : option bool :=
         match bs with
         | [] => Some false
         | i :: rest =>
             match
               match needs i with
               | Some _ => if memn i active then Some false else None
               | None => Some true
               end
             with
             | Some true => if gives i feat then Some true else try rest
             | Some false => try rest
             | None => None
             end
         end) bs <> None).
    { induction bs as [|i rest IHb]; intros Hb; [discriminate|].
      assert (Hi : (i < n)%nat) by (apply Hb; left; reflexivity).
      assert (Hrest : forall j, In j rest -> (j < n)%nat)
        by (intros j Hj; apply Hb; right; exact Hj).
      destruct (needs i) as [m|].
      - destruct (memn i active) eqn:Em; [apply IHb; exact Hrest|].
        exfalso.
        assert (Hni : ~ In i active)
          by (intros Hin; apply memn_In in Hin; congruence).
        pose proof (active_bound n active i Hnd Hlt Hi Hni). lia.
      - destruct (gives i feat); [discriminate | apply IHb; exact Hrest]. }
    apply Hall. intros i Hi. apply in_seq in Hi. lia.
  - change (lookup n innate needs gives (S (S k)) active feat)
      with (if innate feat then Some true
            else (fix try (bs : list nat) : option bool :=
                    match bs with
                    | [] => Some false
                    | i :: rest =>
                        match
                          match needs i with
                          | Some m =>
                              if memn i active then Some false
                              else lookup n innate needs gives (S k)
                                          (i :: active) m
                          | None => Some true
                          end
                        with
                        | Some true =>
                            if gives i feat then Some true else try rest
                        | Some false => try rest
                        | None => None
                        end
                    end) (seq 0 n)).
    destruct (innate feat); [discriminate|].
    assert (Hall : forall bs, (forall i, In i bs -> (i < n)%nat) ->
      (fix try (bs : list nat) : option bool :=
         match bs with
         | [] => Some false
         | i :: rest =>
             match
               match needs i with
               | Some m =>
                   if memn i active then Some false
                   else lookup n innate needs gives (S k) (i :: active) m
               | None => Some true
               end
             with
             | Some true => if gives i feat then Some true else try rest
             | Some false => try rest
             | None => None
             end
         end) bs <> None).
    { induction bs as [|i rest IHb]; intros Hb; [discriminate|].
      assert (Hi : (i < n)%nat) by (apply Hb; left; reflexivity).
      assert (Hrest : forall j, In j rest -> (j < n)%nat)
        by (intros j Hj; apply Hb; right; exact Hj).
      destruct (needs i) as [m|].
      - destruct (memn i active) eqn:Em; [apply IHb; exact Hrest|].
        assert (Hni : ~ In i active)
          by (intros Hin; apply memn_In in Hin; congruence).
        pose proof (active_bound n active i Hnd Hlt Hi Hni) as Hb'.
        assert (Hrec : lookup n innate needs gives (S k) (i :: active) m
                       <> None).
        { apply IH.
          - constructor; assumption.
          - intros j [<-|Hj]; [exact Hi | apply Hlt; exact Hj].
          - cbn [length]. lia. }
        destruct (lookup n innate needs gives (S k) (i :: active) m)
          as [[|]|]; [| apply IHb; exact Hrest | congruence].
        destruct (gives i feat); [discriminate | apply IHb; exact Hrest].
      - destruct (gives i feat); [discriminate | apply IHb; exact Hrest]. }
    apply Hall. intros i Hi. apply in_seq in Hi. lia.
Qed.

Lemma lookup_terminates : forall n innate needs gives feat,
    lookup n innate needs gives (S n) [] feat <> None.
Proof.
  intros. apply lookup_terminates_aux; [constructor | intros j [] |].
  cbn [length]. lia.
Qed.

(* two mapped basins each of which could only deliver the other's mapping
   feature, and one healthy basin: the lookups fail, the healthy basin
   still delivers *)
Example ex_lookup :
  let needs := fun i : nat =>
                 match i with
                 | 0%nat => Some 10 | 1%nat => Some 11 | _ => None
                 end in
  let gives := fun (i : nat) (f : Z) =>
                 match i with
                 | 0%nat => f =? 11 | 1%nat => f =? 10 | _ => f =? 2
                 end in
  lookup 3 (fun _ => false) needs gives 4 [] 10 = Some false
  /\ lookup 3 (fun _ => false) needs gives 4 [] 2 = Some true.
Proof. split; vm_compute; reflexivity. Qed.
