(* Bridge between the flags read from the tree under test on this run
   (Gen/BasinFlags.v, written by harness/translators/basin_flags.py) and the
   tables Model/C14.v was written for.  A changed `_local_basins_allowed`, a
   changed basin_type/basin_format of a basin class, a basin class loading a
   different dataset class, or a removed refusal in basins_retrieve makes
   [flags_as_modelled] stop compiling. *)
From Coq Require Import List String Bool.
From Verif Require Import Model.C14 Gen.BasinFlags.
Import ListNotations.
Open Scope string_scope.

Definition fmt_name (fm : fmt) : string :=
  match fm with
  | FHdf5 => "RTDC_HDF5" | FHttp => "RTDC_HTTP"
  | FS3 => "RTDC_S3" | FDcor => "RTDC_DCOR"
  end.

Definition class_name (c : bclass) : string :=
  match c with
  | CInternal => "h5dataset" | CHdf5 => "hdf5" | CHttp => "http"
  | CS3 => "s3" | CDcor => "dcor"
  end.

Definition type_name (t : btype) : string :=
  match t with
  | TInternal => "internal" | TFile => "file" | TRemote => "remote"
  end.

(* the dataset class behind a basin class; internal basins load an
   RTDC_Dict, which has no basin definitions (a leaf of the model's tree) *)
Definition loads_name (c : bclass) : string :=
  match c with
  | CInternal => "RTDC_Dict"
  | _ => fmt_name (class_fmt c)
  end.

(* what the model was written for *)
Definition model_local_allowed : list (string * bool) :=
  [("RTDC_DCOR", local_allowed FDcor);
   ("RTDC_Dict", false);          (* instance attribute set by RTDCBase *)
   ("RTDC_HDF5", local_allowed FHdf5);
   ("RTDC_HTTP", local_allowed FHttp);
   ("RTDC_Hierarchy", false);     (* delegates `basins` to its parent *)
   ("RTDC_S3", local_allowed FS3);
   ("RTDC_TDMS", false)].

Definition model_has_basin_dicts : list (string * bool) :=
  [("RTDC_DCOR", true); ("RTDC_Dict", false); ("RTDC_HDF5", true);
   ("RTDC_HTTP", true); ("RTDC_Hierarchy", true); ("RTDC_S3", true);
   ("RTDC_TDMS", false)].

Definition model_basin_classes : list (string * (string * string)) :=
  map (fun c => (class_name c, (type_name (class_type c), loads_name c)))
      [CDcor; CInternal; CHdf5; CHttp; CS3].

Lemma flags_as_modelled :
  gen_local_allowed = model_local_allowed
  /\ gen_has_basin_dicts = model_has_basin_dicts
  /\ gen_basin_classes = model_basin_classes
  /\ gen_retrieve_guard = (true, true, true).
Proof. vm_compute. repeat split; reflexivity. Qed.

(* hence the functions of the model agree with the code's tables *)
Lemma model_flags_in_code :
  (forall fm, In (fmt_name fm, local_allowed fm) gen_local_allowed)
  /\ (forall c, In (class_name c, (type_name (class_type c), loads_name c))
                   gen_basin_classes).
Proof.
  destruct flags_as_modelled as [-> [_ [-> _]]].
  split; [intros []|intros []]; vm_compute; tauto.
Qed.
