(* Bridge between the flags read from the tree under test on this run
   (Gen/BasinFlags.v, written by harness/translators/basin_flags.py) and the
   tables Model/C14.v was written for.  A changed `_local_basins_allowed`, a
   changed basin_type/basin_format of a basin class, a basin class loading a
   different dataset class, or a removed refusal in basins_retrieve makes
   [flags_as_modelled] stop compiling. *)
From Coq Require Import ZArith List String Bool.
From Verif Require Import Model.C14 Gen.BasinFlags.
Import ListNotations.
Open Scope string_scope.

Definition fmt_name (fm : fmt) : string :=
  match fm with
  | FHdf5 => "RTDC_HDF5" | FHttp => "RTDC_HTTP"
  | FS3 => "RTDC_S3" | FDcor => "RTDC_DCOR"
  end.

Definition class_name (c : bclass) : string :=
  match c with
  | CInternal => "h5dataset" | CHdf5 => "hdf5" | CHttp => "http"
  | CS3 => "s3" | CDcor => "dcor"
  end.

Definition type_name (t : btype) : string :=
  match t with
  | TInternal => "internal" | TFile => "file" | TRemote => "remote"
  end.

(* the dataset class behind a basin class; internal basins load an
   RTDC_Dict, which has no basin definitions (a leaf of the model's tree) *)
Definition loads_name (c : bclass) : string :=
  match c with
  | CInternal => "RTDC_Dict"
  | _ => fmt_name (class_fmt c)
  end.

(* what the model was written for *)
Definition model_local_allowed : list (string * bool) :=
  [("RTDC_DCOR", local_allowed FDcor);
   ("RTDC_Dict", false);          (* instance attribute set by RTDCBase *)
   ("RTDC_HDF5", local_allowed FHdf5);
   ("RTDC_HTTP", local_allowed FHttp);
   ("RTDC_Hierarchy", false);     (* delegates `basins` to its parent *)
   ("RTDC_S3", local_allowed FS3);
   ("RTDC_TDMS", false)].

Definition model_has_basin_dicts : list (string * bool) :=
  [("RTDC_DCOR", true); ("RTDC_Dict", false); ("RTDC_HDF5", true);
   ("RTDC_HTTP", true); ("RTDC_Hierarchy", true); ("RTDC_S3", true);
   ("RTDC_TDMS", false)].

Definition model_basin_classes : list (string * (string * string)) :=
  map (fun c => (class_name c, (type_name (class_type c), loads_name c)))
      [CDcor; CInternal; CHdf5; CHttp; CS3].

(* does the model's basins_retrieve instantiate a basin of kind k whose
   location exists, for a referrer that does / does not allow local basins *)
Definition probe_world (k : kind) : world :=
  [mkF None [] [0] []; mkFile None [] [] [] (match kclass k with
                                              | CDcor => true | _ => false
                                              end)].

Definition model_instantiates (k : kind) (allowed : bool) : bool :=
  let b := mkBasin 7 k (match ktype k with TInternal => 1 | _ => 0 end)
                   [Here 1%nat] (Some [0%Z]) in
  let fm := if allowed then FHdf5 else FHttp in
  match fst (retrieve_one (probe_world k) fm 0 (mkF None [] [0] [b]) [7%Z] []
                          b) with
  | [] => false
  | _ => true
  end.

Definition model_retrieve_matrix : list (string * (string * (bool * bool))) :=
  map (fun k => (type_name (ktype k),
                 (class_name (kclass k),
                  (model_instantiates k true, model_instantiates k false))))
      [KInternal; KFile; KHttp; KS3; KDcor; KRemoteHdf5; KInternalHdf5].

(* an ignored key is skipped; a definition passes its own key down *)
Definition model_cycle_guard : bool * bool :=
  let b := mkBasin 7 KHttp 0 [Here 1%nat] None in
  let f := mkF None [] [] [b] in
  (match fst (retrieve_one (probe_world KHttp) FHdf5 0 f [7%Z] [7%Z] b) with
   | [] => true | _ => false end,
   match fst (retrieve (f :: tl (probe_world KHttp)) FHdf5 0 [5%Z]) with
   | [rb] => match rb_ign rb with [7%Z; 5%Z] => true | _ => false end
   | _ => false
   end).

Lemma flags_as_modelled :
  gen_local_allowed = model_local_allowed
  /\ gen_has_basin_dicts = model_has_basin_dicts
  /\ gen_basin_classes = model_basin_classes
  /\ gen_retrieve_matrix = model_retrieve_matrix
  /\ gen_cycle_guard = model_cycle_guard.
Proof. vm_compute. repeat split; reflexivity. Qed.

(* hence the functions of the model agree with the code's tables *)
Lemma model_flags_in_code :
  (forall fm, In (fmt_name fm, local_allowed fm) gen_local_allowed)
  /\ (forall c, In (class_name c, (type_name (class_type c), loads_name c))
                   gen_basin_classes).
Proof.
  destruct flags_as_modelled as [-> [_ [-> _]]].
  split; [intros []|intros []]; vm_compute; tauto.
Qed.
