(* Proofs about the polygon containment model (Model/C15.v). *)
From Coq Require Import ZArith QArith List Bool Lia Lqa.
From Verif Require Import Model.C15.
Import ListNotations.
Open Scope Q_scope.

(* ---- reflection of the boolean comparisons -------------------------------- *)
Lemma Qle_bool_spec a b : reflect (a <= b) (Qle_bool a b).
Proof. apply iff_reflect. symmetry. apply Qle_bool_iff. Qed.

Lemma Qeq_bool_spec a b : reflect (a == b) (Qeq_bool a b).
Proof. apply iff_reflect. symmetry. apply Qeq_bool_iff. Qed.

Ltac qdestr :=
  repeat match goal with
         | |- context [Qle_bool ?a ?b] => destruct (Qle_bool_spec a b)
         | |- context [Qeq_bool ?a ?b] => destruct (Qeq_bool_spec a b)
         end.

Ltac qbool := unfold Qleb, Qltb in *; qdestr; simpl;
              try reflexivity; try discriminate; try (exfalso; nra).

Ltac qbool2 := unfold Qleb, Qltb in *; qdestr; simpl;
               try (split; reflexivity); try (exfalso; nra).

(* ---- parity --------------------------------------------------------------- *)
Lemma parity_app f l1 l2 :
  parity f (l1 ++ l2) = xorb (parity f l1) (parity f l2).
Proof.
  induction l1 as [|e l1 IH]; simpl.
  - now destruct (parity f l2).
  - rewrite IH. now rewrite xorb_assoc.
Qed.

Lemma parity_rev f l : parity f (rev l) = parity f l.
Proof.
  induction l as [|e l IH]; simpl; [reflexivity|].
  rewrite parity_app, IH. simpl. rewrite xorb_false_r. apply xorb_comm.
Qed.

Lemma parity_ext_in f g l :
  (forall e, In e l -> f e = g e) -> parity f l = parity g l.
Proof.
  induction l as [|e l IH]; simpl; intros H; [reflexivity|].
  rewrite H by now left. rewrite IH; [reflexivity|]. intros; apply H; now right.
Qed.

Definition swap (e : edge) : edge := (snd e, fst e).

Lemma parity_swap f l :
  (forall e, f (swap e) = f e) -> parity f (map swap l) = parity f l.
Proof.
  intros H; induction l as [|e l IH]; simpl; [reflexivity|]. now rewrite H, IH.
Qed.

(* ---- last ------------------------------------------------------------------ *)
Lemma last_indep {A} (l : list A) d d' : l <> [] -> last l d = last l d'.
Proof.
  induction l as [|a l IH]; [congruence|]. intros _.
  destruct l as [|b l]; [reflexivity|].
  change (last (b :: l) d = last (b :: l) d'). apply IH. congruence.
Qed.

Lemma last_cons {A} (a : A) l d : last (a :: l) d = last l a.
Proof.
  destruct l as [|b l]; [reflexivity|].
  change (last (b :: l) d = last (b :: l) a).
  apply last_indep. congruence.
Qed.

Lemma last_app_ne {A} (l1 l2 : list A) d :
  l2 <> [] -> last (l1 ++ l2) d = last l2 d.
Proof.
  intros H2. induction l1 as [|a l1 IH]; [reflexivity|].
  rewrite <- app_comm_cons. rewrite last_cons.
  rewrite (last_indep (l1 ++ l2) a d); [exact IH|].
  destruct l1; simpl; [exact H2|congruence].
Qed.

Lemma last_In {A} (l : list A) d : l <> [] -> In (last l d) l.
Proof.
  induction l as [|a l IH]; [congruence|]. intros _.
  destruct l as [|b l]; [now left|].
  change (In (last (b :: l) d) (a :: b :: l)). right. apply IH. congruence.
Qed.

(* ---- edges ----------------------------------------------------------------- *)
Lemma path_edges_app {A} (prev : A) l1 l2 :
  path_edges prev (l1 ++ l2) = path_edges prev l1 ++ path_edges (last l1 prev) l2.
Proof.
  revert prev; induction l1 as [|a l1 IH]; intros prev; [reflexivity|].
  rewrite <- app_comm_cons. cbn [path_edges]. rewrite IH, last_cons. reflexivity.
Qed.

Lemma closed_edges_cons {A} (v0 : A) t :
  closed_edges (v0 :: t) = (v0, last t v0) :: path_edges v0 t.
Proof. unfold closed_edges. rewrite last_cons. reflexivity. Qed.

Lemma closed_edges_any {A} (poly : list A) d :
  poly <> [] -> closed_edges poly = path_edges (last poly d) poly.
Proof.
  destruct poly as [|v0 t]; [congruence|]. intros _. unfold closed_edges.
  f_equal. apply last_indep. congruence.
Qed.

Lemma closed_edges_app {A} (l1 l2 : list A) d :
  l1 <> [] -> l2 <> [] ->
  closed_edges (l1 ++ l2) = path_edges (last l2 d) l1 ++ path_edges (last l1 d) l2.
Proof.
  intros H1 H2. rewrite (closed_edges_any (l1 ++ l2) d).
  - rewrite path_edges_app, last_app_ne by exact H2. f_equal. f_equal.
    apply last_indep; exact H1.
  - destruct l1; [congruence|discriminate].
Qed.

Lemma path_edges_In {A} (prev : A) vs e :
  In e (path_edges prev vs) ->
  In (fst e) vs /\ (snd e = prev \/ In (snd e) vs).
Proof.
  revert prev; induction vs as [|v vs IH]; intros prev; simpl; [tauto|].
  intros [<-|H]; simpl; [split; left; reflexivity|].
  destruct (IH _ H) as [H1 [H2|H2]]; auto.
Qed.

Lemma closed_edges_In {A} (poly : list A) e :
  In e (closed_edges poly) -> In (fst e) poly /\ In (snd e) poly.
Proof.
  destruct poly as [|v0 t]; [simpl; tauto|]. unfold closed_edges. intros H.
  apply path_edges_In in H. destruct H as [H1 [H2|H2]]; split; auto.
  rewrite H2. apply last_In. congruence.
Qed.

(* open path: consecutive pairs *)
Definition open_edges (l : list pt) : list edge :=
  match l with [] => [] | v0 :: t => path_edges v0 t end.

Lemma open_edges_snoc l w d :
  l <> [] -> open_edges (l ++ [w]) = open_edges l ++ [(w, last l d)].
Proof.
  destruct l as [|v0 t]; [congruence|]. intros _.
  rewrite <- app_comm_cons. cbn [open_edges]. rewrite path_edges_app.
  cbn [path_edges]. rewrite last_cons. reflexivity.
Qed.

Lemma open_edges_rev l : open_edges (rev l) = rev (map swap (open_edges l)).
Proof.
  induction l as [|v0 t IH]; [reflexivity|].
  destruct t as [|v1 t']; [reflexivity|].
  cbn [rev] in *. rewrite (open_edges_snoc _ v0 v0).
  - rewrite IH. cbn [open_edges path_edges map rev]. f_equal.
    rewrite last_app_ne by congruence. reflexivity.
  - destruct (rev t'); discriminate.
Qed.

Lemma closed_open poly d :
  poly <> [] -> closed_edges poly = open_edges (last poly d :: poly).
Proof. intros H. rewrite (closed_edges_any poly d H). reflexivity. Qed.

(* ---- the loop is the parity of the crossing edges ------------------------- *)
Section Generic.
  Variable cross : pt -> pt -> pt -> bool.
  Definition ecross (p : pt) (e : edge) : bool := cross (fst e) (snd e) p.

  Lemma pip_loop_parity p prev vs c :
    pip_loop cross p prev vs c = xorb c (parity (ecross p) (path_edges prev vs)).
  Proof.
    revert prev c; induction vs as [|v vs IH]; intros prev c; simpl.
    - now rewrite xorb_false_r.
    - rewrite IH. unfold ecross at 2; simpl.
      destruct (cross v prev p), c, (parity (ecross p) (path_edges v vs)); reflexivity.
  Qed.

  Lemma pip_parity poly p : pip cross poly p = parity (ecross p) (closed_edges poly).
  Proof.
    destruct poly as [|v0 t]; [reflexivity|]. unfold pip, closed_edges.
    rewrite pip_loop_parity. apply xorb_false_l.
  Qed.

  (* the result does not depend on the starting vertex *)
  Lemma rotate_invariant l1 l2 p : pip cross (l1 ++ l2) p = pip cross (l2 ++ l1) p.
  Proof.
    destruct l1 as [|a l1]; [now rewrite app_nil_r|].
    destruct l2 as [|b l2]; [now rewrite app_nil_r|].
    rewrite !pip_parity.
    rewrite (closed_edges_app (a :: l1) (b :: l2) a) by congruence.
    rewrite (closed_edges_app (b :: l2) (a :: l1) a) by congruence.
    rewrite !parity_app. apply xorb_comm.
  Qed.

  Hypothesis cross_sym : forall a b p, cross a b p = cross b a p.

  (* ... nor on the orientation *)
  Lemma reverse_invariant poly p : pip cross (rev poly) p = pip cross poly p.
  Proof.
    destruct poly as [|v0 t]; [reflexivity|].
    rewrite !pip_parity.
    assert (Hr : rev (v0 :: t) <> []) by (simpl; destruct (rev t); discriminate).
    rewrite (closed_open _ v0 Hr).
    replace (last (rev (v0 :: t)) v0) with v0
      by (simpl; now rewrite last_app_ne by congruence).
    change (v0 :: rev (v0 :: t)) with (v0 :: rev (v0 :: t)).
    replace (v0 :: rev (v0 :: t)) with (rev ((v0 :: t) ++ [v0]))
      by (rewrite rev_app_distr; reflexivity).
    rewrite open_edges_rev, parity_rev, parity_swap
      by (intros e; unfold ecross, swap; simpl; apply cross_sym).
    rewrite (open_edges_snoc _ v0 v0) by congruence.
    rewrite parity_app, closed_edges_cons, last_cons.
    cbn [parity fold_right open_edges]. rewrite xorb_false_r. apply xorb_comm.
  Qed.

  Hypothesis cross_flat : forall a p, cross a a p = false.

  (* a vertex repeated in place changes nothing *)
  Lemma repeated_vertex_invariant l1 v l2 p :
    pip cross (l1 ++ v :: v :: l2) p = pip cross (l1 ++ v :: l2) p.
  Proof.
    rewrite (rotate_invariant l1 (v :: v :: l2)), (rotate_invariant l1 (v :: l2)).
    rewrite !pip_parity. rewrite <- !app_comm_cons, !closed_edges_cons.
    rewrite last_cons. cbn [path_edges parity fold_right].
    replace (ecross p (v, v)) with false by (unfold ecross; cbn [fst snd]; now rewrite cross_flat).
    rewrite xorb_false_l. reflexivity.
  Qed.

  (* the first vertex repeated at the end (a "closed" polygon) *)
  Lemma closing_vertex_invariant v0 t p :
    pip cross ((v0 :: t) ++ [v0]) p = pip cross (v0 :: t) p.
  Proof.
    rewrite rotate_invariant. exact (repeated_vertex_invariant [] v0 t p).
  Qed.
End Generic.

Lemma pip_ext (c1 c2 : pt -> pt -> pt -> bool) :
  (forall a b p, c1 a b p = c2 a b p) ->
  forall poly p, pip c1 poly p = pip c2 poly p.
Proof.
  intros H poly p. rewrite !pip_parity. apply parity_ext_in.
  intros e _. unfold ecross. apply H.
Qed.

Lemma pf_filter_ext (c1 c2 : pt -> pt -> pt -> bool) :
  (forall a b p, c1 a b p = c2 a b p) ->
  forall inv poly pts, pf_filter c1 inv poly pts = pf_filter c2 inv poly pts.
Proof.
  intros H inv poly pts. unfold pf_filter, points_in_poly.
  assert (E : map (pip c1 poly) pts = map (pip c2 poly) pts)
    by (apply map_ext; intros; now apply pip_ext).
  now rewrite E.
Qed.

(* inverting the filter gives the complement, point by point *)
Lemma invert_complement (cross : pt -> pt -> pt -> bool) poly pts :
  pf_filter cross true poly pts = map negb (pf_filter cross false poly pts)
  /\ length (pf_filter cross true poly pts) = length pts
  /\ forall k p, nth_error pts k = Some p ->
       nth_error (pf_filter cross false poly pts) k = Some (pip cross poly p)
       /\ nth_error (pf_filter cross true poly pts) k = Some (negb (pip cross poly p)).
Proof.
  unfold pf_filter, points_in_poly. split; [reflexivity|]. split.
  - now rewrite !map_length.
  - intros k p H. rewrite map_map. split.
    + now rewrite (map_nth_error _ _ _ H).
    + now rewrite (map_nth_error _ _ _ H).
Qed.

(* ---- the crossing predicate ------------------------------------------------ *)
Lemma model_cross_orient a b p :
  model_cross a b p =
  (Qleb (snd a) (snd p) && Qltb (snd p) (snd b) && Qltb 0 (orient a b p))
  || (Qleb (snd b) (snd p) && Qltb (snd p) (snd a) && Qltb (orient a b p) 0).
Proof.
  unfold model_cross, orient. destruct a as [xa ya], b as [xb yb], p as [x y].
  cbn [fst snd]. qbool.
Qed.

Lemma model_cross_sym a b p : model_cross a b p = model_cross b a p.
Proof.
  unfold model_cross. destruct a as [xa ya], b as [xb yb], p as [x y].
  cbn [fst snd]. qbool.
Qed.

Lemma model_cross_flat a p : model_cross a a p = false.
Proof.
  unfold model_cross. destruct a as [xa ya], p as [x y]. cbn [fst snd]. qbool.
Qed.

Lemma proper_cross_sym a b p : proper_cross a b p = proper_cross b a p.
Proof.
  unfold proper_cross, orient. destruct a as [xa ya], b as [xb yb], p as [x y].
  cbn [fst snd]. qbool.
Qed.

(* no end point level with the point: the half-open rule is a proper crossing *)
Lemma model_cross_generic a b p :
  ~ snd a == snd p -> ~ snd b == snd p ->
  model_cross a b p = proper_cross a b p.
Proof.
  rewrite model_cross_orient. unfold proper_cross.
  destruct a as [xa ya], b as [xb yb], p as [x y]. cbn [fst snd]. intros Ha Hb.
  set (D := orient (xa, ya) (xb, yb) (x, y)). clearbody D.
  unfold Qleb, Qltb. qdestr; simpl; try reflexivity; exfalso.
  all: try (apply Ha; lra). all: try (apply Hb; lra).
Qed.

Lemma generic_agrees poly p :
  (forall v, In v poly -> ~ snd v == snd p) ->
  pip model_cross poly p = spec_inside poly p.
Proof.
  intros H. rewrite pip_parity. unfold spec_inside. apply parity_ext_in.
  intros e He. apply closed_edges_In in He. destruct He as [H1 H2].
  unfold ecross. apply model_cross_generic; apply H; assumption.
Qed.

(* ---- the half-open rule is the limit of rays just above ------------------- *)
Definition ev (P : Q -> Prop) : Prop :=
  exists d, 0 < d /\ forall e, 0 < e -> e < d -> P e.

Lemma ev_and P R : ev P -> ev R -> ev (fun e => P e /\ R e).
Proof.
  intros [d1 [Hd1 H1]] [d2 [Hd2 H2]].
  destruct (Qlt_le_dec d1 d2) as [L|L].
  - exists d1. split; [exact Hd1|]. intros e He1 He2. split; [auto|]. apply H2; lra.
  - exists d2. split; [exact Hd2|]. intros e He1 He2. split; [|auto]. apply H1; lra.
Qed.

Lemma ev_mono (P R : Q -> Prop) : (forall e, 0 < e -> P e -> R e) -> ev P -> ev R.
Proof. intros H [d [Hd HP]]. exists d. split; [exact Hd|]. intros; apply H; auto. Qed.

Lemma ev_const (P : Prop) : P -> ev (fun _ => P).
Proof. intros H. exists 1. split; [lra|auto]. Qed.

Lemma ev_forall_in {A} (l : list A) (P : A -> Q -> Prop) :
  (forall a, In a l -> ev (P a)) -> ev (fun e => forall a, In a l -> P a e).
Proof.
  induction l as [|a l IH]; intros H.
  - exists 1. split; [lra|]. intros e _ _ a [].
  - assert (H1 : ev (P a)) by (apply H; now left).
    assert (H2 : ev (fun e => forall a, In a l -> P a e))
      by (apply IH; intros; apply H; now right).
    destruct (ev_and _ _ H1 H2) as [d [Hd HH]]. exists d. split; [exact Hd|].
    intros e He1 He2 a' [<-|I]; [exact (proj1 (HH e He1 He2))|exact (proj2 (HH e He1 He2) a' I)].
Qed.

Lemma ev_le_lt a y : ev (fun e => Qleb a y = Qltb a (y + e)).
Proof.
  destruct (Qlt_le_dec y a) as [L|L].
  - exists (a - y). split; [lra|]. intros e H1 H2. qbool.
  - exists 1. split; [lra|]. intros e H1 H2. qbool.
Qed.

Lemma ev_lt_lt y b : ev (fun e => Qltb y b = Qltb (y + e) b).
Proof.
  destruct (Qlt_le_dec y b) as [L|L].
  - exists (b - y). split; [lra|]. intros e H1 H2. qbool.
  - exists 1. split; [lra|]. intros e H1 H2. qbool.
Qed.

Lemma ev_neq v y : ev (fun e => ~ v == y + e).
Proof.
  destruct (Qlt_le_dec y v) as [L|L].
  - exists (v - y). split; [lra|]. intros e H1 H2. lra.
  - exists 1. split; [lra|]. intros e H1 H2. lra.
Qed.

Lemma ev_sign D k :
  ~ D == 0 ->
  ev (fun e => Qltb 0 (D + e * k) = Qltb 0 D /\ Qltb (D + e * k) 0 = Qltb D 0).
Proof.
  intros HD.
  assert (Hm : forall D' k', 0 < D' -> k' < 0 -> forall e, 0 < e -> e < D' / - k' ->
                                                   0 < D' + e * k').
  { intros D' k' HD' Hk' e He1 He2.
    assert (E : (D' / - k') * (- k') == D') by (field; lra).
    assert (e * (- k') < (D' / - k') * (- k')) by (apply Qmult_lt_r; lra). lra. }
  assert (Hp : forall D' k', 0 < D' -> k' < 0 -> 0 < D' / - k').
  { intros D' k' HD' Hk'. apply Qlt_shift_div_l; lra. }
  destruct (Qlt_le_dec 0 D) as [Dp|Dn].
  - destruct (Qlt_le_dec k 0) as [kn|kp].
    + exists (D / - k). split; [now apply Hp|]. intros e He1 He2.
      pose proof (Hm D k Dp kn e He1 He2). qbool2.
    + exists 1. split; [lra|]. intros e He1 He2.
      assert (0 <= e * k) by (apply Qmult_le_0_compat; lra). qbool2.
  - assert (Dn' : D < 0) by (destruct (Qlt_le_dec D 0); [assumption|exfalso; apply HD; lra]).
    destruct (Qlt_le_dec 0 k) as [kp|kn].
    + exists ((- D) / - (- k)). split; [apply Hp; lra|]. intros e He1 He2.
      pose proof (Hm (- D) (- k) ltac:(lra) ltac:(lra) e He1 He2). qbool2.
    + exists 1. split; [lra|]. intros e He1 He2.
      assert (0 <= e * (- k)) by (apply Qmult_le_0_compat; lra). qbool2.
Qed.

Lemma on_line_between xa ya xb yb x y :
  (xb - xa) * (y - ya) - (yb - ya) * (x - xa) == 0 ->
  ya <= y -> y < yb -> between xa xb x = true.
Proof.
  intros E H1 H2. unfold between. qbool.
Qed.

Lemma level_off_segment a b p :
  on_segment a b p = false ->
  (Qleb (snd a) (snd p) && Qltb (snd p) (snd b))
  || (Qleb (snd b) (snd p) && Qltb (snd p) (snd a)) = true ->
  ~ orient a b p == 0.
Proof.
  unfold on_segment. intros Hs Hl E.
  destruct a as [xa ya], b as [xb yb], p as [x y]. cbn [fst snd] in *.
  destruct (Qeq_bool_spec (orient (xa, ya) (xb, yb) (x, y)) 0) as [_|N]; [|now apply N].
  unfold orient in E. cbn [fst snd] in E.
  apply orb_true_iff in Hl. destruct Hl as [Hl|Hl]; apply andb_true_iff in Hl;
    destruct Hl as [L1 L2]; unfold Qleb, Qltb in L1, L2;
    destruct (Qle_bool_spec ya y); destruct (Qle_bool_spec yb y); try discriminate.
  - assert (B := on_line_between xa ya xb yb x y E ltac:(assumption) ltac:(lra)).
    rewrite B in Hs. unfold between in Hs. revert Hs. qbool.
  - assert (E' : (xa - xb) * (y - yb) - (ya - yb) * (x - xb) == 0) by nra.
    assert (B := on_line_between xb yb xa ya x y E' ltac:(assumption) ltac:(lra)).
    assert (B' : between xa xb x = true) by (revert B; unfold between; qbool).
    rewrite B' in Hs. unfold between in Hs. revert Hs. qbool.
Qed.

Lemma orient_shift a b p e :
  orient a b (fst p, snd p + e) == orient a b p + e * (fst b - fst a).
Proof. unfold orient. cbn [fst snd]. ring. Qed.

Lemma Qltb_comp_l a a' b : a == a' -> Qltb a b = Qltb a' b.
Proof. intros E. qbool. Qed.
Lemma Qltb_comp_r a b b' : b == b' -> Qltb a b = Qltb a b'.
Proof. intros E. qbool. Qed.

Lemma edge_perturbation a b p :
  on_segment a b p = false ->
  ev (fun e => model_cross a b p = proper_cross a b (fst p, snd p + e)).
Proof.
  intros Hs.
  pose proof (ev_le_lt (snd a) (snd p)) as F1.
  pose proof (ev_lt_lt (snd p) (snd b)) as F2.
  pose proof (ev_le_lt (snd b) (snd p)) as F3.
  pose proof (ev_lt_lt (snd p) (snd a)) as F4.
  destruct ((Qleb (snd a) (snd p) && Qltb (snd p) (snd b))
            || (Qleb (snd b) (snd p) && Qltb (snd p) (snd a))) eqn:Hl.
  - pose proof (ev_sign _ (fst b - fst a) (level_off_segment a b p Hs Hl)) as F5.
    refine (ev_mono _ _ _ (ev_and _ _ F1 (ev_and _ _ F2 (ev_and _ _ F3 (ev_and _ _ F4 F5))))).
    intros e He (E1 & E2 & E3 & E4 & E5 & E6).
    rewrite model_cross_orient. unfold proper_cross. cbn [fst snd].
    rewrite <- E1, <- E2, <- E3, <- E4.
    rewrite (Qltb_comp_r 0 _ _ (orient_shift a b p e)), E5.
    rewrite (Qltb_comp_l _ _ 0 (orient_shift a b p e)), E6. reflexivity.
  - refine (ev_mono _ _ _ (ev_and _ _ F1 (ev_and _ _ F2 (ev_and _ _ F3 F4)))).
    intros e He (E1 & E2 & E3 & E4).
    rewrite model_cross_orient. unfold proper_cross. cbn [fst snd].
    rewrite <- E1, <- E2, <- E3, <- E4.
    apply orb_false_iff in Hl. destruct Hl as [L1 L2]. rewrite L1, L2. reflexivity.
Qed.

Lemma halfopen_is_perturbation poly p :
  on_boundary poly p = false ->
  exists d, 0 < d /\ forall e, 0 < e -> e < d ->
    (forall v, In v poly -> ~ snd v == snd p + e)
    /\ pip model_cross poly p = spec_inside poly (fst p, snd p + e).
Proof.
  intros Hb.
  assert (A : ev (fun e => forall ed, In ed (closed_edges poly) ->
                   model_cross (fst ed) (snd ed) p
                   = proper_cross (fst ed) (snd ed) (fst p, snd p + e))).
  { apply ev_forall_in. intros ed Hin. apply edge_perturbation.
    unfold on_boundary in Hb.
    destruct (on_segment (fst ed) (snd ed) p) eqn:E; [|reflexivity].
    assert (X : existsb (fun e => on_segment (fst e) (snd e) p) (closed_edges poly) = true)
      by (apply existsb_exists; exists ed; auto).
    congruence. }
  assert (B : ev (fun e => forall v, In v poly -> ~ snd v == snd p + e)).
  { apply ev_forall_in. intros v _. apply ev_neq. }
  destruct (ev_and _ _ A B) as [d [Hd H]]. exists d. split; [exact Hd|].
  intros e He1 He2. destruct (H e He1 He2) as [HA HB]. split; [exact HB|].
  rewrite pip_parity. unfold spec_inside. apply parity_ext_in. exact HA.
Qed.

(* ---- non-vacuity ---------------------------------------------------------- *)
Definition ex_square : list pt := [(0, 0); (0, 1); (1, 1); (1, 0)].
(* self-intersecting "bow tie" with a repeated vertex *)
Definition ex_bowtie : list pt := [(0, 0); (2, 2); (2, 2); (2, 0); (0, 2)].

Example ex_generic :
  (forall v, In v ex_bowtie -> ~ snd v == snd (1 # 2, 1 # 4))
  /\ pip model_cross ex_bowtie (1 # 2, 1 # 4) = false
  /\ pip model_cross ex_bowtie (1 # 4, 1 # 2) = true.
Proof.
  split; [|split; vm_compute; reflexivity].
  intros v Hv. simpl in Hv.
  repeat (destruct Hv as [<-|Hv]; [cbn; intros E; discriminate E|]). destruct Hv.
Qed.

(* a point level with two vertices and on the line of a horizontal edge, off
   the boundary: hypotheses of halfopen_is_perturbation hold *)
Example ex_level :
  on_boundary ex_square (2, 1) = false /\ on_boundary ex_square (1 # 2, 1) = true
  /\ pip model_cross ex_square (1 # 2, 0) = true
  /\ pip model_cross ex_square (1 # 2, 1) = false.
Proof. repeat split; vm_compute; reflexivity. Qed.

Example ex_invert :
  pf_filter model_cross true ex_square [(1 # 2, 1 # 2); (2, 2)] = [false; true].
Proof. vm_compute. reflexivity. Qed.
