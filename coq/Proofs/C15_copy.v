(* PolygonFilter.copy(invert): inverting yields the complement (Model/C15.v). *)
From Coq Require Import ZArith QArith List Bool Lia.
From Verif Require Import Model.C15.
Import ListNotations.
Open Scope Z_scope.

Lemma pf_filter_negb (cross : pt -> pt -> pt -> bool) b poly pts :
  pf_filter cross (negb b) poly pts = map negb (pf_filter cross b poly pts).
Proof.
  unfold pf_filter. destruct b; cbn [negb]; [|reflexivity].
  rewrite map_map. rewrite <- (map_id (points_in_poly cross poly pts)) at 1.
  apply map_ext. intros x. now rewrite negb_involutive.
Qed.

Lemma copy_fields {F} (f : pfilter F) b r :
  let g := fst (pf_copy f b r) in
  f_ax F g = f_ax F f /\ f_ay F g = f_ay F f /\ f_name F g = f_name F f
  /\ f_pts F g = f_pts F f
  /\ f_inv F g = (if b then negb (f_inv F f) else f_inv F f).
Proof.
  unfold pf_copy. destruct (set_unique_id (snd r) r) as [uid r']. cbn. auto.
Qed.

(* copy(invert=True) classifies every point as the complement of the source,
   whether or not the source is itself inverted *)
Lemma copy_invert_complement cross (f : pfilter Q) r pts :
  pf_apply cross (fst (pf_copy f true r)) pts = map negb (pf_apply cross f pts).
Proof.
  unfold pf_apply. destruct (copy_fields f true r) as (_ & _ & _ & Hp & Hi).
  cbv zeta in Hp, Hi. rewrite Hp, Hi. apply pf_filter_negb.
Qed.

Lemma copy_plain_same cross (f : pfilter Q) r pts :
  pf_apply cross (fst (pf_copy f false r)) pts = pf_apply cross f pts.
Proof.
  unfold pf_apply. destruct (copy_fields f false r) as (_ & _ & _ & Hp & Hi).
  cbv zeta in Hp, Hi. now rewrite Hp, Hi.
Qed.

(* inverting twice restores the original filter (all fields but the id) *)
Lemma copy_invert_involution {F} (f : pfilter F) r r' :
  let g := fst (pf_copy (fst (pf_copy f true r)) true r') in
  f_inv F g = f_inv F f /\ f_ax F g = f_ax F f /\ f_ay F g = f_ay F f
  /\ f_name F g = f_name F f /\ f_pts F g = f_pts F f.
Proof.
  cbv zeta.
  destruct (copy_fields (fst (pf_copy f true r)) true r') as (A & B & C & D & E).
  destruct (copy_fields f true r) as (A' & B' & C' & D' & E').
  cbv zeta in *. rewrite A, B, C, D, E, A', B', C', D', E'.
  rewrite negb_involutive. auto.
Qed.

Lemma copy_invert_involution_filter cross (f : pfilter Q) r r' pts :
  pf_apply cross (fst (pf_copy (fst (pf_copy f true r)) true r')) pts = pf_apply cross f pts.
Proof.
  rewrite !copy_invert_complement, map_map.
  rewrite <- (map_id (pf_apply cross f pts)) at 2.
  apply map_ext. intros x. now rewrite negb_involutive.
Qed.

(* the copy gets an identifier no registered instance has, when every
   registered identifier is below the counter (invariant of _set_unique_id) *)
Lemma copy_new_id {F} (f : pfilter F) b r :
  (forall i, In i (fst r) -> i < snd r) ->
  let '(g, r') := pf_copy f b r in
  ~ In (f_id F g) (fst r) /\ fst r' = fst r ++ [f_id F g]
  /\ (forall i, In i (fst r') -> i < snd r').
Proof.
  intros Hinv. unfold pf_copy, set_unique_id. destruct r as [ids c]. cbn [fst snd] in *.
  assert (M : mem ids c = false).
  { unfold mem. apply not_true_is_false. intros E. apply existsb_exists in E.
    destruct E as [x [Hin Hx]]. specialize (Hinv x Hin). lia. }
  rewrite M. cbn [fst snd f_id]. split; [|split; [reflexivity|]].
  - intros Hin. specialize (Hinv c Hin). lia.
  - intros i Hi. apply in_app_or in Hi. destruct Hi as [Hi|[<-|[]]]; [specialize (Hinv i Hi)|]; lia.
Qed.

(* non-vacuity: an inverted unit square, copied with invert=True *)
Example ex_copy_inverted :
  let sq : pfilter Q := mkpf Q 0 [] [] [] true [(0, 0); (0, 1); (1, 1); (1, 0)]%Q in
  let p := [((1 # 2), (1 # 2)); (2, 2)]%Q in
  pf_apply model_cross sq p = [false; true]
  /\ pf_apply model_cross (fst (pf_copy sq true ([0], 1))) p = [true; false]
  /\ f_id Q (fst (pf_copy sq true ([0], 1))) = 1.
Proof. cbv zeta. repeat split; vm_compute; reflexivity. Qed.
