(* The concrete decimal functions of the executable persistence model satisfy
   the number-format hypotheses of roundtrip_partial ('{:08d}' / int()). *)
From Coq Require Import String.
From Coq Require Import ZArith List Bool Lia ZifyBool.
From Verif Require Import Model.C15 Proofs.C15_persist.
Import ListNotations.
Open Scope Z_scope.

Lemma digits_aux_app fuel : forall n acc,
  digits_aux fuel n acc = digits_aux fuel n [] ++ acc.
Proof.
  induction fuel as [|f IH]; intros n acc; [reflexivity|].
  cbn [digits_aux]. destruct (n <? 10); [reflexivity|].
  rewrite IH. rewrite (IH (n / 10) [48 + n mod 10]). now rewrite <- app_assoc.
Qed.

Lemma digits_aux_digits fuel : forall n acc,
  0 <= n -> forallb is_digit acc = true -> forallb is_digit (digits_aux fuel n acc) = true.
Proof.
  induction fuel as [|f IH]; intros n acc Hn Ha; [exact Ha|].
  cbn [digits_aux]. destruct (n <? 10) eqn:E.
  - cbn [forallb]. rewrite Ha. unfold is_digit. lia.
  - apply IH; [apply Z.div_pos; lia|]. cbn [forallb]. rewrite Ha.
    pose proof (Z.mod_pos_bound n 10 ltac:(lia)). unfold is_digit. lia.
Qed.

Lemma digits_aux_nonempty fuel n : digits_aux (S fuel) n [] <> [].
Proof.
  cbn [digits_aux]. destruct (n <? 10); [discriminate|].
  rewrite digits_aux_app. destruct (digits_aux fuel (n / 10) []); discriminate.
Qed.

Lemma parse_digits_app l1 : forall l2 a,
  parse_digits (l1 ++ l2) a =
  match parse_digits l1 a with Some v => parse_digits l2 v | None => None end.
Proof.
  induction l1 as [|c l1 IH]; intros l2 a; [reflexivity|].
  cbn [app parse_digits]. destruct (is_digit c); [apply IH|reflexivity].
Qed.

Lemma pow2_S f : 2 ^ Z.of_nat (S f) = 2 * 2 ^ Z.of_nat f.
Proof. rewrite Nat2Z.inj_succ, Z.pow_succ_r by lia. reflexivity. Qed.

Lemma parse_digits_aux fuel : forall n a,
  0 <= n < 2 ^ Z.of_nat fuel -> (1 <= fuel)%nat ->
  parse_digits (digits_aux fuel n []) a
  = Some (a * 10 ^ Z.of_nat (List.length (digits_aux fuel n [])) + n).
Proof.
  induction fuel as [|f IH]; intros n a Hn Hf; [lia|].
  cbn [digits_aux]. destruct (n <? 10) eqn:E.
  - cbn [parse_digits List.length]. replace (is_digit (48 + n)) with true by (unfold is_digit; lia).
    f_equal. change (Z.of_nat 1) with 1. lia.
  - rewrite digits_aux_app, parse_digits_app.
    rewrite pow2_S in Hn.
    assert (Hq : 0 <= n / 10 < 2 ^ Z.of_nat f).
    { split; [apply Z.div_pos; lia|].
      apply Z.div_lt_upper_bound; lia. }
    assert (Hf' : (1 <= f)%nat).
    { destruct f; [|lia]. simpl in Hn. lia. }
    rewrite IH by assumption.
    cbn [parse_digits].
    pose proof (Z.mod_pos_bound n 10 ltac:(lia)).
    replace (is_digit (48 + n mod 10)) with true by (unfold is_digit; lia).
    f_equal. rewrite app_length. cbn [List.length]. rewrite Nat.add_1_r, Nat2Z.inj_succ.
    rewrite Z.pow_succ_r by lia.
    pose proof (Z.div_mod n 10 ltac:(lia)). nia.
Qed.

Lemma dec_fuel n : 0 <= n ->
  0 <= n < 2 ^ Z.of_nat (S (Z.to_nat (Z.log2 (Z.max n 1)))).
Proof.
  intros Hn. split; [exact Hn|].
  rewrite Nat2Z.inj_succ, Z2Nat.id by apply Z.log2_nonneg.
  pose proof (Z.log2_spec (Z.max n 1) ltac:(lia)). lia.
Qed.

Lemma parse_dec n : 0 <= n -> parse_digits (dec n) 0 = Some n.
Proof.
  intros Hn. unfold dec. rewrite parse_digits_aux; [f_equal; lia|now apply dec_fuel|lia].
Qed.

Lemma parse_zeros k s : parse_digits (repeat 48 k ++ s) 0 = parse_digits s 0.
Proof. induction k as [|k IH]; [reflexivity|]. cbn [repeat app parse_digits]. exact IH. Qed.

Lemma dec8_all_digits n : 0 <= n -> forallb is_digit (dec8 n) = true /\ dec8 n <> [].
Proof.
  intros Hn. unfold dec8. split.
  - rewrite forallb_app. apply andb_true_iff. split.
    + induction (8 - List.length (dec n))%nat as [|k IH]; [reflexivity|exact IH].
    + unfold dec. now apply digits_aux_digits.
  - intros E. apply app_eq_nil in E. destruct E as [_ E].
    unfold dec in E. now apply digits_aux_nonempty in E.
Qed.

Lemma dec8_digits_ok n : 0 <= n -> digits_ok (dec8 n) = true.
Proof.
  intros Hn. destruct (dec8_all_digits n Hn) as [H N]. unfold digits_ok.
  destruct (dec8 n); [congruence|exact H].
Qed.

Lemma parse_int_dec8 n : 0 <= n -> parse_int_c (dec8 n) = Some n.
Proof.
  intros Hn. destruct (dec8_all_digits n Hn) as [H N].
  assert (V : parse_digits (dec8 n) 0 = Some n)
    by (unfold dec8; rewrite parse_zeros; now apply parse_dec).
  unfold parse_int_c.
  assert (C : clean_by is_space (dec8 n) = true).
  { destruct (dec8 n) as [|c d] eqn:E; [congruence|]. unfold clean_by.
    pose proof (forallb_last is_digit (c :: d) ltac:(congruence) H) as HL.
    simpl in H. apply andb_true_iff in H. destruct H as [Hc _].
    destruct (is_digit_props _ Hc) as (S1 & _). destruct (is_digit_props _ HL) as (S2 & _).
    now rewrite S1, S2. }
  rewrite strip_clean by exact C.
  destruct (dec8 n) as [|c d] eqn:E; [congruence|].
  simpl in H. apply andb_true_iff in H. destruct H as [Hc _]. unfold is_digit in Hc.
  replace ((c =? 45) || (c =? 43)) with false by lia. exact V.
Qed.

(* round trip with the real decimal formats for identifiers and point numbers;
   only the coordinate format remains a parameter *)
Theorem roundtrip_decimal :
  forall (F : Type) (fmtf : F -> str) (parsef : str -> option F),
    (forall v, parsef (fmtf v) = Some v) ->
    (forall v, token_ok (fmtf v) = true) ->
    forall (fs : list (pfilter F)) (ids0 : list Z) (c0 : Z),
      Forall (fun f => wf_filter f = true) fs ->
      NoDup (map (f_id F) fs) ->
      (forall f, In f fs -> ~ In (f_id F f) ids0) ->
      exists c',
        import_all F parsef parse_int_c (save_all F fmtf dec8 fs) (ids0, c0)
        = (LOk fs, (ids0 ++ map (f_id F) fs, c'))
        /\ c0 <= c'
        /\ ((forall i, In i ids0 -> i < c0) ->
            forall i, In i (ids0 ++ map (f_id F) fs) -> i < c').
Proof.
  intros F fmtf parsef H1 H2. apply roundtrip_partial; auto using parse_int_dec8, dec8_digits_ok.
Qed.
