(* Round trip of the .poly persistence model (Model/C15.v, Section Persist). *)
From Coq Require Import String.
From Coq Require Import ZArith List Bool Lia ZifyBool.
From Verif Require Import Model.C15.
Import ListNotations.
Open Scope Z_scope.

(* ---- stripping ------------------------------------------------------------- *)
Lemma lstrip_by_all p a s : forallb p a = true -> lstrip_by p (a ++ s) = lstrip_by p s.
Proof.
  induction a as [|c a IH]; simpl; [reflexivity|].
  intros H. apply andb_true_iff in H. destruct H as [H1 H2]. rewrite H1. auto.
Qed.

Lemma lstrip_by_head p c s : p c = false -> lstrip_by p (c :: s) = c :: s.
Proof. intros H. simpl. now rewrite H. Qed.

Lemma rev_last (s : str) d : s <> [] -> exists t, rev s = last s d :: t.
Proof.
  intros H. destruct (exists_last H) as [l' [a E]]. subst s.
  rewrite rev_app_distr. simpl. exists (rev l'). f_equal.
  rewrite last_last. reflexivity.
Qed.

Lemma clean_by_strip p s a b :
  clean_by p s = true -> forallb p a = true -> forallb p b = true ->
  strip_by p (a ++ s ++ b) = s.
Proof.
  intros Hc Ha Hb. unfold strip_by. rewrite lstrip_by_all by exact Ha.
  destruct s as [|c s'].
  - simpl. replace (lstrip_by p b) with (@nil Z).
    + reflexivity.
    + rewrite <- (app_nil_r b). rewrite lstrip_by_all by exact Hb. reflexivity.
  - unfold clean_by in Hc. apply andb_true_iff in Hc. destruct Hc as [H1 H2].
    apply negb_true_iff in H1. apply negb_true_iff in H2.
    rewrite <- app_comm_cons. rewrite lstrip_by_head by exact H1.
    rewrite app_comm_cons, rev_app_distr.
    rewrite lstrip_by_all by (rewrite forallb_forall in *; intros x Hx; apply Hb; now apply in_rev).
    destruct (rev_last (c :: s') 0 ltac:(congruence)) as [t Et].
    rewrite Et, lstrip_by_head by exact H2. rewrite <- Et. apply rev_involutive.
Qed.

Lemma strip_clean s : clean_by is_space s = true -> strip s = s.
Proof. intros H. exact (eq_trans (f_equal (strip_by is_space) (eq_sym (app_nil_r s)))
                                 (clean_by_strip is_space s [] [] H eq_refl eq_refl)). Qed.

Lemma strip_sp_clean s : clean_by is_space s = true -> strip (32 :: s) = s.
Proof.
  intros H. change (32 :: s) with ([32] ++ s). rewrite <- (app_nil_r s) at 1.
  exact (clean_by_strip is_space s [32] [] H eq_refl eq_refl).
Qed.

Lemma strip_clean_sp s : clean_by is_space s = true -> strip (s ++ [32]) = s.
Proof. intros H. exact (clean_by_strip is_space s [] [32] H eq_refl eq_refl). Qed.

Lemma clean_by_app p c s t d :
  p c = false -> p d = false -> clean_by p ((c :: s) ++ t ++ [d]) = true.
Proof.
  intros Hc Hd. unfold clean_by. rewrite <- app_comm_cons. rewrite Hc.
  rewrite app_comm_cons, app_assoc, last_last, Hd. reflexivity.
Qed.

(* first character of a stripped line *)
Lemma strip_head c s : is_space c = false -> exists t, strip (c :: s) = c :: t.
Proof.
  intros H. unfold strip, strip_by. rewrite lstrip_by_head by exact H.
  assert (G : forall l, exists t, lstrip_by is_space (l ++ [c]) = t ++ [c]).
  { induction l as [|x l [t IH]]; simpl.
    - rewrite H. now exists [].
    - destruct (is_space x); [now exists t|]. now exists (x :: l). }
  simpl. destruct (G (rev s)) as [t Et]. rewrite Et, rev_app_distr. simpl. now exists (rev t).
Qed.

Lemma is_head_first c s : is_space c = false -> is_head (c :: s) = (91 =? c).
Proof.
  intros H. unfold is_head. destruct (strip_head c s H) as [t ->]. simpl.
  now rewrite andb_true_r.
Qed.

(* ---- characters of the formatted numbers ----------------------------------- *)
Lemma digits_ok_cons s : digits_ok s = true ->
  exists c t, s = c :: t /\ is_digit c = true /\ forallb is_digit s = true
              /\ is_digit (last s 0) = true.
Proof.
  destruct s as [|c t]; [discriminate|]. intros H. unfold digits_ok in H.
  exists c, t. split; [reflexivity|]. pose proof H as H'. simpl in H'.
  apply andb_true_iff in H'. split; [tauto|]. split; [exact H|].
  rewrite forallb_forall in H. apply H.
  destruct (exists_last (l:=c :: t) ltac:(congruence)) as [l' [a E]].
  rewrite E, last_last. apply in_or_app. right. now left.
Qed.

Lemma token_ok_cons s : token_ok s = true ->
  exists c t, s = c :: t
    /\ forallb (fun c => negb (is_space c) && negb (c =? 61) && negb (c =? 91) && negb (c =? 93)) s = true.
Proof. destruct s as [|c t]; [discriminate|]. intros H. now exists c, t. Qed.

Lemma forallb_last (p : Z -> bool) s : s <> [] -> forallb p s = true -> p (last s 0) = true.
Proof.
  intros Hne H. rewrite forallb_forall in H. apply H.
  destruct (exists_last Hne) as [l' [a E]]. rewrite E, last_last.
  apply in_or_app. right. now left.
Qed.

Lemma forallb_impl (p q : Z -> bool) s :
  (forall c, p c = true -> q c = true) -> forallb p s = true -> forallb q s = true.
Proof. intros H. rewrite !forallb_forall. auto. Qed.

Lemma is_digit_props c : is_digit c = true ->
  is_space c = false /\ (c =? 61) = false /\ (c =? 10) = false /\ (c =? 13) = false
  /\ lower_c c = c /\ mem (zs "Polygon []") c = false.
Proof.
  unfold is_digit, is_space, lower_c. intros H.
  assert (48 <= c <= 57) by lia.
  repeat split; try lia.
  - destruct ((65 <=? c) && (c <=? 90)) eqn:E; [lia|reflexivity].
  - vm_compute zs. unfold mem. simpl. lia.
Qed.
