(* Round trip of the .poly persistence model (Model/C15.v, Section Persist). *)
From Coq Require Import String.
From Coq Require Import ZArith List Bool Lia ZifyBool.
From Verif Require Import Model.C15 Proofs.C15_copy.
Import ListNotations.
Open Scope Z_scope.

(* ---- stripping ------------------------------------------------------------- *)
Lemma lstrip_by_all p a s : forallb p a = true -> lstrip_by p (a ++ s) = lstrip_by p s.
Proof.
  induction a as [|c a IH]; simpl; [reflexivity|].
  intros H. apply andb_true_iff in H. destruct H as [H1 H2]. rewrite H1. auto.
Qed.

Lemma lstrip_by_head p c s : p c = false -> lstrip_by p (c :: s) = c :: s.
Proof. intros H. simpl. now rewrite H. Qed.

Lemma rev_last (s : str) d : s <> [] -> exists t, rev s = last s d :: t.
Proof.
  intros H. destruct (exists_last H) as [l' [a E]]. subst s.
  rewrite rev_app_distr. simpl. exists (rev l'). f_equal.
  rewrite last_last. reflexivity.
Qed.

Lemma clean_by_strip p s a b :
  clean_by p s = true -> forallb p a = true -> forallb p b = true ->
  strip_by p (a ++ s ++ b) = s.
Proof.
  intros Hc Ha Hb. unfold strip_by. rewrite lstrip_by_all by exact Ha.
  destruct s as [|c s'].
  - simpl. replace (lstrip_by p b) with (@nil Z).
    + reflexivity.
    + rewrite <- (app_nil_r b). rewrite lstrip_by_all by exact Hb. reflexivity.
  - unfold clean_by in Hc. apply andb_true_iff in Hc. destruct Hc as [H1 H2].
    apply negb_true_iff in H1. apply negb_true_iff in H2.
    rewrite <- app_comm_cons. rewrite lstrip_by_head by exact H1.
    rewrite app_comm_cons, rev_app_distr.
    rewrite lstrip_by_all by (rewrite forallb_forall in *; intros x Hx; apply Hb; now apply in_rev).
    destruct (rev_last (c :: s') 0 ltac:(congruence)) as [t Et].
    rewrite Et, lstrip_by_head by exact H2. rewrite <- Et. apply rev_involutive.
Qed.

Lemma strip_clean s : clean_by is_space s = true -> strip s = s.
Proof. intros H. exact (eq_trans (f_equal (strip_by is_space) (eq_sym (app_nil_r s)))
                                 (clean_by_strip is_space s [] [] H eq_refl eq_refl)). Qed.

Lemma strip_sp_clean s : clean_by is_space s = true -> strip (32 :: s) = s.
Proof.
  intros H. change (32 :: s) with ([32] ++ s). rewrite <- (app_nil_r s) at 1.
  exact (clean_by_strip is_space s [32] [] H eq_refl eq_refl).
Qed.

Lemma strip_clean_sp s : clean_by is_space s = true -> strip (s ++ [32]) = s.
Proof. intros H. exact (clean_by_strip is_space s [] [32] H eq_refl eq_refl). Qed.

Lemma clean_by_app p c s t d :
  p c = false -> p d = false -> clean_by p ((c :: s) ++ t ++ [d]) = true.
Proof.
  intros Hc Hd. unfold clean_by. rewrite <- app_comm_cons. rewrite Hc.
  rewrite app_comm_cons, app_assoc, last_last, Hd. reflexivity.
Qed.

(* first character of a stripped line *)
Lemma strip_head c s : is_space c = false -> exists t, strip (c :: s) = c :: t.
Proof.
  intros H. unfold strip, strip_by. rewrite lstrip_by_head by exact H.
  assert (G : forall l, exists t, lstrip_by is_space (l ++ [c]) = t ++ [c]).
  { induction l as [|x l [t IH]]; simpl.
    - rewrite H. now exists [].
    - destruct (is_space x); [now exists t|]. now exists (x :: l). }
  simpl. destruct (G (rev s)) as [t Et]. rewrite Et, rev_app_distr. simpl. now exists (rev t).
Qed.

Lemma is_head_first c s : is_space c = false -> is_head (c :: s) = (91 =? c).
Proof.
  intros H. unfold is_head. destruct (strip_head c s H) as [t ->]. simpl.
  now rewrite andb_true_r.
Qed.

(* ---- characters of the formatted numbers ----------------------------------- *)
Lemma digits_ok_cons s : digits_ok s = true ->
  exists c t, s = c :: t /\ is_digit c = true /\ forallb is_digit s = true
              /\ is_digit (last s 0) = true.
Proof.
  destruct s as [|c t]; [discriminate|]. intros H. unfold digits_ok in H.
  exists c, t. split; [reflexivity|]. pose proof H as H'. simpl in H'.
  apply andb_true_iff in H'. split; [tauto|]. split; [exact H|].
  rewrite forallb_forall in H. apply H.
  destruct (exists_last (l:=c :: t) ltac:(congruence)) as [l' [a E]].
  rewrite E, last_last. apply in_or_app. right. now left.
Qed.

Lemma token_ok_cons s : token_ok s = true ->
  exists c t, s = c :: t
    /\ forallb (fun c => negb (is_space c) && negb (c =? 61) && negb (c =? 91) && negb (c =? 93)) s = true.
Proof. destruct s as [|c t]; [discriminate|]. intros H. now exists c, t. Qed.

Lemma forallb_last (p : Z -> bool) s : s <> [] -> forallb p s = true -> p (last s 0) = true.
Proof.
  intros Hne H. rewrite forallb_forall in H. apply H.
  destruct (exists_last Hne) as [l' [a E]]. rewrite E, last_last.
  apply in_or_app. right. now left.
Qed.

Lemma forallb_impl (p q : Z -> bool) s :
  (forall c, p c = true -> q c = true) -> forallb p s = true -> forallb q s = true.
Proof. intros H. rewrite !forallb_forall. auto. Qed.

Lemma is_digit_props c : is_digit c = true ->
  is_space c = false /\ (c =? 61) = false /\ (c =? 10) = false /\ (c =? 13) = false
  /\ lower_c c = c /\ mem (zs "Polygon []") c = false.
Proof.
  unfold is_digit, is_space, lower_c. intros H.
  assert (48 <= c <= 57) by lia.
  repeat split; try lia.
  - destruct ((65 <=? c) && (c <=? 90)) eqn:E; [lia|reflexivity].
  - vm_compute zs. unfold mem. simpl. lia.
Qed.

(* ---- lines / unlines -------------------------------------------------------- *)
Lemma lines_aux_line cur l rest :
  no_nl l = true ->
  lines_aux cur (l ++ 10 :: rest) = (rev cur ++ l) :: lines_aux [] rest.
Proof.
  revert cur; induction l as [|c l IH]; intros cur H.
  - simpl. now rewrite app_nil_r.
  - simpl in H. apply andb_true_iff in H. destruct H as [Hc Hl].
    apply andb_true_iff in Hc. destruct Hc as [H10 H13].
    apply negb_true_iff in H10. apply negb_true_iff in H13.
    simpl. rewrite H10, H13. rewrite IH by exact Hl. simpl.
    now rewrite <- app_assoc.
Qed.

Lemma lines_unlines ls :
  forallb no_nl ls = true -> lines (flat_map (fun l => l ++ [10]) ls) = ls.
Proof.
  unfold lines. induction ls as [|l ls IH]; intros H; [reflexivity|].
  simpl in H. apply andb_true_iff in H. destruct H as [H1 H2].
  simpl. rewrite <- app_assoc. simpl. rewrite lines_aux_line by exact H1.
  simpl. now rewrite IH.
Qed.

Lemma no_nl_app a b : no_nl (a ++ b) = no_nl a && no_nl b.
Proof. unfold no_nl. apply forallb_app. Qed.

(* ---- blocks ------------------------------------------------------------------ *)
Section Blocks.
  Variable F : Type.
  Variable fmtf : F -> str.
  Variable fmt8 : Z -> str.
  Hypothesis fmtf_token : forall v, token_ok (fmtf v) = true.
  Hypothesis fmt8_digits : forall n, 0 <= n -> digits_ok (fmt8 n) = true.

  Notation pf := (pfilter F).
  Notation header := (header_line F fmt8).
  Notation body := (body_lines F fmtf fmt8).
  Notation slines := (save_lines F fmtf fmt8).

  Lemma header_is_head f : is_head (header f) = true.
  Proof. unfold header_line. vm_compute zs. simpl. now rewrite is_head_first. Qed.

  Lemma point_lines_not_head i pts li :
    In li (mapi_aux (point_line F fmtf fmt8) i pts) -> is_head li = false.
  Proof.
    revert i; induction pts as [|xy pts IH]; intros i; simpl; [tauto|].
    intros [<-|H]; [|eauto].
    unfold point_line. vm_compute zs. simpl. now rewrite is_head_first.
  Qed.

  Lemma body_not_head f li : In li (body f) -> is_head li = false.
  Proof.
    unfold body_lines. intros H. apply in_app_or in H. destruct H as [H|H].
    - simpl in H. vm_compute zs in H.
      destruct H as [<-|[<-|[<-|[<-|[]]]]]; simpl; try now rewrite is_head_first.
    - eapply point_lines_not_head; eauto.
  Qed.

  Lemma blocks_aux_body h b bl rest :
    (forall li, In li bl -> is_head li = false) ->
    blocks_aux (Some (h, b)) (bl ++ rest) = blocks_aux (Some (h, rev bl ++ b)) rest.
  Proof.
    revert b; induction bl as [|li bl IH]; intros b H; [reflexivity|].
    simpl. rewrite (H li) by now left. rewrite IH by (intros; apply H; now right).
    now rewrite <- app_assoc.
  Qed.

  Lemma blocks_aux_saved h b fs :
    blocks_aux (Some (h, b)) (flat_map slines fs)
    = (h, rev b) :: map (fun f => (header f, body f)) fs.
  Proof.
    revert h b; induction fs as [|f fs IH]; intros h b; [reflexivity|].
    change (flat_map slines (f :: fs)) with ((header f :: body f) ++ flat_map slines fs).
    rewrite <- app_comm_cons. cbn [blocks_aux map]. rewrite header_is_head.
    rewrite blocks_aux_body by (apply body_not_head).
    rewrite IH. rewrite app_nil_r, rev_involutive. reflexivity.
  Qed.

  Lemma blocks_saved fs :
    blocks (flat_map slines fs) = map (fun f => (header f, body f)) fs.
  Proof.
    unfold blocks. destruct fs as [|f fs]; [reflexivity|].
    change (flat_map slines (f :: fs)) with ((header f :: body f) ++ flat_map slines fs).
    rewrite <- app_comm_cons. cbn [blocks_aux map]. rewrite header_is_head.
    rewrite blocks_aux_body by (apply body_not_head).
    rewrite blocks_aux_saved. rewrite app_nil_r, rev_involutive. reflexivity.
  Qed.
End Blocks.


Lemma last_app_ne' (l1 l2 : str) d : l2 <> [] -> last (l1 ++ l2) d = last l2 d.
Proof.
  intros H. destruct (exists_last H) as [l' [a E]]. subst l2.
  now rewrite app_assoc, !last_last.
Qed.

Lemma split1_lit pre post :
  existsb (Z.eqb 61) pre = false -> split1 61 (pre ++ 61 :: post) = Some (pre, post).
Proof.
  induction pre as [|c pre IH]; cbn [existsb split1 app]; intros H.
  - now rewrite Z.eqb_refl.
  - apply orb_false_iff in H. destruct H as [H1 H2].
    replace (c =? 61) with false by lia. now rewrite IH.
Qed.

Lemma split_ws_aux_token cur t rest :
  forallb (fun c => negb (is_space c)) t = true ->
  split_ws_aux cur (t ++ rest) = split_ws_aux (rev t ++ cur) rest.
Proof.
  revert cur; induction t as [|c t IH]; intros cur H; [reflexivity|].
  simpl in H. apply andb_true_iff in H. destruct H as [H1 H2].
  apply negb_true_iff in H1. simpl. rewrite H1. rewrite IH by exact H2.
  now rewrite <- app_assoc.
Qed.

Lemma split_ws_two tx ty :
  tx <> [] -> ty <> [] ->
  forallb (fun c => negb (is_space c)) tx = true ->
  forallb (fun c => negb (is_space c)) ty = true ->
  split_ws (tx ++ 32 :: ty) = [tx; ty].
Proof.
  intros Nx Ny Hx Hy. unfold split_ws. rewrite split_ws_aux_token by exact Hx.
  rewrite app_nil_r. simpl.
  destruct (rev tx) as [|c r] eqn:E.
  { exfalso. apply Nx. rewrite <- (rev_involutive tx), E. reflexivity. }
  rewrite <- E, rev_involutive. f_equal.
  rewrite <- (app_nil_r ty) at 1. rewrite split_ws_aux_token by exact Hy.
  rewrite app_nil_r. simpl.
  destruct (rev ty) as [|c' r'] eqn:E'.
  { exfalso. apply Ny. rewrite <- (rev_involutive ty), E'. reflexivity. }
  now rewrite <- E', rev_involutive.
Qed.

(* ---- one line --------------------------------------------------------------- *)
Ltac ev_closed :=
  repeat match goal with
         | |- context [str_eqb ?a ?b] =>
             let v := eval vm_compute in (str_eqb a b) in
             lazymatch v with
             | true => change (str_eqb a b) with true
             | false => change (str_eqb a b) with false
             end
         | |- context [startswith ?a ?b] =>
             let v := eval vm_compute in (startswith a b) in
             lazymatch v with
             | true => change (startswith a b) with true
             | false => change (startswith a b) with false
             end
         end.

Lemma lower_id s :
  forallb (fun c => negb ((65 <=? c) && (c <=? 90))) s = true -> lower s = s.
Proof.
  unfold lower. induction s as [|c s IH]; simpl; intros H; [reflexivity|].
  apply andb_true_iff in H. destruct H as [H1 H2]. rewrite IH by exact H2.
  unfold lower_c. apply negb_true_iff in H1. now rewrite H1.
Qed.

Lemma axis_ok_props s : axis_ok s = true ->
  no_nl s = true /\ clean_by is_space s = true /\ lower s = s.
Proof.
  unfold axis_ok, name_ok. intros H. apply andb_true_iff in H. destruct H as [H H3].
  apply andb_true_iff in H. destruct H as [H1 H2]. auto using lower_id.
Qed.

Section Load.
  Variable F : Type.
  Variable fmtf : F -> str.
  Variable parsef : str -> option F.
  Variable fmt8 : Z -> str.
  Variable parse_int : str -> option Z.
  Hypothesis parsef_fmtf : forall v, parsef (fmtf v) = Some v.
  Hypothesis fmtf_token : forall v, token_ok (fmtf v) = true.
  Hypothesis parse_fmt8 : forall n, 0 <= n -> parse_int (fmt8 n) = Some n.
  Hypothesis fmt8_digits : forall n, 0 <= n -> digits_ok (fmt8 n) = true.

  Notation acc := (acc F).
  Notation mkacc := (mkacc F).
  Notation load_line := (load_line F parsef parse_int).

  Lemma load_line_x (a : acc) ax : axis_ok ax = true ->
    load_line a (zs "X Axis = " ++ ax)
    = LOk (mkacc (Some ax) (a_y F a) (a_name F a) (a_inv F a) (a_pts F a)).
  Proof.
    intros H. destruct (axis_ok_props ax H) as (_ & Hc & Hl).
    unfold C15.load_line. vm_compute zs. simpl split1. cbv beta iota zeta.
    ev_closed. cbv iota. rewrite strip_sp_clean by exact Hc. now rewrite Hl.
  Qed.

  Lemma load_line_y (a : acc) ay : axis_ok ay = true ->
    load_line a (zs "Y Axis = " ++ ay)
    = LOk (mkacc (a_x F a) (Some ay) (a_name F a) (a_inv F a) (a_pts F a)).
  Proof.
    intros H. destruct (axis_ok_props ay H) as (_ & Hc & Hl).
    unfold C15.load_line. vm_compute zs. simpl split1. cbv beta iota zeta.
    ev_closed. cbv iota. rewrite strip_sp_clean by exact Hc. now rewrite Hl.
  Qed.

  Lemma load_line_name (a : acc) nm : clean_by is_space nm = true ->
    load_line a (zs "Name = " ++ nm)
    = LOk (mkacc (a_x F a) (a_y F a) (Some nm) (a_inv F a) (a_pts F a)).
  Proof.
    intros Hc.
    unfold C15.load_line. vm_compute zs. simpl split1. cbv beta iota zeta.
    ev_closed. cbv iota. now rewrite strip_sp_clean by exact Hc.
  Qed.

  Lemma load_line_inv (a : acc) (b : bool) : a_inv F a = false ->
    load_line a (zs "Inverted = " ++ (if b then zs "True" else zs "False"))
    = LOk (mkacc (a_x F a) (a_y F a) (a_name F a) b (a_pts F a)).
  Proof.
    intros Ha.
    unfold C15.load_line. vm_compute zs. destruct b; simpl split1; cbv beta iota zeta;
      ev_closed; cbv iota; [reflexivity|now rewrite Ha].
  Qed.

  Lemma point_line_split i (xy : F * F) :
    point_line F fmtf fmt8 i xy
    = ([112; 111; 105; 110; 116] ++ fmt8 i ++ [32])
        ++ 61 :: 32 :: (fmtf (fst xy) ++ 32 :: fmtf (snd xy)).
  Proof.
    unfold point_line. vm_compute zs. rewrite <- !app_assoc. reflexivity.
  Qed.

  Lemma token_props v :
    fmtf v <> []
    /\ forallb (fun c => negb (is_space c)) (fmtf v) = true
    /\ forallb (fun c => negb (mem [91; 93] c)) (fmtf v) = true.
  Proof.
    destruct (token_ok_cons _ (fmtf_token v)) as (c & t & E & H). split; [congruence|].
    split; eapply forallb_impl; try exact H; intros x Hx; cbv beta in *.
    - destruct (is_space x); [discriminate|reflexivity].
    - unfold mem. simpl. lia.
  Qed.

  Lemma clean_two (p : Z -> bool) tx ty :
    tx <> [] -> ty <> [] ->
    forallb (fun c => negb (p c)) tx = true -> forallb (fun c => negb (p c)) ty = true ->
    p 32 = true \/ p 32 = false ->
    clean_by p (tx ++ 32 :: ty) = true.
  Proof.
    intros Nx Ny Hx Hy _. destruct tx as [|c tx]; [congruence|].
    unfold clean_by. rewrite <- app_comm_cons.
    simpl in Hx. apply andb_true_iff in Hx. destruct Hx as [Hc _]. rewrite Hc.
    rewrite app_comm_cons. change (32 :: ty) with ([32] ++ ty).
    rewrite app_assoc, last_app_ne' by exact Ny.
    now rewrite (forallb_last _ ty Ny Hy).
  Qed.

  Lemma load_line_point (a : acc) i (xy : F * F) : 0 <= i ->
    load_line a (point_line F fmtf fmt8 i xy)
    = LOk (mkacc (a_x F a) (a_y F a) (a_name F a) (a_inv F a)
                 (a_pts F a ++ [(i, [fst xy; snd xy])])).
  Proof.
    intros Hi. rewrite point_line_split.
    destruct (digits_ok_cons _ (fmt8_digits i Hi)) as (c & t & E & Hc & Hall & Hlast).
    destruct (token_props (fst xy)) as (Nx & Sx & Bx).
    destruct (token_props (snd xy)) as (Ny & Sy & By).
    unfold C15.load_line. rewrite split1_lit.
    2:{ rewrite !existsb_app. simpl. rewrite orb_false_r.
        apply not_true_is_false. intros H. apply existsb_exists in H.
        destruct H as [x [Hin Hx]]. rewrite forallb_forall in Hall.
        specialize (Hall x Hin). unfold is_digit in Hall. lia. }
    cbv beta iota zeta.
    assert (Evar : strip ([112; 111; 105; 110; 116] ++ fmt8 i ++ [32])
                   = 112 :: 111 :: 105 :: 110 :: 116 :: fmt8 i).
    { rewrite app_assoc. rewrite strip_clean_sp; [reflexivity|].
      unfold clean_by. simpl app. cbv beta iota.
      change (112 :: 111 :: 105 :: 110 :: 116 :: fmt8 i)
        with ([112; 111; 105; 110; 116] ++ fmt8 i).
      rewrite last_app_ne' by (rewrite E; congruence).
      destruct (is_digit_props _ Hlast) as (Hs & _). rewrite Hs. reflexivity. }
    rewrite Evar.
    assert (Elow : lower (112 :: 111 :: 105 :: 110 :: 116 :: fmt8 i)
                   = 112 :: 111 :: 105 :: 110 :: 116 :: fmt8 i).
    { unfold lower. simpl. do 5 f_equal. rewrite <- (map_id (fmt8 i)) at 2.
      apply map_ext_in. intros x Hx. rewrite forallb_forall in Hall.
      now destruct (is_digit_props _ (Hall x Hx)) as (_ & _ & _ & _ & L & _). }
    rewrite Elow. vm_compute zs. ev_closed. cbv iota.
    rewrite strip_sp_clean
      by (apply clean_two; auto).
    assert (Eset : strip_set [91; 93] (fmtf (fst xy) ++ 32 :: fmtf (snd xy))
                   = fmtf (fst xy) ++ 32 :: fmtf (snd xy)).
    { unfold strip_set.
      rewrite <- (app_nil_r (fmtf (fst xy) ++ 32 :: fmtf (snd xy))) at 1.
      apply (clean_by_strip _ _ [] []); [|reflexivity|reflexivity].
      apply clean_two; auto. }
    rewrite Eset, split_ws_two by assumption.
    simpl parse_all. rewrite !parsef_fmtf. simpl skipn. rewrite parse_fmt8 by exact Hi.
    reflexivity.
  Qed.

  Notation load_body := (load_body F parsef parse_int).
  Definition rows_of (i : Z) (pts : list (F * F)) : list (Z * list F) :=
    mapi_aux (fun k xy => (k, [fst xy; snd xy])) i pts.

  Lemma load_points (a : acc) i pts : 0 <= i ->
    load_body a (mapi_aux (point_line F fmtf fmt8) i pts)
    = LOk (mkacc (a_x F a) (a_y F a) (a_name F a) (a_inv F a) (a_pts F a ++ rows_of i pts)).
  Proof.
    revert a i; induction pts as [|xy pts IH]; intros a i Hi.
    - simpl. rewrite app_nil_r. destruct a; reflexivity.
    - cbn [mapi_aux C15.load_body]. rewrite load_line_point by exact Hi.
      rewrite IH by lia. cbn [a_x a_y a_name a_inv a_pts rows_of mapi_aux].
      now rewrite <- app_assoc.
  Qed.

  Lemma wf_props (f : pfilter F) : wf_filter f = true ->
    0 <= f_id F f /\ axis_ok (f_ax F f) = true /\ axis_ok (f_ay F f) = true
    /\ name_ok (f_name F f) = true.
  Proof.
    unfold wf_filter. intros H. repeat (apply andb_true_iff in H; destruct H as [H ?]).
    repeat split; auto; try lia.
  Qed.

  Lemma load_body_saved (f : pfilter F) : wf_filter f = true ->
    load_body (mkacc None None None false []) (body_lines F fmtf fmt8 f)
    = LOk (mkacc (Some (f_ax F f)) (Some (f_ay F f)) (Some (f_name F f)) (f_inv F f)
                 (rows_of 0 (f_pts F f))).
  Proof.
    intros H. destruct (wf_props f H) as (Hid & Hx & Hy & Hn).
    unfold name_ok in Hn. apply andb_true_iff in Hn. destruct Hn as [_ Hn].
    unfold body_lines. cbn [app C15.load_body].
    rewrite load_line_x by exact Hx. rewrite load_line_y by exact Hy.
    rewrite load_line_name by exact Hn. rewrite load_line_inv by reflexivity.
    cbn [a_x a_y a_name a_inv a_pts]. rewrite load_points by lia. reflexivity.
  Qed.

  (* ---- the sorted, well-shaped point rows ---- *)
  Lemma rows_keys_ge i pts kv : In kv (rows_of i pts) -> i <= fst kv.
  Proof.
    revert i; induction pts as [|xy pts IH]; intros i; simpl; [tauto|].
    intros [<-|H]; simpl; [lia|]. specialize (IH _ H). lia.
  Qed.

  Lemma rows_no_dup i pts : has_dup_key (rows_of i pts) = false.
  Proof.
    revert i; induction pts as [|xy pts IH]; intros i; [reflexivity|].
    cbn [rows_of mapi_aux has_dup_key]. fold (rows_of (i + 1) pts). rewrite IH, orb_false_r.
    apply not_true_is_false. intros H. apply existsb_exists in H.
    destruct H as [kv [Hin Hk]]. apply rows_keys_ge in Hin. lia.
  Qed.

  Lemma rows_sorted i pts : sort_keys (rows_of i pts) = rows_of i pts.
  Proof.
    revert i; induction pts as [|xy pts IH]; intros i; [reflexivity|].
    cbn [rows_of mapi_aux]. fold (rows_of (i + 1) pts).
    unfold sort_keys. cbn [fold_right fst snd]. fold (sort_keys (rows_of (i + 1) pts)).
    rewrite IH. destruct pts as [|xy' pts']; [reflexivity|].
    cbn [rows_of mapi_aux insert_key]. replace (i <? i + 1) with true by lia. reflexivity.
  Qed.

  Lemma rows_same_lengths i pts : same_lengths F (rows_of i pts) = true.
  Proof.
    destruct pts as [|xy pts]; [reflexivity|]. cbn [rows_of mapi_aux same_lengths].
    generalize (i + 1). induction pts as [|xy' pts IH]; intros j; [reflexivity|].
    cbn [mapi_aux forallb snd List.length]. now rewrite IH.
  Qed.

  Lemma rows_rows2 i pts : rows2 F (rows_of i pts) = Some pts.
  Proof.
    revert i; induction pts as [|[x y] pts IH]; intros i; [reflexivity|].
    cbn [rows_of mapi_aux rows2 fst snd]. fold (rows_of (i + 1) pts). now rewrite IH.
  Qed.

  (* ---- the header ---- *)
  Lemma header_id (f : pfilter F) : 0 <= f_id F f ->
    parse_int (strip_set (zs "Polygon []") (strip (header_line F fmt8 f))) = Some (f_id F f).
  Proof.
    intros Hid.
    destruct (digits_ok_cons _ (fmt8_digits _ Hid)) as (c & t & E & Hc & Hall & Hlast).
    unfold header_line. vm_compute zs.
    rewrite strip_clean
      by (apply (clean_by_app is_space 91 [80; 111; 108; 121; 103; 111; 110; 32]); reflexivity).
    unfold strip_set. rewrite clean_by_strip; [now apply parse_fmt8| |reflexivity|reflexivity].
    unfold clean_by. rewrite E. rewrite <- E.
    destruct (is_digit_props _ Hc) as (_ & _ & _ & _ & _ & M1).
    destruct (is_digit_props _ Hlast) as (_ & _ & _ & _ & _ & M2).
    vm_compute zs in M1, M2. now rewrite M1, M2.
  Qed.

  Lemma mem_false ids (u : Z) : ~ In u ids -> mem ids u = false.
  Proof.
    intros H. unfold mem. apply not_true_is_false. intros E. apply existsb_exists in E.
    destruct E as [x [Hin Hx]]. apply H. replace u with x by lia. exact Hin.
  Qed.

  Notation load_one := (load_one F parsef parse_int).
  Notation slines := (save_lines F fmtf fmt8).

  Lemma load_one_saved fs k (f : pfilter F) ids c :
    nth_error fs k = Some f -> wf_filter f = true -> ~ In (f_id F f) ids ->
    load_one (flat_map slines fs) k (ids, c)
    = (LOk f, (ids ++ [f_id F f], Z.max c (f_id F f + 1))).
  Proof.
    intros Hn Hwf Hnew. destruct (wf_props f Hwf) as (Hid & Hx & Hy & Hnm).
    unfold C15.load_one, C15.load_one_gen.
    rewrite (blocks_saved F fmtf fmt8), (map_nth_error _ _ _ Hn).
    rewrite load_body_saved by exact Hwf. cbn [a_x a_y a_name a_inv a_pts].
    rewrite rows_no_dup, rows_sorted, rows_same_lengths. cbn [negb].
    rewrite header_id by exact Hid.
    unfold set_unique_id. rewrite mem_false by exact Hnew.
    rewrite rows_rows2.
    cbn [fst snd]. destruct f; reflexivity.
  Qed.

  Lemma load_one_end fs r :
    load_one (flat_map slines fs) (List.length fs) r = (LIndexError, r).
  Proof.
    unfold C15.load_one, C15.load_one_gen. rewrite (blocks_saved F fmtf fmt8).
    replace (nth_error (map (fun f => (header_line F fmt8 f, body_lines F fmtf fmt8 f)) fs)
                       (List.length fs)) with (@None (str * list str)); [reflexivity|].
    symmetry. apply nth_error_None. now rewrite map_length.
  Qed.

  Notation import_loop := (import_loop F parsef parse_int).

  Lemma import_loop_saved rest : forall done fuel ids0 c,
    Forall (fun f => wf_filter f = true) rest ->
    NoDup (map (f_id F) rest) ->
    (forall f, In f rest -> ~ In (f_id F f) (ids0 ++ map (f_id F) done)) ->
    (List.length rest < fuel)%nat ->
    exists c',
      import_loop fuel (flat_map slines (done ++ rest)) (List.length done)
                  (ids0 ++ map (f_id F) done, c) done
      = (LOk (done ++ rest), (ids0 ++ map (f_id F) (done ++ rest), c'))
      /\ c <= c' /\ (forall f, In f rest -> f_id F f < c').
  Proof.
    induction rest as [|f rest IH]; intros done fuel ids0 c Hwf Hnd Hnew Hfuel.
    - destruct fuel as [|fuel]; [inversion Hfuel|]. cbn [C15.import_loop].
      rewrite app_nil_r, load_one_end. exists c. split; [reflexivity|]. split; [lia|intros f []].
    - destruct fuel as [|fuel]; [inversion Hfuel|]. cbn [C15.import_loop].
      inversion Hwf as [|? ? Hf Hwf']; subst. inversion Hnd as [|? ? Hnotin Hnd']; subst.
      rewrite (load_one_saved _ _ f).
      + specialize (IH (done ++ [f]) fuel ids0 (Z.max c (f_id F f + 1)) Hwf' Hnd').
        rewrite <- !app_assoc in IH. cbn [app] in IH.
        rewrite app_length, Nat.add_1_r in IH. rewrite map_app in IH. cbn [map] in IH.
        rewrite app_assoc in IH.
        destruct IH as (c' & E & Hle & Hlt);
          [|simpl in Hfuel; lia
           |exists c'; split; [exact E|]; split; [lia|];
            intros g [<-|Hg]; [lia|now apply Hlt]].
        * intros g Hg Hin. rewrite <- app_assoc in Hin.
          apply in_app_or in Hin. destruct Hin as [Hin|Hin].
          -- apply (Hnew g (or_intror Hg)). apply in_or_app. now left.
          -- apply in_app_or in Hin. destruct Hin as [Hin|[Hin|[]]].
             ++ apply (Hnew g (or_intror Hg)). apply in_or_app. now right.
             ++ apply Hnotin. rewrite Hin. now apply in_map.
      + rewrite nth_error_app2 by lia. now rewrite Nat.sub_diag.
      + exact Hf.
      + apply Hnew. now left.
  Qed.
  (* ---- import into a registry that may already hold the identifiers ---- *)
  Definition RegInv (r : registry) : Prop := forall i, In i (fst r) -> i < snd r.
  Definition same_but_id (f g : pfilter F) : Prop :=
    f_ax F g = f_ax F f /\ f_ay F g = f_ay F f /\ f_name F g = f_name F f
    /\ f_inv F g = f_inv F f /\ f_pts F g = f_pts F f.

  Lemma mem_true_In ids (u : Z) : mem ids u = true -> In u ids.
  Proof.
    unfold mem. intros E. apply existsb_exists in E. destruct E as [x [Hin Hx]].
    replace u with x by lia. exact Hin.
  Qed.

  Lemma set_uid_spec uid ids c :
    RegInv (ids, c) ->
    exists u c', set_unique_id uid (ids, c) = (u, (ids, c'))
                 /\ ~ In u ids /\ u < c' /\ c <= c' /\ (~ In uid ids -> u = uid).
  Proof.
    intros Hinv. unfold set_unique_id. destruct (mem ids uid) eqn:M.
    - exists (Z.max c (uid + 1)), (Z.max c (Z.max c (uid + 1) + 1)).
      split; [reflexivity|]. split; [|split; [lia|split; [lia|]]].
      + intros Hin. specialize (Hinv _ Hin). cbn in Hinv. lia.
      + intros Hn. exfalso. apply Hn. now apply mem_true_In.
    - exists uid, (Z.max c (uid + 1)). split; [reflexivity|].
      split; [|split; [lia|split; [lia|reflexivity]]].
      intros Hin. assert (X : mem ids uid = true); [|congruence].
      unfold mem. apply existsb_exists. exists uid. split; [exact Hin|lia].
  Qed.

  Lemma load_one_renumber fs k (f : pfilter F) ids c :
    nth_error fs k = Some f -> wf_filter f = true -> RegInv (ids, c) ->
    exists u c',
      load_one (flat_map slines fs) k (ids, c)
      = (LOk (mkpf F u (f_ax F f) (f_ay F f) (f_name F f) (f_inv F f) (f_pts F f)),
         (ids ++ [u], c'))
      /\ ~ In u ids /\ RegInv (ids ++ [u], c') /\ (~ In (f_id F f) ids -> u = f_id F f)
      /\ c <= c'.
  Proof.
    intros Hn Hwf Hinv. destruct (wf_props f Hwf) as (Hid & Hx & Hy & Hnm).
    destruct (set_uid_spec (f_id F f) ids c Hinv) as (u & c' & E & Hnew & Hlt & Hle & Hsame).
    exists u, c'. split; [|split; [exact Hnew|split; [|split; [exact Hsame|exact Hle]]]].
    - unfold C15.load_one, C15.load_one_gen.
      rewrite (blocks_saved F fmtf fmt8), (map_nth_error _ _ _ Hn).
      rewrite load_body_saved by exact Hwf. cbn [a_x a_y a_name a_inv a_pts].
      rewrite rows_no_dup, rows_sorted, rows_same_lengths. cbn [negb].
      rewrite header_id by exact Hid. rewrite E. rewrite rows_rows2. reflexivity.
    - intros i Hi. cbn [fst snd] in *. apply in_app_or in Hi.
      destruct Hi as [Hi|[<-|[]]]; [|exact Hlt]. specialize (Hinv i Hi). cbn in Hinv. lia.
  Qed.

  Lemma import_loop_renumber rest : forall done got fuel ids c,
    Forall (fun f => wf_filter f = true) rest ->
    RegInv (ids, c) ->
    (List.length rest < fuel)%nat ->
    exists rest' r',
      import_loop fuel (flat_map slines (done ++ rest)) (List.length done) (ids, c) got
      = (LOk (got ++ rest'), r')
      /\ Forall2 same_but_id rest rest'
      /\ NoDup (map (f_id F) rest')
      /\ (forall g, In g rest' -> ~ In (f_id F g) ids)
      /\ fst r' = ids ++ map (f_id F) rest'
      /\ RegInv r' /\ c <= snd r'.
  Proof.
    induction rest as [|f rest IH]; intros done got fuel ids c Hwf Hinv Hfuel.
    - destruct fuel as [|fuel]; [inversion Hfuel|]. cbn [C15.import_loop].
      rewrite app_nil_r, load_one_end. exists [], (ids, c).
      rewrite app_nil_r. split; [reflexivity|]. split; [constructor|].
      split; [constructor|]. split; [intros g []|]. split; [cbn; now rewrite app_nil_r|].
      split; [exact Hinv|cbn; lia].
    - destruct fuel as [|fuel]; [inversion Hfuel|]. cbn [C15.import_loop].
      inversion Hwf as [|? ? Hf Hwf']; subst.
      destruct (load_one_renumber (done ++ f :: rest) (List.length done) f ids c)
        as (u & c' & E & Hnew & Hinv' & _ & Hcc); [|exact Hf|exact Hinv|].
      { rewrite nth_error_app2 by lia. now rewrite Nat.sub_diag. }
      rewrite E.
      set (f' := mkpf F u (f_ax F f) (f_ay F f) (f_name F f) (f_inv F f) (f_pts F f)).
      destruct (IH (done ++ [f]) (got ++ [f']) fuel (ids ++ [u]) c' Hwf' Hinv')
        as (rest' & r' & E' & H2 & Hnd & Hfresh & Hids & Hri & Hcr); [simpl in Hfuel; lia|].
      rewrite <- app_assoc in E'. cbn [app] in E'.
      rewrite app_length, Nat.add_1_r in E'.
      exists (f' :: rest'), r'. rewrite <- app_assoc in E'. cbn [app] in E'.
      split; [exact E'|]. split; [constructor; [unfold same_but_id, f'; cbn; auto|exact H2]|].
      split; [|split; [|split; [|split; [exact Hri|lia]]]].
      + cbn [map]. constructor; [|exact Hnd]. intros Hin.
        apply in_map_iff in Hin. destruct Hin as [g [Eg Hg]].
        apply (Hfresh g Hg). rewrite Eg. apply in_or_app. right. now left.
      + intros g [<-|Hg]; [exact Hnew|]. intros Hin. apply (Hfresh g Hg).
        apply in_or_app. now left.
      + rewrite Hids. cbn [map]. now rewrite <- app_assoc.
  Qed.
End Load.

(* ---- the round trip --------------------------------------------------------- *)
Lemma saved_lines_no_nl F fmtf fmt8 :
  (forall v, token_ok (fmtf v) = true) ->
  (forall n, 0 <= n -> digits_ok (fmt8 n) = true) ->
  forall fs : list (pfilter F), Forall (fun f => wf_filter f = true) fs ->
    forallb no_nl (flat_map (save_lines F fmtf fmt8) fs) = true.
Proof.
  intros Htok Hdig fs Hwf.
  assert (Dn : forall n, 0 <= n -> no_nl (fmt8 n) = true).
  { intros n Hn. destruct (digits_ok_cons _ (Hdig n Hn)) as (_ & _ & _ & _ & Hall & _).
    unfold no_nl. eapply forallb_impl; [|exact Hall]. intros c Hc.
    destruct (is_digit_props c Hc) as (_ & _ & H10 & H13 & _). now rewrite H10, H13. }
  assert (Tn : forall v, no_nl (fmtf v) = true).
  { intros v. destruct (token_ok_cons _ (Htok v)) as (_ & _ & _ & Hall).
    unfold no_nl. eapply forallb_impl; [|exact Hall]. intros c Hc. cbv beta in Hc.
    unfold is_space in Hc.
    destruct (c =? 10) eqn:E10; [exfalso; lia|]. destruct (c =? 13) eqn:E13; [exfalso; lia|].
    reflexivity. }
  assert (Pn : forall pts i, 0 <= i ->
             forallb no_nl (mapi_aux (point_line F fmtf fmt8) i pts) = true).
  { induction pts as [|xy pts IH]; intros i Hi; [reflexivity|].
    cbn [mapi_aux forallb]. rewrite IH by lia. rewrite andb_true_r.
    unfold point_line. rewrite !no_nl_app, Dn, !Tn by exact Hi. reflexivity. }
  induction Hwf as [|f fs Hf Hwf IH]; [reflexivity|].
  cbn [flat_map]. rewrite forallb_app, IH, andb_true_r.
  destruct (wf_props F f Hf) as (Hid & Hx & Hy & Hn).
  destruct (axis_ok_props _ Hx) as (Nx & _). destruct (axis_ok_props _ Hy) as (Ny & _).
  unfold name_ok in Hn. apply andb_true_iff in Hn. destruct Hn as [Nn _].
  unfold save_lines, header_line, body_lines. cbn [forallb app].
  rewrite Pn by lia.
  rewrite !no_nl_app, Dn, Nx, Ny, Nn by exact Hid.
  destruct (f_inv F f); reflexivity.
Qed.

Lemma saved_lines_length F fmtf fmt8 (fs : list (pfilter F)) :
  (List.length fs <= List.length (flat_map (save_lines F fmtf fmt8) fs))%nat.
Proof.
  induction fs as [|f fs IH]; [apply Nat.le_refl|].
  cbn [flat_map]. rewrite app_length. unfold save_lines at 1. simpl. lia.
Qed.

Theorem roundtrip_partial :
  forall (F : Type) (fmtf : F -> str) (parsef : str -> option F)
         (fmt8 : Z -> str) (parse_int : str -> option Z),
    (forall v, parsef (fmtf v) = Some v) ->
    (forall v, token_ok (fmtf v) = true) ->
    (forall n, 0 <= n -> parse_int (fmt8 n) = Some n) ->
    (forall n, 0 <= n -> digits_ok (fmt8 n) = true) ->
    forall (fs : list (pfilter F)) (ids0 : list Z) (c0 : Z),
      Forall (fun f => wf_filter f = true) fs ->
      NoDup (map (f_id F) fs) ->
      (forall f, In f fs -> ~ In (f_id F f) ids0) ->
      exists c',
        import_all F parsef parse_int (save_all F fmtf fmt8 fs) (ids0, c0)
        = (LOk fs, (ids0 ++ map (f_id F) fs, c'))
        /\ c0 <= c'
        /\ ((forall i, In i ids0 -> i < c0) ->
            forall i, In i (ids0 ++ map (f_id F) fs) -> i < c').
Proof.
  intros F fmtf parsef fmt8 parse_int H1 H2 H3 H4 fs ids0 c0 Hwf Hnd Hnew.
  unfold import_all, save_all, unlines.
  rewrite lines_unlines by (apply saved_lines_no_nl; assumption).
  destruct (import_loop_saved F fmtf parsef fmt8 parse_int H1 H2 H3 H4 fs []
              (S (List.length (flat_map (save_lines F fmtf fmt8) fs))) ids0 c0 Hwf Hnd)
    as (c' & E & Hle & Hlt).
  - intros f Hf. cbn [map]. rewrite app_nil_r. now apply Hnew.
  - pose proof (saved_lines_length F fmtf fmt8 fs). lia.
  - exists c'. cbn [app map List.length] in E. rewrite app_nil_r in E.
    split; [exact E|]. split; [exact Hle|].
    intros Hinv i Hi. apply in_app_or in Hi. destruct Hi as [Hi|Hi].
    + specialize (Hinv i Hi). lia.
    + apply in_map_iff in Hi. destruct Hi as [f [<- Hf]]. now apply Hlt.
Qed.

(* import_all into ANY consistent registry (e.g. the session that saved the
   file): every filter comes back with its axes, name, inversion flag and
   points; the identifiers handed out are distinct and not in use *)
Theorem roundtrip_renumber :
  forall (F : Type) (fmtf : F -> str) (parsef : str -> option F)
         (fmt8 : Z -> str) (parse_int : str -> option Z),
    (forall v, parsef (fmtf v) = Some v) ->
    (forall v, token_ok (fmtf v) = true) ->
    (forall n, 0 <= n -> parse_int (fmt8 n) = Some n) ->
    (forall n, 0 <= n -> digits_ok (fmt8 n) = true) ->
    forall (fs : list (pfilter F)) (ids0 : list Z) (c0 : Z),
      Forall (fun f => wf_filter f = true) fs ->
      (forall i, In i ids0 -> i < c0) ->
      exists fs' r',
        import_all F parsef parse_int (save_all F fmtf fmt8 fs) (ids0, c0) = (LOk fs', r')
        /\ Forall2 (same_but_id F) fs fs'
        /\ NoDup (map (f_id F) fs')
        /\ (forall g, In g fs' -> ~ In (f_id F g) ids0)
        /\ fst r' = ids0 ++ map (f_id F) fs'
        /\ (forall i, In i (fst r') -> i < snd r') /\ c0 <= snd r'.
Proof.
  intros F fmtf parsef fmt8 parse_int H1 H2 H3 H4 fs ids0 c0 Hwf Hinv.
  unfold import_all, save_all, unlines.
  rewrite lines_unlines by (apply saved_lines_no_nl; assumption).
  destruct (import_loop_renumber F fmtf parsef fmt8 parse_int H1 H2 H3 H4 fs [] []
              (S (List.length (flat_map (save_lines F fmtf fmt8) fs))) ids0 c0 Hwf)
    as (fs' & r' & E & A & B & C & D & G & H).
  - exact Hinv.
  - pose proof (saved_lines_length F fmtf fmt8 fs). lia.
  - exists fs', r'. cbn [app List.length] in E. repeat split; auto.
Qed.

(* the registry after an import is again consistent: a copy() of an imported
   filter gets an unused identifier, and the same file can be imported again
   (all filters come back, under further fresh identifiers) *)
Theorem import_then_copy_or_import :
  forall (F : Type) (fmtf : F -> str) (parsef : str -> option F)
         (fmt8 : Z -> str) (parse_int : str -> option Z),
    (forall v, parsef (fmtf v) = Some v) ->
    (forall v, token_ok (fmtf v) = true) ->
    (forall n, 0 <= n -> parse_int (fmt8 n) = Some n) ->
    (forall n, 0 <= n -> digits_ok (fmt8 n) = true) ->
    forall (fs : list (pfilter F)) (ids0 : list Z) (c0 : Z),
      Forall (fun f => wf_filter f = true) fs ->
      (forall i, In i ids0 -> i < c0) ->
      exists fs' r',
        import_all F parsef parse_int (save_all F fmtf fmt8 fs) (ids0, c0) = (LOk fs', r')
        /\ Forall2 (same_but_id F) fs fs'
        /\ (forall g b, In g fs' ->
              let '(h, r2) := pf_copy g b r' in
              ~ In (f_id F h) (fst r') /\ fst r2 = fst r' ++ [f_id F h]
              /\ (forall i, In i (fst r2) -> i < snd r2))
        /\ exists fs2 r2,
              import_all F parsef parse_int (save_all F fmtf fmt8 fs) r' = (LOk fs2, r2)
              /\ Forall2 (same_but_id F) fs fs2
              /\ NoDup (map (f_id F) fs2)
              /\ (forall g, In g fs2 -> ~ In (f_id F g) (fst r')).
Proof.
  intros F fmtf parsef fmt8 parse_int H1 H2 H3 H4 fs ids0 c0 Hwf Hinv.
  destruct (roundtrip_renumber F fmtf parsef fmt8 parse_int H1 H2 H3 H4 fs ids0 c0 Hwf Hinv)
    as (fs' & r' & E & A & B & C & D & G & H).
  exists fs', r'. split; [exact E|]. split; [exact A|]. split.
  - intros g b _. apply (copy_new_id g b r' G).
  - destruct r' as [ids1 c1]. cbn [fst snd] in G.
    destruct (roundtrip_renumber F fmtf parsef fmt8 parse_int H1 H2 H3 H4 fs ids1 c1 Hwf G)
      as (fs2 & r2 & E2 & A2 & B2 & C2 & _).
    exists fs2, r2. auto.
Qed.

(* ---- the guard cannot be dropped (finding C15-name-blanks) ------------------ *)
(* executable instance: integer coordinates written in decimal *)
Definition save_c (fs : list pfz) : str := save_all Z fmtf_c dec8 fs.
Definition import_c (text : str) : lres (list pfz) := fst (import_all Z parsef_c parse_int_c text ([], 0)).

Definition ex_tri : list (Z * Z) := [(0, 0); (0, 8); (8, 8)].
Definition ex_blank : pfz := mkpf Z 0 (zs "area_um") (zs "deform") (zs " a") false ex_tri.
Definition ex_break : pfz := mkpf Z 0 (zs "area_um") (zs "deform") [97; 10; 98] false ex_tri.
Definition ex_good : pfz := mkpf Z 3 (zs "area_um") (zs "deform") (zs "x = y, 100 %") true ex_tri.

Lemma roundtrip_refuted :
  (exists f : pfz, wf_filter f = false /\ name_ok (f_name Z f) = false
                   /\ import_c (save_c [f]) = LOk [mkpf Z 0 (zs "area_um") (zs "deform") (zs "a") false ex_tri]
                   /\ import_c (save_c [f]) <> LOk [f])
  /\ (exists f : pfz, name_ok (f_name Z f) = false /\ import_c (save_c [f]) = LValueError).
Proof.
  split.
  - exists ex_blank. repeat split; try (vm_compute; reflexivity).
    intros H. vm_compute in H. discriminate H.
  - exists ex_break. split; vm_compute; reflexivity.
Qed.

(* ---- non-vacuity -------------------------------------------------------------- *)
(* the hypotheses of roundtrip_partial are jointly satisfiable: unary digits *)
Definition fmt_unary (n : Z) : str := repeat 49 (Z.to_nat n) ++ [48].
Definition parse_unary (s : str) : option Z := Some (Z.of_nat (List.length s) - 1).
Definition fmt_bool (b : bool) : str := if b then [49] else [48].
Definition parse_bool (s : str) : option bool :=
  match s with [49] => Some true | [48] => Some false | _ => None end.

Lemma unary_hyps :
  (forall v, parse_bool (fmt_bool v) = Some v)
  /\ (forall v, token_ok (fmt_bool v) = true)
  /\ (forall n, 0 <= n -> parse_unary (fmt_unary n) = Some n)
  /\ (forall n, 0 <= n -> digits_ok (fmt_unary n) = true).
Proof.
  repeat split.
  - now intros [].
  - now intros [].
  - intros n Hn. unfold parse_unary, fmt_unary. rewrite app_length, repeat_length. simpl.
    f_equal. lia.
  - intros n Hn. unfold fmt_unary, digits_ok.
    assert (H : forallb is_digit (repeat 49 (Z.to_nat n) ++ [48]) = true).
    { rewrite forallb_app. simpl. rewrite andb_true_r.
      induction (Z.to_nat n) as [|k IH]; [reflexivity|]. simpl. exact IH. }
    destruct (repeat 49 (Z.to_nat n) ++ [48]) eqn:E; [|exact H].
    destruct (repeat 49 (Z.to_nat n)); discriminate E.
Qed.

Example ex_roundtrip_hyps :
  Forall (fun f => wf_filter f = true) [ex_good; mkpf Z 7 (zs "fl1_max") (zs "aspect") [] false ex_tri]
  /\ NoDup (map (f_id Z) [ex_good; mkpf Z 7 (zs "fl1_max") (zs "aspect") [] false ex_tri])
  /\ import_c (save_c [ex_good; mkpf Z 7 (zs "fl1_max") (zs "aspect") [] false ex_tri])
     = LOk [ex_good; mkpf Z 7 (zs "fl1_max") (zs "aspect") [] false ex_tri].
Proof.
  split; [repeat constructor|split; [|vm_compute; reflexivity]].
  repeat constructor; simpl; intuition discriminate.
Qed.

(* non-vacuity of roundtrip_renumber: identifier 3 is taken, counter 4 *)
Example ex_renumber :
  (forall i, In i [3] -> i < 4)
  /\ fst (import_all Z parsef_c parse_int_c (save_c [ex_good]) ([3], 4))
     = LOk [mkpf Z 4 (zs "area_um") (zs "deform") (zs "x = y, 100 %") true ex_tri].
Proof. split; [intros i [<-|[]]; lia|vm_compute; reflexivity]. Qed.
