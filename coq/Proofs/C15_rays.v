(* Independence of the result from the direction of the horizontal ray, for
   every polygon (any number of vertices, self-intersecting, degenerate) and
   every point off its boundary: the number of edges met by the line through
   the point is even along a closed path, and an edge met by the line lies
   either to the right or to the left of a point that is not on it. *)
From Coq Require Import ZArith QArith List Bool Lia Lqa.
From Verif Require Import Model.C15 Proofs.C15.
Import ListNotations.
Open Scope Q_scope.

Definition low (p v : pt) : bool := Qleb (snd v) (snd p).

Lemma parity_xorb f g l :
  parity (fun e => xorb (f e) (g e)) l = xorb (parity f l) (parity g l).
Proof.
  induction l as [|e l IH]; [reflexivity|]. simpl. rewrite IH.
  destruct (f e), (g e), (parity f l), (parity g l); reflexivity.
Qed.

(* telescoping: an alternating quantity along a path depends on its ends only *)
Lemma parity_xor_path (g : pt -> bool) vs : forall prev,
  parity (fun e => xorb (g (fst e)) (g (snd e))) (path_edges prev vs)
  = xorb (g prev) (g (last vs prev)).
Proof.
  induction vs as [|v vs IH]; intros prev.
  - simpl. now rewrite xorb_nilpotent.
  - cbn [path_edges parity fold_right fst snd]. fold (parity (fun e => xorb (g (fst e)) (g (snd e)))).
    change (fold_right (fun e acc => xorb (xorb (g (fst e)) (g (snd e))) acc) false (path_edges v vs))
      with (parity (fun e => xorb (g (fst e)) (g (snd e))) (path_edges v vs)).
    rewrite IH, last_cons.
    destruct (g v), (g prev), (g (last vs v)); reflexivity.
Qed.

Lemma parity_xor_closed (g : pt -> bool) poly :
  parity (fun e => xorb (g (fst e)) (g (snd e))) (closed_edges poly) = false.
Proof.
  destruct poly as [|v0 t]; [reflexivity|]. unfold closed_edges.
  rewrite parity_xor_path.
  rewrite (last_indep (v0 :: t) (last (v0 :: t) v0) v0) by congruence.
  apply xorb_nilpotent.
Qed.

Lemma cross_left_orient a b p :
  cross_left a b p =
  (Qleb (snd a) (snd p) && Qltb (snd p) (snd b) && Qltb (orient a b p) 0)
  || (Qleb (snd b) (snd p) && Qltb (snd p) (snd a) && Qltb 0 (orient a b p)).
Proof.
  unfold cross_left, orient. destruct a as [xa ya], b as [xb yb], p as [x y].
  cbn [fst snd]. qbool.
Qed.

(* an edge that does not contain p is met by exactly one of the two rays when
   the line through p meets it (half-open rule), by none otherwise *)
Lemma cross_split a b p :
  on_segment a b p = false ->
  xorb (model_cross a b p) (cross_left a b p) = xorb (low p a) (low p b).
Proof.
  intros Hs. rewrite model_cross_orient, cross_left_orient.
  destruct ((Qleb (snd a) (snd p) && Qltb (snd p) (snd b))
            || (Qleb (snd b) (snd p) && Qltb (snd p) (snd a))) eqn:Hl.
  - pose proof (level_off_segment a b p Hs Hl) as HD.
    revert Hl. unfold low. set (D := orient a b p) in *. clearbody D.
    unfold Qleb, Qltb. qdestr; simpl; intros Hl; try reflexivity; try discriminate;
      exfalso; try (apply HD; lra); lra.
  - revert Hl. unfold low, Qleb, Qltb. qdestr; simpl; intros Hl; try reflexivity; discriminate.
Qed.

Lemma left_ray_agrees poly p :
  on_boundary poly p = false -> pip model_cross poly p = pip cross_left poly p.
Proof.
  intros Hb. apply xorb_eq. rewrite !pip_parity, <- parity_xorb.
  rewrite <- (parity_xor_closed (low p) poly). apply parity_ext_in.
  intros e He. unfold ecross. apply cross_split.
  unfold on_boundary in Hb.
  destruct (on_segment (fst e) (snd e) p) eqn:E; [|reflexivity].
  assert (X : existsb (fun e => on_segment (fst e) (snd e) p) (closed_edges poly) = true)
    by (apply existsb_exists; exists e; auto).
  congruence.
Qed.

Lemma cross_left_generic a b p :
  ~ snd a == snd p -> ~ snd b == snd p -> cross_left a b p = proper_cross_left a b p.
Proof.
  rewrite cross_left_orient. unfold proper_cross_left.
  destruct a as [xa ya], b as [xb yb], p as [x y]. cbn [fst snd]. intros Ha Hb.
  set (D := orient (xa, ya) (xb, yb) (x, y)). clearbody D.
  unfold Qleb, Qltb. qdestr; simpl; try reflexivity; exfalso.
  all: try (apply Ha; lra). all: try (apply Hb; lra).
Qed.

(* a point in general position off the boundary: the rays towards +x and -x
   properly cross the boundary the same number of times modulo 2 *)
Lemma left_right_generic poly p :
  (forall v, In v poly -> ~ snd v == snd p) -> on_boundary poly p = false ->
  spec_inside poly p = spec_inside_left poly p.
Proof.
  intros Hg Hb. rewrite <- (generic_agrees poly p Hg). rewrite (left_ray_agrees poly p Hb).
  rewrite pip_parity. unfold spec_inside_left. apply parity_ext_in.
  intros e He. apply closed_edges_In in He. destruct He as [H1 H2].
  unfold ecross. apply cross_left_generic; apply Hg; assumption.
Qed.

(* non-vacuity: a pentagram (5 vertices, self-intersecting), a point in its
   doubly wound core and one in a tip *)
Definition ex_star : list pt := [(0, 3); (2, -3); (-3, 1); (3, 1); (-2, -3)].
Example ex_rays :
  on_boundary ex_star (0, 0) = false /\ (forall v, In v ex_star -> ~ snd v == snd ((0, 0) : pt))
  /\ pip model_cross ex_star (0, 0) = false /\ pip cross_left ex_star (0, 0) = false
  /\ on_boundary ex_star (0, 2) = false /\ pip model_cross ex_star (0, 2) = true
  /\ spec_inside_left ex_star (0, 2) = true.
Proof.
  split; [vm_compute; reflexivity|]. split.
  - intros v Hv. simpl in Hv.
    repeat (destruct Hv as [<-|Hv]; [cbn; intros E; discriminate E|]). destruct Hv.
  - repeat split; vm_compute; reflexivity.
Qed.
