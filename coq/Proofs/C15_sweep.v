(* The finite sweep of C15 evaluated over integer coordinates (fast in the VM)
   and transferred to the rational model through the embedding inject_Z. *)
From Coq Require Import ZArith QArith List Bool Lia.
From Verif Require Import Model.C15 Proofs.C15.
Import ListNotations.
Open Scope Q_scope.

(* ---- inject_Z is a homomorphism, as Leibniz equalities ---------------------- *)
Lemma injZ_plus a b : inject_Z a + inject_Z b = inject_Z (a + b).
Proof. unfold inject_Z, Qplus. simpl. now rewrite !Z.mul_1_r. Qed.
Lemma injZ_opp a : - inject_Z a = inject_Z (- a).
Proof. reflexivity. Qed.
Lemma injZ_minus a b : inject_Z a - inject_Z b = inject_Z (a - b).
Proof. unfold Qminus. now rewrite injZ_opp, injZ_plus. Qed.
Lemma injZ_mult a b : inject_Z a * inject_Z b = inject_Z (a * b).
Proof. reflexivity. Qed.
Lemma injZ_le a b : Qle_bool (inject_Z a) (inject_Z b) = (a <=? b)%Z.
Proof. unfold Qle_bool. simpl. now rewrite !Z.mul_1_r. Qed.
Lemma injZ_eq a b : Qeq_bool (inject_Z a) (inject_Z b) = (a =? b)%Z.
Proof.
  destruct (Z.eqb_spec a b) as [->|N].
  - apply Qeq_bool_iff. reflexivity.
  - apply not_true_is_false. intros H. apply Qeq_bool_iff in H.
    apply N. unfold Qeq in H. simpl in H. lia.
Qed.

Ltac injz :=
  change 0%Q with (inject_Z 0);
  rewrite ?injZ_minus, ?injZ_mult; rewrite ?injZ_minus, ?injZ_mult;
  rewrite ?injZ_le, ?injZ_eq.

Lemma cross_inj a b p : model_cross (inj a) (inj b) (inj p) = zcross a b p.
Proof. unfold model_cross, zcross, inj, Qleb, Qltb, zltb. cbn [fst snd]. injz. reflexivity. Qed.

Lemma cross_left_inj a b p : cross_left (inj a) (inj b) (inj p) = zcross_left a b p.
Proof. unfold cross_left, zcross_left, inj, Qleb, Qltb, zltb. cbn [fst snd]. injz. reflexivity. Qed.

Lemma orient_inj a b p : orient (inj a) (inj b) (inj p) = inject_Z (zorient a b p).
Proof. unfold orient, zorient, inj. cbn [fst snd]. now rewrite !injZ_minus, !injZ_mult, injZ_minus. Qed.

Lemma on_segment_inj a b p : on_segment (inj a) (inj b) (inj p) = zon_segment a b p.
Proof.
  unfold on_segment, zon_segment. rewrite orient_inj.
  unfold between, zbetween, inj, Qleb. cbn [fst snd]. injz. reflexivity.
Qed.

Lemma quadrant_inj p v : quadrant (inj p) (inj v) = zquadrant p v.
Proof. unfold quadrant, zquadrant, inj, Qleb, Qltb, zltb. cbn [fst snd]. injz. reflexivity. Qed.

Lemma quarter_turns_inj p e :
  quarter_turns (inj p) (inj (fst e), inj (snd e)) = zquarter_turns p e.
Proof.
  unfold quarter_turns, zquarter_turns. cbn [fst snd].
  rewrite !quadrant_inj, orient_inj. unfold Qltb, zltb. injz. reflexivity.
Qed.

(* ---- lists ------------------------------------------------------------------- *)
Lemma last_map' {A B} (f : A -> B) l d : last (map f l) (f d) = f (last l d).
Proof.
  induction l as [|a l IH]; [reflexivity|]. destruct l as [|b l]; [reflexivity|].
  change (last (map f (b :: l)) (f d) = f (last (b :: l) d)). exact IH.
Qed.

Definition emap {A B} (f : A -> B) (e : A * A) : B * B := (f (fst e), f (snd e)).

Lemma path_edges_map {A B} (f : A -> B) prev vs :
  path_edges (f prev) (map f vs) = map (emap f) (path_edges prev vs).
Proof.
  revert prev; induction vs as [|v vs IH]; intros prev; [reflexivity|].
  simpl. now rewrite IH.
Qed.

Lemma closed_edges_map {A B} (f : A -> B) poly :
  closed_edges (map f poly) = map (emap f) (closed_edges poly).
Proof.
  destruct poly as [|v0 t]; [reflexivity|]. unfold closed_edges.
  change (map f (v0 :: t)) with (f v0 :: map f t) at 1.
  cbv beta iota. change (f v0 :: map f t) with (map f (v0 :: t)).
  now rewrite last_map', path_edges_map.
Qed.

Lemma pip_loop_map {A B} (f : A -> B) c1 c2 :
  (forall a b p, c1 (f a) (f b) (f p) = c2 a b p) ->
  forall p prev vs c, pip_loop c1 (f p) (f prev) (map f vs) c = pip_loop c2 p prev vs c.
Proof.
  intros H p prev vs; revert prev; induction vs as [|v vs IH]; intros prev c; [reflexivity|].
  simpl. now rewrite H, IH.
Qed.

Lemma pip_map {A B} (f : A -> B) c1 c2 :
  (forall a b p, c1 (f a) (f b) (f p) = c2 a b p) ->
  forall poly p, pip c1 (map f poly) (f p) = pip c2 poly p.
Proof.
  intros H poly p. destruct poly as [|v0 t]; [reflexivity|]. unfold pip.
  change (map f (v0 :: t)) with (f v0 :: map f t) at 1. cbv beta iota.
  change (f v0 :: map f t) with (map f (v0 :: t)).
  rewrite last_map'. now apply pip_loop_map.
Qed.

Lemma existsb_map {A B} (g : A -> B) (f : B -> bool) l :
  existsb f (map g l) = existsb (fun x => f (g x)) l.
Proof. induction l as [|a l IH]; [reflexivity|]. simpl. now rewrite IH. Qed.

Lemma existsb_ext' {A} (f g : A -> bool) l :
  (forall x, f x = g x) -> existsb f l = existsb g l.
Proof. intros H. induction l as [|a l IH]; [reflexivity|]. simpl. now rewrite H, IH. Qed.

Lemma on_boundary_inj poly p : on_boundary (map inj poly) (inj p) = zon_boundary poly p.
Proof.
  unfold on_boundary, zon_boundary. rewrite closed_edges_map, existsb_map.
  apply existsb_ext'. intros e. apply on_segment_inj.
Qed.

Lemma winding4_inj poly p : winding4 (map inj poly) (inj p) = zwinding4 poly p.
Proof.
  unfold winding4, zwinding4. rewrite closed_edges_map.
  induction (closed_edges poly) as [|e l IH]; [reflexivity|].
  simpl. rewrite IH. f_equal. apply quarter_turns_inj.
Qed.

(* ---- the sweep over Z -------------------------------------------------------- *)
Definition zsweep_point_ok (poly : list zpt) (p : zpt) : bool :=
  if zon_boundary poly p then true
  else let r := pip zcross poly p in
       let w := zwinding4 poly p in
       Bool.eqb r (Z.odd (w / 4)) && Bool.eqb r (pip zcross_left poly p) && (w mod 4 =? 0)%Z.

Definition zsweep_ok (n k : nat) : bool :=
  forallb (fun poly => forallb (zsweep_point_ok poly) (zquery k)) (lists_of n (zgrid k)).

Lemma zsweep_lift n k :
  zsweep_ok n k = true ->
  forall zpoly zp, length zpoly = n -> Forall (fun v => In v (zgrid k)) zpoly ->
    In zp (zquery k) -> on_boundary (map inj zpoly) (inj zp) = false ->
    pip model_cross (map inj zpoly) (inj zp) = winding_odd (map inj zpoly) (inj zp)
    /\ pip model_cross (map inj zpoly) (inj zp) = pip cross_left (map inj zpoly) (inj zp)
    /\ (winding4 (map inj zpoly) (inj zp) mod 4 = 0)%Z.
Proof.
  intros H zpoly zp Hl Hf Hp Hb. unfold zsweep_ok in H.
  rewrite forallb_forall in H.
  specialize (H zpoly (lists_of_complete _ _ _ Hl Hf)).
  rewrite forallb_forall in H. specialize (H zp Hp).
  unfold zsweep_point_ok in H. rewrite on_boundary_inj in Hb. rewrite Hb in H.
  cbv zeta in H.
  apply andb_true_iff in H. destruct H as [H H3].
  apply andb_true_iff in H. destruct H as [H1 H2].
  apply eqb_prop in H1. apply eqb_prop in H2. apply Z.eqb_eq in H3.
  unfold winding_odd. rewrite winding4_inj.
  rewrite (pip_map inj model_cross zcross cross_inj).
  rewrite (pip_map inj cross_left zcross_left cross_left_inj). auto.
Qed.

Lemma zsweep_3_4 : zsweep_ok 3 4 = true.
Proof. vm_cast_no_check (eq_refl true). Qed.

Lemma zsweep_4_3 : zsweep_ok 4 3 = true.
Proof. vm_cast_no_check (eq_refl true). Qed.

(* all triangles on the 4x4 grid and all quadrilaterals on the 3x3 grid
   (spacing 2), all integer query points around them *)
Lemma sweep_theorem_z zpoly zp :
  (length zpoly = 3%nat /\ Forall (fun v => In v (zgrid 4)) zpoly /\ In zp (zquery 4))
  \/ (length zpoly = 4%nat /\ Forall (fun v => In v (zgrid 3)) zpoly /\ In zp (zquery 3)) ->
  on_boundary (map inj zpoly) (inj zp) = false ->
  pip model_cross (map inj zpoly) (inj zp) = winding_odd (map inj zpoly) (inj zp)
  /\ pip model_cross (map inj zpoly) (inj zp) = pip cross_left (map inj zpoly) (inj zp)
  /\ (winding4 (map inj zpoly) (inj zp) mod 4 = 0)%Z.
Proof.
  intros [(Hl & Hf & Hp)|(Hl & Hf & Hp)] Hb.
  - exact (zsweep_lift 3 4 zsweep_3_4 zpoly zp Hl Hf Hp Hb).
  - exact (zsweep_lift 4 3 zsweep_4_3 zpoly zp Hl Hf Hp Hb).
Qed.

(* non-vacuity: a self-intersecting quadrilateral and a point off its boundary *)
Example ex_sweep_domain_z :
  let q : list zpt := [(0, 0); (4, 4); (4, 0); (0, 4)]%Z in
  length q = 4%nat /\ Forall (fun v => In v (zgrid 3)) q /\ In (1, 2)%Z (zquery 3)
  /\ on_boundary (map inj q) (inj (1, 2)%Z) = false
  /\ pip model_cross (map inj q) (inj (1, 2)%Z) = true.
Proof.
  cbv zeta. split; [reflexivity|]. split; [repeat constructor; vm_compute; tauto|].
  split; [vm_compute; tauto|]. split; vm_compute; reflexivity.
Qed.
