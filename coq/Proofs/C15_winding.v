(* The result of the loop equals the parity of the winding number of the
   polygon around the point (computed from quadrants, without any ray), for
   every polygon and every point off its boundary. *)
From Coq Require Import ZArith QArith List Bool Lia Lqa.
From Verif Require Import Model.C15 Proofs.C15 Proofs.C15_rays.
Import ListNotations.
Open Scope Q_scope.

Lemma quadrant_spec p v :
  (quadrant p v = 0%Z /\ 0 < fst v - fst p /\ 0 < snd v - snd p)
  \/ (quadrant p v = 1%Z /\ fst v - fst p <= 0 /\ 0 < snd v - snd p)
  \/ (quadrant p v = 2%Z /\ fst v - fst p < 0 /\ snd v - snd p <= 0)
  \/ (quadrant p v = 3%Z /\ 0 <= fst v - fst p /\ snd v - snd p <= 0).
Proof.
  unfold quadrant, Qleb, Qltb. cbv zeta.
  set (dx := fst v - fst p). set (dy := snd v - snd p). clearbody dx dy.
  qdestr; simpl;
    first [ left; split; [reflexivity|split; lra]
          | right; left; split; [reflexivity|split; lra]
          | right; right; left; split; [reflexivity|split; lra]
          | right; right; right; split; [reflexivity|split; lra] ].
Qed.

(* signed crossing of the +x ray (half-open rule) by the edge snd e -> fst e *)
Definition sigma (p : pt) (e : edge) : Z :=
  if model_cross (fst e) (snd e) p then (if low p (snd e) then 1 else -1)%Z else 0%Z.

Lemma turns_edge p e :
  on_segment (fst e) (snd e) p = false ->
  quarter_turns p e = (quadrant p (fst e) - quadrant p (snd e) + 4 * sigma p e)%Z.
Proof.
  destruct e as [a b]. cbn [fst snd]. intros Hs.
  unfold quarter_turns, sigma, low. cbn [fst snd]. cbv zeta.
  rewrite model_cross_orient.
  assert (Eo : orient b a p == - orient a b p) by (unfold orient; ring).
  assert (ED : orient a b p == (fst a - fst p) * (snd b - snd p) - (fst b - fst p) * (snd a - snd p))
    by (unfold orient; ring).
  assert (HD : (Qleb (snd a) (snd p) && Qltb (snd p) (snd b))
               || (Qleb (snd b) (snd p) && Qltb (snd p) (snd a)) = true -> ~ orient a b p == 0)
    by (apply level_off_segment; exact Hs).
  set (D := orient a b p) in *. set (D' := orient b a p) in *. clearbody D D'.
  destruct a as [xa ya], b as [xb yb], p as [x y]. cbn [fst snd] in *.
  destruct (quadrant_spec (x, y) (xa, ya)) as [(Qa & A1 & A2)|[(Qa & A1 & A2)|[(Qa & A1 & A2)|(Qa & A1 & A2)]]];
  destruct (quadrant_spec (x, y) (xb, yb)) as [(Qb & B1 & B2)|[(Qb & B1 & B2)|[(Qb & B1 & B2)|(Qb & B1 & B2)]]];
  cbn [fst snd] in *; rewrite Qa, Qb;
  match goal with |- context [((?k1 - ?k2) mod 4)%Z] =>
    let v := eval vm_compute in ((k1 - k2) mod 4)%Z in change ((k1 - k2) mod 4)%Z with v end;
  cbn [Z.eqb Pos.eqb]; cbv iota;
  revert HD; unfold Qleb, Qltb; qdestr; simpl; intros HD;
  try reflexivity; exfalso;
  try (apply HD; [reflexivity|nra]); try nra.
Qed.

Definition sigma_sum (p : pt) (es : list edge) : Z :=
  fold_right (fun e acc => (sigma p e + acc)%Z) 0%Z es.

Lemma turns_path p vs : forall prev,
  (forall e, In e (path_edges prev vs) -> on_segment (fst e) (snd e) p = false) ->
  fold_right (fun e acc => (quarter_turns p e + acc)%Z) 0%Z (path_edges prev vs)
  = (quadrant p (last vs prev) - quadrant p prev + 4 * sigma_sum p (path_edges prev vs))%Z.
Proof.
  induction vs as [|v vs IH]; intros prev H.
  - simpl. lia.
  - cbn [path_edges fold_right sigma_sum].
    fold (sigma_sum p (path_edges v vs)).
    rewrite IH by (intros e He; apply H; now right).
    rewrite (turns_edge p (v, prev)) by (apply H; now left).
    cbn [fst snd]. rewrite last_cons. lia.
Qed.

Lemma sigma_sum_parity p es :
  Z.odd (sigma_sum p es) = parity (ecross model_cross p) es.
Proof.
  induction es as [|e es IH]; [reflexivity|].
  cbn [sigma_sum fold_right parity]. fold (sigma_sum p es).
  change (fold_right (fun e acc => xorb (ecross model_cross p e) acc) false es)
    with (parity (ecross model_cross p) es).
  rewrite Z.odd_add, IH. f_equal.
  unfold sigma, ecross. destruct (model_cross (fst e) (snd e) p); [|reflexivity].
  destruct (low p (snd e)); reflexivity.
Qed.

Lemma winding_agrees poly p :
  on_boundary poly p = false ->
  pip model_cross poly p = winding_odd poly p /\ (winding4 poly p mod 4 = 0)%Z.
Proof.
  intros Hb.
  assert (Hoff : forall e, In e (closed_edges poly) -> on_segment (fst e) (snd e) p = false).
  { intros e He. unfold on_boundary in Hb.
    destruct (on_segment (fst e) (snd e) p) eqn:E; [|reflexivity].
    assert (X : existsb (fun e => on_segment (fst e) (snd e) p) (closed_edges poly) = true)
      by (apply existsb_exists; exists e; auto).
    congruence. }
  assert (W : winding4 poly p = (4 * sigma_sum p (closed_edges poly))%Z).
  { unfold winding4. destruct poly as [|v0 t]; [reflexivity|].
    unfold closed_edges in *. rewrite turns_path by exact Hoff.
    rewrite (last_indep (v0 :: t) (last (v0 :: t) v0) v0) by congruence. lia. }
  split.
  - unfold winding_odd. rewrite W, Z.mul_comm, Z.div_mul by lia.
    rewrite sigma_sum_parity. apply pip_parity.
  - rewrite W, Z.mul_comm. apply Z.mod_mul. lia.
Qed.
