(* Proofs about the downsampling model (Model/C16.v). *)
From Coq Require Import ZArith List Bool Lia ZifyBool ZifyNat Permutation.
From Coq Require Import MSets.MSetPositive FSets.FMapPositive.
From Verif Require Import Model.C16.
Import ListNotations.
Open Scope Z_scope.
Ltac Zify.zify_post_hook ::= Z.div_mod_to_equations.

(* ======================================================================== *)
(* generic lemmas on the numpy primitives                                    *)
(* ======================================================================== *)

Lemma zlen_nil {A} : zlen (@nil A) = 0.
Proof. reflexivity. Qed.

Lemma zlen_cons {A} (x : A) l : zlen (x :: l) = 1 + zlen l.
Proof. unfold zlen; simpl length; lia. Qed.

Lemma zlen_nonneg {A} (l : list A) : 0 <= zlen l.
Proof. unfold zlen; lia. Qed.

Lemma zlen_map {A B} (f : A -> B) l : zlen (map f l) = zlen l.
Proof. unfold zlen; now rewrite map_length. Qed.

Lemma zlen_app {A} (l l' : list A) : zlen (l ++ l') = zlen l + zlen l'.
Proof. unfold zlen; rewrite app_length; lia. Qed.

Lemma count_true_bounds m : 0 <= count_true m <= zlen m.
Proof.
  induction m as [|b m IH]; [cbn; lia|].
  rewrite zlen_cons; cbn [count_true]; destruct b; lia.
Qed.

(* ---- where ------------------------------------------------------------- *)
Lemma where_from_In m : forall i0 i,
  In i (where_from i0 m) <->
  i0 <= i < i0 + zlen m /\ nth (Z.to_nat (i - i0)) m false = true.
Proof.
  induction m as [|b m IH]; intros i0 i.
  - cbn [where_from]; rewrite zlen_nil; split; [intros []|lia].
  - rewrite zlen_cons. cbn [where_from].
    assert (Hstep : i0 + 1 <= i < i0 + 1 + zlen m /\
                    nth (Z.to_nat (i - (i0 + 1))) m false = true <->
                    i0 < i /\ i0 <= i < i0 + (1 + zlen m) /\
                    nth (Z.to_nat (i - i0)) (b :: m) false = true).
    { split.
      - intros [H1 H2]. split; [lia|]. split; [lia|].
        replace (Z.to_nat (i - i0)) with (S (Z.to_nat (i - (i0 + 1)))) by lia.
        exact H2.
      - intros [H0 [H1 H2]]. split; [lia|].
        replace (Z.to_nat (i - i0)) with (S (Z.to_nat (i - (i0 + 1)))) in H2 by lia.
        exact H2. }
    destruct b.
    + cbn [In]. rewrite IH, Hstep. split.
      * intros [<-|[H0 H]]; [|exact H].
        split; [pose proof (zlen_nonneg m); lia|].
        now replace (Z.to_nat (i0 - i0)) with 0%nat by lia.
      * intros [H1 H2]. destruct (Z.eq_dec i0 i) as [E|E]; [now left|right].
        split; [lia|]. split; assumption.
    + rewrite IH, Hstep. split.
      * intros [_ H]; exact H.
      * intros [H1 H2]. split; [|split; assumption].
        destruct (Z.eq_dec i0 i) as [E|E]; [|lia]. subst i.
        replace (Z.to_nat (i0 - i0)) with 0%nat in H2 by lia. discriminate H2.
Qed.

Lemma where_from_NoDup m : forall i0, NoDup (where_from i0 m).
Proof.
  induction m as [|b m IH]; intros i0; cbn [where_from]; [constructor|].
  destruct b; [|apply IH].
  constructor; [|apply IH].
  rewrite where_from_In. lia.
Qed.

Lemma where_from_length m : forall i0, zlen (where_from i0 m) = count_true m.
Proof.
  induction m as [|b m IH]; intros i0; cbn [where_from count_true]; [reflexivity|].
  destruct b; [rewrite zlen_cons|]; rewrite IH; lia.
Qed.

Lemma where_In m i :
  In i (where_ m) <-> 0 <= i < zlen m /\ nth (Z.to_nat i) m false = true.
Proof.
  unfold where_. rewrite where_from_In. now replace (i - 0) with i by lia.
Qed.

Lemma where_NoDup m : NoDup (where_ m).
Proof. apply where_from_NoDup. Qed.

Lemma where_length m : zlen (where_ m) = count_true m.
Proof. apply where_from_length. Qed.

(* ---- index sets -------------------------------------------------------- *)
Lemma key_inj i j : 0 <= i -> 0 <= j -> key i = key j -> i = j.
Proof. unfold key; intros Hi Hj H. apply Z2Pos.inj in H; lia. Qed.

Lemma fold_add_In idxs : forall s k,
  PositiveSet.In k (fold_left (fun s i => PositiveSet.add (key i) s) idxs s) <->
  (exists i, In i idxs /\ k = key i) \/ PositiveSet.In k s.
Proof.
  induction idxs as [|j idxs IH]; intros s k; cbn [fold_left].
  - split; [now right|]. intros [[i [[] _]]|H]; exact H.
  - rewrite IH, PositiveSet.add_spec. split.
    + intros [[i [Hi Hk]]|[Hk|Hs]].
      * left; exists i; split; [now right|exact Hk].
      * left; exists j; split; [now left|exact Hk].
      * now right.
    + intros [[i [[<-|Hi] Hk]]|Hs].
      * right; now left.
      * left; exists i; split; assumption.
      * right; now right.
Qed.

Lemma in_set_spec idxs i :
  Forall (fun j => 0 <= j) idxs -> 0 <= i ->
  (in_set i (idx_set idxs) = true <-> In i idxs).
Proof.
  intros Hall Hi. unfold in_set, idx_set.
  rewrite PositiveSet.mem_spec, fold_add_In. split.
  - intros [[j [Hj Hk]]|He].
    + rewrite Forall_forall in Hall. apply key_inj in Hk; [now subst|lia|now apply Hall].
    + exfalso. revert He. apply PositiveSet.empty_spec.
  - intros H. left; exists i; split; [exact H|reflexivity].
Qed.

(* ---- assign ------------------------------------------------------------ *)
Lemma assign_from_length s c l : forall i0,
  length (assign_from i0 s c l) = length l.
Proof. induction l as [|x l IH]; intros i0; cbn [assign_from length]; [|rewrite IH]; reflexivity. Qed.

Lemma assign_length l idxs c : length (assign l idxs c) = length l.
Proof. apply assign_from_length. Qed.

Lemma assign_from_nth s c l : forall i0 j, (j < length l)%nat ->
  nth j (assign_from i0 s c l) false =
  if in_set (i0 + Z.of_nat j) s then c else nth j l false.
Proof.
  induction l as [|x l IH]; intros i0 j Hj; cbn [length] in Hj; [lia|].
  cbn [assign_from]. destruct j as [|j].
  - cbn [nth]. now replace (i0 + Z.of_nat 0) with i0 by lia.
  - cbn [nth]. rewrite IH by lia. now replace (i0 + 1 + Z.of_nat j) with (i0 + Z.of_nat (S j)) by lia.
Qed.

Lemma assign_nth l idxs c i :
  Forall (fun j => 0 <= j) idxs -> 0 <= i < zlen l ->
  nth (Z.to_nat i) (assign l idxs c) false =
  if in_set i (idx_set idxs) then c else nth (Z.to_nat i) l false.
Proof.
  intros Hall Hi. unfold assign, zlen in *. rewrite assign_from_nth by lia.
  now replace (0 + Z.of_nat (Z.to_nat i)) with i by lia.
Qed.

Lemma zlen_assign l idxs c : zlen (assign l idxs c) = zlen l.
Proof. unfold zlen; now rewrite assign_length. Qed.

Lemma NoDup_app_intro {A} (l l' : list A) :
  NoDup l -> NoDup l' -> (forall x, In x l -> ~ In x l') -> NoDup (l ++ l').
Proof.
  induction l as [|x l IH]; intros H1 H2 H3; cbn [app]; [exact H2|].
  inversion H1 as [|? ? Hx Hl]; subst. constructor.
  - rewrite in_app_iff. intros [H|H]; [contradiction|]. apply (H3 x); [now left|exact H].
  - apply IH; [assumption|assumption|]. intros y Hy. apply H3. now right.
Qed.

Lemma count_assign_true l idxs :
  NoDup idxs ->
  Forall (fun i => 0 <= i < zlen l /\ nth (Z.to_nat i) l false = false) idxs ->
  count_true (assign l idxs true) = count_true l + zlen idxs.
Proof.
  intros Hnd Hall.
  assert (Hnn : Forall (fun j => 0 <= j) idxs).
  { eapply Forall_impl; [|exact Hall]. cbv beta. intros; lia. }
  rewrite <- !where_length, <- zlen_app. unfold zlen. f_equal.
  apply Permutation_length, NoDup_Permutation.
  - apply where_NoDup.
  - apply NoDup_app_intro; [apply where_NoDup|exact Hnd|].
    intros x Hx Hx'. rewrite where_In in Hx. rewrite Forall_forall in Hall.
    destruct (Hall x Hx') as [_ H]. destruct Hx as [_ Hx]. congruence.
  - intros x. rewrite in_app_iff, !where_In, zlen_assign. split.
    + intros [Hr Hn]. rewrite assign_nth in Hn by assumption.
      destruct (in_set x (idx_set idxs)) eqn:E.
      * right. apply in_set_spec in E; [exact E|exact Hnn|lia].
      * left. split; assumption.
    + rewrite Forall_forall in Hall. intros [[Hr Hn]|Hin].
      * split; [exact Hr|]. rewrite assign_nth by assumption.
        destruct (in_set x (idx_set idxs)); [reflexivity|exact Hn].
      * destruct (Hall x Hin) as [Hr _]. split; [exact Hr|].
        rewrite assign_nth by assumption.
        assert (E : in_set x (idx_set idxs) = true) by (apply in_set_spec; [exact Hnn|lia|exact Hin]).
        now rewrite E.
Qed.

Lemma count_assign_false l idxs :
  NoDup idxs -> incl idxs (where_ l) ->
  count_true (assign l idxs false) = count_true l - zlen idxs.
Proof.
  intros Hnd Hincl.
  assert (Hnn : Forall (fun j => 0 <= j) idxs).
  { rewrite Forall_forall. intros x Hx. apply Hincl in Hx. rewrite where_In in Hx. lia. }
  enough (count_true l = count_true (assign l idxs false) + zlen idxs) by lia.
  rewrite <- !where_length, <- zlen_app. unfold zlen. f_equal.
  apply Permutation_length, NoDup_Permutation.
  - apply where_NoDup.
  - apply NoDup_app_intro; [apply where_NoDup|exact Hnd|].
    intros x Hx Hx'. rewrite where_In, zlen_assign in Hx. destruct Hx as [Hr Hn].
    rewrite assign_nth in Hn by assumption.
    assert (E : in_set x (idx_set idxs) = true) by (apply in_set_spec; [exact Hnn|lia|exact Hx']).
    rewrite E in Hn. discriminate Hn.
  - intros x. rewrite in_app_iff, !where_In, zlen_assign. split.
    + intros [Hr Hn]. destruct (in_set x (idx_set idxs)) eqn:E.
      * right. apply in_set_spec in E; [exact E|exact Hnn|lia].
      * left. split; [exact Hr|]. rewrite assign_nth by assumption. now rewrite E.
    + intros [[Hr Hn]|Hin].
      * split; [exact Hr|]. rewrite assign_nth in Hn by assumption.
        destruct (in_set x (idx_set idxs)); [discriminate Hn|exact Hn].
      * apply Hincl in Hin. now rewrite where_In in Hin.
Qed.

(* ---- pick -------------------------------------------------------------- *)
Lemma build_find arr : forall i m k,
  PositiveMap.find k (build i arr m) =
  if (Zpos i <=? Zpos k) && (Zpos k <? Zpos i + zlen arr)
  then nth_error arr (Z.to_nat (Zpos k - Zpos i))
  else PositiveMap.find k m.
Proof.
  induction arr as [|x r IH]; intros i m k.
  - cbn [build]. rewrite zlen_nil.
    destruct ((Zpos i <=? Zpos k) && (Zpos k <? Zpos i + 0)) eqn:E; [lia|reflexivity].
  - cbn [build]. rewrite IH, zlen_cons.
    destruct (Pos.eq_dec k i) as [->|Hne].
    + replace ((Zpos (Pos.succ i) <=? Zpos i) && (Zpos i <? Zpos (Pos.succ i) + zlen r))
        with false by lia.
      pose proof (zlen_nonneg r).
      replace ((Zpos i <=? Zpos i) && (Zpos i <? Zpos i + (1 + zlen r))) with true by lia.
      rewrite PositiveMap.gss. now replace (Z.to_nat (Zpos i - Zpos i)) with 0%nat by lia.
    + assert (Hne' : Zpos k <> Zpos i) by congruence.
      destruct ((Zpos (Pos.succ i) <=? Zpos k) && (Zpos k <? Zpos (Pos.succ i) + zlen r)) eqn:E.
      * replace ((Zpos i <=? Zpos k) && (Zpos k <? Zpos i + (1 + zlen r))) with true by lia.
        replace (Z.to_nat (Zpos k - Zpos i)) with (S (Z.to_nat (Zpos k - Zpos (Pos.succ i)))) by lia.
        reflexivity.
      * replace ((Zpos i <=? Zpos k) && (Zpos k <? Zpos i + (1 + zlen r))) with false by lia.
        now rewrite PositiveMap.gso.
Qed.

Lemma pick_spec arr ps :
  Forall (fun p => 0 <= p < zlen arr) ps ->
  pick arr ps = map (fun p => nth (Z.to_nat p) arr 0) ps.
Proof.
  intros Hall. unfold pick. apply map_ext_in. intros p Hp.
  rewrite Forall_forall in Hall. specialize (Hall p Hp).
  rewrite build_find, PositiveMap.gempty.
  assert (Hk : Zpos (key p) = p + 1) by (unfold key; lia).
  rewrite Hk.
  replace ((1 <=? p + 1) && (p + 1 <? 1 + zlen arr)) with true by lia.
  replace (p + 1 - 1) with p by lia.
  destruct (nth_error arr (Z.to_nat p)) as [v|] eqn:E.
  - symmetry. now apply nth_error_nth.
  - apply nth_error_None in E. unfold zlen in Hall. lia.
Qed.

Lemma pick_props arr ps :
  NoDup arr -> NoDup ps -> Forall (fun p => 0 <= p < zlen arr) ps ->
  NoDup (pick arr ps) /\ incl (pick arr ps) arr /\ zlen (pick arr ps) = zlen ps.
Proof.
  intros Ha Hp Hall. rewrite pick_spec by exact Hall. split; [|split].
  - revert Hall.
    induction Hp as [|p ps Hnotin Hnd IH]; intros Hall; cbn [map]; [constructor|].
    inversion Hall as [|? ? Hp0 Hall']; subst. constructor; [|now apply IH].
    rewrite in_map_iff. intros [q [Hq Hin]].
    rewrite Forall_forall in Hall'. specialize (Hall' q Hin).
    rewrite NoDup_nth in Ha. unfold zlen in *.
    assert (Z.to_nat q = Z.to_nat p) by (apply Ha; [lia|lia|exact Hq]).
    assert (q = p) by lia. subst q. contradiction.
  - intros x Hx. rewrite in_map_iff in Hx. destruct Hx as [p [<- Hin]].
    rewrite Forall_forall in Hall. specialize (Hall p Hin). unfold zlen in Hall.
    apply nth_In. lia.
  - now rewrite zlen_map.
Qed.

(* ---- arange ------------------------------------------------------------ *)
Lemma arange_from_In n : forall i0 i,
  In i (arange_from i0 n) <-> i0 <= i < i0 + Z.of_nat n.
Proof.
  induction n as [|n IH]; intros i0 i; cbn [arange_from].
  - split; [intros []|lia].
  - cbn [In]. rewrite IH. lia.
Qed.

Lemma arange_from_NoDup n : forall i0, NoDup (arange_from i0 n).
Proof.
  induction n as [|n IH]; intros i0; cbn [arange_from]; constructor; [|apply IH].
  rewrite arange_from_In. lia.
Qed.

Lemma arange_from_length n : forall i0, length (arange_from i0 n) = n.
Proof. induction n as [|n IH]; intros i0; cbn [arange_from length]; [|rewrite IH]; reflexivity. Qed.

Lemma arange_In n i : In i (arange n) <-> 0 <= i < Z.of_nat n.
Proof. unfold arange. rewrite arange_from_In. lia. Qed.

(* ---- select / scatter -------------------------------------------------- *)
Lemma select_length {A} m : forall (l : list A),
  length l = length m -> zlen (select m l) = count_true m.
Proof.
  induction m as [|b m IH]; intros l Hl; destruct l as [|x l]; cbn [length] in Hl;
    try discriminate Hl; cbn [select count_true]; [reflexivity|].
  destruct b; [rewrite zlen_cons|]; rewrite IH by lia; lia.
Qed.

Lemma scatter_length m : forall v base,
  length (scatter m v base) = length base.
Proof.
  induction m as [|b m IH]; intros v base; [reflexivity|].
  destruct base as [|x base]; [destruct b; reflexivity|].
  destruct b; cbn [scatter].
  - destruct v as [|y v]; cbn [length]; now rewrite IH.
  - cbn [length]; now rewrite IH.
Qed.

(* positions outside m keep the base value *)
Lemma count_scatter m : forall v base,
  length base = length m -> zlen v = count_true m ->
  count_true (scatter m v base) =
  count_true v + count_true (map2 andb (map negb m) base).
Proof.
  induction m as [|b m IH]; intros v base Hb Hv.
  - destruct base; [|discriminate Hb]. cbn in Hv. destruct v; [reflexivity|].
    rewrite zlen_cons in Hv. pose proof (zlen_nonneg v). lia.
  - destruct base as [|x base]; [discriminate Hb|]. cbn [length] in Hb.
    cbn [count_true] in Hv. destruct b.
    + destruct v as [|y v]; [rewrite zlen_nil in Hv; pose proof (count_true_bounds m); lia|].
      rewrite zlen_cons in Hv. cbn [scatter map map2 negb andb count_true].
      rewrite IH by lia. lia.
    + cbn [scatter map map2 negb andb count_true]. rewrite IH by lia.
      destruct x; lia.
Qed.

Lemma count_map2_negb_self m : count_true (map2 andb (map negb m) m) = 0.
Proof. induction m as [|b m IH]; [reflexivity|]. cbn [map map2 count_true]. destruct b; cbn; lia. Qed.

Lemma count_map2_zeros {A} m : forall (l : list A),
  count_true (map2 andb m (zeros l)) = 0.
Proof.
  induction m as [|b m IH]; intros l; [reflexivity|].
  destruct l as [|x l]; [reflexivity|]. unfold zeros in *. cbn [map map2 count_true].
  rewrite IH. destruct b; reflexivity.
Qed.

Lemma count_scatter_self m v :
  zlen v = count_true m -> count_true (scatter m v m) = count_true v.
Proof.
  intros Hv. rewrite count_scatter by (auto). rewrite count_map2_negb_self. lia.
Qed.

Lemma count_scatter_zeros {A} m v (l : list A) :
  length l = length m -> zlen v = count_true m ->
  count_true (scatter m v (zeros l)) = count_true v.
Proof.
  intros Hl Hv. rewrite count_scatter; [|unfold zeros; now rewrite map_length|exact Hv].
  rewrite count_map2_zeros. lia.
Qed.

(* x[m][v] = x[scatter m v zeros] *)
Lemma select_scatter {A B} m : forall v (l : list A) (z : list B),
  length l = length m -> length z = length m -> zlen v = count_true m ->
  select (scatter m v (zeros z)) l = select v (select m l).
Proof.
  induction m as [|b m IH]; intros v l z Hl Hz Hv.
  - destruct l; [|discriminate Hl]. destruct z; [|discriminate Hz].
    cbn. destruct v; reflexivity.
  - destruct l as [|x l]; [discriminate Hl|]. destruct z as [|w z]; [discriminate Hz|].
    cbn [length] in Hl, Hz. cbn [count_true] in Hv. unfold zeros in *. destruct b.
    + destruct v as [|y v]; [rewrite zlen_nil in Hv; pose proof (count_true_bounds m); lia|].
      rewrite zlen_cons in Hv. cbn [map scatter select].
      rewrite (IH v l z) by lia. reflexivity.
    + cbn [map scatter select]. rewrite (IH v l z) by lia. reflexivity.
Qed.

Lemma subset_mask_refl m : subset_mask m m = true.
Proof. induction m as [|b m IH]; [reflexivity|]. cbn [subset_mask]. rewrite IH. destruct b; reflexivity. Qed.

Lemma subset_scatter m : forall v base,
  length base = length m -> subset_mask base m = true ->
  subset_mask (scatter m v base) m = true.
Proof.
  induction m as [|b m IH]; intros v base Hb Hs.
  - destruct base; [reflexivity|discriminate Hb].
  - destruct base as [|x base]; [discriminate Hb|]. cbn [length] in Hb.
    cbn [subset_mask] in Hs. apply andb_true_iff in Hs. destruct Hs as [Hx Hs].
    destruct b.
    + destruct v as [|y v]; cbn [scatter subset_mask]; rewrite IH by (auto; lia);
        [now rewrite Hx|now destruct y].
    + cbn [scatter subset_mask]. rewrite IH by (auto; lia). now rewrite Hx.
Qed.

Lemma subset_zeros m : subset_mask (zeros m) m = true.
Proof. induction m as [|b m IH]; [reflexivity|]. unfold zeros in *. cbn [map subset_mask]. now rewrite IH. Qed.

Lemma subset_mask_length m1 : forall m2, subset_mask m1 m2 = true -> length m1 = length m2.
Proof.
  induction m1 as [|b m1 IH]; intros [|c m2] H; cbn [subset_mask] in H; try discriminate H; [reflexivity|].
  apply andb_true_iff in H. destruct H as [_ H]. cbn [length]. now rewrite (IH m2).
Qed.

Lemma subset_mask_nth m1 : forall m2 j, subset_mask m1 m2 = true ->
  nth j m1 false = true -> nth j m2 false = true.
Proof.
  induction m1 as [|b m1 IH]; intros [|c m2] j H Hn; cbn [subset_mask] in H; try discriminate H.
  - destruct j; discriminate Hn.
  - apply andb_true_iff in H. destruct H as [Hbc H]. destruct j as [|j]; cbn [nth] in *.
    + subst b. exact Hbc.
    + now apply (IH m2).
Qed.

Lemma subset_mask_trans m1 : forall m2 m3,
  subset_mask m1 m2 = true -> subset_mask m2 m3 = true -> subset_mask m1 m3 = true.
Proof.
  induction m1 as [|b m1 IH]; intros [|c m2] [|d m3] H1 H2; cbn [subset_mask] in *;
    try discriminate; [reflexivity|].
  apply andb_true_iff in H1. apply andb_true_iff in H2.
  destruct H1 as [Hbc H1], H2 as [Hcd H2]. rewrite (IH m2 m3) by assumption.
  destruct b, c, d; try reflexivity; discriminate.
Qed.

Lemma map2_length {A B C} (f : A -> B -> C) l : forall l',
  length l' = length l -> length (map2 f l l') = length l.
Proof.
  induction l as [|x l IH]; intros [|y l'] H; cbn [length] in H; try discriminate H; [reflexivity|].
  cbn [map2 length]. now rewrite IH by lia.
Qed.

Lemma count_negb m : count_true (map negb m) = zlen m - count_true m.
Proof.
  induction m as [|b m IH]; [reflexivity|]. rewrite zlen_cons. cbn [map count_true].
  rewrite IH. destruct b; cbn [negb]; lia.
Qed.

Lemma nth_map_negb m i : (i < length m)%nat ->
  nth i (map negb m) false = negb (nth i m false).
Proof.
  intros H. change false with (negb true) at 1. rewrite map_nth. f_equal.
  now apply nth_indep.
Qed.

Lemma count_zeros {A} (l : list A) : count_true (zeros l) = 0.
Proof. induction l as [|x l IH]; [reflexivity|]. unfold zeros in *. cbn [map count_true]. now rewrite IH. Qed.

Lemma nth_zeros {A} (l : list A) i : nth i (zeros l) false = false.
Proof.
  unfold zeros. revert i. induction l as [|x l IH]; intros [|i]; cbn [map nth]; try reflexivity. apply IH.
Qed.

Lemma zeros_ext {A B} (l : list A) : forall (l' : list B),
  length l = length l' -> zeros l = zeros l'.
Proof.
  unfold zeros. induction l as [|x l IH]; intros [|y l'] H; cbn [length] in H; try discriminate H; [reflexivity|].
  cbn [map]. f_equal. apply IH. lia.
Qed.

Lemma count_ones {A} (l : list A) : count_true (ones l) = zlen l.
Proof. induction l as [|x l IH]; [reflexivity|]. rewrite zlen_cons. unfold ones in *. cbn [map count_true]. now rewrite IH. Qed.

Lemma select_self_true m : Forall (fun b => b = true) (select m m).
Proof.
  induction m as [|b m IH]; [constructor|]. cbn [select]. destruct b; [constructor; [reflexivity|exact IH]|exact IH].
Qed.

Lemma map2_andb_true l : forall l', Forall (fun b => b = true) l ->
  length l' = length l -> map2 andb l l' = l'.
Proof.
  induction l as [|x l IH]; intros [|y l'] Hall Hl; cbn [length] in Hl; try discriminate Hl; [reflexivity|].
  inversion Hall; subst. cbn [map2 andb]. now rewrite IH by (auto; lia).
Qed.

Lemma nth_map2_andb l : forall l' i, length l' = length l ->
  nth i (map2 andb l l') false = nth i l false && nth i l' false.
Proof.
  induction l as [|x l IH]; intros [|y l'] i H; cbn [length] in H; try discriminate H.
  - destruct i; reflexivity.
  - destruct i as [|i]; cbn [map2 nth]; [reflexivity|]. apply IH. lia.
Qed.

Lemma map2_andb_subset k : forall g, subset_mask k g = true -> map2 andb k g = k.
Proof.
  induction k as [|x k IH]; intros [|y g] H; cbn [subset_mask] in H; try discriminate H; [reflexivity|].
  apply andb_true_iff in H. destruct H as [Hxy H]. cbn [map2]. rewrite IH by exact H.
  destruct x, y; try reflexivity; discriminate Hxy.
Qed.

(* ---- norm / grid ------------------------------------------------------- *)
Lemma fold_min_le l : forall z0,
  fold_left Z.min l z0 <= z0 /\ Forall (fun z => fold_left Z.min l z0 <= z) l.
Proof.
  induction l as [|x l IH]; intros z0; cbn [fold_left]; [split; [lia|constructor]|].
  destruct (IH (Z.min z0 x)) as [H1 H2]. split; [lia|]. constructor; [lia|exact H2].
Qed.

Lemma fold_max_ge l : forall z0,
  z0 <= fold_left Z.max l z0 /\ Forall (fun z => z <= fold_left Z.max l z0) l.
Proof.
  induction l as [|x l IH]; intros z0; cbn [fold_left]; [split; [lia|constructor]|].
  destruct (IH (Z.max z0 x)) as [H1 H2]. split; [lia|]. constructor; [lia|exact H2].
Qed.

Definition cell_ok (c : Z) : Prop := 0 <= c < 300.

Lemma discretize_ok ad :
  ptp ad <> 0 -> Forall cell_ok (discretize ad) /\ length (discretize ad) = length ad.
Proof.
  destruct ad as [|z0 r]; [intros _; split; [constructor|reflexivity]|].
  unfold ptp, discretize, zmin_list, zmax_list. intros Hp.
  destruct (fold_min_le r z0) as [Hmn Hmnall]. destruct (fold_max_ge r z0) as [Hmx Hmxall].
  set (mn := fold_left Z.min r z0) in *. set (mx := fold_left Z.max r z0) in *.
  destruct (mx - mn =? 0) eqn:E; [lia|]. split; [|now rewrite map_length].
  assert (Hall : Forall (fun z => mn <= z <= mx) (z0 :: r)).
  { constructor; [lia|]. rewrite Forall_forall in *. intros z Hz.
    specialize (Hmnall z Hz). specialize (Hmxall z Hz). lia. }
  rewrite Forall_map. eapply Forall_impl; [|exact Hall]. cbv beta. intros z Hz.
  unfold cell_ok. split.
  - apply Z.div_pos; lia.
  - enough ((z - mn) * 299 / (mx - mn) <= 299) by lia.
    apply Z.div_le_upper_bound; [lia|]. nia.
Qed.

Lemma nan_cast_from_zero n : forall i, 0 <= i ->
  Forall cell_ok (nan_cast_from i 0 n) /\ length (nan_cast_from i 0 n) = n.
Proof.
  induction n as [|n IH]; intros i Hi; cbn [nan_cast_from length]; [split; [constructor|reflexivity]|].
  destruct (IH (i + 1)) as [H1 H2]; [lia|]. replace (i <? 0) with false by lia.
  split; [constructor; [unfold cell_ok; lia|exact H1]|now rewrite H2].
Qed.

(* also fewer than four points on a constant axis: NaN is cast to 0 *)
Lemma discretize_ok' ad :
  ptp ad <> 0 \/ zlen ad < 4 ->
  Forall cell_ok (discretize ad) /\ length (discretize ad) = length ad.
Proof.
  intros H. destruct (Z.eq_dec (ptp ad) 0) as [E|E]; [|now apply discretize_ok].
  destruct H as [H|H]; [contradiction|].
  destruct ad as [|z0 r]; [split; [constructor|reflexivity]|].
  unfold ptp in E. unfold discretize. replace (zmax_list z0 r - zmin_list z0 r =? 0) with true by lia.
  unfold nan_cast. unfold zlen in H.
  replace (4 * (Z.of_nat (length (z0 :: r)) / 4)) with 0 by lia.
  apply nan_cast_from_zero. lia.
Qed.

Lemma populate_ok xs : forall ys seen,
  length ys = length xs -> Forall cell_ok xs -> Forall cell_ok ys ->
  exists k, populate xs ys seen = Some k /\ length k = length xs.
Proof.
  induction xs as [|x xs IH]; intros [|y ys] seen Hl Hx Hy; cbn [length] in Hl; try discriminate Hl.
  - exists []. split; reflexivity.
  - inversion Hx as [|? ? Hx0 Hxs]; subst. inversion Hy as [|? ? Hy0 Hys]; subst.
    unfold cell_ok in Hx0, Hy0. cbn [populate].
    replace ((0 <=? x) && (x <? 300) && (0 <=? y) && (y <? 300)) with true by lia.
    destruct (PositiveSet.mem (key (x * 300 + y)) seen).
    + destruct (IH ys seen) as [k [Hk Hkl]]; [lia|assumption|assumption|].
      rewrite Hk. exists (false :: k). split; [reflexivity|cbn [length]; now rewrite Hkl].
    + destruct (IH ys (PositiveSet.add (key (x * 300 + y)) seen)) as [k [Hk Hkl]]; [lia|assumption|assumption|].
      rewrite Hk. exists (true :: k). split; [reflexivity|cbn [length]; now rewrite Hkl].
Qed.

(* ======================================================================== *)
(* the model                                                                *)
(* ======================================================================== *)

(* hypothesis on the oracle: under the state seeded with 47 a draw of k out
   of n yields k distinct positions below n *)
Definition choice_ok {rng : Type} (seed47 : rng)
           (choice_st : rng -> Z -> Z -> list Z * rng) : Prop :=
  forall n k, 0 < k <= n ->
    zlen (fst (choice_st seed47 n k)) = k /\
    NoDup (fst (choice_st seed47 n k)) /\
    Forall (fun p => 0 <= p < n) (fst (choice_st seed47 n k)).

Section Proofs.
  Variable rng : Type.
  Variable seed47 : rng.
  Variable choice_st : rng -> Z -> Z -> list Z * rng.

  Local Notation np_choice := (np_choice rng choice_st).
  Local Notation adjust := (adjust rng seed47 choice_st).
  Local Notation grid_phase := (grid_phase rng seed47 choice_st).
  Local Notation pad_phase := (pad_phase rng seed47 choice_st).
  Local Notation downsample_grid := (downsample_grid rng seed47 choice_st).
  Local Notation downsample_rand := (downsample_rand rng seed47 choice_st).
  Local Notation downsample_grid_req := (downsample_grid_req rng seed47 choice_st).
  Local Notation downsample_rand_req := (downsample_rand_req rng seed47 choice_st).
  Local Notation limit_events := (limit_events rng seed47 choice_st).
  Local Notation filter_all := (filter_all rng seed47 choice_st).
  Local Notation scatter_ds := (scatter_ds rng seed47 choice_st).

  (* ---- independence of the global generator state (no hypothesis) ------ *)
  Lemma adjust_indep g1 g2 keepd samples :
    fst (adjust g1 keepd samples) = fst (adjust g2 keepd samples).
  Proof.
    unfold C16.adjust.
    destruct (count_true keepd - samples >? 0).
    - destruct (np_choice seed47 (where_ keepd) (count_true keepd - samples)) as [[?|] ?]; reflexivity.
    - destruct (count_true keepd - samples <? 0); [|reflexivity].
      destruct (np_choice seed47 (where_ (map negb keepd)) (- (count_true keepd - samples))) as [[?|] ?]; reflexivity.
  Qed.

  Lemma grid_phase_indep g1 g2 ad bd samples good keep0 :
    fst (grid_phase g1 ad bd samples good keep0) = fst (grid_phase g2 ad bd samples good keep0).
  Proof.
    unfold C16.grid_phase.
    destruct (negb (samples =? 0) && (samples <? zlen ad)); [|reflexivity].
    destruct (populate (discretize ad) (discretize bd) PositiveSet.empty) as [keepd|]; [|reflexivity].
    pose proof (adjust_indep g1 g2 keepd samples) as H.
    destruct (adjust g1 keepd samples) as [[?|] ?], (adjust g2 keepd samples) as [[?|] ?];
      cbn [fst] in H; try discriminate H; [|reflexivity].
    injection H as ->. reflexivity.
  Qed.

  Lemma pad_phase_indep g1 g2 keep1 bad samples ri :
    fst (pad_phase g1 keep1 bad samples ri) = fst (pad_phase g2 keep1 bad samples ri).
  Proof.
    unfold C16.pad_phase. destruct ri; [reflexivity|].
    destruct ((if samples =? 0 then zlen keep1 else samples) - count_true keep1 >? 0); [|reflexivity].
    destruct (np_choice seed47 (where_ bad) _) as [[?|] ?]; reflexivity.
  Qed.

  Lemma grid_state_independent g1 g2 a b samples ri :
    fst (downsample_grid g1 a b samples ri) = fst (downsample_grid g2 a b samples ri).
  Proof.
    unfold C16.downsample_grid.
    set (bad := map2 orb (map is_bad a) (map is_bad b)).
    set (good := map negb bad).
    set (ad := map fin_val (select good a)). set (bd := map fin_val (select good b)).
    pose proof (grid_phase_indep g1 g2 ad bd samples good good) as H.
    destruct (grid_phase g1 ad bd samples good good) as [[k1|e1] h1],
             (grid_phase g2 ad bd samples good good) as [[k2|e2] h2];
      cbn [fst] in H; try discriminate H.
    - injection H as ->.
      pose proof (pad_phase_indep h1 h2 k2 bad samples ri) as H'.
      destruct (pad_phase h1 k2 bad samples ri) as [[?|?] ?],
               (pad_phase h2 k2 bad samples ri) as [[?|?] ?];
        cbn [fst] in H'; try discriminate H'; injection H' as ->; reflexivity.
    - injection H as ->. reflexivity.
  Qed.

  Lemma rand_state_independent g1 g2 a samples ri :
    fst (downsample_rand g1 a samples ri) = fst (downsample_rand g2 a samples ri).
  Proof. reflexivity. Qed.

  Lemma grid_req_state_independent g1 g2 w a b samples ri :
    fst (downsample_grid_req g1 w a b samples ri) = fst (downsample_grid_req g2 w a b samples ri).
  Proof.
    unfold C16.downsample_grid_req. destruct (to_uint32 w samples); [|reflexivity].
    apply grid_state_independent.
  Qed.

  Lemma rand_req_state_independent g1 g2 w a samples ri :
    fst (downsample_rand_req g1 w a samples ri) = fst (downsample_rand_req g2 w a samples ri).
  Proof. reflexivity. Qed.

  Lemma limit_state_independent g1 g2 arr_all limit :
    fst (limit_events g1 arr_all limit) = fst (limit_events g2 arr_all limit).
  Proof. unfold C16.limit_events. destruct (limit >? 0); reflexivity. Qed.

  Lemma scatter_state_independent g1 g2 xf yf xlf ylf xlog ylog fall ds ri :
    fst (scatter_ds g1 xf yf xlf ylf xlog ylog fall ds ri)
    = fst (scatter_ds g2 xf yf xlf ylf xlog ylog fall ds ri).
  Proof.
    unfold C16.scatter_ds. destruct (ds <? 0); [reflexivity|].
    pose proof (grid_req_state_independent g1 g2 false
                  (select fall (apply_scale xlog xf xlf)) (select fall (apply_scale ylog yf ylf))
                  (Z.min ds (count_true fall)) ri) as H.
    destruct (downsample_grid_req g1 false _ _ _ ri) as [[? ? ?|?] ?],
             (downsample_grid_req g2 false _ _ _ ri) as [[? ? ?|?] ?];
      cbn [fst] in H; try discriminate H; injection H; intros; subst; reflexivity.
  Qed.

  (* ---- with the oracle hypothesis -------------------------------------- *)
  Hypothesis Hch : choice_ok seed47 choice_st.

  Lemma np_choice_ok arr k :
    NoDup arr -> 0 < k <= zlen arr ->
    exists sel g', np_choice seed47 arr k = (Some sel, g') /\
                   NoDup sel /\ incl sel arr /\ zlen sel = k.
  Proof.
    intros Hnd Hk. unfold C16.np_choice.
    replace ((zlen arr =? 0) || (zlen arr <? k)) with false by lia.
    destruct (Hch (zlen arr) k Hk) as [H1 [H2 H3]].
    destruct (choice_st seed47 (zlen arr) k) as [ps g'] eqn:E. cbn [fst] in *.
    destruct (pick_props arr ps Hnd H2 H3) as [P1 [P2 P3]].
    exists (pick arr ps), g'. repeat split; try assumption. lia.
  Qed.

  Lemma adjust_ok g keepd samples :
    0 < samples < zlen keepd ->
    exists keepdb g', adjust g keepd samples = (Some keepdb, g') /\
                      length keepdb = length keepd /\ count_true keepdb = samples.
  Proof.
    intros Hs. unfold C16.adjust. pose proof (count_true_bounds keepd) as Hb.
    destruct (count_true keepd - samples >? 0) eqn:E1.
    - destruct (np_choice_ok (where_ keepd) (count_true keepd - samples)) as [sel [g' [Hc [Hnd [Hin Hl]]]]];
        [apply where_NoDup|rewrite where_length; lia|].
      rewrite Hc. exists (assign keepd sel false), g'. split; [reflexivity|].
      split; [apply assign_length|]. rewrite count_assign_false by assumption. lia.
    - destruct (count_true keepd - samples <? 0) eqn:E2.
      + destruct (np_choice_ok (where_ (map negb keepd)) (- (count_true keepd - samples)))
          as [sel [g' [Hc [Hnd [Hin Hl]]]]];
          [apply where_NoDup|rewrite where_length, count_negb; lia|].
        rewrite Hc. exists (assign keepd sel true), g'. split; [reflexivity|].
        split; [apply assign_length|]. rewrite count_assign_true; [lia|exact Hnd|].
        rewrite Forall_forall. intros i Hi. apply Hin in Hi. rewrite where_In, zlen_map in Hi.
        destruct Hi as [Hr Hn]. split; [exact Hr|].
        rewrite nth_map_negb in Hn by (unfold zlen in Hr; lia).
        now destruct (nth (Z.to_nat i) keepd false).
      + exists keepd, g. split; [reflexivity|]. split; [reflexivity|lia].
  Qed.

  Lemma grid_phase_ok g ad bd samples good :
    zlen ad = count_true good -> length bd = length ad -> 0 <= samples ->
    (negb (samples =? 0) && (samples <? zlen ad) = true ->
     (ptp ad <> 0 /\ ptp bd <> 0) \/ zlen ad < 4) ->
    exists keep1 g', grid_phase g ad bd samples good good = (inl keep1, g') /\
      length keep1 = length good /\ subset_mask keep1 good = true /\
      count_true keep1 = (if negb (samples =? 0) && (samples <? zlen ad)
                          then samples else count_true good).
  Proof.
    intros Had Hbd Hs Hguard. unfold C16.grid_phase.
    destruct (negb (samples =? 0) && (samples <? zlen ad)) eqn:E.
    - assert (Hzb : zlen bd = zlen ad) by (unfold zlen; lia).
      destruct (discretize_ok' ad) as [Hxa Hla]; [destruct (Hguard eq_refl) as [[? ?]|?]; [now left|now right]|].
      destruct (discretize_ok' bd) as [Hxb Hlb]; [destruct (Hguard eq_refl) as [[? ?]|?]; [now left|right; lia]|].
      destruct (populate_ok (discretize ad) (discretize bd) PositiveSet.empty) as [keepd [Hk Hkl]];
        [lia|assumption|assumption|].
      rewrite Hk.
      destruct (adjust_ok g keepd samples) as [keepdb [g' [Ha [Hl Hc]]]];
        [unfold zlen in *; lia|].
      rewrite Ha. exists (scatter good keepdb good), g'. split; [reflexivity|].
      split; [apply scatter_length|]. split; [apply subset_scatter; [reflexivity|apply subset_mask_refl]|].
      rewrite count_scatter_self; [exact Hc|]. unfold zlen in *. lia.
    - exists good, g. split; [reflexivity|]. split; [reflexivity|].
      split; [apply subset_mask_refl|reflexivity].
  Qed.

  Lemma subset_where_bad keep1 bad :
    subset_mask keep1 (map negb bad) = true ->
    Forall (fun i => 0 <= i < zlen keep1 /\ nth (Z.to_nat i) keep1 false = false) (where_ bad).
  Proof.
    intros Hs. rewrite Forall_forall. intros i Hi. rewrite where_In in Hi. destruct Hi as [Hr Hn].
    pose proof (subset_mask_length _ _ Hs) as Hl. rewrite map_length in Hl.
    split; [unfold zlen in *; lia|].
    destruct (nth (Z.to_nat i) keep1 false) eqn:E; [|reflexivity].
    apply (subset_mask_nth _ _ _ Hs) in E.
    rewrite nth_map_negb in E by (unfold zlen in Hr; lia). rewrite Hn in E. discriminate E.
  Qed.

  Lemma pad_phase_ok g keep1 bad samples :
    subset_mask keep1 (map negb bad) = true ->
    (if samples =? 0 then zlen keep1 else samples) - count_true keep1 <= count_true bad ->
    exists keep g', pad_phase g keep1 bad samples false = (inl keep, g') /\
      length keep = length keep1 /\
      count_true keep = Z.max (count_true keep1) (if samples =? 0 then zlen keep1 else samples) /\
      map2 andb keep (map negb bad) = keep1.
  Proof.
    intros Hs Hd. unfold C16.pad_phase.
    set (want := if samples =? 0 then zlen keep1 else samples) in *.
    destruct (want - count_true keep1 >? 0) eqn:E.
    - destruct (np_choice_ok (where_ bad) (want - count_true keep1)) as [sel [g' [Hc [Hnd [Hin Hl]]]]];
        [apply where_NoDup|rewrite where_length; lia|].
      rewrite Hc. exists (assign keep1 sel true), g'. split; [reflexivity|].
      split; [apply assign_length|].
      pose proof (subset_where_bad keep1 bad Hs) as Hall.
      pose proof (subset_mask_length _ _ Hs) as Hlen. rewrite map_length in Hlen.
      split.
      + rewrite count_assign_true; [lia|exact Hnd|].
        rewrite Forall_forall in *. intros i Hi. apply Hall, Hin, Hi.
      + assert (Hnn : Forall (fun j => 0 <= j) sel).
        { rewrite Forall_forall in *. intros i Hi. apply Hin, Hall in Hi. lia. }
        apply nth_ext with (d := false) (d' := false).
        { rewrite map2_length; [apply assign_length|rewrite map_length, assign_length; congruence]. }
        intros i Hi. rewrite map2_length in Hi by (rewrite map_length, assign_length; congruence).
        rewrite assign_length in Hi.
        rewrite nth_map2_andb by (rewrite map_length, assign_length; congruence).
        replace i with (Z.to_nat (Z.of_nat i)) at 1 by lia.
        rewrite assign_nth by (try exact Hnn; unfold zlen; lia).
        replace (Z.to_nat (Z.of_nat i)) with i by lia.
        destruct (in_set (Z.of_nat i) (idx_set sel)) eqn:Es.
        * apply in_set_spec in Es; [|exact Hnn|lia]. apply Hin in Es.
          pose proof Es as Es'. rewrite where_In in Es'. destruct Es' as [_ Hb].
          rewrite Forall_forall in Hall. destruct (Hall _ Es) as [_ Hk].
          replace (Z.to_nat (Z.of_nat i)) with i in * by lia.
          rewrite nth_map_negb by lia. rewrite Hb, Hk. reflexivity.
        * destruct (nth i keep1 false) eqn:Ek; [|reflexivity].
          rewrite (subset_mask_nth _ _ _ Hs Ek). reflexivity.
    - exists keep1, g. split; [reflexivity|]. split; [reflexivity|]. split; [lia|].
      now apply map2_andb_subset.
  Qed.

  Lemma good_mask_length a b : length a = length b -> length (good_mask a b) = length a.
  Proof.
    intros H. unfold good_mask. rewrite map_length, map2_length; rewrite !map_length; congruence.
  Qed.

  (* ---- downsample_grid -------------------------------------------------- *)
  Lemma grid_count g a b samples ri :
    length a = length b -> 0 <= samples ->
    no_constant_axis a b samples = true ->
    (ri = false -> samples <= zlen a) ->
    exists keep g',
      downsample_grid g a b samples ri = (Ok (select keep a) (select keep b) keep, g') /\
      length keep = length a /\
      count_true keep = spec_count samples
                          (if ri then count_true (good_mask a b) else zlen a) /\
      count_true (map2 andb keep (good_mask a b))
      = spec_count samples (count_true (good_mask a b)) /\
      (ri = true -> subset_mask keep (good_mask a b) = true).
  Proof.
    intros Hab Hs Hguard Hreq. unfold C16.downsample_grid.
    change (map negb (map2 orb (map is_bad a) (map is_bad b))) with (good_mask a b).
    set (bad := map2 orb (map is_bad a) (map is_bad b)).
    set (good := good_mask a b).
    pose proof (good_mask_length a b Hab) as Hgl. fold good in Hgl.
    assert (Hbl : length bad = length a).
    { unfold bad. rewrite map2_length; rewrite !map_length; congruence. }
    set (ad := map fin_val (select good a)). set (bd := map fin_val (select good b)).
    assert (Had : zlen ad = count_true good).
    { unfold ad. rewrite zlen_map. apply select_length. congruence. }
    assert (Hbd : zlen bd = count_true good).
    { unfold bd. rewrite zlen_map. apply select_length. congruence. }
    destruct (grid_phase_ok g ad bd samples good) as [keep1 [g1 [Hg [Hl1 [Hsub1 Hc1]]]]];
      [exact Had|unfold zlen in *; lia|exact Hs| |].
    { intros Hrun. unfold no_constant_axis, grid_runs, axes_not_constant in Hguard.
      fold good in Hguard. fold ad bd in Hguard. rewrite <- Had in Hguard.
      rewrite Hrun in Hguard. cbn [negb orb] in Hguard. fold good in Hguard. lia. }
    rewrite Hg. pose proof (count_true_bounds good) as Hgb.
    assert (HN : zlen good = zlen a) by (unfold zlen; congruence).
    destruct ri.
    - cbn [C16.pad_phase]. exists keep1, g1. split; [reflexivity|].
      split; [congruence|].
      assert (Hcnt : count_true keep1 = spec_count samples (count_true good)).
      { rewrite Hc1, Had. unfold spec_count.
        destruct (samples =? 0) eqn:E0; cbn [negb andb]; [reflexivity|].
        destruct (samples <? count_true good) eqn:E1; lia. }
      split; [exact Hcnt|]. split; [|intros _; exact Hsub1].
      rewrite map2_andb_subset by exact Hsub1. exact Hcnt.
    - specialize (Hreq eq_refl).
      assert (Hk1 : zlen keep1 = zlen a) by (unfold zlen; congruence).
      destruct (pad_phase_ok g1 keep1 bad samples) as [keep [g2 [Hp [Hl2 [Hc2 Hv]]]]].
      + exact Hsub1.
      + assert (Hcb : count_true bad = zlen a - count_true good).
        { unfold good, good_mask. fold bad. rewrite count_negb. unfold zlen. rewrite Hbl. lia. }
        rewrite Hc1, Had, Hk1, Hcb.
        destruct (samples =? 0) eqn:E0; cbn [negb andb]; [lia|].
        destruct (samples <? count_true good) eqn:E1; lia.
      + rewrite Hp. exists keep, g2. split; [reflexivity|]. split; [congruence|].
        split; [|split; [|discriminate]].
        * rewrite Hc2, Hc1, Had, Hk1. unfold spec_count.
          destruct (samples =? 0) eqn:E0; cbn [negb andb]; [lia|].
          destruct (samples <? count_true good) eqn:E1; lia.
        * replace (map2 andb keep good) with keep1 by (symmetry; exact Hv).
          rewrite Hc1, Had. unfold spec_count.
          destruct (samples =? 0) eqn:E0; cbn [negb andb]; [reflexivity|].
          destruct (samples <? count_true good) eqn:E1; lia.
  Qed.

  (* ---- downsample_rand -------------------------------------------------- *)
  Lemma rand_count g a samples ri :
    0 <= samples ->
    exists idx g',
      downsample_rand g a samples ri = (Ok (select idx a) [] idx, g') /\
      length idx = length a /\
      count_true idx = spec_count samples
                         (if ri then count_true (map negb (map is_bad a)) else zlen a) /\
      (ri = true -> subset_mask idx (map negb (map is_bad a)) = true).
  Proof.
    intros Hs. unfold C16.downsample_rand.
    set (good := map negb (map is_bad a)).
    assert (Hgl : length good = length a) by (unfold good; now rewrite !map_length).
    set (pool := if ri then select good a else a).
    assert (Hpool : zlen pool = if ri then count_true good else zlen a).
    { unfold pool. destruct ri; [apply select_length; congruence|reflexivity]. }
    assert (Hkeep : exists keep g1,
      (if negb (samples =? 0) && (samples <? zlen pool)
       then match np_choice seed47 (arange (length pool)) samples with
            | (Some keep_ids, g') => (Some (assign (zeros pool) keep_ids true), g')
            | (None, g') => (None, g')
            end
       else (Some (ones pool), seed47)) = (Some keep, g1) /\
      length keep = length pool /\ count_true keep = spec_count samples (zlen pool)).
    { destruct (negb (samples =? 0) && (samples <? zlen pool)) eqn:E.
      - destruct (np_choice_ok (arange (length pool)) samples) as [sel [g' [Hc [Hnd [Hin Hl]]]]];
          [apply arange_from_NoDup|unfold zlen, arange in *; rewrite arange_from_length; lia|].
        rewrite Hc. exists (assign (zeros pool) sel true), g'. split; [reflexivity|].
        split; [rewrite assign_length; unfold zeros; now rewrite map_length|].
        rewrite count_assign_true, count_zeros; [unfold spec_count; destruct (samples =? 0) eqn:E0; lia|exact Hnd|].
        rewrite Forall_forall. intros i Hi. apply Hin in Hi. rewrite arange_In in Hi.
        split; [unfold zeros; rewrite zlen_map; unfold zlen; lia|apply nth_zeros].
      - exists (ones pool), seed47. split; [reflexivity|].
        split; [unfold ones; now rewrite map_length|]. rewrite count_ones.
        unfold spec_count. destruct (samples =? 0) eqn:E0; [reflexivity|]. lia. }
    destruct Hkeep as [keep [g1 [Hk [Hkl Hkc]]]]. rewrite Hk.
    destruct ri; unfold pool in *.
    - exists (scatter good keep (zeros a)), g1.
      assert (Hz : zlen keep = count_true good).
      { rewrite <- Hpool. unfold zlen. now rewrite Hkl. }
      split; [|split; [|split]].
      + rewrite (select_scatter good keep a a) by (auto; congruence). reflexivity.
      + rewrite scatter_length. unfold zeros. now rewrite map_length.
      + rewrite count_scatter_zeros by (auto; congruence). now rewrite Hkc, Hpool.
      + intros _. apply subset_scatter; [unfold zeros; rewrite map_length; congruence|].
        rewrite (zeros_ext a good) by congruence. apply subset_zeros.
    - exists keep, g1. split; [reflexivity|]. split; [exact Hkl|]. split; [|discriminate].
      exact Hkc.
  Qed.

  (* ---- the request conversion ------------------------------------------- *)
  Lemma to_uint32_in_range w samples :
    0 <= samples < 4294967296 -> to_uint32 w samples = Some samples.
  Proof.
    intros H. unfold to_uint32. destruct w.
    - rewrite Z.mod_small by lia. reflexivity.
    - replace ((0 <=? samples) && (samples <? 4294967296)) with true by lia. reflexivity.
  Qed.

  Lemma grid_req_count g w a b samples ri :
    length a = length b -> 0 <= samples < 4294967296 ->
    no_constant_axis a b samples = true ->
    (ri = false -> samples <= zlen a) ->
    exists keep g',
      downsample_grid_req g w a b samples ri = (Ok (select keep a) (select keep b) keep, g') /\
      length keep = length a /\
      count_true keep = spec_count samples
                          (if ri then count_true (good_mask a b) else zlen a) /\
      count_true (map2 andb keep (good_mask a b))
      = spec_count samples (count_true (good_mask a b)) /\
      (ri = true -> subset_mask keep (good_mask a b) = true).
  Proof.
    intros Hab Hs Hg Hr. unfold C16.downsample_grid_req. rewrite to_uint32_in_range by exact Hs.
    apply grid_count; [exact Hab|lia|exact Hg|exact Hr].
  Qed.

  Lemma rand_req_count g w a samples ri :
    0 <= samples < 4294967296 ->
    exists idx g',
      downsample_rand_req g w a samples ri = (Ok (select idx a) [] idx, g') /\
      length idx = length a /\
      count_true idx = spec_count samples
                         (if ri then count_true (map negb (map is_bad a)) else zlen a) /\
      (ri = true -> subset_mask idx (map negb (map is_bad a)) = true).
  Proof.
    intros Hs. unfold C16.downsample_rand_req. rewrite to_uint32_in_range by exact Hs.
    apply rand_count. lia.
  Qed.

  (* ---- "limit events" --------------------------------------------------- *)
  Lemma limit_count g arr_all limit :
    zlen arr_all < 4294967296 ->
    exists m g',
      limit_events g arr_all limit = (inl m, g') /\
      subset_mask m arr_all = true /\
      count_true m = (if limit >? 0 then Z.min limit (count_true arr_all)
                      else count_true arr_all).
  Proof.
    intros Hlen. unfold C16.limit_events. destruct (limit >? 0) eqn:E.
    - set (sub := select arr_all arr_all).
      assert (Hsub : zlen sub = count_true arr_all) by (apply select_length; reflexivity).
      pose proof (count_true_bounds arr_all) as Hb.
      destruct (rand_req_count g false (map (fun _ : bool => Fin 1) sub) (Z.min limit (zlen sub)) false)
        as [idx [g' [Hr [Hl [Hc _]]]]]; [lia|].
      rewrite Hr. exists (scatter arr_all (map2 andb sub idx) arr_all), g'.
      rewrite map_length in Hl. rewrite zlen_map in Hc.
      rewrite (map2_andb_true sub idx) by (first [exact Hl | apply select_self_true]).
      split; [reflexivity|]. split; [apply subset_scatter; [reflexivity|apply subset_mask_refl]|].
      rewrite count_scatter_self; [|unfold zlen in *; lia].
      rewrite Hc, Hsub. unfold spec_count.
      destruct (Z.min limit (count_true arr_all) =? 0) eqn:E0; lia.
    - exists arr_all, g. split; [reflexivity|]. split; [apply subset_mask_refl|reflexivity].
  Qed.

  (* Filter.update step 4 as a whole *)
  Lemma map2_length_le {A B C} (f : A -> B -> C) l : forall l',
    (length (map2 f l l') <= length l)%nat.
  Proof.
    induction l as [|x l IH]; intros [|y l']; cbn [map2 length]; try lia.
    specialize (IH l'). lia.
  Qed.

  Lemma filter_all_count g box invalid polygon manual enable limit :
    zlen box < 4294967296 ->
    let comb := map2 andb (map2 andb (map2 andb box invalid) polygon) manual in
    exists m g',
      filter_all g box invalid polygon manual enable limit = (inl m, g') /\
      (enable = false -> m = ones box) /\
      (enable = true ->
       subset_mask m comb = true /\
       count_true m = (if limit >? 0 then Z.min limit (count_true comb)
                       else count_true comb)).
  Proof.
    intros Hlen comb. unfold C16.filter_all. destruct enable.
    - destruct (limit_count g comb limit) as [m [g' [H1 [H2 H3]]]].
      { unfold comb, zlen in *.
        pose proof (map2_length_le andb (map2 andb (map2 andb box invalid) polygon) manual).
        pose proof (map2_length_le andb (map2 andb box invalid) polygon).
        pose proof (map2_length_le andb box invalid). lia. }
      exists m, g'. split; [exact H1|]. split; [discriminate|]. intros _. split; assumption.
    - exists (ones box), g. split; [reflexivity|]. split; [reflexivity|discriminate].
  Qed.

  (* ---- get_downsampled_scatter ------------------------------------------ *)
  Lemma spec_count_cap ds cnt elig :
    0 <= ds -> 0 <= elig <= cnt -> spec_count (Z.min ds cnt) elig = spec_count ds elig.
  Proof.
    intros Hd He. unfold spec_count.
    destruct (ds =? 0) eqn:E1; destruct (Z.min ds cnt =? 0) eqn:E2; lia.
  Qed.

  Lemma scatter_count g xf yf xlf ylf xlog ylog fall ds ri :
    length xf = length fall -> length yf = length fall ->
    length xlf = length fall -> length ylf = length fall ->
    zlen fall < 4294967296 -> 0 <= ds ->
    let xs := select fall (apply_scale xlog xf xlf) in
    let ys := select fall (apply_scale ylog yf ylf) in
    no_constant_axis xs ys (Z.min ds (count_true fall)) = true ->
    exists idx mask g',
      scatter_ds g xf yf xlf ylf xlog ylog fall ds ri
      = (Ok (select mask xf) (select mask yf) mask, g') /\
      mask = scatter fall idx (zeros fall) /\
      length mask = length fall /\
      subset_mask mask fall = true /\
      count_true mask =
        spec_count ds (if ri then count_true (good_mask xs ys) else count_true fall) /\
      (* valid (after scaling) events come first, invalid ones only fill up *)
      length idx = length xs /\
      count_true (map2 andb idx (good_mask xs ys))
      = spec_count ds (count_true (good_mask xs ys)) /\
      (ri = true -> subset_mask idx (good_mask xs ys) = true).
  Proof.
    intros Hx Hy Hxl Hyl Hlen Hds xs ys Hguard. unfold C16.scatter_ds.
    replace (ds <? 0) with false by lia.
    assert (Hsx : length (apply_scale xlog xf xlf) = length fall) by (destruct xlog; assumption).
    assert (Hsy : length (apply_scale ylog yf ylf) = length fall) by (destruct ylog; assumption).
    fold xs ys.
    assert (Hlx : zlen xs = count_true fall) by (apply select_length; exact Hsx).
    assert (Hly : zlen ys = count_true fall) by (apply select_length; exact Hsy).
    pose proof (count_true_bounds fall) as Hb.
    destruct (grid_req_count g false xs ys (Z.min ds (count_true fall)) ri)
      as [idx [g' [Hg [Hl [Hc [Hv Hsub]]]]]];
      [unfold zlen in *; lia|lia|exact Hguard|intros _; lia|].
    rewrite Hg. exists idx, (scatter fall idx (zeros fall)), g'.
    assert (Hz : zlen idx = count_true fall) by (unfold zlen in *; lia).
    pose proof (count_true_bounds (good_mask xs ys)) as Hgb.
    assert (Hgl : zlen (good_mask xs ys) = count_true fall).
    { unfold zlen. rewrite good_mask_length by (unfold zlen in *; lia). exact Hlx. }
    split; [|split; [reflexivity|split; [|split; [|split; [|split; [exact Hl|split; [|exact Hsub]]]]]]].
    - rewrite (select_scatter fall idx xf fall), (select_scatter fall idx yf fall) by (auto; congruence).
      reflexivity.
    - rewrite scatter_length. unfold zeros. now rewrite map_length.
    - apply subset_scatter; [unfold zeros; now rewrite map_length|apply subset_zeros].
    - rewrite count_scatter_zeros by (auto; congruence). rewrite Hc, Hlx.
      destruct ri; apply spec_count_cap; lia.
    - rewrite Hv. apply spec_count_cap; lia.
  Qed.
End Proofs.

(* ======================================================================== *)
(* the two known findings: the full statement is false of the model          *)
(* ======================================================================== *)

(* requesting more than there is, remove_invalid = False: always ValueError,
   whatever the oracle does (the grid step does not even run) *)
Lemma grid_overrequest_raises (rng : Type) (seed47 : rng)
      (choice_st : rng -> Z -> Z -> list Z * rng) g a b samples :
  length a = length b -> zlen a < samples ->
  fst (downsample_grid rng seed47 choice_st g a b samples false) = Err ErrValue.
Proof.
  intros Hab Hs. unfold downsample_grid.
  change (map negb (map2 orb (map is_bad a) (map is_bad b))) with (good_mask a b).
  set (bad := map2 orb (map is_bad a) (map is_bad b)).
  set (good := good_mask a b).
  assert (Hgl : length good = length a).
  { unfold good, good_mask. rewrite map_length, map2_length; rewrite !map_length; congruence. }
  assert (Hbl : length bad = length a).
  { unfold bad. rewrite map2_length; rewrite !map_length; congruence. }
  assert (Had : zlen (map fin_val (select good a)) = count_true good).
  { rewrite zlen_map. apply select_length. congruence. }
  pose proof (count_true_bounds good) as Hgb. pose proof (zlen_nonneg a) as Hna.
  assert (HN : zlen good = zlen a) by (unfold zlen; congruence).
  unfold grid_phase. rewrite Had.
  replace (negb (samples =? 0) && (samples <? count_true good)) with false by lia.
  unfold pad_phase. replace (samples =? 0) with false by lia.
  replace (samples - count_true good >? 0) with true by lia.
  unfold np_choice. rewrite where_length.
  assert (Hcb : count_true bad = zlen a - count_true good).
  { unfold good, good_mask. fold bad. rewrite count_negb. unfold zlen. rewrite Hbl. lia. }
  replace ((count_true bad =? 0) || (count_true bad <? samples - count_true good)) with true by lia.
  reflexivity.
Qed.

Lemma grid_overrequest_refuted :
  exists a b samples,
    length a = length b /\ 0 <= samples /\ no_constant_axis a b samples = true /\
    forall (rng : Type) (seed47 : rng) choice_st g,
      fst (downsample_grid rng seed47 choice_st g a b samples false) = Err ErrValue.
Proof.
  exists [Fin 0; NaN; Fin 8], [Fin 3; Fin 4; Fin 5], 4.
  split; [reflexivity|]. split; [lia|]. split; [reflexivity|].
  intros. apply grid_overrequest_raises; [reflexivity|reflexivity].
Qed.

(* all valid values of one axis equal and the grid step runs: IndexError *)
Lemma grid_constant_axis_refuted :
  exists a b samples ri,
    length a = length b /\ 0 <= samples <= zlen a /\
    forall (rng : Type) (seed47 : rng) choice_st g,
      fst (downsample_grid rng seed47 choice_st g a b samples ri) = Err ErrIndex.
Proof.
  exists [Fin 8; Fin 8; Fin 8; Fin 8; NaN], [Fin 0; Fin 1; Fin 2; Fin 3; Fin 4], 2, true.
  split; [reflexivity|]. split; [cbn; lia|]. intros. reflexivity.
Qed.

(* the request conversion: a Python int >= 2^32 raises OverflowError, a numpy
   integer wraps and fewer events than requested and available come back *)
Lemma request_overflow_refuted :
  exists a samples,
    0 <= samples /\
    (forall (rng : Type) (seed47 : rng) choice_st g ri,
       fst (downsample_rand_req rng seed47 choice_st g false a samples ri) = Err ErrOverflow) /\
    (forall (rng : Type) (seed47 : rng) choice_st g ri,
       fst (downsample_grid_req rng seed47 choice_st g false a a samples ri) = Err ErrOverflow).
Proof.
  exists [Fin 0; Fin 8; Fin 16], 4294967296. split; [lia|]. split; intros; reflexivity.
Qed.

Lemma request_wrap_refuted :
  exists a samples idx,
    0 <= samples /\ count_true idx <> spec_count samples (zlen a) /\
    fst (downsample_rand_req unit tt (fun _ n k => (arange (Z.to_nat k), tt)) tt true a samples false)
    = Ok (select idx a) [] idx.
Proof.
  exists [Fin 0; Fin 1; Fin 2; Fin 3; Fin 4], 4294967299, [true; true; true; false; false].
  split; [lia|]. split; [vm_compute; discriminate|]. vm_compute. reflexivity.
Qed.

(* ======================================================================== *)
(* non-vacuity                                                              *)
(* ======================================================================== *)

(* an oracle that meets choice_ok: the first k positions *)
Definition ex_choice (_ : unit) (n k : Z) : list Z * unit := (arange (Z.to_nat k), tt).

Example ex_choice_ok : choice_ok tt ex_choice.
Proof.
  intros n k Hk. unfold ex_choice. cbn [fst]. split; [|split].
  - unfold zlen, arange. rewrite arange_from_length. lia.
  - apply arange_from_NoDup.
  - rewrite Forall_forall. intros p Hp. rewrite arange_In in Hp. lia.
Qed.

(* nine points, two invalid, duplicates in one cell: the grid keeps 5 < 6, the
   "too few" branch draws one more; hypotheses of grid_count hold *)
Definition ex_a := [Fin 0; Fin 0; NaN; Fin 80; Fin 80; Fin 40; PInf; Fin 0; Fin 7].
Definition ex_b := [Fin 0; Fin 0; Fin 5; Fin 16; Fin 16; Fin 8; Fin 1; Fin 16; Fin 3].

Example ex_grid_hyps :
  length ex_a = length ex_b /\ no_constant_axis ex_a ex_b 6 = true /\
  grid_runs ex_a ex_b 6 = true /\ 6 <= zlen ex_a.
Proof. repeat split; cbn; lia. Qed.

Example ex_grid_run :
  fst (downsample_grid unit tt ex_choice tt ex_a ex_b 6 true)
  = Ok [Fin 0; Fin 0; Fin 80; Fin 40; Fin 0; Fin 7]
       [Fin 0; Fin 0; Fin 16; Fin 8; Fin 16; Fin 3]
       [true; true; false; true; false; true; false; true; true].
Proof. vm_compute. reflexivity. Qed.

(* too many kept: 7 distinct cells, 3 requested, padding not needed *)
Example ex_grid_run_remove :
  fst (downsample_grid unit tt ex_choice tt
         [Fin 0; Fin 10; Fin 20; Fin 30; Fin 40; Fin 50; Fin 60]
         [Fin 0; Fin 10; Fin 20; Fin 30; Fin 40; Fin 50; Fin 60] 3 false)
  = Ok [Fin 40; Fin 50; Fin 60] [Fin 40; Fin 50; Fin 60]
       [false; false; false; false; true; true; true].
Proof. vm_compute. reflexivity. Qed.

(* padding with invalid points: 2 valid, 4 requested of 5 *)
Example ex_grid_run_pad :
  fst (downsample_grid unit tt ex_choice tt
         [Fin 1; NaN; NInf; Fin 2; PInf] [Fin 1; Fin 1; Fin 1; Fin 1; Fin 1] 4 false)
  = Ok [Fin 1; NaN; NInf; Fin 2] [Fin 1; Fin 1; Fin 1; Fin 1]
       [true; true; true; true; false].
Proof. vm_compute. reflexivity. Qed.

Example ex_rand_run :
  fst (downsample_rand unit tt ex_choice tt [Fin 5; NaN; Fin 6; Fin 7; PInf; Fin 8] 2 true)
  = Ok [Fin 5; Fin 6] [] [true; false; true; false; false; false].
Proof. vm_compute. reflexivity. Qed.

Example ex_limit_run :
  fst (limit_events unit tt ex_choice tt [true; false; true; true; false; true] 2)
  = inl [true; false; true; false; false; false].
Proof. vm_compute. reflexivity. Qed.

Example ex_scatter_hyps :
  let xf := [Fin 1; Fin 2; Fin 3; Fin 4; Fin 5] in
  let yf := [Fin 9; Fin 7; Fin 5; Fin 3; Fin 1] in
  let fall := [true; true; false; true; true] in
  no_constant_axis (select fall xf) (select fall yf) 2 = true /\
  fst (scatter_ds unit tt ex_choice tt xf yf xf yf false false fall 2 false)
  = Ok [Fin 4; Fin 5] [Fin 3; Fin 1] [false; false; false; true; true] /\
  (* a request beyond the data: everything that passed the filter *)
  fst (scatter_ds unit tt ex_choice tt xf yf xf yf false false fall 4294967299 false)
  = Ok [Fin 1; Fin 2; Fin 4; Fin 5] [Fin 9; Fin 7; Fin 3; Fin 1] [true; true; false; true; true].
Proof. vm_compute. repeat split; reflexivity. Qed.

(* ======================================================================== *)
(* the selection depends on the values only up to a positive unit per array  *)
(* (the harness encodes each array with its own binary exponent)             *)
(* ======================================================================== *)
Definition scale_fval (c : Z) (v : fval) : fval :=
  match v with Fin z => Fin (c * z) | _ => v end.

Definition mask_of (r : result) : list bool + error :=
  match r with Ok _ _ keep => inl keep | Err e => inr e end.

Lemma fold_min_scale c l : 0 <= c -> forall z0,
  fold_left Z.min (map (Z.mul c) l) (c * z0) = c * fold_left Z.min l z0.
Proof.
  intros Hc. induction l as [|x l IH]; intros z0; cbn [map fold_left]; [reflexivity|].
  rewrite Z.mul_min_distr_nonneg_l by exact Hc. apply IH.
Qed.

Lemma fold_max_scale c l : 0 <= c -> forall z0,
  fold_left Z.max (map (Z.mul c) l) (c * z0) = c * fold_left Z.max l z0.
Proof.
  intros Hc. induction l as [|x l IH]; intros z0; cbn [map fold_left]; [reflexivity|].
  rewrite Z.mul_max_distr_nonneg_l by exact Hc. apply IH.
Qed.

Lemma discretize_scale c ad : 0 < c -> discretize (map (Z.mul c) ad) = discretize ad.
Proof.
  intros Hc. destruct ad as [|z0 r]; [reflexivity|].
  unfold discretize, zmin_list, zmax_list. cbn [map].
  rewrite fold_min_scale, fold_max_scale by lia.
  set (mn := fold_left Z.min r z0). set (mx := fold_left Z.max r z0).
  replace (c * mx - c * mn) with (c * (mx - mn)) by lia.
  destruct (mx - mn =? 0) eqn:E.
  - replace (c * (mx - mn) =? 0) with true by lia. cbn [length]. now rewrite map_length.
  - assert (Hne : c * (mx - mn) <> 0) by (apply Z.neq_mul_0; lia).
    replace (c * (mx - mn) =? 0) with false by lia.
    assert (Hcell : forall z, (c * z - c * mn) * 299 / (c * (mx - mn))
                              = (z - mn) * 299 / (mx - mn)).
    { intros z. replace ((c * z - c * mn) * 299) with (c * ((z - mn) * 299)) by lia.
      apply Z.div_mul_cancel_l; lia. }
    cbn [map]. f_equal; [apply Hcell|]. rewrite map_map. apply map_ext. intros z. apply Hcell.
Qed.

Lemma is_bad_scale c l : map is_bad (map (scale_fval c) l) = map is_bad l.
Proof. rewrite map_map. apply map_ext. now intros []. Qed.

Lemma select_map {A B} (f : A -> B) m : forall l,
  select m (map f l) = map f (select m l).
Proof.
  induction m as [|b m IH]; intros [|x l]; cbn [map select]; try reflexivity.
  destruct b; cbn [map]; now rewrite IH.
Qed.

Lemma fin_val_scale c l :
  map fin_val (map (scale_fval c) l) = map (Z.mul c) (map fin_val l).
Proof. rewrite !map_map. apply map_ext. intros []; cbn; lia. Qed.

Lemma grid_scale_invariant (rng : Type) (seed47 : rng)
      (choice_st : rng -> Z -> Z -> list Z * rng) g ca cb a b samples ri :
  0 < ca -> 0 < cb ->
  mask_of (fst (downsample_grid rng seed47 choice_st g
                  (map (scale_fval ca) a) (map (scale_fval cb) b) samples ri))
  = mask_of (fst (downsample_grid rng seed47 choice_st g a b samples ri)).
Proof.
  intros Ha Hb. unfold downsample_grid. rewrite !is_bad_scale.
  set (bad := map2 orb (map is_bad a) (map is_bad b)). set (good := map negb bad).
  rewrite !select_map, !fin_val_scale.
  set (ad := map fin_val (select good a)). set (bd := map fin_val (select good b)).
  assert (E : grid_phase rng seed47 choice_st g (map (Z.mul ca) ad) (map (Z.mul cb) bd) samples good good
              = grid_phase rng seed47 choice_st g ad bd samples good good).
  { unfold grid_phase. rewrite !discretize_scale by assumption. unfold zlen. now rewrite map_length. }
  rewrite E. destruct (grid_phase rng seed47 choice_st g ad bd samples good good) as [[k1|e] g1]; [|reflexivity].
  destruct (pad_phase rng seed47 choice_st g1 k1 bad samples ri) as [[k|e] g2]; reflexivity.
Qed.

Example ex_scale :
  mask_of (fst (downsample_grid unit tt ex_choice tt (map (scale_fval 8) ex_a)
                                (map (scale_fval 1024) ex_b) 6 true))
  = inl [true; true; false; true; false; true; false; true; true].
Proof. vm_compute. reflexivity. Qed.

(* ======================================================================== *)
(* eligibility at the dataset level in terms of the unscaled features        *)
(* ======================================================================== *)
(* oracle hypothesis on the logarithm (checked by the harness on every array
   it scales): log x is nan/inf exactly when x is nan/inf or x <= 0 *)
Definition log_ok (f lf : list fval) : Prop := map is_bad lf = map log_bad f.

Definition scale_bad (log : bool) (x : fval) : bool :=
  if log then log_bad x else is_bad x.

Definition scaled_good (xlog ylog : bool) (xf yf : list fval) : list bool :=
  map2 (fun x y => negb (scale_bad xlog x || scale_bad ylog y)) xf yf.

Lemma select_map2 {A B C} (f : A -> B -> C) m : forall l l',
  length l = length l' ->
  map2 f (select m l) (select m l') = select m (map2 f l l').
Proof.
  induction m as [|b m IH]; intros [|x l] [|y l'] H; cbn [length] in H; try discriminate H;
    cbn [select map2]; try reflexivity.
  destruct b; cbn [map2]; rewrite IH by lia; reflexivity.
Qed.

Lemma map2_map_negb_orb {A B} (f : A -> bool) (g : B -> bool) l : forall l',
  map negb (map2 orb (map f l) (map g l')) = map2 (fun x y => negb (f x || g y)) l l'.
Proof.
  induction l as [|x l IH]; intros [|y l']; cbn [map map2]; try reflexivity. now rewrite IH.
Qed.

Lemma scaled_good_mask xf yf xlf ylf xlog ylog fall :
  length xf = length yf -> length xlf = length xf -> length ylf = length yf ->
  log_ok xf xlf -> log_ok yf ylf ->
  good_mask (select fall (apply_scale xlog xf xlf)) (select fall (apply_scale ylog yf ylf))
  = select fall (scaled_good xlog ylog xf yf).
Proof.
  intros Hxy Hxl Hyl Hx Hy. unfold good_mask, scaled_good.
  rewrite <- !select_map.
  assert (Ex : map is_bad (apply_scale xlog xf xlf) = map (scale_bad xlog) xf).
  { destruct xlog; [exact Hx|reflexivity]. }
  assert (Ey : map is_bad (apply_scale ylog yf ylf) = map (scale_bad ylog) yf).
  { destruct ylog; [exact Hy|reflexivity]. }
  rewrite Ex, Ey, select_map2 by (rewrite !map_length; exact Hxy).
  rewrite <- select_map. now rewrite map2_map_negb_orb.
Qed.

(* three valid points on a constant axis and the grid step runs: no error
   (the guard no_constant_axis only excludes four or more) *)
Example ex_constant_three :
  let a := [Fin 8; Fin 8; NaN; Fin 8] in
  let b := [Fin 0; Fin 9; Fin 1; Fin 30] in
  grid_runs a b 2 = true /\ axes_not_constant a b = false /\
  no_constant_axis a b 2 = true /\
  mask_of (fst (downsample_grid unit tt ex_choice tt a b 2 false))
  = inl [false; true; false; true].
Proof. vm_compute. repeat split; reflexivity. Qed.

(* a limit far beyond the data (and beyond 2^32) keeps everything *)
Example ex_limit_huge :
  fst (limit_events unit tt ex_choice tt [true; false; true; true] 1000000000000)
  = inl [true; false; true; true].
Proof. vm_compute. reflexivity. Qed.

Example ex_log_ok :
  log_ok [Fin 8; Fin 0; Fin (-3); NaN; PInf] [Fin 17; NInf; NaN; NaN; PInf].
Proof. reflexivity. Qed.

(* ======================================================================== *)
(* signed integer input arrays: norm() wraps in the dtype of the array        *)
(* ======================================================================== *)
Lemma wrap_int_small w x :
  0 < w -> - 2 ^ (w - 1) <= x < 2 ^ (w - 1) -> wrap_int w x = x.
Proof.
  intros Hw Hx. unfold wrap_int.
  assert (E : 2 ^ w = 2 * 2 ^ (w - 1)).
  { replace w with (Z.succ (w - 1)) at 1 by lia. rewrite Z.pow_succ_r by lia. reflexivity. }
  rewrite E. rewrite Z.mod_small by lia. lia.
Qed.

(* the range of the (valid) values fits the dtype: same cells as for floats *)
Lemma discretize_int_no_wrap w ad :
  0 < w -> ptp ad < 2 ^ (w - 1) -> discretize_int w ad = discretize ad.
Proof.
  intros Hw Hp. destruct ad as [|z0 r]; [reflexivity|].
  unfold ptp in Hp. unfold discretize_int, discretize, zmin_list, zmax_list in *.
  destruct (fold_min_le r z0) as [Hmn Hmnall]. destruct (fold_max_ge r z0) as [Hmx Hmxall].
  set (mn := fold_left Z.min r z0) in *. set (mx := fold_left Z.max r z0) in *.
  assert (Hpow : 0 < 2 ^ (w - 1)) by (apply Z.pow_pos_nonneg; lia).
  rewrite (wrap_int_small w (mx - mn)) by lia.
  destruct (mx - mn =? 0) eqn:E; [reflexivity|].
  assert (Hall : Forall (fun z => mn <= z <= mx) (z0 :: r)).
  { constructor; [lia|]. rewrite Forall_forall in *. intros z Hz.
    specialize (Hmnall z Hz). specialize (Hmxall z Hz). lia. }
  apply map_ext_in. intros z Hz. rewrite Forall_forall in Hall. specialize (Hall z Hz).
  rewrite (wrap_int_small w (z - mn)) by lia.
  rewrite Z.quot_div_nonneg by lia.
  apply Z.mod_small. split.
  - apply Z.div_pos; lia.
  - enough ((z - mn) * 299 / (mx - mn) <= 299) by lia.
    apply Z.div_le_upper_bound; [lia|]. nia.
Qed.

Lemma grid_int_no_wrap (rng : Type) (seed47 : rng)
      (choice_st : rng -> Z -> Z -> list Z * rng) w g a b samples ri :
  0 < w ->
  ptp (map fin_val (select (good_mask a b) a)) < 2 ^ (w - 1) ->
  ptp (map fin_val (select (good_mask a b) b)) < 2 ^ (w - 1) ->
  downsample_grid_int rng seed47 choice_st w g a b samples ri
  = downsample_grid rng seed47 choice_st g a b samples ri.
Proof.
  intros Hw Ha Hb. unfold downsample_grid_int, downsample_grid, grid_phase_int, grid_phase.
  change (map negb (map2 orb (map is_bad a) (map is_bad b))) with (good_mask a b).
  now rewrite !discretize_int_no_wrap by assumption.
Qed.

(* int16 values spanning more than 32767: IndexError for every oracle *)
Lemma grid_int_wrap_refuted :
  exists a b samples ri,
    length a = length b /\ 0 <= samples <= zlen a /\
    Forall (fun v => - 32768 <= fin_val v < 32768) a /\
    no_constant_axis a b samples = true /\
    forall (rng : Type) (seed47 : rng) choice_st g,
      fst (downsample_grid_int rng seed47 choice_st 16 g a b samples ri) = Err ErrIndex.
Proof.
  exists [Fin (-20000); Fin 20000; Fin 0; Fin 1; Fin 2],
         [Fin 0; Fin 1; Fin 2; Fin 3; Fin 4], 2, true.
  split; [reflexivity|]. split; [cbn; lia|]. split; [repeat constructor; cbn; lia|].
  split; [reflexivity|]. intros. reflexivity.
Qed.

Example ex_int_no_wrap :
  ptp (map fin_val [Fin (-100); Fin 300; Fin 7]) < 2 ^ (16 - 1) /\
  discretize_int 16 [-100; 300; 7] = [0; 299; 79].
Proof. split; [cbn; lia|reflexivity]. Qed.
